#!/bin/bash
# usage: tools/merge_wp.sh <wp verif dir>   -- 3-way merges a work-package copy (taken at its git HEAD) into /verif
wp=$1
base=$(git -C $wp rev-parse HEAD)
cd $wp
for f in $(git status --short | grep -v "evidence/\|replays/\|coverage/\|lean/Audit\|lean/.lake" | awk '{print $2}'); do
  if [ ! -e /verif/$f ] || ! git -C /verif cat-file -e $base:$f 2>/dev/null; then
    mkdir -p /verif/$(dirname $f); cp -r $f /verif/$f; echo "new      $f"; continue
  fi
  git -C /verif show $base:$f > /tmp/merge_base.$$
  if cmp -s /tmp/merge_base.$$ /verif/$f; then cp $f /verif/$f; echo "updated  $f"
  else
    if git merge-file -q /verif/$f /tmp/merge_base.$$ $f; then echo "merged   $f"; else echo "CONFLICT $f"; fi
  fi
done
rm -f /tmp/merge_base.$$
