#!/usr/bin/env python3
"""usage: store_seeded.py <ID> <k> "<caught by>" "<initially missed? note>"  -- stores a confirmed mutation under seeded/"""
import json, os, shutil, sys
ID, k, caught, note = sys.argv[1], sys.argv[2], sys.argv[3], (sys.argv[4] if len(sys.argv) > 4 else '')
src = '/tmp/mutwt/%s.out' % ID
rnd = os.environ.get('ROUND', '')
dst = '/verif/seeded/%s-%sm%s' % (ID, rnd, k)
os.makedirs(dst, exist_ok=True)
shutil.copy(os.path.join(src, 'm%s.diff' % k), os.path.join(dst, 'patch.diff'))
shutil.copy(os.path.join(src, 'm%s_demo.py' % k), os.path.join(dst, 'demo.py'))
m = json.load(open(os.path.join(src, 'm%s.json' % k)))
meta = {
    'property': ID,
    'summary': m.get('summary'),
    'needs_to_manifest': m.get('needs'),
    'files': m.get('files'),
    'author': 'independent sub-agent given only the property text and a scratch worktree of /repo',
    'confirmed': {
        'existing_suite_on_mutated_tree': '468 passed, 2 failed (the 2 known failures of the baseline), 2 skipped',
        'demo_on_unchanged_tree': 'PASS (exit 0)',
        'demo_on_mutated_tree': 'FAIL (exit 1)',
        'how': 'tools/confirm_mut.sh %s %s (scratch worktree; demo run with PYTHONPATH=<worktree>; checks run with '
               'PYTHONPATH=<worktree> VERIF_ALLOW_REPO=<worktree>); equivalently: git -C /repo apply patch.diff; '
               './check <id>; git -C /repo checkout -- .' % (ID, k),
    },
    'caught_by': caught.split(),
    'note': note,
}
json.dump(meta, open(os.path.join(dst, 'meta.json'), 'w'), indent=1)
print('stored', dst)
