#!/usr/bin/env python3
"""usage: mk_mut_property.py <ID> [<ID> ...]  -- writes /tmp/mutwt/<ID>.property.txt (property text from properties.jsonl
plus the one-sentence summaries of the changes already kept under seeded/ for that property; nothing else from /verif)
and (re)creates the scratch worktree /tmp/mutwt/<ID> and an empty /tmp/mutwt/<ID>.out"""
import glob, json, os, subprocess, sys, shutil
V = os.path.dirname(os.path.dirname(os.path.abspath(__file__)))
props = {json.loads(l)['id']: json.loads(l) for l in open(os.path.join(V, 'properties.jsonl'))}
for ID in sys.argv[1:]:
    p = props[ID]
    q = p.get('quantifier', {})
    txt = 'PROPERTY %s: %s\n\nSTATEMENT: %s\n\nQUANTIFIER: %s\n\nWHY TESTS CANNOT SETTLE IT: %s\n\nANCHORS (files / mechanisms): %s\n' % (
        ID, p['title'], p['statement'], q.get('text', q) if isinstance(q, dict) else q, p.get('why_tests_cant', ''),
        json.dumps(p.get('anchors'), indent=1))
    known = []
    for d in sorted(glob.glob(os.path.join(V, 'seeded', '*'))):
        try:
            m = json.load(open(os.path.join(d, 'meta.json')))
        except Exception:
            continue
        if m.get('property') == ID or ID in m.get('caught_by', []):
            known.append(m['summary'])
    if known:
        txt += '\nALREADY KNOWN MUTATIONS (find DIFFERENT mechanisms, in different functions where possible; these do not count):\n'
        txt += ''.join(' - %s\n' % s for s in known)
    os.makedirs('/tmp/mutwt', exist_ok=True)
    open('/tmp/mutwt/%s.property.txt' % ID, 'w').write(txt)
    wt = '/tmp/mutwt/%s' % ID
    if not os.path.isdir(wt):
        subprocess.run('git -C /repo worktree prune; git -C /repo worktree add --detach %s HEAD' % wt, shell=True, check=True,
                       stdout=subprocess.DEVNULL, stderr=subprocess.DEVNULL)
    out = '/tmp/mutwt/%s.out' % ID
    shutil.rmtree(out, ignore_errors=True); os.makedirs(out)
    print(ID, len(known), 'known; worktree', wt)
