#!/venv/bin/python
"""prints, per property, the lines of the anchored functions that the last run of the check did not execute
(from evidence/Cxx.json: anchor_line_coverage)"""
import json, glob, os, sys, linecache
sys.path.insert(0, '/verif')
from harness import anchors
import inspect


def find(d, k):
    if isinstance(d, dict):
        if k in d:
            return d[k]
        for v in d.values():
            r = find(v, k)
            if r is not None:
                return r
    return None


ids = sys.argv[1:] or sorted(anchors.ANCHORS)
for pid in ids:
    p = '/verif/evidence/%s.json' % pid
    if not os.path.exists(p):
        continue
    cov = find(json.load(open(p)), 'anchor_line_coverage')
    if not cov:
        print(pid, '(no coverage recorded)')
        continue
    tot = sum(v['lines'] for v in cov.values())
    ex = sum(v['executed'] for v in cov.values())
    print('== %s: %d/%d lines' % (pid, ex, tot))
    for name, v in cov.items():
        if not v['not_executed']:
            continue
        obj = inspect.unwrap(anchors._resolve(name))
        fn = obj.__code__.co_filename
        print('  %s (%d/%d)' % (name, v['executed'], v['lines']))
        for ln in v['not_executed']:
            print('    %5d: %s' % (ln, linecache.getline(fn, ln).rstrip()[:110]))
