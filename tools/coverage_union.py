#!/venv/bin/python
"""Package-wide view of what the correspondence / oracle runs execute: for every function of tweakwcs
(tests excluded) the executable lines that NO check's last run reached (union of coverage/*.json, written
by ./check).  A line no case executes cannot be tied to the model, and a change there cannot be noticed."""
import glob, json, os, sys, linecache, types
import tweakwcs

root = os.path.dirname(os.path.abspath(tweakwcs.__file__))
hits = {}
for p in glob.glob('/verif/coverage/*.json'):
    for fn, lines in json.load(open(p)).items():
        hits.setdefault(fn, set()).update(lines)


def code_objects(code, qual=''):
    for c in code.co_consts:
        if isinstance(c, types.CodeType):
            name = (qual + '.' if qual else '') + c.co_name
            yield name, c
            yield from code_objects(c, name)


tot = ex = 0
verbose = '-v' in sys.argv
for path in sorted(glob.glob(root + '/*.py')):
    fn = os.path.basename(path)
    if fn.startswith('_') and fn != '__init__.py':
        continue
    src = open(path).read()
    top = compile(src, path, 'exec')
    h = hits.get(fn, set())
    rows = []
    for name, c in code_objects(top):
        if not (c.co_flags & 0x1):
            continue   # class body: executed at import time, before the run is observed
        lines = {ln for _, _, ln in c.co_lines() if ln is not None and ln > c.co_firstlineno}
        # lines of nested code objects are reported with the nested object
        for _n, cc in code_objects(c):
            lines -= {ln for _, _, ln in cc.co_lines() if ln is not None}
        if not lines:
            continue
        miss = sorted(lines - h)
        tot += len(lines)
        ex += len(lines) - len(miss)
        if miss:
            rows.append((name, len(lines), miss))
    print('== %s' % fn)
    for name, n, miss in rows:
        print('  %s: %d of %d lines not executed by any check' % (name, len(miss), n))
        if verbose:
            for ln in miss:
                print('    %5d: %s' % (ln, linecache.getline(path, ln).rstrip()[:110]))
print('TOTAL: %d of %d executable lines inside functions executed by at least one check (%.1f%%)'
      % (ex, tot, 100.0 * ex / max(tot, 1)))
