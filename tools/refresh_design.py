#!/usr/bin/env python3
"""Regenerates the two generated blocks of DESIGN.md in place: the table of seeded changes (section 0.4, from
seeded/*/meta.json via tools/seeded_table.py) and the theorem index of Appendix B (tools/theorem_index.py)."""
import os, re, subprocess, sys
V = os.path.dirname(os.path.dirname(os.path.abspath(__file__)))
p = os.path.join(V, 'DESIGN.md')
s = open(p).read().split('\n')
tab = subprocess.run([sys.executable, os.path.join(V, 'tools', 'seeded_table.py')], capture_output=True, text=True).stdout.rstrip('\n').split('\n')
idx = subprocess.run([sys.executable, os.path.join(V, 'tools', 'theorem_index.py')], capture_output=True, text=True).stdout.rstrip('\n').split('\n')
# (a) table
a = next(i for i, l in enumerate(s) if l.startswith('| seeded change'))
b = a
while b < len(s) and s[b].startswith('|'):
    b += 1
s[a:b] = [l for l in tab if l.startswith('|')]
# (b) theorem index: from the first '**C01** (' line to the last '**Cxx** (' line
a = next(i for i, l in enumerate(s) if re.match(r'^\*\*C01\*\* \(', l))
b = max(i for i, l in enumerate(s) if re.match(r'^\*\*C\d\d\*\* \(', l)) + 1
s[a:b] = idx
open(p, 'w').write('\n'.join(s))
print('table rows:', sum(1 for l in tab if l.startswith('| `')), ' index entries:', sum(1 for l in idx if l.startswith('**C')))
