#!/bin/bash
# usage: tools/confirm_mut.sh <ID> <k> "<check ids>" [skiptests]
# Confirms mutation k of property ID delivered in /tmp/mutwt/<ID>.out using the scratch worktree /tmp/mutwt/<ID>:
#  demo passes on the unchanged tree, fails on the mutated one; the existing suite still passes on the mutated tree;
#  then runs the given checks against the mutated worktree (PYTHONPATH + VERIF_ALLOW_REPO) and reports.
ID=$1; k=$2; ids=$3; skip=$4
wt=/tmp/mutwt/$ID; out=/tmp/mutwt/$ID.out
cd $wt || exit 2
git checkout -q -- . ; git apply --check $out/m$k.diff || { echo "patch does not apply"; exit 2; }
PYTHONPATH=$wt timeout 600 /venv/bin/python $out/m${k}_demo.py > /tmp/mutwt/$ID.demo_clean.log 2>&1; echo "demo on unchanged tree: rc=$? ($(tail -1 /tmp/mutwt/$ID.demo_clean.log | cut -c1-100))"
git apply $out/m$k.diff
PYTHONPATH=$wt timeout 600 /venv/bin/python $out/m${k}_demo.py > /tmp/mutwt/$ID.demo_mut.log 2>&1; echo "demo on mutated tree:   rc=$? ($(tail -1 /tmp/mutwt/$ID.demo_mut.log | cut -c1-100))"
if [ -z "$skip" ]; then
  PYTHONPATH=$wt timeout 1500 /venv/bin/python -m pytest -q -p no:cacheprovider --timeout=900 2>&1 | tail -1
fi
cd /verif
for p in $ids; do
  mkdir -p /tmp/mutwt/$ID.ev; o=$(PYTHONPATH=$wt VERIF_ALLOW_REPO=$wt VERIF_EVIDENCE_DIR=/tmp/mutwt/$ID.ev VERIF_REPLAY_DIR=/tmp/mutwt/$ID.ev timeout 3000 ./check $p 2>&1); rc=$?
  echo "check $p rc=$rc $(echo "$o" | grep -E "^C[0-9]+ tier|VIOLATION|INFRA" | tr '\n' ' ' | cut -c1-260)"
done
git -C $wt checkout -q -- .
