#!/usr/bin/env python3
"""prints a markdown index of the property theorems (Proofs/Cxx.lean), with their doc comments' first line"""
import glob, os, re
L = '/verif/lean/Proofs'
for f in sorted(glob.glob(L + '/C[0-9][0-9].lean')):
    pid = os.path.basename(f)[:-5]
    src = open(f).read()
    items = []
    for m in re.finditer(r'(?:/--(.*?)-/\s*)?(?:@\[[^\]]*\]\s*)?theorem\s+(\S+)', src, re.S):
        doc = (m.group(1) or '').strip().replace('\n', ' ')
        doc = re.sub(r'\s+', ' ', doc)
        items.append((m.group(2), doc[:160]))
    print('**%s** (%d theorems): ' % (pid, len(items)) + '; '.join('`%s`' % n for n, _ in items) + '\n')
