#!/usr/bin/env python3
"""Regenerates MANIFEST.json from the table below (keeps the file valid and current)."""
import json, os
V = os.path.dirname(os.path.dirname(os.path.abspath(__file__)))

COMMON_NOTE = ("Trusted: Lean 4 kernel (+ propext, Classical.choice, Quot.sound where Mathlib uses them; printed per "
               "theorem on every run; no sorry, no native_decide, no added axioms), the Lean compiler for the model "
               "driver, the correspondence harness (harness/), CPython/numpy. The theorems are about the hand-written "
               "model (lean/Model); the tie to /repo is the correspondence check run on every invocation. ")

CHECKS = {
 'C01': dict(
   text="Theorems: for EVERY prior state of the corrector (any well-formed state: never corrected, corrected, re-wrapped) "
        "and every geometry, the reported fit (F, s) re-centred to the origin is exactly what the corrected WCS does in "
        "the plane of the fit (reported = applied; no exactness hypothesis, so reported residuals and every statistic of "
        "them are the residuals measured through the corrected WCS), and if the fit maps an image source onto its "
        "reference position the corrected WCS lands it there - gWCS (reference plane and default own plane, arbitrary "
        "bijective pipeline pieces) and FITS (flat sky). END TO END: for noise-free references (positively weighted "
        "points suffice) the model of iter_linear_fit followed by fit2ref's re-centring returns the generating map "
        "exactly whatever nclip, sigma, clip_accum, centre and weights are (general, shift, proper rscale, rshift; "
        "align_exact_*), and composed with the corrector models every pixel lands on T of its old tangent-plane position "
        "(gwcs_align_exact_*, fits_align_exact_general). "
        "Correspondence: the corrector models fed with the REPORTED matrix/shift predict the chart position of every "
        "source after real fit_wcs / align_wcs(match=None) runs over geometries, histories, fitgeoms, weights. Oracle: "
        "status, landing error, reported vs measured rmse, fit_RA/DEC, matrix/shift vs truth.",
   note="FITS curvature and floating-point rounding are tolerances (second-order bound; gWCS 1e-7 arcsec up to 20 arcsec "
        "corrections, scaling beyond because set_correction differentiates the plane-to-plane map numerically). The "
        "catalog plumbing of wcsimage (projection into the plane of the fit, index bookkeeping) is exercised by the "
        "correspondence, not modelled line by line.",
   technique="Lean 4 proof (composition of the fit result with the corrector state machines) + differential correspondence",
   ref="5/C01"),
 'C02': dict(
   text="Theorems: for a gWCS corrector in ANY well-formed state (never corrected, corrected, re-wrapped) and ARBITRARY "
        "bijective pipeline pieces (every pointing/roll/distortion/velocity-aberration frame) "
        "old.world_to_tanp(new.det_to_world(p)) = M*old.det_to_tanp(p)+s, in the own plane and (flat-sky hypothesis on the "
        "plane-to-plane map) in a reference plane, with _tp2tp recovered exactly from its four sample points; for FITS "
        "(flat-sky model, arbitrary distortion) the same in own and reference plane, exact at the reference pixel with NO "
        "idealisation, the 9-point stencil exact for quartics; the pre-fix tangent plane of a corrected gWCS applies the "
        "affine twice. Correspondence: histories + one correction on real FITS (CD/PC/SIP) and mock gWCS correctors "
        "against the models (chart positions of 10 probes, frames). Oracle: the identity itself on the implementation "
        "within the rounding / second-order / first-order bounds of the property.",
   note="Modelled rather than verified: gnomonic curvature (FITS own plane: second order; reference plane at another "
        "tangent point: first order) and floating-point rounding are tolerances, not theorems; wcslib/gwcs evaluate the "
        "fixed pipeline pieces.",
   technique="Lean 4 proof (affine algebra over an ordered field, invariant over correction histories) + differential correspondence",
   ref="5/C02"),
 'C03': dict(
   text="Theorems: in every state reachable by any sequence of admissible operations (corrections in own or reference "
        "plane, copy, re-wrap) the six conversions are pairwise inverse and commute (nine identities each for gWCS with "
        "arbitrary bijective pipeline pieces and for FITS with arbitrary bijective distortion); conversions are pointwise "
        "maps so shape is preserved. The V2V3 <-> tangent-plane piece of the gWCS pipeline is also modelled CONCRETELY "
        "(_tpcorr_init / _v2v3_to_tpcorr_from_full: unit conversion, s2c, RotationSequence3D 'zyx', c2tan, affine, tan2c, "
        "inverse rotation, c2s): the rotation sequence is orthogonal for all angles and its .inverse is the transpose; "
        "U(Uinv x) = x for EVERY plane point; Uinv(U v) = v exactly on the open hemisphere facing the reference direction "
        "(decidable domain predicate, shown necessary); total_corr is inverted by its inverse, composes as the affine maps "
        "compose (also through _tpcorr_combine_affines), and the nine corrector identities hold for the concrete pipeline "
        "on that domain (D and R still arbitrary bijections). Correspondence: det_to_tanp / sky chart positions of the "
        "models vs real correctors after histories; the real total_corr, its inverse, the partial transforms, the "
        "rotation matrices and the accumulated affines vs the Float driver, the Cartesian core in exact rationals. Oracle: "
        "textbook gnomonic projection in long double, ground truth by construction; all round trips and triangles on real correctors for scalar, 0-d, (n,), (1,), (0,), "
        "(m,n) inputs and the WCSImageCatalog wrappers.",
   note="Invertibility of the remaining fixed pieces (detector->V2V3 distortion, V2V3->sky, wcslib iteration, gwcs "
        "numerical inverses) and numpy broadcasting are checked by the oracle, not proved; real arithmetic stands for floats.",
   technique="Lean 4 proof (state invariant by induction over operation sequences; real-analysis lemmas for the sphere) "
             "+ differential correspondence",
   ref="5/C03"),
 'C04': dict(
   text="Theorems: gWCS - two corrections equal the single (M2M1, M2s1+s2) as STATES, in the own plane and in one fixed "
        "reference plane; identity; inverse; re-wrapping is the identity on every reachable state (bisimulation); exactly "
        "one v2v3corr frame, the other frames keep their order and the frame list stays valid for _check_wcs_structure "
        "(so re-wrapping never raises), by induction over arbitrary histories. FITS (flat "
        "sky) - own plane (M1M2, M1s2+s1), reference plane (M2M1, M2s1+s2), identity, inverse. Correspondence: histories "
        "of 0..6 ops compared with the models after EVERY step (chart positions, frame lists, pipeline validity). "
        "Oracle: the laws on real correctors, original_wcs snapshots, independence of copies.",
   note="Aliasing (original WCS, copies) lives in the Python runtime: decided by snapshots on real objects. Curvature and "
        "rounding as for C02.",
   technique="Lean 4 proof (group laws of affine maps, bisimulation and frame-count invariants by induction) + differential correspondence",
   ref="5/C04"),
 'C18': dict(
   text="Theorems: set_correction (any reference plane, any arguments, any operation sequence) preserves CRPIX, CDELT and "
        "the CD-versus-PC flag; CD and PC+CDELT descriptions of one WCS remain twins (equal sky mapping) after any "
        "sequence of corrections; missing / non-celestial WCS is rejected (decision logic). Correspondence: the FCorr "
        "model on both twins vs real astropy WCS twins, new CRVAL vs model. Oracle: attribute-by-attribute snapshots "
        "(crpix, ctype, cdelt, cunit, SIP arrays, lookup tables, pixel shape/bounds, representation), header round trip, "
        "ValueError at construction.",
   note="Header serialisation and wcslib are astropy's: compared, not modelled.",
   technique="Lean 4 proof (frame conditions, twin invariant by induction) + attribute snapshots on real objects",
   ref="5/C18"),
 'C20': dict(
   text="Theorems: the shoelace sum of the code equals -2 det J for EVERY map with arbitrary linear and quadratic terms "
        "about the pixel centre, so tanp_pixel_scale = sqrt|det J| (over the reals); composing with an affine correction "
        "multiplies it by sqrt|det M| (gWCS), FITS scale is independent of the history; the centre position is the "
        "detector position of the tangent point. Correspondence: model shoelace on the real corner images. Oracle: "
        "finite-difference Jacobian of the real det_to_tanp over geometries, positions and histories; units.",
   note="Square root, higher-than-quadratic distortion terms and rounding are outside the theorems (tolerance 1e-7).",
   technique="Lean 4 proof (polynomial identity, ring) + finite-difference oracle",
   ref="5/C20"),
 'C05': dict(
   text="Theorems (flat-sky model): every FITS member of a group corrected with the same (M, s, plane) is moved by ONE "
        "sky-level affine G = P^-1 (M,s) P whatever its tangent point, orientation, scale, distortion or history, so the "
        "relative geometry of members is preserved; every gWCS member is moved by (M, s) in the plane of the fit; G is "
        "unchanged when plane and correction are conjugated together ((QP)^-1 (Q f Q^-1) (QP) = P^-1 f P), hence the "
        "same sky positions for any plane of the fit given an equivariant fit (C08). Correspondence: corrector models "
        "fed with the reported (M, s) and the plane vs every member after real align_wcs runs on groups of 1..4 mixed "
        "FITS/gWCS members. Oracle: landing of all members, identical fit_info, rigidity on probe pixels, repeat in an "
        "alternative plane (rotated / scaled / other corrector type). ADDED: the whole of align_to_ref at group level (Model/GroupAlign): group_align_exact* - if every matched pair's reference position is T of the group row it names, the reported fit is T, EVERY member at EVERY position (matched or not, empty catalog or not) moves by the one map T and every matched row lands on its reference position (FITS flat sky and gWCS with arbitrary bijective pipeline pieces, all four geometries), group_align_reported_is_applied (no exactness hypothesis), group_align_weights, group_align_plane_independent(_exact), group_align_can_be_iterated; correspondence of real align_to_ref on FITS groups with a fake matcher in exact rationals; several images in one call in a shared user-supplied plane (finding F29, repaired); group_zero_weight_source_irrelevant (two groups differing only in sources without weight get the same fit and the same corrected WCS of every member) and group_align_exact_weighted (only the positively weighted pairs need be noise-free).",
   note="On the sphere the statements hold up to the first-order plane-to-plane term (correction size x tangent-point "
        "separation x field size) that the property itself allows: tolerance, not theorem. For rshift/rscale the "
        "alternative plane must be a conformal chart (the family is closed only under similarities).",
   technique="Lean 4 proof (conjugation algebra of affine maps) + differential correspondence on real groups",
   ref="5/C05"),
 'C07': dict(
   text="Theorems (for EVERY single-shot fitter, statistic, residual norm and scalar type, by induction on the number of "
        "passes): after each effective pass the retained set is exactly {base AND rnorm(current fit) < nsigma*stat(current "
        "fit)} with base = wmask or the previous mask under clip_accum; a pass stops exactly when fewer than minobj would "
        "remain or the set would not change; the returned fit is the plain fit of the returned fitmask; monotone under "
        "clip_accum; fitmask subset of wmask; eff_nclip <= nclip; run(n+1) = step(run n) with stopped states and raised "
        "exceptions as fixpoints, so the answers for nclip = 0,1,2,... are one history; residuals and statistics refer "
        "to the fitmask points; the root-free (squared) test used for exact rationals is equivalent to the code's test. "
        "A proved example shows the pre-fix update rule re-admitting a clipped outlier untested. Correspondence: the "
        "whole nclip = 0..8 history of the real iter_linear_fit against the model (all fitgeom, sigma, rmse/mae/std, "
        "clip_accum, weight modes; exact-tie corpus on power-of-two lattices). Oracle: the property statement "
        "re-implemented on top of the implementation's own single-shot fitters.",
   note="Rounding is outside the model (long double in the code, double in the driver): a tested residual within 1e-9 "
        "relative of the cutoff is a counted near-tie; fits through exactly minobj points and two-point rscale ties are "
        "skipped and counted.",
   technique="Lean 4 proof (invariants by induction over clipping passes, parametric in the fitter; simulation lemma) + differential correspondence of whole histories",
   ref="5/C07"),
 'C09': dict(
   text="Theorems: two inputs that agree on the positively weighted pairs (coordinates of the others arbitrary) give the "
        "identical full result of the model of iter_linear_fit for every nclip, fitter, metric and scalar type, and "
        "fitmask is False on the others; with both weight vectors the pair weight is harmonic (1/w = 1/a + 1/b, 0 unless "
        "both positive) in all three fitters and equals the call with the explicit harmonic vector; in the model of "
        "create_group_catalog / fit2ref the weight at group index offset_i + j is image i's j-th weight and pair k "
        "receives wref[ref_idx k] and wim[input_idx k] with xy = reference, uv = image. Correspondence: iterfit and "
        "pairargs ops against the real code. Oracle: corrupting zero-/negative-weight sources with 1e12 coordinates, "
        "explicit harmonic weights, groups of 1..3 real images with distinctive weight columns matched in shuffled order "
        "against a direct iter_linear_fit call.",
   note="astropy Table concatenation and numpy fancy indexing are exercised by the correspondence, not modelled beyond "
        "list concatenation and indexing (the masked outer join of expand_catalog is modelled in Model/GroupCat). Open "
        "finding F28 (one-sided weight columns after an expansion of the reference catalog) is reported as KNOWN-FINDING.",
   technique="Lean 4 proof (frame argument on the masked data; list indexing lemmas) + metamorphic oracle on the implementation",
   ref="5/C09"),
 'C17': dict(
   text="Theorems for every order n over any linearly ordered field: whatever the model of linalg.inv returns is the "
        "two-sided inverse (and therefore the unique one); a singular matrix can only produce the singular error; an "
        "invertible matrix is inverted for every threshold below the smallest pivot of the (threshold-independent) "
        "elimination (inv_total), and a singular exit on regular input means a non-zero pivot below the threshold; "
        "non-square input is rejected; collinear points make the model of fit_general fail; too few points are "
        "rejected. Correspondence: inv on 9 matrix families of order 1..8 against the model on exact rationals and "
        "on doubles. Oracle: exact Fraction inverse, numpy, residual bound 64 n cond eps, purity, exceptions.",
   note="Modelled rather than verified: real arithmetic (rounding bound and NaN/inf handling are checked by the "
        "oracle only); the numpy fall-back path of inv is not modelled (the oracle runs on it by toggling the module "
        "flag). Finding F13 (fit_general on collinear points with inexact elimination) was repaired in /repo (7128071); its "
        "witness and the weighted degenerate configurations are regression probes of every run.",
   technique="Lean 4 proof (Gauss-Jordan invariant, induction over elimination steps) + differential correspondence",
   ref="5/C17"),
}

REASON_WIP = "check not yet built in this revision (planned: DESIGN.md section 5); not claimed until its theorems and correspondence run"

def main():
    ex = os.path.join(V, 'tools', 'checks_extra.json')
    if os.path.exists(ex):
        for k, v in json.load(open(ex)).items():
            CHECKS.setdefault(k, v)
    props = [json.loads(l) for l in open(os.path.join(V, 'properties.jsonl'))]
    checks = []
    na = []
    for p in props:
        pid = p['id']
        c = CHECKS.get(pid)
        if c is None:
            na.append({'property_id': pid, 'reason': REASON_WIP})
            continue
        checks.append({
            'property_id': pid,
            'quick_cmd': './check %s --tier quick' % pid,
            'thorough_cmd': './check %s --tier thorough' % pid,
            'evidence_file': 'evidence/%s.json' % pid,
            'replay_cmd_template': './check {property} --replay {path}',
            'engine': 'lean4-model',
            'level_claimed': {'category': 'proof', 'text': c['text'], 'design_ref': 'DESIGN.md section ' + c['ref']},
            'level_note': (COMMON_NOTE + c['note']) if not c['note'].startswith('Trusted') else c['note'],
            'technique': c['technique'],
        })
    m = {
        'version': 1,
        'setup_cmd': 'cd lean && lake build',
        'hooks': {
            'guard': 'TWEAKWCS_VERIF',
            'enable': 'no source hooks are needed: instrumentation is done from the harness process (method wrapping, log handlers)',
            'baseline_off_cmd': 'cd /repo && /venv/bin/python -m pytest -ra -q -p no:cacheprovider --timeout=900 --continue-on-collection-errors',
            'source_commits': [],
            'add_only': True,
        },
        'engines': [{'name': 'lean4-model', 'path': 'lean/', 'serves_properties': [c['property_id'] for c in checks],
                     'kind_free_text': 'Lean 4 model + theorems (lake project, Mathlib from the toolchain path), compiled line-protocol driver, python correspondence harness'}],
        'checks': checks,
        'not_applicable': na,
        'notes': 'See DESIGN.md. Genuine defects repaired in /repo are listed in known_findings.json (fixed:), open findings are reported as KNOWN-FINDING lines.',
    }
    with open(os.path.join(V, 'MANIFEST.json'), 'w') as f:
        json.dump(m, f, indent=1)
    print('checks:', [c['property_id'] for c in checks], 'not_applicable:', len(na))

if __name__ == '__main__':
    main()
