#!/usr/bin/env python3
"""Regenerates MANIFEST.json from the table below (keeps the file valid and current)."""
import json, os
V = os.path.dirname(os.path.dirname(os.path.abspath(__file__)))

COMMON_NOTE = ("Trusted: Lean 4 kernel (+ propext, Classical.choice, Quot.sound where Mathlib uses them; printed per "
               "theorem on every run; no sorry, no native_decide, no added axioms), the Lean compiler for the model "
               "driver, the correspondence harness (harness/), CPython/numpy. The theorems are about the hand-written "
               "model (lean/Model); the tie to /repo is the correspondence check run on every invocation. ")

CHECKS = {
 'C17': dict(
   text="Theorems for every order n over any linearly ordered field: whatever the model of linalg.inv returns is the "
        "two-sided inverse (and therefore the unique one); a singular matrix can only produce the singular error; "
        "non-square input is rejected; collinear points make the model of fit_general fail; too few points are "
        "rejected. Correspondence: inv on 9 matrix families of order 1..8 against the model on exact rationals and "
        "on doubles. Oracle: exact Fraction inverse, numpy, residual bound 64 n cond eps, purity, exceptions.",
   note="Modelled rather than verified: real arithmetic (rounding bound and NaN/inf handling are checked by the "
        "oracle only); the numpy fall-back path of inv is not modelled. inv_total (an invertible matrix never "
        "triggers the singular exit as eps -> 0) is not yet proved.",
   technique="Lean 4 proof (Gauss-Jordan invariant, induction over elimination steps) + differential correspondence",
   ref="5/C17"),
}

REASON_WIP = "check not yet built in this revision (planned: DESIGN.md section 5); not claimed until its theorems and correspondence run"

def main():
    props = [json.loads(l) for l in open(os.path.join(V, 'properties.jsonl'))]
    checks = []
    na = []
    for p in props:
        pid = p['id']
        c = CHECKS.get(pid)
        if c is None:
            na.append({'property_id': pid, 'reason': REASON_WIP})
            continue
        checks.append({
            'property_id': pid,
            'quick_cmd': './check %s --tier quick' % pid,
            'thorough_cmd': './check %s --tier thorough' % pid,
            'evidence_file': 'evidence/%s.json' % pid,
            'replay_cmd_template': './check {property} --replay {path}',
            'engine': 'lean4-model',
            'level_claimed': {'category': 'proof', 'text': c['text'], 'design_ref': 'DESIGN.md section ' + c['ref']},
            'level_note': COMMON_NOTE + c['note'],
            'technique': c['technique'],
        })
    m = {
        'version': 1,
        'setup_cmd': 'cd lean && lake build',
        'hooks': {
            'guard': 'TWEAKWCS_VERIF',
            'enable': 'no source hooks are needed: instrumentation is done from the harness process (method wrapping, log handlers)',
            'baseline_off_cmd': 'cd /repo && /venv/bin/python -m pytest -ra -q -p no:cacheprovider --timeout=900 --continue-on-collection-errors',
            'source_commits': [],
            'add_only': True,
        },
        'engines': [{'name': 'lean4-model', 'path': 'lean/', 'serves_properties': [c['property_id'] for c in checks],
                     'kind_free_text': 'Lean 4 model + theorems (lake project, Mathlib from the toolchain path), compiled line-protocol driver, python correspondence harness'}],
        'checks': checks,
        'not_applicable': na,
        'notes': 'See DESIGN.md. Genuine defects repaired in /repo are listed in known_findings.json (fixed:), open findings are reported as KNOWN-FINDING lines.',
    }
    with open(os.path.join(V, 'MANIFEST.json'), 'w') as f:
        json.dump(m, f, indent=1)
    print('checks:', [c['property_id'] for c in checks], 'not_applicable:', len(na))

if __name__ == '__main__':
    main()
