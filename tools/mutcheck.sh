#!/bin/bash
# usage: tools/mutcheck.sh <patch-file | "revert:<commit>"> "<ids>"  -- applies a change to /repo, runs checks, undoes it
m=$1; ids=$2
cd /repo || exit 2
if [[ $m == revert:* ]]; then git show ${m#revert:} | git apply -R || exit 2; else git apply "$m" || exit 2; fi
cd /verif
for p in $ids; do
  out=$(timeout 3000 ./check $p 2>&1); rc=$?
  echo "rc=$rc $(echo "$out" | grep -E "^C[0-9]+ tier|VIOLATION|INFRA" | tr '\n' ' ' | cut -c1-300)"
done
git -C /repo checkout -- . ; git -C /repo status --short | head -3
