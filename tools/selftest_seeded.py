#!/venv/bin/python
"""
Self-test of the machinery against the kept property-breaking changes (seeded/*/patch.diff):
every change is applied to a scratch worktree of /repo (never to /repo itself), the check(s) recorded in
meta.json `caught_by` are run against that worktree (PYTHONPATH + VERIF_ALLOW_REPO) and must exit 1.
One lane per property (its changes one after the other, each lane in its own worktree), lanes in parallel.
Evidence and replay files of these runs (they describe MUTATED trees) go to /tmp/selftest_seeded/out/<change>/.

usage: tools/selftest_seeded.py [-j LANES] [ids ...]        (ids: property ids or seeded directory names)
"""
import glob, json, os, subprocess, sys, time
from concurrent.futures import ThreadPoolExecutor

VERIF = os.path.dirname(os.path.dirname(os.path.abspath(__file__)))
ROOT = '/tmp/selftest_seeded'


def sh(cmd, **kw):
    return subprocess.run(cmd, shell=True, stdout=subprocess.PIPE, stderr=subprocess.STDOUT, text=True, **kw)


def lane(pid, dirs):
    wt = os.path.join(ROOT, pid)
    sh('git -C /repo worktree remove --force %s' % wt)
    r = sh('git -C /repo worktree add --detach %s HEAD' % wt)
    out = []
    if r.returncode != 0:
        return [(d, 'worktree failed', None, r.stdout[-200:]) for d in dirs]
    try:
        for d in dirs:
            name = os.path.basename(d.rstrip('/'))
            meta = json.load(open(os.path.join(d, 'meta.json')))
            sh('git -C %s reset -q --hard HEAD' % wt)
            a = sh('git -C %s apply %s' % (wt, os.path.join(d, 'patch.diff')))
            if a.returncode != 0:
                a = sh('git -C %s apply --3way %s' % (wt, os.path.join(d, 'patch.diff')))
            if a.returncode != 0:
                out.append((name, 'patch no longer applies to the current tree', None, a.stdout[-160:].replace('\n', ' ')))
                continue
            checks = [c for c in meta.get('caught_by', []) if c.startswith('C')][:1] or [meta['property']]
            for c in checks:
                t0 = time.time()
                env = dict(os.environ, PYTHONPATH=wt, VERIF_ALLOW_REPO=wt, VERIF_EVIDENCE_DIR=os.path.join(ROOT, 'out', name),
                           VERIF_REPLAY_DIR=os.path.join(ROOT, 'out', name))
                os.makedirs(env['VERIF_EVIDENCE_DIR'], exist_ok=True)
                try:
                    p = sh('./check %s' % c, cwd=VERIF, env=env, timeout=3000)
                    rc, tail = p.returncode, ' '.join(l for l in p.stdout.split('\n') if l.startswith('VIOLATION') or ' tier=' in l)[-240:]
                except subprocess.TimeoutExpired:
                    rc, tail = 'timeout', ''
                out.append((name, c, rc, '%.0fs %s' % (time.time() - t0, tail)))
    finally:
        sh('git -C /repo worktree remove --force %s' % wt)
    return out


def main():
    args = sys.argv[1:]
    lanes = 8
    if args[:1] == ['-j']:
        lanes = int(args[1])
        args = args[2:]
    dirs = sorted(glob.glob(os.path.join(VERIF, 'seeded', '*/')))
    if args:
        dirs = [d for d in dirs if any(os.path.basename(d.rstrip('/')) == a or os.path.basename(d.rstrip('/')).startswith(a + '-') for a in args)]
    by = {}
    for d in dirs:
        meta = json.load(open(os.path.join(d, 'meta.json')))
        c = ([x for x in meta.get('caught_by', []) if x.startswith('C')] or [meta['property']])[0]
        by.setdefault(c, []).append(d)          # lanes by the CHECK that is run: no two runs of one check at a time
    os.makedirs(ROOT, exist_ok=True)
    res = []
    with ThreadPoolExecutor(max_workers=lanes) as ex:
        for r in ex.map(lambda kv: lane(*kv), sorted(by.items())):
            res.extend(r)
            for name, c, rc, info in r:
                print('%-10s %-5s rc=%-8s %s' % (name, c, rc, info), flush=True)
    sh('git -C /repo worktree prune')
    bad = [x for x in res if x[2] != 1]
    print('SELFTEST: %d changes, %d caught (exit 1), %d not' % (len(res), len(res) - len(bad), len(bad)))
    for x in bad:
        print('  NOT CAUGHT / PROBLEM: %s %s rc=%s %s' % x)
    return 1 if bad else 0


if __name__ == '__main__':
    sys.exit(main())
