#!/bin/bash
# usage: tools/integrate.sh <wp dir> <ID> [<ID2> ...]  -- copies the new files of a work package into /verif and registers them
wp=$1; shift
cd $wp || exit 2
for f in $(git status --short | grep '^??' | awk '{print $2}' | grep -v '^evidence/\|^lean/Audit/\|^replays/'); do
  mkdir -p /verif/$(dirname $f); cp -r $f /verif/$f; echo "copied $f"
done
# modified model files (only if unchanged in /verif since the copy was taken)
for f in $(git status --short | grep '^ M' | awk '{print $2}' | grep '^lean/Model/'); do
  if diff -q <(git show HEAD:$f) /verif/$f >/dev/null; then cp $f /verif/$f; echo "updated $f"; else echo "CONFLICT $f (changed in /verif too)"; fi
done
cd /verif/lean
for id in "$@"; do
  grep -q "import Proofs.$id\$" Proofs.lean || echo "import Proofs.$id" >> Proofs.lean
  if [ -f Drv/$id.lean ]; then
    grep -q "import Drv.$id\$" Drv.lean || echo "import Drv.$id" >> Drv.lean
    grep -q "ops$id" Driver.lean || sed -i "s/^  opsC17\(.*\)$/  opsC17\1 ++ ops$id/" Driver.lean
  fi
done
# model imports
for m in $(cd $wp/lean && git diff HEAD -- Model.lean | grep '^+import' | sed 's/^+import //'); do
  grep -q "import $m\$" Model.lean || echo "import $m" >> Model.lean
done
grep -n "opsC17" Driver.lean
