#!/usr/bin/env python3
"""prints the markdown table of seeded changes for DESIGN.md section 0.4"""
import json, os, glob
rows = []
for d in sorted(glob.glob('/verif/seeded/*/')):
    m = json.load(open(d + 'meta.json'))
    name = os.path.basename(d.rstrip('/'))
    rows.append('| `%s` | %s | %s | %s | %s |' % (name, m['property'], (m['summary'] or '').replace('|', '/').replace('\n', ' ')[:230],
                                              ', '.join(m['caught_by']), (m.get('note') or '').replace('|', '/')[:200]))
print('| seeded change | property | what was changed | caught by | note |\n|---|---|---|---|---|')
print('\n'.join(rows))
