#!/bin/bash
# usage: tools/sweep.sh "<ids>" "<seeds>" [tier]   -- runs the checks, prints one line per run
ids=${1:-C17}; seeds=${2:-"0 1 2"}; tier=${3:-quick}
cd "$(dirname "$0")/.."
for p in $ids; do for s in $seeds; do
  out=$(VERIF_SEED=$s timeout 3000 ./check $p --tier $tier 2>&1); rc=$?
  echo "rc=$rc $(echo "$out" | grep -E "^C[0-9]+ tier|VIOLATION|INFRA|KNOWN" | tr '\n' ' ' | cut -c1-330)"
done; done
