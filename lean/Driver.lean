import Drv
open Drv

/-- all operations known to the driver (one list per `Drv/Cxx.lean`) -/
def allOps : List (String × (List String → String)) :=
  opsC17 ++ opsCorr ++ opsTanProj ++ opsC10 ++ opsC16 ++ opsC06 ++ opsC07 ++ opsC09 ++ opsC12 ++ opsC11 ++ opsC19 ++ opsC08 ++ opsC15 ++ opsC13 ++ opsChipBorder ++ opsSphHull ++ opsGroupCat ++ opsGroupAlign

/-- one line in, one line out: `<op> <mode> <args…>`; the mode token selects the scalar type
(`Q` = exact rationals, `F` = IEEE doubles) for numeric operations -/
def dispatch (line : String) : String :=
  match (line.trimAscii.toString.splitOn " ").filter (· ≠ "") with
  | op :: args =>
    match allOps.lookup op with
    | some h => h args
    | none => "bad-op"
  | [] => "bad-op"

partial def loop (h : IO.FS.Stream) (out : IO.FS.Stream) : IO Unit := do
  let line ← h.getLine
  if line.isEmpty then return ()
  out.putStrLn (dispatch line)
  loop h out

def main : IO Unit := do
  let out ← IO.getStdout
  loop (← IO.getStdin) out
  out.flush
