import Drv
open Drv

/-- one line in, one line out; the second token selects the scalar type (`Q` = exact rationals,
`F` = IEEE doubles) for the numeric operations -/
def dispatch (line : String) : String :=
  match (line.trimAscii.toString.splitOn " ").filter (· ≠ "") with
  | "inv" :: "Q" :: args => opInv Rat args
  | "inv" :: "F" :: args => opInv Float args
  | _ => "bad-op"

partial def loop (h : IO.FS.Stream) (out : IO.FS.Stream) : IO Unit := do
  let line ← h.getLine
  if line.isEmpty then return ()
  out.putStrLn (dispatch line)
  loop h out

def main : IO Unit := do
  let out ← IO.getStdout
  loop (← IO.getStdin) out
  out.flush
