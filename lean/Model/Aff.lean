import Model.LinAlg
/-!
2-vectors, 2×2 matrices and affine maps of the plane, Mathlib-free and generic over the scalar.
`Aff.comp f g = f ∘ g`.  `M2.inv` is the adjugate formula (what `numpy.linalg.inv`/`linalg.inv`
return for a regular 2×2 matrix in exact arithmetic).
-/
namespace TW

structure V2 (K : Type) where
  x : K
  y : K
  deriving Repr, DecidableEq

structure M2 (K : Type) where
  a : K
  b : K
  c : K
  d : K
  deriving Repr, DecidableEq

structure Aff (K : Type) where
  m : M2 K
  t : V2 K
  deriving Repr, DecidableEq

section
variable {K : Type} [Add K] [Sub K] [Mul K] [Div K] [Neg K] [NatCast K]

def V2.add (p q : V2 K) : V2 K := ⟨p.x + q.x, p.y + q.y⟩
def V2.sub (p q : V2 K) : V2 K := ⟨p.x - q.x, p.y - q.y⟩
def V2.neg (p : V2 K) : V2 K := ⟨-p.x, -p.y⟩
def V2.smul (k : K) (p : V2 K) : V2 K := ⟨k * p.x, k * p.y⟩
def V2.sdiv (p : V2 K) (k : K) : V2 K := ⟨p.x / k, p.y / k⟩

def M2.one : M2 K := ⟨oneK, zeroK, zeroK, oneK⟩
def M2.mulVec (m : M2 K) (p : V2 K) : V2 K := ⟨m.a * p.x + m.b * p.y, m.c * p.x + m.d * p.y⟩
def M2.mul (m n : M2 K) : M2 K :=
  ⟨m.a * n.a + m.b * n.c, m.a * n.b + m.b * n.d, m.c * n.a + m.d * n.c, m.c * n.b + m.d * n.d⟩
def M2.det (m : M2 K) : K := m.a * m.d - m.b * m.c
def M2.inv (m : M2 K) : M2 K := ⟨m.d / m.det, -m.b / m.det, -m.c / m.det, m.a / m.det⟩
def M2.diag (p : V2 K) : M2 K := ⟨p.x, zeroK, zeroK, p.y⟩

def Aff.id : Aff K := ⟨M2.one, ⟨zeroK, zeroK⟩⟩
def Aff.app (f : Aff K) (p : V2 K) : V2 K := (f.m.mulVec p).add f.t
/-- `f ∘ g` -/
def Aff.comp (f g : Aff K) : Aff K := ⟨f.m.mul g.m, (f.m.mulVec g.t).add f.t⟩
def Aff.inv (f : Aff K) : Aff K := ⟨f.m.inv, (f.m.inv.mulVec f.t).neg⟩

end
end TW
