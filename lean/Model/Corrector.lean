import Model.Aff
/-!
Models of `tweakwcs.correctors`: `_tp2tp`, `JWSTWCSCorrector` (gWCS) and `FITSWCSCorrector`
(FITS WCS), `tanp_pixel_scale`.  Mathlib-free, generic over the scalar.

What is modelled and what is a parameter (DESIGN.md section 3):

* gWCS.  The fixed pieces of the pipeline are *parameters* (arbitrary functions, assumed
  bijective in the theorems): `D` detector → V2V3 frame that precedes the correction frame,
  `U` V2V3 (arcsec) → tangent plane (the `unit_conv | s2c | rot | c2tan` part of the correction
  model), `R` the transform that leaves the `v2v3corr` frame (→ world).  The corrector state is
  the affine `tp_affine` of the correction model, the `corrected` flag (`self._tpcorr is not
  None`), `v23name` and the list of frame names.  The six conversions are composed exactly as
  the code composes them (`_update_transformations`, `det_to_tanp`, …).
* FITS.  Flat-sky idealisation: the sky is one plane, `wcs_pix2world x = crval + L (x − crpix0)`.
  The distortion `δ = pix2foc` is a parameter.  `set_correction` is modelled step by step:
  new `crval` through the reference plane, 9-point numerical Jacobian (`_linearize`), `cd`/`pc`
  update.
-/
namespace TW
section
variable {K : Type} [Add K] [Sub K] [Mul K] [Div K] [Neg K] [NatCast K]


/-! ### `_tp2tp` -/

/-- `_tp2tp` from the images `p0 … p3` of the sample points `s·(−½,−½)`, `s·(½,−½)`, `s·(−½,½)`,
`(0,0)`: `matrix = [(xrp[1:-1] − xrp[0]), (yrp[1:-1] − yrp[0])] / s`, `shift = (xrp[-1], yrp[-1])` -/
def tp2tpPts (p0 p1 p2 p3 : V2 K) (s : K) : Aff K :=
  ⟨⟨(p1.x - p0.x) / s, (p2.x - p0.x) / s, (p1.y - p0.y) / s, (p2.y - p0.y) / s⟩, p3⟩

/-- `_tp2tp(tpwcs1, tpwcs2, s)` where `f = tpwcs2.world_to_tanp ∘ tpwcs1.tanp_to_world` -/
def tp2tp (f : V2 K → V2 K) (s : K) : Aff K :=
  tp2tpPts (f ⟨-halfK * s, -halfK * s⟩) (f ⟨halfK * s, -halfK * s⟩) (f ⟨-halfK * s, halfK * s⟩)
    (f ⟨zeroK, zeroK⟩) s

/-- conjugation of `(matrix, shift)` from the reference plane into the image plane:
`matrix' = r·matrix·r⁻¹`, `shift' = r·shift − matrix'·t + t` -/
def conjAff (q : Aff K) (f : Aff K) : Aff K :=
  let m' := (q.m.mul f.m).mul q.m.inv
  ⟨m', ((q.m.mulVec f.t).sub (m'.mulVec q.t)).add q.t⟩

/-! ### gWCS corrector -/

structure GEnv (K : Type) where
  D : V2 K → V2 K
  Dinv : V2 K → V2 K
  U : V2 K → V2 K
  Uinv : V2 K → V2 K
  R : V2 K → V2 K
  Rinv : V2 K → V2 K
  /-- `_RAD2ARCSEC` -/
  c : K

structure GCorr (K : Type) where
  /-- `tp_affine` of `self._tpcorr` (identity while `self._tpcorr is None`) -/
  aff : Aff K
  /-- `self._tpcorr is not None` -/
  corrected : Bool
  v23name : String
  frames : List String
  deriving DecidableEq

def idxOfStr (s : String) : List String → Nat
  | [] => 0
  | a :: l => if a = s then 0 else idxOfStr s l + 1

def insertAt (s : String) : Nat → List String → List String
  | 0, l => s :: l
  | n + 1, a :: l => a :: insertAt s n l
  | _ + 1, [] => [s]

/-- `JWSTWCSCorrector._check_wcs_structure` on the list of frame names -/
def checkFrames (frms : List String) : Bool :=
  let n := frms.length
  if n < 3 then false else
  if frms.count (frms.headD "") > 1 || frms.count (frms.getLastD "") > 1 then false else
  if frms.count "v2v3" ≠ 1 || frms.count "v2v3vacorr" > 1 then false else
  let i0 := idxOfStr "v2v3" frms
  if i0 = 0 || i0 = n - 1 then false else
  let va := frms.contains "v2v3vacorr"
  let iva := idxOfStr "v2v3vacorr" frms
  if va && (iva < i0 || iva = n - 1) then false else
  let idx := if va then iva else i0
  let nc := frms.count "v2v3corr"
  if nc = 0 then true else
  if nc > 1 then false else
  let ic := idxOfStr "v2v3corr" frms
  if ic ≠ idx + 1 || ic = n - 1 then false else true

/-- `JWSTWCSCorrector.__init__` on a never-corrected pipeline -/
def GCorr.fresh (frms : List String) : GCorr K :=
  ⟨Aff.id, false, if frms.contains "v2v3vacorr" then "v2v3vacorr" else "v2v3", frms⟩

/-- `JWSTWCSCorrector.__init__` on the current (possibly corrected) WCS of a corrector: the
affine is read back from the transform that precedes the `v2v3corr` frame -/
def GCorr.rewrap (g : GCorr K) : GCorr K :=
  if g.frames.contains "v2v3corr" then ⟨g.aff, true, "v2v3corr", g.frames⟩
  else GCorr.fresh g.frames

variable (env : GEnv K)

/-- the correction model `v2v3 → v2v3corr` and its inverse -/
def GCorr.tpcorrFwd (g : GCorr K) (v : V2 K) : V2 K := env.Uinv (g.aff.app (env.U v))
def GCorr.tpcorrInv (g : GCorr K) (v : V2 K) : V2 K := env.Uinv (g.aff.inv.app (env.U v))
/-- `_partial_tpcorr` (`v2v3 → corrected tangent plane`) and its inverse -/
def GCorr.partialFwd (g : GCorr K) (v : V2 K) : V2 K := g.aff.app (env.U v)
def GCorr.partialInv (g : GCorr K) (x : V2 K) : V2 K := env.Uinv (g.aff.inv.app x)

/-- transforms cached by `_update_transformations` (the V2V3 frame is the one that PRECEDES
`v2v3corr` when the WCS is corrected) -/
def GCorr.v23ToWorld (g : GCorr K) (v : V2 K) : V2 K :=
  if g.corrected then env.R (g.tpcorrFwd env v) else env.R v
def GCorr.worldToV23 (g : GCorr K) (w : V2 K) : V2 K :=
  if g.corrected then g.tpcorrInv env (env.Rinv w) else env.Rinv w

def GCorr.detToWorld (g : GCorr K) (p : V2 K) : V2 K := g.v23ToWorld env (env.D p)
def GCorr.worldToDet (g : GCorr K) (w : V2 K) : V2 K := env.Dinv (g.worldToV23 env w)
def GCorr.detToTanp (g : GCorr K) (p : V2 K) : V2 K := V2.smul env.c (g.partialFwd env (env.D p))
def GCorr.tanpToDet (g : GCorr K) (x : V2 K) : V2 K := env.Dinv (g.partialInv env (x.sdiv env.c))
def GCorr.worldToTanp (g : GCorr K) (w : V2 K) : V2 K :=
  V2.smul env.c (g.partialFwd env (g.worldToV23 env w))
def GCorr.tanpToWorld (g : GCorr K) (x : V2 K) : V2 K :=
  g.v23ToWorld env (g.partialInv env (x.sdiv env.c))

/-- the PRE-FIX (F7) transforms: V2V3 frame = `v2v3corr` itself for a corrected WCS -/
def GCorr.detToTanpOld (g : GCorr K) (p : V2 K) : V2 K :=
  V2.smul env.c (g.partialFwd env (if g.corrected then g.tpcorrFwd env (env.D p) else env.D p))
def GCorr.worldToTanpOld (g : GCorr K) (w : V2 K) : V2 K :=
  V2.smul env.c (g.partialFwd env (env.Rinv w))

/-- `_tpcorr_combine_affines(tpcorr, matrix, _ARCSEC2RAD * shift)` -/
def combineAffines (c : K) (old : Aff K) (f : Aff K) : Aff K :=
  ⟨f.m.mul old.m, (f.m.mulVec old.t).add (f.t.sdiv c)⟩

/-- `JWSTWCSCorrector.set_correction(matrix, shift, ref_tpwcs)`; `q = _tp2tp(ref_tpwcs, self)`
when a reference plane is given -/
def GCorr.setCorrection (c : K) (g : GCorr K) (f : Aff K) (q : Option (Aff K)) : GCorr K :=
  let f' := match q with
    | none => f
    | some q => conjAff q f
  let aff' := combineAffines c g.aff f'
  if g.corrected then ⟨aff', true, g.v23name, g.frames⟩
  else ⟨aff', true, "v2v3corr", insertAt "v2v3corr" (idxOfStr g.v23name g.frames + 1) g.frames⟩

/-- operations on a gWCS corrector: histories are lists of these -/
inductive GOp (K : Type) where
  | setCorr (f : Aff K) (q : Option (Aff K))
  | rewrap
  | copy

def GCorr.step (c : K) (g : GCorr K) : GOp K → GCorr K
  | .setCorr f q => g.setCorrection c f q
  | .rewrap => g.rewrap
  | .copy => g

def GCorr.run (c : K) (g : GCorr K) (ops : List (GOp K)) : GCorr K := ops.foldl (GCorr.step c) g

/-! ### FITS corrector (flat-sky idealisation) -/

structure FCorr (K : Type) where
  crval : V2 K
  /-- `cd`, or `pc` when `pcForm` -/
  lin : M2 K
  cdelt : V2 K
  pcForm : Bool
  /-- `crpix − 1` -/
  crpix0 : V2 K

/-- effective linear matrix -/
def FCorr.L (f : FCorr K) : M2 K := if f.pcForm then (M2.diag f.cdelt).mul f.lin else f.lin

/-- `wcs_pix2world(·, 0)` / `wcs_world2pix(·, 0)` (no distortion) -/
def FCorr.pix2world (f : FCorr K) (x : V2 K) : V2 K := f.crval.add (f.L.mulVec (x.sub f.crpix0))
def FCorr.world2pix (f : FCorr K) (w : V2 K) : V2 K := f.crpix0.add (f.L.inv.mulVec (w.sub f.crval))

/-- the six conversions, composed as in the code; `δ = pix2foc`, `δinv` its inverse
(`all_world2pix` = `δ⁻¹ ∘ wcs_world2pix`) -/
def FCorr.detToTanp (_f : FCorr K) (δ : V2 K → V2 K) (p : V2 K) : V2 K := δ p
def FCorr.tanpToWorld (f : FCorr K) (x : V2 K) : V2 K := f.pix2world x
def FCorr.worldToTanp (f : FCorr K) (w : V2 K) : V2 K := f.world2pix w
def FCorr.detToWorld (f : FCorr K) (δ : V2 K → V2 K) (p : V2 K) : V2 K := f.pix2world (δ p)
def FCorr.worldToDet (f : FCorr K) (δinv : V2 K → V2 K) (w : V2 K) : V2 K := δinv (f.world2pix w)
def FCorr.tanpToDet (f : FCorr K) (δinv : V2 K → V2 K) (x : V2 K) : V2 K :=
  δinv (f.world2pix (f.pix2world x))

/-- 5-point formula for the first derivative with nodes `x ± h`, `x ± h/2`:
`((p1 − p4) + 8 (p3 − p2)) / (6 h)` with `p1 = g(x−h)`, `p2 = g(x−h/2)`, `p3 = g(x+h/2)`, `p4 = g(x+h)` -/
def fivePoint (p1 p2 p3 p4 : V2 K) (h : K) : V2 K :=
  (((p1.sub p4)).add (V2.smul ((8 : Nat) : K) (p3.sub p2))).sdiv (((6 : Nat) : K) * h)

/-- `_linearize`: numerical Jacobian (columns `u1`, `u2`) of the pixel → pixel map `g` at `c0` -/
def linearize (g : V2 K → V2 K) (c0 : V2 K) (hx hy : K) : M2 K :=
  let u1 := fivePoint (g ⟨c0.x - hx, c0.y⟩) (g ⟨c0.x - hx * halfK, c0.y⟩)
              (g ⟨c0.x + hx * halfK, c0.y⟩) (g ⟨c0.x + hx, c0.y⟩) hx
  let u2 := fivePoint (g ⟨c0.x, c0.y - hy⟩) (g ⟨c0.x, c0.y - hy * halfK⟩)
              (g ⟨c0.x, c0.y + hy * halfK⟩) (g ⟨c0.x, c0.y + hy⟩) hy
  ⟨u1.x, u2.x, u1.y, u2.y⟩

/-- the new `crval`: the reference pixel's sky position carried through the reference plane -/
def FCorr.newCrval (f : FCorr K) (w2t t2w : V2 K → V2 K) (M : M2 K) (s : V2 K) : V2 K :=
  let shift' := (M.inv.mulVec s).neg
  t2w (M.mulVec ((w2t (f.pix2world f.crpix0)).sub shift'))

/-- `FITSWCSCorrector.set_correction(matrix, shift, ref_tpwcs)`; `w2t`/`t2w` are the reference
corrector's `world_to_tanp`/`tanp_to_world` (for `ref_tpwcs=None`: those of a copy of `self`) -/
def FCorr.setCorrection (f : FCorr K) (w2t t2w : V2 K → V2 K) (M : M2 K) (s : V2 K) (hx hy : K) :
    FCorr K :=
  let shift' := (M.inv.mulVec s).neg
  let f1 : FCorr K := { f with crval := f.newCrval w2t t2w M s }
  let g : V2 K → V2 K := fun x => f1.world2pix (t2w (M.mulVec ((w2t (f.pix2world x)).sub shift')))
  let U := linearize g f.crpix0 hx hy
  { f1 with lin := f.lin.mul U }

/-- `set_correction` with `ref_tpwcs=None` -/
def FCorr.setCorrectionOwn (f : FCorr K) (M : M2 K) (s : V2 K) (hx hy : K) : FCorr K :=
  f.setCorrection f.world2pix f.pix2world M s hx hy

/-- `set_correction` with an (affine, flat-sky) reference plane `P : world → plane` -/
def FCorr.setCorrectionRef (f : FCorr K) (P : Aff K) (M : M2 K) (s : V2 K) (hx hy : K) : FCorr K :=
  f.setCorrection P.app P.inv.app M s hx hy

/-- operations on a FITS corrector (re-wrapping the corrected `astropy.wcs.WCS` in a new corrector
and `copy()` keep the state) -/
inductive FOp (K : Type) where
  | setOwn (M : M2 K) (s : V2 K) (hx hy : K)
  | setRef (P : Aff K) (M : M2 K) (s : V2 K) (hx hy : K)
  | rewrap
  | copy

def FCorr.step (f : FCorr K) : FOp K → FCorr K
  | .setOwn M s hx hy => f.setCorrectionOwn M s hx hy
  | .setRef P M s hx hy => f.setCorrectionRef P M s hx hy
  | .rewrap => f
  | .copy => f

def FCorr.run (f : FCorr K) (ops : List (FOp K)) : FCorr K := ops.foldl FCorr.step f

/-! ### `tanp_pixel_scale` -/

/-- the shoelace sum of `tanp_pixel_scale` (twice the signed area) of four points in the code's order -/
def shoelacePts (q0 q1 q2 q3 : V2 K) : K :=
  q0.x * q1.y + q1.x * q2.y + q2.x * q3.y + q3.x * q0.y
    - q1.x * q0.y - q2.x * q1.y - q3.x * q2.y - q0.x * q3.y

/-- … of the images of the corners `(x∓½, y∓½)` in the code's order -/
def shoelace2 (f : V2 K → V2 K) (x y : K) : K :=
  shoelacePts (f ⟨x - halfK, y - halfK⟩) (f ⟨x - halfK, y + halfK⟩) (f ⟨x + halfK, y + halfK⟩)
    (f ⟨x + halfK, y - halfK⟩)

variable [LT K] [DecidableLT K] [HasSqrt K]

/-- `tanp_pixel_scale(x, y)` for the detector → tangent-plane map `f` -/
def tanpPixelScale (f : V2 K → V2 K) (x y : K) : K :=
  HasSqrt.sqrt (halfK * absK (shoelace2 f x y))

/-- `FITSWCSCorrector._get_tanp_center_pixel_scale`: at `crpix − 1` -/
def FCorr.centerPixelScale (f : FCorr K) (δ : V2 K → V2 K) : K :=
  tanpPixelScale (f.detToTanp δ) f.crpix0.x f.crpix0.y

/-- `WCSCorrector._get_tanp_center_pixel_scale`: at `tanp_to_det(0, 0)` -/
def GCorr.centerPixelScale (env : GEnv K) (g : GCorr K) : K :=
  let p0 := g.tanpToDet env ⟨zeroK, zeroK⟩
  tanpPixelScale (g.detToTanp env) p0.x p0.y

end

/-- decision logic of `FITSWCSCorrector._check_wcs_structure`: `wcs = none` ↔ `wcs is None`;
`celestial` = `wcs.is_celestial`; `distOk` = the numerical test that `pix2foc` accounts for all
distortions (an external computation, a parameter here) -/
def fitsStructureOk (wcs : Option (Bool × Bool)) : Bool :=
  match wcs with
  | none => false
  | some (celestial, distOk) => if !celestial then false else distOk

end TW
