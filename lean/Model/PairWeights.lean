import Model.Clip
/-!
Model of the path of the optional `'weight'` columns from the image / reference catalogs to the
pairs handed to `iter_linear_fit` (property C09):

* `createGroupCatalog` — `WCSGroupCatalog.create_group_catalog`: the catalogs of the images of a
  group are stacked in order (`table.vstack`), images with an empty catalog are skipped, all
  non-empty catalogs must agree on having a `'weight'` column;
* `gather` — numpy fancy indexing `a[idx]`;
* `fit2refArgs` / `fit2refWith` — `WCSGroupCatalog.fit2ref`: `refxy[ref_idx]`, `im_xyref[minput_idx]`,
  `ref_weight = refcat['weight'][ref_idx]`, `im_weight = catalog['weight'][minput_idx]`, the call
  `iter_linear_fit(refxy, im_xyref, ref_weight, im_weight, …, center=None)` (so `xy` ↔ reference,
  `uv` ↔ image) and the re-centring of the shift.

Rows are an arbitrary type `α` (whatever else a source carries); Mathlib-free.
-/
namespace TW

/-- the catalog of one image: its rows and the optional `'weight'` column -/
structure ImCat (α K : Type) where
  rows : List α
  weight : Option (List K)

/-- a group catalog -/
structure GroupCat (α K : Type) where
  rows : List α
  weight : Option (List K)

inductive CatErr where
  | mixedWeights     -- KeyError: catalogs in a group must all either have or not have 'weight'
  | indexError       -- a match index outside the catalog
  deriving Repr, DecidableEq

/-- images whose catalog is not empty (`if catlen == 0: continue`) -/
def nonEmptyCats {α K : Type} (ims : List (ImCat α K)) : List (ImCat α K) :=
  ims.filter fun im => im.rows.length != 0

/-- `create_group_catalog`, rows and weight column -/
def createGroupCatalog {α K : Type} (ims : List (ImCat α K)) : Except CatErr (GroupCat α K) :=
  let ne := nonEmptyCats ims
  match ne with
  | [] => .ok ⟨[], none⟩
  | im0 :: _ =>
    let hw := im0.weight.isSome
    if ne.all (fun im => im.weight.isSome == hw) then
      .ok ⟨ne.flatMap (·.rows), if hw then some (ne.flatMap fun im => im.weight.getD []) else none⟩
    else .error .mixedWeights

/-- position of the first source of the `i`-th non-empty image in the group catalog -/
def groupOffset {α K : Type} (ne : List (ImCat α K)) (i : Nat) : Nat :=
  ((ne.take i).map fun im => im.rows.length).sum

/-- `a[idx]` (numpy integer-array indexing; `none` = IndexError) -/
def gather {α : Type} (l : List α) (idx : List Nat) : Option (List α) :=
  idx.mapM fun i => l[i]?

/-- optional column indexed by `idx` -/
def gatherOpt {α : Type} (l : Option (List α)) (idx : List Nat) : Option (Option (List α)) :=
  match l with
  | none => some none
  | some w => (gather w idx).map some

/-- the four arrays `fit2ref` passes to `iter_linear_fit`, in its argument order -/
structure PairArgs (K : Type) where
  xy : List (K × K)          -- refxy[ref_idx]
  uv : List (K × K)          -- im_xyref[minput_idx]
  wxy : Option (List K)      -- ref_weight
  wuv : Option (List K)      -- im_weight

def fit2refArgs {K : Type} (refXY : List (K × K)) (refW : Option (List K))
    (imXY : List (K × K)) (imW : Option (List K)) (refIdx inIdx : List Nat) : Option (PairArgs K) :=
  match gather refXY refIdx, gather imXY inIdx, gatherOpt refW refIdx, gatherOpt imW inIdx with
  | some xy, some uv, some wxy, some wuv => some ⟨xy, uv, wxy, wuv⟩
  | _, _, _, _ => none

def mkObs {K : Type} (xy uv : K × K) : Obs K := ⟨xy.1, xy.2, uv.1, uv.2⟩

section
variable {K : Type} [Add K] [Sub K] [Mul K] [Div K] [Neg K] [LT K] [DecidableLT K] [NatCast K]

/-- `fit2ref` for a given single-shot fitter and metric: the fit of the matched pairs and the shift
re-computed for the centre at (0, 0) -/
def fit2refWith (single : Single K) (normalised : Bool) (m : Metric K) (minobj : Nat)
    (refXY : List (K × K)) (refW : Option (List K)) (imXY : List (K × K)) (imW : Option (List K))
    (refIdx inIdx : List Nat) (nclip : Option Int) (sigma : Option (K × String)) (accum : Bool) :
    Except (CatErr ⊕ FitErr) (IterRes K × (K × K)) :=
  match fit2refArgs refXY refW imXY imW refIdx inIdx with
  | none => .error (.inl .indexError)
  | some a =>
    match iterLinearFitWith single normalised m minobj (List.zipWith mkObs a.xy a.uv) a.wxy a.wuv none
            nclip sigma accum with
    | .error e => .error (.inr e)
    | .ok r => .ok (r, recentre r.lin r.center)

end
end TW
