import Model.Basic
/-!
Model of `tweakwcs.wcsimage.convex_hull` (Andrew's monotone chain), Mathlib-free.
The stack is kept reversed (most recently pushed vertex first).
-/
namespace TW
section
variable {K : Type} [Sub K] [Mul K] [LT K] [DecidableLT K] [NatCast K]

abbrev Pt (K : Type) := K × K

/-- `cross(o, a, b)` of the Python code -/
def cross (o a b : Pt K) : K := (a.1 - o.1) * (b.2 - o.2) - (a.2 - o.2) * (b.1 - o.1)

/-- `while len(hull) >= 2 and cross(hull[-2], hull[-1], p) <= 0: hull.pop()` -/
def popWhile (p : Pt K) : List (Pt K) → List (Pt K)
  | b :: a :: rest =>
      if ((0 : Nat) : K) < cross a b p then b :: a :: rest else popWhile p (a :: rest)
  | st => st

def pushPt (st : List (Pt K)) (p : Pt K) : List (Pt K) := p :: popWhile p st

/-- one monotone chain over points given in processing order; result in processing order -/
def chain (pts : List (Pt K)) : List (Pt K) := (pts.foldl pushPt []).reverse

/-- `lower[:-1] + upper` for already sorted, duplicate-free points (at least two of them) -/
def hullCore (pts : List (Pt K)) : List (Pt K) := (chain pts).dropLast ++ chain pts.reverse
end
end TW
