import Model.Basic
/-!
Model of `tweakwcs.wcsimage.convex_hull` (Andrew's monotone chain), Mathlib-free.
The stack is kept reversed (most recently pushed vertex first).
-/
namespace TW
section
variable {K : Type} [Sub K] [Mul K] [LT K] [DecidableLT K] [NatCast K]

abbrev Pt (K : Type) := K × K

/-- `cross(o, a, b)` of the Python code -/
def cross (o a b : Pt K) : K := (a.1 - o.1) * (b.2 - o.2) - (a.2 - o.2) * (b.1 - o.1)

/-- `while len(hull) >= 2 and cross(hull[-2], hull[-1], p) <= 0: hull.pop()` -/
def popWhile (p : Pt K) : List (Pt K) → List (Pt K)
  | b :: a :: rest =>
      if ((0 : Nat) : K) < cross a b p then b :: a :: rest else popWhile p (a :: rest)
  | st => st

def pushPt (st : List (Pt K)) (p : Pt K) : List (Pt K) := p :: popWhile p st

/-- one monotone chain over points given in processing order; result in processing order -/
def chain (pts : List (Pt K)) : List (Pt K) := (pts.foldl pushPt []).reverse

/-- `lower[:-1] + upper` for already sorted, duplicate-free points (at least two of them) -/
def hullCore (pts : List (Pt K)) : List (Pt K) := (chain pts).dropLast ++ chain pts.reverse
end
end TW

/-!
## The full `convex_hull` as coded, and the small boxes of `RefCatalog._calc_cat_convex_hull`

`points = sorted(set(zip(x, y)))` is an insertion sort that drops a point equal to one already
present (Python's `set` keeps the element seen first); equality of coordinates is
"neither `<` nor `>`".
-/
namespace TW
section
variable {K : Type} [Add K] [Sub K] [Mul K] [Div K] [Neg K] [LT K] [DecidableLT K] [NatCast K]

/-- the order of Python tuples `p < q` -/
def lexLtB (p q : Pt K) : Bool :=
  if p.1 < q.1 then true else if q.1 < p.1 then false else decide (p.2 < q.2)

/-- insert `p` into a strictly sorted list; a point equal to `p` already present is kept and
`p` is dropped -/
def insertPt (p : Pt K) : List (Pt K) → List (Pt K)
  | [] => [p]
  | q :: rest =>
      if lexLtB p q then p :: q :: rest
      else if lexLtB q p then q :: insertPt p rest
      else q :: rest

/-- `sorted(set(zip(x, y)))` -/
def sortDedupe (pts : List (Pt K)) : List (Pt K) := pts.foldl (fun acc p => insertPt p acc) []

/-- the vertex list before the `min_separation` loop: `([], [])` for no points, the point itself
for one distinct point, otherwise `lower[:-1] + upper` (which closes at the first vertex; two
distinct points give `[p0, p1, p0]`) -/
def hullRaw (pts : List (Pt K)) : List (Pt K) :=
  match sortDedupe pts with
  | [] => []
  | [p] => [p]
  | p :: q :: rest => hullCore (p :: q :: rest)

/-- `a <= b` through the only comparison the scalar type offers -/
def leB (a b : K) : Bool := !decide (b < a)

def absP (x : K) : K := if x < ((0 : Nat) : K) then -x else x

/-- `abs(ptx[k] - ptx[k+1]) <= sep and abs(pty[k] - pty[k+1]) <= sep` -/
def closeTo (sep : K) (a b : Pt K) : Bool :=
  leB (absP (a.1 - b.1)) sep && leB (absP (a.2 - b.2)) sep

/-- one step of `for k in range(n - 2, 0, -1)`: `kept` is the list of vertices kept so far with the
most recently kept one (`pt[idx[-1]]`, the one of smallest index) first; vertex `v = pt[k]` is
skipped when both coordinates are within `sep` of that vertex, otherwise it is kept.  On the empty
list (`idx = [n - 1]` is set up by processing the closing vertex first) the vertex is kept. -/
def greedyStep (sep : K) (v : Pt K) (kept : List (Pt K)) : List (Pt K) :=
  match kept with
  | [] => [v]
  | j :: _ => if closeTo sep v j then kept else v :: kept

/-- the backward greedy pass over `pt[1:]` (interior vertices followed by the closing vertex): the
closing vertex is always kept, then `k = n-2, …, 1` are visited in this order, each compared with
the next vertex that **was kept**; the result lists the kept vertices by increasing index -/
def greedyKeep (sep : K) (l : List (Pt K)) : List (Pt K) := l.foldr (greedyStep sep) []

/-- `while len(idx) > 1 and close(pt[idx[-1]], pt[0]): idx.pop()`: kept vertices of smallest index
are removed while they are within `sep` of the first vertex; the last remaining one (the closing
vertex) is never removed -/
def dropClose (sep : K) (v0 : Pt K) : List (Pt K) → List (Pt K)
  | a :: b :: rest => if closeTo sep a v0 then dropClose sep v0 (b :: rest) else a :: b :: rest
  | l => l

/-- the whole separation loop (`idx.append(0); idx.reverse()`): the first vertex, then what the
greedy pass and the `while` loop leave of `pt[1:]`.  (It is only reached with at least three
entries, the last one being the closing copy of the first.) -/
def mergeSep (sep : K) : List (Pt K) → List (Pt K)
  | [] => []
  | v0 :: rest => v0 :: dropClose sep v0 (greedyKeep sep rest)

inductive HullErr where
  | negSeparation
  deriving Repr, DecidableEq

/-- `convex_hull(x, y, wcs=None, min_separation=sep)`; the argument check comes first, the
0- and 1-point returns come before the loop -/
def convexHull (sep : Option K) (pts : List (Pt K)) : Except HullErr (List (Pt K)) :=
  match sep with
  | none => .ok (hullRaw pts)
  | some s =>
      if s < ((0 : Nat) : K) then .error .negSeparation
      else
        match hullRaw pts with
        | [] => .ok []
        | [p] => .ok [p]
        | h => .ok (mergeSep s h)

/-- executable check that every cyclically consecutive triple of a closed vertex list
(`h.head = h.last`) is a strict left turn -/
def turnsLeftB : List (Pt K) → Bool
  | a :: b :: c :: rest => decide (((0 : Nat) : K) < cross a b c) && turnsLeftB (b :: c :: rest)
  | _ => true

def isStrictlyConvexCCW (h : List (Pt K)) : Bool := turnsLeftB (h ++ (h.drop 1).take 1)

/-! ### `RefCatalog._calc_cat_convex_hull`: catalogs of one and of two (or collinear) sources -/

/-- `tol = 0.5 * np.deg2rad(footprint_tol / 3600.0)`; `d2r` is the constant `π/180` -/
def boxTol (d2r ftol : K) : K := (ftol / ((3600 : Nat) : K) * d2r) / ((2 : Nat) : K)

/-- one source: a square of half-width `tol`, closed -/
def smallBox1 (tol : K) (p : Pt K) : List (Pt K) :=
  [(p.1 - tol, p.2 - tol), (p.1 - tol, p.2 + tol), (p.1 + tol, p.2 + tol), (p.1 + tol, p.2 - tol),
   (p.1 - tol, p.2 - tol)]

/-- two sources (`xv[0]`, `xv[1]` of the hull): a rectangle of half-width `tol` about the
segment, extended by `tol` beyond both ends, closed; `(vx, vy)` is the unit vector of the pair -/
def smallBox2 [HasSqrt K] (tol : K) (p0 p1 : Pt K) : List (Pt K) :=
  let vx0 := p1.1 - p0.1
  let vy0 := p1.2 - p0.2
  let norm := HasSqrt.sqrt (vx0 * vx0 + vy0 * vy0)
  let vx := vx0 / norm
  let vy := vy0 / norm
  [(p0.1 - (vx - vy) * tol, p0.2 - (vy + vx) * tol),
   (p0.1 - (vx + vy) * tol, p0.2 - (vy - vx) * tol),
   (p1.1 + (vx - vy) * tol, p1.2 + (vy + vx) * tol),
   (p1.1 + (vx + vy) * tol, p1.2 + (vy - vx) * tol),
   (p0.1 - (vx - vy) * tol, p0.2 - (vy + vx) * tol)]

/-- `a == b` through the only comparison the scalar type offers -/
def eqB (a b : K) : Bool := !decide (a < b) && !decide (b < a)

/-- the branch on `len(xv)` after `convex_hull(x, y, min_separation=1e-11)` in the ad-hoc
tangent plane: 1 vertex, or the degenerate closed one-point list `[p0, p0]` that the separation
loop leaves of two almost coincident sources → square; 2 or 3 vertices (two distinct points, or
any number of collinear ones: the hull is `[p0, p1, p0]`) → rectangle; otherwise the hull -/
def refFootprint [HasSqrt K] (tol : K) (hull : List (Pt K)) : List (Pt K) :=
  match hull with
  | [p] => smallBox1 tol p
  | [p0, p1] => if eqB p0.1 p1.1 && eqB p0.2 p1.2 then smallBox1 tol p0 else smallBox2 tol p0 p1
  | [p0, p1, _] => smallBox2 tol p0 p1
  | h => h

end
end TW
