import Model.Basic
/-!
Model of `tweakwcs.linalg.inv` (Gauss–Jordan elimination with full pivoting), as it is
executed on platforms where `numpy.longdouble` is wider than `numpy.double`.
Mathlib-free; generic over the scalar type.
-/
namespace TW

inductive LinAlgErr where
  | singular
  | notSquare
  deriving Repr, DecidableEq

section
variable {K : Type} [Add K] [Sub K] [Mul K] [Div K] [Neg K] [LT K] [DecidableLT K] [NatCast K]

def zeroK : K := ((0 : Nat) : K)
def oneK : K := ((1 : Nat) : K)

def absK (x : K) : K := if x < (zeroK : K) then -x else x

def twoK : K := ((2 : Nat) : K)
def halfK : K := oneK / ((2 : Nat) : K)

def swapIdx {n : Nat} (a b j : Fin n) : Fin n := if j = a then b else if j = b then a else j

def rowSwap {n : Nat} (a b : Fin n) (m : Mat n K) : Mat n K := Mat.ofFn fun i j => m.get (swapIdx a b i) j
def colSwap {n : Nat} (a b : Fin n) (m : Mat n K) : Mat n K := Mat.ofFn fun i j => m.get i (swapIdx a b j)

def idMat {n : Nat} : Mat n K := Mat.ofFn fun i j => if i = j then oneK else zeroK

/-- positions `(i, j)` with `k ≤ i`, `k ≤ j`, in row-major order -/
def blockIdx (n k : Nat) : List (Fin n × Fin n) :=
  (List.finRange n).flatMap fun i =>
    (List.finRange n).filterMap fun j => if k ≤ i.val ∧ k ≤ j.val then some (i, j) else none

/-- `np.argmax(np.abs(m[k:, k:]))`: first maximum in row-major order -/
def argmaxAbs {n : Nat} (m : Mat n K) (k : Fin n) : Fin n × Fin n :=
  (blockIdx n k.val).foldl
    (fun best p => if absK (m.get best.1 best.2) < absK (m.get p.1 p.2) then p else best) (k, k)

structure InvSt (n : Nat) (K : Type) where
  m : Mat n K
  iv : Mat n K
  qt : Mat n K

def scaleRowFrom {n : Nat} (k : Fin n) (pv : K) (m : Mat n K) : Mat n K :=
  Mat.ofFn fun i j => if i = k ∧ k.val ≤ j.val then m.get i j / pv else m.get i j

def scaleRow {n : Nat} (k : Fin n) (pv : K) (m : Mat n K) : Mat n K :=
  Mat.ofFn fun i j => if i = k then m.get i j / pv else m.get i j

def elimBelow {n : Nat} (k : Fin n) (m : Mat n K) : Mat n K :=
  Mat.ofFn fun i j =>
    if k.val < i.val then
      (if k.val < j.val then m.get i j - m.get i k * m.get k j else if j = k then zeroK else m.get i j)
    else m.get i j

def elimBelowInv {n : Nat} (k : Fin n) (m iv : Mat n K) : Mat n K :=
  Mat.ofFn fun i j => if k.val < i.val then iv.get i j - m.get i k * iv.get k j else iv.get i j

/-- one iteration of the forward loop `for k in range(order)` -/
def fwdStep {n : Nat} (eps : K) (st : InvSt n K) (k : Fin n) : Except LinAlgErr (InvSt n K) :=
  let p := argmaxAbs st.m k
  let pv := st.m.get p.1 p.2
  if absK pv < eps then .error .singular else
  let m1 := colSwap k p.2 (rowSwap k p.1 st.m)
  let iv1 := colSwap k p.2 (rowSwap k p.1 st.iv)
  let qt1 := colSwap k p.2 st.qt
  let m2 := scaleRowFrom k pv m1
  let iv2 := scaleRow k pv iv1
  .ok ⟨elimBelow k m2, elimBelowInv k m2 iv2, qt1⟩

/-- one iteration of the outer back-substitution loop (all `k2 < k1` at once) -/
def backStep {n : Nat} (m : Mat n K) (iv : Mat n K) (k1 : Fin n) : Mat n K :=
  Mat.ofFn fun i j => if i.val < k1.val then iv.get i j - m.get i k1 * iv.get k1 j else iv.get i j

def sumFin {n : Nat} (f : Fin n → K) : K := (List.finRange n).foldl (fun acc i => acc + f i) zeroK

def matMul {n : Nat} (a b : Mat n K) : Mat n K := Mat.ofFn fun i j => sumFin fun l => a.get i l * b.get l j
def transposeM {n : Nat} (a : Mat n K) : Mat n K := Mat.ofFn fun i j => a.get j i

/-- `inv` on a square matrix -/
def invSq {n : Nat} (eps : K) (a : Mat n K) : Except LinAlgErr (Mat n K) := do
  let st0 : InvSt n K := ⟨a, idMat, idMat⟩
  let st ← (List.finRange n).foldlM (fwdStep eps) st0
  let iv := (List.finRange n).reverse.foldl (backStep st.m) st.iv
  pure (matMul st.qt (matMul iv (transposeM st.qt)))

end
end TW

namespace TW
section
variable {K : Type} [Add K] [Sub K] [Mul K] [Div K] [Neg K] [LT K] [DecidableLT K] [NatCast K]

def matOfRows (n : Nat) (rows : List (List K)) : Mat n K :=
  Mat.ofFn fun i j => (rows.getD i.val []).getD j.val zeroK

def rowsOfMat {n : Nat} (m : Mat n K) : List (List K) :=
  (List.finRange n).map fun i => (List.finRange n).map fun j => m.get i j

/-- `inv(m)` on a list of rows: the shape test `len(m.shape) != 2 or m.shape[0] != m.shape[1]`,
then the elimination -/
def invRows (eps : K) (rows : List (List K)) : Except LinAlgErr (List (List K)) :=
  if rows.all (fun r => r.length == rows.length) then
    match invSq eps (matOfRows rows.length rows) with
    | .ok x => .ok (rowsOfMat x)
    | .error e => .error e
  else .error .notSquare

end
end TW
