import Model.TanProj
import Model.Hull
/-!
Model of the spherical part of `RefCatalog._calc_cat_convex_hull` (`tweakwcs/wcsimage.py`): everything
around the planar hull / small boxes of `Model/Hull.lean`.  Mathlib-free, generic over the scalar.

The method, line by line (`/repo/tweakwcs/wcsimage.py`, class `RefCatalog`):

```
x, y, z = _S2C(RA, DEC)                                   -- `s2c` of Model/TanProj.lean (the same gwcs class)
ra_ref, dec_ref = _C2S(x.mean(), y.mean(), z.mean())      -- `meanVec`, `c2s` of Model/TanProj.lean
rotm = [planar_rot_3d(np.deg2rad(alpha), 2 - axis)        -- `rotm`: axis 2 with ra_ref, axis 1 with dec_ref
        for axis, alpha in enumerate([ra_ref, dec_ref])]
euler_rot = np.linalg.multi_dot(rotm[::-1])               -- `eulerRot` = P1(dec_ref) · P2(ra_ref)
inv_euler_rot = inv(euler_rot)                            -- `invEulerRot`: `invSq` of Model/LinAlg.lean
xr, yr, zr = np.dot(euler_rot, (x, y, z))                 -- `M3.mulVec`
x = yr / xr;  y = zr / xr                                 -- `gnom`
xv, yv = convex_hull(x, y, wcs=None, min_separation=1e-11)   -- `convexHull (some sep)`
… len(xv) == 0: RuntimeError; 1 / degenerate 2: square; 2 or 3: rectangle …   -- `refFootprint`
xcr, ycr, zcr = np.dot(inv_euler_rot, (ones, xv, yv))     -- `lift`, `backProject` (NOT normalised)
ra, dec = _C2S(xcr, ycr, zcr)                             -- `c2s`
ra[-1] = ra[0]; dec[-1] = dec[0]                          -- `forceClosed`
```

`planar_rot_3d(angle, axis)` (`tweakwcs/wcsutils.py`) inserts into `[[cs, sn], [-sn, cs]]` a zero column and
then the unit row at index `axis`:

* `axis = 0`: `[[1, 0, 0], [0, cs, sn], [0, -sn, cs]]`
* `axis = 1`: `[[cs, 0, sn], [0, 1, 0], [-sn, 0, cs]]`   (the sign of `sn` is the opposite of astropy's `rotation_matrix(·, 'y')`)
* `axis = 2`: `[[cs, sn, 0], [-sn, cs, 0], [0, 0, 1]]`

Trigonometry: the functions that need no trigonometric operation take the cosines and sines as
arguments (so they run on exact rationals); `eulerRotOfDir`, `refCatFootprint` use `HasTrig`
(`np.deg2rad` followed by `math.cos` / `math.sin` is `cosdeg` / `sindeg`).
-/
namespace TW
namespace Sph

inductive SphErr where
  | badAxis          -- `planar_rot_3d`: ValueError("'axis' must be either 0, 1, or 2.")
  | emptyCatalog     -- the `catalog` setter: ValueError (a reference catalog has at least one source)
  | noPoints         -- RuntimeError("Unexpected error: …") after an empty hull
  | negSeparation    -- `convex_hull`: ValueError (never reached: the separation is the constant 1e-11)
  | singular         -- `inv`: LinAlgError
  deriving Repr, DecidableEq

section
variable {K : Type} [Add K] [Sub K] [Mul K] [Div K] [Neg K] [NatCast K]

def dot (a b : V3 K) : K := a.x * b.x + a.y * b.y + a.z * b.z

/-- the triple product `a · (b × c)` = determinant of the matrix with rows `a`, `b`, `c` -/
def triple (a b c : V3 K) : K :=
  a.x * (b.y * c.z - b.z * c.y) - a.y * (b.x * c.z - b.z * c.x) + a.z * (b.x * c.y - b.y * c.x)

/-- `planar_rot_3d(angle, axis)` for a valid axis, from `cs = cos(angle)`, `sn = sin(angle)` -/
def planarRot (cs sn : K) : Fin 3 → M3 K
  | 0 => ⟨oneK, zeroK, zeroK, zeroK, cs, sn, zeroK, -sn, cs⟩
  | 1 => ⟨cs, zeroK, sn, zeroK, oneK, zeroK, -sn, zeroK, cs⟩
  | 2 => ⟨cs, sn, zeroK, -sn, cs, zeroK, zeroK, zeroK, oneK⟩

/-- `planar_rot_3d(angle, axis)`: `if axis not in range(3): raise ValueError` -/
def planarRot3d (cs sn : K) (axis : Nat) : Except SphErr (M3 K) :=
  if h : axis < 3 then .ok (planarRot cs sn ⟨axis, h⟩) else .error .badAxis

/-- `[planar_rot_3d(np.deg2rad(alpha), 2 - axis) for axis, alpha in enumerate([ra_ref, dec_ref])]`
from the cosines and sines of `ra_ref` (`cr`, `sr`) and `dec_ref` (`cd`, `sd`) -/
def rotm (cr sr cd sd : K) : List (M3 K) :=
  [planarRot cr sr ⟨2 - 0, by decide⟩, planarRot cd sd ⟨2 - 1, by decide⟩]

/-- `np.linalg.multi_dot`: the product of the matrices in list order -/
def multiDot : List (M3 K) → M3 K
  | [] => M3.one
  | a :: rest => rest.foldl M3.mul a

/-- `euler_rot = np.linalg.multi_dot(rotm[::-1])` -/
def eulerRot (cr sr cd sd : K) : M3 K := multiDot (rotm cr sr cd sd).reverse

/-- the composition order of the unrepaired code (finding F14): `multi_dot(rotm)` -/
def eulerRotF14 (cr sr cd sd : K) : M3 K := multiDot (rotm cr sr cd sd)

/-- `x.mean(dtype=np.double), y.mean(…), z.mean(…)` (numpy sums pairwise; the model sums left to right) -/
def meanVec (vs : List (V3 K)) : V3 K :=
  let n : K := ((vs.length : Nat) : K)
  ⟨(vs.foldl (fun acc v => acc + v.x) zeroK) / n, (vs.foldl (fun acc v => acc + v.y) zeroK) / n,
   (vs.foldl (fun acc v => acc + v.z) zeroK) / n⟩

/-- `x = yr / xr; y = zr / xr` -/
def gnom (w : V3 K) : Pt K := (w.y / w.x, w.z / w.x)

/-- rotation by `euler_rot` followed by the gnomonic projection, for all sources -/
def project (r : M3 K) (vs : List (V3 K)) : List (Pt K) := vs.map fun v => gnom (r.mulVec v)

/-- `(xt, xv, yv)` with `xt = np.ones_like(xv)` -/
def lift (p : Pt K) : V3 K := ⟨oneK, p.1, p.2⟩

/-- `np.dot(inv_euler_rot, (xt, xv, yv))`: un-normalised direction vectors of the vertices -/
def backProject (ri : M3 K) (poly : List (Pt K)) : List (V3 K) := poly.map fun p => ri.mulVec (lift p)

def toMat3 (m : M3 K) : Mat 3 K :=
  #v[#v[m.a00, m.a01, m.a02], #v[m.a10, m.a11, m.a12], #v[m.a20, m.a21, m.a22]]

def ofMat3 (m : Mat 3 K) : M3 K :=
  ⟨m.get 0 0, m.get 0 1, m.get 0 2, m.get 1 0, m.get 1 1, m.get 1 2, m.get 2 0, m.get 2 1, m.get 2 2⟩

/-- `ra[-1] = ra[0]; dec[-1] = dec[0]` (the list is never empty there) -/
def forceClosed {α : Type} (l : List α) : List α :=
  match l with
  | [] => []
  | a :: _ => l.dropLast ++ [a]

variable [LT K] [DecidableLT K]

/-- `inv_euler_rot = inv(euler_rot)`: Gauss–Jordan elimination with full pivoting (`tweakwcs.linalg.inv`);
`eps` is its singularity threshold `np.finfo(np.double).tiny` -/
def invEulerRot (eps : K) (r : M3 K) : Except SphErr (M3 K) :=
  match invSq eps (toMat3 r) with
  | .ok x => .ok (ofMat3 x)
  | .error _ => .error .singular

/-- spherical containment test of a direction `v` against a vertex list: non-negative triple product
with every edge (consecutive pair, in list order) -/
def sphAllLeftB (v : V3 K) : List (V3 K) → Bool
  | a :: b :: rest => !decide (triple a b v < zeroK) && sphAllLeftB v (b :: rest)
  | _ => true

/-- the same for a clockwise vertex list (the small boxes): strictly negative triple products -/
def sphInsideCWB (v : V3 K) : List (V3 K) → Bool
  | a :: b :: rest => decide (triple a b v < zeroK) && sphInsideCWB v (b :: rest)
  | _ => true

/-- all sources in the open hemisphere about the tangent point -/
def inHemisphereB (r : M3 K) (vs : List (V3 K)) : Bool := vs.all fun v => decide (zeroK < (r.mulVec v).x)

variable [HasSqrt K]

/-- the polygon in the ad-hoc tangent plane: `convex_hull(x, y, min_separation=sep)` followed by the
branch on the number of vertices (`Model/Hull.lean`: `refFootprint`) -/
def planeFootprint (sep tol : K) (pts : List (Pt K)) : Except SphErr (List (Pt K)) :=
  match convexHull (some sep) pts with
  | .error _ => .error .negSeparation
  | .ok [] => .error .noPoints
  | .ok h => .ok (refFootprint tol h)

/-- from the unit vectors of the sources to the (un-normalised) direction vectors of the footprint
vertices, for a given rotation `r` and the matrix `ri` used on the way back -/
def footprintV (r ri : M3 K) (sep tol : K) (vs : List (V3 K)) : Except SphErr (List (V3 K)) :=
  match planeFootprint sep tol (project r vs) with
  | .ok poly => .ok (backProject ri poly)
  | .error e => .error e

/-- the same with the code's own matrices: `euler_rot` from the cosines / sines of the reference
direction and `inv_euler_rot = inv(euler_rot)` -/
def footprintCS (eps cr sr cd sd sep tol : K) (vs : List (V3 K)) : Except SphErr (List (V3 K)) :=
  let r := eulerRot cr sr cd sd
  match invEulerRot eps r with
  | .ok ri => footprintV r ri sep tol vs
  | .error e => .error e

variable [HasTrig K]

/-- `euler_rot` from `(ra_ref, dec_ref)` in degrees -/
def eulerRotOfDir (d : V2 K) : M3 K :=
  eulerRot (HasTrig.cosdeg d.x) (HasTrig.sindeg d.x) (HasTrig.cosdeg d.y) (HasTrig.sindeg d.y)

/-- `ra_ref, dec_ref = _C2S(x.mean(), y.mean(), z.mean())` -/
def refDir (vs : List (V3 K)) : V2 K := c2s (meanVec vs)

/-- everything the method computes, stage by stage -/
structure SphOut (K : Type) where
  vecs : List (V3 K)      -- `_S2C(RA, DEC)`
  mean : V3 K
  refdir : V2 K           -- `(ra_ref, dec_ref)`
  rot : M3 K              -- `euler_rot`
  rotInv : M3 K           -- `inv_euler_rot`
  proj : List (Pt K)      -- tangent-plane coordinates handed to `convex_hull`
  plane : List (Pt K)     -- polygon in the tangent plane
  back : List (V3 K)      -- `(xcr, ycr, zcr)`
  radec : List (V2 K)     -- `self._radec[0]` as `(ra, dec)` pairs, closed

/-- `RefCatalog._calc_cat_convex_hull` for a catalog given as `(RA, DEC)` pairs in degrees;
`d2r = π/180`, `ftol = footprint_tol` (arcsec), `sep = 1e-11`, `eps = finfo(double).tiny` -/
def refCatFootprint (eps sep d2r ftol : K) (radec : List (V2 K)) : Except SphErr (SphOut K) :=
  match radec with
  | [] => .error .emptyCatalog
  | _ =>
    let vecs := radec.map fun p => s2c p.x p.y
    let mean := meanVec vecs
    let dir := c2s mean
    let r := eulerRotOfDir dir
    match invEulerRot eps r with
    | .error e => .error e
    | .ok ri =>
      let proj := project r vecs
      match planeFootprint sep (boxTol d2r ftol) proj with
      | .error e => .error e
      | .ok poly =>
        let back := backProject ri poly
        .ok ⟨vecs, mean, dir, r, ri, proj, poly, back, forceClosed (back.map c2s)⟩

end
end Sph
end TW
