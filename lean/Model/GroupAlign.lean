import Model.GroupCat
import Model.Corrector
/-!
`WCSGroupCatalog.align_to_ref` END TO END at group level (properties C01, C05), Mathlib-free: the composition,
in the order of the code (wcsimage.py as committed in /repo 6c12c52, `align_to_ref` L1370-1467,
`apply_affine_to_wcs` L1227-1231), of the pieces that are modelled separately:

* the members of the group: each a corrector state (`FCorr` / `GCorr` of `Model/Corrector.lean`) and its own
  catalog (`GC.Member`, possibly empty) — `GMember`;
* the group catalog stacked from them and its index bookkeeping — `GC.createGroup`, `GC.calcTanpXY`,
  `GC.match2ref`, `GC.fit2refSel`, `GC.recalcCatalogRadec` of `Model/GroupCat.lean`, where the WCS of the member
  at position `p` is now NOT an arbitrary function but `wOf`: `det_to_world` of THAT member's corrector state;
* the fit of the selected pairs — `iterLinearFitWith` of `Model/Clip.lean` on the arrays `fit2refSel` returns,
  followed by `recentre` (`fitPairs`; it is `fit2refWith` of `Model/PairWeights.lean`, lemma
  `GAL.fit2refWith_eq_fitPairs`);
* `apply_affine_to_wcs` — `set_correction(matrix, shift, ref_tpwcs)` with ONE `(matrix, shift, ref_tpwcs)` on
  EVERY member of `self._images`, the members with an empty catalog included (`applyAffineToWcs`);
* `recalc_catalog_radec` with the corrected members.

The corrector class enters through `CorrOps` (what the group code calls on a corrector: `det_to_world`,
`set_correction(…, ref_tpwcs)`, and `ref_tpwcs.world_to_tanp`).  Two instantiations: `fitsOps` (all members
`FITSWCSCorrector`, flat sky: the reference plane is an affine chart `P` of the sky plane; per member the
distortion `δ p` and the differentiation steps `hx`, `hy`) and `gwcsOps` (all members `JWSTWCSCorrector`, each with
its own pipeline pieces `env p`; the reference plane is any pair `refW2T`, `refT2W`; `s0 p` is the sampling scale
of `_tp2tp` for member `p`).

What `fit_info` receives (`'matrix'`, `'shift'`) is returned in `GAResult.fit`; it is by construction the pair
handed to `apply_affine_to_wcs`, as in the code.
-/
namespace TW.GA
open TW TW.GC

def toV {K : Type} (p : K × K) : V2 K := ⟨p.1, p.2⟩
def ofV {K : Type} (v : V2 K) : K × K := (v.x, v.y)

/-- what `align_to_ref` calls on the correctors of a group: `image.det_to_world` and
`corrector.set_correction(matrix, shift, ref_tpwcs=ref_tpwcs)` of the member at position `p` of `self._images`
(the position selects the member's external pieces: distortion, pipeline), `ref_tpwcs.world_to_tanp` -/
structure CorrOps (C K : Type) where
  detToWorld : Nat → C → V2 K → V2 K
  setCorr : Nat → C → M2 K → V2 K → C
  w2t : V2 K → V2 K

/-- a member `WCSImageCatalog`: corrector state and catalog -/
structure GMember (C K : Type) where
  corr : C
  cat : Member K

/-- the WCS of the member at position `p` as the group catalog uses it (`image.det_to_world(x, y)`); positions
outside the member list are never asked for (`GAL.wOf_of_lt` is all the theorems use) -/
def wOf {C K : Type} (ops : CorrOps C K) (ms : List (GMember C K)) (p : Nat) (xy : K × K) : K × K :=
  match ms[p]? with
  | some m => ofV (ops.detToWorld p m.corr (toV xy))
  | none => xy

/-- `tanplane_wcs.world_to_tanp(RA, DEC)` on catalog columns -/
def tOf {C K : Type} (ops : CorrOps C K) (rd : K × K) : K × K := ofV (ops.w2t (toV rd))

/-- `for imcat in self: imcat.corrector.set_correction(matrix, shift, ref_tpwcs=ref_tpwcs)`; `pos` is the
position of the head of the list in `self._images` -/
def applyFrom {C K : Type} (ops : CorrOps C K) (M : M2 K) (s : V2 K) : Nat → List (GMember C K) → List (GMember C K)
  | _, [] => []
  | pos, m :: t => { m with corr := ops.setCorr pos m.corr M s } :: applyFrom ops M s (pos + 1) t

/-- `apply_affine_to_wcs(ref_tpwcs, matrix, shift)` -/
def applyAffineToWcs {C K : Type} (ops : CorrOps C K) (ms : List (GMember C K)) (M : M2 K) (s : V2 K) :
    List (GMember C K) := applyFrom ops M s 0 ms

/-- `WCSGroupCatalog(images)`: the group catalog of the members, sky positions through each member's corrector -/
def createGroupOf {C K : Type} (ops : CorrOps C K) (ms : List (GMember C K)) : Except GErr (GState K) :=
  createGroup (wOf ops ms) (ms.map (·.cat))

/-- which exceptions of `iter_linear_fit` `align_to_ref` catches (`SingularMatrixError`, `NotEnoughPointsError`:
the group is reported as failed) and which propagate (`ValueError`) -/
def outcomeOfErr : FitErr → FitOutcome
  | .singular => .degenerate
  | .notEnoughPoints => .degenerate
  | .badWeights => .raised
  | .badArg => .raised

section
variable {K : Type} [Add K] [Sub K] [Mul K] [Div K] [Neg K] [LT K] [DecidableLT K] [NatCast K]

/-- the arguments `fit2ref` passes on to `iter_linear_fit` besides the arrays: the single-shot fitter of the
fit geometry with its weight normalisation and minimum number of points, the metric, `nclip`, `sigma`,
`clip_accum` -/
structure FitCfg (K : Type) where
  single : Single K
  normalised : Bool
  metric : Metric K
  fitMinobj : Nat
  nclip : Option Int
  sigma : Option (K × String)
  accum : Bool

/-- the configuration of `iter_linear_fit(…, fitgeom=g, …)` as the code runs it -/
def FitCfg.ofGeom [HasSqrt K] [HasTrig K] (eps epsD : K) (g : FitGeom) (nclip : Option Int)
    (sigma : Option (K × String)) (accum : Bool) : FitCfg K :=
  ⟨singleOf g eps epsD, g.normalised, euclid, g.minobj, nclip, sigma, accum⟩

/-- the root-free configuration for exact rational runs (`shift`, `general`; statistic `rmse`), see
`iterLinearFitSq` -/
def FitCfg.ofGeomSq (eps epsD : K) (g : FitGeom) (nclip : Option Int) (nsigma : Option K) (accum : Bool) :
    Option (FitCfg K) :=
  (singleOfQ g eps epsD).map fun single =>
    ⟨single, g.normalised, squared, g.minobj, nclip, nsigma.map fun s => (s, "rmse"), accum⟩

/-- the second half of `fit2ref`: `iter_linear_fit(refxy[ref_idx], im_xyref[minput_idx], ref_weight, im_weight,
…, center=None)` on the arrays selected by `fit2refSel`, and the shift re-computed for the centre at (0, 0) -/
def fitPairs (c : FitCfg K) (a : PairArgs K) : Except FitErr (IterRes K × (K × K)) :=
  match iterLinearFitWith c.single c.normalised c.metric c.fitMinobj (List.zipWith mkObs a.xy a.uv) a.wxy a.wuv
          none c.nclip c.sigma c.accum with
  | .error e => .error e
  | .ok r => .ok (r, recentre r.lin r.center)

/-- what the `try: fit2ref(…)` of `align_to_ref` sees -/
def fitOutcome (c : FitCfg K) (a : PairArgs K) : FitOutcome :=
  match fitPairs c a with
  | .ok _ => .returned
  | .error e => outcomeOfErr e

/-- `fit['matrix']`, `fit['shift']` as handed to `apply_affine_to_wcs` and written to `fit_info` -/
def reportedOf (r : IterRes K) (sh : K × K) : Aff K :=
  ⟨⟨r.lin.m00, r.lin.m01, r.lin.m10, r.lin.m11⟩, toV sh⟩

/-- what `align_to_ref` leaves behind: the group catalog, the members (with their correctors), what the method
returned / raised together with the arrays that went to the fitter (as `GC.alignToRef`), and — on success — the
fit with the `(matrix, shift)` written to every member's `fit_info` -/
structure GAResult (C K : Type) where
  st : GState K
  members : List (GMember C K)
  res : Except GErr (Bool × Option (PairArgs K))
  fit : Option (IterRes K × Aff K)

/-- `align_to_ref(refcat, ref_tpwcs, match, minobj, fitgeom, nclip, sigma, clip_accum)` on the group with members
`ms` and group catalog `st`: `ref` the reference catalog, `m` the matcher's answer (`none` = `match=None`),
`fitmin = SUPPORTED_FITGEOM_MODES[fitgeom]`.  Statement by statement:
`calc_tanp_xy` of the group and of the reference catalog in the reference plane, `match2ref`, the `nmatches <
minobj` test, `fit2ref` (selection of the pairs, `iter_linear_fit`, re-centring) inside the `try`,
`apply_affine_to_wcs`, `recalc_catalog_radec`. -/
def groupAlignToRef {C : Type} (ops : CorrOps C K) (cfg : FitCfg K) (ms : List (GMember C K)) (st : GState K)
    (ref : RefCat K) (m : Option (List Int × List Int)) (minobj : Option Nat) (fitmin : Nat) : GAResult C K :=
  if st.memberLens.isEmpty then ⟨st, ms, .ok (false, none), none⟩ else
  let st1 := calcTanpXY st (tOf ops)
  let refTP := ref.radec.map (tOf ops)
  let s2 := match2ref st1 ref.ids m
  match s2.res with
  | .error e => ⟨s2.st, ms, .error e, none⟩
  | .ok (n, _, _) =>
    if n < effMinobj minobj fitmin then ⟨s2.st, ms, .ok (false, none), none⟩
    else
      match fit2refSel s2.st refTP ref.weight with
      | .error e => ⟨s2.st, ms, .error e, none⟩
      | .ok pa =>
        match fitPairs cfg pa with
        | .error e =>
          match outcomeOfErr e with
          | .raised => ⟨s2.st, ms, .error .fitError, none⟩
          | _ => ⟨s2.st, ms, .ok (false, some pa), none⟩
        | .ok (r, sh) =>
          let f := reportedOf r sh
          let ms' := applyAffineToWcs ops ms f.m f.t
          ⟨recalcCatalogRadec s2.st (wOf ops ms'), ms', .ok (true, some pa), some (r, f)⟩

/-- the arguments with which `GC.alignToRef` (externals as parameters) describes the same call: the fitter is
`fitOutcome`, the members' WCS after the correction are those of `ms'` -/
def alignArgsOf {C : Type} (ops : CorrOps C K) (cfg : FitCfg K) (ms' : List (GMember C K)) (ref : RefCat K)
    (m : Option (List Int × List Int)) (minobj : Option Nat) (fitmin : Nat) : AlignArgs K :=
  ⟨tOf ops, ref, m, minobj, fitmin, fitOutcome cfg, wOf ops ms'⟩

/-- construction of the group followed by `align_to_ref` -/
def groupAlign {C : Type} (ops : CorrOps C K) (cfg : FitCfg K) (ms : List (GMember C K))
    (ref : RefCat K) (m : Option (List Int × List Int)) (minobj : Option Nat) (fitmin : Nat) :
    Except GErr (GAResult C K) :=
  match createGroupOf ops ms with
  | .error e => .error e
  | .ok st => .ok (groupAlignToRef ops cfg ms st ref m minobj fitmin)

/-! ### the two corrector classes -/

/-- state of a `FITSWCSCorrector` member: the WCS and the differentiation steps `hx`, `hy` that
`set_correction` derives from `crpix` and the image shape -/
structure FState (K : Type) where
  f : FCorr K
  hx : K
  hy : K

/-- all members FITS (flat sky): `P` = the reference plane as an affine chart of the sky plane
(`ref_tpwcs.world_to_tanp`), `δ p` = `pix2foc` of the member at position `p` -/
def fitsOps (P : Aff K) (δ : Nat → V2 K → V2 K) : CorrOps (FState K) K where
  detToWorld := fun p c x => c.f.detToWorld (δ p) x
  setCorr := fun _ c M s => { c with f := c.f.setCorrectionRef P M s c.hx c.hy }
  w2t := P.app

/-- all members gWCS: `env p` = the pipeline pieces of the member at position `p`; `refW2T`, `refT2W` =
`ref_tpwcs.world_to_tanp` / `tanp_to_world`; `s0 p` = the scale at which `_tp2tp(ref_tpwcs, self)` samples the
plane-to-plane map for the member at position `p` (the code derives it from the two WCS; any non-zero value
gives the same result on a flat sky) -/
def gwcsOps (env : Nat → GEnv K) (refW2T refT2W : V2 K → V2 K) (s0 : Nat → K) : CorrOps (GCorr K) K where
  detToWorld := fun p g x => g.detToWorld (env p) x
  setCorr := fun p g M s =>
    g.setCorrection (env p).c ⟨M, s⟩ (some (tp2tp (fun x => g.worldToTanp (env p) (refT2W x)) (s0 p)))
  w2t := refW2T

end
end TW.GA
