import Model.Corrector
/-!
Model of the concrete V2V3 ⇄ tangent-plane pipeline of `JWSTWCSCorrector`
(`tweakwcs/correctors.py`: `_tpcorr_init`, `_v2v3_to_tpcorr_from_full`,
`_tpcorr_combine_affines`), i.e. the pieces `U`/`Uinv` that `Model/Corrector.lean` keeps as
parameters.  Mathlib-free, generic over the scalar.

Conventions fixed by experiment against the libraries the code calls (astropy 7 / gwcs 1.0):

* `astropy.coordinates.matrix_utilities.rotation_matrix(a, axis)`:
  `z ↦ [[c, s, 0], [−s, c, 0], [0, 0, 1]]`, `y ↦ [[c, 0, −s], [0, 1, 0], [s, 0, c]]`,
  `x ↦ [[1, 0, 0], [0, c, s], [0, −s, c]]` (`c = cos a`, `s = sin a`).
* `RotationSequence3D(angles, order)` multiplies a column vector by
  `reduce(matmul, [R_order[k](angles[k])][::-1])`; for `'zyx'`: `(Rx(a2)·Ry(a1))·Rz(a0)`.
* `RotationSequence3D.inverse = RotationSequence3D(−angles[::-1], order[::-1])`; for `'zyx'`:
  order `'xyz'` with angles `(−a2, −a1, −a0)`, i.e. `(Rz(−a0)·Ry(−a1))·Rx(−a2)`.
* `gwcs.geometry.SphericalToCartesian`: `x = cos lat · cos lon`, `y = cos lat · sin lon`,
  `z = sin lat` (degrees in).
* `gwcs.geometry.CartesianToSpherical(wrap_lon_at=180)`: `h = hypot(x, y)`,
  `lat = rad2deg(arctan2(z, h))`, `lon = rad2deg(arctan2(y, x))`, `lon[h == 0] *= 0`, no further
  wrapping: `lon ∈ (−180, 180]` (the range of `arctan2`).
* `c2tan = (Mapping((0,1,2)) / Mapping((0,0,0))) | Mapping((1,2))`: `(x, y, z) ↦ (y/x, z/x)`;
  `tan2c = Mapping((0,0,1)) | (Const1D(1) & Identity(2))`: `(u, v) ↦ (1, u, v)` (not normalised).
* `Scale(f)` evaluates `f * x`; the factors are `1.0 / 3600.0` and `3600.0`.
-/
namespace TW

structure V3 (K : Type) where
  x : K
  y : K
  z : K
  deriving Repr, DecidableEq

/-- 3×3 matrix as data, row-major -/
structure M3 (K : Type) where
  a00 : K
  a01 : K
  a02 : K
  a10 : K
  a11 : K
  a12 : K
  a20 : K
  a21 : K
  a22 : K
  deriving Repr, DecidableEq

section
variable {K : Type} [Add K] [Sub K] [Mul K] [Div K] [Neg K] [NatCast K]

def V3.smul (k : K) (v : V3 K) : V3 K := ⟨k * v.x, k * v.y, k * v.z⟩

def M3.one : M3 K := ⟨oneK, zeroK, zeroK, zeroK, oneK, zeroK, zeroK, zeroK, oneK⟩

def M3.mulVec (m : M3 K) (v : V3 K) : V3 K :=
  ⟨m.a00 * v.x + m.a01 * v.y + m.a02 * v.z,
   m.a10 * v.x + m.a11 * v.y + m.a12 * v.z,
   m.a20 * v.x + m.a21 * v.y + m.a22 * v.z⟩

def M3.mul (m n : M3 K) : M3 K :=
  ⟨m.a00 * n.a00 + m.a01 * n.a10 + m.a02 * n.a20,
   m.a00 * n.a01 + m.a01 * n.a11 + m.a02 * n.a21,
   m.a00 * n.a02 + m.a01 * n.a12 + m.a02 * n.a22,
   m.a10 * n.a00 + m.a11 * n.a10 + m.a12 * n.a20,
   m.a10 * n.a01 + m.a11 * n.a11 + m.a12 * n.a21,
   m.a10 * n.a02 + m.a11 * n.a12 + m.a12 * n.a22,
   m.a20 * n.a00 + m.a21 * n.a10 + m.a22 * n.a20,
   m.a20 * n.a01 + m.a21 * n.a11 + m.a22 * n.a21,
   m.a20 * n.a02 + m.a21 * n.a12 + m.a22 * n.a22⟩

def M3.transpose (m : M3 K) : M3 K :=
  ⟨m.a00, m.a10, m.a20, m.a01, m.a11, m.a21, m.a02, m.a12, m.a22⟩

/-! ### `rotation_matrix(angle, axis)` from the cosine and sine of the angle -/

def M3.rotZ (c s : K) : M3 K := ⟨c, s, zeroK, -s, c, zeroK, zeroK, zeroK, oneK⟩
def M3.rotY (c s : K) : M3 K := ⟨c, zeroK, -s, zeroK, oneK, zeroK, s, zeroK, c⟩
def M3.rotX (c s : K) : M3 K := ⟨oneK, zeroK, zeroK, zeroK, c, s, zeroK, -s, c⟩

/-- `_create_matrix(angles, 'zyx')` from `(cos, sin)` of `angles[0..2]`: `(Rx(a2)·Ry(a1))·Rz(a0)` -/
def rotZYXcs (c0 s0 c1 s1 c2 s2 : K) : M3 K :=
  ((M3.rotX c2 s2).mul (M3.rotY c1 s1)).mul (M3.rotZ c0 s0)

/-- `_create_matrix(angles, 'xyz')` from `(cos, sin)` of `angles[0..2]`: `(Rz(b2)·Ry(b1))·Rx(b0)` -/
def rotXYZcs (c0 s0 c1 s1 c2 s2 : K) : M3 K :=
  ((M3.rotZ c2 s2).mul (M3.rotY c1 s1)).mul (M3.rotX c0 s0)

/-! ### projection sub-models and unit conversions -/

/-- `'Cartesian 3D to TAN'`: `(x, y, z) ↦ (x/x, y/x, z/x) ↦ (y/x, z/x)` -/
def c2tan (v : V3 K) : V2 K := ⟨v.y / v.x, v.z / v.x⟩

/-- `'TAN to cartesian 3D'`: `(u, v) ↦ (u, u, v) ↦ (1, u, v)` -/
def tan2c (p : V2 K) : V3 K := ⟨oneK, p.x, p.y⟩

/-- `Scale(1.0 / 3600.0) & Scale(1.0 / 3600.0)` -/
def arcsec2deg (p : V2 K) : V2 K := V2.smul (oneK / ((3600 : Nat) : K)) p

/-- `Scale(3600.0) & Scale(3600.0)` -/
def deg2arcsec (p : V2 K) : V2 K := V2.smul ((3600 : Nat) : K) p

/-- the Cartesian core of `total_corr` for a rotation matrix `r` and the matrix `ri` used for the
way back: `c2tan | affine | tan2c` between `rot` and `rot_inv` -/
def cartCorr (r ri : M3 K) (a : Aff K) (v : V3 K) : V3 K :=
  ri.mulVec (tan2c (a.app (c2tan (r.mulVec v))))

/-- plane → plane through the sphere: `tan2c | rot_inv | rot | c2tan` around an affine map
(`U ∘ U⁻¹` at Cartesian level, with an affine map applied first) -/
def cartPlane (r ri : M3 K) (a : Aff K) (p : V2 K) : V2 K :=
  c2tan (r.mulVec (ri.mulVec (tan2c (a.app p))))

variable [LT K] [DecidableLT K]

/-- `h == 0` of numpy (false for NaN operands as well as for non-zero ones) -/
def eqZeroK (x : K) : Bool := !(decide (x < zeroK)) && !(decide (zeroK < x))

variable [HasTrig K]

/-- `RotationSequence3D([a0, a1, a2], 'zyx')` as a matrix -/
def rotZYX (a0 a1 a2 : K) : M3 K :=
  rotZYXcs (HasTrig.cosdeg a0) (HasTrig.sindeg a0) (HasTrig.cosdeg a1) (HasTrig.sindeg a1)
    (HasTrig.cosdeg a2) (HasTrig.sindeg a2)

/-- `RotationSequence3D([a0, a1, a2], 'zyx').inverse` as a matrix:
`RotationSequence3D([-a2, -a1, -a0], 'xyz')` -/
def rotZYXinv (a0 a1 a2 : K) : M3 K :=
  rotXYZcs (HasTrig.cosdeg (-a2)) (HasTrig.sindeg (-a2)) (HasTrig.cosdeg (-a1))
    (HasTrig.sindeg (-a1)) (HasTrig.cosdeg (-a0)) (HasTrig.sindeg (-a0))

/-- `SphericalToCartesian.evaluate(lon, lat)` (degrees) -/
def s2c (lon lat : K) : V3 K :=
  let cs := HasTrig.cosdeg lat
  ⟨cs * HasTrig.cosdeg lon, cs * HasTrig.sindeg lon, HasTrig.sindeg lat⟩

variable [HasSqrt K]

/-- `CartesianToSpherical(wrap_lon_at=180).evaluate(x, y, z)`: `(lon, lat)` in degrees -/
def c2s (v : V3 K) : V2 K :=
  let h := hyp v.x v.y
  let lat := HasTrig.atan2deg v.z h
  let lon := HasTrig.atan2deg v.y v.x
  ⟨if eqZeroK h then lon * zeroK else lon, lat⟩

/-! ### the pipeline of `_tpcorr_init(v2_ref, v3_ref, roll_ref)` (all three in degrees) -/

/-- `rot = RotationSequence3D([v2_ref, -v3_ref, roll_ref], 'zyx')` -/
def tpRot (v2ref v3ref roll : K) : M3 K := rotZYX v2ref (-v3ref) roll
/-- `rot_inv = rot.inverse` -/
def tpRotInv (v2ref v3ref roll : K) : M3 K := rotZYXinv v2ref (-v3ref) roll

/-- unit vector of a V2V3 position given in arcsec: `unit_conv | s2c` -/
def v23ToCart (v : V2 K) : V3 K :=
  let d := arcsec2deg v
  s2c d.x d.y

/-- `unit_conv | s2c | rot | c2tan`: V2V3 (arcsec) → tangent plane -/
def tpU (v2ref v3ref roll : K) (v : V2 K) : V2 K :=
  c2tan ((tpRot v2ref v3ref roll).mulVec (v23ToCart v))

/-- `tan2c | rot_inv | c2s | unit_conv_inv`: tangent plane → V2V3 (arcsec) -/
def tpUinv (v2ref v3ref roll : K) (x : V2 K) : V2 K :=
  deg2arcsec (c2s ((tpRotInv v2ref v3ref roll).mulVec (tan2c x)))

/-- `total_corr` with `tp_affine = a` -/
def totalCorr (v2ref v3ref roll : K) (a : Aff K) (v : V2 K) : V2 K :=
  tpUinv v2ref v3ref roll (a.app (tpU v2ref v3ref roll v))

/-- `total_corr.inverse` (`inv_total_corr`) after `_tpcorr_combine_affines`:
`tp_affine_inv = (inv(m), −inv(m)·t)` -/
def invTotalCorr (v2ref v3ref roll : K) (a : Aff K) (v : V2 K) : V2 K :=
  tpUinv v2ref v3ref roll (a.inv.app (tpU v2ref v3ref roll v))

/-- `_v2v3_to_tpcorr_from_full(tpcorr)`: `unit_conv | s2c | rot | c2tan | affine` -/
def v2v3ToTpcorr (v2ref v3ref roll : K) (a : Aff K) (v : V2 K) : V2 K :=
  a.app (tpU v2ref v3ref roll v)

/-- its `.inverse`: `affine.inverse | tan2c | rot_inv | c2s | unit_conv_inv` -/
def tpcorrToV2v3 (v2ref v3ref roll : K) (a : Aff K) (x : V2 K) : V2 K :=
  tpUinv v2ref v3ref roll (a.inv.app x)

/-- the domain on which `tpUinv ∘ tpU` is the identity: longitude in `(−180°, 180°]`, latitude in
`(−90°, 90°)`, and the point lies in the open hemisphere facing the reference direction (first
coordinate of the rotated unit vector positive) -/
def tpInDomain (v2ref v3ref roll : K) (v : V2 K) : Bool :=
  let d := arcsec2deg v
  decide (-((180 : Nat) : K) < d.x) && !(decide (((180 : Nat) : K) < d.x)) &&
  decide (-((90 : Nat) : K) < d.y) && decide (d.y < ((90 : Nat) : K)) &&
  decide (zeroK < ((tpRot v2ref v3ref roll).mulVec (v23ToCart v)).x)

/-- the gWCS environment whose `U`/`Uinv` are the concrete maps; `D`, `R` stay parameters -/
def tpEnv (v2ref v3ref roll : K) (D Dinv R Rinv : V2 K → V2 K) (c : K) : GEnv K :=
  ⟨D, Dinv, tpU v2ref v3ref roll, tpUinv v2ref v3ref roll, R, Rinv, c⟩

/-- `JWSTWCSCorrector.__init__` passes `wcsinfo` values: `v2_ref`, `v3_ref` in arcsec,
`_tpcorr_init(v2_ref / 3600.0, v3_ref / 3600.0, roll_ref)` -/
def tpEnvOfWcsinfo (v2refAs v3refAs roll : K) (D Dinv R Rinv : V2 K → V2 K) (c : K) : GEnv K :=
  tpEnv (v2refAs / ((3600 : Nat) : K)) (v3refAs / ((3600 : Nat) : K)) roll D Dinv R Rinv c

end
end TW
