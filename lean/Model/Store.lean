/-!
# Store model of the public entry points (property C19)

Python aliasing lives in the runtime and cannot be exhibited by a pure model.  What *can* be
modelled is the contract the entry points are supposed to honour: every object an entry point
can reach is a named **cell** of a **store**; every entry point is an **operation** with a
*declared* write set (cells it may change) and a declared read set (cells its result may depend
on).  The computation itself is not modelled: new values come from a parameter
`upd : Op → Store → Cell → Nat` and results from `out : Op → Store → Nat` (opaque hashes).

Whether the real code refines this contract ("cells changed in reality ⊆ declared write set",
"equal inputs give bit-identical results") is decided by the correspondence check
(`harness/props/c19.py`) on real objects with bit-exact deep snapshots; the driver operation
`store` (`Drv/C19.lean`) exports the declared write sets to the harness.

Mathlib-free; purely discrete (`Nat`, `List`).
-/
namespace TW

/-- names of everything an entry point can reach.  `i` indexes the correctors of a scene. -/
inductive Cell where
  -- coordinate / weight arrays passed to `iter_linear_fit`, `fit_shifts`, `fit_rshift`,
  -- `fit_rscale`, `fit_general`
  | argXY | argUV | argWxy | argWuv | argCenter
  -- argument of `linalg.inv`, of `build_fit_matrix`, of `convex_hull`
  | invArg | bfmRot | bfmScale | hullX | hullY
  -- the two tables passed to `XYXYMatch.__call__`
  | matchRef | matchIm
  -- the shared `XYXYMatch()` instance stored in `align_wcs.__defaults__`
  | defaultMatcher
  -- every other default-argument object (`set_correction` lists `[[1,0],[0,1]]`, `[0,0]`, …)
  | defaultArgs
  -- module-level state of tweakwcs (and the global numpy / python PRNG state)
  | moduleState
  -- explicit arguments of `set_correction`, the list passed to `align_wcs`
  | argMatrix | argShift | argMeta | argList
  -- the caller's reference catalog (a Table, or the catalog of a reference corrector)
  | refCatalog
  -- the `ref_tpwcs` corrector: current WCS, meta, original WCS
  | refTpwcs | refTpwcsMeta | refTpwcsOrig
  -- a corrector passed as `refcat`: current WCS, meta, original WCS
  | refCorrWcs | refCorrMeta | refCorrOrig
  -- corrector `i`: its source catalog (`meta['catalog']` / the `imcat` of `fit_wcs`); the
  -- caller's constructor arguments (`origWcs`: the WCS object returned by `original_wcs`,
  -- together with the `meta` and `wcsinfo` dictionaries passed to the constructor); the
  -- corrected WCS; `meta` (without catalog and fit_info); `meta['fit_info']`
  | imCatalog (i : Nat) | origWcs (i : Nat) | corrWcs (i : Nat) | corrMeta (i : Nat)
  | fitInfo (i : Nat)
  deriving DecidableEq, Repr

/-- the corrector a cell belongs to (none for argument / global cells) -/
def Cell.owner : Cell → Option Nat
  | .imCatalog i => some i
  | .origWcs i => some i
  | .corrWcs i => some i
  | .corrMeta i => some i
  | .fitInfo i => some i
  | _ => none

/-- cells whose content belongs to the caller: everything except the corrected WCS, the meta
and the fit_info of a corrector (the documented side effects) -/
def Cell.callerOwned : Cell → Bool
  | .corrWcs _ => false
  | .corrMeta _ => false
  | .fitInfo _ => false
  | _ => true

/-- a finite map from cells to opaque values (hashes); absent cells read as `0` -/
abbrev Store := List (Cell × Nat)

def Store.get (s : Store) (c : Cell) : Nat :=
  match s.lookup c with
  | some v => v
  | none => 0

/-- overwrite (or create) one cell; the old binding is removed, so a store never holds two
bindings of one cell -/
def Store.set (s : Store) (c : Cell) (v : Nat) : Store :=
  (c, v) :: s.filter (fun p => p.1 != c)

/-- the public entry points named by the property -/
inductive Op where
  | iterLinearFit | fitShifts | fitRshift | fitRscale | fitGeneral
  | inv | buildFitMatrix | convexHull
  /-- a call of the shared default `XYXYMatch()` instance on two tables -/
  | xyxyMatch
  /-- `fit_wcs(refcat, imcat_i, corrector_i, ref_tpwcs)` -/
  | fitWcs (i : Nat)
  /-- `align_wcs([corrector_i | i ∈ is], refcat, ref_tpwcs, …)` (default matcher included) -/
  | alignWcs (is : List Nat)
  /-- `corrector_i.set_correction(matrix, shift, ref_tpwcs, meta)` -/
  | setCorrection (i : Nat)
  /-- `corrector_j := corrector_i.copy()` -/
  | copyCorrector (i j : Nat)
  deriving DecidableEq, Repr

/-- the documented side effects of an alignment on corrector `i` -/
def corrCells (i : Nat) : List Cell := [.corrWcs i, .corrMeta i, .fitInfo i]

/-- every cell of corrector `i` -/
def allCells (i : Nat) : List Cell :=
  [.imCatalog i, .origWcs i, .corrWcs i, .corrMeta i, .fitInfo i]

/-- DECLARED write sets.  `origWcs`, `refTpwcs…`, `refCorr…`, catalogs, coordinate / weight
arrays, default arguments, the default matcher and module state are in no write set, except
that `copyCorrector i j` *creates* all cells of the new corrector `j`. -/
def writeSet : Op → List Cell
  | .fitWcs i => corrCells i
  | .alignWcs is => is.flatMap corrCells
  | .setCorrection i => [.corrWcs i, .corrMeta i]
  | .copyCorrector _ j => allCells j
  | _ => []

/-- correctors an operation acts on -/
def targets : Op → List Nat
  | .fitWcs i => [i]
  | .alignWcs is => is
  | .setCorrection i => [i]
  | .copyCorrector _ j => [j]
  | _ => []

def fitArgs : List Cell := [.argXY, .argUV, .argWxy, .argWuv]

/-- DECLARED read sets: the cells the result of an operation (returned value and new cell
contents) may depend on -/
def readSet : Op → List Cell
  | .iterLinearFit => .argCenter :: fitArgs
  | .fitShifts => fitArgs
  | .fitRshift => fitArgs
  | .fitRscale => fitArgs
  | .fitGeneral => fitArgs
  | .inv => [.invArg]
  | .buildFitMatrix => [.bfmRot, .bfmScale]
  | .convexHull => [.hullX, .hullY]
  | .xyxyMatch => [.matchRef, .matchIm, .defaultMatcher]
  | .fitWcs i => [.refCatalog, .refTpwcs, .refTpwcsMeta, .moduleState] ++ allCells i
  | .alignWcs is =>
      [.argList, .refCatalog, .refTpwcs, .refTpwcsMeta, .refCorrWcs, .refCorrMeta, .refCorrOrig,
       .defaultMatcher, .defaultArgs, .moduleState] ++ is.flatMap allCells
  | .setCorrection i =>
      [.argMatrix, .argShift, .argMeta, .defaultArgs, .refTpwcs, .refTpwcsMeta, .moduleState]
        ++ allCells i
  | .copyCorrector i _ => allCells i

/-- the cell of corrector `i` that corresponds to a cell of its copy -/
def copySrc (i : Nat) : Cell → Cell
  | .imCatalog _ => .imCatalog i
  | .origWcs _ => .origWcs i
  | .corrWcs _ => .corrWcs i
  | .corrMeta _ => .corrMeta i
  | .fitInfo _ => .fitInfo i
  | c => c

/-- the unmodelled computations: new content of a written cell, and the returned value -/
structure Sem where
  upd : Op → Store → Cell → Nat
  out : Op → Store → Nat

/-- new content of a written cell.  A copy is modelled concretely (the new corrector starts
with the contents of the old one); everything else is the parameter `upd`, evaluated on the
state *before* the call. -/
def newVal (sem : Sem) (s : Store) : Op → Cell → Nat
  | .copyCorrector i _, c => s.get (copySrc i c)
  | op, c => sem.upd op s c

/-- write the cells of `l` with the values `f` -/
def writeAll (f : Cell → Nat) (l : List Cell) (s : Store) : Store :=
  l.foldl (fun acc c => acc.set c (f c)) s

/-- one call: only cells of the declared write set are assigned -/
def step (sem : Sem) (s : Store) (op : Op) : Store :=
  writeAll (newVal sem s op) (writeSet op) s

/-- a call sequence -/
def run (sem : Sem) (s : Store) (ops : List Op) : Store := ops.foldl (step sem) s

/-- the values returned by the calls of a sequence -/
def outputs (sem : Sem) (s : Store) : List Op → List Nat
  | [] => []
  | op :: ops => sem.out op s :: outputs sem (step sem s op) ops

/-- cells that MAY change during a call sequence: the union of the write sets -/
def mayWrite (ops : List Op) : List Cell := ops.flatMap writeSet

/-- correctors created by a copy during the sequence -/
def copyDests : List Op → List Nat
  | [] => []
  | .copyCorrector _ j :: ops => j :: copyDests ops
  | _ :: ops => copyDests ops

/-- two stores agree on a list of cells -/
def agreeOn (l : List Cell) (s s' : Store) : Prop := ∀ c ∈ l, s.get c = s'.get c

/-- the unmodelled computation looks only at the declared read set -/
structure Sem.Respects (sem : Sem) : Prop where
  upd_reads : ∀ op s s', agreeOn (readSet op) s s' → ∀ c, sem.upd op s c = sem.upd op s' c
  out_reads : ∀ op s s', agreeOn (readSet op) s s' → sem.out op s = sem.out op s'

/-- cells of the read set of `op` that a sequence `mid` may write: when empty, the model
predicts that `op` gives the same result before and after `mid` -/
def leak (mid : List Op) (op : Op) : List Cell :=
  (readSet op).filter (fun c => (mayWrite mid).contains c)

/-- a concrete computation used for executable examples: every written cell gets a value that
depends on all cells read -/
def demoSem : Sem where
  upd := fun op s _ => ((readSet op).map s.get).sum + 1
  out := fun op s => ((readSet op).map s.get).sum

end TW
