import Model.Overlap
/-!
Model of the control flow of `tweakwcs.imalign.align_wcs` (and of the parts of
`WCSGroupCatalog.align_to_ref`, `get_unmatched_cat`, `RefCatalog.expand_catalog` that decide
statuses and the growth of the reference catalog), Mathlib-free.

* an image is its group id and the list of identities of the physical sources of its catalog;
* the matcher is *ideal*: a source matches iff its identity is in the reference catalog
  (`MatchMode.none1to1` is `match=None`: catalogs are taken as matched 1-to-1 and must have equal
  lengths);  `success ↔ nmatches ≥ max(minobj, minimum of the fit geometry)`;
* overlap areas are parameters: `pairG` is the table of guarded areas between the groups that take
  part (as in `Model/Overlap.lean`), `refArea cat g` is the guarded area between the reference
  catalog with content `cat` and the group number `g` (the reference footprint is re-evaluated
  against the growing catalog, as the code does);
* the fit itself (`fit2ref`) is not computed: whether the matched sources of a group can be fitted
  is **data** of the input (`Img.fitFail`: the fit of the group that contains the image is
  degenerate, and which exception `fit2ref` raises); `align_to_ref` reports such a group as
  `FAILED: singular matrix` / `FAILED: not enough points` (the code since 4565404; the behaviour
  before — the exception leaves `align_wcs` in mid-run — is kept as `AlignCfg.catchFit = false`
  for the witness of the finding only);
* every write of `meta['fit_info']` and every `set_correction` call is recorded, in order, in a
  trace of events; the reference catalog is a list of rows `(source, id, origin)`;
* `alignWcsEntry` is the top of `align_wcs` (argument validation, in the order of the code) in
  front of `alignWcs`; `fitWcs` is `fit_wcs` (one image, `match=None`) on the same pieces.
-/
namespace TW

/-- the exception `fit2ref` raises on a degenerate set of matched sources -/
inductive FitFail where
  | singular            -- `SingularMatrixError`: collinear / coincident matched sources
  | notEnoughPoints     -- `NotEnoughPointsError`: too few matched sources with a positive weight
  deriving Repr, DecidableEq

structure Img where
  gid : Option Nat
  sources : List Nat
  /-- the matched sources of the group that contains this image cannot be fitted -/
  fitFail : Option FitFail := none
  deriving Repr, Inhabited

inductive FailReason where
  | emptyCatalog        -- 'FAILED: empty source catalog'
  | notEnoughMatches    -- 'FAILED: not enough matches'
  | singularMatrix      -- 'FAILED: singular matrix'
  | notEnoughPoints     -- 'FAILED: not enough points'
  | unknownError        -- 'FAILED: Unknown error' (the initial status written by `fit_wcs`)
  deriving Repr, DecidableEq

def FitFail.reason : FitFail → FailReason
  | .singular => .singularMatrix
  | .notEnoughPoints => .notEnoughPoints

inductive Status where
  | reference
  | success
  | failed (r : FailReason)
  deriving Repr, DecidableEq

inductive Event where
  | status (img : Nat) (s : Status)   -- `corrector.meta['fit_info'] = {'status': …}`
  | correct (img : Nat)               -- `corrector.set_correction(…)`
  deriving Repr, DecidableEq

inductive AlignErr where
  | notEnoughCatalogs   -- `NotEnoughCatalogs`
  | emptyRefcat         -- `ValueError`: reference catalog must contain at least one source
  | lengthMismatch      -- `ValueError` of `match2ref` when `match=None` and lengths differ
  | indexError          -- a `pop` out of range in the ordering helpers (never, see C15)
  | fitError (f : FitFail)  -- exception of `fit2ref` leaving `align_wcs` (before 4565404 only)
  | fitgeomKeyError     -- `KeyError` of `SUPPORTED_FITGEOM_MODES[fitgeom]` inside `align_to_ref`
  -- argument validation at the top of `align_wcs` / `fit_wcs`
  | wcscatType          -- `TypeError`: 'wcscat' neither a corrector nor a list of correctors
  | noCatalog           -- `ValueError`: a corrector without `meta['catalog']`
  | catalogNoXY         -- `ValueError` of `WCSImageCatalog`: catalog without 'x', 'y' columns
  | fitgeomNotString    -- `AttributeError` of `fitgeom.lower()`
  | badFitgeom          -- `ValueError`: unsupported 'fitgeom'
  | refNoCatalog        -- `ValueError`: reference corrector without a catalog
  | refNoRADEC          -- `KeyError`: reference table without 'RA', 'DEC'
  | refcatType          -- `TypeError`: unsupported 'refcat' type
  | metaNotWritable     -- `AttributeError` of `fit_wcs`: `corrector.meta` cannot be set
  deriving Repr, DecidableEq

/-- the errors raised by the argument checks at the top of `align_wcs` (the refusal of an empty
reference catalog by `RefCatalog` is one of them) -/
def AlignErr.isValidation : AlignErr → Bool
  | .wcscatType | .noCatalog | .catalogNoXY | .fitgeomNotString | .badFitgeom
  | .refNoCatalog | .refNoRADEC | .refcatType | .emptyRefcat => true
  | _ => false

/-- a row of the reference catalog: physical source, `id` column, image it was taken from
(`none`: a row of the catalog supplied by the caller) -/
structure RefRow where
  src : Nat
  id : Int
  origin : Option Nat
  deriving Repr, DecidableEq

inductive MatchMode where
  | ideal
  | none1to1
  deriving Repr, DecidableEq

structure AlignCfg where
  expand : Bool
  enforce : Bool
  minobj : Nat        -- `minobj` as `align_wcs` passes it on (the caller's value, or the default)
  fitmin : Nat        -- `SUPPORTED_FITGEOM_MODES[fitgeom]`: sources needed by the fit geometry
  mode : MatchMode
  /-- `fitgeom in SUPPORTED_FITGEOM_MODES` (an unknown one passes the top of `align_wcs` when
  `minobj` is given, and `align_to_ref` then dies with a `KeyError`) -/
  fitgeomKnown : Bool := true
  /-- `align_to_ref` catches `SingularMatrixError` / `NotEnoughPointsError` of `fit2ref`
  (the code since 4565404); `false` is the behaviour before, kept for the witness of the finding -/
  catchFit : Bool := true

/-- effective `minobj` of `align_to_ref`: `max(minobj, SUPPORTED_FITGEOM_MODES[fitgeom])` -/
def effMinobj (cfg : AlignCfg) : Nat := if cfg.minobj < cfg.fitmin then cfg.fitmin else cfg.minobj

/-- one call of `refcat.expand_catalog(unmatched)` -/
structure Expansion where
  group : List Nat      -- the group whose unmatched sources were appended
  ok : Bool             -- it had been aligned successfully (`status == 'SUCCESS'`)
  areaZero : Bool       -- it had no overlap with the reference (`not area`)
  rows : List RefRow
  deriving Repr

/-- catalog of a group: the members' catalogs concatenated, each source with its image -/
def groupSources (imgs : List Img) (gr : List Nat) : List (Nat × Nat) :=
  gr.flatMap fun k => (imgs.getD k default).sources.map fun s => (s, k)

/-- the loop that builds `wcs_gcat`, second half: groups (and ungrouped images) whose catalog is
empty get `FAILED: empty source catalog` and are dropped -/
def dropEmpty (imgs : List Img) : List (List Nat) → List (List Nat) × List Event
  | [] => ([], [])
  | gr :: t =>
    let rest := dropEmpty imgs t
    if (groupSources imgs gr).isEmpty then
      (rest.1, gr.map (fun k => Event.status k (.failed .emptyCatalog)) ++ rest.2)
    else (gr :: rest.1, rest.2)

/-- `RefCatalog(ref_imcat.catalog)`: rows of the reference group, ids as assigned per image
(`1 … len`) by `WCSImageCatalog` -/
def rowsOfGroup (imgs : List Img) (gr : List Nat) : List RefRow :=
  gr.flatMap fun k =>
    ((imgs.getD k default).sources.zipIdx).map fun (s, j) => { src := s, id := (j : Int) + 1, origin := some k }

/-- `RefCatalog(table)`: ids of the table, or `1 … len` when it has no `id` column -/
def rowsOfTable (srcs : List Nat) (ids : Option (List Int)) : List RefRow :=
  match ids with
  | some l => (srcs.zip l).map fun (s, i) => { src := s, id := i, origin := none }
  | none => srcs.zipIdx.map fun (s, j) => { src := s, id := (j : Int) + 1, origin := none }

/-- `catalog['id'].max()` -/
def maxId : List RefRow → Int
  | [] => 0
  | r :: t => t.foldl (fun m x => if m < x.id then x.id else m) r.id

/-- `RefCatalog.expand_catalog`: rows appended with ids `max+1, max+2, …` -/
def newRows (cat : List RefRow) (un : List (Nat × Nat)) : List RefRow :=
  un.zipIdx.map fun (p, j) => { src := p.1, id := maxId cat + 1 + (j : Int), origin := some p.2 }

/-- `nmatches` of `match2ref` -/
def nMatches (imgs : List Img) (cfg : AlignCfg) (gr : List Nat) (cat : List RefRow) : Nat :=
  let src := groupSources imgs gr
  match cfg.mode with
  | .ideal => (src.filter fun p => (cat.map (·.src)).contains p.1).length
  | .none1to1 => src.length

/-- which degenerate fit (if any) awaits the group: the flag of its first flagged member -/
def fitFailOf (imgs : List Img) (gr : List Nat) : Option FitFail :=
  gr.findSome? fun k => (imgs.getD k default).fitFail

/-- `align_to_ref` after `match2ref`: the `nmatches < minobj` test, then `fit2ref` inside
`try … except (SingularMatrixError, NotEnoughPointsError)`; `none` is SUCCESS -/
def fitStep (imgs : List Img) (cfg : AlignCfg) (gr : List Nat) (nm : Nat) :
    Except AlignErr (Option FailReason) :=
  if nm < effMinobj cfg then .ok (some .notEnoughMatches)
  else match fitFailOf imgs gr with
    | none => .ok none
    | some f => if cfg.catchFit then .ok (some f.reason) else .error (.fitError f)

/-- `align_to_ref`: `SUPPORTED_FITGEOM_MODES[fitgeom]`, matching, the `nmatches < minobj` test and
the fit; returns the outcome of the group (`none`: aligned; `some r`: `FAILED: r`, `return False`)
and its unmatched sources (`get_unmatched_cat`) -/
def alignGroup (imgs : List Img) (cfg : AlignCfg) (gr : List Nat) (cat : List RefRow) :
    Except AlignErr (Option FailReason × List (Nat × Nat)) :=
  if !cfg.fitgeomKnown then .error .fitgeomKeyError else
  let src := groupSources imgs gr
  let refset := cat.map (·.src)
  match cfg.mode with
  | .ideal =>
    let matched := src.filter fun p => refset.contains p.1
    let un := src.filter fun p => !refset.contains p.1
    match fitStep imgs cfg gr matched.length with
    | .error e => .error e
    | .ok o => .ok (o, un)
  | .none1to1 =>
    if src.length ≠ cat.length then .error .lengthMismatch
    else match fitStep imgs cfg gr src.length with
      | .error e => .error e
      | .ok o => .ok (o, [])

/-- the status a processed group ends with -/
def outcomeStatus : Option FailReason → Status
  | none => .success
  | some r => .failed r

/-- events of one processed group: `set_correction` of every member (inside `align_to_ref`, only
when the fit was made), then the `fit_info` of every member -/
def blockEvents (res : List Nat × Option FailReason) : List Event :=
  match res.2 with
  | none => res.1.map Event.correct ++ res.1.map (fun k => Event.status k .success)
  | some r => res.1.map (fun k => Event.status k (.failed r))

section
variable {K : Type} [LT K] [DecidableLT K] [Add K] [NatCast K] [BEq K]

/-- `_max_overlap_image(refcat, wcs_gcat, …)` on the work list of group numbers: the selected
position is popped from the work list itself (`images.pop(idx)`) -/
def nextImage (eo : Bool) (refArea : List RefRow → Nat → K × Nat) (work : List Nat)
    (cat : List RefRow) : Option (Nat × K) × List Nat :=
  match maxOverlapImage eo (work.map (refArea cat)) with
  | none => (none, work)
  | some r => ((work[r.idx]?).map (fun g => (g, r.area)), work.eraseIdx r.idx)

structure LoopOut where
  err : Option AlignErr
  results : List (List Nat × Option FailReason)   -- groups handed to `align_to_ref`, in order, with the outcome
  nms : List Nat                     -- `nmatches` of those groups
  expansions : List Expansion
  refcat : List RefRow

/-- `while current_wcat is not None: …` -/
def alignLoop (imgs : List Img) (kept : List (List Nat)) (cfg : AlignCfg) (eo : Bool)
    (refArea : List RefRow → Nat → K × Nat) :
    Nat → Option (Nat × K) → List Nat → List RefRow → LoopOut
  | 0, _, _, cat => { err := none, results := [], nms := [], expansions := [], refcat := cat }
  | _ + 1, none, _, cat => { err := none, results := [], nms := [], expansions := [], refcat := cat }
  | fuel + 1, some (gi, area), work, cat =>
    let gr := kept.getD gi []
    match alignGroup imgs cfg gr cat with
    | .error e => { err := some e, results := [], nms := [], expansions := [], refcat := cat }
    | .ok (o, un) =>
      let ok := o.isNone                      -- `fit_info['status'] == 'SUCCESS'`
      let zero := area == zeroK               -- `not area`
      let grow := cfg.expand && (ok || zero)
      let rows := newRows cat un
      let cat' := if grow then cat ++ rows else cat
      let nx := nextImage eo refArea work cat'
      let out := alignLoop imgs kept cfg eo refArea fuel nx.1 nx.2 cat'
      { err := out.err, results := (gr, o) :: out.results, nms := nMatches imgs cfg gr cat :: out.nms,
        expansions := (if grow then [{ group := gr, ok := ok, areaZero := zero, rows := rows }] else [])
                        ++ out.expansions,
        refcat := out.refcat }

structure AlignOut where
  err : Option AlignErr       -- `none`: the function returned
  events : List Event         -- status writes and `set_correction` calls, in order
  order : List (List Nat)     -- groups aligned ("Aligning image catalog …"), in order
  nms : List Nat              -- their `nmatches`
  outcomes : List (Option FailReason)   -- their outcomes (`none`: SUCCESS)
  initial : List RefRow       -- the reference catalog before the first alignment
  expansions : List Expansion
  refcat : List RefRow        -- the returned catalog

/-- an exception leaves `align_wcs`: what had been written so far -/
def alignFail (e : AlignErr) (ev : List Event) : AlignOut :=
  { err := some e, events := ev, order := [], nms := [], outcomes := [], initial := [], expansions := [],
    refcat := [] }

/-- state at the entry of the alignment loop -/
structure Start (K : Type) where
  ev1 : List Event            -- REFERENCE statuses
  cat : List RefRow           -- the reference catalog
  cur : Option (Nat × K)      -- first group to align and its overlap with the reference
  work : List Nat

/-- "get the first image to be aligned and create reference catalog if needed" -/
def alignStart (imgs : List Img) (kept : List (List Nat)) (eo : Bool)
    (refIn : Option (List Nat × Option (List Int)))
    (pairG : List (List (K × Nat))) (refArea : List RefRow → Nat → K × Nat) : Except AlignErr (Start K) :=
  match refIn with
  | none =>
    match maxOverlapPair eo kept.length pairG with
    | .error _ => .error .indexError
    | .ok r =>
      match r.ref, r.im, r.area with
      | some ri, some ii, some a =>
        let refGroup := kept.getD ri []
        .ok { ev1 := refGroup.map fun k => Event.status k .reference, cat := rowsOfGroup imgs refGroup,
              cur := some (ii, a), work := r.rest }
      | _, _, _ => .error .indexError
  | some (srcs, ids) =>
    let cat := rowsOfTable srcs ids
    let nx := nextImage eo refArea (List.range kept.length) cat
    .ok { ev1 := [], cat := cat, cur := nx.1, work := nx.2 }

/-- the reference catalog supplied by the caller is empty (`RefCatalog` refuses it) -/
def refEmpty (refIn : Option (List Nat × Option (List Int))) : Bool :=
  match refIn with
  | some (srcs, _) => srcs.isEmpty
  | none => false

/-- `align_wcs(wcscat, refcat, enforce_user_order, expand_refcat, minobj, match, …)` -/
def alignWcs (imgs : List Img) (refIn : Option (List Nat × Option (List Int))) (cfg : AlignCfg)
    (pairG : List (List (K × Nat))) (refArea : List RefRow → Nat → K × Nat) : AlignOut :=
  if refEmpty refIn then alignFail .emptyRefcat [] else
  let de := dropEmpty imgs (formGroups (imgs.map (·.gid)))
  let kept := de.1
  let n := kept.length
  if (refIn.isNone ∧ n < 2) ∨ n = 0 then alignFail .notEnoughCatalogs de.2 else
  let eo := cfg.enforce || !cfg.expand
  match alignStart imgs kept eo refIn pairG refArea with
  | .error e => alignFail e de.2
  | .ok st =>
    let out := alignLoop imgs kept cfg eo refArea (n + 1) st.cur st.work st.cat
    { err := out.err, events := de.2 ++ st.ev1 ++ out.results.flatMap blockEvents,
      order := out.results.map (·.1), nms := out.nms, outcomes := out.results.map (·.2), initial := st.cat,
      expansions := out.expansions, refcat := out.refcat }

/-! ### the top of `align_wcs`: argument validation, in the order of the code -/

/-- `meta['catalog']` of a corrector of `wcscat` -/
inductive CatArg where
  | ok          -- a table with 'x' and 'y' columns
  | missing     -- `meta.get('catalog') is None`
  | noXY        -- a table without 'x' / 'y' (refused by `WCSImageCatalog`)
  deriving Repr, DecidableEq

/-- an element of the list `wcscat` -/
structure ImgArg where
  isCorrector : Bool
  cat : CatArg
  img : Img
  deriving Repr

inductive WcscatArg where
  | single (cat : CatArg) (img : Img)   -- one `WCSCorrector` (wrapped into a list, `start = 1`)
  | list (l : List ImgArg)              -- an iterable that can be sliced
  | notIterable                         -- anything else
  deriving Repr

inductive FitgeomArg where
  | known (fitmin : Nat)    -- after `.lower()` a key of `SUPPORTED_FITGEOM_MODES`
  | unknown                 -- a string that is not
  | notString               -- no `.lower()`
  deriving Repr, DecidableEq

inductive RefArg where
  | none
  | corrector (hasCatalog : Bool) (srcs : List Nat)   -- `'catalog' in refcat.meta`
  | table (hasRADEC : Bool) (srcs : List Nat) (ids : Option (List Int))
  | unsupported
  deriving Repr

structure AlignArgs where
  wcscat : WcscatArg
  refcat : RefArg
  fitgeom : FitgeomArg
  minobj : Option Nat
  expand : Bool
  enforce : Bool
  mode : MatchMode
  deriving Repr

/-- the list the loop `for wcat in wcscat` runs over -/
def WcscatArg.items : WcscatArg → List ImgArg
  | .single c i => [{ isCorrector := true, cat := c, img := i }]
  | .list l => l
  | .notIterable => []

/-- `not (hasattr(wcscat, '__iter__') and all(isinstance(wcat, WCSCorrector) for wcat in wcscat[start:]))` -/
def WcscatArg.typeError : WcscatArg → Bool
  | .single _ _ => false
  | .list l => l.any fun a => !a.isCorrector
  | .notIterable => true

/-- the first corrector (in list order) whose catalog is refused, with the error it raises -/
def catalogError : List ImgArg → Option AlignErr
  | [] => none
  | a :: t =>
    match a.cat with
    | .ok => catalogError t
    | .missing => some .noCatalog
    | .noXY => some .catalogNoXY

/-- "process reference catalog or image if provided" up to (not including) the refusal of an empty
catalog by `RefCatalog`, which `alignWcs` models -/
def refCheck : RefArg → Except AlignErr (Option (List Nat × Option (List Int)))
  | .none => .ok none
  | .corrector hasCat srcs => if hasCat then .ok (some (srcs, none)) else .error .refNoCatalog
  | .table hasRD srcs ids => if hasRD then .ok (some (srcs, ids)) else .error .refNoRADEC
  | .unsupported => .error .refcatType

/-- the options `align_wcs` works with once the arguments are accepted -/
def AlignArgs.cfg (a : AlignArgs) : AlignCfg :=
  let fitmin := match a.fitgeom with | .known m => m | _ => 0
  { expand := a.expand, enforce := a.enforce, minobj := a.minobj.getD fitmin, fitmin := fitmin, mode := a.mode,
    fitgeomKnown := (match a.fitgeom with | .known _ => true | _ => false), catchFit := true }

/-- `align_wcs(wcscat, refcat, …)` from its first line: type of `wcscat`, a catalog in every
corrector, `fitgeom` (checked only while the default of `minobj` is looked up), `refcat`; then
grouping and alignment (`alignWcs`) -/
def alignWcsEntry (a : AlignArgs) (pairG : List (List (K × Nat))) (refArea : List RefRow → Nat → K × Nat) :
    AlignOut :=
  if a.wcscat.typeError then alignFail .wcscatType [] else
  match catalogError a.wcscat.items with
  | some e => alignFail e []
  | none =>
    if a.fitgeom = .notString then alignFail .fitgeomNotString [] else
    if a.fitgeom = .unknown ∧ a.minobj = none then alignFail .badFitgeom [] else
    match refCheck a.refcat with
    | .error e => alignFail e []
    | .ok refIn => alignWcs (a.wcscat.items.map (·.img)) refIn a.cfg pairG refArea
end

/-! ### `fit_wcs`: one image, catalogs matched beforehand (`match=None`, `minobj=None`) -/

structure FitArgs where
  metaWritable : Bool       -- `corrector.meta['fit_info'] = …` works
  fitgeom : FitgeomArg
  cat : CatArg              -- `imcat` (`missing` does not occur: it is an argument)
  img : Img                 -- the sources of `imcat` (the group id is not looked at)
  refHasRADEC : Bool
  refSrcs : List Nat
  deriving Repr

structure FitOut where
  err : Option AlignErr
  events : List Event
  deriving Repr

/-- `fit_wcs(refcat, imcat, corrector, fitgeom=…)`; the image is number 0 -/
def fitWcs (a : FitArgs) : FitOut :=
  if !a.metaWritable then { err := some .metaNotWritable, events := [] } else
  let ev0 := [Event.status 0 (.failed .unknownError)]       -- initial status
  match a.fitgeom with
  | .notString => { err := some .fitgeomNotString, events := ev0 }
  | .unknown => { err := some .badFitgeom, events := ev0 }
  | .known fitmin =>
    if a.cat ≠ .ok then { err := some .catalogNoXY, events := ev0 }            -- `WCSImageCatalog(imcat, …)`
    else if !a.refHasRADEC then { err := some .refNoRADEC, events := ev0 }      -- `RefCatalog(refcat, …)`
    else if a.refSrcs.isEmpty then { err := some .emptyRefcat, events := ev0 }
    else
      let cfg : AlignCfg := { expand := false, enforce := true, minobj := fitmin, fitmin := fitmin,
                              mode := .none1to1 }
      match alignGroup [a.img] cfg [0] (rowsOfTable a.refSrcs none) with
      | .error e => { err := some e, events := ev0 }
      | .ok (o, _) => { err := none, events := ev0 ++ blockEvents ([0], o) }   -- final `fit_info`
end TW
