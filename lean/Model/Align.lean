import Model.Overlap
/-!
Model of the control flow of `tweakwcs.imalign.align_wcs` (and of the parts of
`WCSGroupCatalog.align_to_ref`, `get_unmatched_cat`, `RefCatalog.expand_catalog` that decide
statuses and the growth of the reference catalog), Mathlib-free.

* an image is its group id and the list of identities of the physical sources of its catalog;
* the matcher is *ideal*: a source matches iff its identity is in the reference catalog
  (`MatchMode.none1to1` is `match=None`: catalogs are taken as matched 1-to-1 and must have equal
  lengths);  `success ↔ nmatches ≥ max(minobj, minimum of the fit geometry)`;
* overlap areas are parameters: `pairG` is the table of guarded areas between the groups that take
  part (as in `Model/Overlap.lean`), `refArea cat g` is the guarded area between the reference
  catalog with content `cat` and the group number `g` (the reference footprint is re-evaluated
  against the growing catalog, as the code does);
* every write of `meta['fit_info']` and every `set_correction` call is recorded, in order, in a
  trace of events; the reference catalog is a list of rows `(source, id, origin)`.
-/
namespace TW

structure Img where
  gid : Option Nat
  sources : List Nat
  deriving Repr, Inhabited

inductive FailReason where
  | emptyCatalog        -- 'FAILED: empty source catalog'
  | notEnoughMatches    -- 'FAILED: not enough matches'
  deriving Repr, DecidableEq

inductive Status where
  | reference
  | success
  | failed (r : FailReason)
  deriving Repr, DecidableEq

inductive Event where
  | status (img : Nat) (s : Status)   -- `corrector.meta['fit_info'] = {'status': …}`
  | correct (img : Nat)               -- `corrector.set_correction(…)`
  deriving Repr, DecidableEq

inductive AlignErr where
  | notEnoughCatalogs   -- `NotEnoughCatalogs`
  | emptyRefcat         -- `ValueError`: reference catalog must contain at least one source
  | lengthMismatch      -- `ValueError` of `match2ref` when `match=None` and lengths differ
  | indexError          -- a `pop` out of range in the ordering helpers (never, see C15)
  deriving Repr, DecidableEq

/-- a row of the reference catalog: physical source, `id` column, image it was taken from
(`none`: a row of the catalog supplied by the caller) -/
structure RefRow where
  src : Nat
  id : Int
  origin : Option Nat
  deriving Repr, DecidableEq

inductive MatchMode where
  | ideal
  | none1to1
  deriving Repr, DecidableEq

structure AlignCfg where
  expand : Bool
  enforce : Bool
  minobj : Nat        -- `minobj` as `align_wcs` passes it on (the caller's value, or the default)
  fitmin : Nat        -- `SUPPORTED_FITGEOM_MODES[fitgeom]`: sources needed by the fit geometry
  mode : MatchMode

/-- effective `minobj` of `align_to_ref`: `max(minobj, SUPPORTED_FITGEOM_MODES[fitgeom])` -/
def effMinobj (cfg : AlignCfg) : Nat := if cfg.minobj < cfg.fitmin then cfg.fitmin else cfg.minobj

/-- one call of `refcat.expand_catalog(unmatched)` -/
structure Expansion where
  group : List Nat      -- the group whose unmatched sources were appended
  ok : Bool             -- it had been aligned successfully
  areaZero : Bool       -- it had no overlap with the reference (`not area`)
  rows : List RefRow
  deriving Repr

/-- catalog of a group: the members' catalogs concatenated, each source with its image -/
def groupSources (imgs : List Img) (gr : List Nat) : List (Nat × Nat) :=
  gr.flatMap fun k => (imgs.getD k default).sources.map fun s => (s, k)

/-- the loop that builds `wcs_gcat`, second half: groups (and ungrouped images) whose catalog is
empty get `FAILED: empty source catalog` and are dropped -/
def dropEmpty (imgs : List Img) : List (List Nat) → List (List Nat) × List Event
  | [] => ([], [])
  | gr :: t =>
    let rest := dropEmpty imgs t
    if (groupSources imgs gr).isEmpty then
      (rest.1, gr.map (fun k => Event.status k (.failed .emptyCatalog)) ++ rest.2)
    else (gr :: rest.1, rest.2)

/-- `RefCatalog(ref_imcat.catalog)`: rows of the reference group, ids as assigned per image
(`1 … len`) by `WCSImageCatalog` -/
def rowsOfGroup (imgs : List Img) (gr : List Nat) : List RefRow :=
  gr.flatMap fun k =>
    ((imgs.getD k default).sources.zipIdx).map fun (s, j) => { src := s, id := (j : Int) + 1, origin := some k }

/-- `RefCatalog(table)`: ids of the table, or `1 … len` when it has no `id` column -/
def rowsOfTable (srcs : List Nat) (ids : Option (List Int)) : List RefRow :=
  match ids with
  | some l => (srcs.zip l).map fun (s, i) => { src := s, id := i, origin := none }
  | none => srcs.zipIdx.map fun (s, j) => { src := s, id := (j : Int) + 1, origin := none }

/-- `catalog['id'].max()` -/
def maxId : List RefRow → Int
  | [] => 0
  | r :: t => t.foldl (fun m x => if m < x.id then x.id else m) r.id

/-- `RefCatalog.expand_catalog`: rows appended with ids `max+1, max+2, …` -/
def newRows (cat : List RefRow) (un : List (Nat × Nat)) : List RefRow :=
  un.zipIdx.map fun (p, j) => { src := p.1, id := maxId cat + 1 + (j : Int), origin := some p.2 }

/-- `nmatches` of `match2ref` -/
def nMatches (imgs : List Img) (cfg : AlignCfg) (gr : List Nat) (cat : List RefRow) : Nat :=
  let src := groupSources imgs gr
  match cfg.mode with
  | .ideal => (src.filter fun p => (cat.map (·.src)).contains p.1).length
  | .none1to1 => src.length

/-- matching and the `nmatches < minobj` test of `align_to_ref`; returns whether the group was
aligned and its unmatched sources (`get_unmatched_cat`) -/
def alignGroup (imgs : List Img) (cfg : AlignCfg) (gr : List Nat) (cat : List RefRow) :
    Except AlignErr (Bool × List (Nat × Nat)) :=
  let src := groupSources imgs gr
  let refset := cat.map (·.src)
  match cfg.mode with
  | .ideal =>
    let matched := src.filter fun p => refset.contains p.1
    let un := src.filter fun p => !refset.contains p.1
    .ok (decide (effMinobj cfg ≤ matched.length), un)
  | .none1to1 =>
    if src.length ≠ cat.length then .error .lengthMismatch
    else .ok (decide (effMinobj cfg ≤ src.length), [])

/-- events of one processed group: `set_correction` of every member (inside `align_to_ref`), then
the `fit_info` of every member -/
def blockEvents (res : List Nat × Bool) : List Event :=
  if res.2 then res.1.map Event.correct ++ res.1.map (fun k => Event.status k .success)
  else res.1.map (fun k => Event.status k (.failed .notEnoughMatches))

section
variable {K : Type} [LT K] [DecidableLT K] [Add K] [NatCast K] [BEq K]

/-- `_max_overlap_image(refcat, wcs_gcat, …)` on the work list of group numbers: the selected
position is popped from the work list itself (`images.pop(idx)`) -/
def nextImage (eo : Bool) (refArea : List RefRow → Nat → K × Nat) (work : List Nat)
    (cat : List RefRow) : Option (Nat × K) × List Nat :=
  match maxOverlapImage eo (work.map (refArea cat)) with
  | none => (none, work)
  | some r => ((work[r.idx]?).map (fun g => (g, r.area)), work.eraseIdx r.idx)

structure LoopOut where
  err : Option AlignErr
  results : List (List Nat × Bool)   -- groups handed to `align_to_ref`, in order, with the outcome
  nms : List Nat                     -- `nmatches` of those groups
  expansions : List Expansion
  refcat : List RefRow

/-- `while current_wcat is not None: …` -/
def alignLoop (imgs : List Img) (kept : List (List Nat)) (cfg : AlignCfg) (eo : Bool)
    (refArea : List RefRow → Nat → K × Nat) :
    Nat → Option (Nat × K) → List Nat → List RefRow → LoopOut
  | 0, _, _, cat => { err := none, results := [], nms := [], expansions := [], refcat := cat }
  | _ + 1, none, _, cat => { err := none, results := [], nms := [], expansions := [], refcat := cat }
  | fuel + 1, some (gi, area), work, cat =>
    let gr := kept.getD gi []
    match alignGroup imgs cfg gr cat with
    | .error e => { err := some e, results := [], nms := [], expansions := [], refcat := cat }
    | .ok (ok, un) =>
      let zero := area == zeroK
      let grow := cfg.expand && (ok || zero)
      let rows := newRows cat un
      let cat' := if grow then cat ++ rows else cat
      let nx := nextImage eo refArea work cat'
      let out := alignLoop imgs kept cfg eo refArea fuel nx.1 nx.2 cat'
      { err := out.err, results := (gr, ok) :: out.results, nms := nMatches imgs cfg gr cat :: out.nms,
        expansions := (if grow then [{ group := gr, ok := ok, areaZero := zero, rows := rows }] else [])
                        ++ out.expansions,
        refcat := out.refcat }

structure AlignOut where
  err : Option AlignErr       -- `none`: the function returned
  events : List Event         -- status writes and `set_correction` calls, in order
  order : List (List Nat)     -- groups aligned ("Aligning image catalog …"), in order
  nms : List Nat              -- their `nmatches`
  initial : List RefRow       -- the reference catalog before the first alignment
  expansions : List Expansion
  refcat : List RefRow        -- the returned catalog

/-- an exception leaves `align_wcs`: what had been written so far -/
def alignFail (e : AlignErr) (ev : List Event) : AlignOut :=
  { err := some e, events := ev, order := [], nms := [], initial := [], expansions := [], refcat := [] }

/-- state at the entry of the alignment loop -/
structure Start (K : Type) where
  ev1 : List Event            -- REFERENCE statuses
  cat : List RefRow           -- the reference catalog
  cur : Option (Nat × K)      -- first group to align and its overlap with the reference
  work : List Nat

/-- "get the first image to be aligned and create reference catalog if needed" -/
def alignStart (imgs : List Img) (kept : List (List Nat)) (eo : Bool)
    (refIn : Option (List Nat × Option (List Int)))
    (pairG : List (List (K × Nat))) (refArea : List RefRow → Nat → K × Nat) : Except AlignErr (Start K) :=
  match refIn with
  | none =>
    match maxOverlapPair eo kept.length pairG with
    | .error _ => .error .indexError
    | .ok r =>
      match r.ref, r.im, r.area with
      | some ri, some ii, some a =>
        let refGroup := kept.getD ri []
        .ok { ev1 := refGroup.map fun k => Event.status k .reference, cat := rowsOfGroup imgs refGroup,
              cur := some (ii, a), work := r.rest }
      | _, _, _ => .error .indexError
  | some (srcs, ids) =>
    let cat := rowsOfTable srcs ids
    let nx := nextImage eo refArea (List.range kept.length) cat
    .ok { ev1 := [], cat := cat, cur := nx.1, work := nx.2 }

/-- the reference catalog supplied by the caller is empty (`RefCatalog` refuses it) -/
def refEmpty (refIn : Option (List Nat × Option (List Int))) : Bool :=
  match refIn with
  | some (srcs, _) => srcs.isEmpty
  | none => false

/-- `align_wcs(wcscat, refcat, enforce_user_order, expand_refcat, minobj, match, …)` -/
def alignWcs (imgs : List Img) (refIn : Option (List Nat × Option (List Int))) (cfg : AlignCfg)
    (pairG : List (List (K × Nat))) (refArea : List RefRow → Nat → K × Nat) : AlignOut :=
  if refEmpty refIn then alignFail .emptyRefcat [] else
  let de := dropEmpty imgs (formGroups (imgs.map (·.gid)))
  let kept := de.1
  let n := kept.length
  if (refIn.isNone ∧ n < 2) ∨ n = 0 then alignFail .notEnoughCatalogs de.2 else
  let eo := cfg.enforce || !cfg.expand
  match alignStart imgs kept eo refIn pairG refArea with
  | .error e => alignFail e de.2
  | .ok st =>
    let out := alignLoop imgs kept cfg eo refArea (n + 1) st.cur st.work st.cat
    { err := out.err, events := de.2 ++ st.ev1 ++ out.results.flatMap blockEvents,
      order := out.results.map (·.1), nms := out.nms, initial := st.cat, expansions := out.expansions,
      refcat := out.refcat }
end
end TW
