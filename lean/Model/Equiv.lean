import Model.Fit
import Model.Aff
/-!
Model additions for property C08 (equivariance of the fits).

* inputs in *row form*: one row per matched pair — the pair and its two catalogue weights — and
  two flags saying which of the weight arrays (`wxy`, `wuv`) are passed.  All arrays handed to the
  fitters then have the same length by construction (what `iter_linear_fit` validates).
* the change of coordinates `Row.move A B` (`A` applied to `xy`, `B` to `uv`) and the induced
  change of a fitted map, `Lin.conj A B L = A ∘ L ∘ B⁻¹`;
* the centre handling of `iter_linear_fit` (L313-320): both sets minus `center`, the single-shot
  fit, and the effective map `xy ≈ F·uv + s_eff`, `s_eff = s + c − F·c`;
* the clipping comparison `‖r‖ < nsigma · stat` on a list of residual norms (L342).
Mathlib-free, generic over the scalar.
-/
namespace TW

/-- one matched pair with the weights of its two catalogue entries -/
structure Row (K : Type) where
  o : Obs K
  wx : K
  wu : K

section
variable {K : Type} [Add K] [Sub K] [Mul K] [Div K] [Neg K] [LT K] [DecidableLT K] [NatCast K]

/-- `some l` when the weight array is passed, `None` otherwise -/
def optW (b : Bool) (l : List K) : Option (List K) := if b then some l else none

def rowsObs (rows : List (Row K)) : List (Obs K) := rows.map (·.o)
def rowsWxy (bx : Bool) (rows : List (Row K)) : Option (List K) := optW bx (rows.map (·.wx))
def rowsWuv (bu : Bool) (rows : List (Row K)) : Option (List K) := optW bu (rows.map (·.wu))

/-- `fit_shifts(xy, uv, wxy, wuv)` on rows -/
def fitShiftsR (bx bu : Bool) (rows : List (Row K)) : Except FitErr (Lin K) :=
  fitShifts (rowsObs rows) (rowsWxy bx rows) (rowsWuv bu rows)

/-- `fit_general(xy, uv, wxy, wuv)` on rows -/
def fitGeneralR (eps epsD : K) (bx bu : Bool) (rows : List (Row K)) : Except FitErr (Lin K) :=
  fitGeneral eps epsD (rowsObs rows) (rowsWxy bx rows) (rowsWuv bu rows)

/-- the collinearity guard of `fit_general` on rows -/
def generalGuardR (epsD : K) (bx bu : Bool) (rows : List (Row K)) : Bool :=
  generalGuard epsD (rowsObs rows) (rowsWxy bx rows) (rowsWuv bu rows)

/-- `fit_rscale(xy, uv, wxy, wuv, scale)` on rows (`fit_rshift`: `scale = some 1`) -/
def fitRscaleR [HasTrig K] (bx bu : Bool) (scale : Option K) (rows : List (Row K)) :
    Except FitErr (Lin K) :=
  fitRscale (rowsObs rows) (rowsWxy bx rows) (rowsWuv bu rows) scale

/-- the moments `fit_rscale` computes, on rows -/
def rsumsR (bx bu : Bool) (rows : List (Row K)) : RSums K :=
  rsums (normW (rowsObs rows).length (combineW (rowsWxy bx rows) (rowsWuv bu rows)))
    (rscaleWmom (rowsObs rows) (rowsWxy bx rows) (rowsWuv bu rows)) (rowsObs rows)

/-- determinant of the cross-moment matrix: its sign selects the reflection branch of `fit_rscale` -/
def RSums.crossDet (s : RSums K) : K := s.sxu * s.syv - s.sxv * s.syu

/-! ### changes of coordinates -/

def Obs.xy (o : Obs K) : V2 K := ⟨o.x, o.y⟩
def Obs.uv (o : Obs K) : V2 K := ⟨o.u, o.v⟩

/-- `A` applied to the observed position, `B` to the transformed one -/
def Obs.move (A B : Aff K) (o : Obs K) : Obs K :=
  ⟨(A.app o.xy).x, (A.app o.xy).y, (B.app o.uv).x, (B.app o.uv).y⟩

def Row.move (A B : Aff K) (r : Row K) : Row K := ⟨r.o.move A B, r.wx, r.wu⟩

/-- all weights multiplied by `c` -/
def Row.scaleW (c : K) (r : Row K) : Row K := ⟨r.o, c * r.wx, c * r.wu⟩

def Lin.toAff (L : Lin K) : Aff K := ⟨⟨L.m00, L.m01, L.m10, L.m11⟩, ⟨L.sx, L.sy⟩⟩
def Lin.ofAff (f : Aff K) : Lin K := ⟨f.m.a, f.m.b, f.m.c, f.m.d, f.t.x, f.t.y⟩

/-- the induced change of a fitted map: `A ∘ L ∘ B⁻¹` -/
def Lin.conj (A B : Aff K) (L : Lin K) : Lin K := Lin.ofAff (A.comp (L.toAff.comp B.inv))

/-- the translation by `a` -/
def Aff.trans (a : V2 K) : Aff K := ⟨M2.one, a⟩

/-- the induced change under translations (`xy + a`, `uv + b`): the matrix is unchanged, the
shift changes by `a − F·b` -/
def Lin.transl (a b : V2 K) (L : Lin K) : Lin K :=
  ⟨L.m00, L.m01, L.m10, L.m11,
   L.sx + a.x - (L.m00 * b.x + L.m01 * b.y), L.sy + a.y - (L.m10 * b.x + L.m11 * b.y)⟩

/-- linear part of a similarity: a rotation with uniform scaling, `[[a, b], [−b, a]]`, possibly
composed with an axis flip, `[[a, b], [b, −a]]` -/
def M2.IsSim (m : M2 K) : Prop := (m.c = -m.b ∧ m.d = m.a) ∨ (m.c = m.b ∧ m.d = -m.a)

/-- residual of pair `o` under the map `L`: `xy − (F·uv + s)` -/
def Lin.resid (L : Lin K) (o : Obs K) : V2 K :=
  ⟨o.x - (L.m00 * o.u + L.m01 * o.v + L.sx), o.y - (L.m10 * o.u + L.m11 * o.v + L.sy)⟩

def V2.normSq (p : V2 K) : K := p.x * p.x + p.y * p.y

/-! ### the centre of `iter_linear_fit` -/

/-- `xy[mask] -= center_ld; uv[mask] -= center_ld` -/
def Row.centre (c : V2 K) (r : Row K) : Row K :=
  ⟨⟨r.o.x - c.x, r.o.y - c.y, r.o.u - c.x, r.o.v - c.y⟩, r.wx, r.wu⟩

/-- the effective map `xy ≈ F·uv + s_eff` of a fit reported with centre `c`:
`xy = F·(uv − c) + s + c`, i.e. `s_eff = s + c − F·c` -/
def Lin.eff (c : V2 K) (L : Lin K) : Lin K :=
  ⟨L.m00, L.m01, L.m10, L.m11,
   L.sx + c.x - (L.m00 * c.x + L.m01 * c.y), L.sy + c.y - (L.m10 * c.x + L.m11 * c.y)⟩

/-! ### the clipping comparison -/

/-- `np.linalg.norm(resids, axis=1) < nsigma * fit[sigstat]` -/
def clipKeep (nsigma stat : K) (norms : List K) : List Bool :=
  norms.map fun r => decide (r < nsigma * stat)

end
end TW
