import Model.Fit
/-!
Model of `tweakwcs.linearfit.iter_linear_fit` (the sigma-clipping loop around the single-shot
fitters) and of `_compute_stat`.  Mathlib-free.

* `Clip.*` — the loop itself, **parametric** in the single-shot fitter (`fit`), the statistic
  (`stat`) and the residual norm (`rnorm`): nothing in it knows what a fit is.  The scalar type
  only needs `*` and `<` (the cutoff `nsigma * stat` and the strict comparison).
* `computeStat` — `_compute_stat`, both branches (unweighted / weighted).
* `iterLinearFitWith` — argument validation, `wmask`, the `minobj` reset, the centre, the
  initial fit, the loop, the returned dictionary entries; parametric in the single-shot fitter
  and in the *metric* (residual norm and statistics) so that the same definition is run
  (a) as the code runs it, with Euclidean norms and `rmse`/`mae`/`std` (`iterLinearFit`), and
  (b) root-free on exact rationals, comparing squares (`iterLinearFitSq`, statistic `rmse` only).
-/
namespace TW

/-! ## The clipping loop, generic -/
namespace Clip

/-- parameters of the loop.  `fit mask` is the single-shot fit of the points selected by `mask`
(it may raise), `stat f` the statistic of that fit used for the cutoff, `rnorm f i` the norm of
the residual of point `i` (an index into the *full* arrays) with respect to `f`. -/
structure Cfg (K Fit Err : Type) where
  fit    : List Bool → Except Err Fit
  stat   : Fit → K
  rnorm  : Fit → Nat → K
  nsigma : K
  minobj : Nat
  accum  : Bool

/-- `np.count_nonzero(mask)` -/
def count (m : List Bool) : Nat := (m.filter id).length

/-- state of the loop: `mask`, the current `fit`, `effective_nclip`, and whether `break` was hit -/
structure St (Fit : Type) where
  mask : List Bool
  fit  : Fit
  eff  : Nat
  done : Bool

section
variable {K Fit Err : Type} [Mul K] [LT K] [DecidableLT K]

/-- `new_mask = np.array(tested); new_mask[tested] = norm(resids) < cutoff` with
`cutoff = nsigma * fit[sigstat]`: the points of `base` that pass the (strict) test -/
def test (c : Cfg K Fit Err) (f : Fit) (base : List Bool) : List Bool :=
  List.zipWith (fun i b => b && decide (c.rnorm f i < c.nsigma * c.stat f))
    (List.range base.length) base

/-- `tested = mask if clip_accum else wmask` -/
def baseOf (c : Cfg K Fit Err) (wmask : List Bool) (s : St Fit) : List Bool :=
  if c.accum then s.mask else wmask

/-- the `break` condition -/
def stopCond (c : Cfg K Fit Err) (s : St Fit) (nm : List Bool) : Prop :=
  count nm < c.minobj ∨ nm = s.mask

instance (c : Cfg K Fit Err) (s : St Fit) (nm : List Bool) : Decidable (stopCond c s nm) := by
  unfold stopCond; infer_instance

/-- one pass through the body of `for n in range(nclip)`; after a `break` the state no longer
changes; an exception of the fitter propagates -/
def step (c : Cfg K Fit Err) (wmask : List Bool) (s : St Fit) : Except Err (St Fit) :=
  if s.done then .ok s else
  let nm := test c s.fit (baseOf c wmask s)
  if stopCond c s nm then .ok { s with done := true }
  else match c.fit nm with
    | .error e => .error e
    | .ok f => .ok { mask := nm, fit := f, eff := s.eff + 1, done := false }

/-- the state after `n` passes -/
def run (c : Cfg K Fit Err) (wmask : List Bool) (s0 : St Fit) : Nat → Except Err (St Fit)
  | 0 => .ok s0
  | n + 1 =>
    match run c wmask s0 n with
    | .error e => .error e
    | .ok s => step c wmask s

/-- the update rule of the loop *before* the repair (finding F2), kept for the counter-example:
`nonclipped` is computed for the retained points only, and with `clip_accum=False`
`mask = wmask.copy(); mask[prev_mask] *= nonclipped` re-admits every previously clipped point
without testing it. -/
def stepOld (c : Cfg K Fit Err) (wmask : List Bool) (s : St Fit) : Except Err (St Fit) :=
  if s.done then .ok s else
  let nc := test c s.fit s.mask
  if count nc < c.minobj ∨ nc = s.mask then .ok { s with done := true }
  else
    let nm := if c.accum then nc
      else List.zipWith (fun w pn => w && (!pn.1 || pn.2)) wmask (List.zip s.mask nc)
    match c.fit nm with
    | .error e => .error e
    | .ok f => .ok { mask := nm, fit := f, eff := s.eff + 1, done := false }

def runOld (c : Cfg K Fit Err) (wmask : List Bool) (s0 : St Fit) : Nat → Except Err (St Fit)
  | 0 => .ok s0
  | n + 1 =>
    match runOld c wmask s0 n with
    | .error e => .error e
    | .ok s => stepOld c wmask s

end
end Clip

/-! ## Concrete pieces -/


inductive SigStat where
  | rmse | mae | std
  deriving Repr, DecidableEq

/-- `sigstat not in ['rmse', 'mae', 'std']` ⇒ `none` -/
def SigStat.ofString? : String → Option SigStat
  | "rmse" => some .rmse
  | "mae" => some .mae
  | "std" => some .std
  | _ => none

/-- the three statistics of a fit -/
structure Stats (K : Type) where
  rmse : K
  mae : K
  std : K

/-- what a single-shot fitter returns (as far as the loop and the properties are concerned):
the parameters, the residuals of the points it was given, and their statistics -/
structure FitRes (K : Type) where
  lin : Lin K
  resids : List (K × K)
  stats : Stats K

/-- `a[mask]` -/
def select {α : Type} (mask : List Bool) (l : List α) : List α :=
  (List.zip mask l).filterMap fun p => if p.1 then some p.2 else none

section
variable {K : Type} [Add K] [Sub K] [Mul K] [Div K] [Neg K] [LT K] [DecidableLT K] [NatCast K]

/-- residual of one pair: `xy - np.dot(uv, matrix.T) - shift` -/
def residOf (f : Lin K) (o : Obs K) : K × K :=
  (o.x - (o.u * f.m00 + o.v * f.m01) - f.sx, o.y - (o.u * f.m10 + o.v * f.m11) - f.sy)

def residuals (f : Lin K) (obs : List (Obs K)) : List (K × K) := obs.map (residOf f)

def sqNorm (r : K × K) : K := r.1 * r.1 + r.2 * r.2

/-- the "not a number" the code stores when there is nothing to average; unreachable from
`iter_linear_fit` (the fitters raise first) -/
def nanK : K := (zeroK : K) / zeroK


/-- mean square of the residuals: `np.mean(2 * residuals**2)` (a mean over `2N` numbers) in the
unweighted branch, `np.sum(np.dot(w, residuals**2))` with `w = weights / sum(weights)` in the
weighted one; `rmse` is its square root -/
def mse (res : List (K × K)) (weights : Option (List K)) : K :=
  match weights with
  | none =>
    sumL (res.map fun r => twoK * (r.1 * r.1) + twoK * (r.2 * r.2)) / ((2 * res.length : Nat) : K)
  | some ws =>
    let wt := sumL ws
    let w := ws.map fun x => x / wt
    dotL w (res.map fun r => r.1 * r.1) + dotL w (res.map fun r => r.2 * r.2)

variable [HasSqrt K]

/-- `np.linalg.norm(r)` of one residual -/
def norm2 (r : K × K) : K := hyp r.1 r.2

/-- `_compute_stat(fit, residuals, weights)`: `weights = None` is the unweighted branch -/
def computeStat (res : List (K × K)) (weights : Option (List K)) : Stats K :=
  match weights with
  | none =>
    let n : K := (res.length : K)
    let mx := sumL (res.map (·.1)) / n
    let my := sumL (res.map (·.2)) / n
    let vx := sumL (res.map fun r => (r.1 - mx) * (r.1 - mx)) / n
    let vy := sumL (res.map fun r => (r.2 - my) * (r.2 - my)) / n
    { rmse := HasSqrt.sqrt (mse res none)
      mae := sumL (res.map norm2) / n
      std := hyp (HasSqrt.sqrt vx) (HasSqrt.sqrt vy) }
  | some ws =>
    let wt := sumL ws
    if ws.length = 0 ∨ isZeroK wt then { rmse := nanK, mae := nanK, std := nanK } else
    let w := ws.map fun x => x / wt
    let wmx := dotL w (res.map (·.1))
    let wmy := dotL w (res.map (·.2))
    let den := oneK - sumL (w.map fun x => x * x)
    { rmse := HasSqrt.sqrt (mse res (some ws))
      mae := dotL w (res.map norm2)
      std := if ws.length = 1 then zeroK else
        HasSqrt.sqrt (dotL w (res.map fun r => (r.1 - wmx) * (r.1 - wmx)) / den
                      + dotL w (res.map fun r => (r.2 - wmy) * (r.2 - wmy)) / den) }

end

/-! ## The metric: how residuals are measured and summarised -/

/-- residual norm of one pair and the statistics of a set of residuals; `sig` maps the user's
`nsigma` to the factor used in the cutoff (identity for the code's metric, squaring for the
root-free one) -/
structure Metric (K : Type) where
  rnorm : Lin K → Obs K → K
  stats : List (K × K) → Option (List K) → Stats K
  sig : K → K

section
variable {K : Type} [Add K] [Sub K] [Mul K] [Div K] [Neg K] [LT K] [DecidableLT K] [NatCast K]

/-- the code's metric -/
def euclid [HasSqrt K] : Metric K where
  rnorm f o := norm2 (residOf f o)
  stats := computeStat
  sig s := s

/-- root-free metric: squared norms against `nsigma² · mse`; only `rmse` (holding the *mean
square*) is meaningful, the other two entries are zero -/
def squared : Metric K where
  rnorm f o := sqNorm (residOf f o)
  stats res w := { rmse := mse res w, mae := zeroK, std := zeroK }
  sig s := s * s

def Stats.get (s : Stats K) : SigStat → K
  | .rmse => s.rmse
  | .mae => s.mae
  | .std => s.std

/-- a single-shot fitter: `(xy, uv)` pairs, `wxy`, `wuv` ↦ parameters -/
abbrev Single (K : Type) := List (Obs K) → Option (List K) → Option (List K) → Except FitErr (Lin K)

/-- which weights a fitter hands to `_compute_stat`: `None` when unweighted; `fit_shifts` and
`fit_rscale` pass the already normalised combined weights, `fit_general` the raw ones -/
def statWeights (normalised : Bool) (wxy wuv : Option (List K)) : Option (List K) :=
  match combineW wxy wuv with
  | none => none
  | some ws => if normalised then some (ws.map fun x => x / sumL ws) else some ws

/-- a single-shot fit of the points selected by `mask` (the arrays `xy[mask]`, `uv[mask]`,
`wxy[mask]`, `wuv[mask]`), with its residuals and statistics -/
def fitOn (single : Single K) (normalised : Bool) (m : Metric K) (obs : List (Obs K))
    (wxy wuv : Option (List K)) (mask : List Bool) : Except FitErr (FitRes K) :=
  let o := select mask obs
  let wx := wxy.map (select mask)
  let wu := wuv.map (select mask)
  match single o wx wu with
  | .error e => .error e
  | .ok lin =>
    let res := residuals lin o
    .ok { lin := lin, resids := res, stats := m.stats res (statWeights normalised wx wu) }

/-- `wmask`: all points, times `wxy > 0`, times `wuv > 0` -/
def posMask (w : Option (List K)) (m : List Bool) : List Bool :=
  match w with
  | none => m
  | some ws => List.zipWith (fun b x => b && decide (zeroK < x)) m ws

def wmaskOf (n : Nat) (wxy wuv : Option (List K)) : List Bool :=
  posMask wuv (posMask wxy (List.replicate n true))

/-- `uv[mask].mean(axis=0)` -/
def meanUV (o : List (Obs K)) : K × K :=
  (sumL (o.map (·.u)) / (o.length : K), sumL (o.map (·.v)) / (o.length : K))

/-- `xy[mask] -= center; uv[mask] -= center` (only the masked rows are touched) -/
def centreObs (c : K × K) (mask : List Bool) (obs : List (Obs K)) : List (Obs K) :=
  List.zipWith (fun b o => if b then ⟨o.x - c.1, o.y - c.2, o.u - c.1, o.v - c.2⟩ else o) mask obs

/-- validated clipping parameters -/
structure ClipPar (K : Type) where
  nsigma : K
  sigstat : SigStat
  nclip : Nat

/-- the argument checks on `sigma` and `nclip` (every failure is a `ValueError`).  `sigma` is
`None`, or `(nsigma, sigstat)` (a bare number means `(number, 'rmse')`); `nclip = None` means 0.
When `sigma` is `None` (allowed only without clipping) the cutoff parameters are never used. -/
def validate (nclip : Option Int) (sigma : Option (K × String)) : Except FitErr (ClipPar K) :=
  let ncl : Int := nclip.getD 0
  match sigma with
  | none =>
    if 0 < ncl then .error .badArg          -- 'sigma' cannot be None when 'nclip' is positive
    else if ncl < 0 then .error .badArg
    else .ok { nsigma := zeroK, sigstat := .rmse, nclip := 0 }
  | some (ns, st) =>
    match SigStat.ofString? st with
    | none => .error .badArg                -- unsupported sigma statistics value
    | some stat =>
      if zeroK < ns then
        (if ncl < 0 then .error .badArg else .ok { nsigma := ns, sigstat := stat, nclip := ncl.toNat })
      else .error .badArg                   -- sigma must be positive

def lenOk (n : Nat) (w : Option (List K)) : Bool :=
  match w with
  | none => true
  | some ws => ws.length == n

/-- the configuration of the loop for given (centred) data -/
def mkCfg (single : Single K) (normalised : Bool) (m : Metric K) (minobj : Nat) (accum : Bool)
    (p : ClipPar K) (obs : List (Obs K)) (wxy wuv : Option (List K)) :
    Clip.Cfg K (FitRes K) FitErr :=
  let arr := obs.toArray
  { fit := fitOn single normalised m obs wxy wuv
    stat := fun f => f.stats.get p.sigstat
    rnorm := fun f i => match arr[i]? with
      | some o => m.rnorm f.lin o
      | none => zeroK
    nsigma := m.sig p.nsigma
    minobj := minobj
    accum := accum }

/-- what `iter_linear_fit` returns, as far as the properties look at it -/
structure IterRes (K : Type) where
  lin : Lin K              -- 'matrix', 'shift' (relative to 'center')
  center : K × K
  fitmask : List Bool
  effNclip : Nat
  stats : Stats K          -- 'rmse', 'mae', 'std'
  resids : List (K × K)    -- 'resids'

/-- everything before the initial fit: checks, `wmask`, the `minobj` reset of `nclip`, the
centre and the centred arrays -/
structure Setup (K : Type) where
  par : ClipPar K
  wmask : List Bool
  nclip : Nat
  center : K × K
  obs : List (Obs K)

def setup (minobj : Nat) (obs : List (Obs K)) (wxy wuv : Option (List K)) (center : Option (K × K))
    (nclip : Option Int) (sigma : Option (K × String)) : Except FitErr (Setup K) :=
  if !(lenOk obs.length wxy && lenOk obs.length wuv) then .error .badArg else
  match validate nclip sigma with
  | .error e => .error e
  | .ok p =>
    let wmask := wmaskOf obs.length wxy wuv
    let ncl := if Clip.count wmask = minobj then 0 else p.nclip
    let c := match center with
      | some c => c
      | none => meanUV (select wmask obs)
    .ok { par := p, wmask := wmask, nclip := ncl, center := c, obs := centreObs c wmask obs }

/-- the initial state of the loop: the fit of all positively weighted points -/
def initState (c : Clip.Cfg K (FitRes K) FitErr) (wmask : List Bool) :
    Except FitErr (Clip.St (FitRes K)) :=
  match c.fit wmask with
  | .error e => .error e
  | .ok f => .ok { mask := wmask, fit := f, eff := 0, done := false }

def finish (center : K × K) (s : Clip.St (FitRes K)) : IterRes K :=
  { lin := s.fit.lin, center := center, fitmask := s.mask, effNclip := s.eff,
    stats := s.fit.stats, resids := s.fit.resids }

/-- `iter_linear_fit` for a given single-shot fitter (with its `minobj`) and metric -/
def iterLinearFitWith (single : Single K) (normalised : Bool) (m : Metric K) (minobj : Nat)
    (obs : List (Obs K)) (wxy wuv : Option (List K)) (center : Option (K × K))
    (nclip : Option Int) (sigma : Option (K × String)) (accum : Bool) :
    Except FitErr (IterRes K) :=
  match setup minobj obs wxy wuv center nclip sigma with
  | .error e => .error e
  | .ok su =>
    let c := mkCfg single normalised m minobj accum su.par su.obs wxy wuv
    match initState c su.wmask with
    | .error e => .error e
    | .ok s0 =>
      match Clip.run c su.wmask s0 su.nclip with
      | .error e => .error e
      | .ok s => .ok (finish su.center s)

/-- `fit2ref`: "re-compute shifts for the center at (0, 0)":
`shift += center - np.dot(center, matrix.T)` -/
def recentre (f : Lin K) (c : K × K) : K × K :=
  (f.sx + (c.1 - (c.1 * f.m00 + c.2 * f.m01)), f.sy + (c.2 - (c.1 * f.m10 + c.2 * f.m11)))

variable [HasTrig K]

/-- the selector block of `iter_linear_fit` -/
def singleOf (g : FitGeom) (eps epsD : K) : Single K :=
  match g with
  | .shift => fitShifts
  | .rshift => fun o wx wu => fitRscale o wx wu (some oneK)
  | .rscale => fun o wx wu => fitRscale o wx wu none
  | .general => fitGeneral eps epsD

/-- `fit_general` hands the raw weights to `_compute_stat`, the others the normalised ones -/
def FitGeom.normalised : FitGeom → Bool
  | .general => false
  | _ => true

/-- `iter_linear_fit` as the code runs it (`eps` is the pivot threshold of `inv`, `epsD` the
threshold of the collinearity guard of `fit_general`) -/
def iterLinearFit [HasSqrt K] (eps epsD : K) (g : FitGeom) (obs : List (Obs K)) (wxy wuv : Option (List K))
    (center : Option (K × K)) (nclip : Option Int) (sigma : Option (K × String)) (accum : Bool) :
    Except FitErr (IterRes K) :=
  iterLinearFitWith (singleOf g eps epsD) g.normalised euclid g.minobj obs wxy wuv center nclip sigma accum

end

section
variable {K : Type} [Add K] [Sub K] [Mul K] [Div K] [Neg K] [LT K] [DecidableLT K] [NatCast K]

/-- trigonometry-free selector (`shift` and `general` only), for exact rational runs -/
def singleOfQ (g : FitGeom) (eps epsD : K) : Option (Single K) :=
  match g with
  | .shift => some fitShifts
  | .general => some (fitGeneral eps epsD)
  | _ => none

/-- `iter_linear_fit` with the root-free metric: the cutoff test `‖r‖ < nsigma·rmse` is
evaluated as `‖r‖² < nsigma²·mse` (equivalent for `nsigma > 0`, see `Proofs/C07.lean`);
statistic `rmse` only.  The returned `stats.rmse` is the mean square. -/
def iterLinearFitSq (eps epsD : K) (g : FitGeom) (obs : List (Obs K)) (wxy wuv : Option (List K))
    (center : Option (K × K)) (nclip : Option Int) (nsigma : Option K) (accum : Bool) :
    Except FitErr (IterRes K) :=
  match singleOfQ g eps epsD with
  | none => .error .badArg
  | some single =>
    iterLinearFitWith single g.normalised squared g.minobj obs wxy wuv center nclip
      (nsigma.map fun s => (s, "rmse")) accum

end
end TW
