import Model.Hist
/-!
Model of `tweakwcs.wcsimage.WCSImageCatalog._calc_chip_bounding_polygon` up to the call of
`det_to_world`: the rectangle in detector pixels, the numbers of sampling intervals, the two
`numpy.linspace` calls and the walk along the border (bottom → right → top → left → closing point).
Mathlib-free, generic over the scalar type `K`; integers where the code uses integers
(`HasFloor` of `Model/Hist.lean` supplies `numpy.floor` / `numpy.ceil` followed by `int(…)`).

With a bounding box the rectangle is the box shrunk by half a pixel, but not past the sources of the
catalog that lie inside the box (`rectBB`; the plain shrink `rectBBOld` is what the code did before the
repair of finding F25).

Outside the model: the sky map `det_to_world`, the forced closing `ra[-1] = ra[0]`, the spherical
polygon; masked catalog entries, NaN / infinite coordinates; the early `return` when the corrector
or the catalog is `None` (nothing is computed then).

Python exceptions: an empty catalog on a corrector without bounding box (`numpy.amax` of an empty
column: `ValueError`) and `stepsize == 0` (`ZeroDivisionError`) are `ChipErr`.
-/
namespace TW
namespace Chip

/-- a rectangle `[lx, hx] × [ly, hy]`; also the form of `corrector.bounding_box`
`((lx, hx), (ly, hy))` -/
structure Rect (K : Type) where
  lx : K
  hx : K
  ly : K
  hy : K
  deriving DecidableEq

inductive ChipErr where
  | emptyCatalog   -- `np.amax` of an empty column (no bounding box): ValueError
  | zeroStep       -- `(hx - lx) / stepsize` with `stepsize == 0`: ZeroDivisionError
  deriving Repr, DecidableEq

/-- what `_calc_chip_bounding_polygon` hands to `det_to_world`, with the intermediate results -/
structure ChipPoly (K : Type) where
  rect : Rect K
  nintx : Nat
  ninty : Nat
  pts : List (K × K)
  deriving DecidableEq

section
variable {K : Type} [Add K] [Sub K] [Mul K] [Div K] [Neg K] [LT K] [DecidableLT K] [NatCast K]

/-! ### the rectangle -/

/-- `numpy.amax` of a column (finite values); `none` for an empty one -/
def amax : List K → Option K
  | [] => none
  | a :: rest => some (rest.foldl (fun m v => if m < v then v else m) a)

/-- `numpy.amin` of a column (finite values); `none` for an empty one -/
def amin : List K → Option K
  | [] => none
  | a :: rest => some (rest.foldl (fun m v => if v < m then v else m) a)

/-- Python's built-in `max(a, b)` of two numbers: `b` only when it is strictly larger -/
def pyMax (a b : K) : K := if a < b then b else a

/-- Python's built-in `min(a, b)` of two numbers: `b` only when it is strictly smaller -/
def pyMin (a b : K) : K := if b < a then b else a

/-- the bounding box shrunk by half a pixel on every side:
`lx = bb_lx + 0.5; hx = bb_hx - 0.5; ly = bb_ly + 0.5; hy = bb_hy - 0.5`
(the whole bounding-box branch before the repair of finding F25) -/
def rectBBOld (b : Rect K) : Rect K := ⟨b.lx + halfK, b.hx - halfK, b.ly + halfK, b.hy - halfK⟩

/-- the bounding-box branch: the box shrunk by half a pixel, but (`if len(self._catalog) > 0`) not past
the sources of the catalog that lie inside the box and never beyond the box:
`lx = min(lx, max(np.amin(x), bb_lx)); hx = max(hx, min(np.amax(x), bb_hx))`, then the same for `y` -/
def rectBB (b : Rect K) (cat : List (K × K)) : Rect K :=
  let s := rectBBOld b
  let xs := cat.map fun p => p.1
  let ys := cat.map fun p => p.2
  match amin xs, amax xs, amin ys, amax ys with
  | some nx, some mx, some ny, some my =>
    ⟨pyMin s.lx (pyMax nx b.lx), pyMax s.hx (pyMin mx b.hx), pyMin s.ly (pyMax ny b.ly), pyMax s.hy (pyMin my b.hy)⟩
  | _, _, _, _ => s   -- `len(self._catalog) == 0`

end

section
variable {K : Type} [Add K] [Sub K] [Mul K] [Div K] [Neg K] [LT K] [DecidableLT K] [NatCast K]
  [HasFloor K]

/-- `max(1, int(np.floor(m + 0.5)) + 1) - 0.5`: the upper edge of the pixel that contains the
largest coordinate `m` (the integer arithmetic is done on integers) -/
def upperEdge (m : K) : K := ofInt (max 1 (HasFloor.floor (m + halfK) + 1)) - halfK

/-- no bounding box: `[-0.5, upperEdge(max x)] × [-0.5, upperEdge(max y)]` -/
def rectNoBB (cat : List (K × K)) : Except ChipErr (Rect K) :=
  match amax (cat.map fun p => p.1), amax (cat.map fun p => p.2) with
  | some mx, some my => .ok ⟨-halfK, upperEdge mx, -halfK, upperEdge my⟩
  | _, _ => .error .emptyCatalog

/-- the branch on `self.corrector.bounding_box is None` -/
def chipRect (bbox : Option (Rect K)) (cat : List (K × K)) : Except ChipErr (Rect K) :=
  match bbox with
  | none => rectNoBB cat
  | some b => .ok (rectBB b cat)

/-! ### numbers of intervals -/

/-- `max(2, int(np.ceil((hi - lo) / stepsize)))` -/
def nintStep (lo hi s : K) : Nat := (max 2 (HasFloor.ceil ((hi - lo) / s))).toNat

/-- `3` when `stepsize is None`, otherwise `nintStep` (division by a zero step raises) -/
def nint (step : Option K) (lo hi : K) : Except ChipErr Nat :=
  match step with
  | none => .ok 3
  | some s => if eqK s zeroK then .error .zeroStep else .ok (nintStep lo hi s)

end

section
variable {K : Type} [Add K] [Sub K] [Mul K] [Div K] [Neg K] [LT K] [DecidableLT K] [NatCast K]

/-! ### `numpy.linspace(lo, hi, n + 1)` as numpy (2.x) evaluates it

`delta = hi - lo; step = delta / n; y = arange(n + 1) * step + lo` — or, when `step == 0`,
`y = arange(n + 1) / n * delta + lo` —; finally `y[-1] = hi`.  For `n = 0` (one sample) there is no
step: `y = arange(1) * delta + lo` and the last entry is not overwritten. -/

/-- entry `i` before the end point is overwritten, `n ≥ 1` intervals -/
def linspaceVal (lo hi : K) (n i : Nat) : K :=
  let delta := hi - lo
  let step := delta / (n : K)
  if eqK step zeroK then (i : K) / (n : K) * delta + lo else (i : K) * step + lo

def linspace (lo hi : K) (n : Nat) : List K :=
  if n = 0 then [((0 : Nat) : K) * (hi - lo) + lo]
  else (List.range n).map (linspaceVal lo hi n) ++ [hi]

/-- the slice `[1:-1]` -/
def interior {α : Type} (l : List α) : List α := (l.drop 1).dropLast

/-! ### the walk along the border -/

/-- `borderx`: `xs`, then `npty` times `hx`, then `xs[::-1]`, then `npty` times `lx`, then
`borderx[0]` -/
def borderX (r : Rect K) (nintx ninty : Nat) : List K :=
  let xs := linspace r.lx r.hx nintx
  let npty := (interior (linspace r.ly r.hy ninty)).length
  let b := xs ++ List.replicate npty r.hx ++ xs.reverse ++ List.replicate npty r.lx
  b ++ b.take 1

/-- `bordery`: `nptx` times `ly`, then `ys`, then `nptx` times `hy`, then `ys[::-1]`, then
`bordery[0]` -/
def borderY (r : Rect K) (nintx ninty : Nat) : List K :=
  let nptx := (linspace r.lx r.hx nintx).length
  let ys := interior (linspace r.ly r.hy ninty)
  let b := List.replicate nptx r.ly ++ ys ++ List.replicate nptx r.hy ++ ys.reverse
  b ++ b.take 1

/-- the points `(borderx[k], bordery[k])` handed to `det_to_world` -/
def chipBorder (r : Rect K) (nintx ninty : Nat) : List (K × K) :=
  (borderX r nintx ninty).zip (borderY r nintx ninty)

end

section
variable {K : Type} [Add K] [Sub K] [Mul K] [Div K] [Neg K] [LT K] [DecidableLT K] [NatCast K]
  [HasFloor K]

/-- `_calc_chip_bounding_polygon(stepsize)` up to `det_to_world`; the rectangle is computed
first, then `nintx`, then `ninty` -/
def chipPolygon (bbox : Option (Rect K)) (step : Option K) (cat : List (K × K)) :
    Except ChipErr (ChipPoly K) :=
  match chipRect bbox cat with
  | .error e => .error e
  | .ok r =>
    match nint step r.lx r.hx, nint step r.ly r.hy with
    | .ok nx, .ok ny => .ok ⟨r, nx, ny, chipBorder r nx ny⟩
    | .error e, _ => .error e
    | _, .error e => .error e

end
end Chip
end TW
