namespace TW
class HasSqrt (K : Type) where
  sqrt : K → K
instance : HasSqrt Float := ⟨Float.sqrt⟩

/-- the trigonometric operations the code uses, in the units it uses them in:
`atan2deg y x = rad2deg(arctan2(y, x))`, `cosdeg t = cos(deg2rad(t))`, `sindeg t = sin(deg2rad(t))` -/
class HasTrig (K : Type) where
  atan2deg : K → K → K
  cosdeg : K → K
  sindeg : K → K

def floatPi : Float := 3.141592653589793
instance : HasTrig Float where
  atan2deg y x := Float.atan2 y x * 180.0 / floatPi
  cosdeg t := Float.cos (t * floatPi / 180.0)
  sindeg t := Float.sin (t * floatPi / 180.0)


/-- matrices are *data* (vectors of rows), never closures: a closure-valued state makes the
compiled/interpreted evaluation exponential in the number of elimination steps -/
abbrev Mat (n : Nat) (K : Type) := Vector (Vector K n) n

def Mat.get {n : Nat} {K : Type} (m : Mat n K) (i j : Fin n) : K := (m[i])[j]

def Mat.ofFn {n : Nat} {K : Type} (f : Fin n → Fin n → K) : Mat n K :=
  Vector.ofFn fun i => Vector.ofFn fun j => f i j

@[simp] theorem Mat.get_ofFn {n : Nat} {K : Type} (f : Fin n → Fin n → K) (i j : Fin n) :
    (Mat.ofFn f).get i j = f i j := by
  simp [Mat.get, Mat.ofFn]

variable {K : Type} [Add K] [Sub K] [Mul K] [Div K] [Neg K] [LT K] [DecidableLT K] [NatCast K] [HasSqrt K]

def hyp (a b : K) : K := HasSqrt.sqrt (a*a + b*b)
def half (a : K) : K := a / ((2:Nat) : K)
end TW
