import Model.Hist
/-!
Concrete model of the call `numpy.linalg.lstsq(v, d, rcond=None)[0]` made by
`tweakwcs.matchutils._find_peak` (matchutils.py, `c = np.linalg.lstsq(v, d, rcond=None)[0]`), which
`Model/Hist.lean` takes as the parameter `lsq : Lsq K`.

`numpy.linalg.lstsq` (LAPACK `gelsd`, an SVD) is external code: it is modelled by its documented
result, *the least-squares solution of minimum Euclidean norm*, computed here by exact rational
operations only (so that the model runs on `Rat` and is reasoned about over any ordered field):

* `gramRows` / `rhsRows`: the normal equations `(AᵀA) c = Aᵀ b` of the design rows;
* `solvePSD`: elimination with symmetric (diagonal) pivoting on a positive semi-definite system —
  at every step the largest diagonal entry is the pivot, the Schur complement is formed, and when the
  largest remaining diagonal entry is zero (`≤ thr`) the remaining block of a Gram matrix is zero, the
  remaining unknowns are set to `0` and the number of pivots found so far is the rank;
* `lstsqNormal`: the unique solution when the normal matrix is regular (rank 6), `none` otherwise;
* `lstsqMinNorm`: what numpy returns in every case: for a rank-deficient design (the good pixels of the
  fit box lie on a conic: fewer than three distinct columns or rows, a row and a column, two diagonals,
  …) the minimum-norm solution `c = G w` with `GᵀG w = Gᵀ c₁`, `c₁` any solution of `G c₁ = Aᵀ b`
  (`G = AᵀA`); `_find_peak` does **not** treat that case specially: it goes on with the minimum-norm
  coefficients (curvature test, vertex formula, in-box test), so the status and the coordinates of
  such boxes depend on the minimum-norm property — this is the only place where it matters;
* `lstsqLsq`: the instance of `Lsq K` handed to `findPeak`; it always returns (`numpy` raises
  `LinAlgError` only when the SVD does not converge, and the finiteness test of `_find_peak` can only
  fail on overflow: both are outside real arithmetic and are exercised by injection in the harness).

`rtol` is the relative threshold below which a pivot counts as zero (`rcond` of numpy acts on the
singular values): `0` in exact arithmetic (all theorems), a small positive number when the model is
run on doubles.
-/
namespace TW

section
variable {K : Type} [Add K] [Sub K] [Mul K] [Div K] [Neg K] [LT K] [DecidableLT K] [NatCast K]

def vget {n : Nat} (v : Vector K n) (i : Fin n) : K := v[i]

/-- the normal matrix `AᵀA` of the design rows (entries missing in a short row count as 0) -/
def gramRows (n : Nat) (rows : List (List K)) : Mat n K :=
  Mat.ofFn fun i j => sumL (rows.map fun r => r.getD i.val zeroK * r.getD j.val zeroK)

/-- the right-hand side `Aᵀ b` -/
def rhsRows (n : Nat) (rows : List (List K)) (d : List K) : Vector K n :=
  Vector.ofFn fun i => dotL (rows.map fun r => r.getD i.val zeroK) d

/-- the largest `|a i i|` -/
def maxDiag {n : Nat} (a : Mat n K) : K :=
  (List.finRange n).foldl (fun m i => if m < absK (a.get i i) then absK (a.get i i) else m) zeroK

/-- Elimination with diagonal pivoting on a symmetric positive semi-definite system `a x = b`:
returns the number of pivots (the rank) and a solution in which the unknowns of the zero block are
`0`. -/
def solvePSD : (n : Nat) → K → Mat n K → Vector K n → Nat × Vector K n
  | 0, _, _, _ => (0, Vector.ofFn fun i => i.elim0)
  | n + 1, thr, a, b =>
    let p : Fin (n + 1) := argmaxBy (fun i => absK (a.get i i)) 0 (List.finRange (n + 1))
    let pv := a.get p p
    if leK (absK pv) thr then (0, Vector.ofFn fun _ => zeroK)
    else
      -- the symmetric exchange of the indices 0 and p
      let s (i : Fin (n + 1)) : Fin (n + 1) := swapIdx 0 p i
      -- Schur complement of the pivot
      let a' : Mat n K := Mat.ofFn fun i j =>
        a.get (s i.succ) (s j.succ) - a.get (s i.succ) p * a.get p (s j.succ) / pv
      let b' : Vector K n :=
        Vector.ofFn fun i => vget b (s i.succ) - a.get (s i.succ) p * vget b p / pv
      let r := solvePSD n thr a' b'
      -- back substitution for the pivot unknown
      let x0 := (vget b p - sumFin fun j : Fin n => a.get p (s j.succ) * vget r.2 j) / pv
      let x1 : Vector K (n + 1) := Vector.ofFn fun i => Fin.cases x0 (fun j => vget r.2 j) i
      (r.1 + 1, Vector.ofFn fun i => vget x1 (s i))

def coefOf (x : Vector K 6) : QCoef K :=
  ⟨vget x 0, vget x 1, vget x 2, vget x 3, vget x 4, vget x 5⟩

/-- rank of the design matrix and a solution of the normal equations -/
def lstsqSolve (rtol : K) (rows : List (List K)) (d : List K) : Nat × Vector K 6 :=
  let g := gramRows 6 rows
  solvePSD 6 (rtol * maxDiag g) g (rhsRows 6 rows d)

/-- least squares through the normal equations: the solution when the normal matrix is regular,
`none` when it is singular (rank-deficient design) -/
def lstsqNormal (rtol : K) (rows : List (List K)) (d : List K) : Option (QCoef K) :=
  let r := lstsqSolve rtol rows d
  if r.1 = 6 then some (coefOf r.2) else none

/-- the minimum-norm solution `G w` of the normal equations, from one solution `c1` of them -/
def minNormOf (rtol : K) (g : Mat 6 K) (c1 : Vector K 6) : Vector K 6 :=
  let g2 : Mat 6 K := Mat.ofFn fun i j => sumFin fun t => g.get t i * g.get t j
  let b2 : Vector K 6 := Vector.ofFn fun i => sumFin fun t => g.get t i * vget c1 t
  let w := (solvePSD 6 (rtol * maxDiag g2) g2 b2).2
  Vector.ofFn fun i => sumFin fun j => g.get i j * vget w j

/-- `numpy.linalg.lstsq(v, d, rcond=None)[0]`: the least-squares solution, of minimum norm when
the design matrix is rank deficient -/
def lstsqMinNorm (rtol : K) (rows : List (List K)) (d : List K) : QCoef K :=
  let r := lstsqSolve rtol rows d
  if r.1 = 6 then coefOf r.2 else coefOf (minNormOf rtol (gramRows 6 rows) r.2)

/-- the least-squares oracle of `findPeak`, made concrete -/
def lstsqLsq (rtol : K) : Lsq K := fun rows d => some (lstsqMinNorm rtol rows d)

/-- `_find_peak` as a closed function -/
def findPeakConcrete (rtol : K) (data : List (List K)) (box : Nat)
    (mask : Option (List (List Bool))) : Except PeakErr (PeakRes K) :=
  findPeak (lstsqLsq rtol) data box mask

end
end TW
