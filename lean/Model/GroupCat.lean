import Model.PairWeights
/-!
State-machine model of the index bookkeeping of `tweakwcs.wcsimage.WCSGroupCatalog` (properties C11, C09,
C14), Mathlib-free.  No arithmetic is performed: the model is pure plumbing, generic in the scalar `K`.

State (`GState`) = the group catalog as the code keeps it:

* `rows` — one `GRow` per row of `self._catalog`: `_imcat_idx` (index of the member among the members with a
  NON-EMPTY catalog), the `id`, `x`, `y` copied from the member catalog, `RA`, `DEC`;
* `weight` — the optional `'weight'` column;  `tp` — the optional columns `'TPx'`, `'TPy'`;
* `matchedRefId`, `rawRefIdx` — the bookkeeping columns `'matched_ref_id'` and `'_raw_matched_ref_idx'`
  written by `match2ref`.  They are `MaskedColumn`s: a masked column is (data, mask) (`MCol`); the data under
  a set mask bit are kept by the code (they survive a reset of the mask) and so they are kept here;
  `MCol.view` is what a reader of the masked column sees (`List (Option α)`);
* `mrefIdx`, `minputIdx` — the attributes `self._mref_idx`, `self._minput_idx` (read by `fit2ref`);
* `memberLens` — `len(image.catalog)` of every member of `self._images` (re-read by `recalc_catalog_radec`;
  assumption: member catalogs are not replaced after the group was built).

Operations, each mirroring the code branch by branch (wcsimage.py as committed in /repo 4565404; line numbers
of that commit): `createGroup` (`create_group_catalog` L775-877), `calcTanpXY` (`calc_tanp_xy` L915-942),
`match2ref` (L944-1053: with `match=None` and with the result of a matcher; the bookkeeping part L1015-1053 is
`book`, every exception with the state it leaves behind), `getMatchedIdx` / `getUnmatchedIdx`
(`get_matched_cat`, `get_unmatched_cat` L879-895), `recalcCatalogRadec` (`recalc_catalog_radec` L897-913;
`recalcAllMembers` is the loop before commit 324ab0c), `fit2refSel` (`fit2ref` L1142-1181: the arrays handed to
`iter_linear_fit`, through `fit2refArgs` of `Model/PairWeights.lean`), `alignToRef` (`align_to_ref` L1370-1467,
with the `try/except` around `fit2ref` of 4565404) and `expandCatalog` (`RefCatalog.expand_catalog` L1763-1781).
Not modelled: `cat_name`, the table meta data, footprints.

Externals are parameters: the WCS of member number `p` of `self._images` is an arbitrary function
`w p : K × K → K × K` (`image.det_to_world`), `t` is `tanplane_wcs.world_to_tanp`, the matcher is its result
(two index lists), the fitter is `fitOk : PairArgs K → Bool` (returned / raised).
numpy index semantics: an index `i` addresses element `i` if `0 ≤ i < n`, element `n + i` if `-n ≤ i < 0`, and
is an `IndexError` otherwise (`normIdx`); an assignment `a[idx] = vals` with a repeated index keeps the LAST
value (`assign`); `vals` of length 1 is broadcast (`bcast`).
-/
namespace TW.GC
open TW

inductive GErr where
  | keyError        -- KeyError: mixed 'weight' columns; a column that does not exist yet ('matched_ref_id', 'TPx')
  | valueError      -- ValueError: match=None with catalogs of different lengths; arrays that cannot be broadcast
  | runtimeError    -- RuntimeError: match2ref before calc_tanp_xy
  | indexError      -- IndexError: a match index outside the catalog
  | attributeError  -- AttributeError: fit2ref before any match2ref (`self._minput_idx`)
  | fitError        -- any exception of `iter_linear_fit` (external)
  deriving Repr, DecidableEq

/-- a row of a member catalog: `id`, `(x, y)` -/
structure Src (K : Type) where
  id : Int
  xy : K × K

/-- a member `WCSImageCatalog`: its rows and the optional `'weight'` column -/
abbrev Member (K : Type) := ImCat (Src K) K

/-- a row of the group catalog -/
structure GRow (K : Type) where
  imcatIdx : Nat
  id : Int
  xy : K × K
  radec : K × K

/-- the columns of a row that no operation ever writes -/
def GRow.core {K : Type} (r : GRow K) : Nat × Int × (K × K) := (r.imcatIdx, r.id, r.xy)

/-- a `MaskedColumn`: data and mask (`true` = masked) -/
structure MCol (α : Type) where
  data : List α
  mask : List Bool

/-- what a reader of the masked column sees -/
def MCol.view {α : Type} (c : MCol α) : List (Option α) :=
  List.zipWith (fun v m => if m then none else some v) c.data c.mask

/-- `MaskedColumn(dtype=int, length=n, mask=True)`: data zero, all masked -/
def MCol.new (n : Nat) : MCol Int := ⟨List.replicate n 0, List.replicate n true⟩

/-- `col.mask[:] = True` / `col.mask = True`: the data stay -/
def MCol.maskAll {α : Type} (c : MCol α) : MCol α := ⟨c.data, c.mask.map fun _ => true⟩

/-- numpy index normalisation against an axis of length `n` (`none` = IndexError) -/
def normIdx (n : Nat) (i : Int) : Option Nat :=
  if 0 ≤ i then (if i.toNat < n then some i.toNat else none)
  else if -(n : Int) ≤ i then some (i + (n : Int)).toNat else none

def normAll (n : Nat) (idx : List Int) : Option (List Nat) := idx.mapM (normIdx n)

/-- `a[idx] = vals` for in-range `idx` and `vals` of the same length: element by element, in order (a
repeated index keeps the last value) -/
def assign {α : Type} (a : List α) (idx : List Nat) (vals : List α) : List α :=
  (idx.zip vals).foldl (fun a p => a.set p.1 p.2) a

/-- broadcasting of the value of an indexed assignment to `n` index positions (`none` = ValueError) -/
def bcast {α : Type} (vals : List α) (n : Nat) : Option (List α) :=
  if vals.length = n then some vals
  else match vals with
    | [v] => some (List.replicate n v)
    | _ => none

structure GState (K : Type) where
  memberLens : List Nat
  rows : List (GRow K)
  weight : Option (List K)
  tp : Option (List (K × K))
  matchedRefId : Option (MCol Int)
  rawRefIdx : Option (MCol Int)
  mrefIdx : Option (List Int)
  minputIdx : Option (List Int)

/-- the state an operation leaves behind and what it returned / raised -/
structure Step (K R : Type) where
  st : GState K
  res : Except GErr R

/-- `len(self._catalog)` -/
def GState.catlen {K : Type} (st : GState K) : Nat := st.rows.length

/-! ### `create_group_catalog` -/

/-- the loop `for image in self._images` of `create_group_catalog`: `pos` is the position of the member in
`self._images`, `catno` the running number of NON-EMPTY members (`_imcat_idx`); a member with an empty
catalog is skipped and does not advance `catno` -/
def stackRows {K : Type} (w : Nat → K × K → K × K) : Nat → Nat → List (Member K) → List (GRow K)
  | _, _, [] => []
  | pos, catno, m :: t =>
    if m.rows.length = 0 then stackRows w (pos + 1) catno t
    else m.rows.map (fun s => ⟨catno, s.id, s.xy, w pos s.xy⟩) ++ stackRows w (pos + 1) (catno + 1) t

/-- `WCSGroupCatalog.__init__` → `create_group_catalog`: `KeyError` when the non-empty members do not all
have / all lack a `'weight'` column (the check and the weight column are `createGroupCatalog` of
`Model/PairWeights.lean`) -/
def createGroup {K : Type} (w : Nat → K × K → K × K) (ms : List (Member K)) : Except GErr (GState K) :=
  match createGroupCatalog ms with
  | .error _ => .error .keyError
  | .ok g =>
    .ok { memberLens := ms.map (·.rows.length), rows := stackRows w 0 0 ms, weight := g.weight, tp := none,
          matchedRefId := none, rawRefIdx := none, mrefIdx := none, minputIdx := none }

/-! ### `recalc_catalog_radec` -/

/-- positions in `self._images` of the members with a non-empty catalog
(`nonempty = [image for image in self._images if len(image.catalog)]`) -/
def nonEmptyPosFrom : Nat → List Nat → List Nat
  | _, [] => []
  | p, n :: t => if n = 0 then nonEmptyPosFrom (p + 1) t else p :: nonEmptyPosFrom (p + 1) t

def nonEmptyPos (lens : List Nat) : List Nat := nonEmptyPosFrom 0 lens

/-- one pass of the loop body: `idx = (_imcat_idx == k); RA[idx], DEC[idx] = image.det_to_world(x[idx], y[idx])`
with `image` the member at position `pos` -/
def recalcStep {K : Type} (w : Nat → K × K → K × K) (rows : List (GRow K)) (k pos : Nat) : List (GRow K) :=
  rows.map fun r => if r.imcatIdx = k then { r with radec := w pos r.xy } else r

/-- `for k, image in enumerate(images)` with `images` given by their positions -/
def recalcFrom {K : Type} (w : Nat → K × K → K × K) : Nat → List Nat → List (GRow K) → List (GRow K)
  | _, [], rows => rows
  | k, pos :: t, rows => recalcFrom w (k + 1) t (recalcStep w rows k pos)

/-- `recalc_catalog_radec` (since 324ab0c: the loop runs over the NON-EMPTY members) -/
def recalcCatalogRadec {K : Type} (st : GState K) (w : Nat → K × K → K × K) : GState K :=
  { st with rows := recalcFrom w 0 (nonEmptyPos st.memberLens) st.rows }

/-- the loop before 324ab0c: `for k, image in enumerate(self._images)` -/
def recalcAllMembers {K : Type} (st : GState K) (w : Nat → K × K → K × K) : GState K :=
  { st with rows := recalcFrom w 0 (List.range st.memberLens.length) st.rows }

/-! ### `calc_tanp_xy` -/

/-- `TPx, TPy = tanplane_wcs.world_to_tanp(RA, DEC)` (the columns are replaced) -/
def calcTanpXY {K : Type} (st : GState K) (t : K × K → K × K) : GState K :=
  { st with tp := some (st.rows.map fun r => t r.radec) }

/-! ### `match2ref` -/

/-- the column as the code finds / creates it before it writes the new matches: an existing column keeps its
data and gets every mask bit set, a missing one is created (zeros, all masked) -/
def resetCol (c : Option (MCol Int)) (catlen : Nat) : MCol Int :=
  match c with
  | some c => c.maskAll
  | none => MCol.new catlen

/-- the part of `match2ref` after the index arrays are known (L1015-1053), statement by statement; every
exception is returned with the state at the moment it is raised -/
def book {K : Type} (st : GState K) (refIds : List Int) (mref minput : List Int) (nmatches : Nat) :
    Step K (Nat × List Int × List Int) :=
  let catlen := st.catlen
  -- matched_ref_id: reset / create
  let col0 := resetCol st.matchedRefId catlen
  let st1 := { st with matchedRefId := some col0 }
  -- self._catalog['matched_ref_id'].mask[minput_idx] = False
  match normAll catlen minput with
  | none => ⟨st1, .error .indexError⟩
  | some inp =>
    let col1 : MCol Int := ⟨col0.data, assign col0.mask inp (List.replicate inp.length false)⟩
    let st2 := { st with matchedRefId := some col1 }
    -- refcat.catalog['id'][mref_idx]
    match normAll refIds.length mref with
    | none => ⟨st2, .error .indexError⟩
    | some rf =>
      let vals := rf.map fun j => refIds.getD j 0
      -- self._catalog['matched_ref_id'][minput_idx] = ...
      match bcast vals inp.length, bcast mref inp.length with
      | some vs, some ms =>
        let col2 : MCol Int := ⟨assign col1.data inp vs, col1.mask⟩
        -- _raw_matched_ref_idx: reset / create, data, mask
        let raw0 := resetCol st.rawRefIdx catlen
        let raw2 : MCol Int := ⟨assign raw0.data inp ms, assign raw0.mask inp (List.replicate inp.length false)⟩
        ⟨{ st with matchedRefId := some col2, rawRefIdx := some raw2, mrefIdx := some mref,
                   minputIdx := some minput }, .ok (nmatches, mref, minput)⟩
      | _, _ => ⟨st2, .error .valueError⟩

/-- `np.arange(n)` as an index array -/
def arange (n : Nat) : List Int := (List.range n).map fun (i : Nat) => (i : Int)

/-- `match2ref(refcat, match)`: `refIds` is `refcat.catalog['id']`, `m = none` is `match=None`, `m = some
(mref, minput)` is what the matcher returns (it is not called for an empty catalog) -/
def match2ref {K : Type} (st : GState K) (refIds : List Int) (m : Option (List Int × List Int)) :
    Step K (Nat × List Int × List Int) :=
  let catlen := st.catlen
  match m with
  | none =>
    if catlen ≠ refIds.length then ⟨st, .error .valueError⟩
    else book st refIds (arange catlen) (arange catlen) catlen
  | some (mref, minput) =>
    if st.tp.isNone then ⟨st, .error .runtimeError⟩
    else if catlen = 0 then ⟨st, .ok (0, [], [])⟩
    else book st refIds mref minput mref.length

/-! ### `get_matched_cat`, `get_unmatched_cat` -/

/-- row numbers selected by the boolean index `mask == b`, in catalog order -/
def maskSel (mask : List Bool) (b : Bool) : List Nat :=
  (List.range mask.length).filter fun i => mask.getD i true == b

/-- `get_unmatched_cat`: `self._catalog[self._catalog['matched_ref_id'].mask]` (row numbers) -/
def getUnmatchedIdx {K : Type} (st : GState K) : Except GErr (List Nat) :=
  match st.matchedRefId with
  | none => .error .keyError
  | some c => .ok (maskSel c.mask true)

/-- `get_matched_cat`: `self._catalog[np.logical_not(mask)]` (row numbers) -/
def getMatchedIdx {K : Type} (st : GState K) : Except GErr (List Nat) :=
  match st.matchedRefId with
  | none => .error .keyError
  | some c => .ok (maskSel c.mask false)

/-- the rows of a selection -/
def selRows {K : Type} (st : GState K) (idx : List Nat) : List (GRow K) := idx.filterMap fun i => st.rows[i]?

/-! ### `fit2ref`: the arrays handed to `iter_linear_fit` -/

/-- `fit2ref` up to the call of `iter_linear_fit`: `refTP` = the reference catalog's `TPx, TPy`, `refW` its
optional weights -/
def fit2refSel {K : Type} (st : GState K) (refTP : List (K × K)) (refW : Option (List K)) :
    Except GErr (PairArgs K) :=
  match st.tp with
  | none => .error .keyError
  | some tp =>
    match st.minputIdx, st.mrefIdx with
    | some minput, some mref =>
      match normAll tp.length minput, normAll refTP.length mref with
      | some inp, some rf =>
        match fit2refArgs refTP refW tp st.weight rf inp with
        | some a => .ok a
        | none => .error .indexError
      | _, _ => .error .indexError
    | _, _ => .error .attributeError

/-! ### the reference catalog and `align_to_ref` -/

/-- the reference catalog: positions, `id` column, optional weights (as `np.asarray(col)` reads them) -/
structure RefCat (K : Type) where
  radec : List (K × K)
  ids : List Int
  weight : Option (List K)

/-- what the call of the fitter inside `fit2ref` did: it returned, it raised `SingularMatrixError` /
`NotEnoughPointsError` (caught by `align_to_ref` since 4565404: the group is reported as failed), or it
raised anything else (propagates) -/
inductive FitOutcome where
  | returned
  | degenerate
  | raised
  deriving Repr, DecidableEq

/-- what `align_to_ref` was given -/
structure AlignArgs (K : Type) where
  t : K × K → K × K                      -- ref_tpwcs.world_to_tanp
  ref : RefCat K
  m : Option (List Int × List Int)        -- the matcher's answer, `none` = `match=None`
  minobj : Option Nat
  fitmin : Nat                            -- SUPPORTED_FITGEOM_MODES[fitgeom]
  fitOk : PairArgs K → FitOutcome         -- what iter_linear_fit does on these arrays
  w' : Nat → K × K → K × K                -- the members' WCS after `apply_affine_to_wcs`

def effMinobj (minobj : Option Nat) (fitmin : Nat) : Nat :=
  match minobj with
  | none => fitmin
  | some m => if m < fitmin then fitmin else m

/-- `align_to_ref`: `calc_tanp_xy`, `match2ref`, the `nmatches < minobj` test, `fit2ref`, the correction of
the members' WCS (external: `w'`), `recalc_catalog_radec`.  Returns the boolean of the method and the arrays
that went to the fitter (`none`: the fitter was not reached). -/
def alignToRef {K : Type} (st : GState K) (a : AlignArgs K) : Step K (Bool × Option (PairArgs K)) :=
  if st.memberLens.isEmpty then ⟨st, .ok (false, none)⟩ else
  let st1 := calcTanpXY st a.t
  let refTP := a.ref.radec.map a.t
  let s2 := match2ref st1 a.ref.ids a.m
  match s2.res with
  | .error e => ⟨s2.st, .error e⟩
  | .ok (n, _, _) =>
    if n < effMinobj a.minobj a.fitmin then ⟨s2.st, .ok (false, none)⟩
    else
      match fit2refSel s2.st refTP a.ref.weight with
      | .error e => ⟨s2.st, .error e⟩
      | .ok pa =>
        match a.fitOk pa with
        | .returned => ⟨recalcCatalogRadec s2.st a.w', .ok (true, some pa)⟩
        | .degenerate => ⟨s2.st, .ok (false, some pa)⟩
        | .raised => ⟨s2.st, .error .fitError⟩

/-- `catalog['id'].max()` -/
def maxIdL : List Int → Int
  | [] => 0
  | r :: t => t.foldl (fun m x => if m < x then x else m) r

section
variable {K : Type} [NatCast K]

/-- the `'weight'` column after `table.vstack([refcat, cat], join_type='outer')` as `np.asarray` reads it: a
catalog without the column contributes masked entries whose data are zero -/
def outerWeight (rw : Option (List K)) (nref : Nat) (uw : Option (List K)) (nun : Nat) : Option (List K) :=
  match rw, uw with
  | none, none => none
  | some a, some b => some (a ++ b)
  | some a, none => some (a ++ List.replicate nun ((0 : Nat) : K))
  | none, some b => some (List.replicate nref ((0 : Nat) : K) ++ b)

/-- `RefCatalog.expand_catalog(catalog)` for a non-empty reference catalog: the rows are appended with ids
`max+1, max+2, …`; `un` are the appended rows, `uw` their weights (if the group has a weight column) -/
def expandCatalog (ref : RefCat K) (un : List (GRow K)) (uw : Option (List K)) : RefCat K :=
  let m := maxIdL ref.ids
  { radec := ref.radec ++ un.map (·.radec),
    ids := ref.ids ++ (List.range un.length).map (fun (j : Nat) => m + 1 + (j : Int)),
    weight := outerWeight ref.weight ref.radec.length uw un.length }

/-- `refcat.expand_catalog(group.get_unmatched_cat())` as `align_wcs` calls it -/
def expandWithUnmatched (st : GState K) (ref : RefCat K) : Except GErr (RefCat K) :=
  match getUnmatchedIdx st with
  | .error e => .error e
  | .ok u => .ok (expandCatalog ref (selRows st u) (st.weight.map fun w => u.filterMap fun i => w[i]?))
end

/-! ### operation sequences -/

/-- the state-changing operations -/
inductive GOp (K : Type) where
  | calcTp (t : K × K → K × K)
  | match2ref (refIds : List Int) (m : Option (List Int × List Int))
  | recalc (w : Nat → K × K → K × K)
  | align (a : AlignArgs K)

/-- the state after an operation (whatever it returned or raised) -/
def applyOp {K : Type} (st : GState K) : GOp K → GState K
  | .calcTp t => calcTanpXY st t
  | .match2ref refIds m => (match2ref st refIds m).st
  | .recalc w => recalcCatalogRadec st w
  | .align a => (alignToRef st a).st

def run {K : Type} (st : GState K) (ops : List (GOp K)) : GState K := ops.foldl applyOp st

end TW.GC
