import Model.LinAlg
/-!
Model of the single-shot fitters of `tweakwcs.linearfit`:
`fit_shifts`, `fit_rscale` (also `fit_rshift` = `fit_rscale(scale=1)`), `fit_general`.
Mathlib-free, generic over the scalar type.  `xy` are the "observed" positions, `uv` the
positions that are transformed: the fit minimises `Σ w ‖xy − (F·uv + s)‖²`.
-/
namespace TW

inductive FitErr where
  | notEnoughPoints
  | singular
  | badWeights        -- negative weights / too many zero weights
  | badArg
  deriving Repr, DecidableEq

/-- one matched pair: observed `(x, y)`, transformed `(u, v)` -/
structure Obs (K : Type) where
  x : K
  y : K
  u : K
  v : K

/-- result of a fit: `matrix = [[m00, m01], [m10, m11]]`, `shift = (sx, sy)` -/
structure Lin (K : Type) where
  m00 : K
  m01 : K
  m10 : K
  m11 : K
  sx : K
  sy : K

section
variable {K : Type} [Add K] [Sub K] [Mul K] [Div K] [Neg K] [LT K] [DecidableLT K] [NatCast K]

/-- right-nested sum -/
def sumL : List K → K
  | [] => zeroK
  | a :: l => a + sumL l

/-- `np.dot(w, f)` for lists of equal length (extra entries are ignored) -/
def dotL (w f : List K) : K := sumL (List.zipWith (· * ·) w f)

/-- the weight of a pair when both catalogs carry weights: `wxy*wuv/(wxy+wuv)` where both are
positive, `0` elsewhere -/
def harmonic (wxy wuv : K) : K :=
  if zeroK < wuv ∧ zeroK < wxy then wxy * wuv / (wxy + wuv) else zeroK

/-- the weights used by a fit, as in the three fitters: `none` = unweighted -/
def combineW (wxy wuv : Option (List K)) : Option (List K) :=
  match wxy, wuv with
  | none, none => none
  | none, some w => some w
  | some w, none => some w
  | some a, some b => some (List.zipWith harmonic a b)

def countPos (w : List K) : Nat := (w.filter fun x => zeroK < x).length
def anyNeg (w : List K) : Bool := w.any fun x => x < zeroK

/-- effective (normalised) weights: `1/n` each when unweighted, `w/Σw` otherwise -/
def normW (n : Nat) (w : Option (List K)) : List K :=
  match w with
  | none => List.replicate n (oneK / (n : K))
  | some w => w.map fun x => x / sumL w

/-- `fit_shifts` -/
def fitShifts (obs : List (Obs K)) (wxy wuv : Option (List K)) : Except FitErr (Lin K) :=
  if obs.length = 0 then .error .notEnoughPoints else
  let w := combineW wxy wuv
  match w with
  | some ws =>
    if anyNeg ws then .error .badWeights
    else if countPos ws = 0 then .error .badWeights
    else
      let wn := normW obs.length w
      .ok ⟨oneK, zeroK, zeroK, oneK, dotL wn (obs.map fun o => o.x - o.u), dotL wn (obs.map fun o => o.y - o.v)⟩
  | none =>
      let wn : List K := normW obs.length none
      .ok ⟨oneK, zeroK, zeroK, oneK, dotL wn (obs.map fun o => o.x - o.u), dotL wn (obs.map fun o => o.y - o.v)⟩

/-- the twelve accumulated sums of `fit_general` -/
structure GSums (K : Type) where
  sw : K
  sx : K
  sy : K
  su : K
  sv : K
  sxu : K
  syu : K
  sxv : K
  syv : K
  suu : K
  svv : K
  suv : K

def mulL (a b : List K) : List K := List.zipWith (· * ·) a b

def gsums (ws : List K) (obs : List (Obs K)) : GSums K :=
  let xs := obs.map (·.x); let ys := obs.map (·.y); let us := obs.map (·.u); let vs := obs.map (·.v)
  { sw := sumL ws
    sx := dotL ws xs, sy := dotL ws ys, su := dotL ws us, sv := dotL ws vs
    sxu := dotL ws (mulL xs us), syu := dotL ws (mulL ys us)
    sxv := dotL ws (mulL xs vs), syv := dotL ws (mulL ys vs)
    suu := dotL ws (mulL us us), svv := dotL ws (mulL vs vs), suv := dotL ws (mulL us vs) }

/-- `m = [[su, sv, sw], [suu, suv, su], [suv, svv, sv]]` -/
def gmatrix (s : GSums K) : Mat 3 K :=
  Mat.ofFn fun i j =>
    if i.val = 0 then (if j.val = 0 then s.su else if j.val = 1 then s.sv else s.sw)
    else if i.val = 1 then (if j.val = 0 then s.suu else if j.val = 1 then s.suv else s.su)
    else (if j.val = 0 then s.suv else if j.val = 1 then s.svv else s.sv)

/-- `p = inv(m)·[sx, sxu, sxv]`, `q = inv(m)·[sy, syu, syv]` -/
def gsolve (eps : K) (s : GSums K) : Except FitErr (Lin K) :=
  match invSq eps (gmatrix s) with
  | .error _ => .error .singular
  | .ok im =>
    let mv (a0 a1 a2 : K) (i : Fin 3) : K := im.get i 0 * a0 + im.get i 1 * a1 + im.get i 2 * a2
    .ok ⟨mv s.sx s.sxu s.sxv 0, mv s.sx s.sxu s.sxv 1, mv s.sy s.syu s.syv 0, mv s.sy s.syu s.syv 1,
         mv s.sx s.sxu s.sxv 2, mv s.sy s.syu s.syv 2⟩

/-- the (un-normalised) weights used by `fit_general`: 1 each when unweighted -/
def generalW (obs : List (Obs K)) (wxy wuv : Option (List K)) : List K :=
  match combineW wxy wuv with
  | some ws => ws
  | none => List.replicate obs.length oneK

def generalBad (wxy wuv : Option (List K)) : Bool :=
  match combineW wxy wuv with
  | some ws => anyNeg ws || decide (countPos ws < 3)
  | none => false

/-- the (weighted) second central moments of the `uv` points -/
structure UVMom (K : Type) where
  cuu : K
  cvv : K
  cuv : K

/-- `du = u - su/sw`, `dv = v - sv/sw`, `cuu = np.dot(w, du*du)`, `cvv = np.dot(w, dv*dv)`,
`cuv = np.dot(w, du*dv)` (`w` = 1 each in the unweighted branch, where the code writes
`np.dot(du, du)` …) -/
def cmoments (ws : List K) (obs : List (Obs K)) (s : GSums K) : UVMom K :=
  { cuu := dotL ws (mulL (obs.map fun o => o.u - s.su / s.sw) (obs.map fun o => o.u - s.su / s.sw))
    cvv := dotL ws (mulL (obs.map fun o => o.v - s.sv / s.sw) (obs.map fun o => o.v - s.sv / s.sw))
    cuv := dotL ws (mulL (obs.map fun o => o.u - s.su / s.sw) (obs.map fun o => o.v - s.sv / s.sw)) }

/-- the two sides of the collinearity test: `cuu*cvv - cuv**2` and `epsD * (0.5*(cuu + cvv))**2` -/
def UVMom.det (c : UVMom K) : K := c.cuu * c.cvv - c.cuv * c.cuv
def UVMom.bound (epsD : K) (c : UVMom K) : K :=
  epsD * ((halfK * (c.cuu + c.cvv)) * (halfK * (c.cuu + c.cvv)))

/-- the guard of `fit_general` against collinear or coincident points:
`(cuu*cvv - cuv**2) <= eps_double * (0.5*(cuu + cvv))**2`, with `eps_double` a parameter (`2^-52`
in the code).  `a <= b` is evaluated as `not (b < a)`: the same on every pair of numbers (they
differ on NaN only; non-finite input is outside the model, see the assumptions of C06/C07). -/
def collinearGuard (epsD : K) (c : UVMom K) : Bool := !decide (c.bound epsD < c.det)

/-- the guard on the data of a call -/
def generalGuard (epsD : K) (obs : List (Obs K)) (wxy wuv : Option (List K)) : Bool :=
  collinearGuard epsD
    (cmoments (generalW obs wxy wuv) obs (gsums (generalW obs wxy wuv) obs))

/-- `fit_general`: weights checks, the collinearity guard, then the normal equations solved with
`inv` (`eps`: pivot threshold of `inv`; `epsD`: threshold of the collinearity guard) -/
def fitGeneral (eps epsD : K) (obs : List (Obs K)) (wxy wuv : Option (List K)) :
    Except FitErr (Lin K) :=
  if obs.length < 3 then .error .notEnoughPoints
  else if generalBad wxy wuv then .error .badWeights
  else if generalGuard epsD obs wxy wuv then .error .singular
  else gsolve eps (gsums (generalW obs wxy wuv) obs)

/-! ### `fit_rscale` / `fit_rshift` -/

variable [HasTrig K]

/-- centred first and second moments used by `fit_rscale` -/
structure RSums (K : Type) where
  xm : K
  ym : K
  um : K
  vm : K
  sxu : K
  sxv : K
  syu : K
  syv : K
  su2v2 : K

/-- `wmean`: weights for the means (`1/n` or `w/Σw`); `wmom`: weights for the second moments
(`1` each in the unweighted branch — `np.dot(x, v)` — and `w/Σw` in the weighted one) -/
def rsums (wmean wmom : List K) (obs : List (Obs K)) : RSums K :=
  let xm := dotL wmean (obs.map (·.x)); let ym := dotL wmean (obs.map (·.y))
  let um := dotL wmean (obs.map (·.u)); let vm := dotL wmean (obs.map (·.v))
  let xs := obs.map fun o => o.x - xm; let ys := obs.map fun o => o.y - ym
  let us := obs.map fun o => o.u - um; let vs := obs.map fun o => o.v - vm
  { xm := xm, ym := ym, um := um, vm := vm
    sxu := dotL wmom (mulL xs us), sxv := dotL wmom (mulL xs vs)
    syu := dotL wmom (mulL ys us), syv := dotL wmom (mulL ys vs)
    su2v2 := dotL wmom (mulL us us) + dotL wmom (mulL vs vs) }

/-- rotation angle (degrees, in `[0, 360)`) from numerator and denominator, with the
repaired zero test (`rot_num == 0 and rot_denom == 0`) -/
def isZeroK (x : K) : Bool := !(decide (x < zeroK)) && !(decide (zeroK < x))

def rsTheta (num den : K) : K :=
  if isZeroK num && isZeroK den then zeroK
  else
    let t := HasTrig.atan2deg num den
    if t < zeroK then t + ((360 : Nat) : K) else t

/-- everything after the sums: angle, scale, reflection, shift -/
def rsolve (scale : Option K) (s : RSums K) : Except FitErr (Lin K) :=
  let det := s.sxu * s.syv - s.sxv * s.syu
  let num := if det < zeroK then s.sxv + s.syu else s.sxv - s.syu
  let den := if det < zeroK then s.sxu - s.syv else s.sxu + s.syv
  let theta := rsTheta num den
  let c := HasTrig.cosdeg theta
  let sn := HasTrig.sindeg theta
  let snum := den * c + num * sn
  let magE : Except FitErr K :=
    match scale with
    | some sc => .ok sc
    | none => if zeroK < s.su2v2 then .ok (snum / s.su2v2) else .error .singular
  match magE with
  | .error e => .error e
  | .ok mag =>
    let sthetax := if det < zeroK then -(mag * sn) else mag * sn
    let cthetay := if det < zeroK then -(mag * c) else mag * c
    let cthetax := mag * c
    let sthetay := mag * sn
    let sdet : K := if det < zeroK then -oneK else oneK     -- repaired: consistent with the branch
    let xshift := s.xm - s.um * cthetax - sdet * s.vm * sthetax
    let yshift := s.ym + sdet * s.um * sthetay - s.vm * cthetay
    .ok ⟨cthetax, sthetay, -sthetax, cthetay, xshift, yshift⟩

def rscaleBad (wxy wuv : Option (List K)) : Bool :=
  match combineW wxy wuv with
  | some ws => anyNeg ws || decide (countPos ws < 2)
  | none => false

/-- weights of the second moments -/
def rscaleWmom (obs : List (Obs K)) (wxy wuv : Option (List K)) : List K :=
  match combineW wxy wuv with
  | some ws => ws.map fun x => x / sumL ws
  | none => List.replicate obs.length oneK

/-- `fit_rscale(xy, uv, wxy, wuv, scale)`; `fit_rshift` is `scale = some 1` -/
def fitRscale (obs : List (Obs K)) (wxy wuv : Option (List K)) (scale : Option K) :
    Except FitErr (Lin K) :=
  if obs.length < 2 then .error .notEnoughPoints
  else
    let scaleOk : Bool := match scale with
      | none => true
      | some sc => decide (zeroK < sc)
    if !scaleOk then .error .badArg
    else if rscaleBad wxy wuv then .error .badWeights
    else rsolve scale (rsums (normW obs.length (combineW wxy wuv)) (rscaleWmom obs wxy wuv) obs)

end
end TW

namespace TW

/-- the four fit geometries of `SUPPORTED_FITGEOM_MODES` -/
inductive FitGeom where
  | shift
  | rshift
  | rscale
  | general
  deriving Repr, DecidableEq

/-- `SUPPORTED_FITGEOM_MODES`: minimum number of points per geometry -/
def FitGeom.minobj : FitGeom → Nat
  | .shift => 1
  | .rshift => 2
  | .rscale => 2
  | .general => 3

def FitGeom.ofString? (s : String) : Option FitGeom :=
  if s = "shift" then some .shift
  else if s = "rshift" then some .rshift
  else if s = "rscale" then some .rscale
  else if s = "general" then some .general
  else none

end TW
