import Model.Hist
/-!
Model of `tweakwcs.matchutils.XYXYMatch` (constructor validation and `__call__` on catalogs that
carry tangent-plane coordinates `TPx`, `TPy`).

`__call__`: the initial offset is `_estimate_2dhist_shift(imxy, refxy, searchrad, tp_pscale)` when
`use2dhist` is set and `(xoffset, yoffset)` otherwise; then
`stsci.stimage.xyxymatch(imxy, refxy, origin=xyoff, tolerance=…, separation=…)` (C code, the default
"tolerance" algorithm) is called and `(matches['ref_idx'], matches['input_idx'])` is returned.

The C matcher is an external of the model.  It is replaced by its *specification*
`{(i, j) | ‖im_j − origin − ref_i‖ ≤ tolerance}` (`specMatch`): on catalogs in which every source has
at most one counterpart within the tolerance and no two sources of one list are closer than
`separation` this is what the tolerance algorithm returns; that contract is what the
correspondence check tests.  Distances are compared through their squares, so the model stays in an
ordered field.
-/
namespace TW

inductive MatchErr where
  | badSearchrad      -- `searchrad <= 0`: ValueError
  | badSeparation     -- `separation <= 0`: ValueError
  | badTolerance      -- `tolerance <= 0`: ValueError
  | emptyRef          -- "Reference catalog must contain at least one source."
  | emptyIm           -- "Image catalog must contain at least one source."
  deriving Repr, DecidableEq

/-- the state of an `XYXYMatch` object -/
structure MatchCfg (K : Type) where
  searchrad : K
  separation : K
  use2dhist : Bool
  xoffset : K
  yoffset : K
  tolerance : K

section
variable {K : Type} [Add K] [Sub K] [Mul K] [Div K] [Neg K] [LT K] [DecidableLT K] [NatCast K]

/-- squared Euclidean distance -/
def dist2 (p q : K × K) : K := (p.1 - q.1) * (p.1 - q.1) + (p.2 - q.2) * (p.2 - q.2)

/-- `XYXYMatch.__init__` -/
def xyxyMatchNew (searchrad separation : K) (use2dhist : Bool) (xoffset yoffset tolerance : K) :
    Except MatchErr (MatchCfg K) :=
  if ¬ (zeroK < searchrad) then .error .badSearchrad
  else if ¬ (zeroK < separation) then .error .badSeparation
  else if ¬ (zeroK < tolerance) then .error .badTolerance
  else .ok ⟨searchrad, separation, use2dhist, xoffset, yoffset, tolerance⟩

/-- the specification of the matcher: all pairs (reference index, image index) whose positions
agree within the tolerance once the origin is removed from the image position; reference-major
order -/
def specMatch (ref im : List (K × K)) (origin : K × K) (tol : K) : List (Nat × Nat) :=
  (List.range ref.length).flatMap fun i => (List.range im.length).filterMap fun j =>
    let p := im.getD j (zeroK, zeroK)
    if leK (dist2 (p.1 - origin.1, p.2 - origin.2) (ref.getD i (zeroK, zeroK))) (tol * tol)
    then some (i, j) else none

/-- the matched sources (reference position, image position) named by a list of index pairs -/
def matchedSources (ref im : List (K × K)) (m : List (Nat × Nat)) : List ((K × K) × (K × K)) :=
  m.map fun p => (ref.getD p.1 (zeroK, zeroK), im.getD p.2 (zeroK, zeroK))

end

section
variable {K : Type} [Add K] [Sub K] [Mul K] [Div K] [Neg K] [LT K] [DecidableLT K] [NatCast K]
  [HasFloor K]

/-- the origin handed to `xyxymatch` -/
def matchOrigin (lsq : Lsq K) (cfg : MatchCfg K) (ref im : List (K × K)) (pscale : K) : K × K :=
  if cfg.use2dhist then estimateShift lsq im ref cfg.searchrad pscale
  else (cfg.xoffset, cfg.yoffset)

/-- the matched index pairs `(ref_idx, input_idx)` of one call -/
def matchPairs (lsq : Lsq K) (cfg : MatchCfg K) (ref im : List (K × K)) (pscale : K) :
    List (Nat × Nat) :=
  specMatch ref im (matchOrigin lsq cfg ref im pscale) cfg.tolerance

/-- `XYXYMatch.__call__(refcat, imcat, tp_pscale)`: `(ref_idx, input_idx)` -/
def xyxyMatchCall (lsq : Lsq K) (cfg : MatchCfg K) (ref im : List (K × K)) (pscale : K) :
    Except MatchErr (List Nat × List Nat) :=
  if ref.isEmpty then .error .emptyRef
  else if im.isEmpty then .error .emptyIm
  else
    let m := matchPairs lsq cfg ref im pscale
    .ok (m.map Prod.fst, m.map Prod.snd)

end
end TW
