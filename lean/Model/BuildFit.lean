import Model.Fit
/-!
Model of the descriptive part of a fit in `tweakwcs.linearfit`:

* `_build_fit(p, q, fitgeom)`  — decomposition of the fitted matrix `[[p0, p1], [q0, q1]]` into
  `proper`, `proper_rot`, `rot = (rotx, roty)`, `<rot>`, `scale = (sx, sy)`, `<scale>`, `skew`;
* `build_fit_matrix(rot, scale)` — the inverse construction (scalar and pair arguments);
* `_compute_stat(fit, residuals, weights)` — `rmse`, `mae`, `std` (unweighted / weighted);
* the residual formula of `iter_linear_fit` (centred coordinates).

Mathlib-free, generic over the scalar type; written branch by branch as the code is.
Angles are in degrees (`HasTrig.atan2deg y x = rad2deg(arctan2(y, x))`).
NaN inputs are outside the model (`np.sign(nan)` is `nan`; here a scalar is `< 0`, `> 0` or zero).
-/
namespace TW

/-- `np.floor`, needed for `np.mod(·, 360.0)` -/
class HasFloorK (K : Type) where
  floor : K → K
instance : HasFloorK Float := ⟨Float.floor⟩


/-- the descriptive entries of the dictionary returned by `_build_fit` -/
structure BuiltFit (K : Type) where
  m00 : K
  m01 : K
  m10 : K
  m11 : K
  shx : K
  shy : K
  proper : Bool
  properRot : K   -- 'proper_rot'
  rotx : K        -- 'rot'[0]
  roty : K        -- 'rot'[1]
  rot : K         -- '<rot>'
  sx : K          -- 'scale'[0]
  sy : K          -- 'scale'[1]
  s : K           -- '<scale>'
  skew : K

/-- the three statistics stored by `_compute_stat` -/
structure StatsB (K : Type) where
  rmse : K
  mae : K
  std : K

section
variable {K : Type} [Add K] [Sub K] [Mul K] [Div K] [Neg K] [LT K] [DecidableLT K] [NatCast K]

def k180 : K := ((180 : Nat) : K)
def k360 : K := ((360 : Nat) : K)
def twoKB : K := ((2 : Nat) : K)

/-- `det = p[0] * q[1] - p[1] * q[0]` -/
def det2 (p0 p1 q0 q1 : K) : K := p0 * q1 - p1 * q0

/-- `np.sign` -/
def signK (d : K) : K := if d < zeroK then -oneK else if zeroK < d then oneK else zeroK

/-- `proper = sdet >= 0` -/
def properOf (sdet : K) : Bool := !(decide (sdet < zeroK))

section
variable [HasFloorK K]

/-- `np.mod(a, 360.0)`: the result has the sign of the divisor -/
def mod360 (a : K) : K := a - HasFloorK.floor (a / k360) * k360

/-- `skew = np.mod(roty - rotx - 180.0, 360.0) - 180.0` -/
def skewWrap (rotx roty : K) : K := mod360 (roty - rotx - k180) - k180
end

section
variable [HasSqrt K]

/-- `s = np.sqrt(np.abs(det))` -/
def meanScale (det : K) : K := HasSqrt.sqrt (absK det)

/-- `sx, sy = np.sqrt(p[:2]**2 + q[:2]**2)` for 'general', `sx = sy = s` otherwise -/
def axisScales (g : FitGeom) (p0 p1 q0 q1 s : K) : K × K :=
  match g with
  | .general => (HasSqrt.sqrt (p0 * p0 + q0 * q0), HasSqrt.sqrt (p1 * p1 + q1 * q1))
  | _ => (s, s)
end

section
variable [HasTrig K]

/-- `prop_rot = rad2deg(arctan2(wfit[0,1] - sdet*wfit[1,0], wfit[0,0] + sdet*wfit[1,1]))` -/
def propRot (sdet w00 w01 w10 w11 : K) : K :=
  HasTrig.atan2deg (w01 - sdet * w10) (w00 + sdet * w11)

/-- `rotx = rad2deg(arctan2(-wfit[1,0], wfit[0,0]))` -/
def rotXOf (w00 w10 : K) : K := HasTrig.atan2deg (-w10) w00

/-- `roty = rad2deg(arctan2(wfit[0,1], wfit[1,1]))` -/
def rotYOf (w01 w11 : K) : K := HasTrig.atan2deg w01 w11

/-- the branch `if proper and fitgeom in ['rshift', 'rscale']` -/
def singleAngle (g : FitGeom) (proper : Bool) : Bool :=
  proper && (g == .rshift || g == .rscale)

variable [HasFloorK K]

/-- `(rotx, roty, <rot>, skew)` from the scale-free working copy -/
def anglesOf (g : FitGeom) (proper : Bool) (prot w00 w01 w10 w11 : K) : K × K × K × K :=
  if singleAngle g proper then (prot, prot, prot, zeroK)
  else
    let rx := rotXOf w00 w10
    let ry := rotYOf w01 w11
    (rx, ry, (oneK / twoKB) * (rx + ry), skewWrap rx ry)

variable [HasSqrt K]

/-- `_build_fit(p, q, fitgeom)` with `p = (p0, p1, p2)`, `q = (q0, q1, q2)` -/
def buildFit (g : FitGeom) (p0 p1 p2 q0 q1 q2 : K) : BuiltFit K :=
  let det := det2 p0 p1 q0 q1
  let sdet := signK det
  let proper := properOf sdet
  match g with
  | .shift =>
    { m00 := p0, m01 := p1, m10 := q0, m11 := q1, shx := p2, shy := q2, proper := proper
      properRot := zeroK, rotx := zeroK, roty := zeroK, rot := zeroK
      sx := oneK, sy := oneK, s := oneK, skew := zeroK }
  | g =>
    let s := meanScale det
    let sc := axisScales g p0 p1 q0 q1 s
    -- wfit[:, 0] /= sx ; wfit[:, 1] /= sy
    let w00 := p0 / sc.1
    let w01 := p1 / sc.2
    let w10 := q0 / sc.1
    let w11 := q1 / sc.2
    let prot := propRot sdet w00 w01 w10 w11
    let a := anglesOf g proper prot w00 w01 w10 w11
    { m00 := p0, m01 := p1, m10 := q0, m11 := q1, shx := p2, shy := q2, proper := proper
      properRot := prot, rotx := a.1, roty := a.2.1, rot := a.2.2.1
      sx := sc.1, sy := sc.2, s := s, skew := a.2.2.2 }

/-- `build_fit_matrix((rx, ry), (sx, sy))`: rows `(m00, m01)`, `(m10, m11)` -/
def buildFitMatrix (rot scale : K × K) : K × K × K × K :=
  (scale.1 * HasTrig.cosdeg rot.1, scale.2 * HasTrig.sindeg rot.2,
   (-scale.1) * HasTrig.sindeg rot.1, scale.2 * HasTrig.cosdeg rot.2)

/-- argument of `build_fit_matrix`: a number (`rx = ry`, `sx = sy`) or an iterable of two -/
inductive OneOrTwo (K : Type) where
  | one (a : K)
  | two (a b : K)

def OneOrTwo.pair : OneOrTwo K → K × K
  | .one a => (a, a)
  | .two a b => (a, b)

/-- `build_fit_matrix(rot, scale)` with scalar or pair arguments -/
def buildFitMatrixArgs (rot scale : OneOrTwo K) : K × K × K × K :=
  buildFitMatrix rot.pair scale.pair
end

/-! ### residuals -/

/-- one row of `resids = xy - np.dot(uv, F.T) - shift` computed by the fitters on the centred
coordinates `xy - c`, `uv - c` that `iter_linear_fit` hands them -/
def residCentered (m00 m01 m10 m11 sx sy cx cy x y u v : K) : K × K :=
  ((x - cx) - (m00 * (u - cx) + m01 * (v - cy)) - sx,
   (y - cy) - (m10 * (u - cx) + m11 * (v - cy)) - sy)

/-- effective shift of the map in uncentred coordinates: `s_eff = s + c - F c` -/
def effShift (m00 m01 m10 m11 sx sy cx cy : K) : K × K :=
  (sx + cx - (m00 * cx + m01 * cy), sy + cy - (m10 * cx + m11 * cy))

/-! ### `_compute_stat` -/

section
variable [HasSqrt K]

/-- `np.linalg.norm(residuals, axis=1)` for one row -/
def norm2B (r : K × K) : K := HasSqrt.sqrt (r.1 * r.1 + r.2 * r.2)

/-- `a.mean()` -/
def meanL (l : List K) : K := sumL l / (l.length : K)

/-- `a.std()` (population standard deviation, `ddof = 0`) -/
def stdL (l : List K) : K :=
  let m := meanL l
  HasSqrt.sqrt (meanL (l.map fun x => (x - m) * (x - m)))

/-- the branch `weights is None` -/
def statUnweighted (res : List (K × K)) : StatsB K :=
  -- np.sqrt(np.mean(2 * residuals**2)): the mean runs over all `2 n` entries
  let rmse := HasSqrt.sqrt
    (sumL (res.map fun r => twoKB * (r.1 * r.1) + twoKB * (r.2 * r.2)) / ((2 * res.length : Nat) : K))
  let mae := meanL (res.map norm2B)
  -- np.linalg.norm(residuals.std(axis=0))
  let sdx := stdL (res.map (·.1))
  let sdy := stdL (res.map (·.2))
  ⟨rmse, mae, HasSqrt.sqrt (sdx * sdx + sdy * sdy)⟩

/-- the weighted branch; `none` stands for the three NaNs stored when `npts == 0 or wt == 0` -/
def statWeighted (res : List (K × K)) (weights : List K) : Option (StatsB K) :=
  let npts := weights.length
  let wt := sumL weights
  if npts = 0 ∨ isZeroK wt then none
  else
    let w := weights.map fun x => x / wt
    let xs := res.map (·.1)
    let ys := res.map (·.2)
    let rmse := HasSqrt.sqrt (dotL w (xs.map fun x => x * x) + dotL w (ys.map fun y => y * y))
    let mae := dotL w (res.map norm2B)
    let std :=
      if npts = 1 then zeroK
      else
        let mx := dotL w xs
        let my := dotL w ys
        let den := oneK - sumL (w.map fun a => a * a)
        HasSqrt.sqrt (dotL w (xs.map fun x => (x - mx) * (x - mx)) / den
                      + dotL w (ys.map fun y => (y - my) * (y - my)) / den)
    some ⟨rmse, mae, std⟩

/-- `_compute_stat(fit, residuals, weights)` -/
def computeStatB (res : List (K × K)) (weights : Option (List K)) : Option (StatsB K) :=
  match weights with
  | none => some (statUnweighted res)
  | some w => statWeighted res w
end

end
end TW
