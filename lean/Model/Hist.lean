import Model.Fit
/-!
Model of the 2-D histogram offset estimator of `tweakwcs.matchutils`:
`_xy_2dhist`, `_estimate_2dhist_shift`, `_find_peak`.

Mathlib-free, generic over the scalar type `K` (run on `Float` and `Rat` by the driver, reasoned
about over any linearly ordered field with a floor in `Proofs/C12*.lean`).

External calls are parameters or are modelled by their documented semantics:
* `scipy.spatial.KDTree.query_ball_point(imgxy, (r + 0.5)·√2)` only preselects a superset of the
  pairs that pass the box test `−r−½ ≤ d < r+½` made right after it; the model enumerates all pairs
  (the order of the pairs is irrelevant to a histogram);
* `numpy.histogram2d(dx, dy, 2R+1, [[−R−½, R+½], [−R−½, R+½]])`: edges `linspace(−R−½, R+½, 2R+2)`
  (exactly `j − R − ½`), bin = `searchsorted(edges, d, side='right') − 1`, values equal to the last
  edge go to the last bin, outliers are dropped;
* `numpy.linalg.lstsq` (together with the finiteness test on its result) is the parameter `lsq`
  of `findPeak`: it receives the design rows `[1, x, y, xy, x², y²]` and the data and returns the six
  coefficients or `none` (failure / non-finite result).

Data are assumed finite (the `numpy.isfinite` masks of the code are the identity).
-/
namespace TW

/-- rounding to integers (`numpy.floor`, `numpy.ceil`); operations only, no laws -/
class HasFloor (K : Type) where
  floor : K → Int
  ceil : K → Int

instance : HasFloor Rat := ⟨Rat.floor, Rat.ceil⟩
instance : HasFloor Float := ⟨fun x => x.floor.toInt64.toInt, fun x => x.ceil.toInt64.toInt⟩

/-- status vocabulary of `_find_peak` -/
inductive PeakStatus where
  | success
  | nodata
  | edge
  | badfit
  | centerOfMass
  deriving Repr, DecidableEq

def PeakStatus.toString : PeakStatus → String
  | .success => "SUCCESS"
  | .nodata => "ERROR:NODATA"
  | .edge => "WARNING:EDGE"
  | .badfit => "WARNING:BADFIT"
  | .centerOfMass => "WARNING:CENTER-OF-MASS"

/-- `fit_status.startswith('ERROR')` -/
def PeakStatus.isError : PeakStatus → Bool
  | .nodata => true
  | _ => false

inductive PeakErr where
  | badBox        -- `peak_fit_box < 1`: ValueError
  deriving Repr, DecidableEq

/-- the six coefficients of `c00 + c10 x + c01 y + c11 xy + c20 x² + c02 y²` -/
structure QCoef (K : Type) where
  c00 : K
  c10 : K
  c01 : K
  c11 : K
  c20 : K
  c02 : K

/-- result of `_find_peak`: `coord = (x, y)`, status, `fit_box = (slice(y1, y2), slice(x1, x2))` -/
structure PeakRes (K : Type) where
  x : K
  y : K
  status : PeakStatus
  y1 : Nat
  y2 : Nat
  x1 : Nat
  x2 : Nat
  deriving DecidableEq

/-- which return statement of `_estimate_2dhist_shift` was taken -/
inductive EstBranch where
  | noPairs                    -- `nonzeros == 0`
  | single                     -- `nonzeros == 1`
  | peakError                  -- `_find_peak` reported an error: (0, 0)
  | peak (st : PeakStatus)     -- converted `_find_peak` coordinates
  deriving Repr, DecidableEq

structure Est (K : Type) where
  x : K
  y : K
  branch : EstBranch
  deriving DecidableEq

/-- the external least-squares solver: design rows, data ↦ coefficients, or failure -/
abbrev Lsq (K : Type) := List (List K) → List K → Option (QCoef K)

section
variable {K : Type} [Add K] [Sub K] [Mul K] [Div K] [Neg K] [LT K] [DecidableLT K] [NatCast K]

def fourK : K := ((4 : Nat) : K)

/-- `float(i)` for an integer -/
def ofInt (i : Int) : K :=
  match i with
  | .ofNat n => (n : K)
  | .negSucc n => -((n + 1 : Nat) : K)

/-- `a == b` expressed with the order (finite values) -/
def eqK (a b : K) : Bool := !decide (a < b) && !decide (b < a)

/-- `a <= b` expressed with the order (finite values) -/
def leK (a b : K) : Bool := !decide (b < a)

/-! ### `_xy_2dhist` -/

/-- `(d < r + 0.5) & (d >= -r - 0.5)` -/
def inRange (r d : K) : Bool := decide (d < r + halfK) && !decide (d < -r - halfK)

/-- `numpy.linspace(-R - 0.5, R + 0.5, 2R + 2)[j]` -/
def binEdge (R j : Nat) : K := (j : K) + (-(R : K) - halfK)

/-- `numpy.searchsorted(edges, d, side='right')`: the number of edges `≤ d` (edges increasing) -/
def countEdgesLE (R : Nat) (d : K) : Nat :=
  ((List.range (2 * R + 2)).filter fun j => !decide (d < binEdge (K := K) R j)).length

/-- the bin of `numpy.histogramdd` along one axis (`2R+1` unit bins on `[−R−½, R+½]`), `none` for
an outlier -/
def binIdx (R : Nat) (d : K) : Option Nat :=
  let n := 2 * R + 1
  let c := countEdgesLE R d
  -- values on the rightmost edge are shifted one bin to the left
  let c := if eqK d (binEdge R n) then c - 1 else c
  -- bins 0 and n+1 of the padded histogram collect the outliers and are cut off
  if c = 0 ∨ n < c then none else some (c - 1)

/-- the bins `(kx, ky)` of all image/reference pairs that pass the box test -/
def pairBins (img ref : List (K × K)) (r : K) (R : Nat) : List (Nat × Nat) :=
  img.flatMap fun a => ref.filterMap fun b =>
    let dx := a.1 - b.1
    let dy := a.2 - b.2
    if inRange r dx && inRange r dy then
      match binIdx R dx, binIdx R dy with
      | some kx, some ky => some (kx, ky)
      | _, _ => none
    else none

/-- `h[0].T`: entry `[ky][kx]` counts the pairs of bin `(kx, ky)` -/
def histOfBins (n : Nat) (bins : List (Nat × Nat)) : List (List Nat) :=
  (List.range n).map fun ky =>
    let row := bins.filter fun b => b.2 == ky
    (List.range n).map fun kx => row.countP fun b => b.1 == kx

end

section
variable {K : Type} [Add K] [Sub K] [Mul K] [Div K] [Neg K] [LT K] [DecidableLT K] [NatCast K]
  [HasFloor K]

/-- `int(np.ceil(r))` (non-negative for the positive `r` the callers pass) -/
def ceilNat (r : K) : Nat := (HasFloor.ceil r).toNat

/-- `_xy_2dhist(imgxy, refxy, r)` -/
def xy2dhist (img ref : List (K × K)) (r : K) : List (List Nat) :=
  let R := ceilNat r
  histOfBins (2 * R + 1) (pairBins img ref r R)

end

section
variable {K : Type} [Add K] [Sub K] [Mul K] [Div K] [Neg K] [LT K] [DecidableLT K] [NatCast K]

/-! ### `_find_peak` -/

def at2 (data : List (List K)) (j i : Nat) : K := (data.getD j []).getD i zeroK

/-- `mask[j, i]` (`mask=None`: every pixel is good) -/
def maskAt (mask : Option (List (List Bool))) (j i : Nat) : Bool :=
  match mask with
  | none => true
  | some m => (m.getD j []).getD i false

/-- `(j[mask], i[mask])`: the good pixels in row-major order -/
def cands (ny nx : Nat) (mask : Option (List (List Bool))) : List (Nat × Nat) :=
  (List.range ny).flatMap fun j => (List.range nx).filterMap fun i =>
    if maskAt mask j i then some (j, i) else none

/-- `numpy.argmax`: the first maximum -/
def argmaxBy {α : Type} (val : α → K) (c : α) (l : List α) : α :=
  l.foldl (fun best p => if val best < val p then p else best) c

/-- "expand the box if needed" (one axis) -/
def expandBox (n box lo hi : Nat) : Nat × Nat :=
  if hi - lo < box then
    let hi := if lo = 0 then min n (lo + box) else hi
    let lo := if hi = n then hi - box else lo
    (lo, hi)
  else (lo, hi)

/-- the good pixels of the fit box in row-major order: `(x, y, d)` with `x = i − (x1 − 1)`,
`y = j − (y1 − 1)` -/
def boxPoints (data : List (List K)) (mask : Option (List (List Bool))) (y1 y2 x1 x2 : Nat) :
    List (Nat × Nat × K) :=
  (List.range' y1 (y2 - y1)).flatMap fun j => (List.range' x1 (x2 - x1)).filterMap fun i =>
    if maskAt mask j i then some (i - x1 + 1, j - y1 + 1, at2 data j i) else none

/-- a row of `v`: `(1, x, y, x*y, x*x, y*y)` (integer arithmetic, then converted) -/
def designRow (p : Nat × Nat × K) : List K :=
  [oneK, (p.1 : K), (p.2.1 : K), ((p.1 * p.2.1 : Nat) : K), ((p.1 * p.1 : Nat) : K),
   ((p.2.1 * p.2.1 : Nat) : K)]

/-- `_center_of_mass(v, d, x1, x2, y1, y2)` -/
def centerOfMass (pts : List (Nat × Nat × K)) (x1 x2 y1 y2 : Nat) : K × K × PeakStatus :=
  let dt := sumL (pts.map fun p => p.2.2)
  if eqK dt zeroK then
    ((((x2 + x1 : Nat) : K) - oneK) / twoK, (((y2 + y1 : Nat) : K) - oneK) / twoK, .nodata)
  else
    let xc := sumL (pts.map fun p => (p.1 : K) * p.2.2) / dt
    let yc := sumL (pts.map fun p => (p.2.1 : K) * p.2.2) / dt
    ((x1 : K) + xc - oneK, (y1 : K) + yc - oneK, .centerOfMass)

/-- `det = 4 * c02 * c20 - c11**2` -/
def quadDet (c : QCoef K) : K := fourK * c.c02 * c.c20 - c.c11 * c.c11

/-- `det <= 0 or ((c20 > 0.0 and c02 >= 0.0) or (c20 >= 0.0 and c02 > 0.0))` -/
def noMax (c : QCoef K) : Bool :=
  leK (quadDet c) zeroK ||
    ((decide (zeroK < c.c20) && leK zeroK c.c02) || (leK zeroK c.c20 && decide (zeroK < c.c02)))

/-- `xm`, `ym`: the stationary point of the polynomial in array coordinates -/
def vertexX (c : QCoef K) (x1 : Nat) : K :=
  (c.c01 * c.c11 - twoK * c.c02 * c.c10) / quadDet c + (x1 : K) - oneK
def vertexY (c : QCoef K) (y1 : Nat) : K :=
  (c.c10 * c.c11 - twoK * c.c01 * c.c20) / quadDet c + (y1 : K) - oneK

/-- `x1 <= xm <= (x2 - 1.0)` -/
def inSpan (lo hi : Nat) (v : K) : Bool := leK (lo : K) v && leK v ((hi : K) - oneK)

/-- everything after the fit box is final: centre of mass / quadratic fit / fall-backs -/
def fitInBox (lsq : Lsq K) (data : List (List K)) (mask : Option (List (List Bool)))
    (y1 y2 x1 x2 : Nat) : PeakRes K :=
  let pts := boxPoints data mask y1 y2 x1 x2
  let com := centerOfMass pts x1 x2 y1 y2
  let viaCom : PeakRes K := ⟨com.1, com.2.1, com.2.2, y1, y2, x1, x2⟩
  if pts.length < 6 then viaCom else
  match lsq (pts.map designRow) (pts.map fun p => p.2.2) with
  | none => viaCom
  | some c =>
    if noMax c then
      (if com.2.2.isError then viaCom else ⟨com.1, com.2.1, .badfit, y1, y2, x1, x2⟩)
    else
      let xm := vertexX c x1
      let ym := vertexY c y1
      if inSpan x1 x2 xm && inSpan y1 y2 ym then ⟨xm, ym, .success, y1, y2, x1, x2⟩ else viaCom

/-- outcome of the discrete part of `_find_peak`: an early return, or the final fit box -/
inductive PeakSearch (K : Type) where
  | done (r : PeakRes K)
  | fit (y1 y2 x1 x2 : Nat)
  deriving DecidableEq

/-- the discrete peak search: arg-max over the good pixels, NODATA tests, fit box, EDGE test,
box expansion -/
def peakBox (data : List (List K)) (box : Nat) (mask : Option (List (List Bool))) : PeakSearch K :=
  let ny := data.length
  let nx := (data.headD []).length
  let nodata : PeakRes K :=
    ⟨((nx : K) - oneK) / twoK, ((ny : K) - oneK) / twoK, .nodata, 0, ny, 0, nx⟩
  match cands ny nx mask with
  | [] => .done nodata
  | c :: cs =>
    let m := argmaxBy (fun p => at2 data p.1 p.2) c cs
    let jmax := m.1
    let imax := m.2
    if at2 data jmax imax < oneK then .done nodata else
    let x1 := imax - box / 2
    let x2 := min nx (x1 + box)
    let y1 := jmax - box / 2
    let y2 := min ny (y1 + box)
    if imax = x1 ∨ imax + 1 = x2 ∨ jmax = y1 ∨ jmax + 1 = y2 then
      .done ⟨(imax : K), (jmax : K), .edge, y1, y2, x1, x2⟩
    else
      let ex := expandBox nx box x1 x2
      let ey := expandBox ny box y1 y2
      .fit ey.1 ey.2 ex.1 ex.2

/-- `_find_peak` after the argument check -/
def findPeakCore (lsq : Lsq K) (data : List (List K)) (box : Nat)
    (mask : Option (List (List Bool))) : PeakRes K :=
  match peakBox data box mask with
  | .done r => r
  | .fit y1 y2 x1 x2 => fitInBox lsq data mask y1 y2 x1 x2

/-- `_find_peak(data, peak_fit_box, mask)` -/
def findPeak (lsq : Lsq K) (data : List (List K)) (box : Nat)
    (mask : Option (List (List Bool))) : Except PeakErr (PeakRes K) :=
  if box < 1 then .error .badBox else .ok (findPeakCore lsq data box mask)

/-! ### `_estimate_2dhist_shift` -/

/-- all positions `(j, i)` of an `n × n` array in row-major order -/
def allPos (n : Nat) : List (Nat × Nat) :=
  (List.range n).flatMap fun j => (List.range n).map fun i => (j, i)

def natAt (h : List (List Nat)) (j i : Nat) : Nat := (h.getD j []).getD i 0

/-- `np.count_nonzero(zpmat)` -/
def countNonzero (n : Nat) (h : List (List Nat)) : Nat :=
  ((allPos n).filter fun p => natAt h p.1 p.2 != 0).length

/-- `np.unravel_index(np.argmax(zpmat), zpmat.shape)`: `(yp, xp)` of the first maximum -/
def argmaxNat (n : Nat) (h : List (List Nat)) : Nat × Nat :=
  (allPos n).foldl (fun best p => if natAt h best.1 best.2 < natAt h p.1 p.2 then p else best) (0, 0)

end

section
variable {K : Type} [Add K] [Sub K] [Mul K] [Div K] [Neg K] [LT K] [DecidableLT K] [NatCast K]
  [HasFloor K]

/-- conversion of a (possibly fractional) bin coordinate to an offset:
`pscale * (xp - np.ceil(searchrad / pscale))` -/
def binToOffset (searchrad pscale xp : K) : K :=
  pscale * (xp - ofInt (HasFloor.ceil (searchrad / pscale)))

/-- `_estimate_2dhist_shift(imgxy, refxy, searchrad, pscale)` with the return statement taken -/
def estimateShiftFull (lsq : Lsq K) (img ref : List (K × K)) (searchrad pscale : K) : Est K :=
  let r := searchrad / pscale
  let n := 2 * ceilNat r + 1
  let zp := xy2dhist (img.map fun a => (a.1 / pscale, a.2 / pscale))
                     (ref.map fun b => (b.1 / pscale, b.2 / pscale)) r
  let nonzeros := countNonzero n zp
  if nonzeros = 0 then ⟨zeroK, zeroK, .noPairs⟩
  else if nonzeros = 1 then
    let p := argmaxNat n zp
    ⟨binToOffset searchrad pscale (p.2 : K), binToOffset searchrad pscale (p.1 : K), .single⟩
  else
    let pk := findPeakCore lsq (zp.map fun row => row.map fun (c : Nat) => (c : K)) 5
                (some (zp.map fun row => row.map fun (c : Nat) => decide (0 < c)))
    if pk.status.isError then ⟨zeroK, zeroK, .peakError⟩
    else ⟨binToOffset searchrad pscale pk.x, binToOffset searchrad pscale pk.y, .peak pk.status⟩

/-- the value returned by `_estimate_2dhist_shift`: `(xp, yp)` -/
def estimateShift (lsq : Lsq K) (img ref : List (K × K)) (searchrad pscale : K) : K × K :=
  let e := estimateShiftFull lsq img ref searchrad pscale
  (e.x, e.y)

end
end TW
