import Model.LinAlg
/-!
Model of the overlap-driven ordering helpers of `tweakwcs.imalign`
(`overlap_matrix`, `_max_overlap_pair`, `_max_overlap_image`) and of the group-formation loop of
`align_wcs`, Mathlib-free and generic over the scalar type of the areas.

Images are positions of the input work list (`0 … n-1`).  The results of
`images[p]._guarded_intersection_area(images[q])` enter as **data**: a raw table `g` whose entry
`(p, q)` is the pair `(area, nfailures)` that call returns.  A malformed polygon is modelled as the
code treats it: whatever area the guarded call returns (0 for the failed piece) is used as the
overlap, and a positive failure count only switches on a log warning (`warn`).
-/
namespace TW
section
variable {K : Type} [LT K] [DecidableLT K] [Add K] [NatCast K]

/-- raw guarded result `(area, nfailures)` of the call `images[p]._guarded_intersection_area(images[q])` -/
def gentry (g : List (List (K × Nat))) (p q : Nat) : K × Nat := (g.getD p []).getD q (zeroK, 0)

/-- `m[i, j]` -/
def entry (m : List (List K)) (i j : Nat) : K := (m.getD i []).getD j zeroK

/-- `overlap_matrix(images)`: zeros, then for `i < j` one call `images[i]._guarded…(images[j])`
whose area is stored at `(i, j)` and `(j, i)` -/
def overlapMatrix (n : Nat) (g : List (List (K × Nat))) : List (List K) :=
  (List.range n).map fun i => (List.range n).map fun j =>
    if i < j then (gentry g i j).1 else if j < i then (gentry g j i).1 else zeroK

/-- `n_malformed` of `overlap_matrix` -/
def nMalformed (n : Nat) (g : List (List (K × Nat))) : Nat :=
  ((List.range n).map fun i => (((List.range n).filter fun j => i < j).map fun j => (gentry g i j).2).sum).sum

/-- scan of `np.argmax`: the running best is replaced only by a strictly larger value -/
def argmaxAux : List K → Nat → Nat → K → Nat
  | [], _, bi, _ => bi
  | x :: xs, k, bi, bv => if bv < x then argmaxAux xs (k + 1) k x else argmaxAux xs (k + 1) bi bv

/-- `np.argmax(l)`: index of the first maximum (0 on the empty list, where numpy raises; the
callers never pass one) -/
def argmaxFirst : List K → Nat
  | [] => 0
  | x :: xs => argmaxAux xs 1 0 x

/-- `np.sum` of a row -/
def sumK (l : List K) : K := l.foldl (· + ·) zeroK

def rowOf (m : List (List K)) (i : Nat) : List K := m.getD i []
def colOf (m : List (List K)) (j : Nat) : List K := m.map fun r => r.getD j zeroK

/-- insertion into an ascending list *before* the first element that is not smaller: together
with `sortAsc` this is a stable ascending sort (equal keys keep their original order), which is
what `np.argsort` does for short arrays on builds without SIMD sort dispatch -/
def insAsc {α : Type} (x : K × α) : List (K × α) → List (K × α)
  | [] => [x]
  | y :: ys => if y.1 < x.1 then y :: insAsc x ys else x :: y :: ys

def sortAsc {α : Type} : List (K × α) → List (K × α)
  | [] => []
  | x :: xs => insAsc x (sortAsc xs)

/-- `[images[k] for k in np.argsort(row)[::-1]]` on the parallel lists `row`, `images` -/
def sortDesc {α : Type} (row : List K) (images : List α) : List α :=
  ((sortAsc (row.zip images)).reverse).map (·.2)

/-- the indices chosen by `_max_overlap_pair` in its matrix branch:
`(i, j, j')` = reference index, index of the other image, the latter adjusted for the first pop -/
def pairIndices (n : Nat) (m : List (List K)) : Nat × Nat × Nat :=
  let idx := argmaxFirst m.flatten
  let i0 := idx / n
  let j0 := idx % n
  let si := sumK (rowOf m i0)
  let sj := sumK (colOf m j0)
  let ij : Nat × Nat := if si < sj then (j0, i0) else (i0, j0)
  let i := ij.1
  let j := ij.2
  (i, j, if i < j then j - 1 else j)

inductive OvErr where
  | indexError          -- `list.pop` / indexing out of range
  deriving Repr, DecidableEq

structure PairResult (K : Type) where
  ref : Option Nat      -- position (in the input list) of the returned reference image
  im : Option Nat       -- position of the returned second image
  area : Option K       -- returned overlap area
  rest : List Nat       -- the work list after the call (input positions, in order)
  warn : Bool           -- "MalformedPolygonError … order may be sub-optimal" was logged

/-- matrix branch of `_max_overlap_pair` (`nimg ≥ 3`, order not enforced), on a computed matrix -/
def pairCore (n : Nat) (m : List (List K)) (warn : Bool) : Except OvErr (PairResult K) :=
  let (i, j, j') := pairIndices n m
  let area := entry m i j                      -- `overlap_area = m[i, j]`, before `j -= 1`
  let images := List.range n
  match images[i]? with
  | none => .error .indexError
  | some im1 =>
    let images1 := images.eraseIdx i           -- `im1 = images.pop(i)`
    match images1[j']? with
    | none => .error .indexError
    | some im2 =>
      let images2 := images1.eraseIdx j'       -- `im2 = images.pop(j)`
      let row := ((rowOf m i).eraseIdx i).eraseIdx j'   -- `np.delete` twice
      .ok { ref := some im1, im := some im2, area := some area,
            rest := sortDesc row images2, warn := warn }

/-- `_max_overlap_pair(images, enforce_user_order)` for a work list of `n` images -/
def maxOverlapPair (enforce : Bool) (n : Nat) (g : List (List (K × Nat))) :
    Except OvErr (PairResult K) :=
  if n = 0 then .ok { ref := none, im := none, area := none, rest := [], warn := false }
  else if n = 1 then
    -- `return images[0], None, None`: nothing is popped
    .ok { ref := some 0, im := none, area := none, rest := [0], warn := false }
  else if n = 2 ∨ enforce then
    -- two pops from the front, then the area of exactly that pair (failure count ignored)
    .ok { ref := some 0, im := some 1, area := some (gentry g 0 1).1,
          rest := ((List.range n).eraseIdx 0).eraseIdx 0, warn := false }
  else
    pairCore n (overlapMatrix n g) (decide (0 < nMalformed n g))

structure NextResult (K : Type) where
  idx : Nat             -- position of the returned image
  area : K
  rest : List Nat
  warn : Bool

/-- `_max_overlap_image(refimage, images, enforce_user_order)`; `gl[k]` is the guarded result of
`refimage._guarded_intersection_area(images[k])`.  `none` is the `(None, None)` return. -/
def maxOverlapImage (enforce : Bool) (gl : List (K × Nat)) : Option (NextResult K) :=
  let n := gl.length
  if n = 0 then none
  else if enforce then
    some { idx := 0, area := (gl.getD 0 (zeroK, 0)).1, rest := (List.range n).eraseIdx 0, warn := false }
  else
    let areas := gl.map (·.1)
    let idx := argmaxFirst areas
    some { idx := idx, area := areas.getD idx zeroK, rest := (List.range n).eraseIdx idx,
           warn := decide (0 < (gl.map (·.2)).sum) }
end

/-! ### group formation of `align_wcs` (the loop that builds `wcs_gcat`) -/
section
variable {G : Type} [DecidableEq G]

/-- `grouped_images[g]`: positions of all images carrying group id `g`, in input order -/
def membersOf (g : G) (l : List (Option G)) : List Nat :=
  (List.range l.length).filter fun k => l[k]? == some (some g)

/-- the loop over `wcs_im_cats`: an ungrouped image is a group of its own at its position; a
group id still present in the dictionary is popped and yields the group of all its members;
a group id met again yields nothing -/
def formGroupsGo (all : List (Option G)) : List (Option G) → Nat → List G → List (List Nat)
  | [], _, _ => []
  | none :: t, k, seen => [k] :: formGroupsGo all t (k + 1) seen
  | some g :: t, k, seen =>
      if g ∈ seen then formGroupsGo all t (k + 1) seen
      else membersOf g all :: formGroupsGo all t (k + 1) (g :: seen)

def formGroups (l : List (Option G)) : List (List Nat) := formGroupsGo l l 0 []
end
end TW
