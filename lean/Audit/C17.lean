import Proofs.C17
#print axioms TW.C17.inv_correct
#print axioms TW.C17.inv_singular
#print axioms TW.C17.inv_total
#print axioms TW.C17.inv_total_correct
#print axioms TW.C17.inv_singular_exit
#print axioms TW.C17.inv_unique
#print axioms TW.C17.nonsquare_error
#print axioms TW.C17.too_few_points_general
#print axioms TW.C17.too_few_points_shift
#print axioms TW.C17.collinear_normal_singular
#print axioms TW.C17.collinear_general_singular
#print axioms TW.C17.collinear_general_raises_singular
#print axioms TW.C17.coincident_general_singular
#print axioms TW.C17.coincident_general_raises_singular
#print axioms TW.C17.noncollinear_general_returns
