import Proofs.C13
#print axioms TW.C13.status_total
#print axioms TW.C13.reference_iff
#print axioms TW.C13.group_shares
#print axioms TW.C13.corrected_once
#print axioms TW.C13.unchanged_if_not_success
#print axioms TW.C13.not_enough_iff
#print axioms TW.C13.raises_before_any_change
