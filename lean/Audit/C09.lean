import Proofs.C09
#print axioms TW.C09.zero_weight_irrelevant
#print axioms TW.C09.wmask_spec
#print axioms TW.C09.harmonic
#print axioms TW.C09.fitters_use_harmonic
#print axioms TW.C09.wmask_harmonic
#print axioms TW.C09.harmonic_explicit
#print axioms TW.C09.group_weights_follow_images
#print axioms TW.C09.weights_follow_pairs
#print axioms TW.C09.image_weight_reaches_pair
