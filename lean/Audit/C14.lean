import Proofs.C14
#print axioms TW.C14.refcat_prefix
#print axioms TW.C14.table_rows_unchanged
#print axioms TW.C14.appended_sound
#print axioms TW.C14.appended_rows_unmatched_once
#print axioms TW.C14.fresh_ids
#print axioms TW.C14.initial_nonempty
#print axioms TW.C14.no_expand_no_growth
#print axioms TW.C14.failed_group_appended_only_without_overlap
#print axioms TW.C14.aligned_image_agrees_with_reference
#print axioms TW.C14.aligned_images_agree_fits
#print axioms TW.C14.aligned_images_agree_mixed
