import Proofs.C10
#print axioms TW.C10.fitters_reachable
#print axioms TW.C10.decomposition
#print axioms TW.C10.decomposition_needs_reachable
#print axioms TW.C10.scales_positive
#print axioms TW.C10.buildFitMatrix_inverse
#print axioms TW.C10.buildFitMatrix_inverse_general
#print axioms TW.C10.buildFitMatrix_inverse_similarity
#print axioms TW.C10.skew_wrap
#print axioms TW.C10.mean_scale
#print axioms TW.C10.mean_rot
#print axioms TW.C10.proper_iff
#print axioms TW.C10.angle_ranges
#print axioms TW.C10.stats_recomputable_unweighted
#print axioms TW.C10.stats_recomputable_weighted
#print axioms TW.C10.stats_nan_iff
#print axioms TW.C10.stats_weight_scale_invariant
#print axioms TW.C10.residual_identity
