import Proofs.C01
#print axioms TW.C01.recentre
#print axioms TW.C01.gwcs_reported_is_applied
#print axioms TW.C01.gwcs_landing
#print axioms TW.C01.gwcs_reported_is_applied_own
#print axioms TW.C01.gwcs_landing_own
#print axioms TW.C01.fits_reported_is_applied
#print axioms TW.C01.fits_landing
#print axioms TW.C01.fits_reported_is_applied_own
#print axioms TW.C01.gwcs_residuals_agree
#print axioms TW.C01.fits_residuals_agree
