import Proofs.C20
#print axioms TW.C20.shoelace_is_det
#print axioms TW.C20.pixel_area_is_abs_det
#print axioms TW.C20.pixel_scale_is_sqrt_abs_det
#print axioms TW.C20.shoelace_affine_comp
#print axioms TW.C20.gwcs_follows_rescaling
#print axioms TW.C20.fits_scale_unchanged
#print axioms TW.C20.fits_centre_is_tangent_point
#print axioms TW.C20.gwcs_centre_is_tangent_point
