import Proofs.C15
#print axioms TW.C15.overlap_matrix_wellformed
#print axioms TW.C15.pair_of_raw
#print axioms TW.C15.pair_total
#print axioms TW.C15.pair_is_argmax
#print axioms TW.C15.reference_has_larger_total
#print axioms TW.C15.pair_area_is_pairs
#print axioms TW.C15.rest_perm
#print axioms TW.C15.pair_removes_exactly_two
#print axioms TW.C15.rest_sorted_desc
#print axioms TW.C15.rest_ties_reversed
#print axioms TW.C15.next_is_argmax
#print axioms TW.C15.next_area_is_its
#print axioms TW.C15.next_removes_exactly_one
#print axioms TW.C15.next_none_iff
#print axioms TW.C15.user_order_pair
#print axioms TW.C15.user_order_next
#print axioms TW.C15.user_order_groups
