import Proofs.C11
#print axioms TW.C11.spec_matcher_exact
#print axioms TW.C11.histogram_offset_error
#print axioms TW.C11.orientation
#print axioms TW.C11.empty_rejected
#print axioms TW.C11.perm_equivariant
