import Proofs.C02
#print axioms TW.C02.gwcs_setCorrection_applies
#print axioms TW.C02.gwcs_setCorrection_applies_ref
#print axioms TW.C02.fits_setCorrection_applies
#print axioms TW.C02.fits_setCorrection_applies_ref
#print axioms TW.C02.fits_exact_at_reference_pixel
#print axioms TW.C02.stencil_exact_quartic
#print axioms TW.C02.stencil_exact_affine
#print axioms TW.C02.tp2tp_exact
#print axioms TW.C02.gwcs_old_plane_applies_twice
