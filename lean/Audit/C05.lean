import Proofs.C05
#print axioms TW.C05.fits_group_rigid
#print axioms TW.C05.fits_relative_geometry
#print axioms TW.C05.gwcs_group_rigid
#print axioms TW.C05.ref_plane_independent
#print axioms TW.C05.fits_same_result_in_any_plane
