import Proofs.C12
#print axioms TW.C12.bin_of_shift
#print axioms TW.C12.single_bin_estimate
#print axioms TW.C12.no_pairs_zero
#print axioms TW.C12.peak_in_bounds
#print axioms TW.C12.peak_near_max
#print axioms TW.C12.estimate_in_peak_box
#print axioms TW.C12.bad_box_rejected
#print axioms TW.C12.paraboloid_vertex
#print axioms TW.C12.paraboloid_vertex_lstsq
