import Proofs.C04
#print axioms TW.C04.combine_id
#print axioms TW.C04.combine_combine
#print axioms TW.C04.gwcs_id_correction
#print axioms TW.C04.gwcs_compose_own_plane
#print axioms TW.C04.gwcs_compose_ref_plane
#print axioms TW.C04.gwcs_inverse_restores
#print axioms TW.C04.gwcs_rewrap_bisim
#print axioms TW.C04.count_insertAt
#print axioms TW.C04.filter_insertAt
#print axioms TW.C04.gwcs_one_corr_frame
#print axioms TW.C04.gwcs_frames_valid
#print axioms TW.C04.gwcs_history_frames_valid
#print axioms TW.C04.skyCorr_comp
#print axioms TW.C04.fits_compose_ref_plane
#print axioms TW.C04.fits_compose_own_plane
#print axioms TW.C04.fits_id_correction
#print axioms TW.C04.fits_inverse_restores
