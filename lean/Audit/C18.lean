import Proofs.C18
#print axioms TW.C18.frame_fits
#print axioms TW.C18.frame_fits_run
#print axioms TW.C18.twins_maps
#print axioms TW.C18.twins_setCorrection
#print axioms TW.C18.twins_step
#print axioms TW.C18.cd_pc_twins
#print axioms TW.C18.cd_of_pc_twins
#print axioms TW.C18.reject_missing
#print axioms TW.C18.reject_non_celestial
#print axioms TW.C18.accept_iff
