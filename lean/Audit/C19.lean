import Proofs.C19
#print axioms TW.C19.frame_condition
#print axioms TW.C19.caller_data_untouched
#print axioms TW.C19.caller_data_untouched_named
#print axioms TW.C19.catalog_and_original_wcs_untouched
#print axioms TW.C19.deterministic
#print axioms TW.C19.pure_repeat
#print axioms TW.C19.no_leak
#print axioms TW.C19.leak_nil_iff
#print axioms TW.C19.copy_independent
