import Proofs.C06
#print axioms TW.C06.weights_modes
#print axioms TW.C06.weights_harmonic
#print axioms TW.C06.fitShifts_optimal
#print axioms TW.C06.fitGeneral_optimal
#print axioms TW.C06.exact_recovery_shift
#print axioms TW.C06.exact_recovery_general
#print axioms TW.C06.similarity_families
#print axioms TW.C06.fitRscale_optimal
#print axioms TW.C06.fitRscale_fixed_optimal
#print axioms TW.C06.fitRshift_optimal
#print axioms TW.C06.exact_recovery_rscale
#print axioms TW.C06.exact_recovery_rshift
#print axioms TW.C06.exact_recovery_rscale_proper
#print axioms TW.C06.exact_recovery_rshift_proper
