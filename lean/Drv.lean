import Drv.Util
import Drv.C17
import Drv.Corr
