import Drv.Util
import Drv.C17
