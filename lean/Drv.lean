import Drv.Util
import Drv.C17
import Drv.Corr
import Drv.C10
import Drv.C16
import Drv.C06
import Drv.C07
import Drv.C09
