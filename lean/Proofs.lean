import Proofs.Basic
import Proofs.InvCorrect
import Proofs.HullMain
import Proofs.FitGeneral
import Proofs.RscaleOpt
import Proofs.C17
