import Model.Basic
import Model.LinAlg
import Model.Hull
import Model.Fit
import Model.Aff
import Model.Corrector
import Model.BuildFit
