import Mathlib.Analysis.SpecialFunctions.Complex.Arg
import Mathlib.Analysis.SpecialFunctions.Trigonometric.Angle
import Mathlib.Algebra.Order.Archimedean.Real.Basic
import Mathlib.Analysis.Real.Sqrt
import Mathlib.Tactic.Ring
import Mathlib.Tactic.Linarith
import Mathlib.Tactic.FieldSimp
import Mathlib.Tactic.Positivity
import Mathlib.Tactic.SplitIfs
import Model.BuildFit
import Proofs.Trig
import Proofs.LeastSquares

/-!
Helper lemmas for C10 (`Proofs/C10.lean`): the degree-valued `atan2`, `np.mod(·, 360)`,
the pieces of `_build_fit`, and the sums of `_compute_stat`, all at `K = ℝ`.
-/
open TW
set_option linter.unusedSectionVars false

namespace TW

/-- `np.floor` on the reals -/
noncomputable instance : HasFloorK ℝ := ⟨fun x => ((⌊x⌋ : ℤ) : ℝ)⟩

@[simp] theorem k180_eq : (k180 : ℝ) = 180 := by simp [k180]
@[simp] theorem k360_eq : (k360 : ℝ) = 360 := by simp [k360]
@[simp] theorem twoK_eq : (twoKB : ℝ) = 2 := by simp [twoKB]

/-! ### `arctan2` in degrees -/

theorem atan2deg_eq (y x : ℝ) : HasTrig.atan2deg y x = Complex.arg ⟨x, y⟩ * 180 / Real.pi := rfl
theorem cosdeg_eq (t : ℝ) : HasTrig.cosdeg t = Real.cos (t * Real.pi / 180) := rfl
theorem sindeg_eq (t : ℝ) : HasTrig.sindeg t = Real.sin (t * Real.pi / 180) := rfl

theorem ne_zero_of_sq {x y r : ℝ} (hr : 0 < r) (h : x * x + y * y = r * r) : x ≠ 0 ∨ y ≠ 0 := by
  by_contra hc
  push Not at hc
  rw [hc.1, hc.2] at h
  have : 0 < r * r := mul_pos hr hr
  linarith

/-- cosine of the angle returned by `arctan2(y, x)` when `x² + y² = r²` -/
theorem cosdeg_atan2deg {x y r : ℝ} (hr : 0 < r) (h : x * x + y * y = r * r) :
    HasTrig.cosdeg (HasTrig.atan2deg y x) = x / r := by
  rw [cosdeg_eq, atan2deg_eq, deg_arg, Complex.cos_arg (mk_ne_zero (ne_zero_of_sq hr h)), norm_mk, h,
    Real.sqrt_mul_self hr.le]

theorem sindeg_atan2deg {x y r : ℝ} (hr : 0 < r) (h : x * x + y * y = r * r) :
    HasTrig.sindeg (HasTrig.atan2deg y x) = y / r := by
  rw [sindeg_eq, atan2deg_eq, deg_arg, Complex.sin_arg, norm_mk, h, Real.sqrt_mul_self hr.le]

/-- `-π < arctan2 ≤ π` in degrees -/
theorem atan2deg_range (y x : ℝ) :
    -180 < (HasTrig.atan2deg y x : ℝ) ∧ (HasTrig.atan2deg y x : ℝ) ≤ 180 := by
  rw [atan2deg_eq]
  have hp := Real.pi_pos
  have h1 := Complex.neg_pi_lt_arg (⟨x, y⟩ : ℂ)
  have h2 := Complex.arg_le_pi (⟨x, y⟩ : ℂ)
  constructor
  · rw [lt_div_iff₀ hp]; nlinarith
  · rw [div_le_iff₀ hp]; nlinarith

/-- `arctan2(r sin t, r cos t) ≡ t (mod 360)` for `r > 0` -/
theorem atan2deg_polar {r : ℝ} (hr : 0 < r) (t : ℝ) :
    ∃ k : ℤ, (HasTrig.atan2deg (r * HasTrig.sindeg t) (r * HasTrig.cosdeg t) : ℝ) = t + 360 * k := by
  have hsq : (r * HasTrig.cosdeg t) * (r * HasTrig.cosdeg t)
      + (r * HasTrig.sindeg t) * (r * HasTrig.sindeg t) = r * r := by
    rw [cosdeg_eq, sindeg_eq]
    have := Real.sin_sq_add_cos_sq (t * Real.pi / 180)
    nlinarith
  have hc := cosdeg_atan2deg hr hsq
  have hs := sindeg_atan2deg hr hsq
  have e : ∀ c : ℝ, r * c / r = c := fun c => by field_simp
  rw [e] at hc hs
  set A : ℝ := HasTrig.atan2deg (r * HasTrig.sindeg t) (r * HasTrig.cosdeg t) with hA
  have hc' : Real.cos (A * Real.pi / 180) = Real.cos (t * Real.pi / 180) := hc
  have hs' : Real.sin (A * Real.pi / 180) = Real.sin (t * Real.pi / 180) := hs
  obtain ⟨k, hk⟩ := Real.Angle.angle_eq_iff_two_pi_dvd_sub.mp (Real.Angle.cos_sin_inj hc' hs')
  refine ⟨k, ?_⟩
  have hp := Real.pi_ne_zero
  field_simp at hk
  linarith

/-! ### `np.mod(·, 360)` and the skew wrap -/

theorem mod360_eq (a : ℝ) : mod360 a = a - ((⌊a / 360⌋ : ℤ) : ℝ) * 360 := by
  simp [mod360, HasFloorK.floor]

theorem mod360_range (a : ℝ) : 0 ≤ mod360 a ∧ mod360 a < 360 := by
  rw [mod360_eq]
  have h1 := Int.floor_le (a / 360)
  have h2 := Int.lt_floor_add_one (a / 360)
  rw [le_div_iff₀ (by norm_num)] at h1
  rw [div_lt_iff₀ (by norm_num)] at h2
  constructor <;> linarith

theorem skewWrap_congr (rx ry : ℝ) : ∃ k : ℤ, skewWrap rx ry = ry - rx + 360 * k := by
  refine ⟨-⌊(ry - rx - 180) / 360⌋ - 1, ?_⟩
  simp only [skewWrap, mod360_eq, k180_eq]
  push_cast
  ring

theorem skewWrap_range (rx ry : ℝ) : -180 ≤ skewWrap rx ry ∧ skewWrap rx ry < 180 := by
  have := mod360_range (ry - rx - k180)
  simp only [skewWrap, k180_eq] at *
  constructor <;> linarith

/-! ### sign, properness, scales -/

theorem signK_pos {d : ℝ} (h : 0 < d) : signK d = 1 := by
  unfold signK
  rw [if_neg (by simpa using h.le), if_pos (by simpa using h)]
  simp

theorem signK_neg {d : ℝ} (h : d < 0) : signK d = -1 := by
  unfold signK
  rw [if_pos (by simpa using h)]
  simp

theorem properOf_signK {d : ℝ} (hd : d ≠ 0) : properOf (signK d) = true ↔ 0 < d := by
  rcases lt_or_gt_of_ne hd with h | h
  · rw [signK_neg h]
    simp [properOf, not_lt.mpr h.le]
  · rw [signK_pos h]
    simp [properOf, h]

theorem meanScale_eq (d : ℝ) : meanScale d = Real.sqrt |d| := by
  unfold meanScale
  rw [absK_eq]
  rfl

theorem meanScale_pos {d : ℝ} (hd : d ≠ 0) : 0 < meanScale d := by
  rw [meanScale_eq]
  exact Real.sqrt_pos.mpr (abs_pos.mpr hd)

theorem meanScale_sq (d : ℝ) : meanScale d * meanScale d = |d| := by
  rw [meanScale_eq]
  exact Real.mul_self_sqrt (abs_nonneg d)

theorem sqrt_sq_pos {a b : ℝ} (h : a ≠ 0 ∨ b ≠ 0) :
    0 < Real.sqrt (a * a + b * b) ∧ a * a + b * b = Real.sqrt (a * a + b * b) * Real.sqrt (a * a + b * b) := by
  have hnn : 0 ≤ a * a + b * b := add_nonneg (mul_self_nonneg a) (mul_self_nonneg b)
  exact ⟨hyp_pos h, (Real.mul_self_sqrt hnn).symm⟩

/-! ### the three `arctan2` calls of `_build_fit` on a column of length `s` -/

/-- `rotx` recovers the first column `(a, b) = (p0, q0)` of the matrix -/
theorem rotX_decomp {a b s : ℝ} (hs : 0 < s) (h : a * a + b * b = s * s) :
    s * HasTrig.cosdeg (rotXOf (a / s) (b / s)) = a ∧
    (-s) * HasTrig.sindeg (rotXOf (a / s) (b / s)) = b := by
  have h1 : (a / s) * (a / s) + (-(b / s)) * (-(b / s)) = (1 : ℝ) * 1 := by
    field_simp
    linarith
  unfold rotXOf
  rw [cosdeg_atan2deg one_pos h1, sindeg_atan2deg one_pos h1]
  constructor <;> field_simp

/-- `roty` recovers the second column `(a, b) = (p1, q1)` of the matrix -/
theorem rotY_decomp {a b s : ℝ} (hs : 0 < s) (h : a * a + b * b = s * s) :
    s * HasTrig.sindeg (rotYOf (a / s) (b / s)) = a ∧
    s * HasTrig.cosdeg (rotYOf (a / s) (b / s)) = b := by
  have h1 : (b / s) * (b / s) + (a / s) * (a / s) = (1 : ℝ) * 1 := by
    field_simp
    linarith
  unfold rotYOf
  rw [cosdeg_atan2deg one_pos h1, sindeg_atan2deg one_pos h1]
  constructor <;> field_simp

/-- `prop_rot` of a proper similarity `[[a, b], [-b, a]]` with `a² + b² = s²` -/
theorem propRot_decomp {a b s : ℝ} (hs : 0 < s) (h : a * a + b * b = s * s) :
    s * HasTrig.cosdeg (propRot 1 (a / s) (b / s) (-b / s) (a / s)) = a ∧
    s * HasTrig.sindeg (propRot 1 (a / s) (b / s) (-b / s) (a / s)) = b := by
  have h1 : (a / s + 1 * (a / s)) * (a / s + 1 * (a / s))
      + (b / s - 1 * (-b / s)) * (b / s - 1 * (-b / s)) = (2 : ℝ) * 2 := by
    field_simp
    linarith
  unfold propRot
  rw [cosdeg_atan2deg two_pos h1, sindeg_atan2deg two_pos h1]
  constructor <;> field_simp <;> ring

/-! ### `anglesOf`: relations that hold in every branch -/

theorem singleAngle_general (b : Bool) : singleAngle .general b = false := by cases b <;> rfl
theorem singleAngle_shift (b : Bool) : singleAngle .shift b = false := by cases b <;> rfl
theorem singleAngle_false (g : FitGeom) : singleAngle g false = false := rfl
theorem singleAngle_rscale : singleAngle .rscale true = true := rfl
theorem singleAngle_rshift : singleAngle .rshift true = true := rfl

theorem anglesOf_single {g : FitGeom} {pr : Bool} (h : singleAngle g pr = true) (prot w00 w01 w10 w11 : ℝ) :
    anglesOf g pr prot w00 w01 w10 w11 = (prot, prot, prot, 0) := by
  unfold anglesOf
  rw [if_pos h, zeroK_eq]

theorem anglesOf_pair {g : FitGeom} {pr : Bool} (h : singleAngle g pr = false) (prot w00 w01 w10 w11 : ℝ) :
    anglesOf g pr prot w00 w01 w10 w11 =
      (rotXOf w00 w10, rotYOf w01 w11, 1 / 2 * (rotXOf w00 w10 + rotYOf w01 w11),
       skewWrap (rotXOf w00 w10) (rotYOf w01 w11)) := by
  unfold anglesOf
  rw [if_neg (by simp [h])]
  simp

theorem anglesOf_mean (g : FitGeom) (pr : Bool) (prot w00 w01 w10 w11 : ℝ) :
    (anglesOf g pr prot w00 w01 w10 w11).2.2.1 =
      ((anglesOf g pr prot w00 w01 w10 w11).1 + (anglesOf g pr prot w00 w01 w10 w11).2.1) / 2 := by
  cases h : singleAngle g pr
  · rw [anglesOf_pair h]; ring
  · rw [anglesOf_single h]; ring

theorem anglesOf_skew (g : FitGeom) (pr : Bool) (prot w00 w01 w10 w11 : ℝ) :
    (∃ k : ℤ, (anglesOf g pr prot w00 w01 w10 w11).2.2.2 =
      (anglesOf g pr prot w00 w01 w10 w11).2.1 - (anglesOf g pr prot w00 w01 w10 w11).1 + 360 * k) ∧
    -180 ≤ (anglesOf g pr prot w00 w01 w10 w11).2.2.2 ∧ (anglesOf g pr prot w00 w01 w10 w11).2.2.2 < 180 := by
  cases h : singleAngle g pr
  · rw [anglesOf_pair h]
    exact ⟨skewWrap_congr _ _, skewWrap_range _ _⟩
  · rw [anglesOf_single h]
    refine ⟨⟨0, by simp⟩, by norm_num, by norm_num⟩

theorem anglesOf_range (g : FitGeom) (pr : Bool) (prot w00 w01 w10 w11 : ℝ)
    (hp : -180 < prot ∧ prot ≤ 180) :
    (-180 < (anglesOf g pr prot w00 w01 w10 w11).1 ∧ (anglesOf g pr prot w00 w01 w10 w11).1 ≤ 180) ∧
    (-180 < (anglesOf g pr prot w00 w01 w10 w11).2.1 ∧ (anglesOf g pr prot w00 w01 w10 w11).2.1 ≤ 180) ∧
    (-180 < (anglesOf g pr prot w00 w01 w10 w11).2.2.1 ∧ (anglesOf g pr prot w00 w01 w10 w11).2.2.1 ≤ 180) := by
  cases h : singleAngle g pr
  · rw [anglesOf_pair h]
    have hx := atan2deg_range (-w10) w00
    have hy := atan2deg_range w01 w11
    refine ⟨hx, hy, ?_, ?_⟩ <;> simp only [rotXOf, rotYOf] <;> linarith [hx.1, hx.2, hy.1, hy.2]
  · rw [anglesOf_single h]
    exact ⟨hp, hp, hp⟩

/-! ### unfolding `buildFit` -/

theorem buildFit_shift (p0 p1 p2 q0 q1 q2 : ℝ) :
    buildFit .shift p0 p1 p2 q0 q1 q2 =
      { m00 := p0, m01 := p1, m10 := q0, m11 := q1, shx := p2, shy := q2
        proper := properOf (signK (det2 p0 p1 q0 q1))
        properRot := 0, rotx := 0, roty := 0, rot := 0, sx := 1, sy := 1, s := 1, skew := 0 } := by
  simp [buildFit]

/-- the scale-free working copy and the angles, for every geometry but 'shift' -/
theorem buildFit_ne_shift {g : FitGeom} (hg : g ≠ .shift) (p0 p1 p2 q0 q1 q2 : ℝ) :
    buildFit g p0 p1 p2 q0 q1 q2 =
      { m00 := p0, m01 := p1, m10 := q0, m11 := q1, shx := p2, shy := q2
        proper := properOf (signK (det2 p0 p1 q0 q1))
        properRot := propRot (signK (det2 p0 p1 q0 q1))
          (p0 / (axisScales g p0 p1 q0 q1 (meanScale (det2 p0 p1 q0 q1))).1)
          (p1 / (axisScales g p0 p1 q0 q1 (meanScale (det2 p0 p1 q0 q1))).2)
          (q0 / (axisScales g p0 p1 q0 q1 (meanScale (det2 p0 p1 q0 q1))).1)
          (q1 / (axisScales g p0 p1 q0 q1 (meanScale (det2 p0 p1 q0 q1))).2)
        rotx := (anglesOf g (properOf (signK (det2 p0 p1 q0 q1)))
          (propRot (signK (det2 p0 p1 q0 q1))
            (p0 / (axisScales g p0 p1 q0 q1 (meanScale (det2 p0 p1 q0 q1))).1)
            (p1 / (axisScales g p0 p1 q0 q1 (meanScale (det2 p0 p1 q0 q1))).2)
            (q0 / (axisScales g p0 p1 q0 q1 (meanScale (det2 p0 p1 q0 q1))).1)
            (q1 / (axisScales g p0 p1 q0 q1 (meanScale (det2 p0 p1 q0 q1))).2))
          (p0 / (axisScales g p0 p1 q0 q1 (meanScale (det2 p0 p1 q0 q1))).1)
          (p1 / (axisScales g p0 p1 q0 q1 (meanScale (det2 p0 p1 q0 q1))).2)
          (q0 / (axisScales g p0 p1 q0 q1 (meanScale (det2 p0 p1 q0 q1))).1)
          (q1 / (axisScales g p0 p1 q0 q1 (meanScale (det2 p0 p1 q0 q1))).2)).1
        roty := (anglesOf g (properOf (signK (det2 p0 p1 q0 q1)))
          (propRot (signK (det2 p0 p1 q0 q1))
            (p0 / (axisScales g p0 p1 q0 q1 (meanScale (det2 p0 p1 q0 q1))).1)
            (p1 / (axisScales g p0 p1 q0 q1 (meanScale (det2 p0 p1 q0 q1))).2)
            (q0 / (axisScales g p0 p1 q0 q1 (meanScale (det2 p0 p1 q0 q1))).1)
            (q1 / (axisScales g p0 p1 q0 q1 (meanScale (det2 p0 p1 q0 q1))).2))
          (p0 / (axisScales g p0 p1 q0 q1 (meanScale (det2 p0 p1 q0 q1))).1)
          (p1 / (axisScales g p0 p1 q0 q1 (meanScale (det2 p0 p1 q0 q1))).2)
          (q0 / (axisScales g p0 p1 q0 q1 (meanScale (det2 p0 p1 q0 q1))).1)
          (q1 / (axisScales g p0 p1 q0 q1 (meanScale (det2 p0 p1 q0 q1))).2)).2.1
        rot := (anglesOf g (properOf (signK (det2 p0 p1 q0 q1)))
          (propRot (signK (det2 p0 p1 q0 q1))
            (p0 / (axisScales g p0 p1 q0 q1 (meanScale (det2 p0 p1 q0 q1))).1)
            (p1 / (axisScales g p0 p1 q0 q1 (meanScale (det2 p0 p1 q0 q1))).2)
            (q0 / (axisScales g p0 p1 q0 q1 (meanScale (det2 p0 p1 q0 q1))).1)
            (q1 / (axisScales g p0 p1 q0 q1 (meanScale (det2 p0 p1 q0 q1))).2))
          (p0 / (axisScales g p0 p1 q0 q1 (meanScale (det2 p0 p1 q0 q1))).1)
          (p1 / (axisScales g p0 p1 q0 q1 (meanScale (det2 p0 p1 q0 q1))).2)
          (q0 / (axisScales g p0 p1 q0 q1 (meanScale (det2 p0 p1 q0 q1))).1)
          (q1 / (axisScales g p0 p1 q0 q1 (meanScale (det2 p0 p1 q0 q1))).2)).2.2.1
        sx := (axisScales g p0 p1 q0 q1 (meanScale (det2 p0 p1 q0 q1))).1
        sy := (axisScales g p0 p1 q0 q1 (meanScale (det2 p0 p1 q0 q1))).2
        s := meanScale (det2 p0 p1 q0 q1)
        skew := (anglesOf g (properOf (signK (det2 p0 p1 q0 q1)))
          (propRot (signK (det2 p0 p1 q0 q1))
            (p0 / (axisScales g p0 p1 q0 q1 (meanScale (det2 p0 p1 q0 q1))).1)
            (p1 / (axisScales g p0 p1 q0 q1 (meanScale (det2 p0 p1 q0 q1))).2)
            (q0 / (axisScales g p0 p1 q0 q1 (meanScale (det2 p0 p1 q0 q1))).1)
            (q1 / (axisScales g p0 p1 q0 q1 (meanScale (det2 p0 p1 q0 q1))).2))
          (p0 / (axisScales g p0 p1 q0 q1 (meanScale (det2 p0 p1 q0 q1))).1)
          (p1 / (axisScales g p0 p1 q0 q1 (meanScale (det2 p0 p1 q0 q1))).2)
          (q0 / (axisScales g p0 p1 q0 q1 (meanScale (det2 p0 p1 q0 q1))).1)
          (q1 / (axisScales g p0 p1 q0 q1 (meanScale (det2 p0 p1 q0 q1))).2)).2.2.2 } := by
  cases g
  · exact absurd rfl hg
  all_goals rfl

/-! ### the matrices that reach `_build_fit` -/

/-- what the three fitters pass to `_build_fit`: anything for 'general'; a similarity
`[[a, b], [-b, a]]` or a reflected similarity `[[a, b], [b, -a]]` for 'rscale' / 'rshift'
(`fit_rscale`: `p = (cθx, sθy)`, `q = (-sθx, cθy)`); the identity for 'shift' -/
def Reachable (g : FitGeom) (p0 p1 q0 q1 : ℝ) : Prop :=
  match g with
  | .general => True
  | .rscale => (q1 = p0 ∧ q0 = -p1) ∨ (q1 = -p0 ∧ q0 = p1)
  | .rshift => (q1 = p0 ∧ q0 = -p1) ∨ (q1 = -p0 ∧ q0 = p1)
  | .shift => p0 = 1 ∧ p1 = 0 ∧ q0 = 0 ∧ q1 = 1

/-- the model of `fit_rscale` / `fit_rshift` (`Model/Fit.lean`) only produces such matrices -/
theorem rsolve_conformal (scale : Option ℝ) (s : RSums ℝ) (L : Lin ℝ) (h : rsolve scale s = .ok L) :
    (L.m11 = L.m00 ∧ L.m10 = -L.m01) ∨ (L.m11 = -L.m00 ∧ L.m10 = L.m01) := by
  unfold rsolve at h
  simp only [zeroK_eq, oneK_eq] at h
  split at h
  · cases h
  · injection h with h
    subst h
    by_cases hdet : s.sxu * s.syv - s.sxv * s.syu < 0
    · right; simp [hdet]
    · left; simp [hdet]

theorem fitRscale_rsolve (obs : List (Obs ℝ)) (wxy wuv : Option (List ℝ)) (scale : Option ℝ) (L : Lin ℝ)
    (h : fitRscale obs wxy wuv scale = .ok L) : ∃ s, rsolve scale s = .ok L := by
  unfold fitRscale at h
  dsimp only at h
  split_ifs at h
  exact ⟨_, h⟩

theorem fitRscale_reachable (obs : List (Obs ℝ)) (wxy wuv : Option (List ℝ)) (L : Lin ℝ)
    (h : fitRscale obs wxy wuv none = .ok L) : Reachable .rscale L.m00 L.m01 L.m10 L.m11 := by
  obtain ⟨s, hs⟩ := fitRscale_rsolve _ _ _ _ _ h
  exact rsolve_conformal _ _ _ hs

theorem fitRshift_reachable (obs : List (Obs ℝ)) (wxy wuv : Option (List ℝ)) (L : Lin ℝ)
    (h : fitRscale obs wxy wuv (some 1) = .ok L) : Reachable .rshift L.m00 L.m01 L.m10 L.m11 := by
  obtain ⟨s, hs⟩ := fitRscale_rsolve _ _ _ _ _ h
  exact rsolve_conformal _ _ _ hs

theorem fitShifts_reachable (obs : List (Obs ℝ)) (wxy wuv : Option (List ℝ)) (L : Lin ℝ)
    (h : fitShifts obs wxy wuv = .ok L) : Reachable .shift L.m00 L.m01 L.m10 L.m11 := by
  unfold fitShifts at h
  dsimp only at h
  cases hw : combineW wxy wuv with
  | none =>
    rw [hw] at h
    split_ifs at h
    injection h with h
    subst h
    simp [Reachable]
  | some ws =>
    rw [hw] at h
    dsimp only at h
    split_ifs at h
    injection h with h
    subst h
    simp [Reachable]

/-! ### the decomposition identity, branch by branch -/

theorem cosdeg_zero : HasTrig.cosdeg (0 : ℝ) = 1 := by simp [cosdeg_eq]
theorem sindeg_zero : HasTrig.sindeg (0 : ℝ) = 0 := by simp [sindeg_eq]

/-- the statement of the decomposition for one result of `_build_fit` -/
def Decomposes (f : BuiltFit ℝ) (p0 p1 q0 q1 : ℝ) : Prop :=
  f.sx * HasTrig.cosdeg f.rotx = p0 ∧ f.sy * HasTrig.sindeg f.roty = p1 ∧
  (-f.sx) * HasTrig.sindeg f.rotx = q0 ∧ f.sy * HasTrig.cosdeg f.roty = q1

theorem col_ne_zero_left {p0 p1 q0 q1 : ℝ} (hdet : det2 p0 p1 q0 q1 ≠ 0) : p0 ≠ 0 ∨ q0 ≠ 0 := by
  by_contra hc
  push Not at hc
  apply hdet
  simp [det2, hc.1, hc.2]

theorem col_ne_zero_right {p0 p1 q0 q1 : ℝ} (hdet : det2 p0 p1 q0 q1 ≠ 0) : p1 ≠ 0 ∨ q1 ≠ 0 := by
  by_contra hc
  push Not at hc
  apply hdet
  simp [det2, hc.1, hc.2]

theorem decomp_shift (p2 q2 : ℝ) : Decomposes (buildFit .shift 1 0 p2 0 1 q2) 1 0 0 1 := by
  rw [buildFit_shift]
  simp [Decomposes, cosdeg_zero, sindeg_zero]

theorem decomp_general (p0 p1 p2 q0 q1 q2 : ℝ) (hdet : det2 p0 p1 q0 q1 ≠ 0) :
    Decomposes (buildFit .general p0 p1 p2 q0 q1 q2) p0 p1 q0 q1 := by
  rw [buildFit_ne_shift (by decide)]
  unfold Decomposes
  simp only [anglesOf_pair (singleAngle_general _), axisScales]
  obtain ⟨hx, hxx⟩ := sqrt_sq_pos (col_ne_zero_left hdet)
  obtain ⟨hy, hyy⟩ := sqrt_sq_pos (col_ne_zero_right hdet)
  obtain ⟨a1, a2⟩ := rotX_decomp hx hxx
  obtain ⟨b1, b2⟩ := rotY_decomp hy hyy
  exact ⟨a1, b1, a2, b2⟩

/-- proper similarity `[[a, b], [-b, a]]` through the 'rscale' / 'rshift' branch -/
theorem decomp_similarity {g : FitGeom} (hg : g = .rscale ∨ g = .rshift) (a b p2 q2 : ℝ)
    (hdet : det2 a b (-b) a ≠ 0) :
    Decomposes (buildFit g a b p2 (-b) a q2) a b (-b) a := by
  have hD : det2 a b (-b) a = a * a + b * b := by simp only [det2]; ring
  have hpos : 0 < det2 a b (-b) a := by
    rw [hD] at hdet ⊢
    exact lt_of_le_of_ne (add_nonneg (mul_self_nonneg a) (mul_self_nonneg b)) (Ne.symm hdet)
  have hs := meanScale_pos hdet
  have hss : a * a + b * b = meanScale (det2 a b (-b) a) * meanScale (det2 a b (-b) a) := by
    rw [meanScale_sq, abs_of_pos hpos, hD]
  have hsc : axisScales g a b (-b) a (meanScale (det2 a b (-b) a))
      = (meanScale (det2 a b (-b) a), meanScale (det2 a b (-b) a)) := by
    rcases hg with rfl | rfl <;> rfl
  have hsing : singleAngle g (properOf (signK (det2 a b (-b) a))) = true := by
    rw [(properOf_signK hdet).mpr hpos]
    rcases hg with rfl | rfl <;> rfl
  rw [buildFit_ne_shift (by rcases hg with rfl | rfl <;> decide)]
  unfold Decomposes
  have hsg := signK_pos hpos
  rw [hsg] at hsing
  simp only [hsg, anglesOf_single hsing, hsc]
  obtain ⟨c1, c2⟩ := propRot_decomp hs hss
  refine ⟨c1, c2, ?_, c1⟩
  rw [neg_mul, c2]

/-- reflected similarity `[[a, b], [b, -a]]` through the 'rscale' / 'rshift' branch -/
theorem decomp_reflection {g : FitGeom} (hg : g = .rscale ∨ g = .rshift) (a b p2 q2 : ℝ)
    (hdet : det2 a b b (-a) ≠ 0) :
    Decomposes (buildFit g a b p2 b (-a) q2) a b b (-a) := by
  have hD : det2 a b b (-a) = -(a * a + b * b) := by simp only [det2]; ring
  have hneg : det2 a b b (-a) < 0 := by
    rw [hD] at hdet ⊢
    have : 0 ≤ a * a + b * b := add_nonneg (mul_self_nonneg a) (mul_self_nonneg b)
    rcases lt_or_eq_of_le this with h | h
    · linarith
    · exact absurd (by rw [← h]; simp) hdet
  have hs := meanScale_pos hdet
  have hss : a * a + b * b = meanScale (det2 a b b (-a)) * meanScale (det2 a b b (-a)) := by
    rw [meanScale_sq, abs_of_neg hneg, hD]; ring
  have hss' : b * b + (-a) * (-a) = meanScale (det2 a b b (-a)) * meanScale (det2 a b b (-a)) := by
    rw [← hss]; ring
  have hsc : axisScales g a b b (-a) (meanScale (det2 a b b (-a)))
      = (meanScale (det2 a b b (-a)), meanScale (det2 a b b (-a))) := by
    rcases hg with rfl | rfl <;> rfl
  have hprop : properOf (signK (det2 a b b (-a))) = false := by
    cases h : properOf (signK (det2 a b b (-a)))
    · rfl
    · exact absurd ((properOf_signK hdet).mp h) (not_lt.mpr hneg.le)
  rw [buildFit_ne_shift (by rcases hg with rfl | rfl <;> decide)]
  unfold Decomposes
  simp only [hprop, anglesOf_pair (singleAngle_false g), hsc]
  obtain ⟨a1, a2⟩ := rotX_decomp hs hss
  obtain ⟨b1, b2⟩ := rotY_decomp hs hss'
  exact ⟨a1, b1, a2, b2⟩

theorem decomp_all (g : FitGeom) (p0 p1 p2 q0 q1 q2 : ℝ) (hdet : det2 p0 p1 q0 q1 ≠ 0)
    (hr : Reachable g p0 p1 q0 q1) : Decomposes (buildFit g p0 p1 p2 q0 q1 q2) p0 p1 q0 q1 := by
  cases g with
  | general => exact decomp_general _ _ _ _ _ _ hdet
  | shift =>
    obtain ⟨rfl, rfl, rfl, rfl⟩ := hr
    exact decomp_shift _ _
  | rscale =>
    rcases hr with ⟨rfl, rfl⟩ | ⟨rfl, rfl⟩
    · exact decomp_similarity (Or.inl rfl) _ _ _ _ hdet
    · exact decomp_reflection (Or.inl rfl) _ _ _ _ hdet
  | rshift =>
    rcases hr with ⟨rfl, rfl⟩ | ⟨rfl, rfl⟩
    · exact decomp_similarity (Or.inr rfl) _ _ _ _ hdet
    · exact decomp_reflection (Or.inr rfl) _ _ _ _ hdet

/-! ### decomposing a matrix made by `build_fit_matrix` -/

theorem sq_cos_sin (s t : ℝ) :
    s * HasTrig.cosdeg t * (s * HasTrig.cosdeg t) + s * HasTrig.sindeg t * (s * HasTrig.sindeg t) = s * s := by
  rw [cosdeg_eq, sindeg_eq]
  have := Real.sin_sq_add_cos_sq (t * Real.pi / 180)
  nlinarith

/-- 'general': the column scales and both angles come back (angles modulo 360) -/
theorem recompose_general (rx ry sx sy p2 q2 : ℝ) (hsx : 0 < sx) (hsy : 0 < sy) :
    (buildFit .general (sx * HasTrig.cosdeg rx) (sy * HasTrig.sindeg ry) p2
        ((-sx) * HasTrig.sindeg rx) (sy * HasTrig.cosdeg ry) q2).sx = sx ∧
    (buildFit .general (sx * HasTrig.cosdeg rx) (sy * HasTrig.sindeg ry) p2
        ((-sx) * HasTrig.sindeg rx) (sy * HasTrig.cosdeg ry) q2).sy = sy ∧
    (∃ k : ℤ, (buildFit .general (sx * HasTrig.cosdeg rx) (sy * HasTrig.sindeg ry) p2
        ((-sx) * HasTrig.sindeg rx) (sy * HasTrig.cosdeg ry) q2).rotx = rx + 360 * k) ∧
    (∃ k : ℤ, (buildFit .general (sx * HasTrig.cosdeg rx) (sy * HasTrig.sindeg ry) p2
        ((-sx) * HasTrig.sindeg rx) (sy * HasTrig.cosdeg ry) q2).roty = ry + 360 * k) := by
  rw [buildFit_ne_shift (by decide)]
  simp only [anglesOf_pair (singleAngle_general _), axisScales]
  have e1 : sx * HasTrig.cosdeg rx * (sx * HasTrig.cosdeg rx)
      + -sx * HasTrig.sindeg rx * (-sx * HasTrig.sindeg rx) = sx * sx := by
    rw [← sq_cos_sin sx rx]; ring
  have e2 : sy * HasTrig.sindeg ry * (sy * HasTrig.sindeg ry)
      + sy * HasTrig.cosdeg ry * (sy * HasTrig.cosdeg ry) = sy * sy := by
    rw [← sq_cos_sin sy ry]; ring
  have hx : HasSqrt.sqrt (sx * HasTrig.cosdeg rx * (sx * HasTrig.cosdeg rx)
      + -sx * HasTrig.sindeg rx * (-sx * HasTrig.sindeg rx)) = sx := by
    rw [e1]; exact Real.sqrt_mul_self hsx.le
  have hy : HasSqrt.sqrt (sy * HasTrig.sindeg ry * (sy * HasTrig.sindeg ry)
      + sy * HasTrig.cosdeg ry * (sy * HasTrig.cosdeg ry)) = sy := by
    rw [e2]; exact Real.sqrt_mul_self hsy.le
  rw [hx, hy]
  refine ⟨rfl, rfl, ?_, ?_⟩
  · obtain ⟨k, hk⟩ := atan2deg_polar one_pos rx
    refine ⟨k, ?_⟩
    rw [← hk]
    unfold rotXOf
    congr 1 <;> field_simp
  · obtain ⟨k, hk⟩ := atan2deg_polar one_pos ry
    refine ⟨k, ?_⟩
    rw [← hk]
    unfold rotYOf
    congr 1 <;> field_simp

/-- 'rscale' / 'rshift' on `build_fit_matrix(rot, scale)` with scalar arguments -/
theorem recompose_similarity {g : FitGeom} (hg : g = .rscale ∨ g = .rshift) (rot sc p2 q2 : ℝ)
    (hsc : 0 < sc) :
    (buildFit g (sc * HasTrig.cosdeg rot) (sc * HasTrig.sindeg rot) p2
        ((-sc) * HasTrig.sindeg rot) (sc * HasTrig.cosdeg rot) q2).sx = sc ∧
    (buildFit g (sc * HasTrig.cosdeg rot) (sc * HasTrig.sindeg rot) p2
        ((-sc) * HasTrig.sindeg rot) (sc * HasTrig.cosdeg rot) q2).sy = sc ∧
    (buildFit g (sc * HasTrig.cosdeg rot) (sc * HasTrig.sindeg rot) p2
        ((-sc) * HasTrig.sindeg rot) (sc * HasTrig.cosdeg rot) q2).roty =
      (buildFit g (sc * HasTrig.cosdeg rot) (sc * HasTrig.sindeg rot) p2
        ((-sc) * HasTrig.sindeg rot) (sc * HasTrig.cosdeg rot) q2).rotx ∧
    (∃ k : ℤ, (buildFit g (sc * HasTrig.cosdeg rot) (sc * HasTrig.sindeg rot) p2
        ((-sc) * HasTrig.sindeg rot) (sc * HasTrig.cosdeg rot) q2).rotx = rot + 360 * k) := by
  set a := sc * HasTrig.cosdeg rot with ha
  set b := sc * HasTrig.sindeg rot with hb
  have hnb : (-sc) * HasTrig.sindeg rot = -b := by rw [hb]; ring
  rw [hnb]
  have hD : det2 a b (-b) a = sc * sc := by
    simp only [det2]
    rw [← sq_cos_sin sc rot]
    ring
  have hpos : 0 < det2 a b (-b) a := by rw [hD]; exact mul_pos hsc hsc
  have hms : meanScale (det2 a b (-b) a) = sc := by
    rw [meanScale_eq, abs_of_pos hpos, hD]; exact Real.sqrt_mul_self hsc.le
  have hscale : axisScales g a b (-b) a (meanScale (det2 a b (-b) a)) = (sc, sc) := by
    rw [hms]; rcases hg with rfl | rfl <;> rfl
  have hsg := signK_pos hpos
  have hsing : singleAngle g (properOf (1 : ℝ)) = true := by
    rw [← hsg, (properOf_signK hpos.ne').mpr hpos]
    rcases hg with rfl | rfl <;> rfl
  rw [buildFit_ne_shift (by rcases hg with rfl | rfl <;> decide)]
  simp only [hsg, anglesOf_single hsing, hscale]
  refine ⟨trivial, trivial, trivial, ?_⟩
  obtain ⟨k, hk⟩ := atan2deg_polar two_pos rot
  refine ⟨k, ?_⟩
  rw [← hk]
  unfold propRot
  have hne := hsc.ne'
  congr 1
  · rw [hb]; field_simp; ring
  · rw [ha]; field_simp; ring

/-! ### `_compute_stat`: the sums in closed form -/

/-- squared Euclidean normB of a residual -/
def nsq (r : ℝ × ℝ) : ℝ := r.1 ^ 2 + r.2 ^ 2

/-- `Σ_k w_k f(r_k)` over the common prefix of weights and residuals -/
def wsum (w : List ℝ) (res : List (ℝ × ℝ)) (f : ℝ × ℝ → ℝ) : ℝ :=
  ((List.zip w res).map fun p => p.1 * f p.2).sum

/-- plain mean `(1/n) Σ_k f(r_k)` -/
noncomputable def avg (res : List (ℝ × ℝ)) (f : ℝ × ℝ → ℝ) : ℝ := (res.map f).sum / (res.length : ℝ)

theorem norm2_eq (r : ℝ × ℝ) : norm2B r = Real.sqrt (nsq r) := by
  unfold norm2B nsq
  show Real.sqrt _ = _
  congr 1; ring

theorem meanL_map (res : List (ℝ × ℝ)) (f : ℝ × ℝ → ℝ) : meanL (res.map f) = avg res f := by
  unfold meanL avg
  rw [sumL_eq_sum, List.length_map]

theorem sum_map_add' {α : Type} (l : List α) (f g : α → ℝ) :
    (l.map f).sum + (l.map g).sum = (l.map fun a => f a + g a).sum := by
  induction l with
  | nil => simp
  | cons a l ih => simp only [List.map_cons, List.sum_cons]; rw [← ih]; ring

theorem sum_map_two_mul {α : Type} (l : List α) (f : α → ℝ) :
    (l.map fun a => 2 * f a).sum = 2 * (l.map f).sum := by
  induction l with
  | nil => simp
  | cons a l ih => simp only [List.map_cons, List.sum_cons]; rw [ih]; ring

theorem sum_map_nonneg {α : Type} (l : List α) (f : α → ℝ) (h : ∀ a, 0 ≤ f a) : 0 ≤ (l.map f).sum := by
  induction l with
  | nil => simp
  | cons a l ih => simp only [List.map_cons, List.sum_cons]; exact add_nonneg (h a) ih

theorem avg_add (res : List (ℝ × ℝ)) (f g : ℝ × ℝ → ℝ) :
    avg res f + avg res g = avg res fun r => f r + g r := by
  unfold avg
  rw [← add_div, sum_map_add']

theorem wsum_add (w : List ℝ) (res : List (ℝ × ℝ)) (f g : ℝ × ℝ → ℝ) :
    wsum w res f + wsum w res g = wsum w res fun r => f r + g r := by
  unfold wsum
  rw [sum_map_add']
  congr 1
  apply List.map_congr_left
  intro p _
  ring

theorem dotL_comp (w : List ℝ) (res : List (ℝ × ℝ)) (g : ℝ × ℝ → ℝ) (f : ℝ → ℝ) :
    dotL w ((res.map g).map f) = wsum w res fun r => f (g r) := by
  rw [List.map_map, dotL_map]
  rfl

/-- the unweighted branch in closed form -/
theorem statUnweighted_eq (res : List (ℝ × ℝ)) :
    statUnweighted res =
      ⟨Real.sqrt (avg res nsq), avg res fun r => Real.sqrt (nsq r),
       Real.sqrt (avg res fun r => nsq (r.1 - avg res (·.1), r.2 - avg res (·.2)))⟩ := by
  unfold statUnweighted
  have e1 : sumL (res.map fun r => twoKB * (r.1 * r.1) + twoKB * (r.2 * r.2)) / ((2 * res.length : ℕ) : ℝ)
      = avg res nsq := by
    rw [sumL_eq_sum]
    have : (res.map fun r : ℝ × ℝ => twoKB * (r.1 * r.1) + twoKB * (r.2 * r.2))
        = res.map fun r => 2 * nsq r := by
      apply List.map_congr_left
      intro r _
      simp only [twoK_eq, nsq]; ring
    rw [this, sum_map_two_mul]
    unfold avg
    push_cast
    exact mul_div_mul_left _ _ two_ne_zero
  have e2 : meanL (res.map norm2B) = avg res fun r => Real.sqrt (nsq r) := by
    rw [meanL_map]
    congr 1
    funext r
    exact norm2_eq r
  have sd : ∀ g : ℝ × ℝ → ℝ, stdL (res.map g) * stdL (res.map g)
      = avg res fun r => (g r - avg res g) ^ 2 := by
    intro g
    unfold stdL
    simp only
    rw [List.map_map, meanL_map, meanL_map]
    show Real.sqrt _ * Real.sqrt _ = _
    rw [Real.mul_self_sqrt]
    · congr 1
      funext r
      simp only [Function.comp]; ring
    · unfold avg
      exact div_nonneg (sum_map_nonneg _ _ fun r => mul_self_nonneg _) (Nat.cast_nonneg _)
  simp only [e1, e2, sd, avg_add]
  rfl

/-- the weighted branch in closed form (`w = weights / Σ weights`) -/
theorem statWeighted_eq (res : List (ℝ × ℝ)) (weights : List ℝ) (hn : weights ≠ [])
    (hw : weights.sum ≠ 0) :
    statWeighted res weights =
      some ⟨Real.sqrt (wsum (weights.map (· / weights.sum)) res nsq),
            wsum (weights.map (· / weights.sum)) res fun r => Real.sqrt (nsq r),
            if weights.length = 1 then 0
            else Real.sqrt (wsum (weights.map (· / weights.sum)) res (fun r =>
                nsq (r.1 - wsum (weights.map (· / weights.sum)) res (·.1),
                     r.2 - wsum (weights.map (· / weights.sum)) res (·.2)))
              / (1 - ((weights.map (· / weights.sum)).map (· ^ 2)).sum))⟩ := by
  unfold statWeighted
  have hlen : ¬ weights.length = 0 := by
    intro h; exact hn (List.length_eq_zero_iff.mp h)
  have hz : ¬ (isZeroK weights.sum = true) := by
    rw [isZeroK_iff]; exact hw
  simp only [sumL_eq_sum]
  rw [if_neg (by simp [hlen, hz])]
  set w := weights.map (fun x => x / weights.sum) with hwdef
  have id1 : res.map (·.1) = (res.map (·.1)).map id := by simp
  have id2 : res.map (·.2) = (res.map (·.2)).map id := by simp
  have m1 : dotL w (res.map (·.1)) = wsum w res (·.1) := by
    rw [id1, dotL_comp]; rfl
  have m2 : dotL w (res.map (·.2)) = wsum w res (·.2) := by
    rw [id2, dotL_comp]; rfl
  have m3 : dotL w (res.map norm2B) = wsum w res norm2B := by
    rw [dotL_map]; rfl
  rw [m1, m2, m3]
  simp only [dotL_comp]
  congr 2
  · show Real.sqrt _ = Real.sqrt _
    rw [wsum_add]
    congr 2
    funext r
    simp only [nsq]; ring
  · show wsum w res norm2B = _
    congr 1
    funext r
    exact norm2_eq r
  · split
    · simp
    · simp only [oneK_eq]
      show Real.sqrt _ = Real.sqrt _
      rw [← add_div, wsum_add]
      congr 2
      · congr 1
        funext r
        simp only [nsq]; ring
      · congr 2
        apply List.map_congr_left
        intro a _
        ring

theorem statWeighted_none (res : List (ℝ × ℝ)) (weights : List ℝ) :
    statWeighted res weights = none ↔ (weights = [] ∨ weights.sum = 0) := by
  constructor
  · intro h
    by_contra hc
    push Not at hc
    rw [statWeighted_eq res weights hc.1 hc.2] at h
    cases h
  · intro h
    unfold statWeighted
    have : (weights.length = 0 ∨ isZeroK (sumL weights) = true) := by
      rcases h with h | h
      · left; rw [h]; rfl
      · right; rw [isZeroK_iff, sumL_eq_sum]; exact h
    simp only [this, if_true]

/-- normalised weights do not change under a common factor -/
theorem normalise_scale (weights : List ℝ) (c : ℝ) (hc : c ≠ 0) :
    (weights.map (c * ·)).map (· / (weights.map (c * ·)).sum) = weights.map (· / weights.sum) := by
  have hs : (weights.map (c * ·)).sum = c * weights.sum := by
    induction weights with
    | nil => simp
    | cons a l ih => simp only [List.map_cons, List.sum_cons]; rw [ih]; ring
  rw [hs, List.map_map]
  apply List.map_congr_left
  intro a _
  simp only [Function.comp]
  exact mul_div_mul_left a weights.sum hc

/-! ### ranges of the reported angles -/

theorem propRot_range (sdet w00 w01 w10 w11 : ℝ) :
    -180 < propRot sdet w00 w01 w10 w11 ∧ propRot sdet w00 w01 w10 w11 ≤ 180 :=
  atan2deg_range _ _

theorem buildFit_ranges (g : FitGeom) (p0 p1 p2 q0 q1 q2 : ℝ) :
    (-180 < (buildFit g p0 p1 p2 q0 q1 q2).rotx ∧ (buildFit g p0 p1 p2 q0 q1 q2).rotx ≤ 180) ∧
    (-180 < (buildFit g p0 p1 p2 q0 q1 q2).roty ∧ (buildFit g p0 p1 p2 q0 q1 q2).roty ≤ 180) ∧
    (-180 < (buildFit g p0 p1 p2 q0 q1 q2).rot ∧ (buildFit g p0 p1 p2 q0 q1 q2).rot ≤ 180) ∧
    (-180 < (buildFit g p0 p1 p2 q0 q1 q2).properRot ∧ (buildFit g p0 p1 p2 q0 q1 q2).properRot ≤ 180) := by
  by_cases hg : g = .shift
  · subst hg
    rw [buildFit_shift]
    norm_num
  · rw [buildFit_ne_shift hg]
    have h := anglesOf_range g (properOf (signK (det2 p0 p1 q0 q1)))
      (propRot (signK (det2 p0 p1 q0 q1))
        (p0 / (axisScales g p0 p1 q0 q1 (meanScale (det2 p0 p1 q0 q1))).1)
        (p1 / (axisScales g p0 p1 q0 q1 (meanScale (det2 p0 p1 q0 q1))).2)
        (q0 / (axisScales g p0 p1 q0 q1 (meanScale (det2 p0 p1 q0 q1))).1)
        (q1 / (axisScales g p0 p1 q0 q1 (meanScale (det2 p0 p1 q0 q1))).2))
      (p0 / (axisScales g p0 p1 q0 q1 (meanScale (det2 p0 p1 q0 q1))).1)
      (p1 / (axisScales g p0 p1 q0 q1 (meanScale (det2 p0 p1 q0 q1))).2)
      (q0 / (axisScales g p0 p1 q0 q1 (meanScale (det2 p0 p1 q0 q1))).1)
      (q1 / (axisScales g p0 p1 q0 q1 (meanScale (det2 p0 p1 q0 q1))).2)
      (propRot_range _ _ _ _ _)
    exact ⟨h.1, h.2.1, h.2.2, propRot_range _ _ _ _ _⟩

end TW
