import Proofs.C16Chain
import Mathlib.Tactic.LinearCombination

/-!
Helper lemmas for C16: strictness of the turn where the lower and the upper chain meet, and the
"exposed vertex" argument behind minimality.
-/
open TW
set_option linter.unusedSectionVars false

namespace TW
variable {K : Type} [Field K] [LinearOrder K] [IsStrictOrderedRing K]

/-- all triples of points of the list are collinear -/
def Collinear (S : List (Pt K)) : Prop := ∀ a ∈ S, ∀ b ∈ S, ∀ c ∈ S, cross a b c = 0

/-- two lexicographically positive, parallel vectors `a`, `b`: a vector on the left of `a` and on
the right of `b` is parallel to them -/
theorem wedge_squeeze (a b c : Pt K) (ha : lexpos a) (hb : lexpos b) (hab : wedge a b = 0)
    (h1 : 0 ≤ wedge a c) (h2 : wedge b c ≤ 0) : wedge a c = 0 := by
  have kx : wedge a c * b.1 = wedge b c * a.1 + wedge a b * c.1 := by simp only [wedge]; ring
  have ky : wedge a c * b.2 = wedge b c * a.2 + wedge a b * c.2 := by simp only [wedge]; ring
  rw [hab, zero_mul, add_zero] at kx ky
  rcases hb with hb | ⟨hb1, hb2⟩
  · -- b.1 > 0, hence a.1 ≥ 0
    have ha1 : 0 ≤ a.1 := by rcases ha with h | ⟨h, _⟩ <;> linarith
    have : wedge a c * b.1 ≤ 0 := by rw [kx]; exact mul_nonpos_of_nonpos_of_nonneg h2 ha1
    have h3 : wedge a c ≤ 0 := by
      by_contra hc
      have := mul_pos (not_le.mp hc) hb
      linarith
    exact le_antisymm h3 h1
  · -- b vertical: a is vertical too
    have ha1 : a.1 = 0 := by
      have : wedge a b = a.1 * b.2 := by simp only [wedge]; rw [hb1]; ring
      rw [this] at hab
      rcases mul_eq_zero.mp hab with h | h
      · exact h
      · exact absurd h (ne_of_gt hb2)
    have ha2 : 0 ≤ a.2 := by
      rcases ha with h | ⟨_, h⟩
      · rw [ha1] at h; exact absurd h (lt_irrefl _)
      · exact le_of_lt h
    have : wedge a c * b.2 ≤ 0 := by rw [ky]; exact mul_nonpos_of_nonpos_of_nonneg h2 ha2
    have h3 : wedge a c ≤ 0 := by
      by_contra hc
      have := mul_pos (not_le.mp hc) hb2
      linarith
    exact le_antisymm h3 h1

/-- points all on the line through two distinct points are collinear -/
theorem collinear_of_line (S : List (Pt K)) (x y : Pt K) (hxy : x ≠ y)
    (h : ∀ q ∈ S, cross x y q = 0) : Collinear S := by
  intro a ha b hb c hc
  have e1 := h a ha
  have e2 := h b hb
  have e3 := h c hc
  simp only [cross_def] at e1 e2 e3 ⊢
  by_cases hd : y.1 - x.1 = 0
  · have hd2 : y.2 - x.2 ≠ 0 := by
      intro h2
      apply hxy
      exact Prod.ext (by linarith [sub_eq_zero.mp hd]) (by linarith [sub_eq_zero.mp h2])
    have k : ((b.1 - a.1) * (c.2 - a.2) - (b.2 - a.2) * (c.1 - a.1)) * ((y.2 - x.2) * (y.2 - x.2)) = 0 := by
      rw [hd] at e1 e2 e3
      have f1 : (y.2 - x.2) * (a.1 - x.1) = 0 := by linarith
      have f2 : (y.2 - x.2) * (b.1 - x.1) = 0 := by linarith
      have f3 : (y.2 - x.2) * (c.1 - x.1) = 0 := by linarith
      linear_combination ((c.2 - a.2) * (y.2 - x.2)) * (f2 - f1) - ((b.2 - a.2) * (y.2 - x.2)) * (f3 - f1)
    rcases mul_eq_zero.mp k with h0 | h0
    · exact h0
    · exact absurd (mul_self_eq_zero.mp h0) hd2
  · -- divide by the x-extent of the direction
    have k : ((b.1 - a.1) * (c.2 - a.2) - (b.2 - a.2) * (c.1 - a.1)) * (y.1 - x.1) = 0 := by
      linear_combination (b.1 - a.1) * (e3 - e1) - (c.1 - a.1) * (e2 - e1)
    rcases mul_eq_zero.mp k with h0 | h0
    · exact h0
    · exact absurd h0 hd

/-- **junction at the lexicographic maximum** `p`: predecessor `x` (last lower edge `x → p`) and
successor `y` (first upper edge `p → y`) both precede `p`; all points are on the left of both
edges and not all collinear: the turn is strict -/
theorem junction_max (S : List (Pt K)) (x p y : Pt K) (hx : lexlt x p) (hy : lexlt y p)
    (hyS : y ∈ S) (h1 : ∀ q ∈ S, 0 ≤ cross x p q) (h2 : ∀ q ∈ S, 0 ≤ cross p y q)
    (hnc : ¬ Collinear S) : 0 < cross x p y := by
  rcases lt_or_eq_of_le (h1 y hyS) with h | h
  · exact h
  · exfalso
    apply hnc
    apply collinear_of_line S x p (fun e => lexlt_irrefl p (e ▸ hx))
    intro q hq
    have ea : cross x p q = wedge (vsub p x) (vsub q p) := by simp only [cross_def, wedge, vsub]; ring
    have eb : cross p y q = - wedge (vsub p y) (vsub q p) := by simp only [cross_def, wedge, vsub]; ring
    have ec : cross x p y = - wedge (vsub p x) (vsub p y) := by simp only [cross_def, wedge, vsub]; ring
    rw [ea]
    apply wedge_squeeze _ (vsub p y) _ (lexpos_vsub hx) (lexpos_vsub hy)
    · rw [← h] at ec; linarith
    · rw [← ea]; exact h1 q hq
    · have := h2 q hq; rw [eb] at this; linarith

/-- **junction at the lexicographic minimum** `p` (the closing vertex): predecessor `x` (last
upper edge `x → p`) and successor `y` (first lower edge `p → y`) both follow `p` -/
theorem junction_min (S : List (Pt K)) (x p y : Pt K) (hx : lexlt p x) (hy : lexlt p y)
    (hyS : y ∈ S) (h1 : ∀ q ∈ S, 0 ≤ cross x p q) (h2 : ∀ q ∈ S, 0 ≤ cross p y q)
    (hnc : ¬ Collinear S) : 0 < cross x p y := by
  rcases lt_or_eq_of_le (h1 y hyS) with h | h
  · exact h
  · exfalso
    apply hnc
    apply collinear_of_line S p y (fun e => lexlt_irrefl p (e ▸ hy))
    intro q hq
    have ea : cross x p q = - wedge (vsub x p) (vsub q p) := by simp only [cross_def, wedge, vsub]; ring
    have eb : cross p y q = wedge (vsub y p) (vsub q p) := by simp only [cross_def, wedge, vsub]
    have ec : cross x p y = wedge (vsub y p) (vsub x p) := by simp only [cross_def, wedge, vsub]; ring
    rw [eb]
    apply wedge_squeeze _ (vsub x p) _ (lexpos_vsub hy) (lexpos_vsub hx)
    · rw [← ec]; exact h.symm
    · rw [← eb]; exact h2 q hq
    · have := h1 q hq; rw [ea] at this; linarith

/-- two lines through `v` with different directions meet only in `v` -/
theorem two_lines_meet (a v b q : Pt K) (h : 0 < cross a v b) (h1 : cross a v q = 0)
    (h2 : cross v b q = 0) : q = v := by
  simp only [cross_def] at h h1 h2
  have k1 : ((v.1 - a.1) * (b.2 - a.2) - (v.2 - a.2) * (b.1 - a.1)) * (q.1 - v.1) = 0 := by
    linear_combination (b.1 - v.1) * h1 - (v.1 - a.1) * h2
  have k2 : ((v.1 - a.1) * (b.2 - a.2) - (v.2 - a.2) * (b.1 - a.1)) * (q.2 - v.2) = 0 := by
    linear_combination (b.2 - v.2) * h1 - (v.2 - a.2) * h2
  have hne := ne_of_gt h
  have e1 : q.1 - v.1 = 0 := (mul_eq_zero.mp k1).resolve_left hne
  have e2 : q.2 - v.2 = 0 := (mul_eq_zero.mp k2).resolve_left hne
  exact Prod.ext (sub_eq_zero.mp e1) (sub_eq_zero.mp e2)

/-- a vertex with a strict turn whose two edges have all points on their left is *exposed*: an
affine functional vanishes on it and is positive on every other point -/
theorem exposed_of_turn (S : List (Pt K)) (a v b : Pt K) (h : 0 < cross a v b)
    (h1 : ∀ q ∈ S, 0 ≤ cross a v q) (h2 : ∀ q ∈ S, 0 ≤ cross v b q) :
    ∃ α β γ : K, α * v.1 + β * v.2 + γ = 0 ∧ ∀ q ∈ S, q ≠ v → 0 < α * q.1 + β * q.2 + γ := by
  refine ⟨-(v.2 - a.2) - (b.2 - v.2), (v.1 - a.1) + (b.1 - v.1),
    (v.2 - a.2) * a.1 - (v.1 - a.1) * a.2 + ((b.2 - v.2) * v.1 - (b.1 - v.1) * v.2), by ring, ?_⟩
  intro q hq hne
  have e : (-(v.2 - a.2) - (b.2 - v.2)) * q.1 + ((v.1 - a.1) + (b.1 - v.1)) * q.2 +
      ((v.2 - a.2) * a.1 - (v.1 - a.1) * a.2 + ((b.2 - v.2) * v.1 - (b.1 - v.1) * v.2)) =
      cross a v q + cross v b q := by simp only [cross_def]; ring
  rw [e]
  rcases lt_or_eq_of_le (h1 q hq) with g1 | g1
  · linarith [h2 q hq]
  · rcases lt_or_eq_of_le (h2 q hq) with g2 | g2
    · linarith
    · exact absurd (two_lines_meet a v b q h g1.symm g2.symm) hne

end TW
