import Proofs.C06Rshift
import Mathlib.Tactic.LinearCombination

/-!
Helper lemmas for the exact-recovery clauses of C06: sums over noise-free data, the exact
solution of the normal equations by `gsolve`, the trigonometric parametrisation of the two
similarity families.
-/
open TW Matrix
set_option linter.unusedSectionVars false

namespace TW
variable {K : Type} [Field K] [LinearOrder K] [IsStrictOrderedRing K]

/-- noise-free data: every observation is the image of its `uv` under `T` -/
def NoiseFree (obs : List (Obs K)) (T : Lin K) : Prop :=
  ∀ o ∈ obs, o.x = T.m00 * o.u + T.m01 * o.v + T.sx ∧ o.y = T.m10 * o.u + T.m11 * o.v + T.sy

theorem SS_noiseFree (ws : List K) (obs : List (Obs K)) (T : Lin K) (h : NoiseFree obs T) :
    SS ws obs T = 0 := by
  rw [SS_eq_SSZ]
  apply SSZ_eq_zero_of_resid
  intro p hp
  exact h p.2 (List.of_mem_zip hp).2

theorem sum_affine (Z : List (K × Obs K)) (g : K × Obs K → K) (t : Obs K → K) (a b c : K)
    (ht : ∀ p ∈ Z, t p.2 = a * p.2.u + b * p.2.v + c) :
    (Z.map fun p => g p * t p.2).sum
      = a * (Z.map fun p => g p * p.2.u).sum + b * (Z.map fun p => g p * p.2.v).sum
        + c * (Z.map fun p => g p).sum := by
  induction Z with
  | nil => simp
  | cons p l ih =>
    simp only [List.map_cons, List.sum_cons]
    rw [ih (fun q hq => ht q (List.mem_cons_of_mem _ hq)), ht p (List.mem_cons_self ..)]
    ring

/-- on noise-free data `gsolve` returns the generating map (the normal matrix was invertible,
because `inv` returned) -/
theorem gsolve_noiseFree (eps : K) (heps : 0 < eps) (s : GSums K) (L T : Lin K)
    (h : gsolve eps s = .ok L)
    (ex : s.sx = s.su * T.m00 + s.sv * T.m01 + s.sw * T.sx ∧
          s.sxu = s.suu * T.m00 + s.suv * T.m01 + s.su * T.sx ∧
          s.sxv = s.suv * T.m00 + s.svv * T.m01 + s.sv * T.sx)
    (ey : s.sy = s.su * T.m10 + s.sv * T.m11 + s.sw * T.sy ∧
          s.syu = s.suu * T.m10 + s.suv * T.m11 + s.su * T.sy ∧
          s.syv = s.suv * T.m10 + s.svv * T.m11 + s.sv * T.sy) : L = T := by
  unfold gsolve at h
  split at h
  · cases h
  next im him =>
  injection h with h
  have hmul := (invSq_correct eps heps _ im him).1
  have ent : ∀ i j : Fin 3, ∑ l : Fin 3, im.get i l * (gmatrix s).get l j
      = (1 : Matrix (Fin 3) (Fin 3) K) i j := by
    intro i j
    have := congrFun (congrFun hmul i) j
    simpa [Matrix.mul_apply] using this
  have g : ∀ i j : Fin 3, (gmatrix s).get i j =
      if i.val = 0 then (if j.val = 0 then s.su else if j.val = 1 then s.sv else s.sw)
      else if i.val = 1 then (if j.val = 0 then s.suu else if j.val = 1 then s.suv else s.su)
      else (if j.val = 0 then s.suv else if j.val = 1 then s.svv else s.sv) := by
    intro i j; simp [gmatrix]
  have r00 := ent 0 0; have r01 := ent 0 1; have r02 := ent 0 2
  have r10 := ent 1 0; have r11 := ent 1 1; have r12 := ent 1 2
  have r20 := ent 2 0; have r21 := ent 2 1; have r22 := ent 2 2
  simp [Fin.sum_univ_three, g] at r00 r01 r02 r10 r11 r12 r20 r21 r22
  obtain ⟨x0, x1, x2⟩ := ex
  obtain ⟨y0, y1, y2⟩ := ey
  rw [← h]
  apply lin_ext <;> simp only
  · rw [x0, x1, x2]; linear_combination T.m00 * r00 + T.m01 * r01 + T.sx * r02
  · rw [x0, x1, x2]; linear_combination T.m00 * r10 + T.m01 * r11 + T.sx * r12
  · rw [y0, y1, y2]; linear_combination T.m10 * r00 + T.m11 * r01 + T.sy * r02
  · rw [y0, y1, y2]; linear_combination T.m10 * r10 + T.m11 * r11 + T.sy * r12
  · rw [x0, x1, x2]; linear_combination T.m00 * r20 + T.m01 * r21 + T.sx * r22
  · rw [y0, y1, y2]; linear_combination T.m10 * r20 + T.m11 * r21 + T.sy * r22

/-- the sums of noise-free data are the normal matrix applied to the generating parameters -/
theorem gsums_noiseFree (ws : List K) (obs : List (Obs K)) (hlen : ws.length = obs.length)
    (T : Lin K) (hT : NoiseFree obs T) :
    let s := gsums ws obs
    (s.sx = s.su * T.m00 + s.sv * T.m01 + s.sw * T.sx ∧
     s.sxu = s.suu * T.m00 + s.suv * T.m01 + s.su * T.sx ∧
     s.sxv = s.suv * T.m00 + s.svv * T.m01 + s.sv * T.sx) ∧
    (s.sy = s.su * T.m10 + s.sv * T.m11 + s.sw * T.sy ∧
     s.syu = s.suu * T.m10 + s.suv * T.m11 + s.su * T.sy ∧
     s.syv = s.suv * T.m10 + s.svv * T.m11 + s.sv * T.sy) := by
  intro s
  have hs := gsums_eq ws obs hlen
  simp only at hs
  simp only [s]
  set Z := List.zip ws obs
  have hx : ∀ p ∈ Z, (fun o : Obs K => o.x) p.2 = T.m00 * p.2.u + T.m01 * p.2.v + T.sx :=
    fun p hp => (hT p.2 (List.of_mem_zip hp).2).1
  have hy : ∀ p ∈ Z, (fun o : Obs K => o.y) p.2 = T.m10 * p.2.u + T.m11 * p.2.v + T.sy :=
    fun p hp => (hT p.2 (List.of_mem_zip hp).2).2
  have ax0 := sum_affine Z (fun p => p.1) (·.x) _ _ _ hx
  have ax1 := sum_affine Z (fun p => p.1 * p.2.u) (·.x) _ _ _ hx
  have ax2 := sum_affine Z (fun p => p.1 * p.2.v) (·.x) _ _ _ hx
  have ay0 := sum_affine Z (fun p => p.1) (·.y) _ _ _ hy
  have ay1 := sum_affine Z (fun p => p.1 * p.2.u) (·.y) _ _ _ hy
  have ay2 := sum_affine Z (fun p => p.1 * p.2.v) (·.y) _ _ _ hy
  have c1 : ∀ p : K × Obs K, p.1 * (p.2.x * p.2.u) = p.1 * p.2.u * p.2.x := fun p => by ring
  have c2 : ∀ p : K × Obs K, p.1 * (p.2.x * p.2.v) = p.1 * p.2.v * p.2.x := fun p => by ring
  have c3 : ∀ p : K × Obs K, p.1 * (p.2.y * p.2.u) = p.1 * p.2.u * p.2.y := fun p => by ring
  have c4 : ∀ p : K × Obs K, p.1 * (p.2.y * p.2.v) = p.1 * p.2.v * p.2.y := fun p => by ring
  have c5 : ∀ p : K × Obs K, p.1 * (p.2.u * p.2.u) = p.1 * p.2.u * p.2.u := fun p => by ring
  have c6 : ∀ p : K × Obs K, p.1 * (p.2.v * p.2.v) = p.1 * p.2.v * p.2.v := fun p => by ring
  have c7 : ∀ p : K × Obs K, p.1 * (p.2.u * p.2.v) = p.1 * p.2.u * p.2.v := fun p => by ring
  have c8 : ∀ p : K × Obs K, p.1 * p.2.v * p.2.u = p.1 * p.2.u * p.2.v := fun p => by ring
  rw [hs]
  simp only [c1, c2, c3, c4, c5, c6, c7]
  simp only [c8] at ax2 ay2
  refine ⟨⟨?_, ?_, ?_⟩, ⟨?_, ?_, ?_⟩⟩
  · linear_combination ax0
  · linear_combination ax1
  · linear_combination ax2
  · linear_combination ay0
  · linear_combination ay1
  · linear_combination ay2

theorem sum_const (Z : List (K × Obs K)) (f : Obs K → K) (s0 : K) (h : ∀ p ∈ Z, f p.2 = s0) :
    (Z.map fun p => p.1 * f p.2).sum = s0 * (Z.map fun p => p.1).sum := by
  induction Z with
  | nil => simp
  | cons p l ih =>
    simp only [List.map_cons, List.sum_cons]
    rw [ih (fun q hq => h q (List.mem_cons_of_mem _ hq)), h p (List.mem_cons_self ..)]
    ring

/-! ### the two similarity families are `μ·R(θ)` and `μ·R(θ)·diag(1, −1)` -/

theorem polar (a b : ℝ) : ∃ μ θ : ℝ, 0 ≤ μ ∧ a = μ * Real.cos θ ∧ b = μ * Real.sin θ := by
  by_cases h : a ≠ 0 ∨ b ≠ 0
  · have hne := mk_ne_zero h
    have hpos := hyp_pos h
    refine ⟨Real.sqrt (a*a + b*b), Complex.arg ⟨a, b⟩, le_of_lt hpos, ?_, ?_⟩
    · rw [Complex.cos_arg hne, norm_mk]
      set hh := Real.sqrt (a*a + b*b)
      have := ne_of_gt hpos
      field_simp
    · rw [Complex.sin_arg, norm_mk]
      set hh := Real.sqrt (a*a + b*b)
      have := ne_of_gt hpos
      field_simp
  · push Not at h
    exact ⟨0, 0, le_refl _, by simp [h.1], by simp [h.2]⟩

end TW
