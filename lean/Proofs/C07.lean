import Proofs.IterLemmas
import Proofs.ClipSim
import Proofs.Basic

/-!
# C07 — sigma clipping rejects exactly the points beyond the cutoff of the current fit

Property theorems only (helper lemmas: `Proofs/ClipLemmas.lean`, `Proofs/IterLemmas.lean`).

The model is `TW.Clip.run` (`Model/Clip.lean`), the loop of `tweakwcs.linearfit.iter_linear_fit`
written parametrically in the single-shot fitter `c.fit`, the statistic `c.stat` and the residual
norm `c.rnorm`, and its wrapper `TW.iterLinearFitWith` (argument checks, `wmask`, centre, initial
fit, loop, returned entries), parametric in the single-shot fitter and the metric.

The first group of theorems is about the loop and holds **for every** fitter / statistic /
residual norm, every scalar type with `*` and `<`, every data set and every iteration count
(induction on the number of passes).  The second group transfers them to what
`iter_linear_fit` returns.  `Clip.On m i` means "mask `m` selects index `i`",
`Clip.Passes c f i` is the test `c.rnorm f i < c.nsigma * c.stat f`.
-/
set_option linter.unusedSectionVars false
set_option linter.unusedVariables false

open TW TW.Clip

namespace TW.C07

/-! ## The loop, for every fitter, statistic and residual norm -/
section loop
variable {K Fit Err : Type} [Mul K] [LT K] [DecidableLT K]
variable (c : Cfg K Fit Err) (wmask : List Bool)

/-- **retained set.**  After an effective iteration (one that increments `eff_nclip`) the new
mask selects exactly the points of the tested set — `wmask`, or the previous mask under
`clip_accum` — whose residual norm with respect to the *current* fit is strictly below
`nsigma · stat(current fit)`. -/
theorem retained_exact (s s' : St Fit) (h : step c wmask s = .ok s') (heff : s'.eff = s.eff + 1)
    (i : Nat) :
    On s'.mask i ↔ On (if c.accum then s.mask else wmask) i ∧ c.rnorm s.fit i < c.nsigma * c.stat s.fit := by
  rcases step_cases c wmask s s' h with ⟨_, rfl⟩ | ⟨_, _, rfl⟩ | ⟨_, _, _, hm, _, _⟩
  · omega
  · simp at heff
  · rw [hm]; exact test_on c s.fit _ i

/-- the same along a run: iteration `n → n+1` of the history -/
theorem retained_exact_run (s0 s s' : St Fit) (n : Nat) (hn : run c wmask s0 n = .ok s)
    (hn1 : run c wmask s0 (n + 1) = .ok s') (heff : s'.eff = s.eff + 1) (i : Nat) :
    On s'.mask i ↔ On (if c.accum then s.mask else wmask) i ∧ Passes c s.fit i := by
  rw [run_succ_ok c wmask s0 s n hn] at hn1
  exact retained_exact c wmask s s' hn1 heff i

/-- **stop conditions, one pass.**  A pass from a running state stops (and then changes nothing)
exactly when the retained set would not change or fewer than `minobj` points would remain;
otherwise it is effective: the mask becomes the tested-and-passed set, the fit is refitted on
it and `eff_nclip` grows by one. -/
theorem stop_conditions (s s' : St Fit) (hrun : s.done = false) (h : step c wmask s = .ok s') :
    let nm := test c s.fit (baseOf c wmask s)
    (s'.done = true ↔ (count nm < c.minobj ∨ nm = s.mask)) ∧
    (s'.done = true → s'.mask = s.mask ∧ s'.fit = s.fit ∧ s'.eff = s.eff) ∧
    (s'.done = false → s'.mask = nm ∧ c.fit nm = .ok s'.fit ∧ s'.eff = s.eff + 1) := by
  intro nm
  rcases step_cases c wmask s s' h with ⟨hd, _⟩ | ⟨_, hstop, rfl⟩ | ⟨_, hns, hf, hm, he, hd'⟩
  · rw [hrun] at hd; cases hd
  · exact ⟨⟨fun _ => hstop, fun _ => rfl⟩, fun _ => ⟨rfl, rfl, rfl⟩, fun h' => by cases h'⟩
  · refine ⟨⟨fun h' => ?_, fun h' => absurd h' hns⟩, fun h' => ?_, fun _ => ⟨hm, hf, he⟩⟩
    · rw [hd'] at h'; cases h'
    · rw [hd'] at h'; cases h'

/-- **stop conditions, whole loop.**  Started from the initial fit (`eff = 0`, running), after
`nclip` passes either the loop is still running and *every* pass was effective
(`eff_nclip = nclip`: it ended because `nclip` iterations ran), or it stopped at an earlier pass
`k < nclip` — and then precisely because at that pass the retained set would not have changed or
fewer than `minobj` points would have remained — and the result is the state reached after `k`
effective iterations. -/
theorem stop_conditions_run (s0 : St Fit) (he : s0.eff = 0) (hd : s0.done = false)
    (nclip : Nat) (s : St Fit) (h : run c wmask s0 nclip = .ok s) :
    (s.done = false → s.eff = nclip) ∧
    (s.done = true → ∃ k, k < nclip ∧ ∃ sk, run c wmask s0 k = .ok sk ∧ sk.done = false ∧ sk.eff = k ∧
        (count (test c sk.fit (baseOf c wmask sk)) < c.minobj ∨ test c sk.fit (baseOf c wmask sk) = sk.mask) ∧
        s.mask = sk.mask ∧ s.fit = sk.fit ∧ s.eff = k) := by
  obtain ⟨h1, h2⟩ := run_shape c wmask s0 he hd nclip s h
  refine ⟨h1, fun hdone => ?_⟩
  obtain ⟨k, hk, sk, hrk, hdk, hek, hstop, rfl⟩ := h2 hdone
  exact ⟨k, hk, sk, hrk, hdk, hek, hstop, rfl, rfl, hek⟩

/-- **the returned fit is the plain fit of the returned mask** (loop level): whatever the number
of passes, the current fit is `fit` of the current mask. -/
theorem result_is_plain_fit_run (s0 : St Fit) (h0 : c.fit s0.mask = .ok s0.fit)
    (hl : s0.mask.length = wmask.length) (hs : Sub s0.mask wmask)
    (n : Nat) (s : St Fit) (h : run c wmask s0 n = .ok s) : c.fit s.mask = .ok s.fit :=
  (run_inv c wmask s0 ⟨hl, hs, h0⟩ n s h).fit

/-- **under `clip_accum` the retained set only shrinks** -/
theorem accum_monotone (hacc : c.accum = true) (s0 : St Fit) (n k : Nat) (s s' : St Fit)
    (hn : run c wmask s0 n = .ok s) (hk : run c wmask s0 (n + k) = .ok s') : Sub s'.mask s.mask := by
  induction k generalizing s' with
  | zero =>
    rw [Nat.add_zero, hn] at hk
    injection hk with hk
    subst hk
    exact Sub.refl _
  | succ k ih =>
    obtain ⟨t, ht, hst⟩ := run_pred c wmask s0 s' (n + k) hk
    have h1 := ih t ht
    rcases step_cases c wmask t s' hst with ⟨_, rfl⟩ | ⟨_, _, rfl⟩ | ⟨_, _, _, hm, _, _⟩
    · exact h1
    · exact h1
    · refine Sub.trans ?_ h1
      rw [hm]
      have : baseOf c wmask t = t.mask := by unfold baseOf; rw [if_pos hacc]
      rw [this]
      exact test_sub c t.fit t.mask

/-- **only positively weighted points are ever retained** -/
theorem mask_subset_wmask_run (s0 : St Fit) (hs : Sub s0.mask wmask) (n : Nat) (s : St Fit)
    (h : run c wmask s0 n = .ok s) : Sub s.mask wmask := by
  induction n generalizing s with
  | zero => injection h with h; subst h; exact hs
  | succ n ih =>
    obtain ⟨t, ht, hst⟩ := run_pred c wmask s0 s n h
    have h1 := ih t ht
    rcases step_cases c wmask t s hst with ⟨_, rfl⟩ | ⟨_, _, rfl⟩ | ⟨_, _, _, hm, _, _⟩
    · exact h1
    · exact h1
    · rw [hm]
      exact Sub.trans (test_sub _ _ _) (baseOf_sub c wmask t h1)

/-- **`eff_nclip ≤ nclip`** -/
theorem eff_le_nclip_run (s0 : St Fit) (he : s0.eff = 0) (n : Nat) (s : St Fit)
    (h : run c wmask s0 n = .ok s) : s.eff ≤ n := by
  have := run_eff_le c wmask s0 n s h
  omega

/-- **one history.**  The state after `n+1` passes is one pass applied to the state after `n`
passes; a stopped state and a raised exception are fixpoints.  Hence the results for
`nclip = 0, 1, 2, …` are the successive states of a single sequence, constant from the first
stop on. -/
theorem prefix_history (s0 : St Fit) :
    (∀ n s, run c wmask s0 n = .ok s → run c wmask s0 (n + 1) = step c wmask s) ∧
    (∀ n s, run c wmask s0 n = .ok s → s.done = true → ∀ k, run c wmask s0 (n + k) = .ok s) ∧
    (∀ n e, run c wmask s0 n = .error e → ∀ k, run c wmask s0 (n + k) = .error e) :=
  ⟨fun n s h => run_succ_ok c wmask s0 s n h,
   fun n s h hd => run_done_stable c wmask s0 s n h hd,
   fun n e h => run_err_stable c wmask s0 n e h⟩

/-- **no untested re-entry.**  Every point retained after an effective iteration passed the test
against the fit of that very iteration (and was positively weighted / previously retained). -/
theorem no_untested_reentry (s0 s s' : St Fit) (n : Nat) (hn : run c wmask s0 n = .ok s)
    (hn1 : run c wmask s0 (n + 1) = .ok s') (heff : s'.eff = s.eff + 1) (i : Nat)
    (hi : On s'.mask i) : c.rnorm s.fit i < c.nsigma * c.stat s.fit :=
  ((retained_exact_run c wmask s0 s s' n hn hn1 heff i).mp hi).2

end loop

/-! ## What `iter_linear_fit` returns, for every single-shot fitter and metric -/
section wrapper
variable {K : Type} [Add K] [Sub K] [Mul K] [Div K] [Neg K] [LT K] [DecidableLT K] [NatCast K]
variable (single : Single K) (nrm : Bool) (m : Metric K) (minobj : Nat)
variable (obs : List (Obs K)) (wxy wuv : Option (List K)) (center : Option (K × K))
variable (nclip : Option Int) (sigma : Option (K × String)) (accum : Bool)

/-- **the returned fit is the plain fit of the points of `fitmask`**: matrix, shift, residuals
and statistics are what the single-shot fitter returns for `xy[fitmask]`, `uv[fitmask]`,
`wxy[fitmask]`, `wuv[fitmask]` (coordinates relative to the returned centre). -/
theorem result_is_plain_fit (r : IterRes K)
    (h : iterLinearFitWith single nrm m minobj obs wxy wuv center nclip sigma accum = .ok r) :
    fitOn single nrm m (centreObs r.center (wmaskOf obs.length wxy wuv) obs) wxy wuv r.fitmask
      = .ok { lin := r.lin, resids := r.resids, stats := r.stats } := by
  obtain ⟨su, s0, s, hsu, hi, hr, rfl⟩ := iter_unfold single nrm m minobj obs wxy wuv center nclip sigma accum r h
  obtain ⟨_, _, _, hw, _, _, hobs⟩ := setup_ok minobj obs wxy wuv center nclip sigma su hsu
  obtain ⟨hinv, _, _, _⟩ := initState_ok _ _ _ hi
  have := (run_inv _ _ s0 hinv su.nclip s hr).fit
  simp only [finish]
  rw [← hw, ← hobs]
  exact this

/-- **`fitmask ⊆ wmask`**: a point used in the fit has positive weight in every weight vector
supplied; `fitmask` has one entry per input point. -/
theorem mask_subset_wmask (r : IterRes K)
    (h : iterLinearFitWith single nrm m minobj obs wxy wuv center nclip sigma accum = .ok r) :
    r.fitmask.length = obs.length ∧
    ∀ i, On r.fitmask i →
      i < obs.length ∧ (∀ ws, wxy = some ws → ∃ x, ws[i]? = some x ∧ zeroK < x)
                     ∧ (∀ ws, wuv = some ws → ∃ x, ws[i]? = some x ∧ zeroK < x) := by
  obtain ⟨su, s0, s, hsu, hi, hr, rfl⟩ := iter_unfold single nrm m minobj obs wxy wuv center nclip sigma accum r h
  obtain ⟨hx, hu, _, hw, _, _, _⟩ := setup_ok minobj obs wxy wuv center nclip sigma su hsu
  obtain ⟨hinv, _, _, _⟩ := initState_ok _ _ _ hi
  have hI := run_inv _ _ s0 hinv su.nclip s hr
  refine ⟨?_, fun i hon => ?_⟩
  · simp only [finish]
    rw [hI.len, hw, wmaskOf_length _ _ _ hx hu]
  · have := hI.sub i hon
    rw [hw] at this
    exact (wmaskOf_on _ _ _ i).mp this

/-- **`eff_nclip ≤ nclip`** -/
theorem eff_le_nclip (r : IterRes K)
    (h : iterLinearFitWith single nrm m minobj obs wxy wuv center nclip sigma accum = .ok r) :
    (r.effNclip : Int) ≤ nclip.getD 0 := by
  obtain ⟨su, s0, s, hsu, hi, hr, rfl⟩ := iter_unfold single nrm m minobj obs wxy wuv center nclip sigma accum r h
  obtain ⟨_, _, hv, _, hn, _, _⟩ := setup_ok minobj obs wxy wuv center nclip sigma su hsu
  obtain ⟨_, he, _, _⟩ := initState_ok _ _ _ hi
  have h1 := eff_le_nclip_run _ _ s0 he su.nclip s hr
  have h2 := validate_nclip_le nclip sigma su.par hv
  have h3 : su.nclip ≤ su.par.nclip := by rw [hn]; split <;> omega
  simp only [finish]
  omega

/-- **`fitmask`, the residual array and the statistics refer to the same points**: `resids` are
the residuals of the returned parameters at exactly the points selected by `fitmask` (in
order; so there are `count_nonzero(fitmask)` of them), and the statistics are those of that
residual array with the weights of those same points. -/
theorem same_points (r : IterRes K)
    (h : iterLinearFitWith single nrm m minobj obs wxy wuv center nclip sigma accum = .ok r) :
    let obsC := centreObs r.center (wmaskOf obs.length wxy wuv) obs
    r.resids = residuals r.lin (select r.fitmask obsC) ∧
    r.resids.length = count r.fitmask ∧
    r.stats = m.stats r.resids
      (statWeights nrm (wxy.map (select r.fitmask)) (wuv.map (select r.fitmask))) := by
  intro obsC
  have hp := result_is_plain_fit single nrm m minobj obs wxy wuv center nclip sigma accum r h
  have hl := (mask_subset_wmask single nrm m minobj obs wxy wuv center nclip sigma accum r h).1
  obtain ⟨su, s0, s, hsu, hi, hr, rfl⟩ := iter_unfold single nrm m minobj obs wxy wuv center nclip sigma accum r h
  obtain ⟨hx, hu, _, hw, _, _, _⟩ := setup_ok minobj obs wxy wuv center nclip sigma su hsu
  unfold fitOn at hp
  simp only at hp
  split at hp
  · cases hp
  · next lin hlin =>
    injection hp with hp
    injection hp with h1 h2 h3
    subst h1
    refine ⟨h2.symm, ?_, ?_⟩
    swap
    · rw [← h2]; exact h3.symm
    rw [← h2]
    simp only [residuals, List.length_map]
    apply select_length
    rw [hl, centreObs_length]
    rw [wmaskOf_length _ _ _ hx hu]

/-- for a non-negative integer `nclip` and a given `(nsigma, sigstat)` the argument check
depends on `nclip` only through the iteration count -/
theorem validate_nat (n : Nat) (σ : K) (st : String) :
    validate (some (n : Int)) (some (σ, st)) =
      match SigStat.ofString? st with
      | none => .error .badArg
      | some stat => if zeroK < σ then .ok { nsigma := σ, sigstat := stat, nclip := n } else .error .badArg := by
  unfold validate
  simp only [Option.getD_some]
  cases SigStat.ofString? st with
  | none => rfl
  | some stat =>
    simp only
    split
    · have : ¬ ((n : Int) < 0) := by omega
      rw [if_neg this]
      simp
    · rfl

/-- **the results for `nclip = 0, 1, 2, …` form one history** (wrapper level): either every
`nclip` gives the same exception, or there is *one* loop configuration, one `wmask`, one initial
state (the fit of all positively weighted points: `eff_nclip = 0`) and one centre such that the
answer for each `nclip` is the state of that single run after `nclip` passes (0 passes when
exactly `minobj` points have positive weight). -/
theorem prefix_history_iter (σ : K) (st : String) :
    (∃ e, ∀ n : Nat, iterLinearFitWith single nrm m minobj obs wxy wuv center (some (n : Int))
        (some (σ, st)) accum = .error e) ∨
    (∃ (c : Cfg K (FitRes K) FitErr) (w : List Bool) (s0 : St (FitRes K)) (ctr : K × K),
      Inv c w s0 ∧ s0.eff = 0 ∧ s0.done = false ∧ s0.mask = w ∧
      ∀ n : Nat, iterLinearFitWith single nrm m minobj obs wxy wuv center (some (n : Int))
          (some (σ, st)) accum
        = (run c w s0 (if count w = minobj then 0 else n)).map (finish ctr)) := by
  by_cases hl : (lenOk obs.length wxy && lenOk obs.length wuv) = true
  swap
  · left
    refine ⟨.badArg, fun n => ?_⟩
    unfold iterLinearFitWith setup
    simp [hl]
  cases hst : SigStat.ofString? st with
  | none =>
    left
    refine ⟨.badArg, fun n => ?_⟩
    unfold iterLinearFitWith setup
    simp [hl, validate_nat, hst]
  | some stat =>
    by_cases hσ : zeroK < σ
    swap
    · left
      refine ⟨.badArg, fun n => ?_⟩
      unfold iterLinearFitWith setup
      simp [hl, validate_nat, hst, hσ]
    -- the set-up succeeds for every n, and differs only in the iteration count
    set w := wmaskOf obs.length wxy wuv with hw
    set ctr := (match center with | some c => c | none => meanUV (select w obs)) with hctr
    set c := mkCfg single nrm m minobj accum ⟨σ, stat, 0⟩ (centreObs ctr w obs) wxy wuv with hc
    have hsetup : ∀ n : Nat, setup minobj obs wxy wuv center (some (n : Int)) (some (σ, st))
        = .ok ⟨⟨σ, stat, n⟩, w, if count w = minobj then 0 else n, ctr, centreObs ctr w obs⟩ := by
      intro n
      unfold setup
      simp [hl, validate_nat, hst, hσ, ← hw]
      exact ⟨rfl, rfl⟩
    have hcfg : ∀ n : Nat, mkCfg single nrm m minobj accum ⟨σ, stat, n⟩ (centreObs ctr w obs) wxy wuv = c := by
      intro n; rfl
    cases hi : initState c w with
    | error e =>
      left
      refine ⟨e, fun n => ?_⟩
      unfold iterLinearFitWith
      rw [hsetup n]
      simp only [hcfg, hi]
    | ok s0 =>
      right
      obtain ⟨hinv, he, hd, hm⟩ := initState_ok c w s0 hi
      refine ⟨c, w, s0, ctr, hinv, he, hd, hm, fun n => ?_⟩
      unfold iterLinearFitWith
      rw [hsetup n]
      simp only [hcfg, hi]
      cases run c w s0 (if count w = minobj then 0 else n) <;> rfl

end wrapper

/-! ## Non-vacuity and the pre-repair counter-example

A concrete instance on exact rationals: the `shift` fitter, the root-free metric
(`‖r‖² < nsigma²·mse`), `nsigma = 2`.  Ten points on a line: eight inliers, one outlier at 6 and
one at 100 (index 9).  The first iteration clips the 100-outlier, the second the 6-outlier. -/

def exObs : List (Obs ℚ) :=
  [⟨-1, 0, 0, 0⟩, ⟨1, 0, 0, 0⟩, ⟨-1, 0, 0, 0⟩, ⟨1, 0, 0, 0⟩, ⟨0, 0, 0, 0⟩, ⟨0, 0, 0, 0⟩,
   ⟨0, 0, 0, 0⟩, ⟨0, 0, 0, 0⟩, ⟨6, 0, 0, 0⟩, ⟨100, 0, 0, 0⟩]

def exCfg : Cfg ℚ (FitRes ℚ) FitErr :=
  mkCfg fitShifts true squared 1 false ⟨2, .rmse, 2⟩ exObs none none

def exW : List Bool := List.replicate 10 true

def exS0 : St (FitRes ℚ) :=
  match exCfg.fit exW with
  | .ok f => ⟨exW, f, 0, false⟩
  | .error _ => ⟨[], ⟨⟨0, 0, 0, 0, 0, 0⟩, [], ⟨0, 0, 0⟩⟩, 0, true⟩

/-- the repaired loop: two effective iterations, both outliers rejected, and the hypotheses of
the theorems above are met by a non-trivial input -/
example :
    (match run exCfg exW exS0 2 with
     | .ok s => s.mask == [true, true, true, true, true, true, true, true, false, false]
                && s.eff == 2 && !s.done
     | .error _ => false) = true := by decide +kernel

/-- **the pre-repair update rule lets a clipped outlier re-enter untested** (finding F2): with
`mask = wmask.copy(); mask[prev_mask] *= nonclipped` the second iteration clips the 6-outlier and
silently re-admits the 100-outlier (index 9) — which does *not* pass the test against the fit of
that iteration: `no_untested_reentry` fails for the old rule. -/
example :
    (match runOld exCfg exW exS0 1, runOld exCfg exW exS0 2 with
     | .ok s1, .ok s2 =>
        s1.mask == [true, true, true, true, true, true, true, true, true, false]   -- 100 clipped
        && s2.eff == s1.eff + 1                                                     -- effective
        && s2.mask == [true, true, true, true, true, true, true, true, false, true] -- 100 is back
        && !decide (exCfg.rnorm s1.fit 9 < exCfg.nsigma * exCfg.stat s1.fit)        -- untested: it fails
     | _, _ => false) = true := by decide +kernel

/-- non-vacuity of the stop clauses: with `nclip = 5` the same loop stops at the third pass
(the retained set no longer changes), `eff_nclip = 2 < 5`, and stays there -/
example :
    (match run exCfg exW exS0 3, run exCfg exW exS0 5 with
     | .ok s3, .ok s5 => s3.done && s3.eff == 2 && s5.done && s5.eff == 2 && s5.mask == s3.mask
     | _, _ => false) = true := by decide +kernel

/-- non-vacuity under `clip_accum` (hypothesis `c.accum = true` of `accum_monotone`) -/
example :
    (match run { exCfg with accum := true } exW exS0 1, run { exCfg with accum := true } exW exS0 2 with
     | .ok s1, .ok s2 => s1.eff == 1 && s2.eff == 2 && count s2.mask < count s1.mask && count s1.mask < 10
     | _, _ => false) = true := by decide +kernel

/-- non-vacuity of the wrapper theorems: `iter_linear_fit` (shift, exact rationals, root-free
metric, weights with one zero entry, `nclip = 3`, `nsigma = 2`) returns, with two effective
iterations, `fitmask` inside `wmask`, and as many residuals as retained points -/
example :
    (match iterLinearFitSq (K := ℚ) (1/1000000) (1/4503599627370496) .shift (exObs ++ [⟨50, 50, 0, 0⟩])
            (some [1, 1, 1, 1, 1, 1, 1, 1, 1, 1, 0]) none none (some 3) (some 2) false with
     | .ok r => r.effNclip == 2 && r.resids.length == 8
                && r.fitmask == [true, true, true, true, true, true, true, true, false, false, false]
     | .error _ => false) = true := by decide +kernel

/-! ## The root-free metric decides the same test as the code's metric

Over the reals, for `nsigma > 0`: `‖r‖ < nsigma·√mse  ↔  ‖r‖² < nsigma²·mse`; this is what lets
the driver run the clipping loop on exact rationals (`iterLinearFitSq`). -/

theorem sq_test_equiv (a b σ msq : ℝ) (hσ : 0 < σ) :
    hyp a b < σ * HasSqrt.sqrt msq ↔ a * a + b * b < σ * σ * msq :=
  sq_passes_iff a b σ msq hσ

/-- hence, over the reals and for the statistic `rmse`, the root-free instance of
`iter_linear_fit` ends exactly as the code's instance does: the same exception, or the same
`fitmask`, `eff_nclip`, parameters, centre and residual array (its `rmse` slot holding the mean
square).  Holds for every single-shot fitter, every data set and every `nclip`. -/
theorem sq_iter_equiv (single : Single ℝ) (nrm : Bool) (minobj : Nat) (obs : List (Obs ℝ))
    (wxy wuv : Option (List ℝ)) (center : Option (ℝ × ℝ)) (nclip : Option Int) (σ : ℝ) (accum : Bool) :
    match iterLinearFitWith single nrm euclid minobj obs wxy wuv center nclip (some (σ, "rmse")) accum,
          iterLinearFitWith single nrm squared minobj obs wxy wuv center nclip (some (σ, "rmse")) accum with
    | .error e1, .error e2 => e1 = e2
    | .ok r1, .ok r2 => r1.fitmask = r2.fitmask ∧ r1.effNclip = r2.effNclip ∧ r1.lin = r2.lin ∧
        r1.center = r2.center ∧ r1.resids = r2.resids ∧ r1.stats.rmse = Real.sqrt r2.stats.rmse
    | _, _ => False := by
  unfold iterLinearFitWith
  cases hsu : setup minobj obs wxy wuv center nclip (some (σ, "rmse")) with
  | error e => simp only
  | ok su =>
    simp only
    obtain ⟨_, _, hv, _, _, _, _⟩ := setup_ok minobj obs wxy wuv center nclip _ su hsu
    -- the validated parameters: nsigma = σ > 0, statistic rmse
    have hpar : su.par.nsigma = σ ∧ su.par.sigstat = .rmse ∧ 0 < σ := by
      unfold validate at hv
      have hs : SigStat.ofString? "rmse" = some .rmse := by decide
      simp only [hs, zeroK_eq] at hv
      split at hv
      · split at hv
        · cases hv
        · injection hv with hv; rw [← hv]; exact ⟨rfl, rfl, by assumption⟩
      · cases hv
    obtain ⟨hns, hst, hσ⟩ := hpar
    have hσ' : 0 < su.par.nsigma := by rw [hns]; exact hσ
    set cE := mkCfg single nrm euclid minobj accum su.par su.obs wxy wuv with hcE
    set cS := mkCfg single nrm squared minobj accum su.par su.obs wxy wuv with hcS
    have hfit : ∀ m, (∃ e, cE.fit m = .error e ∧ cS.fit m = .error e) ∨
        (∃ f1 f2, cE.fit m = .ok f1 ∧ cS.fit m = .ok f2 ∧ Rsq f1 f2) :=
      fun m => fitOn_sq single nrm su.obs wxy wuv m
    have htest : ∀ f1 f2 base, Rsq f1 f2 → test cE f1 base = test cS f2 base :=
      fun f1 f2 base hR => test_sq single nrm minobj accum su.par hσ' hst su.obs wxy wuv f1 f2 base hR
    unfold initState
    rcases hfit su.wmask with ⟨e, h1, h2⟩ | ⟨f1, f2, h1, h2, hR⟩
    · rw [h1, h2]
    · rw [h1, h2]
      simp only
      have hsim := run_sim cE cS Rsq hfit htest rfl rfl su.wmask
        ⟨su.wmask, f1, 0, false⟩ ⟨su.wmask, f2, 0, false⟩ ⟨rfl, rfl, rfl, hR⟩ su.nclip
      cases hr1 : run cE su.wmask ⟨su.wmask, f1, 0, false⟩ su.nclip with
      | error e1 =>
        cases hr2 : run cS su.wmask ⟨su.wmask, f2, 0, false⟩ su.nclip with
        | error e2 => rw [hr1, hr2] at hsim; exact hsim
        | ok s2 => rw [hr1, hr2] at hsim; exact hsim
      | ok s1 =>
        cases hr2 : run cS su.wmask ⟨su.wmask, f2, 0, false⟩ su.nclip with
        | error e2 => rw [hr1, hr2] at hsim; exact hsim
        | ok s2 =>
          rw [hr1, hr2] at hsim
          obtain ⟨hm, he, _, hl, hre, hrm⟩ := hsim
          exact ⟨hm, he, hl, rfl, hre, hrm⟩

end TW.C07
