import Proofs.C12Lemmas
import Proofs.C12PeakLemmas
import Proofs.LstsqGrid
import Mathlib.Tactic.LinearCombination
import Mathlib.Tactic.NormNum

/-!
# C12 — the 2-D histogram offset estimate is unbiased and the peak stays in bounds

Property theorems only (helper lemmas: `Proofs/C12Lemmas.lean`, `Proofs/C12PeakLemmas.lean`).
The model is `Model/Hist.lean`: `xy2dhist`, `estimateShift`, `findPeak`, a branch-by-branch model of
`tweakwcs.matchutils._xy_2dhist`, `_estimate_2dhist_shift`, `_find_peak`.  `K` is any linearly
ordered field with a floor (real arithmetic; rounding is outside the model, DESIGN.md section 3);
`numpy.linalg.lstsq` is the parameter `lsq`.
-/
open TW TW.Hist
set_option linter.unusedSectionVars false
set_option linter.unusedVariables false

namespace TW.C12
variable {K : Type} [Field K] [LinearOrder K] [IsStrictOrderedRing K] [FloorRing K]

/-- A pair difference `d` with `|d| ≤ searchrad` passes the box test of `_xy_2dhist` and falls in
the bin `k` whose offset `pscale·(k − ⌈searchrad/pscale⌉)` (the conversion used by
`_estimate_2dhist_shift`) is within half a bin of `d` — for **every** positive `pscale` and
`searchrad`, whether their ratio is an integer or not. -/
theorem bin_of_shift (pscale searchrad d : K) (hp : 0 < pscale) (hs : 0 < searchrad)
    (hd : |d| ≤ searchrad) :
    inRange (searchrad / pscale) (d / pscale) = true ∧
    ∃ k : ℕ, binIdx (ceilNat (searchrad / pscale)) (d / pscale) = some k ∧
      k ≤ 2 * ceilNat (searchrad / pscale) ∧
      |d - binToOffset searchrad pscale (k : K)| ≤ pscale / 2 := by
  have hr : 0 ≤ searchrad / pscale := le_of_lt (div_pos hs hp)
  obtain ⟨hd1, hd2⟩ := abs_le.mp hd
  have he1 : -(searchrad / pscale) ≤ d / pscale := by
    rw [← neg_div]; exact div_le_div_of_nonneg_right hd1 (le_of_lt hp)
  have he2 : d / pscale ≤ searchrad / pscale := div_le_div_of_nonneg_right hd2 (le_of_lt hp)
  have hR : searchrad / pscale ≤ (ceilNat (searchrad / pscale) : K) := by
    rw [ceilNat_eq]; exact Nat.le_ceil _
  refine ⟨?_, ?_⟩
  · rw [inRange_iff]; constructor <;> linarith
  · obtain ⟨k, hk, hk2, hlo, hhi⟩ := binIdx_spec (ceilNat (searchrad / pscale)) (d / pscale)
      (by linarith) (by linarith)
    refine ⟨k, hk, hk2, ?_⟩
    rw [binToOffset_eq _ _ _ hr, abs_le]
    have hde : d = d / pscale * pscale := by field_simp
    constructor
    · nlinarith [mul_le_mul_of_nonneg_right (le_of_lt hhi) (le_of_lt hp)]
    · nlinarith [mul_le_mul_of_nonneg_right hlo (le_of_lt hp)]

/-- Catalogs in which every image/reference pair inside the search box is a true pair with
difference exactly `(sx, sy)` (shifted copies, any number of extras, any row order), and at least
one such pair exists: the estimate is within half a bin (`pscale/2`) of the true shift in x and in y
separately (so the two are not interchanged), whatever `lsq` is. -/
theorem single_bin_estimate (lsq : Lsq K) (img ref : List (K × K)) (searchrad pscale sx sy : K)
    (hp : 0 < pscale) (hs : 0 < searchrad) (hsx : |sx| ≤ searchrad) (hsy : |sy| ≤ searchrad)
    (htrue : ∃ a ∈ img, ∃ b ∈ ref, a.1 - b.1 = sx ∧ a.2 - b.2 = sy)
    (honly : ∀ a ∈ img, ∀ b ∈ ref,
        (-searchrad - pscale / 2 ≤ a.1 - b.1 ∧ a.1 - b.1 < searchrad + pscale / 2) →
        (-searchrad - pscale / 2 ≤ a.2 - b.2 ∧ a.2 - b.2 < searchrad + pscale / 2) →
        a.1 - b.1 = sx ∧ a.2 - b.2 = sy) :
    |(estimateShift lsq img ref searchrad pscale).1 - sx| ≤ pscale / 2 ∧
    |(estimateShift lsq img ref searchrad pscale).2 - sy| ≤ pscale / 2 := by
  obtain ⟨hinx, kx, hkx, hkx2, hex⟩ := bin_of_shift pscale searchrad sx hp hs hsx
  obtain ⟨hiny, ky, hky, hky2, hey⟩ := bin_of_shift pscale searchrad sy hp hs hsy
  have hest := estimate_single lsq img ref searchrad pscale kx ky (by omega) (by omega)
    (by
      obtain ⟨a, ha, b, hb, h1, h2⟩ := htrue
      rw [mem_pairBins]
      refine ⟨(a.1 / pscale, a.2 / pscale), List.mem_map.mpr ⟨a, ha, rfl⟩,
              (b.1 / pscale, b.2 / pscale), List.mem_map.mpr ⟨b, hb, rfl⟩, ?_, ?_, ?_, ?_⟩
      · simp only; rw [← sub_div, h1]; exact hinx
      · simp only; rw [← sub_div, h2]; exact hiny
      · simp only; rw [← sub_div, h1]; exact hkx
      · simp only; rw [← sub_div, h2]; exact hky)
    (by
      intro q hq
      rw [mem_pairBins] at hq
      obtain ⟨a', ha', b', hb', h1, h2, h3, h4⟩ := hq
      obtain ⟨a, ha, rfl⟩ := List.mem_map.mp ha'
      obtain ⟨b, hb, rfl⟩ := List.mem_map.mp hb'
      simp only at h1 h2 h3 h4
      have := honly a ha b hb ((inRange_scaled pscale searchrad _ _ hp).mp h1)
        ((inRange_scaled pscale searchrad _ _ hp).mp h2)
      rw [← sub_div, this.1, hkx] at h3
      rw [← sub_div, this.2, hky] at h4
      simp only [Option.some.injEq] at h3 h4
      exact Prod.ext h3.symm h4.symm)
  unfold estimateShift
  rw [hest]
  simp only
  rw [abs_sub_comm] at hex hey
  exact ⟨hex, hey⟩

/-- No image/reference pair inside the search box: the estimate is exactly `(0, 0)`. -/
theorem no_pairs_zero (lsq : Lsq K) (img ref : List (K × K)) (searchrad pscale : K) (hp : 0 < pscale)
    (hnone : ∀ a ∈ img, ∀ b ∈ ref,
        ¬ ((-searchrad - pscale / 2 ≤ a.1 - b.1 ∧ a.1 - b.1 < searchrad + pscale / 2) ∧
           (-searchrad - pscale / 2 ≤ a.2 - b.2 ∧ a.2 - b.2 < searchrad + pscale / 2))) :
    estimateShift lsq img ref searchrad pscale = (0, 0) := by
  unfold estimateShift
  rw [estimate_noPairs]
  rw [List.eq_nil_iff_forall_not_mem]
  intro q hq
  rw [mem_pairBins] at hq
  obtain ⟨a', ha', b', hb', h1, h2, _, _⟩ := hq
  obtain ⟨a, ha, rfl⟩ := List.mem_map.mp ha'
  obtain ⟨b, hb, rfl⟩ := List.mem_map.mp hb'
  exact hnone a ha b hb ⟨(inRange_scaled pscale searchrad _ _ hp).mp h1,
    (inRange_scaled pscale searchrad _ _ hp).mp h2⟩

/-- For every non-negative data array, every mask, every `peak_fit_box ≥ 1` and **any** least-squares
oracle `lsq` whatsoever, `_find_peak` returns; its status is one of the five documented strings; the
fit box is a non-empty window of the array; and the coordinates lie inside the fit box and hence
inside the histogram (`0 ≤ x ≤ nx − 1`, `0 ≤ y ≤ ny − 1`). -/
theorem peak_in_bounds (lsq : Lsq K) (data : List (List K)) (box : ℕ)
    (mask : Option (List (List Bool))) (hbox : 1 ≤ box)
    (hny : 0 < data.length) (hnx : 0 < (data.headD []).length)
    (hnn : ∀ row ∈ data, ∀ v ∈ row, 0 ≤ v) :
    ∃ p : PeakRes K, findPeak lsq data box mask = .ok p ∧
      p.status.toString ∈ ["SUCCESS", "ERROR:NODATA", "WARNING:EDGE", "WARNING:BADFIT",
                           "WARNING:CENTER-OF-MASS"] ∧
      (p.x1 < p.x2 ∧ p.x2 ≤ (data.headD []).length ∧ p.y1 < p.y2 ∧ p.y2 ≤ data.length) ∧
      ((p.x1 : K) ≤ p.x ∧ p.x ≤ (p.x2 : K) - 1 ∧ (p.y1 : K) ≤ p.y ∧ p.y ≤ (p.y2 : K) - 1) ∧
      (0 ≤ p.x ∧ p.x ≤ ((data.headD []).length : K) - 1 ∧ 0 ≤ p.y ∧ p.y ≤ (data.length : K) - 1) := by
  have hb : InBounds data.length (data.headD []).length (findPeakCore lsq data box mask) := by
    have hs := peakBox_spec data box mask hbox hny hnx
    unfold findPeakCore
    cases hpb : peakBox data box mask with
    | done r => rw [hpb] at hs; exact hs.1
    | fit y1 y2 x1 x2 =>
      rw [hpb] at hs
      exact fitInBox_in lsq data mask _ _ y1 y2 x1 x2 hs.1 hs.2.1 hs.2.2.1 hs.2.2.2 hnn
  refine ⟨findPeakCore lsq data box mask, ?_, ?_, ?_, ?_, ?_⟩
  · unfold findPeak; rw [if_neg (by omega)]
  · cases (findPeakCore lsq data box mask).status <;> simp [PeakStatus.toString]
  · exact ⟨hb.1, hb.2.1, hb.2.2.1, hb.2.2.2.1⟩
  · exact hb.2.2.2.2
  · obtain ⟨h1, h2, h3, h4, h5, h6, h7, h8⟩ := hb
    have c1 : (0 : K) ≤ ((findPeakCore lsq data box mask).x1 : K) := Nat.cast_nonneg _
    have c2 : ((findPeakCore lsq data box mask).x2 : K) ≤ ((data.headD []).length : K) := by
      exact_mod_cast h2
    have c3 : (0 : K) ≤ ((findPeakCore lsq data box mask).y1 : K) := Nat.cast_nonneg _
    have c4 : ((findPeakCore lsq data box mask).y2 : K) ≤ (data.length : K) := by exact_mod_cast h4
    exact ⟨by linarith, by linarith, by linarith, by linarith⟩

/-- Unless the status is `ERROR:NODATA`, the returned coordinates are within `peak_fit_box − 1` pixels
(in x and in y) of a good pixel `(jmax, imax)` of maximal value: the fit box has at most
`peak_fit_box` pixels per side and contains both.  With the box of five bins used by
`_estimate_2dhist_shift` this is the "within the five-bin peak-fitting box" clause for crowded
fields (see `estimate_in_peak_box`). -/
theorem peak_near_max (lsq : Lsq K) (data : List (List K)) (box : ℕ)
    (mask : Option (List (List Bool))) (hbox : 1 ≤ box)
    (hny : 0 < data.length) (hnx : 0 < (data.headD []).length)
    (hnn : ∀ row ∈ data, ∀ v ∈ row, 0 ≤ v) :
    (findPeakCore lsq data box mask).status = .nodata ∨
    ∃ jmax imax, jmax < data.length ∧ imax < (data.headD []).length ∧ maskAt mask jmax imax = true ∧
      (∀ j i, j < data.length → i < (data.headD []).length → maskAt mask j i = true →
        at2 data j i ≤ at2 data jmax imax) ∧
      |(findPeakCore lsq data box mask).x - (imax : K)| ≤ (box : K) - 1 ∧
      |(findPeakCore lsq data box mask).y - (jmax : K)| ≤ (box : K) - 1 := by
  have hb1 : (0 : K) ≤ (box : K) - 1 := by
    have : (1 : K) ≤ (box : K) := by exact_mod_cast hbox
    linarith
  rcases peakBox_max data box mask hbox with ⟨r, hr, hst⟩ | ⟨jmax, imax, hmem, hmax, hsm⟩
  · left; unfold findPeakCore; rw [hr]; exact hst
  · obtain ⟨hj, hi, hmk⟩ := (mem_cands_iff _ _ _ _).mp hmem
    have hs := peakBox_spec data box mask hbox hny hnx
    cases hpb : peakBox data box mask with
    | done r =>
      rw [hpb] at hsm
      rcases hsm with h | ⟨_, hx, hy⟩
      · left; unfold findPeakCore; rw [hpb]; exact h
      · right
        refine ⟨jmax, imax, hj, hi, hmk, fun j i h1 h2 h3 =>
          hmax (j, i) ((mem_cands_iff _ _ _ _).mpr ⟨h1, h2, h3⟩), ?_, ?_⟩
        · unfold findPeakCore; rw [hpb]; simp only [hx, sub_self, abs_zero]; exact hb1
        · unfold findPeakCore; rw [hpb]; simp only [hy, sub_self, abs_zero]; exact hb1
    | fit y1 y2 x1 x2 =>
      rw [hpb] at hsm hs
      obtain ⟨a1, a2, a3, b1, b2, b3⟩ := hsm
      have hin := fitInBox_in lsq data mask _ _ y1 y2 x1 x2 hs.1 hs.2.1 hs.2.2.1 hs.2.2.2 hnn
      obtain ⟨e1, e2, e3, e4⟩ := fitInBox_box lsq data mask y1 y2 x1 x2
      obtain ⟨_, _, _, _, c1, c2, c3, c4⟩ := hin
      rw [e3] at c1; rw [e4] at c2; rw [e1] at c3; rw [e2] at c4
      right
      refine ⟨jmax, imax, hj, hi, hmk, fun j i h1 h2 h3 =>
        hmax (j, i) ((mem_cands_iff _ _ _ _).mpr ⟨h1, h2, h3⟩), ?_, ?_⟩
      · unfold findPeakCore; rw [hpb]; simp only
        have k1 : (x1 : K) ≤ (imax : K) := by exact_mod_cast a1
        have k2 : (imax : K) + 1 ≤ (x2 : K) := by exact_mod_cast a2
        have k3 : (x2 : K) ≤ (x1 : K) + (box : K) := by
          have : x2 ≤ x1 + box := by omega
          exact_mod_cast this
        rw [abs_le]; constructor <;> linarith
      · unfold findPeakCore; rw [hpb]; simp only
        have k1 : (y1 : K) ≤ (jmax : K) := by exact_mod_cast b1
        have k2 : (jmax : K) + 1 ≤ (y2 : K) := by exact_mod_cast b2
        have k3 : (y2 : K) ≤ (y1 : K) + (box : K) := by
          have : y2 ≤ y1 + box := by omega
          exact_mod_cast this
        rw [abs_le]; constructor <;> linarith

/-- **Crowded fields.**  Whenever `_estimate_2dhist_shift` returns through the peak finder (two or
more non-zero bins, no error), the estimate is within four bins (`4·pscale`, the five-bin fit box) in
x and in y of the offset of a *highest* bin `(ky, kx)` of the histogram: if the true pairs make their
bin the highest one, the estimate is within the five-bin box around the true shift. -/
theorem estimate_in_peak_box (lsq : Lsq K) (img ref : List (K × K)) (searchrad pscale : K)
    (st : PeakStatus)
    (hbr : (estimateShiftFull lsq img ref searchrad pscale).branch = .peak st) :
    ∃ ky kx : ℕ,
      0 < natAt (xy2dhist (img.map fun a => (a.1 / pscale, a.2 / pscale))
                  (ref.map fun b => (b.1 / pscale, b.2 / pscale)) (searchrad / pscale)) ky kx ∧
      (∀ j i, natAt (xy2dhist (img.map fun a => (a.1 / pscale, a.2 / pscale))
                  (ref.map fun b => (b.1 / pscale, b.2 / pscale)) (searchrad / pscale)) j i
            ≤ natAt (xy2dhist (img.map fun a => (a.1 / pscale, a.2 / pscale))
                  (ref.map fun b => (b.1 / pscale, b.2 / pscale)) (searchrad / pscale)) ky kx) ∧
      |(estimateShiftFull lsq img ref searchrad pscale).x - binToOffset searchrad pscale (kx : K)|
        ≤ 4 * |pscale| ∧
      |(estimateShiftFull lsq img ref searchrad pscale).y - binToOffset searchrad pscale (ky : K)|
        ≤ 4 * |pscale| := by
  unfold estimateShiftFull at hbr ⊢
  simp only at hbr ⊢
  generalize hzp : xy2dhist (img.map fun a => (a.1 / pscale, a.2 / pscale))
      (ref.map fun b => (b.1 / pscale, b.2 / pscale)) (searchrad / pscale) = zp at hbr ⊢
  have hlen : zp.length = 2 * ceilNat (searchrad / pscale) + 1 := by
    rw [← hzp]; unfold xy2dhist; exact histOfBins_length _ _
  have hhead : (zp.headD []).length = 2 * ceilNat (searchrad / pscale) + 1 := by
    rw [← hzp]; unfold xy2dhist; exact histOfBins_head_length _ _ (by omega)
  split at hbr
  · simp at hbr
  · split at hbr
    · simp at hbr
    · split at hbr
      · simp at hbr
      · next h0 h1 herr =>
        rw [if_neg h0, if_neg h1, if_neg herr]
        simp only
        set D : List (List K) := zp.map fun row => row.map fun (c : ℕ) => (c : K) with hD
        set M : Option (List (List Bool)) :=
          some (zp.map fun row => row.map fun (c : ℕ) => decide (0 < c)) with hM
        have hDlen : D.length = zp.length := by simp [hD]
        have hDhead : (D.headD []).length = (zp.headD []).length := by
          rw [hD]; cases zp <;> simp
        have hnn : ∀ row ∈ D, ∀ v ∈ row, (0 : K) ≤ v := by
          intro row hrow v hv
          rw [hD] at hrow
          obtain ⟨r0, _, rfl⟩ := List.mem_map.mp hrow
          obtain ⟨c, _, rfl⟩ := List.mem_map.mp hv
          exact Nat.cast_nonneg c
        rcases peak_near_max lsq D 5 M (by norm_num) (by rw [hDlen, hlen]; omega)
          (by rw [hDhead, hhead]; omega) hnn with hnd | ⟨jmax, imax, hj, hi, hmk, hmax, hx, hy⟩
        · exfalso; apply herr; rw [hnd]; rfl
        · rw [hM, maskAt_pos] at hmk
          have hpos : 0 < natAt zp jmax imax := by simpa using hmk
          refine ⟨jmax, imax, hpos, ?_, ?_, ?_⟩
          · intro j i
            by_cases hz : natAt zp j i = 0
            · omega
            · have hji : j < zp.length ∧ i < (zp.headD []).length := by
                rw [hlen, hhead]
                rw [← hzp] at hz
                unfold xy2dhist at hz
                rw [natAt_histOfBins] at hz
                by_contra hcon
                rw [if_neg hcon] at hz
                exact hz rfl
              have := hmax j i (by rw [hDlen]; exact hji.1) (by rw [hDhead]; exact hji.2)
                (by rw [hM, maskAt_pos]; simp; omega)
              rw [hD, at2_cast, at2_cast] at this
              exact_mod_cast this
          · rw [binToOffset_sub, abs_mul]
            have : |(findPeakCore lsq D 5 M).x - (imax : K)| ≤ 4 := by
              have := hx; norm_num at this ⊢; exact this
            nlinarith [abs_nonneg pscale]
          · rw [binToOffset_sub, abs_mul]
            have : |(findPeakCore lsq D 5 M).y - (jmax : K)| ≤ 4 := by
              have := hy; norm_num at this ⊢; exact this
            nlinarith [abs_nonneg pscale]

/-- `peak_fit_box < 1` is rejected (`ValueError`). -/
theorem bad_box_rejected (lsq : Lsq K) (data : List (List K)) (mask : Option (List (List Bool))) :
    findPeak lsq data 0 mask = .error .badBox := rfl

/-- If the discrete peak search ends with fit box `[y1, y2) × [x1, x2)` holding at least six good
pixels, and `lsq` returns the exact coefficients (in the box-relative coordinates `x = i − x1 + 1`,
`y = j − y1 + 1` used by the code) of the concave paraboloid
`A − a (i − X0)² − b (i − X0)(j − Y0) − c (j − Y0)²` (`a > 0`, `4ac − b² > 0`) whose vertex
`(X0, Y0)` — in array coordinates — lies inside the box, then `_find_peak` returns exactly the
vertex, with status `SUCCESS`: the vertex formula, the box offset `x1 − 1`, `y1 − 1` and the order of
the coordinates are right. -/
theorem paraboloid_vertex (lsq : Lsq K) (data : List (List K)) (box : ℕ)
    (mask : Option (List (List Bool))) (y1 y2 x1 x2 : ℕ) (A a b c X0 Y0 : K) (co : QCoef K)
    (hbox : 1 ≤ box)
    (hsearch : peakBox data box mask = .fit y1 y2 x1 x2)
    (hpts : 6 ≤ (boxPoints data mask y1 y2 x1 x2).length)
    (hlsq : lsq ((boxPoints data mask y1 y2 x1 x2).map designRow)
              ((boxPoints data mask y1 y2 x1 x2).map fun p => p.2.2) = some co)
    (hco : ∀ x y : K,
        co.c00 + co.c10 * x + co.c01 * y + co.c11 * (x * y) + co.c20 * (x * x) + co.c02 * (y * y)
          = A - a * (x + x1 - 1 - X0) ^ 2 - b * (x + x1 - 1 - X0) * (y + y1 - 1 - Y0)
              - c * (y + y1 - 1 - Y0) ^ 2)
    (ha : 0 < a) (hdet : 0 < 4 * a * c - b ^ 2)
    (hX : (x1 : K) ≤ X0 ∧ X0 ≤ (x2 : K) - 1) (hY : (y1 : K) ≤ Y0 ∧ Y0 ≤ (y2 : K) - 1) :
    findPeak lsq data box mask = .ok ⟨X0, Y0, .success, y1, y2, x1, x2⟩ := by
  have h20 : co.c20 = -a := by
    linear_combination (1 / 2 : K) * hco 1 0 + (1 / 2 : K) * hco (-1) 0 - hco 0 0
  have h02 : co.c02 = -c := by
    linear_combination (1 / 2 : K) * hco 0 1 + (1 / 2 : K) * hco 0 (-1) - hco 0 0
  have h11 : co.c11 = -b := by
    linear_combination hco 1 1 - hco 1 0 - hco 0 1 + hco 0 0
  have h10 : co.c10 = 2 * a * (X0 - x1 + 1) + b * (Y0 - y1 + 1) := by
    linear_combination (1 / 2 : K) * hco 1 0 - (1 / 2 : K) * hco (-1) 0
  have h01 : co.c01 = 2 * c * (Y0 - y1 + 1) + b * (X0 - x1 + 1) := by
    linear_combination (1 / 2 : K) * hco 0 1 - (1 / 2 : K) * hco 0 (-1)
  have hq : quadDet co = 4 * a * c - b ^ 2 := by
    unfold quadDet; rw [h20, h02, h11]; simp; ring
  have hne : (4 * a * c - b ^ 2) ≠ 0 := ne_of_gt hdet
  have hvx : vertexX co x1 = X0 := by
    unfold vertexX; rw [hq]; simp only [h02, h11, h10, h01, twoK_eq, oneK_eq]
    have hnum : (2 * c * (Y0 - y1 + 1) + b * (X0 - x1 + 1)) * -b
        - 2 * -c * (2 * a * (X0 - x1 + 1) + b * (Y0 - y1 + 1))
        = (4 * a * c - b ^ 2) * (X0 - x1 + 1) := by ring
    rw [hnum, mul_div_cancel_left₀ _ hne]; ring
  have hvy : vertexY co y1 = Y0 := by
    unfold vertexY; rw [hq]; simp only [h20, h11, h10, h01, twoK_eq, oneK_eq]
    have hnum : (2 * a * (X0 - x1 + 1) + b * (Y0 - y1 + 1)) * -b
        - 2 * (2 * c * (Y0 - y1 + 1) + b * (X0 - x1 + 1)) * -a
        = (4 * a * c - b ^ 2) * (Y0 - y1 + 1) := by ring
    rw [hnum, mul_div_cancel_left₀ _ hne]; ring
  have hmax : noMax co = false := by
    unfold noMax
    rw [hq, h20]
    have h1 : leK (4 * a * c - b ^ 2) (zeroK : K) = false := by
      rw [leK_false_iff]; simpa using hdet
    have h2 : decide ((zeroK : K) < -a) = false := by
      simp only [zeroK_eq, decide_eq_false_iff_not, not_lt]; linarith
    have h3 : leK (zeroK : K) (-a) = false := by
      rw [leK_false_iff]; simp only [zeroK_eq]; linarith
    rw [h1, h2, h3]; rfl
  have hsx : inSpan x1 x2 (vertexX co x1) = true := by
    rw [hvx]; unfold inSpan
    rw [Bool.and_eq_true, leK_iff, leK_iff]; simpa using hX
  have hsy : inSpan y1 y2 (vertexY co y1) = true := by
    rw [hvy]; unfold inSpan
    rw [Bool.and_eq_true, leK_iff, leK_iff]; simpa using hY
  unfold findPeak findPeakCore
  rw [if_neg (by omega), hsearch]
  simp only
  rw [fitInBox_success lsq data mask y1 y2 x1 x2 co hpts hlsq hmax hsx hsy, hvx, hvy]

/-- The same conclusion when `lsq` is only known to be a **least-squares solution**: its residual is
orthogonal to every quadratic polynomial on the good pixels of the box (the normal equations
`Vᵀ(V c − d) = 0`, which `numpy.linalg.lstsq` solves).  If the good pixels of the fit box are samples
of the concave paraboloid `A − a (i − X0)² − b (i − X0)(j − Y0) − c (j − Y0)²` and contain a full 3×3
block (so that the design matrix has full column rank), the fit reproduces the paraboloid and
`_find_peak` returns its vertex exactly. -/
theorem paraboloid_vertex_lstsq (lsq : Lsq K) (data : List (List K)) (box : ℕ)
    (mask : Option (List (List Bool))) (y1 y2 x1 x2 : ℕ) (A a b c X0 Y0 : K) (co : QCoef K)
    (hbox : 1 ≤ box)
    (hsearch : peakBox data box mask = .fit y1 y2 x1 x2)
    (hpts : 6 ≤ (boxPoints data mask y1 y2 x1 x2).length)
    (hlsq : lsq ((boxPoints data mask y1 y2 x1 x2).map designRow)
              ((boxPoints data mask y1 y2 x1 x2).map fun p => p.2.2) = some co)
    (hnormal : ∀ t : QCoef K, ((boxPoints data mask y1 y2 x1 x2).map fun p =>
        evalQ t (p.1 : K) (p.2.1 : K) * (evalQ co (p.1 : K) (p.2.1 : K) - p.2.2)).sum = 0)
    (hsamp : ∀ j i, y1 ≤ j → j < y2 → x1 ≤ i → i < x2 → maskAt mask j i = true →
        at2 data j i = A - a * ((i : K) - X0) ^ 2 - b * ((i : K) - X0) * ((j : K) - Y0)
                        - c * ((j : K) - Y0) ^ 2)
    (hgrid : ∃ i0 j0, x1 ≤ i0 ∧ i0 + 2 < x2 ∧ y1 ≤ j0 ∧ j0 + 2 < y2 ∧
        ∀ p q : ℕ, p ≤ 2 → q ≤ 2 → maskAt mask (j0 + q) (i0 + p) = true)
    (ha : 0 < a) (hdet : 0 < 4 * a * c - b ^ 2)
    (hX : (x1 : K) ≤ X0 ∧ X0 ≤ (x2 : K) - 1) (hY : (y1 : K) ≤ Y0 ∧ Y0 ≤ (y2 : K) - 1) :
    findPeak lsq data box mask = .ok ⟨X0, Y0, .success, y1, y2, x1, x2⟩ := by
  set u0 : K := X0 - x1 + 1 with hu0
  set v0 : K := Y0 - y1 + 1 with hv0
  -- the exact coefficients in box coordinates
  set cs : QCoef K := ⟨A - a * u0 ^ 2 - b * u0 * v0 - c * v0 ^ 2, 2 * a * u0 + b * v0,
    2 * c * v0 + b * u0, -b, -a, -c⟩ with hcs
  have hcsv : ∀ x y : K, evalQ cs x y
      = A - a * (x + x1 - 1 - X0) ^ 2 - b * (x + x1 - 1 - X0) * (y + y1 - 1 - Y0)
          - c * (y + y1 - 1 - Y0) ^ 2 := by
    intro x y; simp only [evalQ, hcs, hu0, hv0]; ring
  -- the data at the good pixels are the values of `cs`
  have hd : ∀ p ∈ boxPoints data mask y1 y2 x1 x2, p.2.2 = evalQ cs (p.1 : K) (p.2.1 : K) := by
    intro p hp
    obtain ⟨j, i, h1, h2, h3, h4, hm, rfl⟩ := mem_boxPoints data mask y1 y2 x1 x2 p hp
    simp only
    rw [hsamp j i h1 h2 h3 h4 hm, hcsv]
    have e1 : ((i - x1 + 1 : ℕ) : K) = (i : K) - x1 + 1 := by
      rw [Nat.cast_add, Nat.cast_sub h3]; simp
    have e2 : ((j - y1 + 1 : ℕ) : K) = (j : K) - y1 + 1 := by
      rw [Nat.cast_add, Nat.cast_sub h1]; simp
    rw [e1, e2]; ring
  -- the difference polynomial
  set dl : QCoef K := ⟨co.c00 - cs.c00, co.c10 - cs.c10, co.c01 - cs.c01, co.c11 - cs.c11,
    co.c20 - cs.c20, co.c02 - cs.c02⟩ with hdl
  have hdlv : ∀ x y : K, evalQ dl x y = evalQ co x y - evalQ cs x y := by
    intro x y; simp only [evalQ, hdl]; ring
  have hsq : ((boxPoints data mask y1 y2 x1 x2).map fun p =>
      evalQ dl (p.1 : K) (p.2.1 : K) * evalQ dl (p.1 : K) (p.2.1 : K)).sum = 0 := by
    rw [← hnormal dl]
    congr 1
    apply List.map_congr_left
    intro p hp
    rw [hd p hp, ← hdlv]
  have hvanish := sum_sq_zero _ (fun p : ℕ × ℕ × K => evalQ dl (p.1 : K) (p.2.1 : K)) hsq
  obtain ⟨i0, j0, g1, g2, g3, g4, gm⟩ := hgrid
  have hzero := quad_zero_of_grid dl ((i0 - x1 + 1 : ℕ) : K) ((j0 - y1 + 1 : ℕ) : K) (by
    intro p q hp hq
    have hmem := mem_boxPoints_of data mask y1 y2 x1 x2 (j0 + q) (i0 + p) (by omega) (by omega)
      (by omega) (by omega) (gm p q hp hq)
    have := hvanish _ hmem
    simp only at this
    have e1 : ((i0 + p - x1 + 1 : ℕ) : K) = ((i0 - x1 + 1 : ℕ) : K) + (p : K) := by
      have : i0 + p - x1 + 1 = (i0 - x1 + 1) + p := by omega
      rw [this]; push_cast; ring
    have e2 : ((j0 + q - y1 + 1 : ℕ) : K) = ((j0 - y1 + 1 : ℕ) : K) + (q : K) := by
      have : j0 + q - y1 + 1 = (j0 - y1 + 1) + q := by omega
      rw [this]; push_cast; ring
    rw [e1, e2] at this
    exact this)
  obtain ⟨z00, z10, z01, z11, z20, z02⟩ := hzero
  simp only [hdl] at z00 z10 z01 z11 z20 z02
  have hco : ∀ x y : K,
      co.c00 + co.c10 * x + co.c01 * y + co.c11 * (x * y) + co.c20 * (x * x) + co.c02 * (y * y)
        = A - a * (x + x1 - 1 - X0) ^ 2 - b * (x + x1 - 1 - X0) * (y + y1 - 1 - Y0)
            - c * (y + y1 - 1 - Y0) ^ 2 := by
    intro x y
    rw [← hcsv x y]
    simp only [evalQ]
    rw [sub_eq_zero.mp z00, sub_eq_zero.mp z10, sub_eq_zero.mp z01, sub_eq_zero.mp z11,
      sub_eq_zero.mp z20, sub_eq_zero.mp z02]
  exact paraboloid_vertex lsq data box mask y1 y2 x1 x2 A a b c X0 Y0 co hbox hsearch hpts hlsq hco
    ha hdet hX hY

/-! ### finding F3: the conversion used before the repair is biased -/

/-- the conversion of a bin index to an offset before the repair: `pscale * xp - searchrad` -/
def oldOffset (searchrad pscale xp : K) : K := pscale * xp - searchrad

/-- with `searchrad = 3`, `pscale = 7/10` (ratio `30/7`, not an integer) a zero difference falls in
bin `5 = ⌈30/7⌉`, which the old conversion reports as offset `1/2`: more than half a bin (`7/20`)
from the truth, while the repaired conversion reports `0` -/
example : binIdx (ceilNat ((3 : ℚ) / (7 / 10))) ((0 : ℚ) / (7 / 10)) = some 5 ∧
    ¬ (|(0 : ℚ) - oldOffset 3 (7 / 10) ((5 : ℕ) : ℚ)| ≤ (7 / 10) / 2) ∧
    binToOffset (3 : ℚ) (7 / 10) ((5 : ℕ) : ℚ) = 0 := by
  refine ⟨by decide +kernel, by norm_num [oldOffset], by decide +kernel⟩

/-! ### non-vacuity -/

-- bin_of_shift / single_bin_estimate: a three-source catalog shifted by (7/5, -7/10) with
-- pscale = 7/10, searchrad = 3 (ratio 30/7): the estimate is exactly the shift
example : estimateShift (K := ℚ) (fun _ _ => none)
    [(7 / 5, -7 / 10), (507 / 5, 193 / 10), (-493 / 5, 493 / 10)] [(0, 0), (100, 20), (-100, 50)]
    3 (7 / 10) = (7 / 5, -7 / 10) := by decide +kernel

-- no_pairs_zero: the same catalogs 40 units apart
example : estimateShift (K := ℚ) (fun _ _ => none)
    [(40, 0), (140, 20)] [(0, 0), (100, 20)] 3 (7 / 10) = (0, 0) := by decide +kernel

-- peak_in_bounds / paraboloid_vertex: the samples of 10 − (i − 9/4)² − (j − 7/4)² on a 5×5 array;
-- the exact coefficients in box coordinates give back the vertex (9/4, 7/4)
def paraData : List (List ℚ) :=
  (List.range 5).map fun j => (List.range 5).map fun i =>
    10 - ((i : ℚ) - 9 / 4) ^ 2 - ((j : ℚ) - 7 / 4) ^ 2

example : peakBox paraData 5 none = .fit 0 5 0 5 := by decide +kernel

example : findPeak (fun _ _ => some ⟨10 - (13 / 4) ^ 2 - (11 / 4) ^ 2, 13 / 2, 11 / 2, 0, -1, -1⟩)
    paraData 5 none = .ok ⟨9 / 4, 7 / 4, .success, 0, 5, 0, 5⟩ := by decide +kernel

-- a masked histogram with fewer than six good pixels: centre of mass, inside the box
example : findPeak (K := ℚ) (fun _ _ => none)
    [[0, 0, 0, 0], [0, 3, 1, 0], [0, 0, 0, 0]] 5
    (some [[false, false, false, false], [false, true, true, false], [false, false, false, false]])
    = .ok ⟨5 / 4, 1, .centerOfMass, 0, 3, 0, 4⟩ := by decide +kernel

end TW.C12

/-!
## The least-squares call made concrete (`Model/Lstsq.lean`)

`numpy.linalg.lstsq` is no longer only a parameter: `lstsqNormal` solves the normal equations
`(AᵀA) c = Aᵀ b` of the six-column design matrix of `_find_peak` by elimination (`none` when the normal
matrix is singular), `lstsqMinNorm` is numpy's documented result in every case (the least-squares
solution of minimum norm), and `findPeakConcrete = findPeak (lstsqLsq ·)` is a closed function.
`rtol = 0`: exact arithmetic.  Helper lemmas: `Proofs/LstsqLemmas.lean`, `Proofs/LstsqPeak.lean`,
`Proofs/LstsqGrid.lean`.
-/
namespace TW.C12
open TW.Lstsq
variable {K : Type} [Field K] [LinearOrder K] [IsStrictOrderedRing K]

/-- Whenever `lstsqNormal` returns `c`, `‖A c − b‖² ≤ ‖A c' − b‖²` for every `c'`: a solution of the
normal equations is a global minimum of the sum of squared residuals. -/
theorem lstsqNormal_is_least_squares (rows : List (List K)) (d : List K)
    (hlen : d.length = rows.length) (c : QCoef K) (h : lstsqNormal 0 rows d = some c)
    (c' : QCoef K) : resid2 rows d c ≤ resid2 rows d c' :=
  lstsqNormal_optimal rows d hlen c h c'

/-- `lstsqNormal` returns exactly when the normal matrix `AᵀA` is regular (full column rank) … -/
theorem lstsqNormal_returns_iff_regular (rows : List (List K)) (d : List K)
    (hlen : d.length = rows.length) :
    (∃ c, lstsqNormal 0 rows d = some c) ↔ (toM (gramRows 6 rows)).det ≠ 0 := by
  rw [← rank_six_iff rows d hlen]
  constructor
  · rintro ⟨c, hc⟩; exact (lstsqNormal_eq_some rows d c hc).1
  · intro h; exact ⟨_, lstsqNormal_of_rank rows d h⟩

/-- … and returns `none` exactly when it is singular (rank-deficient design). -/
theorem lstsqNormal_none_iff_singular (rows : List (List K)) (d : List K)
    (hlen : d.length = rows.length) :
    lstsqNormal 0 rows d = none ↔ (toM (gramRows 6 rows)).det = 0 := by
  have h := lstsqNormal_returns_iff_regular rows d hlen
  constructor
  · intro hn
    by_contra hdet
    obtain ⟨c, hc⟩ := h.mpr hdet
    rw [hn] at hc; cases hc
  · intro hdet
    cases hc : lstsqNormal 0 rows d with
    | none => rfl
    | some c => exact absurd hdet (h.mp ⟨c, hc⟩)

/-- Exact data: if `b = A c0` and the normal matrix is regular, the result is `c0`. -/
theorem lstsqNormal_exact (rows : List (List K)) (c0 : QCoef K)
    (hreg : (toM (gramRows 6 rows)).det ≠ 0) :
    lstsqNormal 0 rows (rows.map fun r => rowDot r c0) = some c0 :=
  lstsqNormal_exact' rows c0 hreg

/-- What `findPeak` is handed (`lstsqLsq`, numpy's result): always a least-squares solution, of
minimum Euclidean norm among all least-squares solutions, and the only such vector — also when the
design matrix is rank deficient (good pixels on a conic), where `_find_peak` goes on with these
coefficients. -/
theorem lstsqLsq_least_squares_min_norm (rows : List (List K)) (d : List K)
    (hlen : d.length = rows.length) :
    ∃ c, lstsqLsq 0 rows d = some c ∧
      (∀ c', resid2 rows d c ≤ resid2 rows d c') ∧
      (∀ c', resid2 rows d c' ≤ resid2 rows d c → norm2 c ≤ norm2 c') ∧
      (∀ c', resid2 rows d c' ≤ resid2 rows d c → norm2 c' ≤ norm2 c → c' = c) :=
  ⟨lstsqMinNorm 0 rows d, rfl, lstsqMinNorm_optimal rows d hlen, lstsqMinNorm_min rows d hlen,
    lstsqMinNorm_uniq rows d hlen⟩

/-- On a regular normal matrix `lstsqLsq` is `lstsqNormal`. -/
theorem lstsqLsq_eq_normal (rows : List (List K)) (d : List K) (c : QCoef K)
    (h : lstsqNormal 0 rows d = some c) : lstsqLsq 0 rows d = some c := by
  unfold lstsqLsq
  rw [lstsqMinNorm_of_normal rows d c h]

/-- **Full column rank on a sub-grid.**  If the points contain the product of three distinct
abscissae and three distinct ordinates, the six monomials `1, x, y, xy, x², y²` are linearly
independent on them: the normal matrix is regular and `lstsqNormal` returns, whatever the data. -/
theorem design_full_rank_of_subgrid (pts : List (ℕ × ℕ × K)) (xs ys : Fin 3 → ℕ)
    (hx : Function.Injective xs) (hy : Function.Injective ys)
    (hmem : ∀ a b, ∃ v, (xs a, ys b, v) ∈ pts) :
    (toM (gramRows 6 (pts.map designRow))).det ≠ 0 ∧
    ∀ d : List K, d.length = pts.length → ∃ c, lstsqNormal 0 (pts.map designRow) d = some c :=
  ⟨design_regular_of_subgrid pts xs ys hx hy hmem,
   fun d hd => lstsqNormal_of_subgrid pts xs ys hx hy hmem d hd⟩

/-- The same for a fit box of `_find_peak`: three distinct columns `is` and three distinct rows `js`
of the box whose nine crossings are good pixels. -/
theorem design_full_rank_box_subgrid (data : List (List K)) (mask : Option (List (List Bool)))
    (y1 y2 x1 x2 : ℕ) (is js : Fin 3 → ℕ) (hi : Function.Injective is) (hj : Function.Injective js)
    (hib : ∀ a, x1 ≤ is a ∧ is a < x2) (hjb : ∀ b, y1 ≤ js b ∧ js b < y2)
    (hm : ∀ a b, maskAt mask (js b) (is a) = true) :
    9 ≤ (boxPoints data mask y1 y2 x1 x2).length ∧
    (toM (gramRows 6 ((boxPoints data mask y1 y2 x1 x2).map designRow))).det ≠ 0 ∧
    ∃ c, lstsqNormal 0 ((boxPoints data mask y1 y2 x1 x2).map designRow)
      ((boxPoints data mask y1 y2 x1 x2).map fun p => p.2.2) = some c := by
  obtain ⟨hxi, hyi, hmem⟩ := boxPoints_subgrid data mask y1 y2 x1 x2 is js hi hj hib hjb hm
  exact ⟨subgrid_length _ _ _ hxi hyi hmem, design_regular_of_subgrid _ _ _ hxi hyi hmem,
    lstsqNormal_of_subgrid _ _ _ hxi hyi hmem _ (by simp)⟩

/-- The full `peak_fit_box × peak_fit_box` box (any box of at least 3 columns and 3 rows) without a
masked pixel has full column rank, for every size. -/
theorem design_full_rank_full_box (data : List (List K)) (mask : Option (List (List Bool)))
    (y1 y2 x1 x2 : ℕ) (hx : x1 + 3 ≤ x2) (hy : y1 + 3 ≤ y2)
    (hm : ∀ j i, y1 ≤ j → j < y2 → x1 ≤ i → i < x2 → maskAt mask j i = true) :
    (toM (gramRows 6 ((boxPoints data mask y1 y2 x1 x2).map designRow))).det ≠ 0 ∧
    ∃ c, lstsqNormal 0 ((boxPoints data mask y1 y2 x1 x2).map designRow)
      ((boxPoints data mask y1 y2 x1 x2).map fun p => p.2.2) = some c :=
  (design_full_rank_box_subgrid data mask y1 y2 x1 x2 (first3 x1) (first3 y1) (first3_inj x1)
    (first3_inj y1) (fun a => by unfold first3; omega) (fun b => by unfold first3; omega)
    (fun a b => hm _ _ (by unfold first3; omega) (by unfold first3; omega)
      (by unfold first3; omega) (by unfold first3; omega))).2

/-- Every fit box that `_find_peak` reaches (the EDGE test passed) has at least three columns and
rows, so without a mask the fit is always uniquely determined. -/
theorem fit_box_unmasked_full_rank (data : List (List K)) (box : ℕ) (hbox : 1 ≤ box)
    (y1 y2 x1 x2 : ℕ) (hsearch : peakBox data box none = .fit y1 y2 x1 x2) :
    ∃ c, lstsqNormal 0 ((boxPoints data none y1 y2 x1 x2).map designRow)
      ((boxPoints data none y1 y2 x1 x2).map fun p => p.2.2) = some c := by
  obtain ⟨hx, hy⟩ := peakBox_fit_width data box none hbox y1 y2 x1 x2 hsearch
  exact (design_full_rank_full_box data none y1 y2 x1 x2 hx hy (fun _ _ _ _ _ _ => rfl)).2

section
variable [FloorRing K]

/-- **`paraboloid_vertex` with nothing assumed about `lstsq`.**  If the discrete peak search ends with
fit box `[y1, y2) × [x1, x2)`, the good pixels of the box are samples of the concave paraboloid
`A − a (i − X0)² − b (i − X0)(j − Y0) − c (j − Y0)²` (`a > 0`, `4ac − b² > 0`) whose vertex lies in the
box, and they include the nine crossings of three distinct columns and three distinct rows, then
`_find_peak` — with the concrete least-squares solver — returns exactly the vertex, with status
`SUCCESS`. -/
theorem paraboloid_vertex_concrete (data : List (List K)) (box : ℕ)
    (mask : Option (List (List Bool))) (y1 y2 x1 x2 : ℕ) (A a b c X0 Y0 : K)
    (hbox : 1 ≤ box)
    (hsearch : peakBox data box mask = .fit y1 y2 x1 x2)
    (hsamp : ∀ j i, y1 ≤ j → j < y2 → x1 ≤ i → i < x2 → maskAt mask j i = true →
        at2 data j i = A - a * ((i : K) - X0) ^ 2 - b * ((i : K) - X0) * ((j : K) - Y0)
                        - c * ((j : K) - Y0) ^ 2)
    (hgrid : ∃ is js : Fin 3 → ℕ, Function.Injective is ∧ Function.Injective js ∧
        (∀ p, x1 ≤ is p ∧ is p < x2) ∧ (∀ q, y1 ≤ js q ∧ js q < y2) ∧
        ∀ p q, maskAt mask (js q) (is p) = true)
    (ha : 0 < a) (hdet : 0 < 4 * a * c - b ^ 2)
    (hX : (x1 : K) ≤ X0 ∧ X0 ≤ (x2 : K) - 1) (hY : (y1 : K) ≤ Y0 ∧ Y0 ≤ (y2 : K) - 1) :
    findPeakConcrete 0 data box mask = .ok ⟨X0, Y0, .success, y1, y2, x1, x2⟩ := by
  obtain ⟨is, js, hi, hj, hib, hjb, hm⟩ := hgrid
  obtain ⟨h9, hreg, _⟩ := design_full_rank_box_subgrid data mask y1 y2 x1 x2 is js hi hj hib hjb hm
  set u0 : K := X0 - x1 + 1 with hu0
  set v0 : K := Y0 - y1 + 1 with hv0
  -- the exact coefficients in box coordinates
  set cs : QCoef K := ⟨A - a * u0 ^ 2 - b * u0 * v0 - c * v0 ^ 2, 2 * a * u0 + b * v0,
    2 * c * v0 + b * u0, -b, -a, -c⟩ with hcs
  have hcsv : ∀ x y : K, evalQ cs x y
      = A - a * (x + x1 - 1 - X0) ^ 2 - b * (x + x1 - 1 - X0) * (y + y1 - 1 - Y0)
          - c * (y + y1 - 1 - Y0) ^ 2 := by
    intro x y; simp only [evalQ, hcs, hu0, hv0]; ring
  -- the data at the good pixels are the values of `cs`
  have hd : ∀ p ∈ boxPoints data mask y1 y2 x1 x2, p.2.2 = evalQ cs (p.1 : K) (p.2.1 : K) := by
    intro p hp
    obtain ⟨j, i, h1, h2, h3, h4, hmk, rfl⟩ := mem_boxPoints data mask y1 y2 x1 x2 p hp
    simp only
    rw [hsamp j i h1 h2 h3 h4 hmk, hcsv]
    have e1 : ((i - x1 + 1 : ℕ) : K) = (i : K) - x1 + 1 := by
      rw [Nat.cast_add, Nat.cast_sub h3]; simp
    have e2 : ((j - y1 + 1 : ℕ) : K) = (j : K) - y1 + 1 := by
      rw [Nat.cast_add, Nat.cast_sub h1]; simp
    rw [e1, e2]; ring
  have hdata : ((boxPoints data mask y1 y2 x1 x2).map fun p => p.2.2)
      = ((boxPoints data mask y1 y2 x1 x2).map designRow).map fun r => rowDot r cs := by
    rw [List.map_map]
    apply List.map_congr_left
    intro p hp
    rw [hd p hp, Function.comp_apply, rowDot_designRow]
  have hN : lstsqNormal 0 ((boxPoints data mask y1 y2 x1 x2).map designRow)
      ((boxPoints data mask y1 y2 x1 x2).map fun p => p.2.2) = some cs := by
    rw [hdata]; exact lstsqNormal_exact' _ cs hreg
  have hL := lstsqLsq_eq_normal _ _ cs hN
  exact paraboloid_vertex (lstsqLsq 0) data box mask y1 y2 x1 x2 A a b c X0 Y0 cs hbox hsearch
    (by omega) hL (fun x y => by have := hcsv x y; simp only [evalQ] at this; exact this)
    ha hdet hX hY

/-- Without a mask nothing but the data is assumed: samples of a concave paraboloid with its vertex
inside the fit box ⇒ the vertex is returned exactly (every fit box has full column rank). -/
theorem paraboloid_vertex_unmasked (data : List (List K)) (box : ℕ) (y1 y2 x1 x2 : ℕ)
    (A a b c X0 Y0 : K) (hbox : 1 ≤ box)
    (hsearch : peakBox data box none = .fit y1 y2 x1 x2)
    (hsamp : ∀ j i, y1 ≤ j → j < y2 → x1 ≤ i → i < x2 →
        at2 data j i = A - a * ((i : K) - X0) ^ 2 - b * ((i : K) - X0) * ((j : K) - Y0)
                        - c * ((j : K) - Y0) ^ 2)
    (ha : 0 < a) (hdet : 0 < 4 * a * c - b ^ 2)
    (hX : (x1 : K) ≤ X0 ∧ X0 ≤ (x2 : K) - 1) (hY : (y1 : K) ≤ Y0 ∧ Y0 ≤ (y2 : K) - 1) :
    findPeakConcrete 0 data box none = .ok ⟨X0, Y0, .success, y1, y2, x1, x2⟩ := by
  obtain ⟨hx, hy⟩ := peakBox_fit_width data box none hbox y1 y2 x1 x2 hsearch
  exact paraboloid_vertex_concrete data box none y1 y2 x1 x2 A a b c X0 Y0 hbox hsearch
    (fun j i h1 h2 h3 h4 _ => hsamp j i h1 h2 h3 h4)
    ⟨first3 x1, first3 y1, first3_inj x1, first3_inj y1, fun p => by unfold first3; omega,
      fun q => by unfold first3; omega, fun _ _ => rfl⟩ ha hdet hX hY

/-- `peak_in_bounds` for the closed function: finite coordinates inside the fit box and the
histogram, documented status — also on rank-deficient boxes, where the minimum-norm coefficients are
used. -/
theorem peak_in_bounds_concrete (data : List (List K)) (box : ℕ)
    (mask : Option (List (List Bool))) (hbox : 1 ≤ box)
    (hny : 0 < data.length) (hnx : 0 < (data.headD []).length)
    (hnn : ∀ row ∈ data, ∀ v ∈ row, 0 ≤ v) :
    ∃ p : PeakRes K, findPeakConcrete 0 data box mask = .ok p ∧
      p.status.toString ∈ ["SUCCESS", "ERROR:NODATA", "WARNING:EDGE", "WARNING:BADFIT",
                           "WARNING:CENTER-OF-MASS"] ∧
      (p.x1 < p.x2 ∧ p.x2 ≤ (data.headD []).length ∧ p.y1 < p.y2 ∧ p.y2 ≤ data.length) ∧
      ((p.x1 : K) ≤ p.x ∧ p.x ≤ (p.x2 : K) - 1 ∧ (p.y1 : K) ≤ p.y ∧ p.y ≤ (p.y2 : K) - 1) ∧
      (0 ≤ p.x ∧ p.x ≤ ((data.headD []).length : K) - 1 ∧ 0 ≤ p.y ∧ p.y ≤ (data.length : K) - 1) :=
  peak_in_bounds (lstsqLsq 0) data box mask hbox hny hnx hnn

/-- `peak_near_max` for the closed function. -/
theorem peak_near_max_concrete (data : List (List K)) (box : ℕ)
    (mask : Option (List (List Bool))) (hbox : 1 ≤ box)
    (hny : 0 < data.length) (hnx : 0 < (data.headD []).length)
    (hnn : ∀ row ∈ data, ∀ v ∈ row, 0 ≤ v) :
    (findPeakCore (lstsqLsq 0) data box mask).status = .nodata ∨
    ∃ jmax imax, jmax < data.length ∧ imax < (data.headD []).length ∧ maskAt mask jmax imax = true ∧
      (∀ j i, j < data.length → i < (data.headD []).length → maskAt mask j i = true →
        at2 data j i ≤ at2 data jmax imax) ∧
      |(findPeakCore (lstsqLsq 0) data box mask).x - (imax : K)| ≤ (box : K) - 1 ∧
      |(findPeakCore (lstsqLsq 0) data box mask).y - (jmax : K)| ≤ (box : K) - 1 :=
  peak_near_max (lstsqLsq 0) data box mask hbox hny hnx hnn

/-- `estimate_in_peak_box` (crowded fields) for the closed estimator `estimateShiftFull (lstsqLsq 0)`. -/
theorem estimate_in_peak_box_concrete (img ref : List (K × K)) (searchrad pscale : K)
    (st : PeakStatus)
    (hbr : (estimateShiftFull (lstsqLsq 0) img ref searchrad pscale).branch = .peak st) :
    ∃ ky kx : ℕ,
      0 < natAt (xy2dhist (img.map fun a => (a.1 / pscale, a.2 / pscale))
                  (ref.map fun b => (b.1 / pscale, b.2 / pscale)) (searchrad / pscale)) ky kx ∧
      (∀ j i, natAt (xy2dhist (img.map fun a => (a.1 / pscale, a.2 / pscale))
                  (ref.map fun b => (b.1 / pscale, b.2 / pscale)) (searchrad / pscale)) j i
            ≤ natAt (xy2dhist (img.map fun a => (a.1 / pscale, a.2 / pscale))
                  (ref.map fun b => (b.1 / pscale, b.2 / pscale)) (searchrad / pscale)) ky kx) ∧
      |(estimateShiftFull (lstsqLsq 0) img ref searchrad pscale).x
          - binToOffset searchrad pscale (kx : K)| ≤ 4 * |pscale| ∧
      |(estimateShiftFull (lstsqLsq 0) img ref searchrad pscale).y
          - binToOffset searchrad pscale (ky : K)| ≤ 4 * |pscale| :=
  estimate_in_peak_box (lstsqLsq 0) img ref searchrad pscale st hbr

end

/-! ### non-vacuity (concrete least squares) -/

-- lstsqNormal_exact / paraboloid_vertex_unmasked: the 5×5 samples of 10 − (i − 9/4)² − (j − 7/4)²;
-- the concrete solver recovers the coefficients and `_find_peak` the vertex (9/4, 7/4)
example : lstsqNormal (0 : ℚ) ((boxPoints paraData none 0 5 0 5).map designRow)
    ((boxPoints paraData none 0 5 0 5).map fun p => p.2.2)
    = some ⟨10 - (13 / 4) ^ 2 - (11 / 4) ^ 2, 13 / 2, 11 / 2, 0, -1, -1⟩ := by decide +kernel

example : findPeakConcrete (0 : ℚ) paraData 5 none = .ok ⟨9 / 4, 7 / 4, .success, 0, 5, 0, 5⟩ := by
  decide +kernel

-- lstsqNormal_is_least_squares on inexact data (a peaked histogram): a unique solution, the fit
-- succeeds
def peakData : List (List ℚ) :=
  [[0, 0, 0, 0, 0], [0, 1, 2, 1, 0], [0, 2, 5, 3, 0], [0, 1, 2, 1, 0], [0, 0, 0, 0, 0]]

example : (lstsqNormal (0 : ℚ) ((boxPoints peakData none 0 5 0 5).map designRow)
    ((boxPoints peakData none 0 5 0 5).map fun p => p.2.2)).isSome = true := by decide +kernel

example : findPeakConcrete (0 : ℚ) peakData 5 none = .ok ⟨547 / 270, 2, .success, 0, 5, 0, 5⟩ := by
  decide +kernel

-- paraboloid_vertex_concrete with masked pixels outside a 3×3 block
example : findPeakConcrete (0 : ℚ) paraData 5
    (some [[false, true, true, true, true], [true, true, true, true, false],
           [true, true, true, true, true], [true, true, true, true, true],
           [true, false, true, true, true]]) = .ok ⟨9 / 4, 7 / 4, .success, 0, 5, 0, 5⟩ := by
  decide +kernel

-- lstsqNormal_none_iff_singular / lstsqLsq_least_squares_min_norm: good pixels on one row and one
-- column (nine points on the conic (x − 3)(y − 3) = 0): the normal matrix is singular, numpy's
-- minimum-norm solution is used and `_find_peak` reports SUCCESS with its vertex
def crossData : List (List ℚ) :=
  [[0, 0, 1, 0, 0], [0, 0, 3, 0, 0], [1, 2, 6, 3, 1], [0, 0, 2, 0, 0], [0, 0, 1, 0, 0]]
def crossMask : Option (List (List Bool)) := some (crossData.map fun r => r.map fun v => decide (0 < v))

example : lstsqNormal (0 : ℚ) ((boxPoints crossData crossMask 0 5 0 5).map designRow)
    ((boxPoints crossData crossMask 0 5 0 5).map fun p => p.2.2) = none := by decide +kernel

example : findPeakConcrete (0 : ℚ) crossData 5 crossMask
    = .ok ⟨29784 / 14627, 28724 / 14627, .success, 0, 5, 0, 5⟩ := by decide +kernel

-- two rows of good pixels (rank 5): the vertex of the minimum-norm fit is outside the box, centre of
-- mass
example : findPeakConcrete (0 : ℚ)
    [[0, 0, 0, 0, 0], [0, 0, 0, 0, 0], [1, 2, 6, 3, 1], [1, 1, 2, 2, 1], [0, 0, 0, 0, 0]] 5
    (some [[false, false, false, false, false], [false, false, false, false, false],
           [true, true, true, true, true], [true, true, true, true, true],
           [false, false, false, false, false]])
    = .ok ⟨21 / 10, 47 / 20, .centerOfMass, 0, 5, 0, 5⟩ := by decide +kernel

-- estimate_in_peak_box_concrete: ten well-separated sources, three unshifted and seven shifted by one
-- bin in different directions (eight non-zero bins around the peak): the closed estimator goes through
-- the quadratic fit and returns (2/21, -2/21)
def crowdRef : List (ℚ × ℚ) := (List.range 10).map fun k => (((100 * k : ℕ) : ℚ), (0 : ℚ))
def crowdImg : List (ℚ × ℚ) :=
  List.zipWith (fun r s => (r.1 + s.1, r.2 + s.2)) crowdRef
    [(0, 0), (0, 0), (0, 0), (1, 0), (-1, 0), (0, 1), (0, -1), (1, 1), (-1, -1), (1, -1)]

example : estimateShiftFull (lstsqLsq (0 : ℚ)) crowdImg crowdRef 3 1
    = ⟨2 / 21, -2 / 21, .peak .success⟩ := by decide +kernel

end TW.C12
