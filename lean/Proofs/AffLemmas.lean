import Mathlib.Algebra.Order.Field.Basic
import Mathlib.Tactic.Ring
import Mathlib.Tactic.FieldSimp
import Mathlib.Tactic.Linarith
import Model.Corrector
import Proofs.InvLemmas

/-! Algebra of `V2`, `M2`, `Aff` over a field (helper lemmas for C01–C05, C18, C20). -/
open TW
set_option linter.unusedSectionVars false

namespace TW
variable {K : Type} [Field K] [LinearOrder K] [IsStrictOrderedRing K]

theorem V2.eq_iff (p q : V2 K) : p = q ↔ p.x = q.x ∧ p.y = q.y := by
  cases p; cases q; simp

theorem M2.eq_iff (m n : M2 K) : m = n ↔ m.a = n.a ∧ m.b = n.b ∧ m.c = n.c ∧ m.d = n.d := by
  cases m; cases n; simp

theorem Aff.eq_iff (f g : Aff K) : f = g ↔ f.m = g.m ∧ f.t = g.t := by
  cases f; cases g; simp

@[simp] theorem halfK_eq : (halfK : K) = 1 / 2 := by simp [halfK]

theorem two_ne : (2 : K) ≠ 0 := two_ne_zero

/-- everything reduces to components -/
macro "aff_unfold" : tactic =>
  `(tactic| simp only [Aff.app, Aff.comp, Aff.inv, Aff.id, M2.mulVec, M2.mul, M2.inv, M2.one,
      M2.diag, V2.add, V2.sub, V2.neg, V2.smul, V2.sdiv, zeroK_eq, oneK_eq, V2.eq_iff, M2.eq_iff,
      Aff.eq_iff, conjAff, combineAffines] at *)

theorem Aff.app_comp (f g : Aff K) (p : V2 K) : (f.comp g).app p = f.app (g.app p) := by
  aff_unfold; constructor <;> ring

theorem Aff.id_app (p : V2 K) : (Aff.id : Aff K).app p = p := by
  aff_unfold; constructor <;> ring

theorem Aff.comp_assoc (f g h : Aff K) : (f.comp g).comp h = f.comp (g.comp h) := by
  aff_unfold; refine ⟨⟨?_, ?_, ?_, ?_⟩, ?_, ?_⟩ <;> ring

theorem Aff.id_comp (f : Aff K) : Aff.id.comp f = f := by
  aff_unfold; refine ⟨⟨?_, ?_, ?_, ?_⟩, ?_, ?_⟩ <;> ring

theorem Aff.comp_id (f : Aff K) : f.comp Aff.id = f := by
  aff_unfold; refine ⟨⟨?_, ?_, ?_, ?_⟩, ?_, ?_⟩ <;> ring

theorem M2.det_mul (m n : M2 K) : (m.mul n).det = m.det * n.det := by
  simp only [M2.mul, M2.det]; ring

theorem M2.det_one : (M2.one : M2 K).det = 1 := by
  simp [M2.one, M2.det]

theorem M2.det_inv (m : M2 K) (h : m.det ≠ 0) : m.inv.det = 1 / m.det := by
  have h' : m.a * m.d - m.b * m.c ≠ 0 := h
  simp only [M2.inv, M2.det]; field_simp

theorem M2.det_inv_ne (m : M2 K) (h : m.det ≠ 0) : m.inv.det ≠ 0 := by
  rw [M2.det_inv m h]; exact one_div_ne_zero h

theorem M2.inv_mulVec (m : M2 K) (h : m.det ≠ 0) (p : V2 K) : m.inv.mulVec (m.mulVec p) = p := by
  aff_unfold; constructor <;> field_simp <;> (try simp only [M2.det]) <;> ring

theorem M2.mulVec_inv (m : M2 K) (h : m.det ≠ 0) (p : V2 K) : m.mulVec (m.inv.mulVec p) = p := by
  aff_unfold; constructor <;> field_simp <;> (try simp only [M2.det]) <;> ring

theorem M2.inv_mul (m : M2 K) (h : m.det ≠ 0) : m.inv.mul m = M2.one := by
  aff_unfold; refine ⟨?_, ?_, ?_, ?_⟩ <;> field_simp <;> (try simp only [M2.det]) <;> ring

theorem M2.mul_inv (m : M2 K) (h : m.det ≠ 0) : m.mul m.inv = M2.one := by
  aff_unfold; refine ⟨?_, ?_, ?_, ?_⟩ <;> field_simp <;> (try simp only [M2.det]) <;> ring

theorem M2.mul_assoc (m n k : M2 K) : (m.mul n).mul k = m.mul (n.mul k) := by
  aff_unfold; refine ⟨?_, ?_, ?_, ?_⟩ <;> ring

theorem M2.one_mul (m : M2 K) : M2.one.mul m = m := by
  aff_unfold; refine ⟨?_, ?_, ?_, ?_⟩ <;> ring

theorem M2.mul_one (m : M2 K) : m.mul M2.one = m := by
  aff_unfold; refine ⟨?_, ?_, ?_, ?_⟩ <;> ring

theorem M2.mulVec_mul (m n : M2 K) (p : V2 K) : (m.mul n).mulVec p = m.mulVec (n.mulVec p) := by
  aff_unfold; constructor <;> ring

theorem M2.one_mulVec (p : V2 K) : (M2.one : M2 K).mulVec p = p := by
  aff_unfold; constructor <;> ring

theorem Aff.inv_app (f : Aff K) (h : f.m.det ≠ 0) (p : V2 K) : f.inv.app (f.app p) = p := by
  aff_unfold; constructor <;> field_simp <;> (try simp only [M2.det]) <;> ring

theorem Aff.app_inv (f : Aff K) (h : f.m.det ≠ 0) (p : V2 K) : f.app (f.inv.app p) = p := by
  aff_unfold; constructor <;> field_simp <;> (try simp only [M2.det]) <;> ring

theorem Aff.inv_comp (f : Aff K) (h : f.m.det ≠ 0) : f.inv.comp f = Aff.id := by
  aff_unfold; refine ⟨⟨?_, ?_, ?_, ?_⟩, ?_, ?_⟩ <;> field_simp <;> (try simp only [M2.det]) <;> ring

theorem Aff.comp_inv (f : Aff K) (h : f.m.det ≠ 0) : f.comp f.inv = Aff.id := by
  aff_unfold; refine ⟨⟨?_, ?_, ?_, ?_⟩, ?_, ?_⟩ <;> field_simp <;> (try simp only [M2.det]) <;> ring

theorem Aff.det_comp (f g : Aff K) : (f.comp g).m.det = f.m.det * g.m.det := by
  simp only [Aff.comp]; exact M2.det_mul _ _

theorem Aff.det_inv_ne (f : Aff K) (h : f.m.det ≠ 0) : f.inv.m.det ≠ 0 := by
  simp only [Aff.inv]; exact M2.det_inv_ne _ h

/-- two affine maps that agree as functions are equal -/
theorem Aff.ext_app (f g : Aff K) (h : ∀ p, f.app p = g.app p) : f = g := by
  have h0 := h ⟨0, 0⟩
  have h1 := h ⟨1, 0⟩
  have h2 := h ⟨0, 1⟩
  aff_unfold
  obtain ⟨a0, b0⟩ := h0
  obtain ⟨a1, b1⟩ := h1
  obtain ⟨a2, b2⟩ := h2
  refine ⟨⟨?_, ?_, ?_, ?_⟩, ?_, ?_⟩ <;> linarith

/-- the conjugation formula of `set_correction` is `q ∘ f ∘ q⁻¹` -/
theorem conjAff_eq (q f : Aff K) (h : q.m.det ≠ 0) : conjAff q f = q.comp (f.comp q.inv) := by
  aff_unfold; refine ⟨⟨?_, ?_, ?_, ?_⟩, ?_, ?_⟩ <;> field_simp <;> (try simp only [M2.det]) <;> ring

theorem conjAff_det (q f : Aff K) (h : q.m.det ≠ 0) : (conjAff q f).m.det = f.m.det := by
  rw [conjAff_eq q f h, Aff.det_comp, Aff.det_comp]
  simp only [Aff.inv]
  rw [M2.det_inv _ h]; field_simp

/-- `_tp2tp` recovers an affine plane-to-plane map exactly, for any non-zero sampling scale -/
theorem tp2tp_affine (q : Aff K) (s : K) (hs : s ≠ 0) : tp2tp q.app s = q := by
  simp only [tp2tp, tp2tpPts, halfK_eq]
  aff_unfold
  refine ⟨⟨?_, ?_, ?_, ?_⟩, ?_, ?_⟩ <;> field_simp <;> (try simp only [M2.det]) <;> ring

end TW
