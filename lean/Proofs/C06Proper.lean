import Proofs.C06Recovery
import Mathlib.Algebra.QuadraticDiscriminant

/-!
Exact recovery of PROPER similarities by `fit_rscale` / `fit_rshift` without any non-collinearity
hypothesis (two-point sets, collinear sets): moments of noise-free data, weighted Cauchy–Schwarz
for list sums (`det H = (a² + b²)(suu·svv − suv²) ≥ 0`, so the proper branch is taken).
-/
open TW
set_option linter.unusedSectionVars false
namespace TW

theorem sum_map_lin {α : Type} (Z : List α) (f1 f2 : α → ℝ) (a b : ℝ) :
    (Z.map fun p => a * f1 p + b * f2 p).sum = a * (Z.map f1).sum + b * (Z.map f2).sum := by
  induction Z with
  | nil => simp
  | cons p l ih => simp only [List.map_cons, List.sum_cons]; rw [ih]; ring

/-- Cauchy–Schwarz for weighted list sums -/
theorem cs_list {α : Type} (Z : List (ℝ × α)) (hw : ∀ p ∈ Z, 0 ≤ p.1) (f g : α → ℝ) :
    ((Z.map fun p => p.1 * (f p.2 * g p.2)).sum)^2
      ≤ (Z.map fun p => p.1 * (f p.2 * f p.2)).sum * (Z.map fun p => p.1 * (g p.2 * g p.2)).sum := by
  set A := (Z.map fun p => p.1 * (f p.2 * f p.2)).sum
  set B := (Z.map fun p => p.1 * (f p.2 * g p.2)).sum
  set C := (Z.map fun p => p.1 * (g p.2 * g p.2)).sum
  have hq : ∀ t : ℝ, 0 ≤ A * (t * t) + (2 * B) * t + C := by
    intro t
    have : A * (t * t) + (2 * B) * t + C = (Z.map fun p => p.1 * (t * f p.2 + g p.2)^2).sum := by
      simp only [A, B, C]
      clear hw
      induction Z with
      | nil => simp
      | cons p l ih => simp only [List.map_cons, List.sum_cons]; linarith [ih]
    rw [this]
    apply List.sum_nonneg
    intro x hx
    obtain ⟨p, hp, rfl⟩ := List.mem_map.mp hx
    exact mul_nonneg (hw p hp) (sq_nonneg _)
  have := discrim_le_zero hq
  unfold discrim at this
  nlinarith


/-- second moments of noise-free data of a proper similarity `[[a, b], [−b, a]]` -/
theorem cmom_proper (Z : List (ℝ × Obs ℝ)) (xm ym um vm a b : ℝ)
    (h : ∀ p ∈ Z, p.2.x - xm = a * (p.2.u - um) + b * (p.2.v - vm) ∧
                  p.2.y - ym = -b * (p.2.u - um) + a * (p.2.v - vm)) :
    (cmom Z xm ym um vm).sxu = a * (cmom Z xm ym um vm).suu + b * (cmom Z xm ym um vm).suv ∧
    (cmom Z xm ym um vm).sxv = a * (cmom Z xm ym um vm).suv + b * (cmom Z xm ym um vm).svv ∧
    (cmom Z xm ym um vm).syu = -b * (cmom Z xm ym um vm).suu + a * (cmom Z xm ym um vm).suv ∧
    (cmom Z xm ym um vm).syv = -b * (cmom Z xm ym um vm).suv + a * (cmom Z xm ym um vm).svv := by
  simp only [cmom]
  refine ⟨?_, ?_, ?_, ?_⟩
  all_goals rw [← sum_map_lin]
  all_goals congr 1
  all_goals apply List.map_congr_left
  all_goals intro p hp
  · rw [(h p hp).1]; ring
  · rw [(h p hp).1]; ring
  · rw [(h p hp).2]; ring
  · rw [(h p hp).2]; ring

/-- what `fitRscale_unfold` gives, on noise-free data of a proper similarity `T`: the means are
mapped onto each other, the cross moments are `T` applied to the `uv` moments, and `det H ≥ 0` -/
theorem proper_noiseFree_moments (Z : List (ℝ × Obs ℝ)) (hw : ∀ p ∈ Z, 0 ≤ p.1) (xm ym um vm : ℝ)
    (hc : (cmom Z xm ym um vm).Cx = 0 ∧ (cmom Z xm ym um vm).Cy = 0 ∧
          (cmom Z xm ym um vm).Cu = 0 ∧ (cmom Z xm ym um vm).Cv = 0)
    (hW : 0 < (cmom Z xm ym um vm).W) (T : Lin ℝ) (hp : IsProperSim T)
    (hT : ∀ p ∈ Z, p.2.x = T.m00 * p.2.u + T.m01 * p.2.v + T.sx ∧
                   p.2.y = T.m10 * p.2.u + T.m11 * p.2.v + T.sy) :
    let M := cmom Z xm ym um vm
    xm = T.m00 * um + T.m01 * vm + T.sx ∧ ym = T.m10 * um + T.m11 * vm + T.sy ∧
    M.sxu + M.syv = T.m00 * (M.suu + M.svv) ∧ M.sxv - M.syu = T.m01 * (M.suu + M.svv) ∧
    ¬ (M.sxu * M.syv - M.sxv * M.syu < 0) := by
  intro M
  obtain ⟨c1, c2, c3, c4⟩ := hc
  obtain ⟨e1, e2, e3, e4⟩ := cmom_centre Z xm ym um vm
  rw [c1] at e1; rw [c2] at e2; rw [c3] at e3; rw [c4] at e4
  have hWdef : M.W = (Z.map fun p => p.1).sum := rfl
  rw [hWdef] at hW
  set Wv := (Z.map fun p => p.1).sum
  have hx := sum_affine Z (fun p => p.1) (·.x) T.m00 T.m01 T.sx (fun p hp => (hT p hp).1)
  have hy := sum_affine Z (fun p => p.1) (·.y) T.m10 T.m11 T.sy (fun p hp => (hT p hp).2)
  have hWne : Wv ≠ 0 := ne_of_gt hW
  have kx : xm = T.m00 * um + T.m01 * vm + T.sx := by
    have : xm * Wv = (T.m00 * um + T.m01 * vm + T.sx) * Wv := by linear_combination e1 + hx - T.m00 * e3 - T.m01 * e4
    exact mul_right_cancel₀ hWne this
  have ky : ym = T.m10 * um + T.m11 * vm + T.sy := by
    have : ym * Wv = (T.m10 * um + T.m11 * vm + T.sy) * Wv := by linear_combination e2 + hy - T.m10 * e3 - T.m11 * e4
    exact mul_right_cancel₀ hWne this
  obtain ⟨p1, p2⟩ := hp
  have hres : ∀ p ∈ Z, p.2.x - xm = T.m00 * (p.2.u - um) + T.m01 * (p.2.v - vm) ∧
                  p.2.y - ym = -T.m01 * (p.2.u - um) + T.m00 * (p.2.v - vm) := by
    intro p hp
    obtain ⟨a1, a2⟩ := hT p hp
    constructor
    · rw [a1, kx]; ring
    · rw [a2, ky, p1, p2]; ring
  obtain ⟨m1, m2, m3, m4⟩ := cmom_proper Z xm ym um vm T.m00 T.m01 hres
  have cs : M.suv ^ 2 ≤ M.suu * M.svv := cs_list Z hw (fun o => o.u - um) (fun o => o.v - vm)
  refine ⟨kx, ky, ?_, ?_, ?_⟩
  · simp only [M]; rw [m1, m4]; ring
  · simp only [M]; rw [m2, m3]; ring
  · have : M.sxu * M.syv - M.sxv * M.syu = (T.m00^2 + T.m01^2) * (M.suu * M.svv - M.suv^2) := by
      simp only [M]; rw [m1, m2, m3, m4]; ring
    rw [this, not_lt]
    exact mul_nonneg (by positivity) (sub_nonneg.mpr cs)


/-- noise-free data of a PROPER similarity are returned exactly by `fit_rscale` whenever it
returns — also for collinear point sets, in particular for every two-point set -/
theorem rscale_recovers_proper (obs : List (Obs ℝ)) (wxy wuv : Option (List ℝ)) (L : Lin ℝ)
    (h : fitRscale obs wxy wuv none = .ok L)
    (hlen : (generalW obs wxy wuv).length = obs.length)
    (T : Lin ℝ) (hp : IsProperSim T) (hT : NoiseFree obs T) : L = T := by
  obtain ⟨c, xm, ym, um, vm, hc, hnn, hWpos, _, hM⟩ := fitRscale_unfold obs wxy wuv none L h hlen
  simp only at hM
  obtain ⟨c1, c2, c3, c4, hW, hr⟩ := hM
  obtain ⟨hD, hL1, _, hsx, hsy⟩ := rsolve_rscale _ L hr
  simp only at hD hL1 hsx hsy
  set Z := List.zip ((generalW obs wxy wuv).map (· / c)) obs with hZ
  have hwZ : ∀ p ∈ Z, 0 ≤ p.1 := by
    intro p hp
    obtain ⟨w, hw, he⟩ := List.mem_map.mp (List.of_mem_zip hp).1
    rw [← he]
    exact div_nonneg (hnn w hw) (le_of_lt hc)
  have hWv : 0 < (cmom Z xm ym um vm).W := by
    have : (cmom Z xm ym um vm).W = sumL (generalW obs wxy wuv) / c := by
      simp only [cmom, hZ]
      rw [zip_map_div_W, ← sumL_weights _ obs hlen]
    rw [this]; exact div_pos hWpos hc
  have hTZ : ∀ p ∈ Z, p.2.x = T.m00 * p.2.u + T.m01 * p.2.v + T.sx ∧
                   p.2.y = T.m10 * p.2.u + T.m11 * p.2.v + T.sy :=
    fun p hp => hT p.2 (List.of_mem_zip hp).2
  obtain ⟨kx, ky, eP, eQ, hdet⟩ :=
    proper_noiseFree_moments Z hwZ xm ym um vm ⟨c1, c2, c3, c4⟩ hWv T hp hTZ
  obtain ⟨a0, a1, a2, a3⟩ := hL1 hdet
  have hDne := ne_of_gt hD
  have b0 : L.m00 = T.m00 := by rw [a0, eP]; field_simp
  have b1 : L.m01 = T.m01 := by rw [a1, eQ]; field_simp
  have b2 : L.m10 = T.m10 := by rw [a2, eQ, hp.1]; field_simp
  have b3 : L.m11 = T.m11 := by rw [a3, eP, hp.2]; field_simp
  apply lin_ext _ _ b0 b1 b2 b3
  · rw [hsx, b0, b1, kx]; ring
  · rw [hsy, b2, b3, ky]; ring


/-- two positively weighted points with different `uv` make the centred second moment positive -/
theorem D_pos (Z : List (ℝ × Obs ℝ)) (hw : ∀ p ∈ Z, 0 ≤ p.1) (xm ym um vm : ℝ)
    (p q : ℝ × Obs ℝ) (hp : p ∈ Z) (hq : q ∈ Z) (hp0 : 0 < p.1) (hq0 : 0 < q.1)
    (hne : p.2.u ≠ q.2.u ∨ p.2.v ≠ q.2.v) :
    0 < (cmom Z xm ym um vm).suu + (cmom Z xm ym um vm).svv := by
  simp only [cmom]
  have nn1 : ∀ x ∈ Z.map (fun p => p.1 * ((p.2.u - um) * (p.2.u - um))), 0 ≤ x := by
    intro x hx
    obtain ⟨r, hr, rfl⟩ := List.mem_map.mp hx
    exact mul_nonneg (hw r hr) (mul_self_nonneg _)
  have nn2 : ∀ x ∈ Z.map (fun p => p.1 * ((p.2.v - vm) * (p.2.v - vm))), 0 ≤ x := by
    intro x hx
    obtain ⟨r, hr, rfl⟩ := List.mem_map.mp hx
    exact mul_nonneg (hw r hr) (mul_self_nonneg _)
  have s1 := List.sum_nonneg nn1
  have s2 := List.sum_nonneg nn2
  by_contra hcon
  have z1 : (Z.map (fun p => p.1 * ((p.2.u - um) * (p.2.u - um)))).sum = 0 := by linarith
  have z2 : (Z.map (fun p => p.1 * ((p.2.v - vm) * (p.2.v - vm)))).sum = 0 := by linarith
  have key : ∀ r ∈ Z, 0 < r.1 → r.2.u = um ∧ r.2.v = vm := by
    intro r hr hr0
    have t1 := List.all_zero_of_le_zero_le_of_sum_eq_zero nn1 z1 (List.mem_map.mpr ⟨r, hr, rfl⟩)
    have t2 := List.all_zero_of_le_zero_le_of_sum_eq_zero nn2 z2 (List.mem_map.mpr ⟨r, hr, rfl⟩)
    have u1 : (r.2.u - um) * (r.2.u - um) = 0 := by
      rcases mul_eq_zero.mp t1 with h | h
      · exact absurd h (ne_of_gt hr0)
      · exact h
    have u2 : (r.2.v - vm) * (r.2.v - vm) = 0 := by
      rcases mul_eq_zero.mp t2 with h | h
      · exact absurd h (ne_of_gt hr0)
      · exact h
    exact ⟨by linarith [mul_self_eq_zero.mp u1], by linarith [mul_self_eq_zero.mp u2]⟩
  obtain ⟨pu, pv⟩ := key p hp hp0
  obtain ⟨qu, qv⟩ := key q hq hq0
  rcases hne with h | h
  · exact h (by rw [pu, qu])
  · exact h (by rw [pv, qv])

theorem mem_zip_map_div (ws : List ℝ) (obs : List (Obs ℝ)) (c : ℝ) (p : ℝ × Obs ℝ)
    (hp : p ∈ List.zip ws obs) : (p.1 / c, p.2) ∈ List.zip (ws.map (· / c)) obs := by
  rw [List.zip_map_left]
  exact List.mem_map.mpr ⟨p, hp, rfl⟩

/-- noise-free data of a rotation (proper, unit scale) are returned exactly by `fit_rshift` as
soon as two positively weighted points differ — collinear sets and two-point sets included -/
theorem rshift_recovers_proper (obs : List (Obs ℝ)) (wxy wuv : Option (List ℝ)) (L : Lin ℝ)
    (h : fitRscale obs wxy wuv (some 1) = .ok L)
    (hlen : (generalW obs wxy wuv).length = obs.length)
    (T : Lin ℝ) (hp : IsProperSim T) (hunit : T.m00^2 + T.m01^2 = 1) (hT : NoiseFree obs T)
    (p q : ℝ × Obs ℝ) (hpm : p ∈ List.zip (generalW obs wxy wuv) obs)
    (hqm : q ∈ List.zip (generalW obs wxy wuv) obs) (hp0 : 0 < p.1) (hq0 : 0 < q.1)
    (hne : p.2.u ≠ q.2.u ∨ p.2.v ≠ q.2.v) : L = T := by
  obtain ⟨c, xm, ym, um, vm, hc, hnn, hWpos, _, hM⟩ := fitRscale_unfold obs wxy wuv (some 1) L h hlen
  simp only at hM
  obtain ⟨c1, c2, c3, c4, hW, hr⟩ := hM
  obtain ⟨cs, sn, hu, hL1, _, hsx, hsy⟩ := rsolve_rshift 1 _ L hr
  simp only at hL1 hsx hsy
  set Z := List.zip ((generalW obs wxy wuv).map (· / c)) obs with hZ
  have hwZ : ∀ p ∈ Z, 0 ≤ p.1 := by
    intro p hp
    obtain ⟨w, hw, he⟩ := List.mem_map.mp (List.of_mem_zip hp).1
    rw [← he]
    exact div_nonneg (hnn w hw) (le_of_lt hc)
  have hWv : 0 < (cmom Z xm ym um vm).W := by
    have : (cmom Z xm ym um vm).W = sumL (generalW obs wxy wuv) / c := by
      simp only [cmom, hZ]
      rw [zip_map_div_W, ← sumL_weights _ obs hlen]
    rw [this]; exact div_pos hWpos hc
  have hTZ : ∀ p ∈ Z, p.2.x = T.m00 * p.2.u + T.m01 * p.2.v + T.sx ∧
                   p.2.y = T.m10 * p.2.u + T.m11 * p.2.v + T.sy :=
    fun p hp => hT p.2 (List.of_mem_zip hp).2
  obtain ⟨kx, ky, eP, eQ, hdet⟩ :=
    proper_noiseFree_moments Z hwZ xm ym um vm ⟨c1, c2, c3, c4⟩ hWv T hp hTZ
  have hD : 0 < (cmom Z xm ym um vm).suu + (cmom Z xm ym um vm).svv :=
    D_pos Z hwZ xm ym um vm (p.1 / c, p.2) (q.1 / c, q.2) (mem_zip_map_div _ _ c p hpm)
      (mem_zip_map_div _ _ c q hqm) (div_pos hp0 hc) (div_pos hq0 hc) hne
  obtain ⟨hd, a0, a1, a2, a3⟩ := hL1 hdet
  set D := (cmom Z xm ym um vm).suu + (cmom Z xm ym um vm).svv with hDdef
  rw [eP, eQ] at hd
  have hsq : Real.sqrt (T.m00 * D * (T.m00 * D) + T.m01 * D * (T.m01 * D)) = D := by
    have : T.m00 * D * (T.m00 * D) + T.m01 * D * (T.m01 * D) = D * D := by
      have : T.m00 * D * (T.m00 * D) + T.m01 * D * (T.m01 * D) = (T.m00^2 + T.m01^2) * (D * D) := by ring
      rw [this, hunit, one_mul]
    rw [this, Real.sqrt_mul_self (le_of_lt hD)]
  rw [hsq] at hd
  have hdot : T.m00 * cs + T.m01 * sn = 1 := by
    have : D * (T.m00 * cs + T.m01 * sn) = D * 1 := by linear_combination hd
    exact mul_left_cancel₀ (ne_of_gt hD) this
  have hzero : (T.m00 - cs)^2 + (T.m01 - sn)^2 = 0 := by
    linear_combination hunit + hu - 2 * hdot
  have z1 : (T.m00 - cs)^2 = 0 :=
    le_antisymm (by linarith [sq_nonneg (T.m01 - sn)]) (sq_nonneg _)
  have z2 : (T.m01 - sn)^2 = 0 :=
    le_antisymm (by linarith [sq_nonneg (T.m00 - cs)]) (sq_nonneg _)
  have e1 : cs = T.m00 := by linarith [pow_eq_zero_iff (two_ne_zero) |>.mp z1]
  have e2 : sn = T.m01 := by linarith [pow_eq_zero_iff (two_ne_zero) |>.mp z2]
  have b0 : L.m00 = T.m00 := by rw [a0, e1, one_mul]
  have b1 : L.m01 = T.m01 := by rw [a1, e2, one_mul]
  have b2 : L.m10 = T.m10 := by rw [a2, e2, one_mul, hp.1]
  have b3 : L.m11 = T.m11 := by rw [a3, e1, one_mul, hp.2]
  apply lin_ext _ _ b0 b1 b2 b3
  · rw [hsx, b0, b1, kx]; ring
  · rw [hsy, b2, b3, ky]; ring

end TW
