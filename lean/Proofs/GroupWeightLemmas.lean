import Proofs.GroupAlignLemmas

/-!
Weights at group level (`TW.GA.groupAlignToRef`, properties C09 and C01): helper lemmas for

* `group_align_exact_weighted` — exactness of the `general` group fit when only the POSITIVELY weighted matched
  pairs are noise-free (`group_exact_general_on`, from `C01.align_exact_general_on`);
* `group_zero_weight_source_irrelevant` — two groups that differ only in the coordinates of sources that carry no
  positive weight into the fit give the same result of `align_to_ref` (`zw_two_runs`, from
  `C09.zero_weight_irrelevant`).

`PosW w i`: the optional weight column `w` is absent, or its entry `i` exists and is positive.
-/
open TW TW.GC TW.GCL TW.GA TW.GAL
set_option linter.unusedSectionVars false
set_option linter.unusedVariables false

namespace TW.GWL

/-- the optional weight column `w` does not switch row `i` off: there is no column, or `w[i] > 0` -/
def PosW {K : Type} [Zero K] [LT K] (w : Option (List K)) (i : Nat) : Prop :=
  ∀ W, w = some W → ∃ x, W[i]? = some x ∧ 0 < x

/-! ### exactness from the positively weighted pairs -/
section exactOn
variable {C K : Type} [Field K] [LinearOrder K] [IsStrictOrderedRing K]

/-- **what `group_align_exact_weighted` concludes**: clauses 1–3 of `GAL.MovedBy` (the reported fit is `T`; EVERY
member is moved by `T` in the plane of the fit; every row's recomputed sky position is the corrected position of
ITS member's source, `T` of the old one in the plane) — `MovedBy … [] []`: its clause 4 is empty for empty index
lists — and clause 4 for the POSITIVELY weighted pairs: the group row of every matched pair whose weights (group
catalog column and reference catalog column, where present) are positive lands exactly on its reference
position. -/
def MovedByOn (ops : CorrOps C K) (ms : List (GMember C K)) (st : GState K) (R : GAResult C K) (ref : RefCat K)
    (inp rf : List Nat) (f : Aff K) (T : Lin K) : Prop :=
  MovedBy ops ms st R ref [] [] f T ∧
  (∀ (k i j : Nat) (rd : K × K), inp[k]? = some i → rf[k]? = some j → PosW st.weight i → PosW ref.weight j →
    ref.radec[j]? = some rd →
    ∃ row', R.st.rows[i]? = some row' ∧ ops.w2t (toV row'.radec) = ops.w2t (toV rd))

theorem group_exact_general_on (w0 : Nat → K × K → K × K) (ops : CorrOps C K) (good : Nat → C → Prop)
    (happ : Applies ops good) (eps epsD : K) (heps : 0 < eps) (nrm : Bool) (mt : Metric K) (fm : Nat)
    (nclip : Option Int) (sigma : Option (K × String)) (accum : Bool) (ms : List (GMember C K))
    (hgood : ∀ (p : Nat) (gm : GMember C K), ms[p]? = some gm → good p gm.corr) (st0 : GState K)
    (hc : createGroup w0 (ms.map (·.cat)) = .ok st0) (hist : List (GC.GOp K))
    (hcur : Current ops ms (run st0 hist)) (hne : (run st0 hist).catlen ≠ 0)
    (ref : RefCat K) (mref minput : List Int)
    (minobj : Option Nat) (fitmin : Nat) (r : IterRes K) (f : Aff K)
    (hfit : (groupAlignToRef ops ⟨fitGeneral eps epsD, nrm, mt, fm, nclip, sigma, accum⟩ ms (run st0 hist) ref
      (some (mref, minput)) minobj fitmin).fit = some (r, f))
    (inp rf : List Nat) (hin : normAll (run st0 hist).catlen minput = some inp)
    (hrf : normAll ref.radec.length mref = some rf)
    (T : Lin K) (hdetT : T.m00 * T.m11 - T.m01 * T.m10 ≠ 0)
    (hT : ∀ (k i j : Nat) (row : GRow K) (rd : K × K), inp[k]? = some i → rf[k]? = some j →
      PosW (run st0 hist).weight i → PosW ref.weight j →
      (run st0 hist).rows[i]? = some row → ref.radec[j]? = some rd →
      ops.w2t (toV rd) = C01.Lin.app T (ops.w2t (toV row.radec))) :
    MovedByOn ops ms (run st0 hist)
      (groupAlignToRef ops ⟨fitGeneral eps epsD, nrm, mt, fm, nclip, sigma, accum⟩ ms (run st0 hist) ref
        (some (mref, minput)) minobj fitmin) ref inp rf f T := by
  unfold MovedByOn MovedBy
  obtain ⟨n, mr, mi, pa, hres, _, hsel, hfp, hf, hmem, hR, hst⟩ :=
    fit_inv ops _ ms (run st0 hist) ref (some (mref, minput)) minobj fitmin r f hfit
  obtain ⟨hiter, _⟩ := fitPairs_ok _ pa r _ hfp
  have hinv := inv_run hist st0 (inv_create w0 _ st0 hc)
  -- the pairs and their weights
  have hrun : calcTanpXY (run st0 hist) (tOf ops) = run st0 (hist ++ [GC.GOp.calcTp (tOf ops)]) := by
    simp [run, List.foldl_append, applyOp]
  have hcl : (run st0 (hist ++ [GC.GOp.calcTp (tOf ops)])).catlen = (run st0 hist).catlen := by
    rw [← hrun]; rfl
  rw [hrun] at hres hsel
  obtain ⟨tpl, inp', rf', htpl, _, hin', hrf', ⟨hxl, hxy⟩, ⟨hul, huv⟩, _, hws, _, hus⟩ :=
    C11.fit2ref_pairs w0 _ st0 hc (hist ++ [GC.GOp.calcTp (tOf ops)]) ref.ids mref minput
      (by rw [← hrun]; rfl) (by rw [hcl]; exact hne) _ hres _ ref.weight pa hsel
  rw [hcl, hin] at hin'
  injection hin' with hin'
  subst hin'
  rw [List.length_map, hrf] at hrf'
  injection hrf' with hrf'
  subst hrf'
  have htp : tpl = (run st0 hist).rows.map fun r => tOf ops r.radec := by
    rw [← hrun] at htpl
    simp only [calcTanpXY, Option.some.injEq] at htpl
    exact htpl.symm
  have hNF : C01.NoiseFreeOn (wmaskOf (List.zipWith mkObs pa.xy pa.uv).length pa.wxy pa.wuv)
      (List.zipWith mkObs pa.xy pa.uv) T := by
    intro k p hon hp
    obtain ⟨_, hpx, hpu⟩ := (C09.wmask_spec _ _ _ k).mp hon
    rw [List.getElem?_zipWith] at hp
    cases hx : pa.xy[k]? with
    | none => rw [hx] at hp; simp at hp
    | some a =>
      cases hu : pa.uv[k]? with
      | none => rw [hx, hu] at hp; simp at hp
      | some b =>
        rw [hx, hu] at hp
        simp at hp
        subst hp
        have hk1 : k < mref.length := by
          rw [← hxl]
          by_contra hcon
          rw [List.getElem?_eq_none_iff.mpr (by omega)] at hx; cases hx
        have hk2 : k < minput.length := by
          rw [← hul]
          by_contra hcon
          rw [List.getElem?_eq_none_iff.mpr (by omega)] at hu; cases hu
        rw [hxy k hk1] at hx
        rw [huv k hk2, htp] at hu
        cases hj : rf[k]? with
        | none => rw [hj] at hx; cases hx
        | some j =>
          cases hi : inp[k]? with
          | none => rw [hi] at hu; cases hu
          | some i =>
            rw [hj] at hx
            rw [hi] at hu
            simp only [Option.bind_some, List.getElem?_map] at hx hu
            cases hrd : ref.radec[j]? with
            | none => rw [hrd] at hx; cases hx
            | some rd =>
              cases hrow : (run st0 hist).rows[i]? with
              | none => rw [hrow] at hu; cases hu
              | some row =>
                rw [hrd] at hx
                rw [hrow] at hu
                simp only [Option.map_some, Option.some.injEq] at hx hu
                subst hx
                subst hu
                have hpi : PosW (run st0 hist).weight i := by
                  intro W hW
                  rw [hinv.weight] at hW
                  obtain ⟨wu, hwu, _, hwuk⟩ := hus W hW
                  obtain ⟨x, hx', hpos⟩ := hpu wu hwu
                  rw [hwuk k hk2, hi] at hx'
                  exact ⟨x, by simpa using hx', by simpa [zeroK_eq] using hpos⟩
                have hpj : PosW ref.weight j := by
                  intro W hW
                  obtain ⟨wx, hwx, _, hwxk⟩ := hws W hW
                  obtain ⟨x, hx', hpos⟩ := hpx wx hwx
                  rw [hwxk k hk1, hj] at hx'
                  exact ⟨x, by simpa using hx', by simpa [zeroK_eq] using hpos⟩
                have e := hT k i j row rd hi hj hpi hpj hrow hrd
                have ex := congrArg V2.x e
                have ey := congrArg V2.y e
                simp only [tOf, toV, ofV, mkObs, C01.Lin.app] at ex ey ⊢
                exact ⟨ex, ey⟩
  obtain ⟨e0, e1, e2, e3, e4⟩ := C01.align_exact_general_on eps epsD heps _ pa.wxy pa.wuv none nclip sigma accum nrm
    mt fm r hiter T hNF
  have hfT : f = ⟨⟨T.m00, T.m01, T.m10, T.m11⟩, ⟨T.sx, T.sy⟩⟩ := by
    rw [hf]
    simp only [reportedOf, e0, e1, e2, e3, e4, toV]
  have hdet : f.m.det ≠ 0 := by rw [hfT]; exact hdetT
  have hcore := group_core w0 ops good happ _ ms hgood st0 hc hist hcur ref
    (some (mref, minput)) minobj fitmin r f hfit hdet
  unfold Applied at hcore
  obtain ⟨⟨hlen, hmemb⟩, happl, hrows, _⟩ := hcore
  have happT : ∀ v, f.app v = C01.Lin.app T v := by
    intro v; rw [hfT]; rfl
  refine ⟨⟨hfT, ⟨hlen, fun p gm hp => ⟨hmemb p gm hp, fun x => by rw [happl p gm hp x, happT]⟩⟩, ?_, ?_⟩, ?_⟩
  · intro i row' hrow
    obtain ⟨old, p, gm, j, hold, hcore, hp, hgm, hm, hj, _, hn, hw⟩ := hrows i row' hrow
    exact ⟨old, p, gm, j, hold, hcore, hp, hgm, hm, hj, hn, by rw [hw, happT]⟩
  · intro k i j rd hi
    simp at hi
  · intro k i j rd hi hj hpi hpj hrd
    obtain ⟨_, hlt, _⟩ := normAll_spec _ _ _ hin
    have hil : i < (run st0 hist).rows.length := hlt i (List.mem_of_getElem? hi)
    have hold : (run st0 hist).rows[i]? = some ((run st0 hist).rows[i]) := List.getElem?_eq_getElem hil
    obtain ⟨row', hrow'⟩ := final_row_exists w0 ops _ ms st0 hc hist ref _ minobj fitmin r f hfit i _ hold
    obtain ⟨old, p, gm, j', hold', _, _, _, _, _, _, _, hw⟩ := hrows i row' hrow'
    rw [hold] at hold'
    injection hold' with hold'
    refine ⟨row', hrow', ?_⟩
    rw [hw, happT, ← hold']
    exact (hT k i j _ rd hi hj hpi hpj hold hrd).symm

end exactOn

/-! ### two runs that differ in the coordinates of sources without positive weight -/
section twoRuns
variable {C K : Type} [Field K] [LinearOrder K] [IsStrictOrderedRing K]

/-- the state with other `rows` and `TPx`, `TPy` columns -/
def swapRT (s : GState K) (rows : List (GRow K)) (tp : Option (List (K × K))) : GState K :=
  { s with rows := rows, tp := tp }

theorem book_swap (s : GState K) (rows : List (GRow K)) (tp : Option (List (K × K)))
    (hl : rows.length = s.rows.length) (refIds mref minput : List Int) (n : Nat) :
    book (swapRT s rows tp) refIds mref minput n
      = ⟨swapRT (book s refIds mref minput n).st rows tp, (book s refIds mref minput n).res⟩ := by
  unfold book
  simp only [swapRT, GState.catlen, hl]
  cases normAll s.rows.length minput with
  | none => rfl
  | some inp =>
    cases normAll refIds.length mref with
    | none => rfl
    | some rf =>
      simp only []
      generalize bcast (List.map _ rf) inp.length = b1
      generalize bcast mref inp.length = b2
      cases b1 <;> cases b2 <;> rfl

theorem book_frame (s : GState K) (refIds mref minput : List Int) (n : Nat) :
    (book s refIds mref minput n).st.rows = s.rows ∧ (book s refIds mref minput n).st.tp = s.tp ∧
    (book s refIds mref minput n).st.weight = s.weight ∧
    (book s refIds mref minput n).st.memberLens = s.memberLens := by
  unfold book
  simp only
  cases normAll s.catlen minput with
  | none => exact ⟨rfl, rfl, rfl, rfl⟩
  | some inp =>
    cases normAll refIds.length mref with
    | none => exact ⟨rfl, rfl, rfl, rfl⟩
    | some rf =>
      simp only []
      generalize bcast (List.map _ rf) inp.length = b1
      generalize bcast mref inp.length = b2
      cases b1 <;> cases b2 <;> exact ⟨rfl, rfl, rfl, rfl⟩

theorem book_idx (s : GState K) (refIds mref minput : List Int) (n : Nat) (r : Nat × List Int × List Int)
    (h : (book s refIds mref minput n).res = .ok r) :
    (book s refIds mref minput n).st.minputIdx = some minput ∧
    (book s refIds mref minput n).st.mrefIdx = some mref := by
  obtain ⟨inp, rf, vs, ms, h1, h2, h3, h4, _⟩ := book_ok_inv s refIds mref minput n r h
  rw [book_ok s refIds mref minput n inp rf vs ms h1 h2 h3 h4]
  exact ⟨rfl, rfl⟩

theorem gather_isSome {α β : Type} (l1 : List α) (l2 : List β) (hl : l2.length = l1.length) :
    ∀ idx : List Nat, (gather l2 idx).isSome = (gather l1 idx).isSome
  | [] => by simp [gather]
  | i :: idx => by
    have ih := gather_isSome l1 l2 hl idx
    unfold gather at ih ⊢
    rw [List.mapM_cons, List.mapM_cons]
    by_cases hi : i < l1.length
    · have h1 : l1[i]? = some l1[i] := List.getElem?_eq_getElem hi
      have h2 : l2[i]? = some (l2[i]'(by omega)) := List.getElem?_eq_getElem (by omega)
      rw [h1, h2]
      cases h : List.mapM (fun i => l1[i]?) idx <;> cases h' : List.mapM (fun i => l2[i]?) idx <;> simp_all
    · have h1 : l1[i]? = none := List.getElem?_eq_none_iff.mpr (by omega)
      have h2 : l2[i]? = none := List.getElem?_eq_none_iff.mpr (by omega)
      simp [h1, h2]

/-- the arrays `fit2ref` selects when only the image positions are exchanged (same number of rows) -/
theorem fit2refArgs_swap (refXY : List (K × K)) (refW : Option (List K)) (tp1 tp2 : List (K × K))
    (hl : tp2.length = tp1.length) (imW : Option (List K)) (rf inp : List Nat) :
    (fit2refArgs refXY refW tp1 imW rf inp = none → fit2refArgs refXY refW tp2 imW rf inp = none) ∧
    ∀ pa1, fit2refArgs refXY refW tp1 imW rf inp = some pa1 → ∃ uv2, gather tp2 inp = some uv2 ∧
      gather tp1 inp = some pa1.uv ∧
      fit2refArgs refXY refW tp2 imW rf inp = some ⟨pa1.xy, uv2, pa1.wxy, pa1.wuv⟩ := by
  have hs := gather_isSome tp1 tp2 hl inp
  unfold fit2refArgs
  cases h1 : gather refXY rf <;> cases h2 : gather tp1 inp <;> cases h3 : gatherOpt refW rf <;>
    cases h4 : gatherOpt imW inp <;> cases h5 : gather tp2 inp <;> simp_all

theorem wOf_congr (ops : CorrOps C K) (ms ms' : List (GMember C K))
    (h : ms.map (·.corr) = ms'.map (·.corr)) : wOf ops ms = wOf ops ms' := by
  funext p xy
  have := congrArg (·[p]?) h
  simp only [List.getElem?_map] at this
  unfold wOf
  cases h1 : ms[p]? <;> cases h2 : ms'[p]? <;> simp_all

theorem apply_corr_congr (ops : CorrOps C K) (ms ms' : List (GMember C K))
    (h : ms.map (·.corr) = ms'.map (·.corr)) (M : M2 K) (s : V2 K) :
    (applyAffineToWcs ops ms M s).map (·.corr) = (applyAffineToWcs ops ms' M s).map (·.corr) := by
  apply List.ext_getElem?
  intro i
  have := congrArg (·[i]?) h
  simp only [List.getElem?_map] at this
  unfold applyAffineToWcs
  simp only [List.getElem?_map, applyFrom_getElem?]
  cases h1 : ms[i]? <;> cases h2 : ms'[i]? <;> simp_all

/-- the arrays handed to the fitter in the two runs: the same reference positions and weights, image positions
of the same number that agree wherever both weights are positive -/
def PairRel (pa1 pa2 : PairArgs K) : Prop :=
  pa2.xy = pa1.xy ∧ pa2.wxy = pa1.wxy ∧ pa2.wuv = pa1.wuv ∧ pa2.uv.length = pa1.uv.length ∧
  ∀ k, Clip.On (wmaskOf (List.zipWith mkObs pa1.xy pa1.uv).length pa1.wxy pa1.wuv) k → pa2.uv[k]? = pa1.uv[k]?

/-- **what the two runs have in common** (`R1`, `R2` the results for the members `ms1` / `ms2` and the group
catalogs with rows `rows1` / `rows2`):
* `fit`: the same fit was written — the same `iter_linear_fit` result (matrix, shift, centre, statistics,
  residual array, `fitmask`, `eff_nclip`) and the same re-centred `(matrix, shift)` in `fit_info` — or none in both;
* `ret`: the same exception or the same boolean; the arrays handed to the fitter are related by `PairRel`;
* `corr`, `cats`: every member ends with the same corrector state in both runs (the same correction was applied
  to every member), and keeps its own catalog;
* `wcs`: hence the same corrected WCS (`det_to_world`) of every member, at every pixel;
* `rows`: the recomputed catalogs have the same number of rows, and every row that was the same before (same
  member, id, pixel, sky position) is the same after (same recomputed `RA`, `DEC`);
* `mask`: `fitmask` is `False` on every pair that has a non-positive weight. -/
structure SameResult (ops : CorrOps C K) (ms1 ms2 : List (GMember C K)) (rows1 rows2 : List (GRow K))
    (R1 R2 : GAResult C K) : Prop where
  fit : R1.fit = R2.fit
  ret : (R1.res.map (·.1) = R2.res.map (·.1)) ∧
    ∀ b pa1, R1.res = .ok (b, some pa1) → ∃ pa2, R2.res = .ok (b, some pa2) ∧ PairRel pa1 pa2
  corr : R1.members.map (·.corr) = R2.members.map (·.corr)
  cats : R1.members.map (·.cat) = ms1.map (·.cat) ∧ R2.members.map (·.cat) = ms2.map (·.cat)
  wcs : ∀ p xy, wOf ops R1.members p xy = wOf ops R2.members p xy
  rows : R2.st.rows.length = R1.st.rows.length ∧ ∀ i : Nat, rows1[i]? = rows2[i]? → R1.st.rows[i]? = R2.st.rows[i]?
  mask : ∀ r f, R1.fit = some (r, f) → ∀ pa, R1.res = .ok (true, some pa) →
    ∀ k, ¬ Clip.On (wmaskOf (List.zipWith mkObs pa.xy pa.uv).length pa.wxy pa.wuv) k → ¬ Clip.On r.fitmask k

/-- the branches that do not reach `apply_affine_to_wcs` -/
theorem same_early (ops : CorrOps C K) (ms1 ms2 : List (GMember C K))
    (hcorr : ms1.map (·.corr) = ms2.map (·.corr)) (rows1 rows2 : List (GRow K)) (hl : rows2.length = rows1.length)
    (sA : GState K) (hA : sA.rows = rows1) (tpX : Option (List (K × K)))
    (res1 res2 : Except GErr (Bool × Option (PairArgs K)))
    (hres : (res1.map (·.1) = res2.map (·.1)) ∧
      ∀ b pa1, res1 = .ok (b, some pa1) → ∃ pa2, res2 = .ok (b, some pa2) ∧ PairRel pa1 pa2) :
    SameResult ops ms1 ms2 rows1 rows2 ⟨sA, ms1, res1, none⟩ ⟨swapRT sA rows2 tpX, ms2, res2, none⟩ where
  fit := rfl
  ret := hres
  corr := hcorr
  cats := ⟨rfl, rfl⟩
  wcs := fun p xy => by rw [wOf_congr ops ms1 ms2 hcorr]
  rows := ⟨by simp [swapRT, hA, hl], fun i h => by simpa [swapRT, hA] using h⟩
  mask := fun r f h => by cases h

theorem fit2refSel_eval (s : GState K) (tp : List (K × K)) (minput mref : List Int) (h1 : s.tp = some tp)
    (h2 : s.minputIdx = some minput) (h3 : s.mrefIdx = some mref) (refTP : List (K × K)) (refW : Option (List K)) :
    fit2refSel s refTP refW =
      match normAll tp.length minput, normAll refTP.length mref with
      | some inp, some rf =>
        match fit2refArgs refTP refW tp s.weight rf inp with
        | some a => .ok a
        | none => .error .indexError
      | _, _ => .error .indexError := by
  unfold fit2refSel
  simp only [h1, h2, h3]
  generalize normAll tp.length minput = a
  generalize normAll refTP.length mref = b
  cases a <;> cases b <;> rfl

theorem zw_two_runs (ops : CorrOps C K) (cfg : FitCfg K) (ms1 ms2 : List (GMember C K))
    (hcorr : ms1.map (·.corr) = ms2.map (·.corr))
    (st1 : GState K) (rows2 : List (GRow K)) (hl : rows2.length = st1.rows.length) (hne : st1.catlen ≠ 0)
    (ref : RefCat K) (mref minput : List Int) (minobj : Option Nat) (fitmin : Nat)
    (hag : ∀ inp rf, normAll st1.catlen minput = some inp → normAll ref.radec.length mref = some rf →
      ∀ k i j : Nat, inp[k]? = some i → rf[k]? = some j → PosW st1.weight i → PosW ref.weight j →
        (st1.rows[i]?).map (·.radec) = (rows2[i]?).map (·.radec)) :
    SameResult ops ms1 ms2 st1.rows rows2
      (groupAlignToRef ops cfg ms1 st1 ref (some (mref, minput)) minobj fitmin)
      (groupAlignToRef ops cfg ms2 { st1 with rows := rows2 } ref (some (mref, minput)) minobj fitmin) := by
  have hs2 : calcTanpXY { st1 with rows := rows2 } (tOf ops)
      = swapRT (calcTanpXY st1 (tOf ops)) rows2 (some (rows2.map fun r => tOf ops r.radec)) := rfl
  have hm1 := match2ref_some (calcTanpXY st1 (tOf ops)) ref.ids mref minput rfl hne
  have hm2 := match2ref_some (swapRT (calcTanpXY st1 (tOf ops)) rows2 (some (rows2.map fun r => tOf ops r.radec)))
    ref.ids mref minput rfl (by simpa [swapRT, GState.catlen, hl] using hne)
  have hl' : rows2.length = (calcTanpXY st1 (tOf ops)).rows.length := hl
  obtain ⟨hbr, hbt, hbw, hbm⟩ := book_frame (calcTanpXY st1 (tOf ops)) ref.ids mref minput mref.length
  have hbr' : (book (calcTanpXY st1 (tOf ops)) ref.ids mref minput mref.length).st.rows = st1.rows := hbr
  unfold groupAlignToRef
  by_cases he : st1.memberLens.isEmpty = true
  · simp only [he, if_true]
    exact same_early ops ms1 ms2 hcorr st1.rows rows2 hl st1 rfl st1.tp _ _ ⟨rfl, fun b pa h => by cases h⟩
  · simp only [he, hs2, hm1, hm2, book_swap _ _ _ hl']
    cases hres : (book (calcTanpXY st1 (tOf ops)) ref.ids mref minput mref.length).res with
    | error e =>
      simp only []
      exact same_early ops ms1 ms2 hcorr st1.rows rows2 hl _ hbr' _ _ _ ⟨rfl, fun b pa h => by cases h⟩
    | ok r0 =>
      obtain ⟨n, mr, mi⟩ := r0
      simp only []
      by_cases hn : n < effMinobj minobj fitmin
      · simp only [hn, if_true]
        exact same_early ops ms1 ms2 hcorr st1.rows rows2 hl _ hbr' _ _ _ ⟨rfl, fun b pa h => by cases h⟩
      · simp only [hn, if_false]
        obtain ⟨hmi, hmr⟩ := book_idx _ ref.ids mref minput mref.length _ hres
        have htp1 : (book (calcTanpXY st1 (tOf ops)) ref.ids mref minput mref.length).st.tp
            = some (st1.rows.map fun r => tOf ops r.radec) := hbt
        have hw1 : (book (calcTanpXY st1 (tOf ops)) ref.ids mref minput mref.length).st.weight = st1.weight := hbw
        have hml : (book (calcTanpXY st1 (tOf ops)) ref.ids mref minput mref.length).st.memberLens
            = st1.memberLens := hbm
        generalize (book (calcTanpXY st1 (tOf ops)) ref.ids mref minput mref.length).st = sB at *
        rw [fit2refSel_eval sB _ minput mref htp1 hmi hmr,
          fit2refSel_eval (swapRT sB rows2 (some (rows2.map fun r => tOf ops r.radec))) _ minput mref rfl hmi hmr]
        simp only [List.length_map, hl, Bool.false_eq_true, if_false]
        cases hin : normAll st1.rows.length minput with
        | none =>
          simp only []
          exact same_early ops ms1 ms2 hcorr st1.rows rows2 hl _ hbr' _ _ _ ⟨rfl, fun b pa h => by cases h⟩
        | some inp =>
          cases hrf : normAll ref.radec.length mref with
          | none =>
            simp only []
            exact same_early ops ms1 ms2 hcorr st1.rows rows2 hl _ hbr' _ _ _ ⟨rfl, fun b pa h => by cases h⟩
          | some rf =>
            simp only []
            have hlt : (rows2.map fun r => tOf ops r.radec).length = (st1.rows.map fun r => tOf ops r.radec).length := by
              simp [hl]
            have hsw := fit2refArgs_swap (ref.radec.map (tOf ops)) ref.weight
              (st1.rows.map fun r => tOf ops r.radec) (rows2.map fun r => tOf ops r.radec) hlt sB.weight rf inp
            have hswW : (swapRT sB rows2 (some (rows2.map fun r => tOf ops r.radec))).weight = sB.weight := rfl
            rw [hswW]
            cases ha1 : fit2refArgs (ref.radec.map (tOf ops)) ref.weight (st1.rows.map fun r => tOf ops r.radec)
                sB.weight rf inp with
            | none =>
              rw [hsw.1 ha1]
              simp only []
              exact same_early ops ms1 ms2 hcorr st1.rows rows2 hl _ hbr' _ _ _ ⟨rfl, fun b pa h => by cases h⟩
            | some pa1 =>
              obtain ⟨uv2, hg2, hg1, ha2⟩ := hsw.2 pa1 ha1
              rw [ha2]
              simp only []
              obtain ⟨len1, sp1⟩ := C09L.gather_spec _ _ _ hg1
              obtain ⟨len2, sp2⟩ := C09L.gather_spec _ _ _ hg2
              obtain ⟨⟨hxl, _⟩, _, _, hws, _, hus⟩ := C09.weights_follow_pairs _ _ _ _ _ _ pa1 ha1
              have hagree : ∀ k, Clip.On (wmaskOf (List.zipWith mkObs pa1.xy pa1.uv).length pa1.wxy pa1.wuv) k →
                  uv2[k]? = pa1.uv[k]? := by
                intro k hon
                obtain ⟨hk, hpx, hpu⟩ := (C09.wmask_spec _ _ _ k).mp hon
                rw [List.length_zipWith] at hk
                have hk1 : k < inp.length := by omega
                have hk2 : k < rf.length := by omega
                have hi : inp[k]? = some inp[k] := List.getElem?_eq_getElem hk1
                have hj : rf[k]? = some rf[k] := List.getElem?_eq_getElem hk2
                have hpi : PosW st1.weight inp[k] := by
                  intro W hW
                  obtain ⟨wu, hwu, _, hwuk⟩ := hus W (by rw [hw1]; exact hW)
                  obtain ⟨x, hx', hpos⟩ := hpu wu hwu
                  rw [hwuk k hk1, hi] at hx'
                  exact ⟨x, by simpa using hx', by simpa [zeroK_eq] using hpos⟩
                have hpj : PosW ref.weight rf[k] := by
                  intro W hW
                  obtain ⟨wx, hwx, _, hwxk⟩ := hws W hW
                  obtain ⟨x, hx', hpos⟩ := hpx wx hwx
                  rw [hwxk k hk2, hj] at hx'
                  exact ⟨x, by simpa using hx', by simpa [zeroK_eq] using hpos⟩
                have e := hag inp rf hin hrf k _ _ hi hj hpi hpj
                rw [sp1 k hk1, sp2 k hk1, hi]
                simp only [Option.bind_some, List.getElem?_map]
                have e2 := congrArg (Option.map (tOf ops)) e
                simpa [Option.map_map, Function.comp_def] using e2.symm
              have hrel : PairRel pa1 ⟨pa1.xy, uv2, pa1.wxy, pa1.wuv⟩ :=
                ⟨rfl, rfl, rfl, by simp only []; omega, hagree⟩
              have hzw := C09.zero_weight_irrelevant cfg.single cfg.normalised cfg.metric cfg.fitMinobj
                (List.zipWith mkObs pa1.xy pa1.uv) (List.zipWith mkObs pa1.xy uv2) pa1.wxy pa1.wuv none cfg.nclip
                cfg.sigma cfg.accum (by simp only [List.length_zipWith]; omega)
                (fun k hk => by
                  rw [List.getElem?_zipWith, List.getElem?_zipWith, hagree k hk])
              have hfpeq : fitPairs cfg ⟨pa1.xy, uv2, pa1.wxy, pa1.wuv⟩ = fitPairs cfg pa1 := by
                unfold fitPairs
                simp only []
                rw [← hzw.1]
              rw [hfpeq]
              cases hfp : fitPairs cfg pa1 with
              | error e =>
                simp only []
                cases ho : outcomeOfErr e <;> simp only []
                · exact same_early ops ms1 ms2 hcorr st1.rows rows2 hl _ hbr' _ _ _
                    ⟨rfl, fun b pa h => by
                      simp only [Except.ok.injEq, Prod.mk.injEq, Option.some.injEq] at h
                      obtain ⟨rfl, rfl⟩ := h
                      exact ⟨_, rfl, hrel⟩⟩
                · exact same_early ops ms1 ms2 hcorr st1.rows rows2 hl _ hbr' _ _ _
                    ⟨rfl, fun b pa h => by
                      simp only [Except.ok.injEq, Prod.mk.injEq, Option.some.injEq] at h
                      obtain ⟨rfl, rfl⟩ := h
                      exact ⟨_, rfl, hrel⟩⟩
                · exact same_early ops ms1 ms2 hcorr st1.rows rows2 hl _ hbr' _ _ _ ⟨rfl, fun b pa h => by cases h⟩
              | ok rs =>
                obtain ⟨r, sh⟩ := rs
                simp only []
                have hcc := apply_corr_congr ops ms1 ms2 hcorr (reportedOf r sh).m (reportedOf r sh).t
                have hW := wOf_congr ops _ _ hcc
                refine ⟨rfl, ⟨rfl, fun b pa h => ?_⟩, hcc, ⟨apply_cats _ _ _ _, apply_cats _ _ _ _⟩,
                  fun p xy => by rw [hW], ?_, ?_⟩
                · simp only [Except.ok.injEq, Prod.mk.injEq, Option.some.injEq] at h
                  obtain ⟨rfl, rfl⟩ := h
                  exact ⟨_, rfl, hrel⟩
                · simp only [recalcCatalogRadec, swapRT, recalcFrom_eq, List.length_map, List.getElem?_map, hbr', hW,
                    hml]
                  exact ⟨hl, fun i h => by rw [h]⟩
                · intro r' f' hfit pa hpa k hk
                  simp only [Option.some.injEq, Prod.mk.injEq] at hfit
                  obtain ⟨rfl, _⟩ := hfit
                  simp only [Except.ok.injEq, Prod.mk.injEq, Option.some.injEq, true_and] at hpa
                  subst hpa
                  have hiter := (fitPairs_ok cfg pa1 r sh hfp).1
                  exact (C09.zero_weight_irrelevant cfg.single cfg.normalised cfg.metric cfg.fitMinobj
                    (List.zipWith mkObs pa1.xy pa1.uv) (List.zipWith mkObs pa1.xy pa1.uv) pa1.wxy pa1.wuv none
                    cfg.nclip cfg.sigma cfg.accum rfl (fun _ _ => rfl)).2 r hiter k hk

end twoRuns

end TW.GWL
