import Proofs.C10Lemmas
import Proofs.StatsAgree

/-!
# C10 — reported rotation, scale, skew and statistics agree with the fitted matrix

Property theorems only (helper lemmas live in `Proofs/C10Lemmas.lean`).  The model is
`Model/BuildFit.lean`: `buildFit` (= `_build_fit`), `buildFitMatrix` (= `build_fit_matrix`),
`computeStatB` (= `_compute_stat`), `residCentered` (the residuals of `iter_linear_fit`).
`K = ℝ`; `arctan2` is `Complex.arg` (`Proofs/Trig.lean`), angles are in degrees; rounding is
outside the model (DESIGN.md section 3).

Notation of the statements: the fitted matrix is `[[p0, p1], [q0, q1]]`, `f = buildFit g p0 p1 p2 q0 q1 q2`
is the returned dictionary: `f.rotx, f.roty` = `rot`, `f.rot` = `<rot>`, `f.sx, f.sy` = `scale`,
`f.s` = `<scale>`, `f.skew`, `f.proper`, `f.properRot`.

`Reachable g p0 p1 q0 q1` (defined in `C10Lemmas.lean`) describes the matrices that the fitter of
geometry `g` hands to `_build_fit`: no restriction for 'general'; `[[a, b], [-b, a]]` or
`[[a, b], [b, -a]]` for 'rscale' / 'rshift'; the identity for 'shift'.  `fitters_reachable` shows
that the models of the fitters (`Model/Fit.lean`) produce nothing else.  (For an arbitrary matrix
labelled 'rscale' the decomposition is false: `_build_fit` then reports `sx = sy = √|det|`.)
-/
open TW
set_option linter.unusedSectionVars false

namespace TW.C10

/-- the single-shot fitters only produce matrices of the shape assumed below -/
theorem fitters_reachable (obs : List (Obs ℝ)) (wxy wuv : Option (List ℝ)) (L : Lin ℝ) :
    (fitRscale obs wxy wuv none = .ok L → Reachable .rscale L.m00 L.m01 L.m10 L.m11) ∧
    (fitRscale obs wxy wuv (some 1) = .ok L → Reachable .rshift L.m00 L.m01 L.m10 L.m11) ∧
    (fitShifts obs wxy wuv = .ok L → Reachable .shift L.m00 L.m01 L.m10 L.m11) ∧
    Reachable .general L.m00 L.m01 L.m10 L.m11 :=
  ⟨fitRscale_reachable obs wxy wuv L, fitRshift_reachable obs wxy wuv L,
   fitShifts_reachable obs wxy wuv L, trivial⟩

/-- **decomposition**: `matrix = [[sx cos rx, sy sin ry], [-sx sin rx, sy cos ry]]` for the reported
`rot = (rx, ry)` and `scale = (sx, sy)`: every fit geometry, proper and improper matrices -/
theorem decomposition (g : FitGeom) (p0 p1 p2 q0 q1 q2 : ℝ) (hdet : det2 p0 p1 q0 q1 ≠ 0)
    (hr : Reachable g p0 p1 q0 q1) :
    p0 = (buildFit g p0 p1 p2 q0 q1 q2).sx * HasTrig.cosdeg (buildFit g p0 p1 p2 q0 q1 q2).rotx ∧
    p1 = (buildFit g p0 p1 p2 q0 q1 q2).sy * HasTrig.sindeg (buildFit g p0 p1 p2 q0 q1 q2).roty ∧
    q0 = -((buildFit g p0 p1 p2 q0 q1 q2).sx * HasTrig.sindeg (buildFit g p0 p1 p2 q0 q1 q2).rotx) ∧
    q1 = (buildFit g p0 p1 p2 q0 q1 q2).sy * HasTrig.cosdeg (buildFit g p0 p1 p2 q0 q1 q2).roty := by
  obtain ⟨h1, h2, h3, h4⟩ := decomp_all g p0 p1 p2 q0 q1 q2 hdet hr
  exact ⟨h1.symm, h2.symm, by rw [← neg_mul]; exact h3.symm, h4.symm⟩

/-- the hypothesis `Reachable` cannot be dropped: for the (unreachable) input `diag(1, 4)` labelled
'rscale' the reported values `sx = sy = 2`, `rotx = roty` do not reproduce the matrix -/
theorem decomposition_needs_reachable :
    ¬ Decomposes (buildFit .rscale 1 0 0 0 4 0) 1 0 0 4 := by
  rintro ⟨h1, -, -, h4⟩
  have hpos : 0 < det2 (1 : ℝ) 0 0 4 := by norm_num [det2]
  have hsing : singleAngle .rscale (properOf (signK (det2 (1 : ℝ) 0 0 4))) = true := by
    rw [(properOf_signK hpos.ne').mpr hpos]; rfl
  rw [buildFit_ne_shift (by decide)] at h1 h4
  simp only [anglesOf_single hsing] at h1 h4
  have hsc : axisScales .rscale (1 : ℝ) 0 0 4 (meanScale (det2 1 0 0 4))
      = (meanScale (det2 1 0 0 4), meanScale (det2 1 0 0 4)) := rfl
  rw [hsc] at h1 h4
  simp only at h1 h4
  linarith

/-- the reported scales are positive (so `rx`, `ry` are the directions of the columns) -/
theorem scales_positive (g : FitGeom) (p0 p1 p2 q0 q1 q2 : ℝ) (hdet : det2 p0 p1 q0 q1 ≠ 0) :
    0 < (buildFit g p0 p1 p2 q0 q1 q2).sx ∧ 0 < (buildFit g p0 p1 p2 q0 q1 q2).sy ∧
    0 < (buildFit g p0 p1 p2 q0 q1 q2).s := by
  cases g with
  | shift => rw [buildFit_shift]; simp
  | general =>
    rw [buildFit_ne_shift (by decide)]
    exact ⟨(sqrt_sq_pos (col_ne_zero_left hdet)).1, (sqrt_sq_pos (col_ne_zero_right hdet)).1,
      meanScale_pos hdet⟩
  | rscale =>
    rw [buildFit_ne_shift (by decide)]
    exact ⟨meanScale_pos hdet, meanScale_pos hdet, meanScale_pos hdet⟩
  | rshift =>
    rw [buildFit_ne_shift (by decide)]
    exact ⟨meanScale_pos hdet, meanScale_pos hdet, meanScale_pos hdet⟩

/-- **build_fit_matrix inverts the decomposition**: applied to the reported `rot`, `scale` it gives
back the matrix -/
theorem buildFitMatrix_inverse (g : FitGeom) (p0 p1 p2 q0 q1 q2 : ℝ) (hdet : det2 p0 p1 q0 q1 ≠ 0)
    (hr : Reachable g p0 p1 q0 q1) :
    buildFitMatrixArgs
      (.two (buildFit g p0 p1 p2 q0 q1 q2).rotx (buildFit g p0 p1 p2 q0 q1 q2).roty)
      (.two (buildFit g p0 p1 p2 q0 q1 q2).sx (buildFit g p0 p1 p2 q0 q1 q2).sy)
      = (p0, p1, q0, q1) := by
  obtain ⟨h1, h2, h3, h4⟩ := decomp_all g p0 p1 p2 q0 q1 q2 hdet hr
  simp only [buildFitMatrixArgs, buildFitMatrix, OneOrTwo.pair]
  rw [h1, h2, h3, h4]

/-- **the decomposition inverts build_fit_matrix** ('general', pair arguments, positive scales):
decomposing `build_fit_matrix((rx, ry), (sx, sy))` returns `sx`, `sy` and `rx`, `ry` modulo 360 -/
theorem buildFitMatrix_inverse_general (rx ry sx sy p2 q2 : ℝ) (hsx : 0 < sx) (hsy : 0 < sy) :
    let m := buildFitMatrixArgs (.two rx ry) (.two sx sy)
    let f := buildFit .general m.1 m.2.1 p2 m.2.2.1 m.2.2.2 q2
    f.sx = sx ∧ f.sy = sy ∧ (∃ k : ℤ, f.rotx = rx + 360 * k) ∧ (∃ k : ℤ, f.roty = ry + 360 * k) :=
  recompose_general rx ry sx sy p2 q2 hsx hsy

/-- the same for scalar arguments `build_fit_matrix(rot, scale)` and the geometries 'rscale' /
'rshift': one angle (`rotx = roty ≡ rot`) and one scale come back -/
theorem buildFitMatrix_inverse_similarity (g : FitGeom) (hg : g = .rscale ∨ g = .rshift)
    (rot sc p2 q2 : ℝ) (hsc : 0 < sc) :
    let m := buildFitMatrixArgs (.one rot) (.one sc)
    let f := buildFit g m.1 m.2.1 p2 m.2.2.1 m.2.2.2 q2
    f.sx = sc ∧ f.sy = sc ∧ f.roty = f.rotx ∧ (∃ k : ℤ, f.rotx = rot + 360 * k) :=
  recompose_similarity hg rot sc p2 q2 hsc

/-- **skew wrap**: `skew ≡ roty − rotx (mod 360)` and `−180 ≤ skew < 180` (the code computes
`np.mod(roty − rotx − 180, 360) − 180`; in floating point the upper end 180.0 can be produced by
rounding, the property allows both ends).  No hypothesis on the matrix is needed. -/
theorem skew_wrap (g : FitGeom) (p0 p1 p2 q0 q1 q2 : ℝ) :
    (∃ k : ℤ, (buildFit g p0 p1 p2 q0 q1 q2).skew =
      (buildFit g p0 p1 p2 q0 q1 q2).roty - (buildFit g p0 p1 p2 q0 q1 q2).rotx + 360 * k) ∧
    -180 ≤ (buildFit g p0 p1 p2 q0 q1 q2).skew ∧ (buildFit g p0 p1 p2 q0 q1 q2).skew < 180 := by
  cases g with
  | shift =>
    rw [buildFit_shift]
    exact ⟨⟨0, by simp⟩, by norm_num, by norm_num⟩
  | general => rw [buildFit_ne_shift (by decide)]; exact anglesOf_skew _ _ _ _ _ _ _
  | rscale => rw [buildFit_ne_shift (by decide)]; exact anglesOf_skew _ _ _ _ _ _ _
  | rshift => rw [buildFit_ne_shift (by decide)]; exact anglesOf_skew _ _ _ _ _ _ _

/-- **mean scale**: `<scale> = √|det|` -/
theorem mean_scale (g : FitGeom) (p0 p1 p2 q0 q1 q2 : ℝ) (hr : Reachable g p0 p1 q0 q1) :
    (buildFit g p0 p1 p2 q0 q1 q2).s = Real.sqrt |det2 p0 p1 q0 q1| := by
  cases g with
  | shift =>
    obtain ⟨rfl, rfl, rfl, rfl⟩ := hr
    rw [buildFit_shift]
    simp [det2]
  | general => rw [buildFit_ne_shift (by decide)]; exact meanScale_eq _
  | rscale => rw [buildFit_ne_shift (by decide)]; exact meanScale_eq _
  | rshift => rw [buildFit_ne_shift (by decide)]; exact meanScale_eq _

/-- **mean rotation**: `<rot>` is the arithmetic mean of `rotx` and `roty`, as the code defines it
(`0.5 * (rotx + roty)`, or the common value when there is only one angle) -/
theorem mean_rot (g : FitGeom) (p0 p1 p2 q0 q1 q2 : ℝ) :
    (buildFit g p0 p1 p2 q0 q1 q2).rot =
      ((buildFit g p0 p1 p2 q0 q1 q2).rotx + (buildFit g p0 p1 p2 q0 q1 q2).roty) / 2 := by
  cases g with
  | shift => rw [buildFit_shift]; simp
  | general => rw [buildFit_ne_shift (by decide)]; exact anglesOf_mean _ _ _ _ _ _ _
  | rscale => rw [buildFit_ne_shift (by decide)]; exact anglesOf_mean _ _ _ _ _ _ _
  | rshift => rw [buildFit_ne_shift (by decide)]; exact anglesOf_mean _ _ _ _ _ _ _

/-- **proper** exactly when `det > 0` (the code tests `sign(det) ≥ 0`, which differs only for
singular matrices) -/
theorem proper_iff (g : FitGeom) (p0 p1 p2 q0 q1 q2 : ℝ) (hdet : det2 p0 p1 q0 q1 ≠ 0) :
    (buildFit g p0 p1 p2 q0 q1 q2).proper = true ↔ 0 < det2 p0 p1 q0 q1 := by
  cases g with
  | shift => rw [buildFit_shift]; exact properOf_signK hdet
  | general => rw [buildFit_ne_shift (by decide)]; exact properOf_signK hdet
  | rscale => rw [buildFit_ne_shift (by decide)]; exact properOf_signK hdet
  | rshift => rw [buildFit_ne_shift (by decide)]; exact properOf_signK hdet

/-- **angle ranges**: every reported angle lies in `[−180, 180]` (from `−π < arg ≤ π`), for every
input -/
theorem angle_ranges (g : FitGeom) (p0 p1 p2 q0 q1 q2 : ℝ) :
    (-180 ≤ (buildFit g p0 p1 p2 q0 q1 q2).rotx ∧ (buildFit g p0 p1 p2 q0 q1 q2).rotx ≤ 180) ∧
    (-180 ≤ (buildFit g p0 p1 p2 q0 q1 q2).roty ∧ (buildFit g p0 p1 p2 q0 q1 q2).roty ≤ 180) ∧
    (-180 ≤ (buildFit g p0 p1 p2 q0 q1 q2).rot ∧ (buildFit g p0 p1 p2 q0 q1 q2).rot ≤ 180) ∧
    (-180 ≤ (buildFit g p0 p1 p2 q0 q1 q2).properRot ∧ (buildFit g p0 p1 p2 q0 q1 q2).properRot ≤ 180) ∧
    (-180 ≤ (buildFit g p0 p1 p2 q0 q1 q2).skew ∧ (buildFit g p0 p1 p2 q0 q1 q2).skew ≤ 180) := by
  have hs := skew_wrap g p0 p1 p2 q0 q1 q2
  obtain ⟨h1, h2, h3, h4⟩ := buildFit_ranges g p0 p1 p2 q0 q1 q2
  exact ⟨⟨h1.1.le, h1.2⟩, ⟨h2.1.le, h2.2⟩, ⟨h3.1.le, h3.2⟩, ⟨h4.1.le, h4.2⟩, hs.2.1, hs.2.2.le⟩

/-- **statistics, unweighted mode** (`weights is None`): with `n` residuals `r_k`,
`rmse = √((1/n) Σ‖r_k‖²)`, `mae = (1/n) Σ‖r_k‖`, `std = √((1/n) Σ‖r_k − r̄‖²)` with `r̄` the
plain mean (population standard deviation) -/
theorem stats_recomputable_unweighted (res : List (ℝ × ℝ)) :
    computeStatB res none =
      some ⟨Real.sqrt (avg res nsq), avg res fun r => Real.sqrt (nsq r),
            Real.sqrt (avg res fun r => nsq (r.1 - avg res (·.1), r.2 - avg res (·.2)))⟩ := by
  simp only [computeStatB, statUnweighted_eq]

/-- **statistics, weighted modes** (one weight list, or the harmonic combination of two): with the
normalised weights `w_k = weights_k / Σ weights`,
`rmse = √(Σ w_k‖r_k‖²)`, `mae = Σ w_k‖r_k‖`,
`std = √(Σ w_k‖r_k − r̄_w‖² / (1 − Σ w_k²))` with `r̄_w = Σ w_k r_k`, and `std = 0` for a single
point.  (The divisor `1 − Σ w_k²` sits inside the root, as in the code.) -/
theorem stats_recomputable_weighted (res : List (ℝ × ℝ)) (weights : List ℝ) (hn : weights ≠ [])
    (hw : weights.sum ≠ 0) :
    computeStatB res (some weights) =
      some ⟨Real.sqrt (wsum (weights.map (· / weights.sum)) res nsq),
            wsum (weights.map (· / weights.sum)) res fun r => Real.sqrt (nsq r),
            if weights.length = 1 then 0
            else Real.sqrt (wsum (weights.map (· / weights.sum)) res (fun r =>
                nsq (r.1 - wsum (weights.map (· / weights.sum)) res (·.1),
                     r.2 - wsum (weights.map (· / weights.sum)) res (·.2)))
              / (1 - ((weights.map (· / weights.sum)).map (· ^ 2)).sum))⟩ := by
  simp only [computeStatB]
  exact statWeighted_eq res weights hn hw

/-- the three NaNs are stored exactly when there are no weights or they sum to zero -/
theorem stats_nan_iff (res : List (ℝ × ℝ)) (weights : List ℝ) :
    computeStatB res (some weights) = none ↔ (weights = [] ∨ weights.sum = 0) := by
  simp only [computeStatB]
  exact statWeighted_none res weights

/-- the statistics depend on the weights only through the normalised weights: `fit_general` passes
un-normalised weights, `fit_shifts` / `fit_rscale` normalised ones -/
theorem stats_weight_scale_invariant (res : List (ℝ × ℝ)) (weights : List ℝ) (c : ℝ) (hc : c ≠ 0) :
    computeStatB res (some (weights.map (c * ·))) = computeStatB res (some weights) := by
  by_cases h : weights = [] ∨ weights.sum = 0
  · rw [(stats_nan_iff res weights).mpr h]
    apply (stats_nan_iff res _).mpr
    rcases h with h | h
    · left; rw [h]; rfl
    · right
      have : (weights.map (c * ·)).sum = c * weights.sum := by
        clear h
        induction weights with
        | nil => simp
        | cons a l ih => simp only [List.map_cons, List.sum_cons]; rw [ih]; ring
      rw [this, h, mul_zero]
  · push Not at h
    have hs : (weights.map (c * ·)).sum ≠ 0 := by
      have : (weights.map (c * ·)).sum = c * weights.sum := by
        clear h
        induction weights with
        | nil => simp
        | cons a l ih => simp only [List.map_cons, List.sum_cons]; rw [ih]; ring
      rw [this]; exact mul_ne_zero hc h.2
    have hne : weights.map (c * ·) ≠ [] := by
      intro hh; exact h.1 (List.map_eq_nil_iff.mp hh)
    rw [stats_recomputable_weighted res _ hne hs, stats_recomputable_weighted res _ h.1 h.2,
      normalise_scale weights c hc, List.length_map]

/-- **the two models of `_compute_stat` agree.**  `computeStatB` (`Model/BuildFit.lean`, the model
the statistics theorems above are about) and `computeStat` (`Model/Clip.lean`, the model the
clipping loop of C07/C09 computes its cutoff from) were written independently.  For every residual
list and every weights option: where `computeStatB` is defined, `rmse`, `mae` and `std` are equal
to those of `computeStat`; `computeStatB` is undefined exactly in the weighted branch with no
weights or weights summing to zero, and `computeStat` then holds the NaN placeholder `0/0` in all
three slots.  Over `ℝ` with `Real.sqrt`; the scalar-generic statement (any type with the arithmetic
operations and a square root, e.g. `Float`) is `TW.StatsAgree.stats_models_agree`. -/
theorem stats_models_agree (res : List (ℝ × ℝ)) (weights : Option (List ℝ)) :
    (∀ s, computeStatB res weights = some s →
      (computeStat res weights).rmse = s.rmse ∧ (computeStat res weights).mae = s.mae ∧
      (computeStat res weights).std = s.std) ∧
    (computeStatB res weights = none ↔ ∃ ws, weights = some ws ∧ (ws = [] ∨ ws.sum = 0)) ∧
    (computeStatB res weights = none → computeStat res weights = ⟨nanK, nanK, nanK⟩) := by
  obtain ⟨h1, h2, h3⟩ := StatsAgree.stats_models_agree res weights
  refine ⟨h1, ?_, h3⟩
  cases weights with
  | none =>
    constructor
    · intro h; cases h
    · rintro ⟨ws, h, _⟩; cases h
  | some ws =>
    rw [stats_nan_iff]
    constructor
    · intro h; exact ⟨ws, rfl, h⟩
    · rintro ⟨ws', h, hd⟩
      injection h with h
      subst h
      exact hd

/-- hence the statistics theorems above (`stats_recomputable_*`, `stats_weight_scale_invariant`)
hold verbatim for the statistics the clipping model reports: e.g. in the weighted regular case
`computeStat` returns the closed forms of `stats_recomputable_weighted` -/
theorem computeStat_recomputable_weighted (res : List (ℝ × ℝ)) (weights : List ℝ) (hn : weights ≠ [])
    (hw : weights.sum ≠ 0) :
    (computeStat res (some weights)).rmse
        = Real.sqrt (wsum (weights.map (· / weights.sum)) res nsq) ∧
    (computeStat res (some weights)).mae
        = wsum (weights.map (· / weights.sum)) res (fun r => Real.sqrt (nsq r)) ∧
    (computeStat res (some weights)).std
        = if weights.length = 1 then 0
          else Real.sqrt (wsum (weights.map (· / weights.sum)) res (fun r =>
                nsq (r.1 - wsum (weights.map (· / weights.sum)) res (·.1),
                     r.2 - wsum (weights.map (· / weights.sum)) res (·.2)))
              / (1 - ((weights.map (· / weights.sum)).map (· ^ 2)).sum)) :=
  (stats_models_agree res (some weights)).1 _ (stats_recomputable_weighted res weights hn hw)

theorem computeStat_recomputable_unweighted (res : List (ℝ × ℝ)) :
    (computeStat res none).rmse = Real.sqrt (avg res nsq) ∧
    (computeStat res none).mae = avg res (fun r => Real.sqrt (nsq r)) ∧
    (computeStat res none).std
      = Real.sqrt (avg res fun r => nsq (r.1 - avg res (·.1), r.2 - avg res (·.2))) :=
  (stats_models_agree res none).1 _ (stats_recomputable_unweighted res)

/-- **residual identity**: the residuals computed by the fitters on the centred coordinates are
`xy − (F (uv − c) + s + c)`, i.e. `xy − (F uv + s_eff)` with `s_eff = s + c − F c` -/
theorem residual_identity (m00 m01 m10 m11 sx sy cx cy x y u v : ℝ) :
    residCentered m00 m01 m10 m11 sx sy cx cy x y u v =
      (x - ((m00 * (u - cx) + m01 * (v - cy)) + sx + cx),
       y - ((m10 * (u - cx) + m11 * (v - cy)) + sy + cy)) ∧
    residCentered m00 m01 m10 m11 sx sy cx cy x y u v =
      (x - ((m00 * u + m01 * v) + (effShift m00 m01 m10 m11 sx sy cx cy).1),
       y - ((m10 * u + m11 * v) + (effShift m00 m01 m10 m11 sx sy cx cy).2)) := by
  simp only [residCentered, effShift, Prod.mk.injEq]
  refine ⟨⟨?_, ?_⟩, ⟨?_, ?_⟩⟩ <;> ring

/-! ### non-vacuity: concrete inputs meeting the hypotheses -/

-- a skewed, anisotropic, improper 'general' matrix
example : det2 (2 : ℝ) 1 3 (-1) ≠ 0 ∧ Reachable .general 2 1 3 (-1) := by
  constructor
  · norm_num [det2]
  · trivial
-- a proper similarity and a reflected one for 'rscale' / 'rshift'
example : det2 (3 : ℝ) 4 (-4) 3 ≠ 0 ∧ Reachable .rscale 3 4 (-4) 3 := by
  constructor
  · norm_num [det2]
  · left; constructor <;> rfl
example : det2 (3 : ℝ) 4 4 (-3) ≠ 0 ∧ Reachable .rshift 3 4 4 (-3) := by
  constructor
  · norm_num [det2]
  · right; constructor <;> rfl
example : det2 (1 : ℝ) 0 0 1 ≠ 0 ∧ Reachable .shift 1 0 0 1 := by
  constructor
  · norm_num [det2]
  · exact ⟨rfl, rfl, rfl, rfl⟩
-- weights meeting the hypotheses of the weighted statistics
example : ([1, 2, 3] : List ℝ) ≠ [] ∧ ([1, 2, 3] : List ℝ).sum ≠ 0 := by
  constructor
  · simp
  · norm_num
-- the executable model on exact rationals: sign, properness and the residual identity are decided
example : properOf (signK (det2 (2 : ℚ) 1 3 (-1))) = false := by decide +kernel
example : properOf (signK (det2 (3 : ℚ) 4 (-4) 3)) = true := by decide +kernel
example : residCentered (2 : ℚ) 1 3 (-1) 5 7 10 20 1 2 3 4 = (1 - ((2 * 3 + 1 * 4) + (5 + 10 - (2 * 10 + 1 * 20))),
    2 - ((3 * 3 + (-1) * 4) + (7 + 20 - (3 * 10 + (-1) * 20)))) := by decide +kernel

-- the two models of `_compute_stat` on exact rationals (root-free part: the `HasSqrt` instance is
-- the identity, so `rmse` holds the mean square): defined/undefined cases of `stats_models_agree`
section
local instance : HasSqrt ℚ := ⟨id⟩
example : (computeStatB (K := ℚ) [(1, 2), (3, -1), (0, 5)] (some [1, 2, 0])).isSome = true ∧
    (computeStatB (K := ℚ) [(1, 2), (3, -1), (0, 5)] none).isSome = true ∧
    (computeStatB (K := ℚ) [(1, 2), (3, -1), (0, 5)] (some [1, -1, 0])).isNone = true ∧
    (computeStatB (K := ℚ) [(1, 2), (3, -1), (0, 5)] (some [])).isNone = true := by decide +kernel
example : (match computeStatB (K := ℚ) [(1, 2), (3, -1), (0, 5)] (some [1, 2, 0]) with
    | some s => (computeStat (K := ℚ) [(1, 2), (3, -1), (0, 5)] (some [1, 2, 0])).rmse == s.rmse
        && s.rmse == 25/3
    | none => false) = true := by decide +kernel
end

end TW.C10
