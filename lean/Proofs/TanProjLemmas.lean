import Proofs.GCorrLemmas
import Proofs.Trig
import Model.TanProj

/-!
Helper lemmas for the concrete V2V3 ⇄ tangent-plane pipeline (`Model/TanProj.lean`):

* algebra of `V3`/`M3` over a field, orthogonality of the elementary rotations and of
  `rotZYXcs`, `rotXYZcs (−) = (rotZYXcs)ᵀ`;
* the Cartesian core `c2tan`/`tan2c` between a matrix and its transpose;
* at `K = ℝ` (with the `HasTrig ℝ`/`HasSqrt ℝ` instances of `Proofs/Trig.lean`): `c2s ∘ s2c`,
  `s2c ∘ c2s`, invariance of `c2s` under positive scaling, `tpU ∘ tpUinv = id` and
  `tpUinv ∘ tpU = id` on `tpInDomain`;
* the chart-level corrector lemmas for an environment whose `U` is only a partial bijection
  (`GEnv.PBij`).
-/
open TW
set_option linter.unusedSectionVars false

namespace TW

/-! ### algebra over a field -/
section field
variable {K : Type} [Field K] [LinearOrder K] [IsStrictOrderedRing K]

theorem V3.eq_iff (p q : V3 K) : p = q ↔ p.x = q.x ∧ p.y = q.y ∧ p.z = q.z := by
  cases p; cases q; simp

theorem M3.eq_iff (m n : M3 K) : m = n ↔ m.a00 = n.a00 ∧ m.a01 = n.a01 ∧ m.a02 = n.a02 ∧
    m.a10 = n.a10 ∧ m.a11 = n.a11 ∧ m.a12 = n.a12 ∧ m.a20 = n.a20 ∧ m.a21 = n.a21 ∧
    m.a22 = n.a22 := by
  cases m; cases n; simp

/-- everything reduces to components -/
macro "m3_unfold" : tactic =>
  `(tactic| simp only [M3.mul, M3.mulVec, M3.transpose, M3.one, M3.rotX, M3.rotY, M3.rotZ,
      V3.smul, rotZYXcs, rotXYZcs, c2tan, tan2c, zeroK_eq, oneK_eq, V3.eq_iff, M3.eq_iff,
      V2.eq_iff] at *)

theorem M3.mul_assoc (a b c : M3 K) : (a.mul b).mul c = a.mul (b.mul c) := by
  m3_unfold; refine ⟨?_, ?_, ?_, ?_, ?_, ?_, ?_, ?_, ?_⟩ <;> ring

theorem M3.one_mul (a : M3 K) : M3.one.mul a = a := by
  m3_unfold; refine ⟨?_, ?_, ?_, ?_, ?_, ?_, ?_, ?_, ?_⟩ <;> ring

theorem M3.mul_one (a : M3 K) : a.mul M3.one = a := by
  m3_unfold; refine ⟨?_, ?_, ?_, ?_, ?_, ?_, ?_, ?_, ?_⟩ <;> ring

theorem M3.transpose_mul (a b : M3 K) : (a.mul b).transpose = b.transpose.mul a.transpose := by
  m3_unfold; refine ⟨?_, ?_, ?_, ?_, ?_, ?_, ?_, ?_, ?_⟩ <;> ring

theorem M3.transpose_transpose (a : M3 K) : a.transpose.transpose = a := rfl

theorem M3.mulVec_mul (a b : M3 K) (v : V3 K) : (a.mul b).mulVec v = a.mulVec (b.mulVec v) := by
  m3_unfold; refine ⟨?_, ?_, ?_⟩ <;> ring

theorem M3.one_mulVec (v : V3 K) : (M3.one : M3 K).mulVec v = v := by
  m3_unfold; refine ⟨?_, ?_, ?_⟩ <;> ring

theorem M3.mulVec_smul (a : M3 K) (k : K) (v : V3 K) :
    a.mulVec (V3.smul k v) = V3.smul k (a.mulVec v) := by
  m3_unfold; refine ⟨?_, ?_, ?_⟩ <;> ring

/-- orthogonal matrix: both products with the transpose are the identity -/
def M3.Orth (r : M3 K) : Prop := r.mul r.transpose = M3.one ∧ r.transpose.mul r = M3.one

theorem M3.Orth.transpose {r : M3 K} (h : r.Orth) : r.transpose.Orth := ⟨h.2, h.1⟩

theorem M3.Orth.mul {a b : M3 K} (ha : a.Orth) (hb : b.Orth) : (a.mul b).Orth := by
  constructor
  · rw [M3.transpose_mul, M3.mul_assoc, ← M3.mul_assoc b, hb.1, M3.one_mul, ha.1]
  · rw [M3.transpose_mul, M3.mul_assoc, ← M3.mul_assoc a.transpose, ha.2, M3.one_mul, hb.2]

theorem M3.Orth.mulVec_transpose {r : M3 K} (h : r.Orth) (v : V3 K) :
    r.mulVec (r.transpose.mulVec v) = v := by
  rw [← M3.mulVec_mul, h.1, M3.one_mulVec]

theorem M3.Orth.transpose_mulVec {r : M3 K} (h : r.Orth) (v : V3 K) :
    r.transpose.mulVec (r.mulVec v) = v := by
  rw [← M3.mulVec_mul, h.2, M3.one_mulVec]

theorem M3.rotZ_orth (c s : K) (h : c * c + s * s = 1) : (M3.rotZ c s).Orth := by
  constructor <;> (m3_unfold; refine ⟨?_, ?_, ?_, ?_, ?_, ?_, ?_, ?_, ?_⟩) <;>
    first | linear_combination h | ring

theorem M3.rotY_orth (c s : K) (h : c * c + s * s = 1) : (M3.rotY c s).Orth := by
  constructor <;> (m3_unfold; refine ⟨?_, ?_, ?_, ?_, ?_, ?_, ?_, ?_, ?_⟩) <;>
    first | linear_combination h | ring

theorem M3.rotX_orth (c s : K) (h : c * c + s * s = 1) : (M3.rotX c s).Orth := by
  constructor <;> (m3_unfold; refine ⟨?_, ?_, ?_, ?_, ?_, ?_, ?_, ?_, ?_⟩) <;>
    first | linear_combination h | ring

theorem rotZYXcs_orth (c0 s0 c1 s1 c2 s2 : K) (h0 : c0 * c0 + s0 * s0 = 1)
    (h1 : c1 * c1 + s1 * s1 = 1) (h2 : c2 * c2 + s2 * s2 = 1) :
    (rotZYXcs c0 s0 c1 s1 c2 s2).Orth :=
  ((M3.rotX_orth c2 s2 h2).mul (M3.rotY_orth c1 s1 h1)).mul (M3.rotZ_orth c0 s0 h0)

theorem rotXYZcs_orth (c0 s0 c1 s1 c2 s2 : K) (h0 : c0 * c0 + s0 * s0 = 1)
    (h1 : c1 * c1 + s1 * s1 = 1) (h2 : c2 * c2 + s2 * s2 = 1) :
    (rotXYZcs c0 s0 c1 s1 c2 s2).Orth :=
  ((M3.rotZ_orth c2 s2 h2).mul (M3.rotY_orth c1 s1 h1)).mul (M3.rotX_orth c0 s0 h0)

/-- the `'xyz'` sequence with the reversed, negated angles is the transpose of the `'zyx'`
sequence (no hypothesis on `c`, `s`) -/
theorem rotXYZcs_neg_eq_transpose (c0 s0 c1 s1 c2 s2 : K) :
    rotXYZcs c2 (-s2) c1 (-s1) c0 (-s0) = (rotZYXcs c0 s0 c1 s1 c2 s2).transpose := by
  m3_unfold; refine ⟨?_, ?_, ?_, ?_, ?_, ?_, ?_, ?_, ?_⟩ <;> ring

/-! ### the Cartesian core -/

theorem c2tan_tan2c (p : V2 K) : c2tan (tan2c p) = p := by
  m3_unfold; constructor <;> simp

theorem tan2c_c2tan (w : V3 K) (hw : w.x ≠ 0) : tan2c (c2tan w) = V3.smul (1 / w.x) w := by
  m3_unfold; refine ⟨?_, ?_, ?_⟩ <;> field_simp

theorem c2tan_smul (k : K) (hk : k ≠ 0) (w : V3 K) : c2tan (V3.smul k w) = c2tan w := by
  m3_unfold
  constructor
  · by_cases hx : w.x = 0
    · simp [hx]
    · field_simp
  · by_cases hx : w.x = 0
    · simp [hx]
    · field_simp

/-- `U ∘ U⁻¹ = id` at Cartesian level: only `R·Rᵀ = I` is needed -/
theorem cart_plane_roundtrip (r : M3 K) (h : r.mul r.transpose = M3.one) (p : V2 K) :
    c2tan (r.mulVec (r.transpose.mulVec (tan2c p))) = p := by
  rw [← M3.mulVec_mul, h, M3.one_mulVec, c2tan_tan2c]

/-- `U⁻¹ ∘ U` at Cartesian level returns a vector on the same ray: only `Rᵀ·R = I` is needed -/
theorem cart_ray_roundtrip (r : M3 K) (h : r.transpose.mul r = M3.one) (v : V3 K)
    (hx : (r.mulVec v).x ≠ 0) :
    r.transpose.mulVec (tan2c (c2tan (r.mulVec v))) = V3.smul (1 / (r.mulVec v).x) v := by
  rw [tan2c_c2tan _ hx, M3.mulVec_smul, ← M3.mulVec_mul, h, M3.one_mulVec]

theorem arcsec2deg_deg2arcsec (p : V2 K) : arcsec2deg (deg2arcsec p) = p := by
  simp only [arcsec2deg, deg2arcsec]; aff_unfold; push_cast; constructor <;> field_simp

theorem deg2arcsec_arcsec2deg (p : V2 K) : deg2arcsec (arcsec2deg p) = p := by
  simp only [arcsec2deg, deg2arcsec]; aff_unfold; push_cast; constructor <;> field_simp

theorem eqZeroK_iff (x : K) : eqZeroK x = true ↔ x = 0 := by
  unfold eqZeroK
  simp only [zeroK_eq, Bool.and_eq_true, Bool.not_eq_true', decide_eq_false_iff_not, not_lt]
  constructor
  · rintro ⟨h1, h2⟩; exact le_antisymm h2 h1
  · intro h; rw [h]; exact ⟨le_refl _, le_refl _⟩

end field

/-! ### `K = ℝ`: trigonometric part -/
section real
open Real

theorem cosdeg_def (t : ℝ) : HasTrig.cosdeg t = Real.cos (t * π / 180) := rfl
theorem sindeg_def (t : ℝ) : HasTrig.sindeg t = Real.sin (t * π / 180) := rfl
theorem atan2deg_def (y x : ℝ) : HasTrig.atan2deg y x = Complex.arg ⟨x, y⟩ * 180 / π := rfl
theorem hyp_def (a b : ℝ) : hyp a b = Real.sqrt (a * a + b * b) := rfl

theorem cosdeg_neg (t : ℝ) : HasTrig.cosdeg (-t) = HasTrig.cosdeg t := by
  simp only [cosdeg_def]
  rw [show -t * π / 180 = -(t * π / 180) by ring, Real.cos_neg]

theorem sindeg_neg (t : ℝ) : HasTrig.sindeg (-t) = -HasTrig.sindeg t := by
  simp only [sindeg_def]
  rw [show -t * π / 180 = -(t * π / 180) by ring, Real.sin_neg]

theorem cosdeg_sq_add_sindeg_sq (t : ℝ) :
    HasTrig.cosdeg t * HasTrig.cosdeg t + HasTrig.sindeg t * HasTrig.sindeg t = 1 := by
  simp only [cosdeg_def, sindeg_def]
  linear_combination Real.cos_sq_add_sin_sq (t * π / 180)

/-- (b) at `ℝ`: `RotationSequence3D(angles, 'zyx')` is orthogonal for all angles -/
theorem rotZYX_orth (a0 a1 a2 : ℝ) : (rotZYX a0 a1 a2).Orth :=
  rotZYXcs_orth _ _ _ _ _ _ (cosdeg_sq_add_sindeg_sq a0) (cosdeg_sq_add_sindeg_sq a1)
    (cosdeg_sq_add_sindeg_sq a2)

/-- (b) at `ℝ`: the matrix of `.inverse` is the transpose -/
theorem rotZYXinv_eq_transpose (a0 a1 a2 : ℝ) :
    rotZYXinv a0 a1 a2 = (rotZYX a0 a1 a2).transpose := by
  unfold rotZYXinv rotZYX
  simp only [cosdeg_neg, sindeg_neg]
  exact rotXYZcs_neg_eq_transpose _ _ _ _ _ _

theorem tpRot_orth (v2 v3 roll : ℝ) : (tpRot v2 v3 roll).Orth := rotZYX_orth _ _ _

theorem tpRotInv_eq (v2 v3 roll : ℝ) : tpRotInv v2 v3 roll = (tpRot v2 v3 roll).transpose :=
  rotZYXinv_eq_transpose _ _ _

theorem arg_polar (r θ : ℝ) (hr : 0 < r) (h1 : -π < θ) (h2 : θ ≤ π) :
    Complex.arg ⟨r * Real.cos θ, r * Real.sin θ⟩ = θ := by
  have : (⟨r * Real.cos θ, r * Real.sin θ⟩ : ℂ) =
      (r : ℂ) * (Complex.cos θ + Complex.sin θ * Complex.I) := by
    apply Complex.ext <;> simp [← Complex.ofReal_cos, ← Complex.ofReal_sin]
  rw [this]
  exact Complex.arg_mul_cos_add_sin_mul_I hr ⟨h1, h2⟩

theorem arg_smul (k x y : ℝ) (hk : 0 < k) :
    Complex.arg ⟨k * x, k * y⟩ = Complex.arg ⟨x, y⟩ := by
  have : (⟨k * x, k * y⟩ : ℂ) = (k : ℂ) * ⟨x, y⟩ := by apply Complex.ext <;> simp
  rw [this, Complex.arg_real_mul _ hk]

theorem hyp_smul (k x y : ℝ) (hk : 0 < k) : hyp (k * x) (k * y) = k * hyp x y := by
  simp only [hyp_def]
  rw [show k * x * (k * x) + k * y * (k * y) = k * k * (x * x + y * y) by ring,
    Real.sqrt_mul (mul_self_nonneg k), Real.sqrt_mul_self hk.le]

theorem eqZeroK_false {x : ℝ} (h : x ≠ 0) : eqZeroK x = false := by
  cases hb : eqZeroK x with
  | false => rfl
  | true => exact absurd ((eqZeroK_iff x).mp hb) h

theorem deg_lt {t c : ℝ} (h : t < c) : t * π / 180 < c * π / 180 := by
  have := Real.pi_pos
  apply div_lt_div_of_pos_right _ (by norm_num); nlinarith

theorem deg_le {t c : ℝ} (h : t ≤ c) : t * π / 180 ≤ c * π / 180 := by
  have := Real.pi_pos
  apply div_le_div_of_nonneg_right _ (by norm_num); nlinarith

/-- (c) `c2s ∘ s2c = id` for longitude in `(−180, 180]` and latitude in `(−90, 90)` -/
theorem c2s_s2c (lon lat : ℝ) (h1 : -180 < lon) (h2 : lon ≤ 180) (h3 : -90 < lat) (h4 : lat < 90) :
    c2s (s2c lon lat) = ⟨lon, lat⟩ := by
  have hp := Real.pi_pos
  have ha1 : -π < lon * π / 180 := by
    calc -π = -180 * π / 180 := by ring
      _ < lon * π / 180 := deg_lt h1
  have ha2 : lon * π / 180 ≤ π := by
    calc lon * π / 180 ≤ 180 * π / 180 := deg_le h2
      _ = π := by ring
  have hb1 : -(π / 2) < lat * π / 180 := by
    calc -(π / 2) = -90 * π / 180 := by ring
      _ < lat * π / 180 := deg_lt h3
  have hb2 : lat * π / 180 < π / 2 := by
    calc lat * π / 180 < 90 * π / 180 := deg_lt h4
      _ = π / 2 := by ring
  have hcb : 0 < Real.cos (lat * π / 180) := Real.cos_pos_of_mem_Ioo ⟨hb1, hb2⟩
  have hh : hyp (Real.cos (lat * π / 180) * Real.cos (lon * π / 180))
      (Real.cos (lat * π / 180) * Real.sin (lon * π / 180)) = Real.cos (lat * π / 180) := by
    rw [hyp_def]
    have : Real.cos (lat * π / 180) * Real.cos (lon * π / 180) *
        (Real.cos (lat * π / 180) * Real.cos (lon * π / 180)) +
        Real.cos (lat * π / 180) * Real.sin (lon * π / 180) *
        (Real.cos (lat * π / 180) * Real.sin (lon * π / 180)) =
        Real.cos (lat * π / 180) * Real.cos (lat * π / 180) := by
      linear_combination (Real.cos (lat * π / 180) * Real.cos (lat * π / 180)) *
        Real.cos_sq_add_sin_sq (lon * π / 180)
    rw [this, Real.sqrt_mul_self hcb.le]
  have hlon : Complex.arg ⟨Real.cos (lat * π / 180) * Real.cos (lon * π / 180),
      Real.cos (lat * π / 180) * Real.sin (lon * π / 180)⟩ = lon * π / 180 :=
    arg_polar _ _ hcb ha1 ha2
  have hlat : Complex.arg ⟨Real.cos (lat * π / 180), Real.sin (lat * π / 180)⟩ = lat * π / 180 := by
    have := arg_polar 1 (lat * π / 180) one_pos (by linarith) (by linarith)
    simpa using this
  simp only [c2s, s2c, cosdeg_def, sindeg_def, atan2deg_def, hh, eqZeroK_false hcb.ne', hlon, hlat,
    Bool.false_eq_true, if_false, V2.eq_iff]
  constructor <;> field_simp

/-- (c) `c2s` depends on the ray only -/
theorem c2s_smul (k : ℝ) (hk : 0 < k) (v : V3 ℝ) : c2s (V3.smul k v) = c2s v := by
  have hz : eqZeroK (k * hyp v.x v.y) = eqZeroK (hyp v.x v.y) := by
    rw [Bool.eq_iff_iff, eqZeroK_iff, eqZeroK_iff, mul_eq_zero]
    constructor
    · rintro (h | h)
      · exact absurd h hk.ne'
      · exact h
    · intro h; exact Or.inr h
  simp only [c2s, V3.smul, hyp_smul _ _ _ hk, atan2deg_def, arg_smul _ _ _ hk, hz]

/-- Euclidean norm of a 3-vector -/
noncomputable def V3.norm (v : V3 ℝ) : ℝ := Real.sqrt (v.x * v.x + v.y * v.y + v.z * v.z)

theorem V3.norm_pos {v : V3 ℝ} (hv : v ≠ ⟨0, 0, 0⟩) : 0 < v.norm := by
  unfold V3.norm
  apply Real.sqrt_pos.mpr
  have : v.x ≠ 0 ∨ v.y ≠ 0 ∨ v.z ≠ 0 := by
    by_contra hc
    push Not at hc
    apply hv
    rw [V3.eq_iff]; exact hc
  rcases this with h | h | h
  · have := mul_self_pos.mpr h; nlinarith [mul_self_nonneg v.y, mul_self_nonneg v.z]
  · have := mul_self_pos.mpr h; nlinarith [mul_self_nonneg v.x, mul_self_nonneg v.z]
  · have := mul_self_pos.mpr h; nlinarith [mul_self_nonneg v.x, mul_self_nonneg v.y]

theorem cos_sin_arg (x y : ℝ) (h : x ≠ 0 ∨ y ≠ 0) :
    Real.cos (Complex.arg ⟨x, y⟩) = x / Real.sqrt (x * x + y * y) ∧
    Real.sin (Complex.arg ⟨x, y⟩) = y / Real.sqrt (x * x + y * y) := by
  rw [Complex.cos_arg (mk_ne_zero h), Complex.sin_arg, norm_mk]
  exact ⟨rfl, rfl⟩

/-- (c) `s2c ∘ c2s` normalises: `v ↦ v / ‖v‖` for every `v ≠ 0` (poles included) -/
theorem s2c_c2s (v : V3 ℝ) (hv : v ≠ ⟨0, 0, 0⟩) :
    s2c (c2s v).x (c2s v).y = V3.smul (1 / v.norm) v := by
  have hn := V3.norm_pos hv
  obtain ⟨x, y, z⟩ := v
  have hh0 : 0 ≤ x * x + y * y := by nlinarith [mul_self_nonneg x, mul_self_nonneg y]
  have hhh : hyp x y * hyp x y = x * x + y * y := by
    rw [hyp_def]; exact Real.mul_self_sqrt hh0
  have hnn : Real.sqrt (hyp x y * hyp x y + z * z) = V3.norm ⟨x, y, z⟩ := by
    rw [hhh]; rfl
  have hne : V3.norm ⟨x, y, z⟩ ≠ 0 := hn.ne'
  by_cases hh : hyp x y = 0
  · -- on the axis: `lon` is multiplied by zero
    have hx : x = 0 := by nlinarith [mul_self_nonneg x, mul_self_nonneg y, hh ▸ hhh]
    have hy : y = 0 := by nlinarith [mul_self_nonneg x, mul_self_nonneg y, hh ▸ hhh]
    have hz : z ≠ 0 := by
      intro hz; apply hv; rw [hx, hy, hz]
    have hlat := cos_sin_arg (hyp x y) z (Or.inr hz)
    rw [hnn] at hlat
    simp only [c2s, s2c, cosdeg_def, sindeg_def, atan2deg_def, (eqZeroK_iff _).mpr hh, if_true,
      zeroK_eq, deg_arg, hlat.1, hlat.2, V3.smul, V3.eq_iff]
    rw [hh, hx, hy]
    refine ⟨?_, ?_, ?_⟩ <;> simp [div_eq_inv_mul]
  · have hxy : x ≠ 0 ∨ y ≠ 0 := by
      by_contra hc
      push Not at hc
      apply hh
      rw [hyp_def, hc.1, hc.2]; simp
    have hlat := cos_sin_arg (hyp x y) z (Or.inl hh)
    rw [hnn] at hlat
    have hlon := cos_sin_arg x y hxy
    rw [← hyp_def] at hlon
    simp only [c2s, s2c, cosdeg_def, sindeg_def, atan2deg_def, eqZeroK_false hh,
      Bool.false_eq_true, if_false, deg_arg, hlat.1, hlat.2, hlon.1, hlon.2, V3.smul, V3.eq_iff]
    refine ⟨?_, ?_, ?_⟩ <;> field_simp

theorem V3.smul_ne_zero {k : ℝ} (hk : k ≠ 0) {v : V3 ℝ} (hv : v ≠ ⟨0, 0, 0⟩) :
    V3.smul k v ≠ ⟨0, 0, 0⟩ := by
  intro h
  apply hv
  simp only [V3.smul, V3.eq_iff, mul_eq_zero] at h
  rw [V3.eq_iff]
  exact ⟨h.1.resolve_left hk, h.2.1.resolve_left hk, h.2.2.resolve_left hk⟩

/-- (d) `U ∘ U⁻¹ = id` on the WHOLE tangent plane, for every reference triple -/
theorem tpU_tpUinv (v2 v3 roll : ℝ) (x : V2 ℝ) : tpU v2 v3 roll (tpUinv v2 v3 roll x) = x := by
  have ho := tpRot_orth v2 v3 roll
  -- the vector handed to `c2s` is non-zero: its rotation is `(1, u, v)`
  have hw : (tpRot v2 v3 roll).transpose.mulVec (tan2c x) ≠ ⟨0, 0, 0⟩ := by
    intro h
    have h2 := ho.mulVec_transpose (tan2c x)
    rw [h] at h2
    have h3 := congrArg V3.x h2
    simp [M3.mulVec, tan2c] at h3
  have hn := V3.norm_pos hw
  simp only [tpU, tpUinv, v23ToCart, tpRotInv_eq, arcsec2deg_deg2arcsec]
  rw [s2c_c2s _ hw, M3.mulVec_smul, ho.mulVec_transpose,
    c2tan_smul _ (one_div_ne_zero hn.ne'), c2tan_tan2c]

/-- the image of `Uinv` lies in the open hemisphere facing the reference direction -/
theorem tpUinv_hemisphere (v2 v3 roll : ℝ) (x : V2 ℝ) :
    0 < ((tpRot v2 v3 roll).mulVec (v23ToCart (tpUinv v2 v3 roll x))).x := by
  have ho := tpRot_orth v2 v3 roll
  have hw : (tpRot v2 v3 roll).transpose.mulVec (tan2c x) ≠ ⟨0, 0, 0⟩ := by
    intro h
    have h2 := ho.mulVec_transpose (tan2c x)
    rw [h] at h2
    have h3 := congrArg V3.x h2
    simp [M3.mulVec, tan2c] at h3
  have hn := V3.norm_pos hw
  simp only [tpUinv, v23ToCart, tpRotInv_eq, arcsec2deg_deg2arcsec]
  rw [s2c_c2s _ hw, M3.mulVec_smul, ho.mulVec_transpose]
  have h1 : (V3.smul (1 / ((tpRot v2 v3 roll).transpose.mulVec (tan2c x)).norm) (tan2c x)).x =
      1 / ((tpRot v2 v3 roll).transpose.mulVec (tan2c x)).norm := by
    simp [V3.smul, tan2c]
  rw [h1]
  exact one_div_pos.mpr hn

theorem tpInDomain_iff (v2 v3 roll : ℝ) (v : V2 ℝ) : tpInDomain v2 v3 roll v = true ↔
    (-180 < (arcsec2deg v).x ∧ (arcsec2deg v).x ≤ 180 ∧ -90 < (arcsec2deg v).y ∧
      (arcsec2deg v).y < 90 ∧ 0 < ((tpRot v2 v3 roll).mulVec (v23ToCart v)).x) := by
  unfold tpInDomain
  simp only [zeroK_eq, Bool.and_eq_true, decide_eq_true_eq, Bool.not_eq_true',
    decide_eq_false_iff_not, not_lt, Nat.cast_ofNat, and_assoc]

/-- a concrete point of the domain: reference direction `v2_ref = 90°`, the point 30° away from
it (`v2 = 60° = 216000″`) -/
theorem tpInDomain_example : tpInDomain (90 : ℝ) 0 0 ⟨216000, 0⟩ = true := by
  rw [tpInDomain_iff]
  simp [tpRot, rotZYX, rotZYXcs, M3.mul, M3.mulVec, M3.rotX, M3.rotY, M3.rotZ, v23ToCart,
    arcsec2deg, s2c, cosdeg_def, sindeg_def, V2.smul]
  refine ⟨by norm_num, by norm_num, ?_⟩
  rw [← Real.cos_sub]
  apply Real.cos_pos_of_mem_Ioo
  constructor <;> nlinarith [Real.pi_pos]

/-- (d) `U⁻¹ ∘ U = id` on the domain `tpInDomain` -/
theorem tpUinv_tpU (v2 v3 roll : ℝ) (v : V2 ℝ) (hd : tpInDomain v2 v3 roll v = true) :
    tpUinv v2 v3 roll (tpU v2 v3 roll v) = v := by
  obtain ⟨h1, h2, h3, h4, h5⟩ := (tpInDomain_iff v2 v3 roll v).mp hd
  have ho := tpRot_orth v2 v3 roll
  simp only [tpU, tpUinv, tpRotInv_eq]
  rw [cart_ray_roundtrip _ ho.2 _ h5.ne', c2s_smul _ (one_div_pos.mpr h5)]
  simp only [v23ToCart]
  rw [c2s_s2c _ _ h1 h2 h3 h4, deg2arcsec_arcsec2deg]

/-! boundary behaviour -/

theorem s2c_periodic (lon lat : ℝ) : s2c (lon + 360) lat = s2c lon lat := by
  simp only [s2c, cosdeg_def, sindeg_def]
  rw [show (lon + 360) * π / 180 = lon * π / 180 + 2 * π by ring, Real.cos_add_two_pi,
    Real.sin_add_two_pi]

theorem c2s_s2c_north (lon : ℝ) : c2s (s2c lon 90) = ⟨0, 90⟩ := by
  have h1 : Real.cos (90 * π / 180) = 0 := by
    rw [show (90:ℝ) * π / 180 = π / 2 by ring, Real.cos_pi_div_two]
  have h2 : Real.sin (90 * π / 180) = 1 := by
    rw [show (90:ℝ) * π / 180 = π / 2 by ring, Real.sin_pi_div_two]
  have h3 : hyp (0:ℝ) 0 = 0 := by simp [hyp_def]
  have h4 : Complex.arg ⟨0, 1⟩ = π / 2 := Complex.arg_I
  have hp := Real.pi_ne_zero
  simp only [c2s, s2c, cosdeg_def, sindeg_def, atan2deg_def, h1, h2, zero_mul, h3,
    (eqZeroK_iff (0:ℝ)).mpr rfl, if_true, zeroK_eq, mul_zero, h4, V2.eq_iff]
  constructor
  · trivial
  · field_simp; norm_num

theorem c2s_s2c_south (lon : ℝ) : c2s (s2c lon (-90)) = ⟨0, -90⟩ := by
  have h1 : Real.cos (-90 * π / 180) = 0 := by
    rw [show (-90:ℝ) * π / 180 = -(π / 2) by ring, Real.cos_neg, Real.cos_pi_div_two]
  have h2 : Real.sin (-90 * π / 180) = -1 := by
    rw [show (-90:ℝ) * π / 180 = -(π / 2) by ring, Real.sin_neg, Real.sin_pi_div_two]
  have h3 : hyp (0:ℝ) 0 = 0 := by simp [hyp_def]
  have h4 : Complex.arg ⟨0, -1⟩ = -(π / 2) := by
    have : (⟨0, -1⟩ : ℂ) = -Complex.I := by apply Complex.ext <;> simp
    rw [this, Complex.arg_neg_I]
  have hp := Real.pi_ne_zero
  simp only [c2s, s2c, cosdeg_def, sindeg_def, atan2deg_def, h1, h2, zero_mul, h3,
    (eqZeroK_iff (0:ℝ)).mpr rfl, if_true, zeroK_eq, mul_zero, h4, V2.eq_iff]
  constructor
  · trivial
  · field_simp; norm_num

end real

/-! ### corrector model over an environment whose `U` is a partial bijection -/
section pbij
variable {K : Type} [Field K] [LinearOrder K] [IsStrictOrderedRing K]

/-- as `GEnv.Bij`, but `Uinv ∘ U = id` is only required on `dom` -/
structure GEnv.PBij (env : GEnv K) (dom : V2 K → Prop) : Prop where
  Dinv_D : ∀ p, env.Dinv (env.D p) = p
  D_Dinv : ∀ v, env.D (env.Dinv v) = v
  Uinv_U : ∀ v, dom v → env.Uinv (env.U v) = v
  U_Uinv : ∀ x, env.U (env.Uinv x) = x
  Rinv_R : ∀ v, env.Rinv (env.R v) = v
  R_Rinv : ∀ w, env.R (env.Rinv w) = w
  c_ne : env.c ≠ 0

theorem GEnv.Bij.toPBij {env : GEnv K} (h : env.Bij) : env.PBij (fun _ => True) :=
  ⟨h.Dinv_D, h.D_Dinv, fun v _ => h.Uinv_U v, h.U_Uinv, h.Rinv_R, h.R_Rinv, h.c_ne⟩

theorem Aff.id_inv : (Aff.id : Aff K).inv = Aff.id := by
  aff_unfold; simp [M2.det]

variable (env : GEnv K) {dom : V2 K → Prop}

/-- `world_to_v23` in closed form; in the uncorrected state only on the domain -/
theorem GCorr.worldToV23_corrected (g : GCorr K) (hc : g.corrected = true) (w : V2 K) :
    g.worldToV23 env w = env.Uinv (g.aff.inv.app (env.U (env.Rinv w))) := by
  simp [GCorr.worldToV23, GCorr.tpcorrInv, hc]

theorem GCorr.worldToV23_fresh (g : GCorr K) (hc : g.corrected = false) (w : V2 K) :
    g.worldToV23 env w = env.Rinv w := by
  simp [GCorr.worldToV23, hc]

theorem GCorr.v23ToWorld_corrected (g : GCorr K) (hc : g.corrected = true) (v : V2 K) :
    g.v23ToWorld env v = env.R (env.Uinv (g.aff.app (env.U v))) := by
  simp [GCorr.v23ToWorld, GCorr.tpcorrFwd, hc]

theorem GCorr.v23ToWorld_fresh (g : GCorr K) (hc : g.corrected = false) (v : V2 K) :
    g.v23ToWorld env v = env.R v := by
  simp [GCorr.v23ToWorld, hc]

end pbij

end TW
