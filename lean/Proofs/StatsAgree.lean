import Model.Clip
import Model.BuildFit
import Mathlib.Tactic.Common

/-!
Cross-check of the two models of `tweakwcs.linearfit._compute_stat`:

* `TW.computeStat` (`Model/Clip.lean`), used by the clipping model (C07, C09): returns a `Stats`,
  with the placeholder `nanK = 0/0` in the three slots in the degenerate weighted case;
* `TW.computeStatB` (`Model/BuildFit.lean`), used by C10: returns `Option StatsB`, `none` standing
  for the three NaNs.

They were written independently (different decomposition into helper functions: `mse`/`norm2`/`hyp`
versus `meanL`/`stdL`/`norm2B`).  Here they are shown to be the *same function*, over every scalar
type with the arithmetic operations and a square root (no algebraic law is used: the two terms
differ only by `List.length_map`/`List.map_map` rearrangements), hence in particular over `ℝ` with
`Real.sqrt` and over `Float`.
-/
open TW
set_option linter.unusedSectionVars false

namespace TW.StatsAgree

section
variable {K : Type} [Add K] [Sub K] [Mul K] [Div K] [Neg K] [LT K] [DecidableLT K] [NatCast K]
variable [HasSqrt K]

/-- a `StatsB` read as a `Stats` -/
def toStats (s : StatsB K) : Stats K := ⟨s.rmse, s.mae, s.std⟩

theorem norm2_eq (r : K × K) : norm2 r = norm2B r := rfl

theorem twoK_eq_twoKB : (twoK : K) = twoKB := rfl

/-- `a.std()` of one column of the residuals, as `computeStat` writes it -/
theorem stdL_map (res : List (K × K)) (f : K × K → K) :
    stdL (res.map f) =
      HasSqrt.sqrt (sumL (res.map fun r => (f r - sumL (res.map f) / (res.length : K))
          * (f r - sumL (res.map f) / (res.length : K))) / (res.length : K)) := by
  simp only [stdL, meanL, List.map_map, List.length_map, Function.comp_def]

/-- unweighted branch -/
theorem unweighted_agree (res : List (K × K)) :
    computeStat res none = toStats (statUnweighted res) := by
  simp only [computeStat, statUnweighted, toStats, mse, hyp, stdL_map, meanL, List.length_map,
    twoK_eq_twoKB]
  rfl

/-- the degenerate weighted case: `npts == 0 or wt == 0` -/
def Degenerate (ws : List K) : Prop := ws.length = 0 ∨ isZeroK (sumL ws) = true

instance (ws : List K) : Decidable (Degenerate ws) := by unfold Degenerate; infer_instance

theorem weighted_degenerate (res : List (K × K)) (ws : List K) (h : Degenerate ws) :
    statWeighted res ws = none ∧ computeStat res (some ws) = ⟨nanK, nanK, nanK⟩ := by
  unfold Degenerate at h
  constructor
  · simp only [statWeighted, if_pos h]
  · simp only [computeStat, if_pos h]

theorem weighted_regular (res : List (K × K)) (ws : List K) (h : ¬ Degenerate ws) :
    ∃ s, statWeighted res ws = some s ∧ computeStat res (some ws) = toStats s := by
  unfold Degenerate at h
  refine ⟨_, by simp only [statWeighted, if_neg h]; rfl, ?_⟩
  simp only [computeStat, if_neg h, toStats, mse, List.map_map, Function.comp_def]
  rfl

/-- **the two models of `_compute_stat` agree**: whenever `computeStatB` is defined its three
statistics are those of `computeStat`; it is undefined exactly in the weighted branch with no
weights or weights summing to zero, and there `computeStat` holds the NaN placeholder in all three
slots -/
theorem stats_models_agree (res : List (K × K)) (weights : Option (List K)) :
    (∀ s, computeStatB res weights = some s →
      (computeStat res weights).rmse = s.rmse ∧ (computeStat res weights).mae = s.mae ∧
      (computeStat res weights).std = s.std) ∧
    (computeStatB res weights = none ↔ ∃ ws, weights = some ws ∧ Degenerate ws) ∧
    (computeStatB res weights = none → computeStat res weights = ⟨nanK, nanK, nanK⟩) := by
  cases weights with
  | none =>
    have hsome : computeStatB res none = some (statUnweighted res) := rfl
    refine ⟨fun s hs => ?_, ⟨fun h => ?_, fun h => ?_⟩, fun h => ?_⟩
    · rw [hsome] at hs
      injection hs with hs
      subst hs
      rw [unweighted_agree]
      exact ⟨rfl, rfl, rfl⟩
    · rw [hsome] at h; cases h
    · obtain ⟨ws, h, _⟩ := h; cases h
    · rw [hsome] at h; cases h
  | some ws =>
    have hB : computeStatB res (some ws) = statWeighted res ws := rfl
    rw [hB]
    by_cases hd : Degenerate ws
    · obtain ⟨h1, h2⟩ := weighted_degenerate res ws hd
      refine ⟨fun s hs => ?_, ⟨fun _ => ⟨ws, rfl, hd⟩, fun _ => h1⟩, fun _ => h2⟩
      rw [h1] at hs; cases hs
    · obtain ⟨s0, h1, h2⟩ := weighted_regular res ws hd
      refine ⟨fun s hs => ?_, ⟨fun h => ?_, fun h => ?_⟩, fun h => ?_⟩
      · rw [h1] at hs
        injection hs with hs
        subst hs
        rw [h2]
        exact ⟨rfl, rfl, rfl⟩
      · rw [h1] at h; cases h
      · obtain ⟨ws', h, hd'⟩ := h
        injection h with h
        subst h
        exact absurd hd' hd
      · rw [h1] at h; cases h

/-- in one equation: `computeStat` is `computeStatB` with `none` read as three NaN placeholders -/
theorem computeStat_eq (res : List (K × K)) (weights : Option (List K)) :
    computeStat res weights =
      match computeStatB res weights with
      | some s => toStats s
      | none => ⟨nanK, nanK, nanK⟩ := by
  cases weights with
  | none => simp only [computeStatB]; exact unweighted_agree res
  | some ws =>
    simp only [computeStatB]
    by_cases hd : Degenerate ws
    · obtain ⟨h1, h2⟩ := weighted_degenerate res ws hd
      rw [h1, h2]
    · obtain ⟨s0, h1, h2⟩ := weighted_regular res ws hd
      rw [h1, h2]

end
end TW.StatsAgree
