import Proofs.C16Merge
import Proofs.C16Nodup
import Proofs.C16Box
import Mathlib.Tactic.NormNum
import Mathlib.Algebra.Order.Field.Rat

/-!
# C16 — footprints contain their sources; convex hulls are convex, CCW and minimal

Property theorems only (helper lemmas: `Proofs/Hull*.lean`, `Proofs/C16Sort.lean`, `C16Fwd.lean`,
`C16Chain.lean`, `C16Junction.lean`, `C16Hull.lean`, `C16Nodup.lean`, `C16Merge.lean`, `C16Box.lean`).

The model (`Model/Hull.lean`) is `tweakwcs.wcsimage.convex_hull` line by line:
`sortDedupe` = `sorted(set(zip(x, y)))`, two `chain` passes with `cross <= 0` pops,
`hullRaw` = `lower[:-1] + upper` (with the 0- and 1-point returns), `mergeSep` = the
`min_separation` loop (the repaired backward greedy pass followed by the pass against the first vertex), `convexHull` = the whole function (`wcs=None`), and `smallBox1`,
`smallBox2`, `refFootprint` = the small-catalog branches of `RefCatalog._calc_cat_convex_hull`.
`K` is any linearly ordered field (real arithmetic; rounding is outside the model); the box
theorems that need the square root are over `ℝ`.

Vocabulary: `lexlt` Python's tuple order; `AllLeft q h` — `q` is on or to the left of every edge
(consecutive pair) of `h`; `TurnsLeft h` — every consecutive triple of `h` is a strict left turn;
`closeUp h = h ++ [h[1]]`, so that for a closed list (`h[0] = h[-1]`) the triples of `closeUp h`
are **all** cyclically consecutive triples, the one centred at the closing vertex and the two
junctions of the lower and upper chains included; `Collinear pts` — every triple of input points
has zero cross product; `FarApart s a b` — `¬ (|a.1 - b.1| ≤ s ∧ |a.2 - b.2| ≤ s)`; `Separated s h` —
every two consecutive vertices of `h` are `FarApart s`.  Spherical polygons (`spherical_geometry`) are not modelled.
-/
open TW
set_option linter.unusedSectionVars false

namespace TW.C16
variable {K : Type} [Field K] [LinearOrder K] [IsStrictOrderedRing K]

/-! ### the function as a whole -/

/-- what `convex_hull` returns in terms of its stages: without `min_separation` the raw hull,
with a non-negative one the raw hull after the separation loop, with a negative one the error -/
theorem convexHull_stages (sep : Option K) (pts h : List (Pt K)) :
    convexHull sep pts = .ok h ↔
      (sep = none ∧ h = hullRaw pts) ∨ (∃ s, sep = some s ∧ 0 ≤ s ∧ h = mergeSep s (hullRaw pts)) := by
  unfold convexHull
  cases sep with
  | none =>
    simp only [true_and, reduceCtorEq, false_and, exists_false, or_false]
    constructor
    · intro e; injection e with e; exact e.symm
    · intro e; rw [e]
  | some s =>
    simp only [reduceCtorEq, false_and, false_or, Option.some.injEq, exists_eq_left', zeroNat_cast]
    by_cases hs : s < 0
    · rw [if_pos hs]
      constructor
      · intro e; cases e
      · rintro ⟨h0, _⟩; exact absurd hs (not_lt.mpr h0)
    · rw [if_neg hs]
      have key : ∀ r : Except HullErr (List (Pt K)),
          (match hullRaw pts with
          | [] => (Except.ok [] : Except HullErr (List (Pt K)))
          | [p] => .ok [p]
          | h => .ok (mergeSep s h)) = r → r = .ok (mergeSep s (hullRaw pts)) := by
        intro r hr
        split at hr
        · next e => rw [e, ← hr]; rfl
        · next p e => rw [e, ← hr, mergeSep_cons, greedyKeep_nil, dropClose_nil]
        · exact hr.symm
      constructor
      · intro e
        have := key _ e
        injection this with this
        exact ⟨not_lt.mp hs, this⟩
      · rintro ⟨_, e⟩
        rw [e]
        exact key _ rfl

/-- a negative `min_separation` is rejected before anything else -/
theorem hull_neg_separation (s : K) (hs : s < 0) (pts : List (Pt K)) :
    convexHull (some s) pts = .error .negSeparation := by
  unfold convexHull
  simp only [zeroNat_cast]
  rw [if_pos hs]

/-! ### sort / dedupe: the chain theorems (stated for sorted input) apply to arbitrary input -/

/-- `sorted(set(zip(x, y)))` is strictly lexicographically increasing and has exactly the
input's points -/
theorem sort_dedupe_spec (pts : List (Pt K)) :
    (sortDedupe pts).Pairwise lexlt ∧ ∀ x, x ∈ sortDedupe pts ↔ x ∈ pts :=
  ⟨sortDedupe_sorted pts, mem_sortDedupe pts⟩

/-- the three shapes of the raw hull: no point; one distinct point; `lower[:-1] + upper` of the
sorted distinct points -/
theorem hullRaw_cases (pts : List (Pt K)) :
    (pts = [] ∧ hullRaw pts = []) ∨
    (∃ p, (∀ x ∈ pts, x = p) ∧ p ∈ pts ∧ hullRaw pts = [p]) ∨
    (∃ p q rest, sortDedupe pts = p :: q :: rest ∧ hullRaw pts = hullCore (p :: q :: rest)) := by
  unfold hullRaw
  cases h : sortDedupe pts with
  | nil =>
    left
    refine ⟨?_, rfl⟩
    cases pts with
    | nil => rfl
    | cons a t => exact absurd ((mem_sortDedupe (a :: t) a).mpr (by simp)) (by rw [h]; simp)
  | cons p t =>
    cases t with
    | nil =>
      right; left
      refine ⟨p, ?_, ?_, rfl⟩
      · intro x hx
        have := (mem_sortDedupe pts x).mpr hx
        rw [h] at this
        simpa using this
      · exact (mem_sortDedupe pts p).mp (by rw [h]; simp)
    | cons q rest => right; right; exact ⟨p, q, rest, rfl, rfl⟩

/-! ### vertices are input points; the list starts and closes at the lexicographic minimum -/

/-- every returned vertex is an input point (with or without `min_separation`) -/
theorem hull_subset (sep : Option K) (pts h : List (Pt K)) (hh : convexHull sep pts = .ok h) :
    ∀ v ∈ h, v ∈ pts := by
  have raw : ∀ v ∈ hullRaw pts, v ∈ pts := by
    intro v hv
    rcases hullRaw_cases pts with ⟨_, e⟩ | ⟨p, _, hp, e⟩ | ⟨p, q, rest, hS, e⟩
    · rw [e] at hv; cases hv
    · rw [e] at hv; rw [List.mem_singleton.mp hv]; exact hp
    · obtain ⟨hs, hm⟩ := core_of pts p q rest hS
      rw [e] at hv
      exact (hm v).mp ((core_facts p q rest hs).1 v hv)
  rcases (convexHull_stages sep pts h).mp hh with ⟨_, e⟩ | ⟨s, _, _, e⟩
  · rw [e]; exact raw
  · intro v hv
    rw [e] at hv
    exact raw v ((mergeSep_sublist s _).subset hv)

/-- for a non-empty input the returned list starts **and ends** at the lexicographically
smallest input point (with or without `min_separation`: the loop never drops either end) -/
theorem hull_start_closed (sep : Option K) (pts h : List (Pt K)) (hh : convexHull sep pts = .ok h)
    (hne : pts ≠ []) :
    ∃ m ∈ pts, (∀ q ∈ pts, q = m ∨ lexlt m q) ∧ h.head? = some m ∧ h.getLast? = some m := by
  have raw : ∃ m ∈ pts, (∀ q ∈ pts, q = m ∨ lexlt m q) ∧ (hullRaw pts).head? = some m ∧
      (hullRaw pts).getLast? = some m := by
    rcases hullRaw_cases pts with ⟨e, _⟩ | ⟨p, hall, hp, e⟩ | ⟨p, q, rest, hS, e⟩
    · exact absurd e hne
    · exact ⟨p, hp, fun x hx => Or.inl (hall x hx), by rw [e]; rfl, by rw [e]; rfl⟩
    · obtain ⟨hs, hm⟩ := core_of pts p q rest hS
      obtain ⟨_, h1, h2, _⟩ := core_facts p q rest hs
      refine ⟨p, (hm p).mp (by simp), ?_, by rw [e]; exact h1, by rw [e]; exact h2⟩
      intro x hx
      exact sorted_head_min p (q :: rest) hs x ((hm x).mpr hx)
  obtain ⟨m, hm, hmin, h1, h2⟩ := raw
  rcases (convexHull_stages sep pts h).mp hh with ⟨_, e⟩ | ⟨s, _, _, e⟩
  · exact ⟨m, hm, hmin, e ▸ h1, e ▸ h2⟩
  · exact ⟨m, hm, hmin, by rw [e, mergeSep_head]; exact h1, by rw [e, mergeSep_getLast]; exact h2⟩

/-- no points: empty result; two distinct points or more: at least three entries (the closing
vertex included) -/
theorem hull_length (pts : List (Pt K)) :
    hullRaw ([] : List (Pt K)) = [] ∧
    ((∃ a ∈ pts, ∃ b ∈ pts, a ≠ b) → 3 ≤ (hullRaw pts).length) := by
  refine ⟨rfl, ?_⟩
  rintro ⟨a, ha, b, hb, hab⟩
  rcases hullRaw_cases pts with ⟨e, _⟩ | ⟨p, hall, _, _⟩ | ⟨p, q, rest, hS, e⟩
  · rw [e] at ha; cases ha
  · exact absurd ((hall a ha).trans (hall b hb).symm) hab
  · obtain ⟨hs, _⟩ := core_of pts p q rest hS
    rw [e]; exact (core_facts p q rest hs).2.2.2.1

/-! ### containment -/

/-- every input point is on or to the left of every edge of the returned closed polygon -/
theorem hull_contains (pts : List (Pt K)) : ∀ q ∈ pts, AllLeft q (hullRaw pts) := by
  intro x hx
  rcases hullRaw_cases pts with ⟨_, e⟩ | ⟨p, _, _, e⟩ | ⟨p, q, rest, hS, e⟩
  · rw [e]; trivial
  · rw [e]; trivial
  · obtain ⟨hs, hm⟩ := core_of pts p q rest hS
    have := (core_facts p q rest hs).2.2.2.2.1 x ((hm x).mpr hx)
    rw [e]
    unfold closeUp at this
    -- drop the repeated first edge at the end
    have hrev : ∀ (A B : List (Pt K)), AllLeft x (A ++ B) → AllLeft x A := by
      intro A
      induction A with
      | nil => intro _ _; trivial
      | cons a A ih =>
        intro B h
        cases A with
        | nil => trivial
        | cons b A' =>
          simp only [List.cons_append, AllLeft] at h ⊢
          exact ⟨h.1, ih B h.2⟩
    exact hrev _ _ this

/-! ### strict convexity, counter-clockwise -/

/-- unless all input points are collinear, **every** cyclically consecutive triple of the
returned polygon turns strictly left — inside the lower chain, inside the upper chain, across
the junction at the lexicographic maximum and across the closing vertex -/
theorem hull_ccw_strict (pts : List (Pt K)) (hnc : ¬ Collinear pts) :
    TurnsLeft (closeUp (hullRaw pts)) := by
  rcases hullRaw_cases pts with ⟨_, e⟩ | ⟨p, _, _, e⟩ | ⟨p, q, rest, hS, e⟩
  · rw [e]; trivial
  · rw [e]; trivial
  · obtain ⟨hs, hm⟩ := core_of pts p q rest hS
    rw [e]
    exact (core_facts p q rest hs).2.2.2.2.2.1 (fun hc => hnc ((collinear_congr _ _ hm).mp hc))

/-- the degenerate case: collinear input with two distinct points gives `[m, M, m]`, the
lexicographic minimum and maximum -/
theorem hull_collinear (pts : List (Pt K)) (hc : Collinear pts) (h2 : ∃ a ∈ pts, ∃ b ∈ pts, a ≠ b) :
    ∃ m ∈ pts, ∃ M ∈ pts, (∀ q ∈ pts, q = m ∨ lexlt m q) ∧ (∀ q ∈ pts, q = M ∨ lexlt q M) ∧
      hullRaw pts = [m, M, m] := by
  obtain ⟨a, ha, b, hb, hab⟩ := h2
  rcases hullRaw_cases pts with ⟨e, _⟩ | ⟨p, hall, _, _⟩ | ⟨p, q, rest, hS, e⟩
  · rw [e] at ha; cases ha
  · exact absurd ((hall a ha).trans (hall b hb).symm) hab
  · obtain ⟨hs, hm⟩ := core_of pts p q rest hS
    obtain ⟨M, hH, hM⟩ := (core_facts p q rest hs).2.2.2.2.2.2.2 ((collinear_congr _ _ hm).mpr hc)
    refine ⟨p, (hm p).mp (by simp), M, (hm M).mp (List.mem_of_getLast? hM), ?_, ?_, by rw [e]; exact hH⟩
    · intro x hx; exact sorted_head_min p (q :: rest) hs x ((hm x).mpr hx)
    · intro x hx; exact sorted_last_max _ M hs hM x ((hm x).mpr hx)

/-! ### minimality -/

/-- every returned vertex is an *exposed* point of the input: some affine functional vanishes at
the vertex and is strictly positive at every other input point.  (Non-collinear input.) -/
theorem hull_minimal (pts : List (Pt K)) (hnc : ¬ Collinear pts) :
    ∀ v ∈ hullRaw pts, ∃ α β γ : K, α * v.1 + β * v.2 + γ = 0 ∧
      ∀ q ∈ pts, q ≠ v → 0 < α * q.1 + β * q.2 + γ := by
  intro v hv
  rcases hullRaw_cases pts with ⟨_, e⟩ | ⟨p, hall, _, e⟩ | ⟨p, q, rest, hS, e⟩
  · rw [e] at hv; cases hv
  · rw [e] at hv
    have : v = p := List.mem_singleton.mp hv
    exact ⟨0, 0, 0, by ring, fun x hx hne => absurd ((hall x hx).trans this.symm) hne⟩
  · obtain ⟨hs, hm⟩ := core_of pts p q rest hS
    obtain ⟨_, _, _, _, hleft, hturn, hmid, _⟩ := core_facts p q rest hs
    rw [e] at hv
    obtain ⟨X, a, b, Y, hX⟩ := hmid v hv
    have ht := hturn (fun hc => hnc ((collinear_congr _ _ hm).mp hc))
    rw [hX] at ht
    have hab : 0 < cross a v b := (TurnsLeft_suffix X _ ht).1
    have h1 : ∀ x ∈ p :: q :: rest, 0 ≤ cross a v x := by
      intro x hx
      have := hleft x hx
      rw [hX] at this
      exact (AllLeft_suffix x X _ this).1
    have h2 : ∀ x ∈ p :: q :: rest, 0 ≤ cross v b x := by
      intro x hx
      have := hleft x hx
      rw [hX] at this
      exact (AllLeft_suffix x X _ this).2.1
    obtain ⟨α, β, γ, h0, hpos⟩ := exposed_of_turn (p :: q :: rest) a v b hab h1 h2
    exact ⟨α, β, γ, h0, fun x hx hne => hpos x ((hm x).mpr hx) hne⟩

/-- hence no returned vertex is a convex combination of other input points (in particular it
does not lie on a segment between two of them): for weights `λ_i ≥ 0` summing to 1 and input
points `w_i ≠ v`, `Σ λ_i w_i ≠ v` -/
theorem hull_vertex_not_convex_comb (pts : List (Pt K)) (hnc : ¬ Collinear pts) (v : Pt K)
    (hv : v ∈ hullRaw pts) (ws : List (K × Pt K)) (hw : ∀ e ∈ ws, 0 ≤ e.1 ∧ e.2 ∈ pts ∧ e.2 ≠ v)
    (hsum : (ws.map (fun e => e.1)).sum = 1) :
    ((ws.map (fun e => e.1 * e.2.1)).sum, (ws.map (fun e => e.1 * e.2.2)).sum) ≠ v := by
  obtain ⟨α, β, γ, h0, hpos⟩ := hull_minimal pts hnc v hv
  intro hcomb
  -- the functional of the combination is the combination of the functionals
  have lin : ∀ l : List (K × Pt K),
      α * (l.map (fun e => e.1 * e.2.1)).sum + β * (l.map (fun e => e.1 * e.2.2)).sum +
        γ * (l.map (fun e => e.1)).sum = (l.map (fun e => e.1 * (α * e.2.1 + β * e.2.2 + γ))).sum := by
    intro l
    induction l with
    | nil => simp
    | cons e l ih => simp only [List.map_cons, List.sum_cons]; rw [← ih]; ring
  have pos : ∀ l : List (K × Pt K), (∀ e ∈ l, 0 ≤ e.1 ∧ e.2 ∈ pts ∧ e.2 ≠ v) →
      0 ≤ (l.map (fun e => e.1 * (α * e.2.1 + β * e.2.2 + γ))).sum ∧
      (0 < (l.map (fun e => e.1)).sum → 0 < (l.map (fun e => e.1 * (α * e.2.1 + β * e.2.2 + γ))).sum) := by
    intro l
    induction l with
    | nil => intro _; simp
    | cons e l ih =>
      intro hl
      obtain ⟨ih1, ih2⟩ := ih (fun x hx => hl x (List.mem_cons_of_mem _ hx))
      obtain ⟨he0, hep, hev⟩ := hl e (by simp)
      have hf := hpos e.2 hep hev
      simp only [List.map_cons, List.sum_cons]
      refine ⟨add_nonneg (mul_nonneg he0 (le_of_lt hf)) ih1, fun hs => ?_⟩
      rcases lt_or_eq_of_le he0 with h | h
      · exact add_pos_of_pos_of_nonneg (mul_pos h hf) ih1
      · rw [← h, zero_add] at hs
        rw [← h, zero_mul, zero_add]
        exact ih2 hs
  have := (pos ws hw).2 (by rw [hsum]; exact zero_lt_one)
  rw [← lin ws, hsum, mul_one] at this
  have e1 := congrArg Prod.fst hcomb
  have e2 := congrArg Prod.snd hcomb
  simp only at e1 e2
  rw [e1, e2, h0] at this
  exact lt_irrefl _ this

/-- apart from the closing copy of the first vertex, no vertex is listed twice -/
theorem hull_nodup (pts : List (Pt K)) : (hullRaw pts).dropLast.Nodup := by
  rcases hullRaw_cases pts with ⟨_, e⟩ | ⟨p, _, _, e⟩ | ⟨p, q, rest, hS, e⟩
  · rw [e]; exact List.nodup_nil
  · rw [e]; exact List.nodup_nil
  · obtain ⟨hs, _⟩ := core_of pts p q rest hS
    rw [e]; exact core_nodup p q rest hs

/-! ### the `min_separation` loop -/

/-- the result of the loop is a sublist of the raw hull (any `s`, any list) -/
theorem merge_sublist (s : K) (h : List (Pt K)) : (mergeSep s h).Sublist h :=
  mergeSep_sublist s h

/-- the first vertex and the closing vertex of the raw hull are never removed -/
theorem merge_ends (s : K) (h : List (Pt K)) :
    (mergeSep s h).head? = h.head? ∧ (mergeSep s h).getLast? = h.getLast? :=
  ⟨mergeSep_head s h, mergeSep_getLast s h⟩

/-- **consecutive vertices closer than the separation are merged.**  In the result of the loop on
`v0 :: rest` every two consecutive vertices — the pairs (first vertex, next vertex) and (last
interior vertex, closing vertex) included — are farther apart than `s` in at least one
coordinate (`Separated`: `¬ (|Δx| ≤ s ∧ |Δy| ≤ s)` for every consecutive pair), unless the result is
the degenerate `[v0, closing vertex]` (everything in between was merged away; for a hull that is
`[v0, v0]`).  (`rest = []` is never reached: the loop runs on at least three entries.) -/
theorem merge_separated (s : K) (v0 : Pt K) (rest : List (Pt K)) (hr : rest ≠ []) :
    (∃ l, rest.getLast? = some l ∧ mergeSep s (v0 :: rest) = [v0, l]) ∨
      Separated s (mergeSep s (v0 :: rest)) := by
  rcases mergeSep_separated s v0 rest with ⟨l, hl⟩ | h1 | hs
  · left
    refine ⟨l, ?_, hl⟩
    have := mergeSep_getLast s (v0 :: rest)
    rw [hl] at this
    cases rest with
    | nil => exact absurd rfl hr
    | cons b r => rw [List.getLast?_cons_cons] at this; simpa using this.symm
  · exfalso
    have := mergeSep_getLast s (v0 :: rest)
    rw [h1] at this
    cases rest with
    | nil => exact absurd rfl hr
    | cons b r =>
      -- the result would have one entry although the closing vertex is kept behind the first
      have hne : dropClose s v0 (greedyKeep s (b :: r)) ≠ [] :=
        (dropClose_spec s v0 _).2.1 (greedyKeep_ne s _ (by simp))
      rw [mergeSep_cons] at h1
      injection h1 with _ h1
      exact hne h1
  · exact Or.inr hs

/-- nothing changes when no two consecutive vertices of the (closed) raw hull are within `s` -/
theorem merge_id (s : K) (v0 : Pt K) (rest : List (Pt K)) (h : Separated s (v0 :: rest)) :
    mergeSep s (v0 :: rest) = v0 :: rest :=
  mergeSep_id s v0 rest h

/-- every vertex of the raw hull is kept, or lies within `s` (both coordinates) of a kept vertex, or
— when the vertex it was merged into was afterwards merged into the first vertex — within `2 s` of
the first vertex (which is kept).

The sharper statement "every dropped vertex is within `s` of a kept vertex" is **false** for this
loop; see the `example` below (`[(0,0),(8/5,-3/5),(1,3/10),(1/10,3/2)]`, `s = 1`). -/
theorem merge_dropped_close (s : K) (v0 : Pt K) (rest : List (Pt K)) : ∀ x ∈ v0 :: rest,
    x ∈ mergeSep s (v0 :: rest) ∨
    (∃ y ∈ mergeSep s (v0 :: rest), |x.1 - y.1| ≤ s ∧ |x.2 - y.2| ≤ s) ∨
    (|x.1 - v0.1| ≤ 2 * s ∧ |x.2 - v0.2| ≤ 2 * s) := by
  intro x hx
  rcases mergeSep_covers s v0 rest x hx with h | ⟨y, hy, hc⟩ | ⟨j, h1, h2⟩
  · exact Or.inl h
  · exact Or.inr (Or.inl ⟨y, hy, (closeTo_iff s x y).mp hc⟩)
  · right; right
    have a1 := (closeTo_iff s x j).mp h1
    have a2 := (closeTo_iff s j v0).mp h2
    constructor
    · calc |x.1 - v0.1| ≤ |x.1 - j.1| + |j.1 - v0.1| := abs_sub_le _ _ _
        _ ≤ 2 * s := by linarith [a1.1, a2.1]
    · calc |x.2 - v0.2| ≤ |x.2 - j.2| + |j.2 - v0.2| := abs_sub_le _ _ _
        _ ≤ 2 * s := by linarith [a1.2, a2.2]

/-! ### the executable convexity check evaluated by the driver on every correspondence case -/

/-- soundness (and completeness) of `isStrictlyConvexCCW` -/
theorem checker_sound (h : List (Pt K)) : isStrictlyConvexCCW h = true ↔ TurnsLeft (closeUp h) := by
  unfold isStrictlyConvexCCW closeUp
  generalize h ++ (h.drop 1).take 1 = l
  induction l with
  | nil => simp [turnsLeftB, TurnsLeft]
  | cons a t ih =>
    match t, ih with
    | [], _ => simp [turnsLeftB, TurnsLeft]
    | [b], _ => simp [turnsLeftB, TurnsLeft]
    | b :: c :: rest, ih =>
      simp only [turnsLeftB, TurnsLeft, Bool.and_eq_true, decide_eq_true_eq, zeroNat_cast]
      rw [ih]

/-! ### non-vacuity: concrete inputs that meet the hypotheses (exact rational arithmetic) -/

/-- a 3×3 lattice with duplicates, given unsorted: collinear runs on every side -/
def demo : List (Pt ℚ) := [(2,1),(0,0),(1,1),(2,0),(1,0),(1,1),(0,2),(2,2),(0,1),(1,2),(0,0)]

-- `sort_dedupe_spec`: duplicates removed, strictly sorted
example : sortDedupe demo = [(0,0),(0,1),(0,2),(1,0),(1,1),(1,2),(2,0),(2,1),(2,2)] := by decide +kernel
-- `hull_subset`, `hull_start_closed`, `hull_contains`, `hull_length`: the hull of `demo`
example : convexHull none demo = .ok [(0,0),(2,0),(2,2),(0,2),(0,0)] := by decide +kernel
-- the hypothesis `¬ Collinear pts` of `hull_ccw_strict`, `hull_minimal`, `hull_vertex_not_convex_comb`
example : ¬ Collinear demo := by
  intro h
  have := h (0,0) (by decide +kernel) (2,0) (by decide +kernel) (2,2) (by decide +kernel)
  revert this; decide +kernel
-- `checker_sound`: the executable check agrees on `demo`
example : isStrictlyConvexCCW (hullRaw demo) = true := by decide +kernel
-- `hull_collinear`: collinear input, four distinct points
example : hullRaw ([(0,0),(2,2),(1,1),(3,3)] : List (Pt ℚ)) = [(0,0),(3,3),(0,0)] := by decide +kernel
-- `hullRaw_cases`: no point / one distinct point repeated / two distinct points
example : hullRaw ([] : List (Pt ℚ)) = [] := by decide +kernel
example : hullRaw ([(5,7),(5,7),(5,7)] : List (Pt ℚ)) = [(5,7)] := by decide +kernel
example : hullRaw ([(5,7),(1,2),(5,7)] : List (Pt ℚ)) = [(1,2),(5,7),(1,2)] := by decide +kernel
-- the loop: `(4,0)` is within 1/2 of its successor `(17/4,1/4)`; the EARLIER one is removed
example : convexHull none ([(0,0),(4,0),(17/4,1/4),(4,4),(0,4)] : List (Pt ℚ)) =
    .ok [(0,0),(4,0),(17/4,1/4),(4,4),(0,4),(0,0)] := by decide +kernel
example : convexHull (some (1/2)) ([(0,0),(4,0),(17/4,1/4),(4,4),(0,4)] : List (Pt ℚ)) =
    .ok [(0,0),(17/4,1/4),(4,4),(0,4),(0,0)] := by decide +kernel
-- the three witnesses of the repaired finding F17:
-- (a) vertex 1 within the separation of vertex 0 is now removed
example : convexHull (some (1/10)) ([(0,0),(1/100,-1/200),(10,5),(0,5)] : List (Pt ℚ)) =
    .ok [(0,0),(10,5),(0,5),(0,0)] := by decide +kernel
-- (b) a vertex is compared with the next KEPT vertex: `(0,0)` is within 1 of `(19/20,1)`
example : convexHull (some 1) ([(-10,1/2),(0,0),(21/20,3/10),(19/20,1)] : List (Pt ℚ)) =
    .ok [(-10,1/2),(19/20,1),(-10,1/2)] := by decide +kernel
-- (c) everything within the separation of the first vertex: the degenerate `[v0, v0]` of `merge_separated`
example : convexHull (some 1) ([(0,0),(1,0),(0,1)] : List (Pt ℚ)) = .ok [(0,0),(0,0)] := by decide +kernel
-- `merge_dropped_close` cannot be sharpened: `(8/5,-3/5)` is merged into `(1,3/10)`, which is then merged
-- into the first vertex; it is within 1 of neither kept vertex `(0,0)`, `(1/10,3/2)` (but within 2 of `(0,0)`)
example : convexHull (some 1) ([(0,0),(8/5,-3/5),(1,3/10),(1/10,3/2)] : List (Pt ℚ)) =
    .ok [(0,0),(1/10,3/2),(0,0)] := by decide +kernel
example : hullRaw ([(0,0),(8/5,-3/5),(1,3/10),(1/10,3/2)] : List (Pt ℚ)) =
    [(0,0),(8/5,-3/5),(1,3/10),(1/10,3/2),(0,0)] := by decide +kernel
example : closeTo (1 : ℚ) (8/5,-3/5) (0,0) = false ∧ closeTo (1 : ℚ) (8/5,-3/5) (1/10,3/2) = false := by
  decide +kernel
-- `merge_id`: separation 0 never removes anything from a hull (consecutive vertices differ)
example : convexHull (some 0) demo = .ok [(0,0),(2,0),(2,2),(0,2),(0,0)] := by decide +kernel
-- `hull_neg_separation`
example : convexHull (some (-1)) demo = .error .negSeparation := by decide +kernel

end TW.C16

/-! ### the small boxes of reference catalogs with one or two (or collinear) sources; over `ℝ` -/
namespace TW.C16

/-- one source: it lies strictly inside its box (strictly on the right of every edge of the
clockwise square), whose corners are `(x ± tol, y ± tol)` -/
theorem box1_contains (tol : ℝ) (p : Pt ℝ) (htol : 0 < tol) :
    InsideCW p (smallBox1 tol p) ∧ refFootprint tol [p] = smallBox1 tol p ∧
    ∀ c ∈ smallBox1 tol p, |c.1 - p.1| = tol ∧ |c.2 - p.2| = tol := by
  refine ⟨smallBox1_inside tol p htol, rfl, ?_⟩
  intro c hc
  simp only [smallBox1, List.mem_cons, List.not_mem_nil, or_false] at hc
  have h1 : |(-tol)| = tol := by rw [abs_neg, abs_of_pos htol]
  have h2 : |tol| = tol := abs_of_pos htol
  rcases hc with e | e | e | e | e <;> rw [e] <;> simp [h2]

/-- two distinct sources, **any direction of the pair**: both lie strictly inside the box that
the code builds from the hull `[p0, p1, p0]` (or `[p0, p1]`) -/
theorem box2_contains (tol : ℝ) (p0 p1 : Pt ℝ) (hne : p0 ≠ p1) (htol : 0 < tol) :
    InsideCW p0 (smallBox2 tol p0 p1) ∧ InsideCW p1 (smallBox2 tol p0 p1) ∧
    refFootprint tol [p0, p1, p0] = smallBox2 tol p0 p1 ∧
    refFootprint tol [p0, p1] = smallBox2 tol p0 p1 := by
  obtain ⟨N, u, w, hN, huw, hp1, _, hbox⟩ := smallBox2_eq tol p0 p1 hne
  have := rectUW_inside tol N u w p0 huw hN htol
  rw [← hp1] at this
  rw [hbox]
  refine ⟨this.1, this.2, by rw [← hbox]; rfl, ?_⟩
  rw [← hbox]
  show (if eqB p0.1 p1.1 && eqB p0.2 p1.2 then smallBox1 tol p0 else smallBox2 tol p0 p1) = _
  rw [if_neg]
  intro hb
  simp only [eqB, Bool.and_eq_true, Bool.not_eq_true', decide_eq_false_iff_not, not_lt] at hb
  exact hne (Prod.ext (le_antisymm hb.1.2 hb.1.1) (le_antisymm hb.2.2 hb.2.1))

/-- the degenerate list `[p, p]` (two sources closer than the merging distance of `convex_hull`)
is treated as one source -/
theorem box_degenerate (tol : ℝ) (p : Pt ℝ) : refFootprint tol [p, p] = smallBox1 tol p := by
  show (if eqB p.1 p.1 && eqB p.2 p.2 then smallBox1 tol p else smallBox2 tol p p) = _
  rw [if_pos]
  simp [eqB]

/-- hence every point of the segment between the two sources is inside as well: a catalog of any
number of collinear sources (hull `[min, max, min]`) lies inside the box built from its two ends -/
theorem box2_contains_segment (tol : ℝ) (p0 p1 : Pt ℝ) (hne : p0 ≠ p1) (htol : 0 < tol) (t : ℝ)
    (ht0 : 0 ≤ t) (ht1 : t ≤ 1) :
    InsideCW ((1 - t) * p0.1 + t * p1.1, (1 - t) * p0.2 + t * p1.2) (smallBox2 tol p0 p1) := by
  obtain ⟨h0, h1, _, _⟩ := box2_contains tol p0 p1 hne htol
  exact InsideCW_convex p0 p1 t ht0 ht1 _ h0 h1

/-- the box is a rectangle of width `2·tol` and length `|p1 − p0| + 2·tol`: adjacent sides are
perpendicular, opposite sides equal, and the squared side lengths are as stated -/
theorem box2_rectangle (tol : ℝ) (p0 p1 : Pt ℝ) (hne : p0 ≠ p1) :
    ∃ (c1 c2 c3 c4 : Pt ℝ) (N : ℝ), smallBox2 tol p0 p1 = [c1, c2, c3, c4, c1] ∧ 0 < N ∧
      N * N = (p1.1 - p0.1) * (p1.1 - p0.1) + (p1.2 - p0.2) * (p1.2 - p0.2) ∧
      (c2.1 - c1.1) * (c2.1 - c1.1) + (c2.2 - c1.2) * (c2.2 - c1.2) = (2 * tol) * (2 * tol) ∧
      (c3.1 - c2.1) * (c3.1 - c2.1) + (c3.2 - c2.2) * (c3.2 - c2.2) = (N + 2 * tol) * (N + 2 * tol) ∧
      (c2.1 - c1.1) * (c3.1 - c2.1) + (c2.2 - c1.2) * (c3.2 - c2.2) = 0 ∧
      (c3.1 - c2.1 = c4.1 - c1.1 ∧ c3.2 - c2.2 = c4.2 - c1.2) := by
  obtain ⟨N, u, w, hN, huw, hp1, hNN, hbox⟩ := smallBox2_eq tol p0 p1 hne
  refine ⟨_, _, _, _, N, hbox, hN, hNN, ?_, ?_, ?_, ?_, ?_⟩
  · linear_combination (4 * tol * tol) * huw
  · rw [hp1]; simp only
    linear_combination ((N + 2 * tol) * (N + 2 * tol)) * huw
  · rw [hp1]; simp only
    ring
  · ring
  · ring

/-- `tol = 0.5 · deg2rad(footprint_tol / 3600)`: half of `footprint_tol` arcsec in radians -/
theorem boxTol_spec (d2r ftol : ℝ) :
    boxTol d2r ftol = ftol / 3600 * d2r / 2 ∧ (0 < d2r → 0 < ftol → 0 < boxTol d2r ftol) := by
  have e : boxTol d2r ftol = ftol / 3600 * d2r / 2 := by
    unfold boxTol; norm_num
  refine ⟨e, fun h1 h2 => ?_⟩
  rw [e]; positivity

-- hypotheses of `box2_contains` / `box2_rectangle`: a diagonal pair, half an arcsecond in radians
example : ((0 : ℝ), (0 : ℝ)) ≠ (3, 4) := by
  intro h; have := congrArg Prod.fst h; norm_num at this
example : (0 : ℝ) < boxTol (355 / 113 / 180) 1 := (boxTol_spec _ _).2 (by norm_num) one_pos

end TW.C16
