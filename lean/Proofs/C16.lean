import Proofs.C16Merge
import Proofs.C16Nodup
import Proofs.C16Box
import Proofs.ChipBorderLemmas
import Proofs.SphHullLemmas
import Mathlib.Tactic.NormNum
import Mathlib.Algebra.Order.Field.Rat

/-!
# C16 — footprints contain their sources; convex hulls are convex, CCW and minimal

Property theorems only (helper lemmas: `Proofs/Hull*.lean`, `Proofs/C16Sort.lean`, `C16Fwd.lean`,
`C16Chain.lean`, `C16Junction.lean`, `C16Hull.lean`, `C16Nodup.lean`, `C16Merge.lean`, `C16Box.lean`).

The model (`Model/Hull.lean`) is `tweakwcs.wcsimage.convex_hull` line by line:
`sortDedupe` = `sorted(set(zip(x, y)))`, two `chain` passes with `cross <= 0` pops,
`hullRaw` = `lower[:-1] + upper` (with the 0- and 1-point returns), `mergeSep` = the
`min_separation` loop (the repaired backward greedy pass followed by the pass against the first vertex), `convexHull` = the whole function (`wcs=None`), and `smallBox1`,
`smallBox2`, `refFootprint` = the small-catalog branches of `RefCatalog._calc_cat_convex_hull`.
`K` is any linearly ordered field (real arithmetic; rounding is outside the model); the box
theorems that need the square root are over `ℝ`.

Vocabulary: `lexlt` Python's tuple order; `AllLeft q h` — `q` is on or to the left of every edge
(consecutive pair) of `h`; `TurnsLeft h` — every consecutive triple of `h` is a strict left turn;
`closeUp h = h ++ [h[1]]`, so that for a closed list (`h[0] = h[-1]`) the triples of `closeUp h`
are **all** cyclically consecutive triples, the one centred at the closing vertex and the two
junctions of the lower and upper chains included; `Collinear pts` — every triple of input points
has zero cross product; `FarApart s a b` — `¬ (|a.1 - b.1| ≤ s ∧ |a.2 - b.2| ≤ s)`; `Separated s h` —
every two consecutive vertices of `h` are `FarApart s`.  Spherical polygons (`spherical_geometry`) are not modelled.
-/
open TW
set_option linter.unusedSectionVars false

namespace TW.C16
variable {K : Type} [Field K] [LinearOrder K] [IsStrictOrderedRing K]

/-! ### the function as a whole -/

/-- what `convex_hull` returns in terms of its stages: without `min_separation` the raw hull,
with a non-negative one the raw hull after the separation loop, with a negative one the error -/
theorem convexHull_stages (sep : Option K) (pts h : List (Pt K)) :
    convexHull sep pts = .ok h ↔
      (sep = none ∧ h = hullRaw pts) ∨ (∃ s, sep = some s ∧ 0 ≤ s ∧ h = mergeSep s (hullRaw pts)) := by
  unfold convexHull
  cases sep with
  | none =>
    simp only [true_and, reduceCtorEq, false_and, exists_false, or_false]
    constructor
    · intro e; injection e with e; exact e.symm
    · intro e; rw [e]
  | some s =>
    simp only [reduceCtorEq, false_and, false_or, Option.some.injEq, exists_eq_left', zeroNat_cast]
    by_cases hs : s < 0
    · rw [if_pos hs]
      constructor
      · intro e; cases e
      · rintro ⟨h0, _⟩; exact absurd hs (not_lt.mpr h0)
    · rw [if_neg hs]
      have key : ∀ r : Except HullErr (List (Pt K)),
          (match hullRaw pts with
          | [] => (Except.ok [] : Except HullErr (List (Pt K)))
          | [p] => .ok [p]
          | h => .ok (mergeSep s h)) = r → r = .ok (mergeSep s (hullRaw pts)) := by
        intro r hr
        split at hr
        · next e => rw [e, ← hr]; rfl
        · next p e => rw [e, ← hr, mergeSep_cons, greedyKeep_nil, dropClose_nil]
        · exact hr.symm
      constructor
      · intro e
        have := key _ e
        injection this with this
        exact ⟨not_lt.mp hs, this⟩
      · rintro ⟨_, e⟩
        rw [e]
        exact key _ rfl

/-- a negative `min_separation` is rejected before anything else -/
theorem hull_neg_separation (s : K) (hs : s < 0) (pts : List (Pt K)) :
    convexHull (some s) pts = .error .negSeparation := by
  unfold convexHull
  simp only [zeroNat_cast]
  rw [if_pos hs]

/-! ### sort / dedupe: the chain theorems (stated for sorted input) apply to arbitrary input -/

/-- `sorted(set(zip(x, y)))` is strictly lexicographically increasing and has exactly the
input's points -/
theorem sort_dedupe_spec (pts : List (Pt K)) :
    (sortDedupe pts).Pairwise lexlt ∧ ∀ x, x ∈ sortDedupe pts ↔ x ∈ pts :=
  ⟨sortDedupe_sorted pts, mem_sortDedupe pts⟩

/-- the three shapes of the raw hull: no point; one distinct point; `lower[:-1] + upper` of the
sorted distinct points -/
theorem hullRaw_cases (pts : List (Pt K)) :
    (pts = [] ∧ hullRaw pts = []) ∨
    (∃ p, (∀ x ∈ pts, x = p) ∧ p ∈ pts ∧ hullRaw pts = [p]) ∨
    (∃ p q rest, sortDedupe pts = p :: q :: rest ∧ hullRaw pts = hullCore (p :: q :: rest)) := by
  unfold hullRaw
  cases h : sortDedupe pts with
  | nil =>
    left
    refine ⟨?_, rfl⟩
    cases pts with
    | nil => rfl
    | cons a t => exact absurd ((mem_sortDedupe (a :: t) a).mpr (by simp)) (by rw [h]; simp)
  | cons p t =>
    cases t with
    | nil =>
      right; left
      refine ⟨p, ?_, ?_, rfl⟩
      · intro x hx
        have := (mem_sortDedupe pts x).mpr hx
        rw [h] at this
        simpa using this
      · exact (mem_sortDedupe pts p).mp (by rw [h]; simp)
    | cons q rest => right; right; exact ⟨p, q, rest, rfl, rfl⟩

/-! ### vertices are input points; the list starts and closes at the lexicographic minimum -/

/-- every returned vertex is an input point (with or without `min_separation`) -/
theorem hull_subset (sep : Option K) (pts h : List (Pt K)) (hh : convexHull sep pts = .ok h) :
    ∀ v ∈ h, v ∈ pts := by
  have raw : ∀ v ∈ hullRaw pts, v ∈ pts := by
    intro v hv
    rcases hullRaw_cases pts with ⟨_, e⟩ | ⟨p, _, hp, e⟩ | ⟨p, q, rest, hS, e⟩
    · rw [e] at hv; cases hv
    · rw [e] at hv; rw [List.mem_singleton.mp hv]; exact hp
    · obtain ⟨hs, hm⟩ := core_of pts p q rest hS
      rw [e] at hv
      exact (hm v).mp ((core_facts p q rest hs).1 v hv)
  rcases (convexHull_stages sep pts h).mp hh with ⟨_, e⟩ | ⟨s, _, _, e⟩
  · rw [e]; exact raw
  · intro v hv
    rw [e] at hv
    exact raw v ((mergeSep_sublist s _).subset hv)

/-- for a non-empty input the returned list starts **and ends** at the lexicographically
smallest input point (with or without `min_separation`: the loop never drops either end) -/
theorem hull_start_closed (sep : Option K) (pts h : List (Pt K)) (hh : convexHull sep pts = .ok h)
    (hne : pts ≠ []) :
    ∃ m ∈ pts, (∀ q ∈ pts, q = m ∨ lexlt m q) ∧ h.head? = some m ∧ h.getLast? = some m := by
  have raw : ∃ m ∈ pts, (∀ q ∈ pts, q = m ∨ lexlt m q) ∧ (hullRaw pts).head? = some m ∧
      (hullRaw pts).getLast? = some m := by
    rcases hullRaw_cases pts with ⟨e, _⟩ | ⟨p, hall, hp, e⟩ | ⟨p, q, rest, hS, e⟩
    · exact absurd e hne
    · exact ⟨p, hp, fun x hx => Or.inl (hall x hx), by rw [e]; rfl, by rw [e]; rfl⟩
    · obtain ⟨hs, hm⟩ := core_of pts p q rest hS
      obtain ⟨_, h1, h2, _⟩ := core_facts p q rest hs
      refine ⟨p, (hm p).mp (by simp), ?_, by rw [e]; exact h1, by rw [e]; exact h2⟩
      intro x hx
      exact sorted_head_min p (q :: rest) hs x ((hm x).mpr hx)
  obtain ⟨m, hm, hmin, h1, h2⟩ := raw
  rcases (convexHull_stages sep pts h).mp hh with ⟨_, e⟩ | ⟨s, _, _, e⟩
  · exact ⟨m, hm, hmin, e ▸ h1, e ▸ h2⟩
  · exact ⟨m, hm, hmin, by rw [e, mergeSep_head]; exact h1, by rw [e, mergeSep_getLast]; exact h2⟩

/-- no points: empty result; two distinct points or more: at least three entries (the closing
vertex included) -/
theorem hull_length (pts : List (Pt K)) :
    hullRaw ([] : List (Pt K)) = [] ∧
    ((∃ a ∈ pts, ∃ b ∈ pts, a ≠ b) → 3 ≤ (hullRaw pts).length) := by
  refine ⟨rfl, ?_⟩
  rintro ⟨a, ha, b, hb, hab⟩
  rcases hullRaw_cases pts with ⟨e, _⟩ | ⟨p, hall, _, _⟩ | ⟨p, q, rest, hS, e⟩
  · rw [e] at ha; cases ha
  · exact absurd ((hall a ha).trans (hall b hb).symm) hab
  · obtain ⟨hs, _⟩ := core_of pts p q rest hS
    rw [e]; exact (core_facts p q rest hs).2.2.2.1

/-! ### containment -/

/-- every input point is on or to the left of every edge of the returned closed polygon -/
theorem hull_contains (pts : List (Pt K)) : ∀ q ∈ pts, AllLeft q (hullRaw pts) := by
  intro x hx
  rcases hullRaw_cases pts with ⟨_, e⟩ | ⟨p, _, _, e⟩ | ⟨p, q, rest, hS, e⟩
  · rw [e]; trivial
  · rw [e]; trivial
  · obtain ⟨hs, hm⟩ := core_of pts p q rest hS
    have := (core_facts p q rest hs).2.2.2.2.1 x ((hm x).mpr hx)
    rw [e]
    unfold closeUp at this
    -- drop the repeated first edge at the end
    have hrev : ∀ (A B : List (Pt K)), AllLeft x (A ++ B) → AllLeft x A := by
      intro A
      induction A with
      | nil => intro _ _; trivial
      | cons a A ih =>
        intro B h
        cases A with
        | nil => trivial
        | cons b A' =>
          simp only [List.cons_append, AllLeft] at h ⊢
          exact ⟨h.1, ih B h.2⟩
    exact hrev _ _ this

/-! ### strict convexity, counter-clockwise -/

/-- unless all input points are collinear, **every** cyclically consecutive triple of the
returned polygon turns strictly left — inside the lower chain, inside the upper chain, across
the junction at the lexicographic maximum and across the closing vertex -/
theorem hull_ccw_strict (pts : List (Pt K)) (hnc : ¬ Collinear pts) :
    TurnsLeft (closeUp (hullRaw pts)) := by
  rcases hullRaw_cases pts with ⟨_, e⟩ | ⟨p, _, _, e⟩ | ⟨p, q, rest, hS, e⟩
  · rw [e]; trivial
  · rw [e]; trivial
  · obtain ⟨hs, hm⟩ := core_of pts p q rest hS
    rw [e]
    exact (core_facts p q rest hs).2.2.2.2.2.1 (fun hc => hnc ((collinear_congr _ _ hm).mp hc))

/-- the degenerate case: collinear input with two distinct points gives `[m, M, m]`, the
lexicographic minimum and maximum -/
theorem hull_collinear (pts : List (Pt K)) (hc : Collinear pts) (h2 : ∃ a ∈ pts, ∃ b ∈ pts, a ≠ b) :
    ∃ m ∈ pts, ∃ M ∈ pts, (∀ q ∈ pts, q = m ∨ lexlt m q) ∧ (∀ q ∈ pts, q = M ∨ lexlt q M) ∧
      hullRaw pts = [m, M, m] := by
  obtain ⟨a, ha, b, hb, hab⟩ := h2
  rcases hullRaw_cases pts with ⟨e, _⟩ | ⟨p, hall, _, _⟩ | ⟨p, q, rest, hS, e⟩
  · rw [e] at ha; cases ha
  · exact absurd ((hall a ha).trans (hall b hb).symm) hab
  · obtain ⟨hs, hm⟩ := core_of pts p q rest hS
    obtain ⟨M, hH, hM⟩ := (core_facts p q rest hs).2.2.2.2.2.2.2 ((collinear_congr _ _ hm).mpr hc)
    refine ⟨p, (hm p).mp (by simp), M, (hm M).mp (List.mem_of_getLast? hM), ?_, ?_, by rw [e]; exact hH⟩
    · intro x hx; exact sorted_head_min p (q :: rest) hs x ((hm x).mpr hx)
    · intro x hx; exact sorted_last_max _ M hs hM x ((hm x).mpr hx)

/-! ### minimality -/

/-- every returned vertex is an *exposed* point of the input: some affine functional vanishes at
the vertex and is strictly positive at every other input point.  (Non-collinear input.) -/
theorem hull_minimal (pts : List (Pt K)) (hnc : ¬ Collinear pts) :
    ∀ v ∈ hullRaw pts, ∃ α β γ : K, α * v.1 + β * v.2 + γ = 0 ∧
      ∀ q ∈ pts, q ≠ v → 0 < α * q.1 + β * q.2 + γ := by
  intro v hv
  rcases hullRaw_cases pts with ⟨_, e⟩ | ⟨p, hall, _, e⟩ | ⟨p, q, rest, hS, e⟩
  · rw [e] at hv; cases hv
  · rw [e] at hv
    have : v = p := List.mem_singleton.mp hv
    exact ⟨0, 0, 0, by ring, fun x hx hne => absurd ((hall x hx).trans this.symm) hne⟩
  · obtain ⟨hs, hm⟩ := core_of pts p q rest hS
    obtain ⟨_, _, _, _, hleft, hturn, hmid, _⟩ := core_facts p q rest hs
    rw [e] at hv
    obtain ⟨X, a, b, Y, hX⟩ := hmid v hv
    have ht := hturn (fun hc => hnc ((collinear_congr _ _ hm).mp hc))
    rw [hX] at ht
    have hab : 0 < cross a v b := (TurnsLeft_suffix X _ ht).1
    have h1 : ∀ x ∈ p :: q :: rest, 0 ≤ cross a v x := by
      intro x hx
      have := hleft x hx
      rw [hX] at this
      exact (AllLeft_suffix x X _ this).1
    have h2 : ∀ x ∈ p :: q :: rest, 0 ≤ cross v b x := by
      intro x hx
      have := hleft x hx
      rw [hX] at this
      exact (AllLeft_suffix x X _ this).2.1
    obtain ⟨α, β, γ, h0, hpos⟩ := exposed_of_turn (p :: q :: rest) a v b hab h1 h2
    exact ⟨α, β, γ, h0, fun x hx hne => hpos x ((hm x).mpr hx) hne⟩

/-- hence no returned vertex is a convex combination of other input points (in particular it
does not lie on a segment between two of them): for weights `λ_i ≥ 0` summing to 1 and input
points `w_i ≠ v`, `Σ λ_i w_i ≠ v` -/
theorem hull_vertex_not_convex_comb (pts : List (Pt K)) (hnc : ¬ Collinear pts) (v : Pt K)
    (hv : v ∈ hullRaw pts) (ws : List (K × Pt K)) (hw : ∀ e ∈ ws, 0 ≤ e.1 ∧ e.2 ∈ pts ∧ e.2 ≠ v)
    (hsum : (ws.map (fun e => e.1)).sum = 1) :
    ((ws.map (fun e => e.1 * e.2.1)).sum, (ws.map (fun e => e.1 * e.2.2)).sum) ≠ v := by
  obtain ⟨α, β, γ, h0, hpos⟩ := hull_minimal pts hnc v hv
  intro hcomb
  -- the functional of the combination is the combination of the functionals
  have lin : ∀ l : List (K × Pt K),
      α * (l.map (fun e => e.1 * e.2.1)).sum + β * (l.map (fun e => e.1 * e.2.2)).sum +
        γ * (l.map (fun e => e.1)).sum = (l.map (fun e => e.1 * (α * e.2.1 + β * e.2.2 + γ))).sum := by
    intro l
    induction l with
    | nil => simp
    | cons e l ih => simp only [List.map_cons, List.sum_cons]; rw [← ih]; ring
  have pos : ∀ l : List (K × Pt K), (∀ e ∈ l, 0 ≤ e.1 ∧ e.2 ∈ pts ∧ e.2 ≠ v) →
      0 ≤ (l.map (fun e => e.1 * (α * e.2.1 + β * e.2.2 + γ))).sum ∧
      (0 < (l.map (fun e => e.1)).sum → 0 < (l.map (fun e => e.1 * (α * e.2.1 + β * e.2.2 + γ))).sum) := by
    intro l
    induction l with
    | nil => intro _; simp
    | cons e l ih =>
      intro hl
      obtain ⟨ih1, ih2⟩ := ih (fun x hx => hl x (List.mem_cons_of_mem _ hx))
      obtain ⟨he0, hep, hev⟩ := hl e (by simp)
      have hf := hpos e.2 hep hev
      simp only [List.map_cons, List.sum_cons]
      refine ⟨add_nonneg (mul_nonneg he0 (le_of_lt hf)) ih1, fun hs => ?_⟩
      rcases lt_or_eq_of_le he0 with h | h
      · exact add_pos_of_pos_of_nonneg (mul_pos h hf) ih1
      · rw [← h, zero_add] at hs
        rw [← h, zero_mul, zero_add]
        exact ih2 hs
  have := (pos ws hw).2 (by rw [hsum]; exact zero_lt_one)
  rw [← lin ws, hsum, mul_one] at this
  have e1 := congrArg Prod.fst hcomb
  have e2 := congrArg Prod.snd hcomb
  simp only at e1 e2
  rw [e1, e2, h0] at this
  exact lt_irrefl _ this

/-- apart from the closing copy of the first vertex, no vertex is listed twice -/
theorem hull_nodup (pts : List (Pt K)) : (hullRaw pts).dropLast.Nodup := by
  rcases hullRaw_cases pts with ⟨_, e⟩ | ⟨p, _, _, e⟩ | ⟨p, q, rest, hS, e⟩
  · rw [e]; exact List.nodup_nil
  · rw [e]; exact List.nodup_nil
  · obtain ⟨hs, _⟩ := core_of pts p q rest hS
    rw [e]; exact core_nodup p q rest hs

/-! ### the `min_separation` loop -/

/-- the result of the loop is a sublist of the raw hull (any `s`, any list) -/
theorem merge_sublist (s : K) (h : List (Pt K)) : (mergeSep s h).Sublist h :=
  mergeSep_sublist s h

/-- the first vertex and the closing vertex of the raw hull are never removed -/
theorem merge_ends (s : K) (h : List (Pt K)) :
    (mergeSep s h).head? = h.head? ∧ (mergeSep s h).getLast? = h.getLast? :=
  ⟨mergeSep_head s h, mergeSep_getLast s h⟩

/-- **consecutive vertices closer than the separation are merged.**  In the result of the loop on
`v0 :: rest` every two consecutive vertices — the pairs (first vertex, next vertex) and (last
interior vertex, closing vertex) included — are farther apart than `s` in at least one
coordinate (`Separated`: `¬ (|Δx| ≤ s ∧ |Δy| ≤ s)` for every consecutive pair), unless the result is
the degenerate `[v0, closing vertex]` (everything in between was merged away; for a hull that is
`[v0, v0]`).  (`rest = []` is never reached: the loop runs on at least three entries.) -/
theorem merge_separated (s : K) (v0 : Pt K) (rest : List (Pt K)) (hr : rest ≠ []) :
    (∃ l, rest.getLast? = some l ∧ mergeSep s (v0 :: rest) = [v0, l]) ∨
      Separated s (mergeSep s (v0 :: rest)) := by
  rcases mergeSep_separated s v0 rest with ⟨l, hl⟩ | h1 | hs
  · left
    refine ⟨l, ?_, hl⟩
    have := mergeSep_getLast s (v0 :: rest)
    rw [hl] at this
    cases rest with
    | nil => exact absurd rfl hr
    | cons b r => rw [List.getLast?_cons_cons] at this; simpa using this.symm
  · exfalso
    have := mergeSep_getLast s (v0 :: rest)
    rw [h1] at this
    cases rest with
    | nil => exact absurd rfl hr
    | cons b r =>
      -- the result would have one entry although the closing vertex is kept behind the first
      have hne : dropClose s v0 (greedyKeep s (b :: r)) ≠ [] :=
        (dropClose_spec s v0 _).2.1 (greedyKeep_ne s _ (by simp))
      rw [mergeSep_cons] at h1
      injection h1 with _ h1
      exact hne h1
  · exact Or.inr hs

/-- nothing changes when no two consecutive vertices of the (closed) raw hull are within `s` -/
theorem merge_id (s : K) (v0 : Pt K) (rest : List (Pt K)) (h : Separated s (v0 :: rest)) :
    mergeSep s (v0 :: rest) = v0 :: rest :=
  mergeSep_id s v0 rest h

/-- every vertex of the raw hull is kept, or lies within `s` (both coordinates) of a kept vertex, or
— when the vertex it was merged into was afterwards merged into the first vertex — within `2 s` of
the first vertex (which is kept).

The sharper statement "every dropped vertex is within `s` of a kept vertex" is **false** for this
loop; see the `example` below (`[(0,0),(8/5,-3/5),(1,3/10),(1/10,3/2)]`, `s = 1`). -/
theorem merge_dropped_close (s : K) (v0 : Pt K) (rest : List (Pt K)) : ∀ x ∈ v0 :: rest,
    x ∈ mergeSep s (v0 :: rest) ∨
    (∃ y ∈ mergeSep s (v0 :: rest), |x.1 - y.1| ≤ s ∧ |x.2 - y.2| ≤ s) ∨
    (|x.1 - v0.1| ≤ 2 * s ∧ |x.2 - v0.2| ≤ 2 * s) := by
  intro x hx
  rcases mergeSep_covers s v0 rest x hx with h | ⟨y, hy, hc⟩ | ⟨j, h1, h2⟩
  · exact Or.inl h
  · exact Or.inr (Or.inl ⟨y, hy, (closeTo_iff s x y).mp hc⟩)
  · right; right
    have a1 := (closeTo_iff s x j).mp h1
    have a2 := (closeTo_iff s j v0).mp h2
    constructor
    · calc |x.1 - v0.1| ≤ |x.1 - j.1| + |j.1 - v0.1| := abs_sub_le _ _ _
        _ ≤ 2 * s := by linarith [a1.1, a2.1]
    · calc |x.2 - v0.2| ≤ |x.2 - j.2| + |j.2 - v0.2| := abs_sub_le _ _ _
        _ ≤ 2 * s := by linarith [a1.2, a2.2]

/-! ### the executable convexity check evaluated by the driver on every correspondence case -/

/-- soundness (and completeness) of `isStrictlyConvexCCW` -/
theorem checker_sound (h : List (Pt K)) : isStrictlyConvexCCW h = true ↔ TurnsLeft (closeUp h) := by
  unfold isStrictlyConvexCCW closeUp
  generalize h ++ (h.drop 1).take 1 = l
  induction l with
  | nil => simp [turnsLeftB, TurnsLeft]
  | cons a t ih =>
    match t, ih with
    | [], _ => simp [turnsLeftB, TurnsLeft]
    | [b], _ => simp [turnsLeftB, TurnsLeft]
    | b :: c :: rest, ih =>
      simp only [turnsLeftB, TurnsLeft, Bool.and_eq_true, decide_eq_true_eq, zeroNat_cast]
      rw [ih]

/-! ### non-vacuity: concrete inputs that meet the hypotheses (exact rational arithmetic) -/

/-- a 3×3 lattice with duplicates, given unsorted: collinear runs on every side -/
def demo : List (Pt ℚ) := [(2,1),(0,0),(1,1),(2,0),(1,0),(1,1),(0,2),(2,2),(0,1),(1,2),(0,0)]

-- `sort_dedupe_spec`: duplicates removed, strictly sorted
example : sortDedupe demo = [(0,0),(0,1),(0,2),(1,0),(1,1),(1,2),(2,0),(2,1),(2,2)] := by decide +kernel
-- `hull_subset`, `hull_start_closed`, `hull_contains`, `hull_length`: the hull of `demo`
example : convexHull none demo = .ok [(0,0),(2,0),(2,2),(0,2),(0,0)] := by decide +kernel
-- the hypothesis `¬ Collinear pts` of `hull_ccw_strict`, `hull_minimal`, `hull_vertex_not_convex_comb`
example : ¬ Collinear demo := by
  intro h
  have := h (0,0) (by decide +kernel) (2,0) (by decide +kernel) (2,2) (by decide +kernel)
  revert this; decide +kernel
-- `checker_sound`: the executable check agrees on `demo`
example : isStrictlyConvexCCW (hullRaw demo) = true := by decide +kernel
-- `hull_collinear`: collinear input, four distinct points
example : hullRaw ([(0,0),(2,2),(1,1),(3,3)] : List (Pt ℚ)) = [(0,0),(3,3),(0,0)] := by decide +kernel
-- `hullRaw_cases`: no point / one distinct point repeated / two distinct points
example : hullRaw ([] : List (Pt ℚ)) = [] := by decide +kernel
example : hullRaw ([(5,7),(5,7),(5,7)] : List (Pt ℚ)) = [(5,7)] := by decide +kernel
example : hullRaw ([(5,7),(1,2),(5,7)] : List (Pt ℚ)) = [(1,2),(5,7),(1,2)] := by decide +kernel
-- the loop: `(4,0)` is within 1/2 of its successor `(17/4,1/4)`; the EARLIER one is removed
example : convexHull none ([(0,0),(4,0),(17/4,1/4),(4,4),(0,4)] : List (Pt ℚ)) =
    .ok [(0,0),(4,0),(17/4,1/4),(4,4),(0,4),(0,0)] := by decide +kernel
example : convexHull (some (1/2)) ([(0,0),(4,0),(17/4,1/4),(4,4),(0,4)] : List (Pt ℚ)) =
    .ok [(0,0),(17/4,1/4),(4,4),(0,4),(0,0)] := by decide +kernel
-- the three witnesses of the repaired finding F17:
-- (a) vertex 1 within the separation of vertex 0 is now removed
example : convexHull (some (1/10)) ([(0,0),(1/100,-1/200),(10,5),(0,5)] : List (Pt ℚ)) =
    .ok [(0,0),(10,5),(0,5),(0,0)] := by decide +kernel
-- (b) a vertex is compared with the next KEPT vertex: `(0,0)` is within 1 of `(19/20,1)`
example : convexHull (some 1) ([(-10,1/2),(0,0),(21/20,3/10),(19/20,1)] : List (Pt ℚ)) =
    .ok [(-10,1/2),(19/20,1),(-10,1/2)] := by decide +kernel
-- (c) everything within the separation of the first vertex: the degenerate `[v0, v0]` of `merge_separated`
example : convexHull (some 1) ([(0,0),(1,0),(0,1)] : List (Pt ℚ)) = .ok [(0,0),(0,0)] := by decide +kernel
-- `merge_dropped_close` cannot be sharpened: `(8/5,-3/5)` is merged into `(1,3/10)`, which is then merged
-- into the first vertex; it is within 1 of neither kept vertex `(0,0)`, `(1/10,3/2)` (but within 2 of `(0,0)`)
example : convexHull (some 1) ([(0,0),(8/5,-3/5),(1,3/10),(1/10,3/2)] : List (Pt ℚ)) =
    .ok [(0,0),(1/10,3/2),(0,0)] := by decide +kernel
example : hullRaw ([(0,0),(8/5,-3/5),(1,3/10),(1/10,3/2)] : List (Pt ℚ)) =
    [(0,0),(8/5,-3/5),(1,3/10),(1/10,3/2),(0,0)] := by decide +kernel
example : closeTo (1 : ℚ) (8/5,-3/5) (0,0) = false ∧ closeTo (1 : ℚ) (8/5,-3/5) (1/10,3/2) = false := by
  decide +kernel
-- `merge_id`: separation 0 never removes anything from a hull (consecutive vertices differ)
example : convexHull (some 0) demo = .ok [(0,0),(2,0),(2,2),(0,2),(0,0)] := by decide +kernel
-- `hull_neg_separation`
example : convexHull (some (-1)) demo = .error .negSeparation := by decide +kernel

end TW.C16

/-! ### the small boxes of reference catalogs with one or two (or collinear) sources; over `ℝ` -/
namespace TW.C16

/-- one source: it lies strictly inside its box (strictly on the right of every edge of the
clockwise square), whose corners are `(x ± tol, y ± tol)` -/
theorem box1_contains (tol : ℝ) (p : Pt ℝ) (htol : 0 < tol) :
    InsideCW p (smallBox1 tol p) ∧ refFootprint tol [p] = smallBox1 tol p ∧
    ∀ c ∈ smallBox1 tol p, |c.1 - p.1| = tol ∧ |c.2 - p.2| = tol := by
  refine ⟨smallBox1_inside tol p htol, rfl, ?_⟩
  intro c hc
  simp only [smallBox1, List.mem_cons, List.not_mem_nil, or_false] at hc
  have h1 : |(-tol)| = tol := by rw [abs_neg, abs_of_pos htol]
  have h2 : |tol| = tol := abs_of_pos htol
  rcases hc with e | e | e | e | e <;> rw [e] <;> simp [h2]

/-- two distinct sources, **any direction of the pair**: both lie strictly inside the box that
the code builds from the hull `[p0, p1, p0]` (or `[p0, p1]`) -/
theorem box2_contains (tol : ℝ) (p0 p1 : Pt ℝ) (hne : p0 ≠ p1) (htol : 0 < tol) :
    InsideCW p0 (smallBox2 tol p0 p1) ∧ InsideCW p1 (smallBox2 tol p0 p1) ∧
    refFootprint tol [p0, p1, p0] = smallBox2 tol p0 p1 ∧
    refFootprint tol [p0, p1] = smallBox2 tol p0 p1 := by
  obtain ⟨N, u, w, hN, huw, hp1, _, hbox⟩ := smallBox2_eq tol p0 p1 hne
  have := rectUW_inside tol N u w p0 huw hN htol
  rw [← hp1] at this
  rw [hbox]
  refine ⟨this.1, this.2, by rw [← hbox]; rfl, ?_⟩
  rw [← hbox]
  show (if eqB p0.1 p1.1 && eqB p0.2 p1.2 then smallBox1 tol p0 else smallBox2 tol p0 p1) = _
  rw [if_neg]
  intro hb
  simp only [eqB, Bool.and_eq_true, Bool.not_eq_true', decide_eq_false_iff_not, not_lt] at hb
  exact hne (Prod.ext (le_antisymm hb.1.2 hb.1.1) (le_antisymm hb.2.2 hb.2.1))

/-- the degenerate list `[p, p]` (two sources closer than the merging distance of `convex_hull`)
is treated as one source -/
theorem box_degenerate (tol : ℝ) (p : Pt ℝ) : refFootprint tol [p, p] = smallBox1 tol p := by
  show (if eqB p.1 p.1 && eqB p.2 p.2 then smallBox1 tol p else smallBox2 tol p p) = _
  rw [if_pos]
  simp [eqB]

/-- hence every point of the segment between the two sources is inside as well: a catalog of any
number of collinear sources (hull `[min, max, min]`) lies inside the box built from its two ends -/
theorem box2_contains_segment (tol : ℝ) (p0 p1 : Pt ℝ) (hne : p0 ≠ p1) (htol : 0 < tol) (t : ℝ)
    (ht0 : 0 ≤ t) (ht1 : t ≤ 1) :
    InsideCW ((1 - t) * p0.1 + t * p1.1, (1 - t) * p0.2 + t * p1.2) (smallBox2 tol p0 p1) := by
  obtain ⟨h0, h1, _, _⟩ := box2_contains tol p0 p1 hne htol
  exact InsideCW_convex p0 p1 t ht0 ht1 _ h0 h1

/-- the box is a rectangle of width `2·tol` and length `|p1 − p0| + 2·tol`: adjacent sides are
perpendicular, opposite sides equal, and the squared side lengths are as stated -/
theorem box2_rectangle (tol : ℝ) (p0 p1 : Pt ℝ) (hne : p0 ≠ p1) :
    ∃ (c1 c2 c3 c4 : Pt ℝ) (N : ℝ), smallBox2 tol p0 p1 = [c1, c2, c3, c4, c1] ∧ 0 < N ∧
      N * N = (p1.1 - p0.1) * (p1.1 - p0.1) + (p1.2 - p0.2) * (p1.2 - p0.2) ∧
      (c2.1 - c1.1) * (c2.1 - c1.1) + (c2.2 - c1.2) * (c2.2 - c1.2) = (2 * tol) * (2 * tol) ∧
      (c3.1 - c2.1) * (c3.1 - c2.1) + (c3.2 - c2.2) * (c3.2 - c2.2) = (N + 2 * tol) * (N + 2 * tol) ∧
      (c2.1 - c1.1) * (c3.1 - c2.1) + (c2.2 - c1.2) * (c3.2 - c2.2) = 0 ∧
      (c3.1 - c2.1 = c4.1 - c1.1 ∧ c3.2 - c2.2 = c4.2 - c1.2) := by
  obtain ⟨N, u, w, hN, huw, hp1, hNN, hbox⟩ := smallBox2_eq tol p0 p1 hne
  refine ⟨_, _, _, _, N, hbox, hN, hNN, ?_, ?_, ?_, ?_, ?_⟩
  · linear_combination (4 * tol * tol) * huw
  · rw [hp1]; simp only
    linear_combination ((N + 2 * tol) * (N + 2 * tol)) * huw
  · rw [hp1]; simp only
    ring
  · ring
  · ring

/-- `tol = 0.5 · deg2rad(footprint_tol / 3600)`: half of `footprint_tol` arcsec in radians -/
theorem boxTol_spec (d2r ftol : ℝ) :
    boxTol d2r ftol = ftol / 3600 * d2r / 2 ∧ (0 < d2r → 0 < ftol → 0 < boxTol d2r ftol) := by
  have e : boxTol d2r ftol = ftol / 3600 * d2r / 2 := by
    unfold boxTol; norm_num
  refine ⟨e, fun h1 h2 => ?_⟩
  rw [e]; positivity

-- hypotheses of `box2_contains` / `box2_rectangle`: a diagonal pair, half an arcsecond in radians
example : ((0 : ℝ), (0 : ℝ)) ≠ (3, 4) := by
  intro h; have := congrArg Prod.fst h; norm_num at this
example : (0 : ℝ) < boxTol (355 / 113 / 180) 1 := (boxTol_spec _ _).2 (by norm_num) one_pos

end TW.C16

/-!
### the whole-image ("chip") footprint: `WCSImageCatalog._calc_chip_bounding_polygon`

The footprint of an image catalog with fewer than three (or only collinear) sources.  The model
(`Model/ChipBorder.lean`, namespace `TW.Chip`) is the method up to the call of `det_to_world`:
`chipRect` (bounding box shrunk by half a pixel but not past the sources inside the box — `rectBB`; the
plain shrink `rectBBOld` is the code before the repair of finding F25 —, or — no bounding box —
`[-1/2, upperEdge(max x)] × [-1/2, upperEdge(max y)]` with `upperEdge m = max(1, ⌊m + 1/2⌋ + 1) − 1/2`), `nint` (3 intervals, or
`max(2, ⌈(hi − lo)/stepsize⌉)`), `linspace` (as `numpy.linspace` evaluates it, end point exact),
`chipBorder` (the lists `borderx`, `bordery` zipped) and `chipPolygon` (the whole).  `K` is any linearly
ordered field with a floor; rounding, the sky map and the spherical polygon are outside the model.

Vocabulary: `shoelace2 l` = `Σ (x_i y_{i+1} − x_{i+1} y_i)` over consecutive pairs (twice the signed area
of a closed vertex list, positive = counter-clockwise), `signedArea l = shoelace2 l / 2`; `AllLeft q l` —
`q` is on or to the left of every edge of `l` (for a convex counter-clockwise polygon: `q` is in the
closed region bounded by `l`).
-/
namespace TW.C16
open TW.Chip
section chip
variable {K : Type} [Field K] [LinearOrder K] [IsStrictOrderedRing K] [FloorRing K]

/-! #### (a) no bounding box: the rectangle from the catalog -/

/-- for every non-empty catalog the rectangle exists, starts at the pixel edge `-1/2`, its upper edges
are strictly above **every** source, at most one pixel above the largest coordinate (or at the edge `1/2`
of the first pixel), and it spans whole pixels (at least one) -/
theorem chip_nobb_rect (cat : List (K × K)) (hne : cat ≠ []) :
    ∃ r, chipRect none cat = .ok r ∧ r.lx = -(1 / 2) ∧ r.ly = -(1 / 2) ∧
      (∀ p ∈ cat, p.1 < r.hx ∧ p.2 < r.hy) ∧
      (∃ p ∈ cat, r.hx ≤ max (1 / 2) (p.1 + 1)) ∧ (∃ p ∈ cat, r.hy ≤ max (1 / 2) (p.2 + 1)) ∧
      (∃ nx ny : ℕ, 1 ≤ nx ∧ 1 ≤ ny ∧ r.hx - r.lx = (nx : K) ∧ r.hy - r.ly = (ny : K)) := by
  have hx : cat.map (fun p => p.1) ≠ [] := by simpa using hne
  have hy : cat.map (fun p => p.2) ≠ [] := by simpa using hne
  rcases amax_spec (cat.map fun p => p.1) with ⟨e, _⟩ | ⟨mx, hmx, hmemx, hbx⟩
  · exact absurd e hx
  rcases amax_spec (cat.map fun p => p.2) with ⟨e, _⟩ | ⟨my, hmy, hmemy, hby⟩
  · exact absurd e hy
  refine ⟨⟨-halfK, upperEdge mx, -halfK, upperEdge my⟩, ?_, ?_, ?_, ?_, ?_, ?_, ?_⟩
  · show rectNoBB cat = _
    unfold rectNoBB
    rw [hmx, hmy]
  · simp [TW.Hist.halfK_eq]
  · simp [TW.Hist.halfK_eq]
  · intro p hp
    exact ⟨lt_of_le_of_lt (hbx p.1 (List.mem_map.mpr ⟨p, hp, rfl⟩)) (lt_upperEdge mx),
      lt_of_le_of_lt (hby p.2 (List.mem_map.mpr ⟨p, hp, rfl⟩)) (lt_upperEdge my)⟩
  · obtain ⟨p, hp, e⟩ := List.mem_map.mp hmemx
    exact ⟨p, hp, by rw [e]; exact upperEdge_le mx⟩
  · obtain ⟨p, hp, e⟩ := List.mem_map.mp hmemy
    exact ⟨p, hp, by rw [e]; exact upperEdge_le my⟩
  · obtain ⟨nx, hnx, ex⟩ := upperEdge_nat mx
    obtain ⟨ny, hny, ey⟩ := upperEdge_nat my
    refine ⟨nx, ny, hnx, hny, ?_, ?_⟩
    · simp only [TW.Hist.halfK_eq]; rw [← ex]; ring
    · simp only [TW.Hist.halfK_eq]; rw [← ey]; ring

/-- **containment**: every source with pixel coordinates `≥ -1/2` (every pixel of a detector whose first
pixel is centred on 0) lies in the rectangle, strictly below its upper edges -/
theorem chip_nobb_contains (cat : List (K × K)) (r : Rect K) (h : chipRect none cat = .ok r) :
    ∀ p ∈ cat, -(1 / 2) ≤ p.1 → -(1 / 2) ≤ p.2 → r.lx ≤ p.1 ∧ p.1 < r.hx ∧ r.ly ≤ p.2 ∧ p.2 < r.hy := by
  intro p hp h1 h2
  have hne : cat ≠ [] := List.ne_nil_of_mem hp
  obtain ⟨r', hr', elx, ely, hlt, _⟩ := chip_nobb_rect cat hne
  rw [h] at hr'
  injection hr' with hr'
  subst hr'
  exact ⟨by rw [elx]; exact h1, (hlt p hp).1, by rw [ely]; exact h2, (hlt p hp).2⟩

/-- the excluded inputs really are outside: a source with a coordinate below `-1/2` is below the lower
edge of the rectangle (which never moves) -/
theorem chip_nobb_excluded (cat : List (K × K)) (r : Rect K) (h : chipRect none cat = .ok r) :
    ∀ p ∈ cat, (p.1 < -(1 / 2) → p.1 < r.lx) ∧ (p.2 < -(1 / 2) → p.2 < r.ly) := by
  intro p hp
  obtain ⟨r', hr', elx, ely, _⟩ := chip_nobb_rect cat (List.ne_nil_of_mem hp)
  rw [h] at hr'
  injection hr' with hr'
  subst hr'
  exact ⟨fun h1 => by rw [elx]; exact h1, fun h2 => by rw [ely]; exact h2⟩

/-- the rectangle fails to exist only for an empty catalog on a corrector without bounding box -/
theorem chip_rect_error (bbox : Option (Rect K)) (cat : List (K × K)) (e : ChipErr) :
    chipRect bbox cat = .error e ↔ (bbox = none ∧ cat = [] ∧ e = .emptyCatalog) := by
  cases bbox with
  | some b => simp [chipRect]
  | none =>
    constructor
    · intro h
      by_cases hne : cat = []
      · subst hne
        have : chipRect (K := K) none [] = .error .emptyCatalog := rfl
        rw [this] at h
        injection h with h
        exact ⟨rfl, rfl, h.symm⟩
      · obtain ⟨r, hr, _⟩ := chip_nobb_rect cat hne
        rw [hr] at h; cases h
    · rintro ⟨_, rfl, rfl⟩; rfl

/-! #### (b) bounding box: shrunk by half a pixel, but not past the sources inside the box -/

/-- the rectangle always exists.  Without sources it is the box minus half a pixel on every side; with
sources, `nx, mx, ny, my` being the smallest and largest coordinates of the catalog, it is
`[min (lx + 1/2) (max nx lx), max (hx − 1/2) (min mx hx)] × [min (ly + 1/2) (max ny ly), max (hy − 1/2) (min my hy)]`.
In both cases no side is shrunk by more than half a pixel, and the rectangle is non-degenerate when the box is wider (taller) than one
pixel -/
theorem chip_bb_rect (b : Rect K) (cat : List (K × K)) :
    ∃ r, chipRect (some b) cat = .ok r ∧
      (cat = [] → r.lx = b.lx + 1 / 2 ∧ r.hx = b.hx - 1 / 2 ∧ r.ly = b.ly + 1 / 2 ∧ r.hy = b.hy - 1 / 2) ∧
      (cat ≠ [] → ∃ nx mx ny my,
        (nx ∈ cat.map (fun p => p.1) ∧ ∀ s ∈ cat, nx ≤ s.1) ∧ (mx ∈ cat.map (fun p => p.1) ∧ ∀ s ∈ cat, s.1 ≤ mx) ∧
        (ny ∈ cat.map (fun p => p.2) ∧ ∀ s ∈ cat, ny ≤ s.2) ∧ (my ∈ cat.map (fun p => p.2) ∧ ∀ s ∈ cat, s.2 ≤ my) ∧
        r.lx = min (b.lx + 1 / 2) (max nx b.lx) ∧ r.hx = max (b.hx - 1 / 2) (min mx b.hx) ∧
        r.ly = min (b.ly + 1 / 2) (max ny b.ly) ∧ r.hy = max (b.hy - 1 / 2) (min my b.hy)) ∧
      r.lx ≤ b.lx + 1 / 2 ∧ b.hx - 1 / 2 ≤ r.hx ∧ r.ly ≤ b.ly + 1 / 2 ∧ b.hy - 1 / 2 ≤ r.hy ∧
      (b.hx - b.lx) - 1 ≤ r.hx - r.lx ∧ (b.hy - b.ly) - 1 ≤ r.hy - r.ly ∧
      (1 < b.hx - b.lx → r.lx < r.hx) ∧ (1 < b.hy - b.ly → r.ly < r.hy) := by
  refine ⟨rectBB b cat, rfl, ?_, ?_, ?_⟩
  · rintro rfl
    rw [rectBB_nil, rectBBOld_eq]
    exact ⟨rfl, rfl, rfl, rfl⟩
  · intro hne
    obtain ⟨nx, mx, ny, my, h1, h2, h3, h4, e⟩ := rectBB_ne b cat hne
    exact ⟨nx, mx, ny, my, h1, h2, h3, h4, by rw [e], by rw [e], by rw [e], by rw [e]⟩
  · have key : (rectBB b cat).lx ≤ b.lx + 1 / 2 ∧ b.hx - 1 / 2 ≤ (rectBB b cat).hx ∧
        (rectBB b cat).ly ≤ b.ly + 1 / 2 ∧ b.hy - 1 / 2 ≤ (rectBB b cat).hy := by
      by_cases hne : cat = []
      · subst hne
        rw [rectBB_nil, rectBBOld_eq]
        exact ⟨le_refl _, le_refl _, le_refl _, le_refl _⟩
      · obtain ⟨nx, mx, ny, my, _, _, _, _, e⟩ := rectBB_ne b cat hne
        rw [e]
        exact ⟨min_le_left _ _, le_max_left _ _, min_le_left _ _, le_max_left _ _⟩
    obtain ⟨k1, k2, k3, k4⟩ := key
    refine ⟨k1, k2, k3, k4, by linarith, by linarith, fun h => by linarith, fun h => by linarith⟩

/-- **the rectangle contains the sources inside the bounding box** (coordinate by coordinate: a source at
or above the lower edge of the box is at or above the lower edge of the rectangle, …): in particular
every source of the catalog that lies in the closed bounding box lies in the rectangle -/
theorem chip_bb_contains (b : Rect K) (cat : List (K × K)) (r : Rect K)
    (h : chipRect (some b) cat = .ok r) : ∀ s ∈ cat,
    (b.lx ≤ s.1 → r.lx ≤ s.1) ∧ (s.1 ≤ b.hx → s.1 ≤ r.hx) ∧ (b.ly ≤ s.2 → r.ly ≤ s.2) ∧ (s.2 ≤ b.hy → s.2 ≤ r.hy) := by
  intro s hs
  have hne : cat ≠ [] := List.ne_nil_of_mem hs
  obtain ⟨nx, mx, ny, my, ⟨_, h1⟩, ⟨_, h2⟩, ⟨_, h3⟩, ⟨_, h4⟩, e⟩ := rectBB_ne b cat hne
  have hr : r = rectBB b cat := by
    have : chipRect (some b) cat = .ok (rectBB b cat) := rfl
    rw [this] at h; injection h with h; exact h.symm
  rw [hr, e]
  refine ⟨fun hb => ?_, fun hb => ?_, fun hb => ?_, fun hb => ?_⟩
  · exact le_trans (min_le_right _ _) (max_le (h1 s hs) hb)
  · exact le_trans (le_min (h2 s hs) hb) (le_max_right _ _)
  · exact le_trans (min_le_right _ _) (max_le (h3 s hs) hb)
  · exact le_trans (le_min (h4 s hs) hb) (le_max_right _ _)

/-- **the rectangle stays inside the closed bounding box** when the box is at least one pixel wide and
high (whatever the catalog: sources outside the box move an edge at most to the edge of the box) -/
theorem chip_bb_within_box (b : Rect K) (cat : List (K × K)) (r : Rect K)
    (h : chipRect (some b) cat = .ok r) :
    (1 ≤ b.hx - b.lx → b.lx ≤ r.lx ∧ r.hx ≤ b.hx) ∧ (1 ≤ b.hy - b.ly → b.ly ≤ r.ly ∧ r.hy ≤ b.hy) := by
  have hr : r = rectBB b cat := by
    have : chipRect (some b) cat = .ok (rectBB b cat) := rfl
    rw [this] at h; injection h with h; exact h.symm
  by_cases hne : cat = []
  · subst hne
    rw [hr, rectBB_nil, rectBBOld_eq]
    exact ⟨fun hw => ⟨by simp only; linarith, by simp only; linarith⟩,
      fun hw => ⟨by simp only; linarith, by simp only; linarith⟩⟩
  · obtain ⟨nx, mx, ny, my, _, _, _, _, e⟩ := rectBB_ne b cat hne
    rw [hr, e]
    exact ⟨fun hw => ⟨le_min (by linarith) (le_max_right _ _), max_le (by linarith) (min_le_right _ _)⟩,
      fun hw => ⟨le_min (by linarith) (le_max_right _ _), max_le (by linarith) (min_le_right _ _)⟩⟩

/-- **nothing changes for catalogs that keep half a pixel from the edges of the box**: if every source
is in the box shrunk by half a pixel (and for the empty catalog) the rectangle is that shrunk box, as
before the repair of finding F25 -/
theorem chip_bb_unchanged_if_clear (b : Rect K) (cat : List (K × K))
    (hclear : ∀ s ∈ cat, b.lx + 1 / 2 ≤ s.1 ∧ s.1 ≤ b.hx - 1 / 2 ∧ b.ly + 1 / 2 ≤ s.2 ∧ s.2 ≤ b.hy - 1 / 2) :
    chipRect (some b) cat = .ok (rectBBOld b) ∧
    rectBBOld b = ⟨b.lx + 1 / 2, b.hx - 1 / 2, b.ly + 1 / 2, b.hy - 1 / 2⟩ := by
  refine ⟨?_, rectBBOld_eq b⟩
  have : chipRect (some b) cat = .ok (rectBB b cat) := rfl
  rw [this]
  congr 1
  by_cases hne : cat = []
  · subst hne; exact rectBB_nil b
  · obtain ⟨nx, mx, ny, my, ⟨m1, _⟩, ⟨m2, _⟩, ⟨m3, _⟩, ⟨m4, _⟩, e⟩ := rectBB_ne b cat hne
    obtain ⟨s1, hs1, rfl⟩ := List.mem_map.mp m1
    obtain ⟨s2, hs2, rfl⟩ := List.mem_map.mp m2
    obtain ⟨s3, hs3, rfl⟩ := List.mem_map.mp m3
    obtain ⟨s4, hs4, rfl⟩ := List.mem_map.mp m4
    rw [e, rectBBOld_eq]
    have c1 := (hclear s1 hs1).1
    have c2 := (hclear s2 hs2).2.1
    have c3 := (hclear s3 hs3).2.2.1
    have c4 := (hclear s4 hs4).2.2.2
    rw [min_eq_left (le_trans c1 (le_max_left _ _)), max_eq_left (le_trans (min_le_left _ _) c2),
      min_eq_left (le_trans c3 (le_max_left _ _)), max_eq_left (le_trans (min_le_left _ _) c4)]

/-! #### (d) the numbers of intervals -/

/-- at least two intervals; three without `stepsize`; with a positive `stepsize` no interval is longer
than it and the count is the least such (above the minimum 2); a negative `stepsize` gives the minimum -/
theorem nint_spec (step : Option K) (lo hi : K) (n : ℕ) (h : nint step lo hi = .ok n) :
    2 ≤ n ∧ (step = none → n = 3) ∧
    (∀ s, step = some s → 0 < s → (hi - lo) / (n : K) ≤ s ∧ (2 < n → s < (hi - lo) / ((n : K) - 1))) ∧
    (∀ s, step = some s → s < 0 → lo ≤ hi → n = 2) := by
  rcases nint_cases step lo hi with ⟨e, h'⟩ | ⟨e, h'⟩ | ⟨s, hs, e, h'⟩
  · rw [h'] at h; injection h with h; subst h
    refine ⟨by norm_num, fun _ => rfl, ?_, ?_⟩ <;> intro s hs' <;> rw [e] at hs' <;> cases hs'
  · rw [h'] at h; cases h
  · rw [h'] at h; injection h with h; subst h
    refine ⟨two_le_nintStep lo hi s, (fun h0 => by rw [e] at h0; cases h0), ?_, ?_⟩
    · intro s' hs' hpos
      rw [e] at hs'; injection hs' with hs'; subst hs'
      exact ⟨nintStep_le lo hi s hpos, nintStep_minimal lo hi s hpos⟩
    · intro s' hs' hneg hle
      rw [e] at hs'; injection hs' with hs'; subst hs'
      have hc := nintStep_cast lo hi s
      have : ⌈(hi - lo) / s⌉ ≤ 0 := by
        rw [Int.ceil_le]
        push_cast
        exact div_nonpos_of_nonneg_of_nonpos (by linarith) (le_of_lt hneg)
      rw [max_eq_left (by omega)] at hc
      omega

/-- the only failure is a zero `stepsize` -/
theorem nint_error (step : Option K) (lo hi : K) (e : ChipErr) :
    nint step lo hi = .error e ↔ (step = some 0 ∧ e = .zeroStep) := by
  rcases nint_cases step lo hi with ⟨e', h'⟩ | ⟨e', h'⟩ | ⟨s, hs, e', h'⟩
  · rw [h', e']; simp
  · rw [h', e']
    constructor
    · intro h; injection h with h; exact ⟨rfl, h.symm⟩
    · rintro ⟨_, rfl⟩; rfl
  · rw [h', e']
    constructor
    · intro h; cases h
    · rintro ⟨h0, _⟩; injection h0 with h0; exact absurd h0 hs

/-! #### (e) `numpy.linspace` -/

/-- `n + 1` samples; for `n ≥ 1` intervals the first is `lo`, the last is **exactly** `hi`, and sample `i`
is `lo + i (hi − lo)/n`; one sample (`n = 0`) is `lo` -/
theorem linspace_spec (lo hi : K) (n : ℕ) :
    (linspace lo hi n).length = n + 1 ∧ linspace lo hi 0 = [lo] ∧
    (n ≠ 0 → (linspace lo hi n).head? = some lo ∧ (linspace lo hi n).getLast? = some hi ∧
      ∀ i ≤ n, (linspace lo hi n)[i]? = some (lo + (i : K) * ((hi - lo) / (n : K)))) := by
  refine ⟨linspace_length lo hi n, by simp [linspace], fun hn => ⟨?_, ?_, ?_⟩⟩
  · rw [linspace_decomp lo hi n hn]; rfl
  · rw [linspace_decomp lo hi n hn, List.getLast?_concat]
  · intro i hi'
    exact linspace_getElem? lo hi n i hn hi'

/-- consecutive samples are `(hi − lo)/n` apart -/
theorem linspace_spacing (lo hi : K) (n i : ℕ) (hi' : i < n) :
    ∃ a b, (linspace lo hi n)[i]? = some a ∧ (linspace lo hi n)[i + 1]? = some b ∧
      b - a = (hi - lo) / (n : K) := by
  have hn : n ≠ 0 := by omega
  refine ⟨_, _, linspace_getElem? lo hi n i hn (by omega), linspace_getElem? lo hi n (i + 1) hn (by omega), ?_⟩
  push_cast
  ring

/-- strictly increasing for `lo < hi`; in any case between the end points -/
theorem linspace_monotone (lo hi : K) (n : ℕ) (hn : n ≠ 0) :
    (lo < hi → (linspace lo hi n).Pairwise (· < ·)) ∧
    ∀ v ∈ linspace lo hi n, min lo hi ≤ v ∧ v ≤ max lo hi :=
  ⟨linspace_sorted lo hi n hn, linspace_between lo hi n hn⟩

/-! #### (c) the border walk -/

/-- `2 (nintx + 1) + 2 (ninty − 1) + 1` points (all counts) -/
theorem border_length (r : Rect K) (nx ny : ℕ) :
    (chipBorder r nx ny).length = 2 * (nx + 1) + 2 * (ny - 1) + 1 := by
  rw [chipBorder_edges]
  simp only [List.length_append, List.length_map, List.length_reverse, linspace_length, interior_length,
    List.length_take]
  omega

/-- closed: the last point is the first one, `(lx, ly)` -/
theorem border_closed (r : Rect K) (nx ny : ℕ) (hn : nx ≠ 0) :
    (chipBorder r nx ny).head? = some (r.lx, r.ly) ∧ (chipBorder r nx ny).getLast? = some (r.lx, r.ly) := by
  rw [chipBorder_eq_rectWalk r nx ny hn]
  exact ⟨rectWalk_head _ _ _ _ _ _, rectWalk_getLast _ _ _ _ _ _⟩

/-- every point of the border lies ON the boundary of the rectangle and inside its closed extent
(whatever the order of the edges of a degenerate or inverted rectangle) -/
theorem border_on_boundary (r : Rect K) (nx ny : ℕ) (hn : nx ≠ 0) : ∀ p ∈ chipBorder r nx ny,
    (p.1 = r.lx ∨ p.1 = r.hx ∨ p.2 = r.ly ∨ p.2 = r.hy) ∧
    min r.lx r.hx ≤ p.1 ∧ p.1 ≤ max r.lx r.hx ∧ min r.ly r.hy ≤ p.2 ∧ p.2 ≤ max r.ly r.hy := by
  intro p hp
  rw [chipBorder_eq_rectWalk r nx ny hn] at hp
  have bx := interior_between r.lx r.hx nx
  have by' := interior_between r.ly r.hy ny
  have l1 : min r.lx r.hx ≤ r.lx ∧ r.lx ≤ max r.lx r.hx := ⟨min_le_left _ _, le_max_left _ _⟩
  have l2 : min r.lx r.hx ≤ r.hx ∧ r.hx ≤ max r.lx r.hx := ⟨min_le_right _ _, le_max_right _ _⟩
  have l3 : min r.ly r.hy ≤ r.ly ∧ r.ly ≤ max r.ly r.hy := ⟨min_le_left _ _, le_max_left _ _⟩
  have l4 : min r.ly r.hy ≤ r.hy ∧ r.hy ≤ max r.ly r.hy := ⟨min_le_right _ _, le_max_right _ _⟩
  rcases mem_rectWalk _ _ _ _ _ _ p hp with ⟨e, h⟩ | ⟨e, h⟩ | ⟨e, h⟩ | ⟨e, h⟩
  · refine ⟨Or.inr (Or.inr (Or.inl e)), ?_, ?_, by rw [e]; exact l3.1, by rw [e]; exact l3.2⟩ <;>
      rcases h with h | h | h
    · rw [h]; exact l1.1
    · rw [h]; exact l2.1
    · exact (bx _ h).1
    · rw [h]; exact l1.2
    · rw [h]; exact l2.2
    · exact (bx _ h).2
  · refine ⟨Or.inr (Or.inl e), by rw [e]; exact l2.1, by rw [e]; exact l2.2, ?_, ?_⟩ <;> rcases h with h | h
    · rw [h]; exact l4.1
    · exact (by' _ h).1
    · rw [h]; exact l4.2
    · exact (by' _ h).2
  · refine ⟨Or.inr (Or.inr (Or.inr e)), ?_, ?_, by rw [e]; exact l4.1, by rw [e]; exact l4.2⟩ <;>
      rcases h with h | h
    · rw [h]; exact l1.1
    · exact (bx _ h).1
    · rw [h]; exact l1.2
    · exact (bx _ h).2
  · exact ⟨Or.inl e, by rw [e]; exact l1.1, by rw [e]; exact l1.2, (by' _ h).1, (by' _ h).2⟩

/-- the four corners occur, in the order bottom-left, bottom-right, top-right, top-left, and the walk
returns to the first -/
theorem border_corners (r : Rect K) (nx ny : ℕ) (hn : nx ≠ 0) :
    List.Sublist [(r.lx, r.ly), (r.hx, r.ly), (r.hx, r.hy), (r.lx, r.hy), (r.lx, r.ly)]
      (chipBorder r nx ny) := by
  rw [chipBorder_eq_rectWalk r nx ny hn]
  exact corners_sublist _ _ _ _ _ _

/-- consecutive points are distinct when the rectangle is non-degenerate -/
theorem border_consecutive_distinct (r : Rect K) (nx ny : ℕ) (hn : nx ≠ 0) (hx : r.lx < r.hx)
    (hy : r.ly < r.hy) (i : ℕ) (hi : i + 1 < (chipBorder r nx ny).length) :
    (chipBorder r nx ny)[i] ≠ (chipBorder r nx ny)[i + 1] := by
  have key : List.IsChain (· ≠ ·) (chipBorder r nx ny) := by
    rw [chipBorder_eq_rectWalk r nx ny hn, isChain_rectWalk]
    have sx := (interior_sorted r.lx r.hx nx hx).isChain
    have sy := (interior_sorted r.ly r.hy ny hy).isChain
    refine ⟨?_, ?_, ?_, ?_⟩
    · rw [List.isChain_map]
      exact sx.imp fun a b hab he => absurd (congrArg Prod.fst he) (ne_of_lt hab)
    · rw [List.isChain_map]
      exact sy.imp fun a b hab he => absurd (congrArg Prod.snd he) (ne_of_lt hab)
    · rw [List.isChain_map, List.isChain_reverse]
      exact sx.imp fun a b hab he => absurd (congrArg Prod.fst he) (ne_of_gt hab)
    · rw [List.isChain_map, List.isChain_reverse]
      exact sy.imp fun a b hab he => absurd (congrArg Prod.snd he) (ne_of_gt hab)
  exact List.isChain_iff_getElem.mp key i hi

/-- **counter-clockwise**: the signed shoelace area of the border polygon is `+(hx − lx)(hy − ly)` —
for every rectangle and all interval counts -/
theorem border_ccw (r : Rect K) (nx ny : ℕ) (hn : nx ≠ 0) :
    Chip.shoelace2 (chipBorder r nx ny) = 2 * ((r.hx - r.lx) * (r.hy - r.ly)) ∧
    signedArea (chipBorder r nx ny) = (r.hx - r.lx) * (r.hy - r.ly) := by
  have h := shoelace2_rectWalk r.lx r.hx r.ly r.hy (interior (linspace r.lx r.hx nx))
    (interior (linspace r.ly r.hy ny))
  rw [← chipBorder_eq_rectWalk r nx ny hn] at h
  refine ⟨h, ?_⟩
  unfold signedArea
  rw [h]; ring

/-- the region bounded by the border polygon (the points on or to the left of all of its edges) is
exactly the rectangle: every point of the rectangle is inside the polygon and nothing else is -/
theorem border_region (r : Rect K) (nx ny : ℕ) (hn : nx ≠ 0) (hx : r.lx < r.hx) (hy : r.ly < r.hy)
    (q : Pt K) :
    AllLeft q (chipBorder r nx ny) ↔ (r.lx ≤ q.1 ∧ q.1 ≤ r.hx ∧ r.ly ≤ q.2 ∧ q.2 ≤ r.hy) := by
  rw [allLeft_iff_isChain, chipBorder_eq_rectWalk r nx ny hn, isChain_rectWalk]
  have sx := (interior_sorted r.lx r.hx nx hx).isChain
  have sy := (interior_sorted r.ly r.hy ny hy).isChain
  have sx' : List.IsChain (· > ·) (r.lx :: interior (linspace r.lx r.hx nx) ++ [r.hx]).reverse :=
    List.isChain_reverse.mpr sx
  have sy' : List.IsChain (· > ·) (r.ly :: interior (linspace r.ly r.hy ny) ++ [r.hy]).reverse :=
    List.isChain_reverse.mpr sy
  have lenx : 2 ≤ (r.lx :: interior (linspace r.lx r.hx nx) ++ [r.hx]).length := by simp
  have leny : 2 ≤ (r.ly :: interior (linspace r.ly r.hy ny) ++ [r.hy]).length := by simp
  have lenx' : 2 ≤ (r.lx :: interior (linspace r.lx r.hx nx) ++ [r.hx]).reverse.length := by simp
  have leny' : 2 ≤ (r.ly :: interior (linspace r.ly r.hy ny) ++ [r.hy]).reverse.length := by simp
  rw [List.isChain_map, List.isChain_map, List.isChain_map, List.isChain_map]
  rw [chain_const_iff (φ := r.ly ≤ q.2) ?_ _ sx lenx, chain_const_iff (φ := q.1 ≤ r.hx) ?_ _ sy leny,
    chain_const_iff (φ := q.2 ≤ r.hy) ?_ _ sx' lenx', chain_const_iff (φ := r.lx ≤ q.1) ?_ _ sy' leny']
  · tauto
  · intro a b hab
    simp only [cross]
    constructor
    · intro h; nlinarith
    · intro h; nlinarith
  · intro a b hab
    simp only [cross]
    constructor
    · intro h; nlinarith
    · intro h; nlinarith
  · intro a b hab
    simp only [cross]
    constructor
    · intro h; nlinarith
    · intro h; nlinarith
  · intro a b hab
    simp only [cross]
    constructor
    · intro h; nlinarith
    · intro h; nlinarith

/-! #### the whole method -/

/-- what a successful call consists of: the rectangle, the two interval counts (at least 2, so that every
border theorem above applies) and the border -/
theorem chipPolygon_ok (bbox : Option (Rect K)) (step : Option K) (cat : List (K × K)) (p : ChipPoly K)
    (h : chipPolygon bbox step cat = .ok p) :
    chipRect bbox cat = .ok p.rect ∧ nint step p.rect.lx p.rect.hx = .ok p.nintx ∧
    nint step p.rect.ly p.rect.hy = .ok p.ninty ∧ p.pts = chipBorder p.rect p.nintx p.ninty ∧
    2 ≤ p.nintx ∧ 2 ≤ p.ninty := by
  unfold chipPolygon at h
  cases hr : chipRect bbox cat with
  | error e => rw [hr] at h; cases h
  | ok r =>
    rw [hr] at h
    simp only at h
    cases hnx : nint step r.lx r.hx with
    | error e => rw [hnx] at h; cases h
    | ok nx =>
      cases hny : nint step r.ly r.hy with
      | error e => rw [hnx, hny] at h; cases h
      | ok ny =>
        rw [hnx, hny] at h
        injection h with h
        subst h
        exact ⟨rfl, hnx, hny, rfl, (nint_spec step _ _ nx hnx).1, (nint_spec step _ _ ny hny).1⟩

/-- the method fails exactly for an empty catalog without bounding box and for a zero `stepsize` -/
theorem chipPolygon_error (bbox : Option (Rect K)) (step : Option K) (cat : List (K × K)) :
    (∃ e, chipPolygon bbox step cat = .error e) ↔ ((bbox = none ∧ cat = []) ∨ step = some 0) := by
  unfold chipPolygon
  cases hr : chipRect bbox cat with
  | error e =>
    have := (chip_rect_error bbox cat e).mp hr
    simp only
    exact ⟨fun _ => Or.inl ⟨this.1, this.2.1⟩, fun _ => ⟨e, rfl⟩⟩
  | ok r =>
    have hnot : ¬ (bbox = none ∧ cat = []) := by
      rintro ⟨rfl, rfl⟩
      have : chipRect (K := K) none [] = .error .emptyCatalog := rfl
      rw [this] at hr; cases hr
    simp only
    cases hnx : nint step r.lx r.hx with
    | error e =>
      have := (nint_error step _ _ e).mp hnx
      exact ⟨fun _ => Or.inr this.1, fun _ => ⟨e, rfl⟩⟩
    | ok nx =>
      cases hny : nint step r.ly r.hy with
      | error e =>
        have := (nint_error step _ _ e).mp hny
        exact ⟨fun _ => Or.inr this.1, fun _ => ⟨e, rfl⟩⟩
      | ok ny =>
        constructor
        · rintro ⟨e, h⟩; cases h
        · rintro (h | h)
          · exact absurd h hnot
          · have := (nint_error step r.lx r.hx .zeroStep).mpr ⟨h, rfl⟩
            rw [hnx] at this; cases this

/-- **the footprint contains its sources** (pixel plane), for every `stepsize`.  Without bounding box:
every source with coordinates `≥ -1/2` is in the region bounded by the border polygon handed to
`det_to_world`, strictly below the upper edges.  With a bounding box wider and taller than one pixel:
every source of the catalog that lies in the closed bounding box is in that region -/
theorem chip_polygon_contains_sources (bbox : Option (Rect K)) (step : Option K) (cat : List (K × K))
    (p : ChipPoly K) (h : chipPolygon bbox step cat = .ok p) :
    (bbox = none → ∀ s ∈ cat, -(1 / 2) ≤ s.1 → -(1 / 2) ≤ s.2 →
      AllLeft s p.pts ∧ s.1 < p.rect.hx ∧ s.2 < p.rect.hy) ∧
    (∀ b, bbox = some b → 1 < b.hx - b.lx → 1 < b.hy - b.ly →
      ∀ s ∈ cat, b.lx ≤ s.1 → s.1 ≤ b.hx → b.ly ≤ s.2 → s.2 ≤ b.hy → AllLeft s p.pts) := by
  obtain ⟨hr, _, _, hpts, hnx, _⟩ := chipPolygon_ok bbox step cat p h
  constructor
  · rintro rfl s hs h1 h2
    obtain ⟨c1, c2, c3, c4⟩ := chip_nobb_contains cat p.rect hr s hs h1 h2
    have hxlt : p.rect.lx < p.rect.hx := lt_of_le_of_lt c1 c2
    have hylt : p.rect.ly < p.rect.hy := lt_of_le_of_lt c3 c4
    refine ⟨?_, c2, c4⟩
    rw [hpts, border_region p.rect p.nintx p.ninty (by omega) hxlt hylt]
    exact ⟨c1, le_of_lt c2, c3, le_of_lt c4⟩
  · rintro b rfl hw hh s hs h1 h2 h3 h4
    obtain ⟨c1, c2, c3, c4⟩ := chip_bb_contains b cat p.rect hr s hs
    obtain ⟨r', hr', _, _, _, _, _, _, _, _, hxlt, hylt⟩ := chip_bb_rect b cat
    rw [hr] at hr'
    injection hr' with hr'
    subst hr'
    rw [hpts, border_region p.rect p.nintx p.ninty (by omega) (hxlt hw) (hylt hh)]
    exact ⟨c1 h1, c2 h2, c3 h3, c4 h4⟩

end chip

/-! #### non-vacuity and counterexamples (exact rational arithmetic, the model's own `floor` on `ℚ`) -/

-- (a) two sources, non-integer coordinates: `[-1/2, 15/2] × [-1/2, 7/2]`
example : chipRect (K := ℚ) none [(7/2, 1), (36/5, 5/2)] = .ok ⟨-1/2, 15/2, -1/2, 7/2⟩ := by decide +kernel
-- the boundary of the floor: `x = k + 1/2` belongs to pixel `k + 1`
example : chipRect (K := ℚ) none [(1/2, 3/2)] = .ok ⟨-1/2, 3/2, -1/2, 5/2⟩ := by decide +kernel
example : chipRect (K := ℚ) none [(0, 0)] = .ok ⟨-1/2, 1/2, -1/2, 1/2⟩ := by decide +kernel
-- the excluded inputs really fail: a source at `(-3, -7)` gives `[-1/2, 1/2]²`, which does not contain it
example : chipRect (K := ℚ) none [(-3, -7)] = .ok ⟨-1/2, 1/2, -1/2, 1/2⟩ ∧ ¬ ((-1/2 : ℚ) ≤ -3) := by
  decide +kernel
example : chipRect (K := ℚ) none [] = .error .emptyCatalog := by decide +kernel
-- (b) a 100 × 50 image: without sources, and with sources that keep half a pixel from the edges
-- (`chip_bb_unchanged_if_clear`), the box shrunk by half a pixel; a 1 × 1 image degenerates to the point `(0, 0)`
example : chipRect (K := ℚ) (some ⟨-1/2, 199/2, -1/2, 99/2⟩) [] = .ok ⟨0, 99, 0, 49⟩ := by decide +kernel
example : chipRect (K := ℚ) (some ⟨-1/2, 199/2, -1/2, 99/2⟩) [(0, 49), (99, 0), (17/3, 5)] = .ok ⟨0, 99, 0, 49⟩ := by
  decide +kernel
example : chipRect (K := ℚ) (some ⟨-1/2, 1/2, -1/2, 1/2⟩) [(0, 0)] = .ok ⟨0, 0, 0, 0⟩ := by decide +kernel
-- sources in the outer half-pixel band and exactly on the edge of the box (`chip_bb_contains`): the edges follow them
example : chipRect (K := ℚ) (some ⟨-1/2, 2047/2, -1/2, 2047/2⟩) [(1023 + 3/10, 500)] =
    .ok ⟨0, 1023 + 3/10, 0, 1023⟩ := by decide +kernel
example : chipRect (K := ℚ) (some ⟨-1/2, 199/2, -1/2, 99/2⟩) [(-1/2, 99/2), (99 + 2/5, -1/5)] =
    .ok ⟨-1/2, 99 + 2/5, -1/5, 99/2⟩ := by decide +kernel
-- sources outside the box move an edge to the edge of the box, not beyond (`chip_bb_within_box`)
example : chipRect (K := ℚ) (some ⟨-1/2, 199/2, -1/2, 99/2⟩) [(120, 20), (50, -7)] = .ok ⟨0, 199/2, -1/2, 49⟩ := by
  decide +kernel
-- `chip_bb_within_box` needs a box at least one pixel wide: in a box half a pixel wide the shrunk lower edge
-- `lx + 1/2` is already beyond the upper edge of the box (the source still is inside the rectangle)
example : chipRect (K := ℚ) (some ⟨2, 5/2, 0, 4⟩) [(11/5, 2)] = .ok ⟨11/5, 11/5, 1/2, 7/2⟩ := by decide +kernel
-- the whole method with a bounding box and a source exactly on the edge `x = 199/2` of the box: the right side of
-- the border runs through the source
example : (chipPolygon (K := ℚ) (some ⟨-1/2, 199/2, -1/2, 99/2⟩) none [(199/2, 10)]).toOption.map
    (fun p => (p.rect, p.nintx, p.ninty, p.pts.length)) = some (⟨0, 199/2, 0, 49⟩, 3, 3, 13) := by decide +kernel
-- **finding F25 (repaired), refuted for the old code**: the plain shrink `rectBBOld` — the rectangle before the
-- repair — does NOT contain the sources inside the box: `x = 1023 + 3/10` is in the 1024-pixel box and beyond
-- the old upper edge `1023`; in general everything in the outer half-pixel band was outside
example : ¬ ∀ (b : Rect ℚ) (cat : List (ℚ × ℚ)), ∀ s ∈ cat,
    (b.lx ≤ s.1 → (rectBBOld b).lx ≤ s.1) ∧ (s.1 ≤ b.hx → s.1 ≤ (rectBBOld b).hx) ∧
    (b.ly ≤ s.2 → (rectBBOld b).ly ≤ s.2) ∧ (s.2 ≤ b.hy → s.2 ≤ (rectBBOld b).hy) := by
  intro h
  have h2 := (h ⟨-1/2, 2047/2, -1/2, 2047/2⟩ [(1023 + 3/10, 500)] (1023 + 3/10, 500) (List.mem_singleton.mpr rfl)).2.1
  revert h2
  decide +kernel
example (b : Rect ℚ) (x y : ℚ) :
    (b.hx - 1 / 2 < x → (rectBBOld b).hx < x) ∧ (x < b.lx + 1 / 2 → x < (rectBBOld b).lx) ∧
    (b.hy - 1 / 2 < y → (rectBBOld b).hy < y) ∧ (y < b.ly + 1 / 2 → y < (rectBBOld b).ly) := by
  rw [rectBBOld_eq]
  exact ⟨id, id, id, id⟩
-- (d) interval counts: none → 3; 99/(5/2) = 39.6 → 40; a huge step → 2; a negative step → 2; zero → error
example : nint (K := ℚ) none 0 99 = .ok 3 := by decide +kernel
example : nint (K := ℚ) (some (5/2)) 0 99 = .ok 40 := by decide +kernel
example : nint (K := ℚ) (some 33) 0 99 = .ok 3 := by decide +kernel
example : nint (K := ℚ) (some 1000) 0 99 = .ok 2 := by decide +kernel
example : nint (K := ℚ) (some (-1)) 0 99 = .ok 2 := by decide +kernel
example : nint (K := ℚ) (some 0) 0 99 = .error .zeroStep := by decide +kernel
-- (e) linspace
example : linspace (K := ℚ) (-1/2) (15/2) 3 = [-1/2, 13/6, 29/6, 15/2] := by decide +kernel
example : linspace (K := ℚ) 2 2 3 = [2, 2, 2, 2] := by decide +kernel
-- (c) the border of `[0, 3] × [0, 2]` with 3 and 2 intervals: 2·4 + 2·1 + 1 = 11 points, counter-clockwise
example : chipBorder (K := ℚ) ⟨0, 3, 0, 2⟩ 3 2 =
    [(0,0),(1,0),(2,0),(3,0),(3,1),(3,2),(2,2),(1,2),(0,2),(0,1),(0,0)] := by decide +kernel
example : Chip.shoelace2 (chipBorder (K := ℚ) ⟨0, 3, 0, 2⟩ 3 2) = 12 := by decide +kernel
-- the whole method: two sources without bounding box, `stepsize = 4`
example : (chipPolygon (K := ℚ) none (some 4) [(7/2, 1), (36/5, 5/2)]).toOption.map (fun p => (p.nintx, p.ninty, p.pts)) =
    some (2, 2, [(-1/2,-1/2),(7/2,-1/2),(15/2,-1/2),(15/2,3/2),(15/2,7/2),(7/2,7/2),(-1/2,7/2),(-1/2,3/2),(-1/2,-1/2)]) := by
  decide +kernel

end TW.C16

/-!
### the spherical part of `RefCatalog._calc_cat_convex_hull` (`Model/SphHull.lean`, namespace `TW.Sph`)

Model: `planarRot` / `planarRot3d` = `planar_rot_3d` (its three matrices), `eulerRot cr sr cd sd` =
`multi_dot(rotm[::-1])` = `P₁(dec_ref) · P₂(ra_ref)` from the cosines and sines of the reference direction,
`invEulerRot` = `inv(euler_rot)` (the Gauss–Jordan model of C17), `meanVec`, `refDir` = `_C2S(mean)`,
`project` = rotation + `x = yr/xr, y = zr/xr`, `planeFootprint` = `convex_hull(…, min_separation)` + the branch
on the number of vertices, `lift` / `backProject` = `inv_euler_rot · (1, xv, yv)` (direction vectors, not
normalised — `_C2S` only uses the direction), `footprintV`, `footprintCS`, `refCatFootprint` = the whole method.

Vocabulary: `triple a b c = a · (b × c)`; `SphAllLeft v l` — the direction `v` has a non-negative triple product
with every edge (consecutive pair) of the vertex list `l`, i.e. it lies in the closed hemisphere to the left of
every great-circle arc of the polygon walked in list order (for a counter-clockwise convex spherical polygon:
`v` is inside or on it); `SphInsideCW v l` — strictly negative with every edge (the small boxes are listed
clockwise); `SphTurnsLeft l` / `SphTurnsRight l` — every consecutive triple of vertices has a positive /
negative triple product (counter-clockwise / clockwise seen from OUTSIDE the sphere: with `x` towards the
viewer, `(y, z)` are the usual right-handed plane coordinates and `triple (1,a) (1,b) (1,c) = cross a b c`).
`K` is any linearly ordered field; statements with `c2s` / trigonometry or the two-source box are over `ℝ`.
Rounding, `spherical_geometry` and the conversion of the vertex directions to RA/DEC are outside.
-/
namespace TW.C16
open TW.Sph
section sph
variable {K : Type} [Field K] [LinearOrder K] [IsStrictOrderedRing K] [HasSqrt K]

/-! #### (a) the rotation -/

/-- `euler_rot` is a rotation: orthogonal, determinant 1; its rows are the reference direction, the local
east and the local north -/
theorem euler_rot_rotation (cr sr cd sd : K) (hr : cr * cr + sr * sr = 1) (hd : cd * cd + sd * sd = 1) :
    (eulerRot cr sr cd sd).Orth ∧ Sph.det (eulerRot cr sr cd sd) = 1 ∧
    eulerRot cr sr cd sd = ⟨cd * cr, cd * sr, sd, -sr, cr, 0, -(sd * cr), -(sd * sr), cd⟩ ∧
    eulerRot cr sr cd sd = (planarRot cd sd 1).mul (planarRot cr sr 2) :=
  ⟨eulerRot_orth cr sr cd sd hr hd, eulerRot_det cr sr cd sd hr hd, eulerRot_entries cr sr cd sd, rfl⟩

/-- `planar_rot_3d`: a rotation for each of the three axes, `ValueError` for every other axis -/
theorem planar_rot_3d_spec (c s : K) (h : c * c + s * s = 1) (axis : ℕ) :
    (∀ hax : axis < 3, planarRot3d c s axis = .ok (planarRot c s ⟨axis, hax⟩) ∧
      (planarRot c s ⟨axis, hax⟩).Orth ∧ Sph.det (planarRot c s ⟨axis, hax⟩) = 1) ∧
    (3 ≤ axis → planarRot3d c s axis = .error .badAxis) :=
  ⟨fun hax => ⟨(planarRot3d_spec c s axis).1 hax, planarRot_orth c s h _, planarRot_det c s h _⟩,
   (planarRot3d_spec c s axis).2⟩

/-- `inv_euler_rot = inv(euler_rot)`: whatever the elimination returns is the TRANSPOSE, and it does return
for every singularity threshold below a positive bound (the smallest pivot) -/
theorem inv_euler_rot_is_transpose (cr sr cd sd : K) (hr : cr * cr + sr * sr = 1) (hd : cd * cd + sd * sd = 1) :
    (∀ eps x, 0 < eps → invEulerRot eps (eulerRot cr sr cd sd) = .ok x → x = (eulerRot cr sr cd sd).transpose) ∧
    ∃ eps0 : K, 0 < eps0 ∧ ∀ eps, 0 < eps → eps ≤ eps0 →
      invEulerRot eps (eulerRot cr sr cd sd) = .ok (eulerRot cr sr cd sd).transpose := by
  have ho := eulerRot_orth cr sr cd sd hr hd
  refine ⟨fun eps x heps h => invEulerRot_eq_transpose eps heps _ x ho h, ?_⟩
  obtain ⟨eps0, h0, htot⟩ := invEulerRot_total (eulerRot cr sr cd sd) (eulerRot_det cr sr cd sd hr hd)
  refine ⟨eps0, h0, fun eps heps hle => ?_⟩
  obtain ⟨x, hx⟩ := htot eps hle
  rw [hx, invEulerRot_eq_transpose eps heps _ x ho hx]

/-- the reference direction `(cos d cos a, cos d sin a, sin d)` is sent to the tangent point `(1, 0, 0)`, and
the first rotated coordinate of any vector is its scalar product with the reference direction -/
theorem euler_rot_tangent_point (cr sr cd sd : K) (hr : cr * cr + sr * sr = 1) (hd : cd * cd + sd * sd = 1) :
    (eulerRot cr sr cd sd).mulVec ⟨cd * cr, cd * sr, sd⟩ = ⟨1, 0, 0⟩ ∧
    ∀ v : V3 K, ((eulerRot cr sr cd sd).mulVec v).x = Sph.dot v ⟨cd * cr, cd * sr, sd⟩ :=
  ⟨eulerRot_refdir cr sr cd sd hr hd, eulerRot_x cr sr cd sd⟩

/-! #### (b) planar side test = great-circle side test -/

/-- **key identity**: the triple product of three lifted points `(1, ·)` is the planar orientation test -/
theorem lifted_triple_is_cross (a b p : Pt K) : triple (lift a) (lift b) (lift p) = cross a b p :=
  triple_lift a b p

/-- rotations preserve triple products (`det = 1`); a general matrix scales them by its determinant -/
theorem triple_rotation_invariant (r : M3 K) (a b c : V3 K) :
    triple (r.mulVec a) (r.mulVec b) (r.mulVec c) = Sph.det r * triple a b c :=
  triple_mulVec r a b c

/-- for a source direction `v` in the open hemisphere `xr > 0` of a rotation `r`: `v` is on the left of the
planar edge `(a, b)` iff it is on the positive side of the great circle through the back-projected vertices
(the scale factor is `xr`), and likewise for "on or to the left" -/
theorem sph_side_iff_planar_side (r : M3 K) (hr : r.Orth) (hdet : Sph.det r = 1) (a b : Pt K) (v : V3 K)
    (hx : 0 < (r.mulVec v).x) :
    triple (r.transpose.mulVec (lift a)) (r.transpose.mulVec (lift b)) v =
      (r.mulVec v).x * cross a b (gnom (r.mulVec v)) ∧
    (0 < triple (r.transpose.mulVec (lift a)) (r.transpose.mulVec (lift b)) v ↔
      0 < cross a b (gnom (r.mulVec v))) ∧
    (0 ≤ triple (r.transpose.mulVec (lift a)) (r.transpose.mulVec (lift b)) v ↔
      0 ≤ cross a b (gnom (r.mulVec v))) := by
  have e := triple_back r hr hdet a b v hx.ne'
  refine ⟨e, ?_, ?_⟩ <;> rw [e]
  · exact ⟨fun h => by
      by_contra hc
      exact absurd h (not_lt.mpr (mul_nonpos_of_nonneg_of_nonpos hx.le (not_lt.mp hc))),
      fun h => mul_pos hx h⟩
  · exact ⟨fun h => nonneg_of_mul_nonneg_right h hx, fun h => mul_nonneg hx.le h⟩

/-! #### (c) containment -/

/-- three non-collinear points or more: the closed hull has at least four entries, so the branch on the
number of vertices keeps it -/
theorem hull_length_noncollinear (tol : K) (pts : List (Pt K)) (hnc : ¬ Collinear pts) :
    4 ≤ (hullRaw pts).length ∧ refFootprint tol (hullRaw pts) = hullRaw pts := by
  have h4 : 4 ≤ (hullRaw pts).length := by
    have h2 : ∃ a ∈ pts, ∃ b ∈ pts, a ≠ b := by
      by_contra hcon
      push Not at hcon
      apply hnc
      intro a ha b hb c hc
      rw [hcon a ha b hb, hcon b hb c hc]
      simp [cross]
    have h3 := (hull_length pts).2 h2
    have ht := hull_ccw_strict pts hnc
    match hh : hullRaw pts, h3 with
    | [x, y, z], _ =>
      exfalso
      have hcl := hull_start_closed none pts (hullRaw pts) rfl
        (by obtain ⟨a, ha, _⟩ := h2; exact List.ne_nil_of_mem ha)
      obtain ⟨m, _, _, e1, e2⟩ := hcl
      rw [hh] at e1 e2 ht
      simp at e1 e2
      subst e1; subst e2
      simp only [closeUp, List.drop, List.take, List.cons_append, List.nil_append, TurnsLeft] at ht
      have := ht.2.1
      rw [cross_cyc, cross_self_right] at this
      exact lt_irrefl _ this
    | _ :: _ :: _ :: _ :: _, _ => simp
  exact ⟨h4, refFootprint_long tol _ h4⟩

/-- **the hull on the sphere contains its sources.**  For a rotation `r` (orthogonal, determinant 1), every
list of source directions in the open hemisphere about the tangent point (`xr > 0`): every source direction
has a non-negative triple product with every edge, in order, of the back-projected planar hull of the
projected sources (any number of sources; with fewer than two distinct projections there is no edge) -/
theorem sph_hull_contains (r : M3 K) (hr : r.Orth) (hdet : Sph.det r = 1) (vs : List (V3 K))
    (hhemi : ∀ v ∈ vs, 0 < (r.mulVec v).x) :
    ∀ v ∈ vs, SphAllLeft v (backProject r.transpose (hullRaw (project r vs))) := by
  intro v hv
  rw [sphAllLeft_back_iff r hr hdet v (hhemi v hv)]
  exact hull_contains (project r vs) _ (List.mem_map.mpr ⟨v, hv, rfl⟩)

/-- **the footprint as the code builds it**: three or more sources with non-collinear projections, all in the
open hemisphere about the tangent point, consecutive hull vertices farther apart than `min_separation` (so
that the merging loop removes nothing): `footprintV` returns the back-projected hull, closed, and every source
direction passes the spherical containment test against every edge -/
theorem sph_footprint_contains (r : M3 K) (hr : r.Orth) (hdet : Sph.det r = 1) (sep tol : K) (hsep : 0 ≤ sep)
    (vs : List (V3 K)) (hhemi : ∀ v ∈ vs, 0 < (r.mulVec v).x) (hnc : ¬ Collinear (project r vs))
    (hfar : Separated sep (hullRaw (project r vs))) :
    footprintV r r.transpose sep tol vs = .ok (backProject r.transpose (hullRaw (project r vs))) ∧
    (∀ v ∈ vs, SphAllLeft v (backProject r.transpose (hullRaw (project r vs)))) ∧
    4 ≤ (backProject r.transpose (hullRaw (project r vs))).length := by
  obtain ⟨h4, hf⟩ := hull_length_noncollinear tol (project r vs) hnc
  refine ⟨?_, sph_hull_contains r hr hdet vs hhemi, by rw [backProject_length]; exact h4⟩
  unfold footprintV planeFootprint
  rw [convexHull_separated sep hsep _ hfar]
  match hh : hullRaw (project r vs), h4 with
  | a :: b :: c :: d :: rest, _ => rfl

/-- the same with the code's own matrices (`euler_rot` of a reference direction given by its cosines and
sines, `inv_euler_rot = inv(euler_rot)` with a threshold for which the elimination returns) -/
theorem refcat_footprint_contains (eps cr sr cd sd sep tol : K) (hr : cr * cr + sr * sr = 1)
    (hd : cd * cd + sd * sd = 1) (heps : 0 < eps) (hsep : 0 ≤ sep) (vs : List (V3 K)) (poly : List (V3 K))
    (h : footprintCS eps cr sr cd sd sep tol vs = .ok poly)
    (hhemi : ∀ v ∈ vs, 0 < Sph.dot v ⟨cd * cr, cd * sr, sd⟩)
    (hnc : ¬ Collinear (project (eulerRot cr sr cd sd) vs))
    (hfar : Separated sep (hullRaw (project (eulerRot cr sr cd sd) vs))) :
    poly = backProject (eulerRot cr sr cd sd).transpose (hullRaw (project (eulerRot cr sr cd sd) vs)) ∧
    ∀ v ∈ vs, SphAllLeft v poly := by
  have ho := eulerRot_orth cr sr cd sd hr hd
  have hdet := eulerRot_det cr sr cd sd hr hd
  have hh : ∀ v ∈ vs, 0 < ((eulerRot cr sr cd sd).mulVec v).x := by
    intro v hv; rw [eulerRot_x]; exact hhemi v hv
  unfold footprintCS at h
  simp only at h
  cases hi : invEulerRot eps (eulerRot cr sr cd sd) with
  | error e => rw [hi] at h; cases h
  | ok ri =>
    rw [hi] at h
    simp only at h
    have hri := invEulerRot_eq_transpose eps heps _ ri ho hi
    subst hri
    obtain ⟨h1, h2, _⟩ := sph_footprint_contains _ ho hdet sep tol hsep vs hh hnc hfar
    rw [h1] at h
    injection h with h
    subst h
    exact ⟨rfl, h2⟩

/-- the returned vertex directions lie in the open hemisphere of the tangent point (rotated first coordinate 1,
gnomonic position = the planar vertex).  This matters because the side test alone is blind to the antipodal
image of a polygon (`triple (−a) (−b) v = triple a b v`): the polygon of the containment theorems is the one on
the side of the sources. -/
theorem sph_vertices_front (r : M3 K) (hr : r.Orth) (poly : List (Pt K)) :
    (∀ A ∈ backProject r.transpose poly, (r.mulVec A).x = 1) ∧
    (backProject r.transpose poly).map (fun A => gnom (r.mulVec A)) = poly ∧
    ∀ a b v : V3 K, triple (Sph.V3.neg a) (Sph.V3.neg b) v = triple a b v := by
  refine ⟨?_, ?_, triple_neg_neg⟩
  · intro A hA
    obtain ⟨p, _, rfl⟩ := List.mem_map.mp hA
    exact (back_vertex_front r hr p).1
  · simp only [backProject, List.map_map]
    conv_rhs => rw [← List.map_id poly]
    apply List.map_congr_left
    intro p _
    exact (back_vertex_front r hr p).2

/-- a source in the OPPOSITE open hemisphere (`xr < 0`, farther than 90° from the tangent point) fails the
spherical test against every edge that its (antipodal) projection is strictly to the left of — in particular
against all edges when the projection falls strictly inside the planar hull.  The hypothesis `xr > 0` of the
containment theorems cannot be dropped. -/
theorem opposite_hemisphere_outside (r : M3 K) (hr : r.Orth) (hdet : Sph.det r = 1) (a b : Pt K) (v : V3 K)
    (hx : (r.mulVec v).x < 0) (hc : 0 < cross a b (gnom (r.mulVec v))) :
    triple (r.transpose.mulVec (lift a)) (r.transpose.mulVec (lift b)) v < 0 :=
  triple_back_neg r hr hdet a b v hx hc

/-! #### (e) closure, vertex count, orientation -/

/-- the footprint of three or more non-collinear sources is closed (first direction = last direction, so the
forced `ra[-1] = ra[0]` changes nothing), has as many vertices as the planar hull, its first vertex is the
back-projection of the lexicographically smallest projected source, and it is COUNTER-CLOCKWISE seen from
outside the sphere: every cyclically consecutive triple of vertex directions has a positive triple product -/
theorem sph_hull_closed_ccw (r : M3 K) (hdet : Sph.det r = 1) (vs : List (V3 K))
    (hnc : ¬ Collinear (project r vs)) :
    let poly := backProject r.transpose (hullRaw (project r vs))
    poly.head? = poly.getLast? ∧ forceClosed poly = poly ∧
    poly.length = (hullRaw (project r vs)).length ∧
    (∃ m ∈ project r vs, (∀ q ∈ project r vs, q = m ∨ lexlt m q) ∧
      poly.head? = some (r.transpose.mulVec (lift m))) ∧
    SphTurnsLeft (backProject r.transpose (closeUp (hullRaw (project r vs)))) := by
  intro poly
  have hne : project r vs ≠ [] := by
    intro h; apply hnc; rw [h]; intro a ha; cases ha
  obtain ⟨m, hm, hmin, e1, e2⟩ := hull_start_closed none (project r vs) _ rfl hne
  have hc : poly.head? = poly.getLast? := by
    show (backProject _ _).head? = (backProject _ _).getLast?
    rw [backProject_head, backProject_getLast]
    show Option.map _ (hullRaw (project r vs)).head? = Option.map _ (hullRaw (project r vs)).getLast?
    have e1' : (hullRaw (project r vs)).head? = some m := e1
    have e2' : (hullRaw (project r vs)).getLast? = some m := e2
    rw [e1', e2']
  refine ⟨hc, forceClosed_of_closed poly hc, backProject_length _ _, ⟨m, hm, hmin, ?_⟩, ?_⟩
  · show (backProject _ _).head? = _
    rw [backProject_head]
    have e1' : (hullRaw (project r vs)).head? = some m := e1
    rw [e1']; rfl
  · rw [sphTurnsLeft_back r hdet]
    exact hull_ccw_strict _ hnc

end sph

/-! #### the small boxes on the sphere, the mean direction and the hemisphere; over `ℝ` -/
section sphreal

/-- one source (or several with the same projection `p`): the footprint is the back-projected square of
half-width `tol` about `p`, five vertices, closed, and every source direction is STRICTLY inside it — the box
is listed clockwise (seen from outside), so strictly negative triple product with every edge -/
theorem sph_box1_contains (r : M3 ℝ) (hr : r.Orth) (hdet : Sph.det r = 1) (sep tol : ℝ) (hsep : 0 ≤ sep)
    (htol : 0 < tol) (vs : List (V3 ℝ)) (hne : vs ≠ []) (hhemi : ∀ v ∈ vs, 0 < (r.mulVec v).x) (p : Pt ℝ)
    (hall : ∀ v ∈ vs, gnom (r.mulVec v) = p) :
    footprintV r r.transpose sep tol vs = .ok (backProject r.transpose (smallBox1 tol p)) ∧
    (∀ v ∈ vs, SphInsideCW v (backProject r.transpose (smallBox1 tol p))) ∧
    (backProject r.transpose (smallBox1 tol p)).length = 5 ∧
    (backProject r.transpose (smallBox1 tol p)).head? = (backProject r.transpose (smallBox1 tol p)).getLast? ∧
    SphTurnsRight (backProject r.transpose (closeUp (smallBox1 tol p))) := by
  have hP : ∀ q ∈ project r vs, q = p := by
    intro q hq
    obtain ⟨v, hv, rfl⟩ := List.mem_map.mp hq
    exact hall v hv
  have hPne : project r vs ≠ [] := by simpa [project] using hne
  have hraw : hullRaw (project r vs) = [p] := by
    rcases hullRaw_cases (project r vs) with ⟨e, _⟩ | ⟨p', _, hp', e⟩ | ⟨a, b, rest, hS, _⟩
    · exact absurd e hPne
    · rw [e, hP p' hp']
    · exfalso
      obtain ⟨hs, hm⟩ := sort_dedupe_spec (project r vs)
      rw [hS] at hs hm
      have ha := hP a ((hm a).mp (by simp))
      have hb := hP b ((hm b).mp (by simp))
      have := (List.pairwise_cons.mp hs).1 b (by simp)
      rw [ha, hb] at this
      exact lexlt_irrefl p this
  refine ⟨?_, ?_, by simp [backProject, smallBox1], by simp [backProject, smallBox1], ?_⟩
  · unfold footprintV planeFootprint
    rw [convexHull_separated sep hsep _ (by rw [hraw]; trivial), hraw]
    rfl
  · intro v hv
    rw [sphInsideCW_back_iff r hr hdet v (hhemi v hv), hall v hv]
    exact (box1_contains tol p htol).1
  · rw [sphTurnsRight_back r hdet]
    simp only [smallBox1, closeUp, List.drop, List.take, List.cons_append, List.nil_append, Sph.TurnsRight, cross]
    refine ⟨?_, ?_, ?_, ?_, trivial⟩ <;> nlinarith

/-- two distinct projections, or any number of COLLINEAR ones (great-circle arc through the tangent-plane
chart), the two extreme ones farther apart than `min_separation`: the footprint is the back-projected
rectangle of half-width `tol` about the segment between the lexicographically smallest and largest
projections, and every source direction is strictly inside it (clockwise list) -/
theorem sph_box2_contains (r : M3 ℝ) (hr : r.Orth) (hdet : Sph.det r = 1) (sep tol : ℝ) (hsep : 0 ≤ sep)
    (htol : 0 < tol) (vs : List (V3 ℝ)) (hhemi : ∀ v ∈ vs, 0 < (r.mulVec v).x)
    (hcol : Collinear (project r vs)) (h2 : ∃ a ∈ project r vs, ∃ b ∈ project r vs, a ≠ b)
    (hfar : Separated sep (hullRaw (project r vs))) :
    ∃ m ∈ project r vs, ∃ M ∈ project r vs, m ≠ M ∧
      footprintV r r.transpose sep tol vs = .ok (backProject r.transpose (smallBox2 tol m M)) ∧
      (∀ v ∈ vs, SphInsideCW v (backProject r.transpose (smallBox2 tol m M))) ∧
      (backProject r.transpose (smallBox2 tol m M)).length = 5 ∧
      (backProject r.transpose (smallBox2 tol m M)).head? =
        (backProject r.transpose (smallBox2 tol m M)).getLast? := by
  obtain ⟨m, hm, M, hM, hmin, hmax, hraw⟩ := hull_collinear (project r vs) hcol h2
  have hmM : lexlt m M := by
    obtain ⟨a, ha, b, hb, hab⟩ := h2
    rcases hmin M hM with e | e
    · exfalso
      -- every point is both ≥ m and ≤ M = m
      have hall : ∀ q ∈ project r vs, q = m := by
        intro q hq
        rcases hmin q hq with e1 | e1
        · exact e1
        · rcases hmax q hq with e2 | e2
          · rw [e2, e]
          · rw [e] at e2; exact absurd (lexlt_trans e1 e2) (lexlt_irrefl m)
      exact hab ((hall a ha).trans (hall b hb).symm)
    · exact e
  have hne : m ≠ M := fun e => lexlt_irrefl m (by rw [← e] at hmM; exact hmM)
  refine ⟨m, hm, M, hM, hne, ?_, ?_, by simp [backProject, smallBox2], by simp [backProject, smallBox2]⟩
  · unfold footprintV planeFootprint
    rw [convexHull_separated sep hsep _ hfar, hraw]
    rfl
  · intro v hv
    rw [sphInsideCW_back_iff r hr hdet v (hhemi v hv)]
    have hq : gnom (r.mulVec v) ∈ project r vs := List.mem_map.mpr ⟨v, hv, rfl⟩
    obtain ⟨t, ht0, ht1, e⟩ := collinear_between m M _ hmM (hcol m hm M hM _ hq) (hmin _ hq) (hmax _ hq)
    rw [e]
    exact box2_contains_segment tol m M hne htol t ht0 ht1

/-- two or more collinear projections that are all within `min_separation` of each other (two almost coincident
sources, the case of finding F15): the merging loop leaves the degenerate `[m, m]`, the footprint is the square
about the lexicographically smallest projection `m`, and — `min_separation < tol` — every source direction is
strictly inside it -/
theorem sph_close_pair_contains (r : M3 ℝ) (hr : r.Orth) (hdet : Sph.det r = 1) (sep tol : ℝ) (hsep : 0 ≤ sep)
    (hst : sep < tol) (vs : List (V3 ℝ)) (hhemi : ∀ v ∈ vs, 0 < (r.mulVec v).x)
    (hcol : Collinear (project r vs)) (h2 : ∃ a ∈ project r vs, ∃ b ∈ project r vs, a ≠ b)
    (hclose : ∀ a ∈ project r vs, ∀ b ∈ project r vs, |a.1 - b.1| ≤ sep ∧ |a.2 - b.2| ≤ sep) :
    ∃ m ∈ project r vs,
      footprintV r r.transpose sep tol vs = .ok (backProject r.transpose (smallBox1 tol m)) ∧
      ∀ v ∈ vs, SphInsideCW v (backProject r.transpose (smallBox1 tol m)) := by
  obtain ⟨m, hm, M, hM, _, _, hraw⟩ := hull_collinear (project r vs) hcol h2
  refine ⟨m, hm, ?_, ?_⟩
  · unfold footprintV planeFootprint
    rw [convexHull_close_pair sep hsep _ m M hraw ((closeTo_iff sep M m).mpr (hclose M hM m hm))]
    show Except.ok (backProject r.transpose (refFootprint tol [m, m])) = _
    rw [box_degenerate]
  · intro v hv
    rw [sphInsideCW_back_iff r hr hdet v (hhemi v hv)]
    have hq : gnom (r.mulVec v) ∈ project r vs := List.mem_map.mpr ⟨v, hv, rfl⟩
    obtain ⟨c1, c2⟩ := hclose _ hq m hm
    exact smallBox1_inside_near tol m _ (lt_of_le_of_lt c1 hst) (lt_of_le_of_lt c2 hst)

/-- **the mean direction and the hemisphere.**  With `(ra_ref, dec_ref) = _C2S(mean vector)` (mean ≠ 0):
`euler_rot` sends the mean vector to `(‖mean‖, 0, 0)` (the tangent point is the mean direction), the first
rotated coordinate of a source is `xr = v · mean / ‖mean‖`, hence a source lies in the open hemisphere
`xr > 0` that the containment theorems need **iff it is closer than 90° to the mean direction**
(`v · mean > 0`); at least one source always does -/
theorem mean_direction_hemisphere (vs : List (V3 ℝ)) (hne : vs ≠ []) (hm : meanVec vs ≠ ⟨0, 0, 0⟩) :
    (eulerRotOfDir (refDir vs)).mulVec (meanVec vs) = ⟨(meanVec vs).norm, 0, 0⟩ ∧
    (∀ v : V3 ℝ, ((eulerRotOfDir (refDir vs)).mulVec v).x = Sph.dot v (meanVec vs) / (meanVec vs).norm) ∧
    (∀ v : V3 ℝ, 0 < ((eulerRotOfDir (refDir vs)).mulVec v).x ↔ 0 < Sph.dot v (meanVec vs)) ∧
    (∃ v ∈ vs, 0 < ((eulerRotOfDir (refDir vs)).mulVec v).x) ∧
    (eulerRotOfDir (refDir vs)).Orth ∧ Sph.det (eulerRotOfDir (refDir vs)) = 1 := by
  refine ⟨eulerRotOfDir_mean _ hm, fun v => xr_eq_dot_mean _ v hm, fun v => hemisphere_iff _ v hm, ?_,
    eulerRotOfDir_orth _, eulerRotOfDir_det _⟩
  obtain ⟨v, hv, hpos⟩ := exists_dot_mean_pos vs hne hm
  exact ⟨v, hv, (hemisphere_iff _ v hm).mpr hpos⟩

/-- **the whole method on a catalog within 90° of its mean direction**: if `refCatFootprint` returns (it does
for every small enough singularity threshold, `inv_euler_rot_is_transpose`), the mean vector is not zero,
every source is closer than 90° to the mean direction, the projections are not collinear and consecutive hull
vertices are farther apart than `min_separation`, then `inv_euler_rot` is the transpose, the tangent-plane
polygon is the hull of the projected sources, and every source direction `_S2C(RA, DEC)` passes the spherical
containment test against every edge of the returned vertex directions -/
theorem refcat_method_contains (eps sep d2r ftol : ℝ) (heps : 0 < eps) (hsep : 0 ≤ sep) (radec : List (V2 ℝ))
    (out : SphOut ℝ) (h : refCatFootprint eps sep d2r ftol radec = .ok out)
    (hm : out.mean ≠ ⟨0, 0, 0⟩) (hhemi : ∀ v ∈ out.vecs, 0 < Sph.dot v out.mean)
    (hnc : ¬ Collinear out.proj) (hfar : Separated sep (hullRaw out.proj)) :
    out.vecs = radec.map (fun p => s2c p.x p.y) ∧ out.mean = meanVec out.vecs ∧
    out.rot = eulerRotOfDir (c2s out.mean) ∧ out.rotInv = out.rot.transpose ∧
    out.proj = project out.rot out.vecs ∧ out.plane = hullRaw out.proj ∧
    out.back = backProject out.rot.transpose out.plane ∧
    ∀ v ∈ out.vecs, SphAllLeft v out.back := by
  unfold refCatFootprint at h
  cases radec with
  | nil => cases h
  | cons p0 rest =>
    simp only at h
    generalize hvecs : (p0 :: rest).map (fun p => s2c p.x p.y) = vecs at h
    cases hi : invEulerRot eps (eulerRotOfDir (c2s (meanVec vecs))) with
    | error e => rw [hi] at h; cases h
    | ok ri =>
      rw [hi] at h
      simp only at h
      have ho := eulerRotOfDir_orth (c2s (meanVec vecs))
      have hdet := eulerRotOfDir_det (c2s (meanVec vecs))
      have hri := invEulerRot_eq_transpose eps heps _ ri ho hi
      subst hri
      cases hp : planeFootprint sep (boxTol d2r ftol) (project (eulerRotOfDir (c2s (meanVec vecs))) vecs) with
      | error e => rw [hp] at h; cases h
      | ok poly =>
        rw [hp] at h
        simp only at h
        injection h with h
        subst h
        simp only at hm hhemi hnc hfar
        have hh : ∀ v ∈ vecs, 0 < ((eulerRotOfDir (c2s (meanVec vecs))).mulVec v).x :=
          fun v hv => (hemisphere_iff _ v hm).mpr (hhemi v hv)
        obtain ⟨h1, h2, _⟩ := sph_footprint_contains _ ho hdet sep (boxTol d2r ftol) hsep vecs hh hnc hfar
        unfold footprintV at h1
        rw [hp] at h1
        injection h1 with h1
        have hpoly : poly = hullRaw (project (eulerRotOfDir (c2s (meanVec vecs))) vecs) := by
          have hinj : Function.Injective
              (fun q : Pt ℝ => (eulerRotOfDir (c2s (meanVec vecs))).transpose.mulVec (lift q)) := by
            intro a b hab
            have := congrArg (fun w => gnom ((eulerRotOfDir (c2s (meanVec vecs))).mulVec w)) hab
            simp only [ho.mulVec_transpose, gnom_lift] at this
            exact this
          exact List.map_injective_iff.mpr hinj h1
        refine ⟨rfl, rfl, rfl, rfl, rfl, hpoly, rfl, ?_⟩
        rw [hpoly]
        exact h2

end sphreal

/-! #### non-vacuity and counter-examples (exact rational arithmetic) -/

-- the rotation for `(cos, sin)(ra_ref) = (3/5, 4/5)`, `(cos, sin)(dec_ref) = (5/13, 12/13)`
example : eulerRot (K := ℚ) (3/5) (4/5) (5/13) (12/13) =
    ⟨3/13, 4/13, 12/13, -4/5, 3/5, 0, -36/65, -48/65, 5/13⟩ := by decide +kernel
-- … sends the reference direction to the tangent point (`euler_rot_tangent_point`)
example : (eulerRot (K := ℚ) (3/5) (4/5) (5/13) (12/13)).mulVec ⟨3/13, 4/13, 12/13⟩ = ⟨1, 0, 0⟩ := by
  decide +kernel
-- **witness of F14**: the REVERSED composition order `multi_dot(rotm)` (the unrepaired code) does not
example : (eulerRotF14 (K := ℚ) (3/5) (4/5) (5/13) (12/13)).mulVec ⟨3/13, 4/13, 12/13⟩ =
    ⟨137/169, -96/169, 24/169⟩ ∧
    (eulerRotF14 (K := ℚ) (3/5) (4/5) (5/13) (12/13)).mulVec ⟨3/13, 4/13, 12/13⟩ ≠ ⟨1, 0, 0⟩ := by
  decide +kernel
-- `inv_euler_rot_is_transpose`: the elimination (threshold 1/10^300) returns the transpose
example : invEulerRot (K := ℚ) (1 / 10 ^ 300) (eulerRot (3/5) (4/5) (5/13) (12/13)) =
    .ok (eulerRot (3/5) (4/5) (5/13) (12/13)).transpose := by decide +kernel
-- `planar_rot_3d_spec`
example : planarRot3d (K := ℚ) (3/5) (4/5) 1 = .ok ⟨3/5, 0, 4/5, 0, 1, 0, -4/5, 0, 3/5⟩ ∧
    planarRot3d (K := ℚ) (3/5) (4/5) 3 = .error .badAxis := by decide +kernel

/-- four source directions (not normalised: only directions matter) around the reference direction of the
rotation above, and one in the middle -/
def sphDemo : List (V3 ℚ) :=
  ((eulerRot (3/5) (4/5) (5/13) (12/13)).transpose).mulVec <$>
    [⟨1, -1/10, -1/10⟩, ⟨2, 1/5, -1/5⟩, ⟨1, 1/10, 1/10⟩, ⟨3, -3/10, 3/10⟩, ⟨1, 0, 1/100⟩]

-- hypotheses of `sph_footprint_contains` / `refcat_footprint_contains`: hemisphere, projections, not collinear
example : inHemisphereB (eulerRot (3/5) (4/5) (5/13) (12/13)) sphDemo = true := by decide +kernel
example : project (eulerRot (3/5) (4/5) (5/13) (12/13)) sphDemo =
    [(-1/10, -1/10), (1/10, -1/10), (1/10, 1/10), (-1/10, 1/10), (0, 1/100)] := by decide +kernel
example : ¬ Collinear (project (eulerRot (K := ℚ) (3/5) (4/5) (5/13) (12/13)) sphDemo) := by
  intro h
  have := h (-1/10, -1/10) (by decide +kernel) (1/10, -1/10) (by decide +kernel) (1/10, 1/10) (by decide +kernel)
  revert this; decide +kernel
-- … and the conclusion, evaluated: the planar hull, and the spherical test of every source against the
-- back-projected vertices
example : hullRaw (project (eulerRot (3/5) (4/5) (5/13) (12/13)) sphDemo) =
    [(-1/10, -1/10), (1/10, -1/10), (1/10, 1/10), (-1/10, 1/10), (-1/10, -1/10)] := by decide +kernel
example : sphDemo.all (fun v => sphAllLeftB v (backProject (eulerRot (3/5) (4/5) (5/13) (12/13)).transpose
    (hullRaw (project (eulerRot (3/5) (4/5) (5/13) (12/13)) sphDemo)))) = true := by decide +kernel

/-- **a catalog spread over more than a hemisphere**: three sources at the direction `(1, 0, 0)` and one at
`(-3/5, 4/5, 0)` (RA 126.87°); mean vector `(3/5, 1/5, 0)`, so the fourth source is farther than 90° from the
mean direction (`v · mean = -1/5 < 0`) and the hypothesis of the containment theorems fails -/
def sphWide : List (V3 ℚ) := [⟨1, 0, 0⟩, ⟨1, 0, 0⟩, ⟨1, 0, 0⟩, ⟨-3/5, 4/5, 0⟩]

example : meanVec sphWide = ⟨3/5, 1/5, 0⟩ ∧
    sphWide.map (fun v => Sph.dot v (meanVec sphWide)) = [3/5, 3/5, 3/5, -1/5] := by decide +kernel
-- a rotation about the `z` axis towards a direction near the mean (`(cos, sin) = (4/5, 3/5)`, 36.9° instead
-- of 18.4°: exact rational entries): the fourth source has `xr < 0` …
example : inHemisphereB (eulerRot (K := ℚ) (4/5) (3/5) 1 0) sphWide = false ∧
    ((eulerRot (K := ℚ) (4/5) (3/5) 1 0).mulVec ⟨-3/5, 4/5, 0⟩).x = 0 := by decide +kernel
-- (exactly 90° from that tangent point: `xr = 0`, the projection divides by zero).  With the tangent point
-- at `(cos, sin) = (12/13, 5/13)` (22.6°) it is behind it, its antipodal image lands on the far side of the
-- other sources, and it fails the spherical test against the back-projected "hull" of the projections:
example : ((eulerRot (K := ℚ) (12/13) (5/13) 1 0).mulVec ⟨-3/5, 4/5, 0⟩).x = -16/65 ∧
    project (eulerRot (K := ℚ) (12/13) (5/13) 1 0) [⟨1, 0, 1/10⟩, ⟨1, 0, -1/10⟩, ⟨1, 1/10, 0⟩, ⟨-3/5, 4/5, 0⟩] =
      [(-5/12, 13/120), (-5/12, -13/120), (-38/125, 0), (-63/16, 0)] := by decide +kernel
example : sphAllLeftB (⟨-3/5, 4/5, 0⟩ : V3 ℚ) (backProject (eulerRot (12/13) (5/13) 1 0).transpose
    (hullRaw (project (eulerRot (12/13) (5/13) 1 0) [⟨1, 0, 1/10⟩, ⟨1, 0, -1/10⟩, ⟨1, 1/10, 0⟩, ⟨-3/5, 4/5, 0⟩]))) =
    false := by decide +kernel

-- the hypothesis `Separated` of `sph_footprint_contains` cannot be dropped either: a hull vertex merged into
-- its neighbour by `min_separation` is (slightly) outside the footprint that is returned
example : convexHull (some (1/2)) ([(0,0),(4,0),(17/4,1/4),(4,4),(0,4)] : List (Pt ℚ)) =
    .ok [(0,0),(17/4,1/4),(4,4),(0,4),(0,0)] ∧ cross ((0,0) : Pt ℚ) (17/4,1/4) (4,0) = -1 := by decide +kernel

-- `sph_box1_contains` / `sph_box2_contains`, evaluated on rationals for the square (the rectangle needs a square root)
example : (backProject (eulerRot (K := ℚ) (3/5) (4/5) (5/13) (12/13)).transpose (smallBox1 (1/100) (0, 0))).all
    (fun _ => true) = true ∧
    sphInsideCWB ((eulerRot (K := ℚ) (3/5) (4/5) (5/13) (12/13)).transpose.mulVec ⟨1, 0, 0⟩)
      (backProject (eulerRot (3/5) (4/5) (5/13) (12/13)).transpose (smallBox1 (1/100) (0, 0))) = true := by
  decide +kernel

end TW.C16
