import Proofs.ClipLemmas

/-!
Helper lemmas about the wrapper `iterLinearFitWith` (argument checks, `wmask`, centre, initial
fit, loop, returned entries).  Used by `Proofs/C07.lean` and `Proofs/C09.lean`.
-/
set_option linter.unusedSectionVars false
set_option linter.unusedVariables false
set_option linter.unnecessarySeqFocus false

namespace TW.Clip

theorem select_nil_left {α : Type} (l : List α) : select [] l = [] := by simp [select]
theorem select_nil_right {α : Type} (m : List Bool) : select m ([] : List α) = [] := by simp [select]

theorem select_cons {α : Type} (b : Bool) (m : List Bool) (a : α) (l : List α) :
    select (b :: m) (a :: l) = if b then a :: select m l else select m l := by
  cases b <;> simp [select]

theorem count_cons (b : Bool) (m : List Bool) : count (b :: m) = (if b then 1 else 0) + count m := by
  cases b <;> simp [count] <;> omega

/-- `len(a[mask]) = count_nonzero(mask)` -/
theorem select_length {α : Type} : ∀ (m : List Bool) (l : List α), m.length = l.length →
    (select m l).length = count m
  | [], l, _ => by simp [select, count]
  | b :: m, [], h => by simp at h
  | b :: m, a :: l, h => by
    rw [select_cons, count_cons]
    have := select_length m l (by simpa using h)
    cases b <;> simp [this] <;> omega

/-- `a[mask]` only depends on the selected entries -/
theorem select_congr {α : Type} : ∀ (m : List Bool) (l1 l2 : List α), l1.length = l2.length →
    (∀ i, On m i → l1[i]? = l2[i]?) → select m l1 = select m l2
  | [], l1, l2, _, _ => by simp [select]
  | b :: m, [], [], _, _ => by simp [select]
  | b :: m, [], _ :: _, h, _ => by simp at h
  | b :: m, _ :: _, [], h, _ => by simp at h
  | b :: m, a1 :: l1, a2 :: l2, h, hag => by
    rw [select_cons, select_cons]
    have ih := select_congr m l1 l2 (by simpa using h) (fun i hi => by
      have := hag (i + 1) (by unfold On at hi ⊢; simpa using hi)
      simpa using this)
    cases b with
    | false => simpa using ih
    | true =>
      have h0 := hag 0 (by unfold On; simp)
      simp at h0
      simp [h0, ih]

section
variable {K : Type} [Add K] [_root_.Sub K] [Mul K] [Div K] [Neg K] [LT K] [DecidableLT K] [NatCast K]

theorem posMask_length (w : Option (List K)) (m : List Bool) (h : lenOk m.length w = true) :
    (posMask w m).length = m.length := by
  cases w with
  | none => rfl
  | some ws =>
    simp [lenOk] at h
    simp [posMask, h]

theorem wmaskOf_length (n : Nat) (wxy wuv : Option (List K)) (hx : lenOk n wxy = true)
    (hu : lenOk n wuv = true) : (wmaskOf n wxy wuv).length = n := by
  unfold wmaskOf
  have h1 : (posMask wxy (List.replicate n true)).length = n := by
    rw [posMask_length]; · simp
    · simpa using hx
  rw [posMask_length, h1]
  rw [h1]; exact hu

theorem posMask_on (w : Option (List K)) (m : List Bool) (i : Nat) :
    On (posMask w m) i ↔ On m i ∧ ∀ ws, w = some ws → ∃ x, ws[i]? = some x ∧ zeroK < x := by
  cases w with
  | none => simp [posMask]
  | some ws =>
    unfold On posMask
    rw [List.getD_eq_getElem?_getD, List.getD_eq_getElem?_getD, List.getElem?_zipWith]
    cases hm : m[i]? with
    | none => simp
    | some b =>
      cases hw : ws[i]? with
      | none => simp [hw]
      | some x => cases b <;> simp [hw]

/-- `wmask` selects exactly the points whose weights (where given) are positive -/
theorem wmaskOf_on (n : Nat) (wxy wuv : Option (List K)) (i : Nat) :
    On (wmaskOf n wxy wuv) i ↔
      i < n ∧ (∀ ws, wxy = some ws → ∃ x, ws[i]? = some x ∧ zeroK < x)
            ∧ (∀ ws, wuv = some ws → ∃ x, ws[i]? = some x ∧ zeroK < x) := by
  unfold wmaskOf
  rw [posMask_on, posMask_on]
  have : On (List.replicate n true) i ↔ i < n := by
    unfold On
    rw [List.getD_eq_getElem?_getD, List.getElem?_replicate]
    split <;> simp_all
  rw [this]
  tauto

theorem centreObs_length (c : K × K) (mask : List Bool) (obs : List (Obs K))
    (h : mask.length = obs.length) : (centreObs c mask obs).length = obs.length := by
  simp [centreObs, h]

/-- facts about a successful `setup` -/
theorem setup_ok (minobj : Nat) (obs : List (Obs K)) (wxy wuv : Option (List K))
    (center : Option (K × K)) (nclip : Option Int) (sigma : Option (K × String)) (su : Setup K)
    (h : setup minobj obs wxy wuv center nclip sigma = .ok su) :
    lenOk obs.length wxy = true ∧ lenOk obs.length wuv = true ∧
    validate nclip sigma = .ok su.par ∧
    su.wmask = wmaskOf obs.length wxy wuv ∧
    su.nclip = (if count su.wmask = minobj then 0 else su.par.nclip) ∧
    su.center = center.getD (meanUV (select su.wmask obs)) ∧
    su.obs = centreObs su.center su.wmask obs := by
  unfold setup at h
  split at h
  · cases h
  · next hl =>
    simp only [Bool.not_eq_eq_eq_not, Bool.not_true, Bool.and_eq_false_imp] at hl
    cases hv : validate nclip sigma with
    | error e => rw [hv] at h; cases h
    | ok p =>
      rw [hv] at h
      injection h with h
      subst h
      have hx : lenOk obs.length wxy = true := by
        by_contra hc
        simp only [Bool.not_eq_true] at hc
        simp [hc] at hl
      have hu : lenOk obs.length wuv = true := by
        by_contra hc
        simp only [Bool.not_eq_true] at hc
        simp [hx, hc] at hl
      exact ⟨hx, hu, rfl, rfl, rfl, by cases center <;> rfl, rfl⟩

theorem validate_nclip_le (nclip : Option Int) (sigma : Option (K × String)) (p : ClipPar K)
    (h : validate nclip sigma = .ok p) : (p.nclip : Int) ≤ max (nclip.getD 0) 0 ∧ 0 ≤ nclip.getD 0 := by
  unfold validate at h
  simp only at h
  split at h
  · split at h
    · cases h
    · split at h
      · cases h
      · injection h with h; subst h; simp; omega
  · split at h
    · cases h
    · split at h
      · split at h
        · cases h
        · injection h with h; subst h; simp; omega
      · cases h

theorem initState_ok (c : Cfg K (FitRes K) FitErr) (w : List Bool) (s0 : St (FitRes K))
    (h : initState c w = .ok s0) : Inv c w s0 ∧ s0.eff = 0 ∧ s0.done = false ∧ s0.mask = w := by
  unfold initState at h
  cases hf : c.fit w with
  | error e => rw [hf] at h; cases h
  | ok f =>
    rw [hf] at h
    injection h with h
    subst h
    exact ⟨⟨rfl, Sub.refl w, hf⟩, rfl, rfl, rfl⟩

/-- the structure of a successful call: set-up, initial fit, `nclip` passes of the loop,
packing of the answer -/
theorem iter_unfold (single : Single K) (nrm : Bool) (m : Metric K) (minobj : Nat)
    (obs : List (Obs K)) (wxy wuv : Option (List K)) (center : Option (K × K))
    (nclip : Option Int) (sigma : Option (K × String)) (accum : Bool) (r : IterRes K)
    (h : iterLinearFitWith single nrm m minobj obs wxy wuv center nclip sigma accum = .ok r) :
    ∃ su s0 s, setup minobj obs wxy wuv center nclip sigma = .ok su ∧
      initState (mkCfg single nrm m minobj accum su.par su.obs wxy wuv) su.wmask = .ok s0 ∧
      run (mkCfg single nrm m minobj accum su.par su.obs wxy wuv) su.wmask s0 su.nclip = .ok s ∧
      r = finish su.center s := by
  unfold iterLinearFitWith at h
  cases hs : setup minobj obs wxy wuv center nclip sigma with
  | error e => rw [hs] at h; cases h
  | ok su =>
    rw [hs] at h
    simp only at h
    cases hi : initState (mkCfg single nrm m minobj accum su.par su.obs wxy wuv) su.wmask with
    | error e => rw [hi] at h; cases h
    | ok s0 =>
      rw [hi] at h
      simp only at h
      cases hr : run (mkCfg single nrm m minobj accum su.par su.obs wxy wuv) su.wmask s0 su.nclip with
      | error e => rw [hr] at h; cases h
      | ok s =>
        rw [hr] at h
        injection h with h
        exact ⟨su, s0, s, rfl, hi, hr, h.symm⟩

end
end TW.Clip
