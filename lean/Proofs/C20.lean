import Proofs.GCorrLemmas
import Proofs.FCorrLemmas
import Proofs.Basic
import Proofs.C03
import Mathlib.Analysis.SpecialFunctions.Pow.Real

/-!
# C20 — tangent-plane pixel scale equals the local scale of the detector → plane map

`tanp_pixel_scale(x, y)` is the square root of the shoelace area of the images of the corners of
the unit pixel.  For every map whose Taylor expansion about `(x, y)` has arbitrary linear AND
quadratic terms (affine maps; SIP distortion to second order) that area is exactly `|det J(x,y)|`.
Property theorems only.
-/
open TW
set_option linter.unusedSectionVars false

namespace TW.C20
variable {K : Type} [Field K] [LinearOrder K] [IsStrictOrderedRing K]

/-- a map with value `(f0, g0)`, Jacobian `[[a, b], [c, d]]` and arbitrary quadratic terms at `(x0, y0)` -/
def qmap (x0 y0 f0 g0 a b c d p1 p2 p3 q1 q2 q3 : K) (p : V2 K) : V2 K :=
  ⟨f0 + a * (p.x - x0) + b * (p.y - y0) + p1 * (p.x - x0) ^ 2 + p2 * (p.x - x0) * (p.y - y0)
      + p3 * (p.y - y0) ^ 2,
   g0 + c * (p.x - x0) + d * (p.y - y0) + q1 * (p.x - x0) ^ 2 + q2 * (p.x - x0) * (p.y - y0)
      + q3 * (p.y - y0) ^ 2⟩

/-- the shoelace sum of the code (before `0.5 * abs`) is `−2 det J`, whatever the quadratic terms -/
theorem shoelace_is_det (x0 y0 f0 g0 a b c d p1 p2 p3 q1 q2 q3 : K) :
    shoelace2 (qmap x0 y0 f0 g0 a b c d p1 p2 p3 q1 q2 q3) x0 y0 = -(2 * (a * d - b * c)) := by
  simp only [shoelace2, shoelacePts, qmap, halfK_eq]
  ring

/-- hence the area of the projected unit pixel is `|det J|` -/
theorem pixel_area_is_abs_det (x0 y0 f0 g0 a b c d p1 p2 p3 q1 q2 q3 : K) :
    halfK * absK (shoelace2 (qmap x0 y0 f0 g0 a b c d p1 p2 p3 q1 q2 q3) x0 y0) = |a * d - b * c| := by
  rw [shoelace_is_det, absK_eq, abs_neg, abs_mul, halfK_eq, abs_of_pos (two_pos : (0 : K) < 2)]
  ring

/-- `tanp_pixel_scale = sqrt |det J|` (over ℝ) -/
theorem pixel_scale_is_sqrt_abs_det (x0 y0 f0 g0 a b c d p1 p2 p3 q1 q2 q3 : ℝ) :
    tanpPixelScale (qmap x0 y0 f0 g0 a b c d p1 p2 p3 q1 q2 q3) x0 y0 = Real.sqrt |a * d - b * c| := by
  unfold tanpPixelScale
  rw [pixel_area_is_abs_det]
  rfl

/-- composing the detector → plane map with an affine map multiplies the shoelace sum by its
determinant -/
theorem shoelace_affine_comp (f : Aff K) (h : V2 K → V2 K) (x y : K) :
    shoelace2 (fun p => f.app (h p)) x y = f.m.det * shoelace2 h x y := by
  simp only [shoelace2, shoelacePts, Aff.app, M2.mulVec, V2.add, M2.det]
  ring

/-- gWCS: the scale follows a correction that rescales the plane: it is multiplied by `√|det M|` -/
theorem gwcs_follows_rescaling (env : GEnv ℝ) (h : env.Bij) (g : GCorr ℝ) (hg : g.WF) (f : Aff ℝ)
    (hf : f.m.det ≠ 0) (x y : ℝ) :
    tanpPixelScale ((g.setCorrection env.c f none).detToTanp env) x y
      = Real.sqrt |f.m.det| * tanpPixelScale (g.detToTanp env) x y := by
  have hfun : (g.setCorrection env.c f none).detToTanp env = fun p => f.app (g.detToTanp env p) := by
    funext p
    rw [GCorr.detToTanp_chart, g.setCorrection_A env h, g.detToTanp_chart]
    simp only [effCorr, Aff.app_comp]
  unfold tanpPixelScale
  rw [hfun, shoelace_affine_comp, absK_eq, absK_eq, abs_mul]
  show Real.sqrt _ = Real.sqrt _ * Real.sqrt _
  rw [← Real.sqrt_mul (abs_nonneg _)]
  congr 1
  ring

/-- FITS: the tangent plane is the detector's (`det_to_tanp = pix2foc`), so the scale does not
depend on the correction history -/
theorem fits_scale_unchanged (f : FCorr ℝ) (δ : V2 ℝ → V2 ℝ) (ops : List (FOp ℝ)) (x y : ℝ) :
    tanpPixelScale ((f.run ops).detToTanp δ) x y = tanpPixelScale (f.detToTanp δ) x y := rfl

/-- FITS: the centre scale is evaluated at `crpix − 1`, the pixel that maps onto `crval`
(the tangent point), in every state -/
theorem fits_centre_is_tangent_point (f : FCorr K) : f.pix2world f.crpix0 = f.crval := by
  simp only [FCorr.pix2world]
  aff_unfold
  constructor <;> ring

/-- gWCS: the centre scale is evaluated at the detector position of the tangent-plane origin -/
theorem gwcs_centre_is_tangent_point (env : GEnv K) (h : env.Bij) (g : GCorr K) (hg : g.WF) :
    g.detToTanp env (g.tanpToDet env ⟨0, 0⟩) = ⟨0, 0⟩ :=
  C03.gwcs_det_tanp env h g hg ⟨0, 0⟩

-- non-vacuity: a concrete distorted map (ℚ): half the |shoelace sum| equals |det J|
example : halfK * absK (shoelace2 (qmap (K := ℚ) 10 20 1 2 (11/10) (1/5) (-3/10) (9/10) (1/100) (2/100)
    (-1/100) (3/100) 0 (1/50)) 10 20) = |(11/10 : ℚ) * (9/10) - (1/5) * (-3/10)| := by
  decide +kernel

end TW.C20
