import Proofs.C08Lemmas

/-!
Helper lemmas for C08, `fit_general`: what `gsolve` returns is the *unique* solution of the normal
equations; the normal equations say that the weighted residuals are orthogonal to `(u, v, 1)`, a
condition that is transported by affine changes of coordinates and is homogeneous in the weights.
-/
open TW Matrix
set_option linter.unusedSectionVars false

namespace TW
variable {K : Type} [Field K] [LinearOrder K] [IsStrictOrderedRing K]

/-- uniqueness: any solution of the normal equations equals what `gsolve` returns -/
theorem gsolve_unique (eps : K) (heps : 0 < eps) (s : GSums K) (L : Lin K) (h : gsolve eps s = .ok L)
    (L' : Lin K)
    (hx : s.su * L'.m00 + s.sv * L'.m01 + s.sw * L'.sx = s.sx ∧
          s.suu * L'.m00 + s.suv * L'.m01 + s.su * L'.sx = s.sxu ∧
          s.suv * L'.m00 + s.svv * L'.m01 + s.sv * L'.sx = s.sxv)
    (hy : s.su * L'.m10 + s.sv * L'.m11 + s.sw * L'.sy = s.sy ∧
          s.suu * L'.m10 + s.suv * L'.m11 + s.su * L'.sy = s.syu ∧
          s.suv * L'.m10 + s.svv * L'.m11 + s.sv * L'.sy = s.syv) : L' = L := by
  unfold gsolve at h
  split at h
  · cases h
  next im him =>
  injection h with h
  have hmul := (invSq_correct eps heps _ im him).1
  have ent : ∀ i j : Fin 3, ∑ l : Fin 3, im.get i l * (gmatrix s).get l j
      = (1 : Matrix (Fin 3) (Fin 3) K) i j := by
    intro i j
    have := congrFun (congrFun hmul i) j
    simpa [Matrix.mul_apply] using this
  have g : ∀ i j : Fin 3, (gmatrix s).get i j =
      if i.val = 0 then (if j.val = 0 then s.su else if j.val = 1 then s.sv else s.sw)
      else if i.val = 1 then (if j.val = 0 then s.suu else if j.val = 1 then s.suv else s.su)
      else (if j.val = 0 then s.suv else if j.val = 1 then s.svv else s.sv) := by
    intro i j; simp [gmatrix]
  have r00 := ent 0 0; have r01 := ent 0 1; have r02 := ent 0 2
  have r10 := ent 1 0; have r11 := ent 1 1; have r12 := ent 1 2
  have r20 := ent 2 0; have r21 := ent 2 1; have r22 := ent 2 2
  simp [Fin.sum_univ_three, g] at r00 r01 r02 r10 r11 r12 r20 r21 r22
  obtain ⟨x0, x1, x2⟩ := hx
  obtain ⟨y0, y1, y2⟩ := hy
  rw [← h]
  cases L' with
  | mk a b c d e f =>
  simp only at x0 x1 x2 y0 y1 y2
  simp only [Lin.mk.injEq]
  refine ⟨?_, ?_, ?_, ?_, ?_, ?_⟩
  · linear_combination (im.get 0 0) * x0 + im.get 0 1 * x1 + im.get 0 2 * x2 - a * r00 - b * r01 - e * r02
  · linear_combination (im.get 1 0) * x0 + im.get 1 1 * x1 + im.get 1 2 * x2 - a * r10 - b * r11 - e * r12
  · linear_combination (im.get 0 0) * y0 + im.get 0 1 * y1 + im.get 0 2 * y2 - c * r00 - d * r01 - f * r02
  · linear_combination (im.get 1 0) * y0 + im.get 1 1 * y1 + im.get 1 2 * y2 - c * r10 - d * r11 - f * r12
  · linear_combination (im.get 2 0) * x0 + im.get 2 1 * x1 + im.get 2 2 * x2 - a * r20 - b * r21 - e * r22
  · linear_combination (im.get 2 0) * y0 + im.get 2 1 * y1 + im.get 2 2 * y2 - c * r20 - d * r21 - f * r22

end TW

namespace TW
variable {K : Type} [Field K] [LinearOrder K] [IsStrictOrderedRing K]

/-- the normal equations in residual form: the weighted residuals of `L` are orthogonal to
`u`, `v` and `1` -/
def NormalEq (g : Row K → K) (rows : List (Row K)) (L : Lin K) : Prop :=
  (rows.map fun r => g r * ((L.resid r.o).x * r.o.u)).sum = 0 ∧
  (rows.map fun r => g r * ((L.resid r.o).x * r.o.v)).sum = 0 ∧
  (rows.map fun r => g r * (L.resid r.o).x).sum = 0 ∧
  (rows.map fun r => g r * ((L.resid r.o).y * r.o.u)).sum = 0 ∧
  (rows.map fun r => g r * ((L.resid r.o).y * r.o.v)).sum = 0 ∧
  (rows.map fun r => g r * (L.resid r.o).y).sum = 0

/-- the matrix form of the normal equations, on the sums -/
def NormalSums (s : GSums K) (L : Lin K) : Prop :=
  (s.su * L.m00 + s.sv * L.m01 + s.sw * L.sx = s.sx ∧
   s.suu * L.m00 + s.suv * L.m01 + s.su * L.sx = s.sxu ∧
   s.suv * L.m00 + s.svv * L.m01 + s.sv * L.sx = s.sxv) ∧
  (s.su * L.m10 + s.sv * L.m11 + s.sw * L.sy = s.sy ∧
   s.suu * L.m10 + s.suv * L.m11 + s.su * L.sy = s.syu ∧
   s.suv * L.m10 + s.svv * L.m11 + s.sv * L.sy = s.syv)

theorem normalEq_iff_sums (g : Row K → K) (rows : List (Row K)) (L : Lin K) :
    NormalEq g rows L ↔ NormalSums (gsumsRow g rows) L := by
  have e1 : (rows.map fun r => g r * ((L.resid r.o).x * r.o.u)).sum
      = 1 * (gsumsRow g rows).sxu + (-L.m00) * (gsumsRow g rows).suu
        + (-L.m01) * (gsumsRow g rows).suv + (-L.sx) * (gsumsRow g rows).su :=
    sum_lin4 rows _ _ _ _ _ _ _ _ _ (fun r => by simp only [Lin.resid]; ring)
  have e2 : (rows.map fun r => g r * ((L.resid r.o).x * r.o.v)).sum
      = 1 * (gsumsRow g rows).sxv + (-L.m00) * (gsumsRow g rows).suv
        + (-L.m01) * (gsumsRow g rows).svv + (-L.sx) * (gsumsRow g rows).sv :=
    sum_lin4 rows _ _ _ _ _ _ _ _ _ (fun r => by simp only [Lin.resid]; ring)
  have e3 : (rows.map fun r => g r * (L.resid r.o).x).sum
      = 1 * (gsumsRow g rows).sx + (-L.m00) * (gsumsRow g rows).su
        + (-L.m01) * (gsumsRow g rows).sv + (-L.sx) * (gsumsRow g rows).sw :=
    sum_lin4 rows _ _ _ _ _ _ _ _ _ (fun r => by simp only [Lin.resid]; ring)
  have e4 : (rows.map fun r => g r * ((L.resid r.o).y * r.o.u)).sum
      = 1 * (gsumsRow g rows).syu + (-L.m10) * (gsumsRow g rows).suu
        + (-L.m11) * (gsumsRow g rows).suv + (-L.sy) * (gsumsRow g rows).su :=
    sum_lin4 rows _ _ _ _ _ _ _ _ _ (fun r => by simp only [Lin.resid]; ring)
  have e5 : (rows.map fun r => g r * ((L.resid r.o).y * r.o.v)).sum
      = 1 * (gsumsRow g rows).syv + (-L.m10) * (gsumsRow g rows).suv
        + (-L.m11) * (gsumsRow g rows).svv + (-L.sy) * (gsumsRow g rows).sv :=
    sum_lin4 rows _ _ _ _ _ _ _ _ _ (fun r => by simp only [Lin.resid]; ring)
  have e6 : (rows.map fun r => g r * (L.resid r.o).y).sum
      = 1 * (gsumsRow g rows).sy + (-L.m10) * (gsumsRow g rows).su
        + (-L.m11) * (gsumsRow g rows).sv + (-L.sy) * (gsumsRow g rows).sw :=
    sum_lin4 rows _ _ _ _ _ _ _ _ _ (fun r => by simp only [Lin.resid]; ring)
  unfold NormalEq NormalSums
  rw [e1, e2, e3, e4, e5, e6]
  constructor
  · rintro ⟨h1, h2, h3, h4, h5, h6⟩
    refine ⟨⟨?_, ?_, ?_⟩, ⟨?_, ?_, ?_⟩⟩
    · linear_combination (-1 : K) * h3
    · linear_combination (-1 : K) * h1
    · linear_combination (-1 : K) * h2
    · linear_combination (-1 : K) * h6
    · linear_combination (-1 : K) * h4
    · linear_combination (-1 : K) * h5
  · rintro ⟨⟨h3, h1, h2⟩, ⟨h6, h4, h5⟩⟩
    refine ⟨?_, ?_, ?_, ?_, ?_, ?_⟩
    · linear_combination (-1 : K) * h1
    · linear_combination (-1 : K) * h2
    · linear_combination (-1 : K) * h3
    · linear_combination (-1 : K) * h4
    · linear_combination (-1 : K) * h5
    · linear_combination (-1 : K) * h6

/-- what `gsolve` returns on the sums of weighted rows satisfies the normal equations … -/
theorem gsolve_normalEq (eps : K) (heps : 0 < eps) (g : Row K → K) (rows : List (Row K)) (L : Lin K)
    (h : gsolve eps (gsumsRow g rows) = .ok L) : NormalEq g rows L :=
  (normalEq_iff_sums g rows L).mpr (gsolve_normal eps heps _ L h)

/-- … and is the only map that does -/
theorem gsolve_normalEq_unique (eps : K) (heps : 0 < eps) (g : Row K → K) (rows : List (Row K))
    (L : Lin K) (h : gsolve eps (gsumsRow g rows) = .ok L) (L' : Lin K) (h' : NormalEq g rows L') :
    L' = L := by
  obtain ⟨hx, hy⟩ := (normalEq_iff_sums g rows L').mp h'
  exact gsolve_unique eps heps _ L h L' hx hy

end TW

namespace TW
variable {K : Type} [Field K] [LinearOrder K] [IsStrictOrderedRing K]

/-- residuals transform with the linear part of `A`: the residual of the conjugated map on the
moved pair is `A_lin` applied to the original residual -/
theorem resid_conj_move (A B : Aff K) (hB : B.m.det ≠ 0) (L : Lin K) (o : Obs K) :
    ((Lin.conj A B L).resid (o.move A B)).x = A.m.a * (L.resid o).x + A.m.b * (L.resid o).y ∧
    ((Lin.conj A B L).resid (o.move A B)).y = A.m.c * (L.resid o).x + A.m.d * (L.resid o).y := by
  simp only [Lin.resid, Lin.conj, Lin.ofAff, Lin.toAff, Obs.move, Obs.xy, Obs.uv, Aff.app, Aff.comp,
    Aff.inv, M2.mulVec, M2.mul, M2.inv, V2.add, V2.neg]
  constructor <;> field_simp <;> simp only [M2.det] <;> ring

end TW

namespace TW
variable {K : Type} [Field K] [LinearOrder K] [IsStrictOrderedRing K]

@[simp] theorem Row.move_o (A B : Aff K) (r : Row K) : (r.move A B).o = r.o.move A B := rfl
@[simp] theorem Row.move_wx (A B : Aff K) (r : Row K) : (r.move A B).wx = r.wx := rfl
@[simp] theorem Row.move_wu (A B : Aff K) (r : Row K) : (r.move A B).wu = r.wu := rfl

theorem Obs.move_u (A B : Aff K) (o : Obs K) : (o.move A B).u = B.m.a * o.u + B.m.b * o.v + B.t.x := by
  simp [Obs.move, Obs.uv, Aff.app, M2.mulVec, V2.add]
theorem Obs.move_v (A B : Aff K) (o : Obs K) : (o.move A B).v = B.m.c * o.u + B.m.d * o.v + B.t.y := by
  simp [Obs.move, Obs.uv, Aff.app, M2.mulVec, V2.add]
theorem Obs.move_x (A B : Aff K) (o : Obs K) : (o.move A B).x = A.m.a * o.x + A.m.b * o.y + A.t.x := by
  simp [Obs.move, Obs.xy, Aff.app, M2.mulVec, V2.add]
theorem Obs.move_y (A B : Aff K) (o : Obs K) : (o.move A B).y = A.m.c * o.x + A.m.d * o.y + A.t.y := by
  simp [Obs.move, Obs.xy, Aff.app, M2.mulVec, V2.add]

/-- a weighted sum whose summand is a combination of the six "residual × (u, v, 1)" terms
vanishes when the normal equations hold -/
theorem sum_normal6 (rows : List (Row K)) (g : Row K → K) (L : Lin K) (P : Row K → K)
    (c1 c2 c3 c4 c5 c6 : K)
    (hP : ∀ r, P r = c1 * ((L.resid r.o).x * r.o.u) + c2 * ((L.resid r.o).x * r.o.v)
      + c3 * (L.resid r.o).x + c4 * ((L.resid r.o).y * r.o.u) + c5 * ((L.resid r.o).y * r.o.v)
      + c6 * (L.resid r.o).y)
    (h : NormalEq g rows L) : (rows.map fun r => g r * P r).sum = 0 := by
  obtain ⟨h1, h2, h3, h4, h5, h6⟩ := h
  rw [sum_lin6 rows (fun r => g r * P r) (fun r => g r * ((L.resid r.o).x * r.o.u))
    (fun r => g r * ((L.resid r.o).x * r.o.v)) (fun r => g r * (L.resid r.o).x)
    (fun r => g r * ((L.resid r.o).y * r.o.u)) (fun r => g r * ((L.resid r.o).y * r.o.v))
    (fun r => g r * (L.resid r.o).y) c1 c2 c3 c4 c5 c6 (fun r => by simp only [hP r]; ring),
    h1, h2, h3, h4, h5, h6]
  ring

/-- the normal equations are transported by an affine change of coordinates on either side -/
theorem normalEq_move (A B : Aff K) (hB : B.m.det ≠ 0) (g g' : Row K → K)
    (hg : ∀ r, g' (r.move A B) = g r) (rows : List (Row K)) (L : Lin K) (h : NormalEq g rows L) :
    NormalEq g' (rows.map (Row.move A B)) (Lin.conj A B L) := by
  unfold NormalEq
  simp only [List.map_map, Function.comp_def, hg, Row.move_o]
  have rx := fun o => (resid_conj_move A B hB L o).1
  have ry := fun o => (resid_conj_move A B hB L o).2
  refine ⟨?_, ?_, ?_, ?_, ?_, ?_⟩
  · exact sum_normal6 rows g L _ (A.m.a * B.m.a) (A.m.a * B.m.b) (A.m.a * B.t.x)
      (A.m.b * B.m.a) (A.m.b * B.m.b) (A.m.b * B.t.x) (fun r => by rw [rx, Obs.move_u]; ring) h
  · exact sum_normal6 rows g L _ (A.m.a * B.m.c) (A.m.a * B.m.d) (A.m.a * B.t.y)
      (A.m.b * B.m.c) (A.m.b * B.m.d) (A.m.b * B.t.y) (fun r => by rw [rx, Obs.move_v]; ring) h
  · exact sum_normal6 rows g L _ 0 0 A.m.a 0 0 A.m.b (fun r => by rw [rx]; ring) h
  · exact sum_normal6 rows g L _ (A.m.c * B.m.a) (A.m.c * B.m.b) (A.m.c * B.t.x)
      (A.m.d * B.m.a) (A.m.d * B.m.b) (A.m.d * B.t.x) (fun r => by rw [ry, Obs.move_u]; ring) h
  · exact sum_normal6 rows g L _ (A.m.c * B.m.c) (A.m.c * B.m.d) (A.m.c * B.t.y)
      (A.m.d * B.m.c) (A.m.d * B.m.d) (A.m.d * B.t.y) (fun r => by rw [ry, Obs.move_v]; ring) h
  · exact sum_normal6 rows g L _ 0 0 A.m.c 0 0 A.m.d (fun r => by rw [ry]; ring) h

end TW

namespace TW
variable {K : Type} [Field K] [LinearOrder K] [IsStrictOrderedRing K]

/-- the normal equations are homogeneous in the weights -/
theorem normalEq_reweight (T : Row K → Row K) (hT : ∀ r, (T r).o = r.o) (c : K) (g g' : Row K → K)
    (rows : List (Row K)) (hg : ∀ r ∈ rows, g' (T r) = c * g r) (L : Lin K) (h : NormalEq g rows L) :
    NormalEq g' (rows.map T) L := by
  obtain ⟨h1, h2, h3, h4, h5, h6⟩ := h
  have key : ∀ P : Obs K → K, (rows.map fun r => g r * P r.o).sum = 0 →
      ((rows.map T).map fun r => g' r * P r.o).sum = 0 := by
    intro P hP
    rw [List.map_map]
    rw [sum_map_congr rows _ (fun r => c * (g r * P r.o))
      (fun r hr => by simp only [Function.comp_def, hT, hg r hr]; ring), sum_map_mul_left', hP, mul_zero]
  exact ⟨key (fun o => (L.resid o).x * o.u) h1, key (fun o => (L.resid o).x * o.v) h2,
    key (fun o => (L.resid o).x) h3, key (fun o => (L.resid o).y * o.u) h4,
    key (fun o => (L.resid o).y * o.v) h5, key (fun o => (L.resid o).y) h6⟩

theorem wsel_move (bx bu : Bool) (A B : Aff K) (r : Row K) : wsel bx bu (r.move A B) = wsel bx bu r := by
  cases bx <;> cases bu <;> rfl

theorem weightsBad_move (k : Nat) (bx bu : Bool) (A B : Aff K) (rows : List (Row K)) :
    weightsBad k bx bu (rows.map (Row.move A B)) = weightsBad k bx bu rows := by
  unfold weightsBad
  simp only [List.map_map, Function.comp_def, wsel_move]

/-- from a returned `fit_general` to its normal equations -/
theorem fitGeneralR_ok (eps epsD : K) (bx bu : Bool) (rows : List (Row K)) (L : Lin K)
    (h : fitGeneralR eps epsD bx bu rows = .ok L) :
    ¬ rows.length < 3 ∧ weightsBad 3 bx bu rows = false ∧
      gsolve eps (gsumsRow (wsel bx bu) rows) = .ok L := by
  rw [fitGeneralR_eq] at h
  split at h
  · cases h
  next hn =>
  split at h
  · cases h
  next hb =>
  split at h
  · cases h
  · exact ⟨hn, by simpa using hb, h⟩

/-- the weights of an accepted `fit_general` have a positive sum -/
theorem wsel_sum_pos (bx bu : Bool) (rows : List (Row K)) (hn : ¬ rows.length < 3)
    (hbad : weightsBad 3 bx bu rows = false) : 0 < (rows.map (wsel bx bu)).sum := by
  unfold weightsBad at hbad
  cases hb : (bx || bu)
  · have hbx : bx = false := by cases bx <;> simp_all
    have hbu : bu = false := by cases bu <;> simp_all
    subst hbx; subst hbu
    have : (rows.map (wsel (K := K) false false)).sum = (rows.length : K) := by
      have : (rows.map (wsel (K := K) false false)) = rows.map fun _ => (1 : K) := rfl
      rw [this, sum_map_const]; ring
    rw [this]
    have : 0 < rows.length := by omega
    exact_mod_cast this
  · rw [hb] at hbad
    simp only [Bool.true_and, Bool.or_eq_false_iff, decide_eq_false_iff_not] at hbad
    exact sum_pos_of_weights _ hbad.1 (by omega)

/-- the errors of `fit_general` other than `singular` are decided before the guard and `inv` -/
theorem fitGeneralR_error_iff (eps epsD : K) (bx bu : Bool) (rows : List (Row K)) (e : FitErr)
    (he : e ≠ .singular) :
    fitGeneralR eps epsD bx bu rows = .error e ↔
      (if rows.length < 3 then (Except.error .notEnoughPoints : Except FitErr (Lin K))
       else if weightsBad 3 bx bu rows = true then .error .badWeights
       else .error .singular) = .error e := by
  rw [fitGeneralR_eq]
  split
  · rfl
  split
  · rfl
  split
  · rfl
  · have hS : ∀ s : GSums K, gsolve eps s ≠ .error e := by
      intro s hs
      unfold gsolve at hs
      split at hs
      · injection hs with hs; exact he hs.symm
      · cases hs
    constructor
    · intro h; exact absurd h (hS _)
    · intro h; injection h with h; exact absurd h.symm he

end TW
