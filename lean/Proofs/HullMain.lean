import Proofs.HullInv

open TW
set_option linter.unusedSectionVars false

namespace TW
variable {K : Type} [Field K] [LinearOrder K] [IsStrictOrderedRing K]

/-- the invariant holds along the whole fold -/
theorem foldl_push_inv : ∀ (rest done st : List (Pt K)), ChainInv done st →
    (∀ q ∈ done, ∀ p ∈ rest, lexlt q p) → rest.Pairwise lexlt →
    ChainInv (done ++ rest) (rest.foldl pushPt st) := by
  intro rest
  induction rest with
  | nil => intro done st h _ _; simpa using h
  | cons p rest ih =>
    intro done st h hlt hs
    simp only [List.foldl_cons]
    have h1 := push_inv done st p h (fun q hq => hlt q hq p (by simp))
    have := ih (done ++ [p]) (pushPt st p) h1 ?_ (List.pairwise_cons.mp hs).2
    · simpa using this
    · intro q hq p' hp'
      rcases List.mem_append.mp hq with hqd | hqp
      · exact hlt q hqd p' (List.mem_cons_of_mem _ hp')
      · have : q = p := by simpa using hqp
        rw [this]
        exact (List.pairwise_cons.mp hs).1 p' hp'

/-- **Monotone chain, one pass.**  For lexicographically strictly increasing `pts` the stack
after the pass satisfies the chain invariant with respect to all of `pts`. -/
theorem chain_inv (pts : List (Pt K)) (hs : pts.Pairwise lexlt) :
    ChainInv pts (pts.foldl pushPt []) := by
  have := foldl_push_inv pts [] [] chainInv_nil (fun q hq => by cases hq) hs
  simpa using this

/-- vertices of the chain are input points -/
theorem chain_subset (pts : List (Pt K)) (hs : pts.Pairwise lexlt) :
    ∀ s ∈ chain pts, s ∈ pts := by
  intro s hs'
  unfold chain at hs'
  exact (chain_inv pts hs).sub s (List.mem_reverse.mp hs')

/-- every input point is on or to the left of every edge of the chain -/
theorem chain_contains (pts : List (Pt K)) (hs : pts.Pairwise lexlt) :
    ∀ q ∈ pts, EdgesLeft q (pts.foldl pushPt []) :=
  (chain_inv pts hs).left

/-- every consecutive triple of the chain is a strict left turn -/
theorem chain_convex (pts : List (Pt K)) (hs : pts.Pairwise lexlt) :
    Convex (pts.foldl pushPt []) :=
  (chain_inv pts hs).convex

/-! ### the second pass: reflect through the origin -/

def neg (p : Pt K) : Pt K := (-p.1, -p.2)

theorem cross_neg (o a b : Pt K) : cross (neg o) (neg a) (neg b) = cross o a b := by
  simp only [cross_def, neg]; ring

theorem lexlt_neg {p q : Pt K} : lexlt (neg q) (neg p) ↔ lexlt p q := by
  simp only [lexlt, neg]
  constructor
  · rintro (h | ⟨h1, h2⟩)
    · left; linarith
    · right; exact ⟨by linarith [neg_inj.mp h1], by linarith⟩
  · rintro (h | ⟨h1, h2⟩)
    · left; linarith
    · right; exact ⟨by rw [h1], by linarith⟩

theorem popWhile_neg (p : Pt K) : ∀ st : List (Pt K),
    popWhile (neg p) (st.map neg) = (popWhile p st).map neg := by
  intro st
  induction st with
  | nil => simp [popWhile_nil]
  | cons b tl ih =>
    cases tl with
    | nil => simp [popWhile_single]
    | cons a rest =>
      simp only [List.map_cons] at ih ⊢
      rw [popWhile_cons_cons, popWhile_cons_cons, cross_neg]
      split
      · simp
      · exact ih

theorem foldl_push_neg : ∀ (pts st : List (Pt K)),
    (pts.map neg).foldl pushPt (st.map neg) = (pts.foldl pushPt st).map neg := by
  intro pts
  induction pts with
  | nil => intro st; rfl
  | cons p pts ih =>
    intro st
    simp only [List.map_cons, List.foldl_cons]
    have : pushPt (st.map neg) (neg p) = (pushPt st p).map neg := by
      simp [pushPt, popWhile_neg]
    rw [this, ih]

theorem EdgesLeft_neg (q : Pt K) : ∀ st : List (Pt K), EdgesLeft (neg q) (st.map neg) ↔ EdgesLeft q st := by
  intro st
  induction st with
  | nil => exact Iff.rfl
  | cons b tl ih =>
    cases tl with
    | nil => exact Iff.rfl
    | cons a rest =>
      simp only [List.map_cons] at ih ⊢
      show (0 ≤ cross (neg a) (neg b) (neg q) ∧ EdgesLeft (neg q) (neg a :: rest.map neg)) ↔
           (0 ≤ cross a b q ∧ EdgesLeft q (a :: rest))
      rw [cross_neg, ih]

/-- containment for the upper chain (the pass over the reversed list) -/
theorem upper_contains (pts : List (Pt K)) (hs : pts.Pairwise lexlt) :
    ∀ q ∈ pts, EdgesLeft q (pts.reverse.foldl pushPt []) := by
  intro q hq
  have hs' : (pts.reverse.map neg).Pairwise lexlt := by
    rw [List.pairwise_map, List.pairwise_reverse]
    exact hs.imp (fun h => lexlt_neg.mpr h)
  have hmem : neg q ∈ pts.reverse.map neg := List.mem_map.mpr ⟨q, List.mem_reverse.mpr hq, rfl⟩
  have := chain_contains (pts.reverse.map neg) hs' (neg q) hmem
  have h2 := foldl_push_neg pts.reverse ([] : List (Pt K))
  simp only [List.map_nil] at h2
  rw [h2] at this
  exact (EdgesLeft_neg q _).mp this

theorem upper_subset (pts : List (Pt K)) (hs : pts.Pairwise lexlt) :
    ∀ s ∈ chain pts.reverse, s ∈ pts := by
  intro s hs1
  unfold chain at hs1
  have hs1 := List.mem_reverse.mp hs1
  have hs' : (pts.reverse.map neg).Pairwise lexlt := by
    rw [List.pairwise_map, List.pairwise_reverse]
    exact hs.imp (fun h => lexlt_neg.mpr h)
  have h2 := foldl_push_neg pts.reverse ([] : List (Pt K))
  simp only [List.map_nil] at h2
  have hmem : neg s ∈ (pts.reverse.map neg).foldl pushPt [] := by
    rw [h2]; exact List.mem_map.mpr ⟨s, hs1, rfl⟩
  have := (chain_inv (pts.reverse.map neg) hs').sub (neg s) hmem
  obtain ⟨x, hx, hxe⟩ := List.mem_map.mp this
  have : x = s := by
    have h1 := congrArg Prod.fst hxe
    have h2 := congrArg Prod.snd hxe
    simp only [neg, neg_inj] at h1 h2
    exact Prod.ext h1 h2
  rw [← this]; exact List.mem_reverse.mp hx

end TW
