import Proofs.FCorrLemmas

/-!
# C18 — correcting a FITS WCS changes only CRVAL and the linear matrix

Property theorems only, about `TW.FCorr` (`Model/Corrector.lean`).  The record has the fields
`crval`, `lin` (CD, or PC when `pcForm`), `cdelt`, `pcForm`, `crpix0`; everything else of an
`astropy.wcs.WCS` (CTYPE, SIP, lookup tables, pixel shape) is not touched by the model of
`set_correction` because the code never writes it — the correspondence check snapshots those
attributes on real objects.
-/
open TW
set_option linter.unusedSectionVars false

namespace TW.C18
variable {K : Type} [Field K] [LinearOrder K] [IsStrictOrderedRing K]

/-- `set_correction` (any reference plane, any arguments) preserves CRPIX, CDELT and the
CD-versus-PC representation -/
theorem frame_fits (f : FCorr K) (w2t t2w : V2 K → V2 K) (M : M2 K) (s : V2 K) (hx hy : K) :
    (f.setCorrection w2t t2w M s hx hy).crpix0 = f.crpix0 ∧
    (f.setCorrection w2t t2w M s hx hy).cdelt = f.cdelt ∧
    (f.setCorrection w2t t2w M s hx hy).pcForm = f.pcForm := ⟨rfl, rfl, rfl⟩

/-- the same for every operation sequence -/
theorem frame_fits_run (f : FCorr K) (ops : List (FOp K)) :
    (f.run ops).crpix0 = f.crpix0 ∧ (f.run ops).cdelt = f.cdelt ∧ (f.run ops).pcForm = f.pcForm := by
  induction ops generalizing f with
  | nil => exact ⟨rfl, rfl, rfl⟩
  | cons op ops ih =>
    simp only [FCorr.run, List.foldl_cons]
    obtain ⟨a, b, c⟩ := ih (f.step op)
    have hs : (f.step op).crpix0 = f.crpix0 ∧ (f.step op).cdelt = f.cdelt ∧
        (f.step op).pcForm = f.pcForm := by
      cases op <;> exact ⟨rfl, rfl, rfl⟩
    exact ⟨a.trans hs.1, b.trans hs.2.1, c.trans hs.2.2⟩

/-- two descriptions of the same WCS (CD, or PC+CDELT): equal sky mapping -/
def Twins (f f' : FCorr K) : Prop := f.L = f'.L ∧ f.crval = f'.crval ∧ f.crpix0 = f'.crpix0

theorem twins_maps (f f' : FCorr K) (h : Twins f f') :
    f.pix2world = f'.pix2world ∧ f.world2pix = f'.world2pix := by
  obtain ⟨hL, hc, hp⟩ := h
  constructor <;> funext x <;> simp only [FCorr.pix2world, FCorr.world2pix, hL, hc, hp]

/-- one correction keeps twins twins (same new CRVAL, same effective matrix) -/
theorem twins_setCorrection (f f' : FCorr K) (h : Twins f f') (w2t t2w : V2 K → V2 K) (M : M2 K)
    (s : V2 K) (hx hy : K) :
    Twins (f.setCorrection w2t t2w M s hx hy) (f'.setCorrection w2t t2w M s hx hy) := by
  obtain ⟨hpw, hwp⟩ := twins_maps f f' h
  obtain ⟨hL, hc, hp⟩ := h
  have hcr : f.newCrval w2t t2w M s = f'.newCrval w2t t2w M s := by
    simp only [FCorr.newCrval, hpw, hp]
  have hw1 : ∀ o : V2 K, ({ f with crval := o } : FCorr K).world2pix = ({ f' with crval := o } : FCorr K).world2pix := by
    intro o
    funext w
    simp only [FCorr.world2pix]
    rw [FCorr.L_crval f o, FCorr.L_crval f' o, hL, hp]
  refine ⟨?_, ?_, ?_⟩
  · rw [FCorr.setCorrection_L, FCorr.setCorrection_L, hL, hcr, hw1, hpw, hp]
  · show f.newCrval w2t t2w M s = f'.newCrval w2t t2w M s
    exact hcr
  · exact hp

theorem twins_step (f f' : FCorr K) (h : Twins f f') (op : FOp K) : Twins (f.step op) (f'.step op) := by
  cases op with
  | setOwn M s hx hy =>
    simp only [FCorr.step, FCorr.setCorrectionOwn]
    obtain ⟨hpw, hwp⟩ := twins_maps f f' h
    rw [← hpw, ← hwp]
    exact twins_setCorrection f f' h _ _ M s hx hy
  | setRef P M s hx hy => exact twins_setCorrection f f' h _ _ M s hx hy
  | rewrap => exact h
  | copy => exact h

/-- **CD/PC twins**: after ANY sequence of corrections the two descriptions still yield identical
sky mappings -/
theorem cd_pc_twins (f f' : FCorr K) (h : Twins f f') (ops : List (FOp K)) (δ : V2 K → V2 K) (p : V2 K) :
    (f.run ops).detToWorld δ p = (f'.run ops).detToWorld δ p := by
  have H : ∀ (ops : List (FOp K)) (f f' : FCorr K), Twins f f' → Twins (f.run ops) (f'.run ops) := by
    intro ops
    induction ops with
    | nil => intro f f' h; exact h
    | cons op ops ih =>
      intro f f' h
      simp only [FCorr.run, List.foldl_cons]
      exact ih _ _ (twins_step f f' h op)
  have := (twins_maps _ _ (H ops f f' h)).1
  simp only [FCorr.detToWorld, this]

/-- a PC+CDELT description and the CD description with `CD = diag(CDELT)·PC` are twins -/
theorem cd_of_pc_twins (crval cdelt crpix0 : V2 K) (pc : M2 K) :
    Twins ⟨crval, (M2.diag cdelt).mul pc, cdelt, false, crpix0⟩ ⟨crval, pc, cdelt, true, crpix0⟩ := by
  refine ⟨?_, rfl, rfl⟩
  simp [FCorr.L]

/-- WCS structures that cannot be corrected faithfully are rejected at construction -/
theorem reject_missing : fitsStructureOk none = false := rfl
theorem reject_non_celestial (d : Bool) : fitsStructureOk (some (false, d)) = false := rfl
theorem accept_iff (w : Option (Bool × Bool)) :
    fitsStructureOk w = true ↔ w = some (true, true) := by
  cases w with
  | none => simp [fitsStructureOk]
  | some p => obtain ⟨c, d⟩ := p; cases c <;> cases d <;> simp [fitsStructureOk]

end TW.C18
