import Proofs.GCorrLemmas
import Proofs.FCorrLemmas
import Proofs.TanProjLemmas

/-!
# C03 — detector, tangent-plane and world transforms of a corrector are coherent

In every reachable state (fresh, after any sequence of corrections, copies and re-wrappings) the
six conversions are pairwise inverse and commute.  gWCS: for ARBITRARY bijective `D`, `U`, `R`
(every geometry/distortion); FITS: flat-sky model with arbitrary bijective distortion `δ`.
The conversions are pointwise maps, so applying them to an array of any shape is `List.map`
(`shape_preserved`).  Property theorems only.
-/
open TW
set_option linter.unusedSectionVars false

namespace TW.C03
variable {K : Type} [Field K] [LinearOrder K] [IsStrictOrderedRing K]

/-- a gWCS operation is admissible when the matrices it carries are invertible -/
def GOp.ok : GOp K → Prop
  | .setCorr f q => f.m.det ≠ 0 ∧ ∀ q', q = some q' → q'.m.det ≠ 0
  | .rewrap => True
  | .copy => True

/-- frame bookkeeping invariant tying `corrected` to the pipeline (needed for re-wrapping) -/
def FrameInv (g : GCorr K) : Prop :=
  (g.corrected = true → g.frames.contains "v2v3corr" = true) ∧
  (g.corrected = false → g.frames.contains "v2v3corr" = false)

theorem contains_insertAt (s : String) (n : ℕ) (l : List String) :
    (insertAt s n l).contains s = true := by
  induction n generalizing l with
  | zero => simp [insertAt]
  | succ n ih =>
    cases l with
    | nil => simp [insertAt]
    | cons a l => simp only [insertAt, List.contains_cons]; rw [ih]; simp

theorem step_inv (env : GEnv K) (h : env.Bij) (g : GCorr K) (op : GOp K) (hop : GOp.ok op)
    (hg : g.WF ∧ FrameInv g) : (g.step env.c op).WF ∧ FrameInv (g.step env.c op) := by
  obtain ⟨hw, hf1, hf2⟩ := hg
  cases op with
  | setCorr f q =>
    refine ⟨g.setCorrection_WF env hw h f q hop.1 hop.2, ?_, ?_⟩
    · intro _
      simp only [GCorr.step, GCorr.setCorrection]
      cases hc : g.corrected with
      | true => simpa using hf1 hc
      | false => simp only [Bool.false_eq_true, if_false]; exact contains_insertAt _ _ _
    · intro hc
      simp only [GCorr.step] at hc
      rw [GCorr.setCorrection_corrected] at hc; cases hc
  | copy => exact ⟨hw, hf1, hf2⟩
  | rewrap =>
    simp only [GCorr.step, GCorr.rewrap]
    cases hc : g.frames.contains "v2v3corr" with
    | true =>
      simp only [if_true]
      exact ⟨⟨hw.1, fun hcc => by cases hcc⟩, fun _ => hc, fun hcc => by cases hcc⟩
    | false =>
      simp only [Bool.false_eq_true, if_false]
      exact ⟨GCorr.fresh_WF _, fun hcc => by simp [GCorr.fresh] at hcc, fun _ => by simpa [GCorr.fresh] using hc⟩

/-- every state reachable from a fresh corrector by admissible operations is well formed -/
theorem gwcs_reachable_WF (env : GEnv K) (h : env.Bij) (frms : List String)
    (hfr : frms.contains "v2v3corr" = false) (ops : List (GOp K)) (hops : ∀ op ∈ ops, GOp.ok op) :
    ((GCorr.fresh frms : GCorr K).run env.c ops).WF := by
  suffices H : ∀ (ops : List (GOp K)) (g : GCorr K), (∀ op ∈ ops, GOp.ok op) → (g.WF ∧ FrameInv g) →
      ((g.run env.c ops).WF ∧ FrameInv (g.run env.c ops)) by
    exact (H ops _ hops ⟨GCorr.fresh_WF frms,
      fun hc => by simp [GCorr.fresh] at hc, fun _ => by simpa [GCorr.fresh] using hfr⟩).1
  intro ops
  induction ops with
  | nil => intro g _ hg; exact hg
  | cons op ops ih =>
    intro g hops hg
    simp only [GCorr.run, List.foldl_cons]
    exact ih _ (fun o ho => hops o (List.mem_cons_of_mem _ ho))
      (step_inv env h g op (hops op List.mem_cons_self) hg)

/-! ### gWCS: the six conversions in any well-formed state -/
section gwcs
variable (env : GEnv K) (h : env.Bij) (g : GCorr K) (hg : g.WF)
include h hg

theorem gwcs_world_det (p : V2 K) : g.worldToDet env (g.detToWorld env p) = p := by
  rw [g.worldToDet_chart env hg h, g.detToWorld_chart env hg h, env.sigmaInv_sigma h,
    Aff.inv_app _ (g.A_det env hg), env.tauInv_tau h]

theorem gwcs_det_world (w : V2 K) : g.detToWorld env (g.worldToDet env w) = w := by
  rw [g.worldToDet_chart env hg h, g.detToWorld_chart env hg h, env.tau_tauInv h,
    Aff.app_inv _ (g.A_det env hg), env.sigma_sigmaInv h]

theorem gwcs_tanp_det (p : V2 K) : g.tanpToDet env (g.detToTanp env p) = p := by
  rw [g.tanpToDet_chart env h, g.detToTanp_chart env, Aff.inv_app _ (g.A_det env hg),
    env.tauInv_tau h]

theorem gwcs_det_tanp (x : V2 K) : g.detToTanp env (g.tanpToDet env x) = x := by
  rw [g.tanpToDet_chart env h, g.detToTanp_chart env, env.tau_tauInv h,
    Aff.app_inv _ (g.A_det env hg)]

theorem gwcs_tanp_world (x : V2 K) : g.worldToTanp env (g.tanpToWorld env x) = x := by
  rw [g.worldToTanp_chart env hg h, g.tanpToWorld_chart env hg h, env.sigmaInv_sigma h]

theorem gwcs_world_tanp (w : V2 K) : g.tanpToWorld env (g.worldToTanp env w) = w := by
  rw [g.worldToTanp_chart env hg h, g.tanpToWorld_chart env hg h, env.sigma_sigmaInv h]

/-- `tanp_to_world ∘ det_to_tanp = det_to_world` -/
theorem gwcs_triangle_world (p : V2 K) :
    g.tanpToWorld env (g.detToTanp env p) = g.detToWorld env p := by
  rw [g.tanpToWorld_chart env hg h, g.detToTanp_chart env, g.detToWorld_chart env hg h]

/-- `world_to_tanp ∘ det_to_world = det_to_tanp` -/
theorem gwcs_triangle_tanp (p : V2 K) :
    g.worldToTanp env (g.detToWorld env p) = g.detToTanp env p := by
  rw [g.worldToTanp_chart env hg h, g.detToWorld_chart env hg h, env.sigmaInv_sigma h,
    g.detToTanp_chart env]

/-- `tanp_to_det ∘ world_to_tanp = world_to_det` -/
theorem gwcs_triangle_det (w : V2 K) :
    g.tanpToDet env (g.worldToTanp env w) = g.worldToDet env w := by
  rw [g.tanpToDet_chart env h, g.worldToTanp_chart env hg h, g.worldToDet_chart env hg h]

end gwcs

/-! ### FITS -/

def FOp.ok : FOp K → Prop
  | .setOwn M _ hx hy => M.det ≠ 0 ∧ hx ≠ 0 ∧ hy ≠ 0
  | .setRef P M _ hx hy => P.m.det ≠ 0 ∧ M.det ≠ 0 ∧ hx ≠ 0 ∧ hy ≠ 0
  | .rewrap => True
  | .copy => True

theorem fits_step_WF (f : FCorr K) (hf : f.WF) (op : FOp K) (hop : FOp.ok op) : (f.step op).WF := by
  cases op with
  | setOwn M s hx hy =>
    simp only [FCorr.step]
    rw [f.setCorrectionOwn_eq hf]
    exact f.setCorrectionRef_WF hf _ (Aff.det_inv_ne f.toSky hf) M s hop.1 hx hy hop.2.1 hop.2.2
  | setRef P M s hx hy =>
    exact f.setCorrectionRef_WF hf P hop.1 M s hop.2.1 hx hy hop.2.2.1 hop.2.2.2
  | rewrap => exact hf
  | copy => exact hf

theorem fits_reachable_WF (f : FCorr K) (hf : f.WF) (ops : List (FOp K))
    (hops : ∀ op ∈ ops, FOp.ok op) : (f.run ops).WF := by
  induction ops generalizing f with
  | nil => exact hf
  | cons op ops ih =>
    simp only [FCorr.run, List.foldl_cons]
    exact ih _ (fits_step_WF f hf op (hops op List.mem_cons_self))
      (fun o ho => hops o (List.mem_cons_of_mem _ ho))

section fits
variable (f : FCorr K) (hf : f.WF) (δ δinv : V2 K → V2 K) (hδ1 : ∀ p, δinv (δ p) = p)
  (hδ2 : ∀ x, δ (δinv x) = x)
include hf

theorem fits_w2p_p2w (x : V2 K) : f.world2pix (f.pix2world x) = x := by
  rw [f.world2pix_eq hf, f.pix2world_eq, Aff.inv_app f.toSky hf]

theorem fits_p2w_w2p (w : V2 K) : f.pix2world (f.world2pix w) = w := by
  rw [f.world2pix_eq hf, f.pix2world_eq, Aff.app_inv f.toSky hf]

include hδ1 in
theorem fits_world_det (p : V2 K) : f.worldToDet δinv (f.detToWorld δ p) = p := by
  simp only [FCorr.worldToDet, FCorr.detToWorld, fits_w2p_p2w f hf, hδ1]

include hδ2 in
theorem fits_det_world (w : V2 K) : f.detToWorld δ (f.worldToDet δinv w) = w := by
  simp only [FCorr.worldToDet, FCorr.detToWorld, hδ2, fits_p2w_w2p f hf]

include hδ1 in
theorem fits_tanp_det (p : V2 K) : f.tanpToDet δinv (f.detToTanp δ p) = p := by
  simp only [FCorr.tanpToDet, FCorr.detToTanp, fits_w2p_p2w f hf, hδ1]

include hδ2 in
theorem fits_det_tanp (x : V2 K) : f.detToTanp δ (f.tanpToDet δinv x) = x := by
  simp only [FCorr.tanpToDet, FCorr.detToTanp, fits_w2p_p2w f hf, hδ2]

theorem fits_tanp_world (x : V2 K) : f.worldToTanp (f.tanpToWorld x) = x := by
  simp only [FCorr.worldToTanp, FCorr.tanpToWorld, fits_w2p_p2w f hf]

theorem fits_world_tanp (w : V2 K) : f.tanpToWorld (f.worldToTanp w) = w := by
  simp only [FCorr.worldToTanp, FCorr.tanpToWorld, fits_p2w_w2p f hf]

omit hf in
theorem fits_triangle_world (p : V2 K) : f.tanpToWorld (f.detToTanp δ p) = f.detToWorld δ p := rfl

theorem fits_triangle_tanp (p : V2 K) : f.worldToTanp (f.detToWorld δ p) = f.detToTanp δ p := by
  simp only [FCorr.worldToTanp, FCorr.detToWorld, FCorr.detToTanp, fits_w2p_p2w f hf]

theorem fits_triangle_det (w : V2 K) : f.tanpToDet δinv (f.worldToTanp w) = f.worldToDet δinv w := by
  simp only [FCorr.tanpToDet, FCorr.worldToTanp, FCorr.worldToDet, fits_w2p_p2w f hf]

end fits

/-- output shape follows input shape: a conversion applied to an array (any shape, flattened)
is the pointwise map, so the number of elements and their order are those of the input -/
theorem shape_preserved {α β : Type} (conv : α → β) (xs : List α) :
    (xs.map conv).length = xs.length ∧ ∀ i (hi : i < xs.length),
      (xs.map conv)[i]'(by simpa using hi) = conv (xs[i]) := by
  refine ⟨List.length_map _, ?_⟩
  intro i hi
  simp

-- non-vacuity: a concrete corrected and re-wrapped state round-trips a point (ℚ)
example :
    let env : GEnv ℚ := ⟨id, id, id, id, id, id, 3600⟩
    let g : GCorr ℚ := (GCorr.fresh ["detector", "v2v3", "world"]).run 3600
      [.setCorr ⟨⟨1, 1/10, 0, 1⟩, ⟨5, -7⟩⟩ none, .rewrap, .setCorr ⟨⟨0, -1, 1, 0⟩, ⟨2, 3⟩⟩ none]
    g.worldToDet env (g.detToWorld env ⟨1/2, 1/3⟩) = ⟨1/2, 1/3⟩
      ∧ g.tanpToWorld env (g.detToTanp env ⟨1/2, 1/3⟩) = g.detToWorld env ⟨1/2, 1/3⟩ := by
  decide +kernel

/-! ### The concrete V2V3 ⇄ tangent-plane pipeline of `JWSTWCSCorrector` inside the model

`Model/TanProj.lean` builds `U = unit_conv | s2c | rot | c2tan` and
`Uinv = tan2c | rot_inv | c2s | unit_conv_inv` of `_tpcorr_init` concretely.  (a) Cartesian core
over any ordered field, (b) orthogonality of the rotation sequence, (c) sphere ⇄ Cartesian at `ℝ`,
(d) the two round trips of `U`, (e) consequences for the corrector model (`D`, `R` still
arbitrary bijections) and for `total_corr`. -/
section tanproj

/-! #### (a) Cartesian core -/

/-- plane → ray → rotate back → rotate → plane is the identity for EVERY plane point, as soon as
`R·Rᵀ = I` -/
theorem tanproj_cart_plane_roundtrip (r : M3 K) (h : r.mul r.transpose = M3.one) (p : V2 K) :
    c2tan (r.mulVec (r.transpose.mulVec (tan2c p))) = p :=
  cart_plane_roundtrip r h p

/-- direction → plane → direction returns the same ray, `(1/(R v).x) • v`, whenever the rotated
vector is off the plane `x = 0`, as soon as `Rᵀ·R = I` -/
theorem tanproj_cart_ray_roundtrip (r : M3 K) (h : r.transpose.mul r = M3.one) (v : V3 K)
    (hx : (r.mulVec v).x ≠ 0) :
    r.transpose.mulVec (tan2c (c2tan (r.mulVec v))) = V3.smul (1 / (r.mulVec v).x) v :=
  cart_ray_roundtrip r h v hx

/-- the executable Cartesian core (driver op `tp.cart`) with an affine map applied first -/
theorem tanproj_cartPlane (r : M3 K) (h : r.mul r.transpose = M3.one) (a : Aff K) (p : V2 K) :
    cartPlane r r.transpose a p = a.app p :=
  cart_plane_roundtrip r h (a.app p)

-- non-vacuity: a rational rotation sequence from three Pythagorean triples is orthogonal, and a
-- concrete direction is off the plane `x = 0`
example :
    let r : M3 ℚ := rotZYXcs (3/5) (4/5) (5/13) (12/13) (8/17) (15/17)
    r.mul r.transpose = M3.one ∧ r.transpose.mul r = M3.one ∧ (r.mulVec ⟨2/7, -1/3, 1/5⟩).x ≠ 0 ∧
      cartPlane r r.transpose ⟨⟨1, 1/10, 0, 1⟩, ⟨5, -7⟩⟩ ⟨1/2, 1/3⟩ = ⟨83/15, -20/3⟩ := by
  decide +kernel

/-! #### (b) the rotation sequence -/

/-- `_create_matrix(angles, 'zyx')` is orthogonal whenever each `(c, s)` pair lies on the unit
circle -/
theorem tanproj_rotZYXcs_orth (c0 s0 c1 s1 c2 s2 : K) (h0 : c0 * c0 + s0 * s0 = 1)
    (h1 : c1 * c1 + s1 * s1 = 1) (h2 : c2 * c2 + s2 * s2 = 1) :
    (rotZYXcs c0 s0 c1 s1 c2 s2).mul (rotZYXcs c0 s0 c1 s1 c2 s2).transpose = M3.one ∧
    (rotZYXcs c0 s0 c1 s1 c2 s2).transpose.mul (rotZYXcs c0 s0 c1 s1 c2 s2) = M3.one :=
  rotZYXcs_orth c0 s0 c1 s1 c2 s2 h0 h1 h2

/-- the matrix of `RotationSequence3D.inverse` (axes reversed, angles reversed and negated:
`cos` even, `sin` odd) is the transpose — for all `c`, `s` -/
theorem tanproj_rotXYZcs_neg_eq_transpose (c0 s0 c1 s1 c2 s2 : K) :
    rotXYZcs c2 (-s2) c1 (-s1) c0 (-s0) = (rotZYXcs c0 s0 c1 s1 c2 s2).transpose :=
  rotXYZcs_neg_eq_transpose c0 s0 c1 s1 c2 s2

example : (3/5 : ℚ) * (3/5) + (4/5) * (4/5) = 1 ∧ (5/13 : ℚ) * (5/13) + (12/13) * (12/13) = 1 ∧
    (8/17 : ℚ) * (8/17) + (15/17) * (15/17) = 1 := by decide +kernel

/-- at `ℝ`: for ALL angles the model's `rot` is orthogonal and the model's `rot_inv` is its
transpose -/
theorem tanproj_rotZYX_orth (a0 a1 a2 : ℝ) :
    (rotZYX a0 a1 a2).mul (rotZYX a0 a1 a2).transpose = M3.one ∧
    (rotZYX a0 a1 a2).transpose.mul (rotZYX a0 a1 a2) = M3.one ∧
    rotZYXinv a0 a1 a2 = (rotZYX a0 a1 a2).transpose :=
  ⟨(rotZYX_orth a0 a1 a2).1, (rotZYX_orth a0 a1 a2).2, rotZYXinv_eq_transpose a0 a1 a2⟩

/-! #### (c) sphere ⇄ Cartesian at `ℝ` -/

/-- `c2s ∘ s2c = id` for `lon ∈ (−180, 180]` (the range of `arctan2`; `wrap_lon_at=180` applies
no further wrapping) and `lat ∈ (−90, 90)` -/
theorem tanproj_c2s_s2c (lon lat : ℝ) (h1 : -180 < lon) (h2 : lon ≤ 180) (h3 : -90 < lat)
    (h4 : lat < 90) : c2s (s2c lon lat) = ⟨lon, lat⟩ :=
  c2s_s2c lon lat h1 h2 h3 h4

example : (-180 : ℝ) < 180 ∧ (180 : ℝ) ≤ 180 ∧ (-90 : ℝ) < 89 ∧ (89 : ℝ) < 90 := by norm_num

/-- `c2s` sees the ray only -/
theorem tanproj_c2s_smul (k : ℝ) (hk : 0 < k) (v : V3 ℝ) : c2s (V3.smul k v) = c2s v :=
  c2s_smul k hk v

/-- `s2c ∘ c2s` is the normalisation `v ↦ v/‖v‖`, for every `v ≠ 0` including the poles (where
`lon[h == 0] *= 0` acts) -/
theorem tanproj_s2c_c2s (v : V3 ℝ) (hv : v ≠ ⟨0, 0, 0⟩) :
    s2c (c2s v).x (c2s v).y = V3.smul (1 / v.norm) v :=
  s2c_c2s v hv

example : (⟨0, 0, -2⟩ : V3 ℝ) ≠ ⟨0, 0, 0⟩ := by
  intro h; have := congrArg V3.z h; norm_num at this

/-- the exact boundary behaviour of the code's conventions: longitudes are `360`-periodic on the
way in (so `c2s ∘ s2c` returns the representative in `(−180, 180]`), and at the poles the
longitude is lost (`lon[h == 0] *= 0`) -/
theorem tanproj_c2s_s2c_boundary (lon lat : ℝ) :
    s2c (lon + 360) lat = s2c lon lat ∧ c2s (s2c lon 90) = ⟨0, 90⟩ ∧
      c2s (s2c lon (-90)) = ⟨0, -90⟩ :=
  ⟨s2c_periodic lon lat, c2s_s2c_north lon, c2s_s2c_south lon⟩

/-! #### (d) round trips of `U` -/

/-- `U (Uinv x) = x` for EVERY plane point and every reference triple -/
theorem tanproj_U_Uinv (v2ref v3ref roll : ℝ) (x : V2 ℝ) :
    tpU v2ref v3ref roll (tpUinv v2ref v3ref roll x) = x :=
  tpU_tpUinv v2ref v3ref roll x

/-- `Uinv (U v) = v` for every V2V3 point (arcsec) with longitude in `(−180°, 180°]`, latitude in
`(−90°, 90°)` in the open hemisphere facing the reference direction -/
theorem tanproj_Uinv_U (v2ref v3ref roll : ℝ) (v : V2 ℝ)
    (hd : tpInDomain v2ref v3ref roll v = true) :
    tpUinv v2ref v3ref roll (tpU v2ref v3ref roll v) = v :=
  tpUinv_tpU v2ref v3ref roll v hd

-- non-vacuity: reference direction `v2_ref = 90°`, a point 30° away from it (`v2 = 60° = 216000″`)
example : tpInDomain (90 : ℝ) 0 0 ⟨216000, 0⟩ = true := tpInDomain_example

/-- the hemisphere condition is necessary: a point that `Uinv ∘ U` returns unchanged lies in
the open hemisphere facing the reference direction -/
theorem tanproj_Uinv_U_only_hemisphere (v2ref v3ref roll : ℝ) (v : V2 ℝ)
    (hv : tpUinv v2ref v3ref roll (tpU v2ref v3ref roll v) = v) :
    0 < ((tpRot v2ref v3ref roll).mulVec (v23ToCart v)).x := by
  have := tpUinv_hemisphere v2ref v3ref roll (tpU v2ref v3ref roll v)
  rwa [hv] at this

/-- the decidable domain predicate of the model, spelled out -/
theorem tanproj_domain_iff (v2ref v3ref roll : ℝ) (v : V2 ℝ) :
    tpInDomain v2ref v3ref roll v = true ↔
    (-180 < (arcsec2deg v).x ∧ (arcsec2deg v).x ≤ 180 ∧ -90 < (arcsec2deg v).y ∧
      (arcsec2deg v).y < 90 ∧ 0 < ((tpRot v2ref v3ref roll).mulVec (v23ToCart v)).x) :=
  tpInDomain_iff v2ref v3ref roll v

/-- every point `Uinv` returns is in the closed domain's hemisphere: the image of the plane is
the set of directions whose rotated first coordinate is positive -/
theorem tanproj_Uinv_hemisphere (v2ref v3ref roll : ℝ) (x : V2 ℝ) :
    0 < ((tpRot v2ref v3ref roll).mulVec (v23ToCart (tpUinv v2ref v3ref roll x))).x :=
  tpUinv_hemisphere v2ref v3ref roll x

/-! #### (e) the corrector model when `U` is only a partial bijection -/
section pbij
variable (env : GEnv K) {dom : V2 K → Prop} (h : env.PBij dom) (g : GCorr K) (hg : g.WF)
include h hg

/-- `det_to_tanp ∘ tanp_to_det = id`: needs `U ∘ Uinv = id` only — unconditional -/
theorem pgwcs_det_tanp (x : V2 K) : g.detToTanp env (g.tanpToDet env x) = x := by
  simp only [GCorr.detToTanp, GCorr.tanpToDet, GCorr.partialFwd, GCorr.partialInv, h.D_Dinv,
    h.U_Uinv, Aff.app_inv _ hg.1, smul_sdiv _ h.c_ne]

/-- `world_to_tanp ∘ tanp_to_world = id` — unconditional -/
theorem pgwcs_tanp_world (x : V2 K) : g.worldToTanp env (g.tanpToWorld env x) = x := by
  cases hc : g.corrected with
  | true =>
    simp only [GCorr.worldToTanp, GCorr.tanpToWorld, GCorr.partialFwd, GCorr.partialInv,
      g.worldToV23_corrected env hc, g.v23ToWorld_corrected env hc, h.U_Uinv, h.Rinv_R,
      Aff.app_inv _ hg.1, smul_sdiv _ h.c_ne]
  | false =>
    simp only [GCorr.worldToTanp, GCorr.tanpToWorld, GCorr.partialFwd, GCorr.partialInv,
      g.worldToV23_fresh env hc, g.v23ToWorld_fresh env hc, h.U_Uinv, h.Rinv_R,
      Aff.app_inv _ hg.1, smul_sdiv _ h.c_ne]

/-- `tanp_to_det ∘ det_to_tanp = id` at detector points whose V2V3 image is in the domain -/
theorem pgwcs_tanp_det (p : V2 K) (hd : dom (env.D p)) :
    g.tanpToDet env (g.detToTanp env p) = p := by
  simp only [GCorr.detToTanp, GCorr.tanpToDet, GCorr.partialFwd, GCorr.partialInv,
    sdiv_smul _ h.c_ne, Aff.inv_app _ hg.1, h.Uinv_U _ hd, h.Dinv_D]

/-- `tanp_to_world ∘ world_to_tanp = id` at sky points whose V2V3 pre-image is in the domain -/
theorem pgwcs_world_tanp (w : V2 K) (hd : dom (env.Rinv w)) :
    g.tanpToWorld env (g.worldToTanp env w) = w := by
  cases hc : g.corrected with
  | true =>
    simp only [GCorr.worldToTanp, GCorr.tanpToWorld, GCorr.partialFwd, GCorr.partialInv,
      g.worldToV23_corrected env hc, g.v23ToWorld_corrected env hc, h.U_Uinv,
      sdiv_smul _ h.c_ne, Aff.app_inv _ hg.1, h.Uinv_U _ hd, h.R_Rinv]
  | false =>
    simp only [GCorr.worldToTanp, GCorr.tanpToWorld, GCorr.partialFwd, GCorr.partialInv,
      g.worldToV23_fresh env hc, g.v23ToWorld_fresh env hc,
      sdiv_smul _ h.c_ne, Aff.inv_app _ hg.1, h.Uinv_U _ hd, h.R_Rinv]

/-- `world_to_det ∘ det_to_world = id` at detector points whose V2V3 image is in the domain -/
theorem pgwcs_world_det (p : V2 K) (hd : dom (env.D p)) :
    g.worldToDet env (g.detToWorld env p) = p := by
  cases hc : g.corrected with
  | true =>
    simp only [GCorr.worldToDet, GCorr.detToWorld, g.worldToV23_corrected env hc,
      g.v23ToWorld_corrected env hc, h.Rinv_R, h.U_Uinv, Aff.inv_app _ hg.1, h.Uinv_U _ hd,
      h.Dinv_D]
  | false =>
    simp only [GCorr.worldToDet, GCorr.detToWorld, g.worldToV23_fresh env hc,
      g.v23ToWorld_fresh env hc, h.Rinv_R, h.Dinv_D]

/-- `det_to_world ∘ world_to_det = id` at sky points whose V2V3 pre-image is in the domain -/
theorem pgwcs_det_world (w : V2 K) (hd : dom (env.Rinv w)) :
    g.detToWorld env (g.worldToDet env w) = w := by
  cases hc : g.corrected with
  | true =>
    simp only [GCorr.worldToDet, GCorr.detToWorld, g.worldToV23_corrected env hc,
      g.v23ToWorld_corrected env hc, h.D_Dinv, h.U_Uinv, Aff.app_inv _ hg.1, h.Uinv_U _ hd,
      h.R_Rinv]
  | false =>
    simp only [GCorr.worldToDet, GCorr.detToWorld, g.worldToV23_fresh env hc,
      g.v23ToWorld_fresh env hc, h.D_Dinv, h.R_Rinv]

/-- `tanp_to_world ∘ det_to_tanp = det_to_world`: unconditional once the WCS carries a
correction; before the first correction `det_to_world` does not go through `U`, so the point must
be in the domain -/
theorem pgwcs_triangle_world (p : V2 K) (hd : g.corrected = false → dom (env.D p)) :
    g.tanpToWorld env (g.detToTanp env p) = g.detToWorld env p := by
  cases hc : g.corrected with
  | true =>
    simp only [GCorr.tanpToWorld, GCorr.detToTanp, GCorr.detToWorld, GCorr.partialFwd,
      GCorr.partialInv, g.v23ToWorld_corrected env hc, sdiv_smul _ h.c_ne, Aff.inv_app _ hg.1,
      h.U_Uinv]
  | false =>
    simp only [GCorr.tanpToWorld, GCorr.detToTanp, GCorr.detToWorld, GCorr.partialFwd,
      GCorr.partialInv, g.v23ToWorld_fresh env hc, sdiv_smul _ h.c_ne, Aff.inv_app _ hg.1,
      h.Uinv_U _ (hd hc)]

/-- `world_to_tanp ∘ det_to_world = det_to_tanp` — unconditional -/
theorem pgwcs_triangle_tanp (p : V2 K) :
    g.worldToTanp env (g.detToWorld env p) = g.detToTanp env p := by
  cases hc : g.corrected with
  | true =>
    simp only [GCorr.worldToTanp, GCorr.detToTanp, GCorr.detToWorld, GCorr.partialFwd,
      g.worldToV23_corrected env hc, g.v23ToWorld_corrected env hc, h.Rinv_R, h.U_Uinv,
      Aff.inv_app _ hg.1]
  | false =>
    simp only [GCorr.worldToTanp, GCorr.detToTanp, GCorr.detToWorld, GCorr.partialFwd,
      g.worldToV23_fresh env hc, g.v23ToWorld_fresh env hc, h.Rinv_R]

/-- `tanp_to_det ∘ world_to_tanp = world_to_det`: unconditional once corrected -/
theorem pgwcs_triangle_det (w : V2 K) (hd : g.corrected = false → dom (env.Rinv w)) :
    g.tanpToDet env (g.worldToTanp env w) = g.worldToDet env w := by
  cases hc : g.corrected with
  | true =>
    simp only [GCorr.tanpToDet, GCorr.worldToTanp, GCorr.worldToDet, GCorr.partialFwd,
      GCorr.partialInv, g.worldToV23_corrected env hc, sdiv_smul _ h.c_ne, h.U_Uinv,
      Aff.app_inv _ hg.1]
  | false =>
    simp only [GCorr.tanpToDet, GCorr.worldToTanp, GCorr.worldToDet, GCorr.partialFwd,
      GCorr.partialInv, g.worldToV23_fresh env hc, sdiv_smul _ h.c_ne,
      Aff.inv_app _ hg.1, h.Uinv_U _ (hd hc)]

end pbij

/-! #### (e) the concrete environment -/

/-- the environment built from the concrete `U`/`Uinv` and arbitrary bijections `D`, `R` is a
partial-bijection environment on `tpInDomain`; `U ∘ Uinv = id` holds everywhere -/
theorem tanproj_env_pbij (v2ref v3ref roll : ℝ) (D Dinv R Rinv : V2 ℝ → V2 ℝ) (c : ℝ)
    (hD1 : ∀ p, Dinv (D p) = p) (hD2 : ∀ v, D (Dinv v) = v) (hR1 : ∀ v, Rinv (R v) = v)
    (hR2 : ∀ w, R (Rinv w) = w) (hc : c ≠ 0) :
    (tpEnv v2ref v3ref roll D Dinv R Rinv c).PBij (fun v => tpInDomain v2ref v3ref roll v = true) :=
  ⟨hD1, hD2, fun v hv => tpUinv_tpU v2ref v3ref roll v hv, tpU_tpUinv v2ref v3ref roll, hR1, hR2, hc⟩

/-- the model's correction maps over the concrete environment ARE `total_corr`, its inverse,
`_v2v3_to_tpcorr_from_full(tpcorr)` and its inverse (definitional) -/
theorem tanproj_env_maps (v2ref v3ref roll : ℝ) (D Dinv R Rinv : V2 ℝ → V2 ℝ) (c : ℝ)
    (g : GCorr ℝ) (v : V2 ℝ) :
    g.tpcorrFwd (tpEnv v2ref v3ref roll D Dinv R Rinv c) v = totalCorr v2ref v3ref roll g.aff v ∧
    g.tpcorrInv (tpEnv v2ref v3ref roll D Dinv R Rinv c) v = invTotalCorr v2ref v3ref roll g.aff v ∧
    g.partialFwd (tpEnv v2ref v3ref roll D Dinv R Rinv c) v = v2v3ToTpcorr v2ref v3ref roll g.aff v ∧
    g.partialInv (tpEnv v2ref v3ref roll D Dinv R Rinv c) v = tpcorrToV2v3 v2ref v3ref roll g.aff v :=
  ⟨rfl, rfl, rfl, rfl⟩

/-- every state reachable from a fresh corrector by admissible operations is well formed, whatever
the environment (only `c ≠ 0` matters): the theorems below apply to all reachable states -/
theorem tanproj_reachable_WF (c : K) (hc : c ≠ 0) (frms : List String)
    (hfr : frms.contains "v2v3corr" = false) (ops : List (GOp K)) (hops : ∀ op ∈ ops, GOp.ok op) :
    ((GCorr.fresh frms : GCorr K).run c ops).WF :=
  gwcs_reachable_WF (⟨id, id, id, id, id, id, c⟩ : GEnv K)
    ⟨fun _ => rfl, fun _ => rfl, fun _ => rfl, fun _ => rfl, fun _ => rfl, fun _ => rfl, hc⟩
    frms hfr ops hops

section concrete
variable (v2ref v3ref roll : ℝ) (D Dinv R Rinv : V2 ℝ → V2 ℝ) (c : ℝ)
  (hD1 : ∀ p, Dinv (D p) = p) (hD2 : ∀ v, D (Dinv v) = v) (hR1 : ∀ v, Rinv (R v) = v)
  (hR2 : ∀ w, R (Rinv w) = w) (hc : c ≠ 0) (g : GCorr ℝ) (hg : g.WF)
include hD1 hD2 hR1 hR2 hc hg

/-- unconditional chart-level round trips and triangle over the concrete environment -/
theorem tanproj_gwcs_unconditional (x : V2 ℝ) (p : V2 ℝ) :
    let env := tpEnv v2ref v3ref roll D Dinv R Rinv c
    g.detToTanp env (g.tanpToDet env x) = x ∧ g.worldToTanp env (g.tanpToWorld env x) = x ∧
    g.worldToTanp env (g.detToWorld env p) = g.detToTanp env p := by
  have h := tanproj_env_pbij v2ref v3ref roll D Dinv R Rinv c hD1 hD2 hR1 hR2 hc
  exact ⟨pgwcs_det_tanp _ h g hg x, pgwcs_tanp_world _ h g hg x, pgwcs_triangle_tanp _ h g hg p⟩

/-- round trips and triangle that start at a detector point whose V2V3 image is in the domain -/
theorem tanproj_gwcs_det (p : V2 ℝ) (hd : tpInDomain v2ref v3ref roll (D p) = true) :
    let env := tpEnv v2ref v3ref roll D Dinv R Rinv c
    g.tanpToDet env (g.detToTanp env p) = p ∧ g.worldToDet env (g.detToWorld env p) = p ∧
    g.tanpToWorld env (g.detToTanp env p) = g.detToWorld env p := by
  have h := tanproj_env_pbij v2ref v3ref roll D Dinv R Rinv c hD1 hD2 hR1 hR2 hc
  exact ⟨pgwcs_tanp_det _ h g hg p hd, pgwcs_world_det _ h g hg p hd,
    pgwcs_triangle_world _ h g hg p (fun _ => hd)⟩

/-- round trips and triangle that start at a sky point whose V2V3 pre-image is in the domain -/
theorem tanproj_gwcs_world (w : V2 ℝ) (hd : tpInDomain v2ref v3ref roll (Rinv w) = true) :
    let env := tpEnv v2ref v3ref roll D Dinv R Rinv c
    g.tanpToWorld env (g.worldToTanp env w) = w ∧ g.detToWorld env (g.worldToDet env w) = w ∧
    g.tanpToDet env (g.worldToTanp env w) = g.worldToDet env w := by
  have h := tanproj_env_pbij v2ref v3ref roll D Dinv R Rinv c hD1 hD2 hR1 hR2 hc
  exact ⟨pgwcs_world_tanp _ h g hg w hd, pgwcs_det_world _ h g hg w hd,
    pgwcs_triangle_det _ h g hg w (fun _ => hd)⟩

end concrete

-- non-vacuity of the hypotheses of the three theorems above: a reachable (corrected, re-wrapped)
-- state is well formed, the concrete environment with `D = R = id` is a partial-bijection
-- environment, and a concrete detector point has its V2V3 image in the domain
example :
    let g : GCorr ℝ := (GCorr.fresh ["detector", "v2v3", "world"]).run 3600
      [.setCorr ⟨⟨1, 1/10, 0, 1⟩, ⟨5, -7⟩⟩ none, .rewrap]
    g.WF ∧ (tpEnv (90 : ℝ) 0 0 id id id id 3600).PBij (fun v => tpInDomain 90 0 0 v = true) ∧
      tpInDomain (90 : ℝ) 0 0 (id ⟨216000, 0⟩) = true := by
  refine ⟨tanproj_reachable_WF 3600 (by norm_num) _ (by decide) _ ?_,
    tanproj_env_pbij 90 0 0 id id id id 3600 (fun _ => rfl) (fun _ => rfl) (fun _ => rfl)
      (fun _ => rfl) (by norm_num), tpInDomain_example⟩
  intro op hop
  simp only [List.mem_cons, List.mem_nil_iff, or_false] at hop
  rcases hop with rfl | rfl
  · exact ⟨by simp [M2.det], fun q' hq => by cases hq⟩
  · trivial

/-! #### (e) `total_corr` at sphere level -/

/-- `total_corr.inverse ∘ total_corr = id` on the domain -/
theorem tanproj_invTotal_total (v2ref v3ref roll : ℝ) (a : Aff ℝ) (ha : a.m.det ≠ 0) (v : V2 ℝ)
    (hd : tpInDomain v2ref v3ref roll v = true) :
    invTotalCorr v2ref v3ref roll a (totalCorr v2ref v3ref roll a v) = v := by
  simp only [invTotalCorr, totalCorr, tpU_tpUinv, Aff.inv_app _ ha, tpUinv_tpU _ _ _ _ hd]

/-- `total_corr ∘ total_corr.inverse = id` on the domain -/
theorem tanproj_total_invTotal (v2ref v3ref roll : ℝ) (a : Aff ℝ) (ha : a.m.det ≠ 0) (v : V2 ℝ)
    (hd : tpInDomain v2ref v3ref roll v = true) :
    totalCorr v2ref v3ref roll a (invTotalCorr v2ref v3ref roll a v) = v := by
  simp only [invTotalCorr, totalCorr, tpU_tpUinv, Aff.app_inv _ ha, tpUinv_tpU _ _ _ _ hd]

/-- `total_corr` with the identity affine (a fresh `_tpcorr_init`) is the identity on the domain -/
theorem tanproj_total_id (v2ref v3ref roll : ℝ) (v : V2 ℝ)
    (hd : tpInDomain v2ref v3ref roll v = true) : totalCorr v2ref v3ref roll Aff.id v = v := by
  simp only [totalCorr, Aff.id_app, tpUinv_tpU _ _ _ _ hd]

/-- composition law at sphere level, for EVERY V2V3 point (the intermediate point
`total_corr(B)(v)` is an image of `Uinv`, hence always in the hemisphere) -/
theorem tanproj_total_comp (v2ref v3ref roll : ℝ) (a b : Aff ℝ) (v : V2 ℝ) :
    totalCorr v2ref v3ref roll (a.comp b) v =
      totalCorr v2ref v3ref roll a (totalCorr v2ref v3ref roll b v) := by
  simp only [totalCorr, tpU_tpUinv, Aff.app_comp]

/-- `_tpcorr_combine_affines` at sphere level: the updated `total_corr` is the old one followed
by the `total_corr` of the new increment -/
theorem tanproj_total_combine (v2ref v3ref roll c : ℝ) (old f : Aff ℝ) (v : V2 ℝ) :
    totalCorr v2ref v3ref roll (combineAffines c old f) v =
      totalCorr v2ref v3ref roll ⟨f.m, f.t.sdiv c⟩ (totalCorr v2ref v3ref roll old v) := by
  have : combineAffines c old f = (⟨f.m, f.t.sdiv c⟩ : Aff ℝ).comp old := rfl
  rw [this, tanproj_total_comp]

/-- `_v2v3_to_tpcorr_from_full(tpcorr)` and its `.inverse`: plane side unconditional, V2V3 side
on the domain -/
theorem tanproj_partial_roundtrip (v2ref v3ref roll : ℝ) (a : Aff ℝ) (ha : a.m.det ≠ 0) :
    (∀ x, v2v3ToTpcorr v2ref v3ref roll a (tpcorrToV2v3 v2ref v3ref roll a x) = x) ∧
    (∀ v, tpInDomain v2ref v3ref roll v = true →
      tpcorrToV2v3 v2ref v3ref roll a (v2v3ToTpcorr v2ref v3ref roll a v) = v) := by
  constructor
  · intro x
    simp only [v2v3ToTpcorr, tpcorrToV2v3, tpU_tpUinv, Aff.app_inv _ ha]
  · intro v hd
    simp only [v2v3ToTpcorr, tpcorrToV2v3, Aff.inv_app _ ha, tpUinv_tpU _ _ _ _ hd]

-- non-vacuity of the affine hypotheses (an invertible correction) over ℝ
example : (⟨⟨1, 1/10, 0, 1⟩, ⟨5, -7⟩⟩ : Aff ℝ).m.det ≠ 0 := by
  simp [M2.det]

end tanproj

end TW.C03
