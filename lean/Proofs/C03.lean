import Proofs.GCorrLemmas
import Proofs.FCorrLemmas

/-!
# C03 — detector, tangent-plane and world transforms of a corrector are coherent

In every reachable state (fresh, after any sequence of corrections, copies and re-wrappings) the
six conversions are pairwise inverse and commute.  gWCS: for ARBITRARY bijective `D`, `U`, `R`
(every geometry/distortion); FITS: flat-sky model with arbitrary bijective distortion `δ`.
The conversions are pointwise maps, so applying them to an array of any shape is `List.map`
(`shape_preserved`).  Property theorems only.
-/
open TW
set_option linter.unusedSectionVars false

namespace TW.C03
variable {K : Type} [Field K] [LinearOrder K] [IsStrictOrderedRing K]

/-- a gWCS operation is admissible when the matrices it carries are invertible -/
def GOp.ok : GOp K → Prop
  | .setCorr f q => f.m.det ≠ 0 ∧ ∀ q', q = some q' → q'.m.det ≠ 0
  | .rewrap => True
  | .copy => True

/-- frame bookkeeping invariant tying `corrected` to the pipeline (needed for re-wrapping) -/
def FrameInv (g : GCorr K) : Prop :=
  (g.corrected = true → g.frames.contains "v2v3corr" = true) ∧
  (g.corrected = false → g.frames.contains "v2v3corr" = false)

theorem contains_insertAt (s : String) (n : ℕ) (l : List String) :
    (insertAt s n l).contains s = true := by
  induction n generalizing l with
  | zero => simp [insertAt]
  | succ n ih =>
    cases l with
    | nil => simp [insertAt]
    | cons a l => simp only [insertAt, List.contains_cons]; rw [ih]; simp

theorem step_inv (env : GEnv K) (h : env.Bij) (g : GCorr K) (op : GOp K) (hop : GOp.ok op)
    (hg : g.WF ∧ FrameInv g) : (g.step env.c op).WF ∧ FrameInv (g.step env.c op) := by
  obtain ⟨hw, hf1, hf2⟩ := hg
  cases op with
  | setCorr f q =>
    refine ⟨g.setCorrection_WF env hw h f q hop.1 hop.2, ?_, ?_⟩
    · intro _
      simp only [GCorr.step, GCorr.setCorrection]
      cases hc : g.corrected with
      | true => simpa using hf1 hc
      | false => simp only [Bool.false_eq_true, if_false]; exact contains_insertAt _ _ _
    · intro hc
      simp only [GCorr.step] at hc
      rw [GCorr.setCorrection_corrected] at hc; cases hc
  | copy => exact ⟨hw, hf1, hf2⟩
  | rewrap =>
    simp only [GCorr.step, GCorr.rewrap]
    cases hc : g.frames.contains "v2v3corr" with
    | true =>
      simp only [if_true]
      exact ⟨⟨hw.1, fun hcc => by cases hcc⟩, fun _ => hc, fun hcc => by cases hcc⟩
    | false =>
      simp only [Bool.false_eq_true, if_false]
      exact ⟨GCorr.fresh_WF _, fun hcc => by simp [GCorr.fresh] at hcc, fun _ => by simpa [GCorr.fresh] using hc⟩

/-- every state reachable from a fresh corrector by admissible operations is well formed -/
theorem gwcs_reachable_WF (env : GEnv K) (h : env.Bij) (frms : List String)
    (hfr : frms.contains "v2v3corr" = false) (ops : List (GOp K)) (hops : ∀ op ∈ ops, GOp.ok op) :
    ((GCorr.fresh frms : GCorr K).run env.c ops).WF := by
  suffices H : ∀ (ops : List (GOp K)) (g : GCorr K), (∀ op ∈ ops, GOp.ok op) → (g.WF ∧ FrameInv g) →
      ((g.run env.c ops).WF ∧ FrameInv (g.run env.c ops)) by
    exact (H ops _ hops ⟨GCorr.fresh_WF frms,
      fun hc => by simp [GCorr.fresh] at hc, fun _ => by simpa [GCorr.fresh] using hfr⟩).1
  intro ops
  induction ops with
  | nil => intro g _ hg; exact hg
  | cons op ops ih =>
    intro g hops hg
    simp only [GCorr.run, List.foldl_cons]
    exact ih _ (fun o ho => hops o (List.mem_cons_of_mem _ ho))
      (step_inv env h g op (hops op List.mem_cons_self) hg)

/-! ### gWCS: the six conversions in any well-formed state -/
section gwcs
variable (env : GEnv K) (h : env.Bij) (g : GCorr K) (hg : g.WF)
include h hg

theorem gwcs_world_det (p : V2 K) : g.worldToDet env (g.detToWorld env p) = p := by
  rw [g.worldToDet_chart env hg h, g.detToWorld_chart env hg h, env.sigmaInv_sigma h,
    Aff.inv_app _ (g.A_det env hg), env.tauInv_tau h]

theorem gwcs_det_world (w : V2 K) : g.detToWorld env (g.worldToDet env w) = w := by
  rw [g.worldToDet_chart env hg h, g.detToWorld_chart env hg h, env.tau_tauInv h,
    Aff.app_inv _ (g.A_det env hg), env.sigma_sigmaInv h]

theorem gwcs_tanp_det (p : V2 K) : g.tanpToDet env (g.detToTanp env p) = p := by
  rw [g.tanpToDet_chart env h, g.detToTanp_chart env, Aff.inv_app _ (g.A_det env hg),
    env.tauInv_tau h]

theorem gwcs_det_tanp (x : V2 K) : g.detToTanp env (g.tanpToDet env x) = x := by
  rw [g.tanpToDet_chart env h, g.detToTanp_chart env, env.tau_tauInv h,
    Aff.app_inv _ (g.A_det env hg)]

theorem gwcs_tanp_world (x : V2 K) : g.worldToTanp env (g.tanpToWorld env x) = x := by
  rw [g.worldToTanp_chart env hg h, g.tanpToWorld_chart env hg h, env.sigmaInv_sigma h]

theorem gwcs_world_tanp (w : V2 K) : g.tanpToWorld env (g.worldToTanp env w) = w := by
  rw [g.worldToTanp_chart env hg h, g.tanpToWorld_chart env hg h, env.sigma_sigmaInv h]

/-- `tanp_to_world ∘ det_to_tanp = det_to_world` -/
theorem gwcs_triangle_world (p : V2 K) :
    g.tanpToWorld env (g.detToTanp env p) = g.detToWorld env p := by
  rw [g.tanpToWorld_chart env hg h, g.detToTanp_chart env, g.detToWorld_chart env hg h]

/-- `world_to_tanp ∘ det_to_world = det_to_tanp` -/
theorem gwcs_triangle_tanp (p : V2 K) :
    g.worldToTanp env (g.detToWorld env p) = g.detToTanp env p := by
  rw [g.worldToTanp_chart env hg h, g.detToWorld_chart env hg h, env.sigmaInv_sigma h,
    g.detToTanp_chart env]

/-- `tanp_to_det ∘ world_to_tanp = world_to_det` -/
theorem gwcs_triangle_det (w : V2 K) :
    g.tanpToDet env (g.worldToTanp env w) = g.worldToDet env w := by
  rw [g.tanpToDet_chart env h, g.worldToTanp_chart env hg h, g.worldToDet_chart env hg h]

end gwcs

/-! ### FITS -/

def FOp.ok : FOp K → Prop
  | .setOwn M _ hx hy => M.det ≠ 0 ∧ hx ≠ 0 ∧ hy ≠ 0
  | .setRef P M _ hx hy => P.m.det ≠ 0 ∧ M.det ≠ 0 ∧ hx ≠ 0 ∧ hy ≠ 0
  | .rewrap => True
  | .copy => True

theorem fits_step_WF (f : FCorr K) (hf : f.WF) (op : FOp K) (hop : FOp.ok op) : (f.step op).WF := by
  cases op with
  | setOwn M s hx hy =>
    simp only [FCorr.step]
    rw [f.setCorrectionOwn_eq hf]
    exact f.setCorrectionRef_WF hf _ (Aff.det_inv_ne f.toSky hf) M s hop.1 hx hy hop.2.1 hop.2.2
  | setRef P M s hx hy =>
    exact f.setCorrectionRef_WF hf P hop.1 M s hop.2.1 hx hy hop.2.2.1 hop.2.2.2
  | rewrap => exact hf
  | copy => exact hf

theorem fits_reachable_WF (f : FCorr K) (hf : f.WF) (ops : List (FOp K))
    (hops : ∀ op ∈ ops, FOp.ok op) : (f.run ops).WF := by
  induction ops generalizing f with
  | nil => exact hf
  | cons op ops ih =>
    simp only [FCorr.run, List.foldl_cons]
    exact ih _ (fits_step_WF f hf op (hops op List.mem_cons_self))
      (fun o ho => hops o (List.mem_cons_of_mem _ ho))

section fits
variable (f : FCorr K) (hf : f.WF) (δ δinv : V2 K → V2 K) (hδ1 : ∀ p, δinv (δ p) = p)
  (hδ2 : ∀ x, δ (δinv x) = x)
include hf

theorem fits_w2p_p2w (x : V2 K) : f.world2pix (f.pix2world x) = x := by
  rw [f.world2pix_eq hf, f.pix2world_eq, Aff.inv_app f.toSky hf]

theorem fits_p2w_w2p (w : V2 K) : f.pix2world (f.world2pix w) = w := by
  rw [f.world2pix_eq hf, f.pix2world_eq, Aff.app_inv f.toSky hf]

include hδ1 in
theorem fits_world_det (p : V2 K) : f.worldToDet δinv (f.detToWorld δ p) = p := by
  simp only [FCorr.worldToDet, FCorr.detToWorld, fits_w2p_p2w f hf, hδ1]

include hδ2 in
theorem fits_det_world (w : V2 K) : f.detToWorld δ (f.worldToDet δinv w) = w := by
  simp only [FCorr.worldToDet, FCorr.detToWorld, hδ2, fits_p2w_w2p f hf]

include hδ1 in
theorem fits_tanp_det (p : V2 K) : f.tanpToDet δinv (f.detToTanp δ p) = p := by
  simp only [FCorr.tanpToDet, FCorr.detToTanp, fits_w2p_p2w f hf, hδ1]

include hδ2 in
theorem fits_det_tanp (x : V2 K) : f.detToTanp δ (f.tanpToDet δinv x) = x := by
  simp only [FCorr.tanpToDet, FCorr.detToTanp, fits_w2p_p2w f hf, hδ2]

theorem fits_tanp_world (x : V2 K) : f.worldToTanp (f.tanpToWorld x) = x := by
  simp only [FCorr.worldToTanp, FCorr.tanpToWorld, fits_w2p_p2w f hf]

theorem fits_world_tanp (w : V2 K) : f.tanpToWorld (f.worldToTanp w) = w := by
  simp only [FCorr.worldToTanp, FCorr.tanpToWorld, fits_p2w_w2p f hf]

omit hf in
theorem fits_triangle_world (p : V2 K) : f.tanpToWorld (f.detToTanp δ p) = f.detToWorld δ p := rfl

theorem fits_triangle_tanp (p : V2 K) : f.worldToTanp (f.detToWorld δ p) = f.detToTanp δ p := by
  simp only [FCorr.worldToTanp, FCorr.detToWorld, FCorr.detToTanp, fits_w2p_p2w f hf]

theorem fits_triangle_det (w : V2 K) : f.tanpToDet δinv (f.worldToTanp w) = f.worldToDet δinv w := by
  simp only [FCorr.tanpToDet, FCorr.worldToTanp, FCorr.worldToDet, fits_w2p_p2w f hf]

end fits

/-- output shape follows input shape: a conversion applied to an array (any shape, flattened)
is the pointwise map, so the number of elements and their order are those of the input -/
theorem shape_preserved {α β : Type} (conv : α → β) (xs : List α) :
    (xs.map conv).length = xs.length ∧ ∀ i (hi : i < xs.length),
      (xs.map conv)[i]'(by simpa using hi) = conv (xs[i]) := by
  refine ⟨List.length_map _, ?_⟩
  intro i hi
  simp

-- non-vacuity: a concrete corrected and re-wrapped state round-trips a point (ℚ)
example :
    let env : GEnv ℚ := ⟨id, id, id, id, id, id, 3600⟩
    let g : GCorr ℚ := (GCorr.fresh ["detector", "v2v3", "world"]).run 3600
      [.setCorr ⟨⟨1, 1/10, 0, 1⟩, ⟨5, -7⟩⟩ none, .rewrap, .setCorr ⟨⟨0, -1, 1, 0⟩, ⟨2, 3⟩⟩ none]
    g.worldToDet env (g.detToWorld env ⟨1/2, 1/3⟩) = ⟨1/2, 1/3⟩
      ∧ g.tanpToWorld env (g.detToTanp env ⟨1/2, 1/3⟩) = g.detToWorld env ⟨1/2, 1/3⟩ := by
  decide +kernel

end TW.C03
