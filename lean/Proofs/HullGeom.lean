import Mathlib.Algebra.Order.Field.Basic
import Mathlib.Tactic.Ring
import Mathlib.Tactic.Linarith
import Mathlib.Tactic.Positivity
import Model.Hull

open TW
set_option linter.unusedSectionVars false

namespace TW
variable {K : Type} [Field K] [LinearOrder K] [IsStrictOrderedRing K]

/-- strict lexicographic order on points (the order of Python tuples) -/
def lexlt (p q : Pt K) : Prop := p.1 < q.1 ∨ (p.1 = q.1 ∧ p.2 < q.2)

theorem lexlt_irrefl (p : Pt K) : ¬ lexlt p p := by
  rintro (h | ⟨_, h⟩) <;> exact lt_irrefl _ h

theorem lexlt_trans {p q r : Pt K} (h1 : lexlt p q) (h2 : lexlt q r) : lexlt p r := by
  rcases h1 with h1 | ⟨e1, h1⟩ <;> rcases h2 with h2 | ⟨e2, h2⟩
  · exact Or.inl (lt_trans h1 h2)
  · exact Or.inl (e2 ▸ h1)
  · exact Or.inl (e1 ▸ h2)
  · exact Or.inr ⟨e1.trans e2, lt_trans h1 h2⟩

theorem lexlt_trichotomy (p q : Pt K) : lexlt p q ∨ p = q ∨ lexlt q p := by
  rcases lt_trichotomy p.1 q.1 with h | h | h
  · exact Or.inl (Or.inl h)
  · rcases lt_trichotomy p.2 q.2 with h2 | h2 | h2
    · exact Or.inl (Or.inr ⟨h, h2⟩)
    · exact Or.inr (Or.inl (Prod.ext h h2))
    · exact Or.inr (Or.inr (Or.inr ⟨h.symm, h2⟩))
  · exact Or.inr (Or.inr (Or.inl h))

/-- the cross product is the wedge of the two difference vectors; written out -/
theorem cross_def (o a b : Pt K) :
    cross o a b = (a.1 - o.1) * (b.2 - o.2) - (a.2 - o.2) * (b.1 - o.1) := rfl

theorem cross_cyc (o a b : Pt K) : cross o a b = cross a b o := by
  simp only [cross_def]; ring

theorem cross_swap (o a b : Pt K) : cross o b a = - cross o a b := by
  simp only [cross_def]; ring

theorem cross_self_right (o a : Pt K) : cross o a a = 0 := by
  simp only [cross_def]; ring

theorem cross_self_mid (o a : Pt K) : cross o a o = 0 := by
  simp only [cross_def]; ring

/-- Transitivity of the angular order on the half plane of lexicographically positive vectors,
stated for points: `t` is the common apex, `x`, `y`, `z` are lexicographically beyond `t`. -/
theorem fan_trans (t x y z : Pt K) (hx : lexlt t x) (hy : lexlt t y) (hz : lexlt t z)
    (h1 : 0 ≤ cross t x y) (h2 : 0 ≤ cross t y z) : 0 ≤ cross t x z := by
  have key : cross t x z * (y.1 - t.1) = cross t x y * (z.1 - t.1) + cross t y z * (x.1 - t.1) := by
    simp only [cross_def]; ring
  rcases hy with hy | ⟨hy1, hy2⟩
  · -- y strictly to the right of t
    have hx' : 0 ≤ x.1 - t.1 := by rcases hx with h | ⟨h, _⟩ <;> linarith
    have hz' : 0 ≤ z.1 - t.1 := by rcases hz with h | ⟨h, _⟩ <;> linarith
    have hpos : 0 < y.1 - t.1 := by linarith
    have : 0 ≤ cross t x z * (y.1 - t.1) := by
      rw [key]; exact add_nonneg (mul_nonneg h1 hz') (mul_nonneg h2 hx')
    by_contra hneg
    have := mul_neg_of_neg_of_pos (not_le.mp hneg) hpos
    linarith
  · -- y straight above t
    have hyy : 0 < y.2 - t.2 := by linarith
    -- from h2: z cannot be strictly to the right
    have h2' : cross t y z = -((y.2 - t.2) * (z.1 - t.1)) := by
      simp only [cross_def]; rw [← hy1]; ring
    have hz1 : z.1 - t.1 ≤ 0 := by
      by_contra hc
      have : 0 < (y.2 - t.2) * (z.1 - t.1) := mul_pos hyy (not_le.mp hc)
      linarith
    rcases hz with hz | ⟨hz1', hz2⟩
    · linarith
    · have hx' : 0 ≤ x.1 - t.1 := by rcases hx with h | ⟨h, _⟩ <;> linarith
      have : cross t x z = (x.1 - t.1) * (z.2 - t.2) := by
        simp only [cross_def]; rw [← hz1']; ring
      rw [this]
      exact mul_nonneg hx' (by linarith)

/-- the mirror statement for points lexicographically *before* the apex -/
theorem fan_trans_back (t x y z : Pt K) (hx : lexlt x t) (hy : lexlt y t) (hz : lexlt z t)
    (h1 : 0 ≤ cross t x y) (h2 : 0 ≤ cross t y z) : 0 ≤ cross t x z := by
  -- reflect everything through t
  let r : Pt K → Pt K := fun p => (2 * t.1 - p.1, 2 * t.2 - p.2)
  have hr : ∀ a b : Pt K, cross t (r a) (r b) = cross t a b := by
    intro a b; simp only [cross_def, r]; ring
  have hl : ∀ a : Pt K, lexlt a t → lexlt t (r a) := by
    intro a ha
    rcases ha with h | ⟨h1, h2⟩
    · left; simp only [r]; linarith
    · right; simp only [r]; constructor <;> linarith
  have := fan_trans t (r x) (r y) (r z) (hl x hx) (hl y hy) (hl z hz) (by rw [hr]; exact h1) (by rw [hr]; exact h2)
  rwa [hr] at this

/-- wedge product of two vectors -/
def wedge (a b : Pt K) : K := a.1 * b.2 - a.2 * b.1

/-- lexicographically positive vector -/
def lexpos (v : Pt K) : Prop := 0 < v.1 ∨ (v.1 = 0 ∧ 0 < v.2)

def vsub (a b : Pt K) : Pt K := (a.1 - b.1, a.2 - b.2)

theorem lexpos_vsub {a b : Pt K} (h : lexlt a b) : lexpos (vsub b a) := by
  rcases h with h | ⟨h1, h2⟩
  · left; simp only [vsub]; linarith
  · right; simp only [vsub]; constructor <;> linarith

theorem cross_eq_wedge (o a b : Pt K) : cross o a b = wedge (vsub a o) (vsub b o) := by
  simp only [cross_def, wedge, vsub]

/-- transitivity of the angular order among lexicographically positive vectors -/
theorem wedge_trans (a b c : Pt K) (ha : lexpos a) (hb : lexpos b) (hc : lexpos c)
    (h1 : 0 ≤ wedge a b) (h2 : 0 ≤ wedge b c) : 0 ≤ wedge a c := by
  have lp : ∀ v : Pt K, lexpos v → lexlt (0, 0) v := by
    intro v hv
    rcases hv with h | ⟨h1, h2⟩
    · left; simpa using h
    · right; exact ⟨by simpa using h1.symm, by simpa using h2⟩
  have cw : ∀ x y : Pt K, cross (0, 0) x y = wedge x y := by
    intro x y; simp only [cross_def, wedge]; ring
  have := fan_trans (0, 0) a b c (lp a ha) (lp b hb) (lp c hc) (by rw [cw]; exact h1) (by rw [cw]; exact h2)
  rwa [cw] at this

end TW
