import Proofs.Basic
import Proofs.HullGeom
import Mathlib.Tactic.LinearCombination
import Mathlib.Tactic.FieldSimp

/-!
Helper lemmas for C16: the small boxes of `RefCatalog._calc_cat_convex_hull`.
The boxes are listed clockwise, so "inside" is *on the right* of every edge.
-/
open TW
set_option linter.unusedSectionVars false

namespace TW

section
variable {K : Type} [Field K] [LinearOrder K] [IsStrictOrderedRing K]

/-- `q` is strictly on the right of every edge (consecutive pair) of the list -/
def InsideCW (q : Pt K) : List (Pt K) → Prop
  | a :: b :: rest => cross a b q < 0 ∧ InsideCW q (b :: rest)
  | _ => True

/-- the rectangle of `smallBox2` written with the unit vector `(u, w)` of the pair -/
def rectUW (tol u w : K) (p0 p1 : Pt K) : List (Pt K) :=
  [(p0.1 - (u - w) * tol, p0.2 - (w + u) * tol),
   (p0.1 - (u + w) * tol, p0.2 - (w - u) * tol),
   (p1.1 + (u - w) * tol, p1.2 + (w + u) * tol),
   (p1.1 + (u + w) * tol, p1.2 + (w - u) * tol),
   (p0.1 - (u - w) * tol, p0.2 - (w + u) * tol)]

theorem rectUW_inside (tol N u w : K) (p0 : Pt K) (huw : u * u + w * w = 1) (hN : 0 < N)
    (htol : 0 < tol) :
    InsideCW p0 (rectUW tol u w p0 (p0.1 + u * N, p0.2 + w * N)) ∧
    InsideCW (p0.1 + u * N, p0.2 + w * N) (rectUW tol u w p0 (p0.1 + u * N, p0.2 + w * N)) := by
  have a1 : 0 < tol * tol := mul_pos htol htol
  have a2 : 0 < tol * N := mul_pos htol hN
  simp only [rectUW, InsideCW, cross_def, and_true]
  refine ⟨⟨?_, ?_, ?_, ?_⟩, ⟨?_, ?_, ?_, ?_⟩⟩
  · have : (p0.1 - (u + w) * tol - (p0.1 - (u - w) * tol)) * (p0.2 - (p0.2 - (w + u) * tol)) -
        (p0.2 - (w - u) * tol - (p0.2 - (w + u) * tol)) * (p0.1 - (p0.1 - (u - w) * tol)) = -(2 * (tol * tol)) := by
      linear_combination (-2 * (tol * tol)) * huw
    rw [this]; linarith
  · have : (p0.1 + u * N + (u - w) * tol - (p0.1 - (u + w) * tol)) * (p0.2 - (p0.2 - (w - u) * tol)) -
        (p0.2 + w * N + (w + u) * tol - (p0.2 - (w - u) * tol)) * (p0.1 - (p0.1 - (u + w) * tol)) =
        -(tol * N + 2 * (tol * tol)) := by
      linear_combination (-(tol * N) - 2 * (tol * tol)) * huw
    rw [this]; linarith
  · have : (p0.1 + u * N + (u + w) * tol - (p0.1 + u * N + (u - w) * tol)) * (p0.2 - (p0.2 + w * N + (w + u) * tol)) -
        (p0.2 + w * N + (w - u) * tol - (p0.2 + w * N + (w + u) * tol)) * (p0.1 - (p0.1 + u * N + (u - w) * tol)) =
        -(2 * (tol * N) + 2 * (tol * tol)) := by
      linear_combination (-(2 * (tol * N)) - 2 * (tol * tol)) * huw
    rw [this]; linarith
  · have : (p0.1 - (u - w) * tol - (p0.1 + u * N + (u + w) * tol)) * (p0.2 - (p0.2 + w * N + (w - u) * tol)) -
        (p0.2 - (w + u) * tol - (p0.2 + w * N + (w - u) * tol)) * (p0.1 - (p0.1 + u * N + (u + w) * tol)) =
        -(tol * N + 2 * (tol * tol)) := by
      linear_combination (-(tol * N) - 2 * (tol * tol)) * huw
    rw [this]; linarith
  · have : (p0.1 - (u + w) * tol - (p0.1 - (u - w) * tol)) * (p0.2 + w * N - (p0.2 - (w + u) * tol)) -
        (p0.2 - (w - u) * tol - (p0.2 - (w + u) * tol)) * (p0.1 + u * N - (p0.1 - (u - w) * tol)) =
        -(2 * (tol * N) + 2 * (tol * tol)) := by
      linear_combination (-(2 * (tol * N)) - 2 * (tol * tol)) * huw
    rw [this]; linarith
  · have : (p0.1 + u * N + (u - w) * tol - (p0.1 - (u + w) * tol)) * (p0.2 + w * N - (p0.2 - (w - u) * tol)) -
        (p0.2 + w * N + (w + u) * tol - (p0.2 - (w - u) * tol)) * (p0.1 + u * N - (p0.1 - (u + w) * tol)) =
        -(tol * N + 2 * (tol * tol)) := by
      linear_combination (-(tol * N) - 2 * (tol * tol)) * huw
    rw [this]; linarith
  · have : (p0.1 + u * N + (u + w) * tol - (p0.1 + u * N + (u - w) * tol)) * (p0.2 + w * N - (p0.2 + w * N + (w + u) * tol)) -
        (p0.2 + w * N + (w - u) * tol - (p0.2 + w * N + (w + u) * tol)) * (p0.1 + u * N - (p0.1 + u * N + (u - w) * tol)) =
        -(2 * (tol * tol)) := by
      linear_combination (-2 * (tol * tol)) * huw
    rw [this]; linarith
  · have : (p0.1 - (u - w) * tol - (p0.1 + u * N + (u + w) * tol)) * (p0.2 + w * N - (p0.2 + w * N + (w - u) * tol)) -
        (p0.2 - (w + u) * tol - (p0.2 + w * N + (w - u) * tol)) * (p0.1 + u * N - (p0.1 + u * N + (u + w) * tol)) =
        -(tol * N + 2 * (tol * tol)) := by
      linear_combination (-(tol * N) - 2 * (tol * tol)) * huw
    rw [this]; linarith

/-- the inside of a clockwise polygon is convex: every point of the segment between two inside
points is inside -/
theorem InsideCW_convex (p q : Pt K) (t : K) (ht0 : 0 ≤ t) (ht1 : t ≤ 1) : ∀ l : List (Pt K),
    InsideCW p l → InsideCW q l →
    InsideCW ((1 - t) * p.1 + t * q.1, (1 - t) * p.2 + t * q.2) l := by
  intro l
  induction l with
  | nil => intro _ _; trivial
  | cons a tl ih =>
    cases tl with
    | nil => intro _ _; trivial
    | cons b rest =>
      intro hp hq
      refine ⟨?_, ih hp.2 hq.2⟩
      have e : cross a b ((1 - t) * p.1 + t * q.1, (1 - t) * p.2 + t * q.2) =
          (1 - t) * cross a b p + t * cross a b q := by simp only [cross_def]; ring
      rw [e]
      have h1 : (1 - t) * cross a b p ≤ 0 :=
        mul_nonpos_of_nonneg_of_nonpos (by linarith) (le_of_lt hp.1)
      rcases lt_or_eq_of_le ht0 with h | h
      · have := mul_neg_of_pos_of_neg h hq.1
        linarith
      · rw [← h]; simp only [sub_zero, one_mul, zero_mul, add_zero]; exact hp.1

theorem smallBox1_inside (tol : K) (p : Pt K) (htol : 0 < tol) : InsideCW p (smallBox1 tol p) := by
  have a1 : 0 < tol * tol := mul_pos htol htol
  simp only [smallBox1, InsideCW, cross_def, and_true]
  refine ⟨?_, ?_, ?_, ?_⟩ <;> nlinarith

end

/-! ### over the reals (the code's `np.sqrt`) -/

theorem norm_pos_of_ne (p0 p1 : Pt ℝ) (h : p0 ≠ p1) :
    0 < Real.sqrt ((p1.1 - p0.1) * (p1.1 - p0.1) + (p1.2 - p0.2) * (p1.2 - p0.2)) := by
  apply Real.sqrt_pos.mpr
  by_contra hc
  have h1 := mul_self_nonneg (p1.1 - p0.1)
  have h2 := mul_self_nonneg (p1.2 - p0.2)
  have e1 : (p1.1 - p0.1) * (p1.1 - p0.1) = 0 := by linarith
  have e2 : (p1.2 - p0.2) * (p1.2 - p0.2) = 0 := by linarith
  apply h
  exact Prod.ext (by linarith [mul_self_eq_zero.mp e1]) (by linarith [mul_self_eq_zero.mp e2])

/-- `smallBox2` is `rectUW` for the unit vector of the pair, and the second source is the first
one moved by the distance along that vector -/
theorem smallBox2_eq (tol : ℝ) (p0 p1 : Pt ℝ) (h : p0 ≠ p1) :
    ∃ N u w : ℝ, 0 < N ∧ u * u + w * w = 1 ∧ p1 = (p0.1 + u * N, p0.2 + w * N) ∧
      N * N = (p1.1 - p0.1) * (p1.1 - p0.1) + (p1.2 - p0.2) * (p1.2 - p0.2) ∧
      smallBox2 tol p0 p1 = rectUW tol u w p0 p1 := by
  set N := Real.sqrt ((p1.1 - p0.1) * (p1.1 - p0.1) + (p1.2 - p0.2) * (p1.2 - p0.2)) with hNdef
  have hN : 0 < N := norm_pos_of_ne p0 p1 h
  have hNN : N * N = (p1.1 - p0.1) * (p1.1 - p0.1) + (p1.2 - p0.2) * (p1.2 - p0.2) := by
    rw [hNdef]
    exact Real.mul_self_sqrt (add_nonneg (mul_self_nonneg _) (mul_self_nonneg _))
  have hne : N ≠ 0 := ne_of_gt hN
  refine ⟨N, (p1.1 - p0.1) / N, (p1.2 - p0.2) / N, hN, ?_, ?_, hNN, ?_⟩
  · field_simp
    linarith
  · apply Prod.ext
    · show p1.1 = p0.1 + (p1.1 - p0.1) / N * N
      field_simp; ring
    · show p1.2 = p0.2 + (p1.2 - p0.2) / N * N
      field_simp; ring
  · rfl

end TW
