import Proofs.C12Lemmas
import Mathlib.Tactic.LinearCombination

/-!
Helper lemmas for property C12, peak finder part (`findPeak` of `Model/Hist.lean`):
weighted means, the centre of mass, box arithmetic, the discrete peak search.
-/
open TW
set_option linter.unusedSectionVars false
set_option linter.unusedVariables false
set_option linter.unusedSimpArgs false

namespace TW.Hist
variable {K : Type} [Field K] [LinearOrder K] [IsStrictOrderedRing K]

/-- coordinates inside the fit box, fit box inside the array -/
def InBounds (ny nx : ℕ) (p : PeakRes K) : Prop :=
  p.x1 < p.x2 ∧ p.x2 ≤ nx ∧ p.y1 < p.y2 ∧ p.y2 ≤ ny ∧
  (p.x1 : K) ≤ p.x ∧ p.x ≤ (p.x2 : K) - 1 ∧ (p.y1 : K) ≤ p.y ∧ p.y ≤ (p.y2 : K) - 1

theorem at2_nonneg (data : List (List K)) (h : ∀ row ∈ data, ∀ v ∈ row, 0 ≤ v) (j i : ℕ) :
    0 ≤ at2 data j i := by
  unfold at2
  rw [List.getD_eq_getElem?_getD, List.getD_eq_getElem?_getD]
  cases hj : data[j]? with
  | none => simp
  | some row =>
    have hrow : row ∈ data := List.mem_of_getElem? hj
    simp only [Option.getD_some]
    cases hi : row[i]? with
    | none => simp
    | some v =>
      simp only [Option.getD_some]
      exact h row hrow v (List.mem_of_getElem? hi)

theorem mem_boxPoints (data : List (List K)) (mask : Option (List (List Bool))) (y1 y2 x1 x2 : ℕ)
    (p : ℕ × ℕ × K) (hp : p ∈ boxPoints data mask y1 y2 x1 x2) :
    ∃ j i, y1 ≤ j ∧ j < y2 ∧ x1 ≤ i ∧ i < x2 ∧ maskAt mask j i = true ∧
      p = (i - x1 + 1, j - y1 + 1, at2 data j i) := by
  unfold boxPoints at hp
  simp only [List.mem_flatMap, List.mem_filterMap, List.mem_range'_1] at hp
  obtain ⟨j, ⟨hj1, hj2⟩, i, ⟨hi1, hi2⟩, h⟩ := hp
  by_cases hm : maskAt mask j i = true
  · rw [if_pos hm] at h
    simp only [Option.some.injEq] at h
    exact ⟨j, i, hj1, by omega, hi1, by omega, hm, h.symm⟩
  · rw [if_neg hm] at h; simp at h

/-- a weighted mean with non-negative weights lies between the bounds of the values -/
theorem wsum_bounds {α : Type} (l : List α) (f w : α → K) (a b : K)
    (h : ∀ p ∈ l, 0 ≤ w p ∧ a ≤ f p ∧ f p ≤ b) :
    a * (l.map w).sum ≤ (l.map fun p => f p * w p).sum ∧
      (l.map fun p => f p * w p).sum ≤ b * (l.map w).sum := by
  induction l with
  | nil => simp
  | cons p l ih =>
    obtain ⟨ih1, ih2⟩ := ih (fun q hq => h q (List.mem_cons_of_mem _ hq))
    obtain ⟨hw, ha, hb⟩ := h p List.mem_cons_self
    simp only [List.map_cons, List.sum_cons]
    constructor
    · nlinarith [mul_le_mul_of_nonneg_right ha hw]
    · nlinarith [mul_le_mul_of_nonneg_right hb hw]

theorem wsum_nonneg {α : Type} (l : List α) (w : α → K) (h : ∀ p ∈ l, 0 ≤ w p) :
    0 ≤ (l.map w).sum := by
  induction l with
  | nil => simp
  | cons p l ih =>
    simp only [List.map_cons, List.sum_cons]
    have := ih (fun q hq => h q (List.mem_cons_of_mem _ hq))
    have := h p List.mem_cons_self
    linarith

/-- `_center_of_mass`: inside the box, whichever branch -/
theorem centerOfMass_in (pts : List (ℕ × ℕ × K)) (x1 x2 y1 y2 : ℕ) (hx : x1 < x2) (hy : y1 < y2)
    (hpts : ∀ p ∈ pts, 0 ≤ p.2.2 ∧ 1 ≤ p.1 ∧ p.1 ≤ x2 - x1 ∧ 1 ≤ p.2.1 ∧ p.2.1 ≤ y2 - y1) :
    let r := centerOfMass pts x1 x2 y1 y2
    (x1 : K) ≤ r.1 ∧ r.1 ≤ (x2 : K) - 1 ∧ (y1 : K) ≤ r.2.1 ∧ r.2.1 ≤ (y2 : K) - 1 ∧
      (r.2.2 = .nodata ∨ r.2.2 = .centerOfMass) := by
  have hx' : (x1 : K) + 1 ≤ (x2 : K) := by exact_mod_cast hx
  have hy' : (y1 : K) + 1 ≤ (y2 : K) := by exact_mod_cast hy
  unfold centerOfMass
  simp only [sumL_eq_sum, zeroK_eq, oneK_eq, twoK_eq]
  by_cases hdt : eqK (pts.map fun p => p.2.2).sum (0 : K) = true
  · simp only [hdt, if_true]
    push_cast
    refine ⟨?_, ?_, ?_, ?_, ?_⟩
    · rw [le_div_iff₀ (by norm_num)]; linarith
    · rw [div_le_iff₀ (by norm_num)]; linarith
    · rw [le_div_iff₀ (by norm_num)]; linarith
    · rw [div_le_iff₀ (by norm_num)]; linarith
    · simp
  · simp only [hdt, if_false, Bool.false_eq_true]
    rw [Bool.not_eq_true, eqK_false_iff] at hdt
    have hnn : 0 ≤ (pts.map fun p => p.2.2).sum :=
      wsum_nonneg pts (fun p => p.2.2) (fun p hp => (hpts p hp).1)
    have hpos : 0 < (pts.map fun p => p.2.2).sum := lt_of_le_of_ne hnn (Ne.symm hdt)
    have bx := wsum_bounds pts (fun p => (p.1 : K)) (fun p => p.2.2) 1 ((x2 : K) - (x1 : K))
      (fun p hp => by
        obtain ⟨h0, h1, h2, _, _⟩ := hpts p hp
        refine ⟨h0, by exact_mod_cast h1, ?_⟩
        have : ((p.1 : ℕ) : K) ≤ ((x2 - x1 : ℕ) : K) := by exact_mod_cast h2
        rwa [Nat.cast_sub (le_of_lt hx)] at this)
    have by' := wsum_bounds pts (fun p => (p.2.1 : K)) (fun p => p.2.2) 1 ((y2 : K) - (y1 : K))
      (fun p hp => by
        obtain ⟨h0, _, _, h1, h2⟩ := hpts p hp
        refine ⟨h0, by exact_mod_cast h1, ?_⟩
        have : ((p.2.1 : ℕ) : K) ≤ ((y2 - y1 : ℕ) : K) := by exact_mod_cast h2
        rwa [Nat.cast_sub (le_of_lt hy)] at this)
    have e1 : 1 ≤ (pts.map fun p => (p.1 : K) * p.2.2).sum / (pts.map fun p => p.2.2).sum := by
      rw [le_div_iff₀ hpos]; exact bx.1
    have e2 : (pts.map fun p => (p.1 : K) * p.2.2).sum / (pts.map fun p => p.2.2).sum
        ≤ (x2 : K) - (x1 : K) := by
      rw [div_le_iff₀ hpos]; exact bx.2
    have e3 : 1 ≤ (pts.map fun p => (p.2.1 : K) * p.2.2).sum / (pts.map fun p => p.2.2).sum := by
      rw [le_div_iff₀ hpos]; exact by'.1
    have e4 : (pts.map fun p => (p.2.1 : K) * p.2.2).sum / (pts.map fun p => p.2.2).sum
        ≤ (y2 : K) - (y1 : K) := by
      rw [div_le_iff₀ hpos]; exact by'.2
    refine ⟨by linarith, by linarith, by linarith, by linarith, by simp⟩

theorem boxPoints_ok (data : List (List K)) (mask : Option (List (List Bool))) (y1 y2 x1 x2 : ℕ)
    (hnn : ∀ row ∈ data, ∀ v ∈ row, 0 ≤ v) :
    ∀ p ∈ boxPoints data mask y1 y2 x1 x2,
      0 ≤ p.2.2 ∧ 1 ≤ p.1 ∧ p.1 ≤ x2 - x1 ∧ 1 ≤ p.2.1 ∧ p.2.1 ≤ y2 - y1 := by
  intro p hp
  obtain ⟨j, i, h1, h2, h3, h4, _, rfl⟩ := mem_boxPoints data mask y1 y2 x1 x2 p hp
  exact ⟨at2_nonneg data hnn j i, by simp, by simp; omega, by simp, by simp; omega⟩

/-- everything `fitInBox` can return is inside the box (for any `lsq`) -/
theorem fitInBox_in (lsq : Lsq K) (data : List (List K)) (mask : Option (List (List Bool)))
    (ny nx y1 y2 x1 x2 : ℕ) (hx : x1 < x2) (hx2 : x2 ≤ nx) (hy : y1 < y2) (hy2 : y2 ≤ ny)
    (hnn : ∀ row ∈ data, ∀ v ∈ row, 0 ≤ v) :
    InBounds ny nx (fitInBox lsq data mask y1 y2 x1 x2) := by
  have hc := centerOfMass_in (boxPoints data mask y1 y2 x1 x2) x1 x2 y1 y2 hx hy
    (boxPoints_ok data mask y1 y2 x1 x2 hnn)
  simp only at hc
  obtain ⟨c1, c2, c3, c4, _⟩ := hc
  have hcom : InBounds ny nx (⟨(centerOfMass (boxPoints data mask y1 y2 x1 x2) x1 x2 y1 y2).1,
      (centerOfMass (boxPoints data mask y1 y2 x1 x2) x1 x2 y1 y2).2.1,
      (centerOfMass (boxPoints data mask y1 y2 x1 x2) x1 x2 y1 y2).2.2, y1, y2, x1, x2⟩ : PeakRes K) :=
    ⟨hx, hx2, hy, hy2, c1, c2, c3, c4⟩
  have hbad : InBounds ny nx (⟨(centerOfMass (boxPoints data mask y1 y2 x1 x2) x1 x2 y1 y2).1,
      (centerOfMass (boxPoints data mask y1 y2 x1 x2) x1 x2 y1 y2).2.1,
      .badfit, y1, y2, x1, x2⟩ : PeakRes K) :=
    ⟨hx, hx2, hy, hy2, c1, c2, c3, c4⟩
  unfold fitInBox
  simp only
  split
  · exact hcom
  · split
    · exact hcom
    · next c hc =>
      split
      · split
        · exact hcom
        · exact hbad
      · split
        · next hin =>
          rw [Bool.and_eq_true] at hin
          obtain ⟨h1, h2⟩ := hin
          unfold inSpan at h1 h2
          rw [Bool.and_eq_true, leK_iff, leK_iff] at h1 h2
          simp only [oneK_eq] at h1 h2
          exact ⟨hx, hx2, hy, hy2, h1.1, h1.2, h2.1, h2.2⟩
        · exact hcom

/-- box expansion keeps a non-empty interval inside `[0, n]` -/
theorem expandBox_spec (n box lo hi : ℕ) (hbox : 1 ≤ box) (h1 : lo < hi) (h2 : hi ≤ n) :
    (expandBox n box lo hi).1 < (expandBox n box lo hi).2 ∧ (expandBox n box lo hi).2 ≤ n := by
  unfold expandBox
  split
  · simp only
    split <;> split <;> constructor <;> omega
  · exact ⟨h1, h2⟩

theorem mem_cands (ny nx : ℕ) (mask : Option (List (List Bool))) (p : ℕ × ℕ)
    (hp : p ∈ cands ny nx mask) : p.1 < ny ∧ p.2 < nx := by
  unfold cands at hp
  simp only [List.mem_flatMap, List.mem_filterMap, List.mem_range] at hp
  obtain ⟨j, hj, i, hi, h⟩ := hp
  split at h
  · simp only [Option.some.injEq] at h
    subst h
    exact ⟨hj, hi⟩
  · simp at h

theorem mem_cands_iff (ny nx : ℕ) (mask : Option (List (List Bool))) (p : ℕ × ℕ) :
    p ∈ cands ny nx mask ↔ p.1 < ny ∧ p.2 < nx ∧ maskAt mask p.1 p.2 = true := by
  unfold cands
  simp only [List.mem_flatMap, List.mem_filterMap, List.mem_range]
  constructor
  · rintro ⟨j, hj, i, hi, h⟩
    split at h
    · next hm =>
      simp only [Option.some.injEq] at h
      subst h
      exact ⟨hj, hi, hm⟩
    · simp at h
  · rintro ⟨h1, h2, h3⟩
    exact ⟨p.1, h1, p.2, h2, by rw [if_pos h3]⟩

theorem argmaxBy_mem {α : Type} (val : α → K) (c : α) (l : List α) :
    argmaxBy val c l ∈ c :: l := by
  obtain ⟨h1, _, _⟩ := foldmax_spec val l c
  unfold argmaxBy
  rcases h1 with h1 | h1
  · rw [h1]; exact List.mem_cons_self
  · exact List.mem_cons_of_mem _ h1

/-- an early return in bounds, or a non-empty fit box inside the array -/
def SearchOK (ny nx : ℕ) : PeakSearch K → Prop
  | .done r => InBounds ny nx r ∧ (r.status = .nodata ∨ r.status = .edge)
  | .fit y1 y2 x1 x2 => x1 < x2 ∧ x2 ≤ nx ∧ y1 < y2 ∧ y2 ≤ ny

/-- the discrete peak search returns in bounds, or hands over a non-empty box inside the array -/
theorem peakBox_spec (data : List (List K)) (box : ℕ) (mask : Option (List (List Bool)))
    (hbox : 1 ≤ box) (hny : 0 < data.length) (hnx : 0 < (data.headD []).length) :
    SearchOK data.length (data.headD []).length (peakBox data box mask) := by
  set ny := data.length with hnyd
  set nx := (data.headD []).length with hnxd
  have hnodata : InBounds ny nx (⟨((nx : K) - oneK) / twoK, ((ny : K) - oneK) / twoK, .nodata, 0, ny, 0, nx⟩ : PeakRes K) := by
    have h1 : (1 : K) ≤ (nx : K) := by exact_mod_cast hnx
    have h2 : (1 : K) ≤ (ny : K) := by exact_mod_cast hny
    refine ⟨hnx, le_refl _, hny, le_refl _, ?_, ?_, ?_, ?_⟩ <;> simp only [oneK_eq, twoK_eq, Nat.cast_zero]
    · apply div_nonneg <;> linarith
    · rw [div_le_iff₀ (by norm_num)]; linarith
    · apply div_nonneg <;> linarith
    · rw [div_le_iff₀ (by norm_num)]; linarith
  unfold peakBox
  simp only
  split
  · exact ⟨hnodata, Or.inl rfl⟩
  · next c cs hcs =>
    have hm := argmaxBy_mem (fun p : ℕ × ℕ => at2 data p.1 p.2) c cs
    rw [← hcs] at hm
    obtain ⟨hj, hi⟩ := mem_cands _ _ _ _ hm
    generalize argmaxBy (fun p : ℕ × ℕ => at2 data p.1 p.2) c cs = m at hj hi ⊢
    obtain ⟨jmax, imax⟩ := m
    simp only at hj hi ⊢
    split
    · exact ⟨hnodata, Or.inl rfl⟩
    · split
      · refine ⟨⟨?_, ?_, ?_, ?_, ?_, ?_, ?_, ?_⟩, Or.inr rfl⟩ <;> dsimp only
        · omega
        · omega
        · omega
        · omega
        · exact_mod_cast (by omega : imax - box / 2 ≤ imax)
        · have : imax + 1 ≤ min nx (imax - box / 2 + box) := by omega
          have : ((imax + 1 : ℕ) : K) ≤ ((min nx (imax - box / 2 + box) : ℕ) : K) := by exact_mod_cast this
          push_cast at this ⊢
          linarith
        · exact_mod_cast (by omega : jmax - box / 2 ≤ jmax)
        · have : jmax + 1 ≤ min ny (jmax - box / 2 + box) := by omega
          have : ((jmax + 1 : ℕ) : K) ≤ ((min ny (jmax - box / 2 + box) : ℕ) : K) := by exact_mod_cast this
          push_cast at this ⊢
          linarith
      · have ex := expandBox_spec nx box (imax - box / 2) (min nx (imax - box / 2 + box)) hbox
          (by omega) (by omega)
        have ey := expandBox_spec ny box (jmax - box / 2) (min ny (jmax - box / 2 + box)) hbox
          (by omega) (by omega)
        exact ⟨ex.1, ex.2, ey.1, ey.2⟩

theorem argmaxBy_max {α : Type} (val : α → K) (c : α) (l : List α) :
    ∀ q ∈ c :: l, val q ≤ val (argmaxBy val c l) := by
  obtain ⟨_, h2, h3⟩ := foldmax_spec val l c
  unfold argmaxBy
  intro q hq
  rcases List.mem_cons.mp hq with rfl | hq
  · exact h2
  · exact h3 q hq

/-- box expansion keeps the peak pixel inside and the width at most `box` -/
theorem expandBox_width (n box lo hi i : ℕ) (hbox : 1 ≤ box) (h1 : lo ≤ i) (h2 : i < hi) (h3 : hi ≤ n)
    (hw : hi - lo ≤ box) :
    (expandBox n box lo hi).1 ≤ i ∧ i < (expandBox n box lo hi).2 ∧
      (expandBox n box lo hi).2 - (expandBox n box lo hi).1 ≤ box := by
  unfold expandBox
  split
  · simp only
    split <;> split <;> refine ⟨?_, ?_, ?_⟩ <;> omega
  · exact ⟨h1, h2, hw⟩

/-- what the discrete search knows about the arg-max pixel `(jmax, imax)` -/
def SearchMax (box jmax imax : ℕ) : PeakSearch K → Prop
  | .done r => r.status = .nodata ∨
      (r.status = .edge ∧ r.x = (imax : K) ∧ r.y = (jmax : K))
  | .fit y1 y2 x1 x2 => x1 ≤ imax ∧ imax < x2 ∧ x2 - x1 ≤ box ∧ y1 ≤ jmax ∧ jmax < y2 ∧ y2 - y1 ≤ box

/-- unless there is no good pixel, the search is about a good pixel of maximal value, which ends up
inside a fit box at most `box` wide -/
theorem peakBox_max (data : List (List K)) (box : ℕ) (mask : Option (List (List Bool)))
    (hbox : 1 ≤ box) :
    (∃ r, peakBox data box mask = .done r ∧ r.status = .nodata) ∨
    ∃ jmax imax, (jmax, imax) ∈ cands data.length (data.headD []).length mask ∧
      (∀ q ∈ cands data.length (data.headD []).length mask, at2 data q.1 q.2 ≤ at2 data jmax imax) ∧
      SearchMax box jmax imax (peakBox data box mask) := by
  unfold peakBox
  simp only
  split
  · left; exact ⟨_, rfl, rfl⟩
  · next c cs hcs =>
    right
    have hm := argmaxBy_mem (fun p : ℕ × ℕ => at2 data p.1 p.2) c cs
    have hmax := argmaxBy_max (fun p : ℕ × ℕ => at2 data p.1 p.2) c cs
    rw [← hcs] at hm hmax
    obtain ⟨hj, hi⟩ := mem_cands _ _ _ _ hm
    generalize argmaxBy (fun p : ℕ × ℕ => at2 data p.1 p.2) c cs = m at hj hi hm hmax ⊢
    obtain ⟨jmax, imax⟩ := m
    simp only at hj hi hmax ⊢
    refine ⟨jmax, imax, hm, hmax, ?_⟩
    split
    · left; rfl
    · split
      · right; exact ⟨rfl, rfl, rfl⟩
      · have ex := expandBox_width (data.headD []).length box (imax - box / 2)
          (min (data.headD []).length (imax - box / 2 + box)) imax hbox (by omega) (by omega)
          (by omega) (by omega)
        have ey := expandBox_width data.length box (jmax - box / 2)
          (min data.length (jmax - box / 2 + box)) jmax hbox (by omega) (by omega)
          (by omega) (by omega)
        exact ⟨ex.1, ex.2.1, ex.2.2, ey.1, ey.2.1, ey.2.2⟩

theorem fitInBox_box (lsq : Lsq K) (data : List (List K)) (mask : Option (List (List Bool)))
    (y1 y2 x1 x2 : ℕ) :
    (fitInBox lsq data mask y1 y2 x1 x2).y1 = y1 ∧ (fitInBox lsq data mask y1 y2 x1 x2).y2 = y2 ∧
    (fitInBox lsq data mask y1 y2 x1 x2).x1 = x1 ∧ (fitInBox lsq data mask y1 y2 x1 x2).x2 = x2 := by
  unfold fitInBox
  simp only
  split
  · exact ⟨rfl, rfl, rfl, rfl⟩
  · split
    · exact ⟨rfl, rfl, rfl, rfl⟩
    · split
      · split <;> exact ⟨rfl, rfl, rfl, rfl⟩
      · split <;> exact ⟨rfl, rfl, rfl, rfl⟩

/-! ### the histogram as input of the peak finder -/

theorem getD_map' {α β : Type} (l : List α) (g : α → β) (d : α) (i : ℕ) :
    (l.map g).getD i (g d) = g (l.getD i d) := by
  rw [List.getD_eq_getElem?_getD, List.getD_eq_getElem?_getD, List.getElem?_map]
  cases l[i]? <;> rfl

theorem at2_cast (zp : List (List ℕ)) (j i : ℕ) :
    at2 (zp.map fun row => row.map fun (c : ℕ) => (c : K)) j i = (natAt zp j i : K) := by
  unfold at2 natAt
  have h1 := getD_map' zp (fun row : List ℕ => row.map fun (c : ℕ) => (c : K)) [] j
  simp only [List.map_nil] at h1
  rw [h1]
  exact getD_map' (zp.getD j []) (fun (c : ℕ) => (c : K)) 0 i

theorem maskAt_pos (zp : List (List ℕ)) (j i : ℕ) :
    maskAt (some (zp.map fun row => row.map fun (c : ℕ) => decide (0 < c))) j i
      = decide (0 < natAt zp j i) := by
  unfold maskAt natAt
  simp only
  have h1 := getD_map' zp (fun row : List ℕ => row.map fun (c : ℕ) => decide (0 < c)) [] j
  simp only [List.map_nil] at h1
  rw [h1]
  have h2 := getD_map' (zp.getD j []) (fun (c : ℕ) => decide (0 < c)) 0 i
  simp only [Nat.lt_irrefl, decide_false] at h2
  exact h2

theorem histOfBins_length (n : ℕ) (bins : List (ℕ × ℕ)) : (histOfBins n bins).length = n := by
  unfold histOfBins; simp

theorem histOfBins_head_length (n : ℕ) (bins : List (ℕ × ℕ)) (hn : 0 < n) :
    ((histOfBins n bins).headD []).length = n := by
  unfold histOfBins
  cases n with
  | zero => omega
  | succ m =>
    rw [List.range_succ_eq_map]
    simp

theorem binToOffset_sub [FloorRing K] (searchrad pscale a b : K) :
    binToOffset searchrad pscale a - binToOffset searchrad pscale b = pscale * (a - b) := by
  unfold binToOffset; ring

/-- the successful exit of the fit stage -/
theorem fitInBox_success (lsq : Lsq K) (data : List (List K)) (mask : Option (List (List Bool)))
    (y1 y2 x1 x2 : ℕ) (co : QCoef K)
    (hpts : 6 ≤ (boxPoints data mask y1 y2 x1 x2).length)
    (hlsq : lsq ((boxPoints data mask y1 y2 x1 x2).map designRow)
              ((boxPoints data mask y1 y2 x1 x2).map fun p => p.2.2) = some co)
    (hmax : noMax co = false)
    (hx : inSpan x1 x2 (vertexX co x1) = true) (hy : inSpan y1 y2 (vertexY co y1) = true) :
    fitInBox lsq data mask y1 y2 x1 x2 = ⟨vertexX co x1, vertexY co y1, .success, y1, y2, x1, x2⟩ := by
  unfold fitInBox
  simp only
  rw [if_neg (by omega), hlsq]
  simp only [hmax, hx, hy, Bool.false_eq_true, if_false, Bool.and_self, if_true]

/-! ### least squares on samples of a quadratic -/

/-- the value of the fitted polynomial -/
def evalQ (c : QCoef K) (x y : K) : K :=
  c.c00 + c.c10 * x + c.c01 * y + c.c11 * (x * y) + c.c20 * (x * x) + c.c02 * (y * y)

/-- a quadratic polynomial in two variables that vanishes on a 3×3 grid is zero -/
theorem quad_zero_of_grid (d : QCoef K) (u v : K)
    (h : ∀ a b : ℕ, a ≤ 2 → b ≤ 2 → evalQ d (u + (a : K)) (v + (b : K)) = 0) :
    d.c00 = 0 ∧ d.c10 = 0 ∧ d.c01 = 0 ∧ d.c11 = 0 ∧ d.c20 = 0 ∧ d.c02 = 0 := by
  have h00 := h 0 0 (by omega) (by omega)
  have h10 := h 1 0 (by omega) (by omega)
  have h20 := h 2 0 (by omega) (by omega)
  have h01 := h 0 1 (by omega) (by omega)
  have h02 := h 0 2 (by omega) (by omega)
  have h11 := h 1 1 (by omega) (by omega)
  unfold evalQ at h00 h10 h20 h01 h02 h11
  push_cast at h00 h10 h20 h01 h02 h11
  have e20 : d.c20 = 0 := by linear_combination (1 / 2 : K) * h00 - h10 + (1 / 2 : K) * h20
  have e02 : d.c02 = 0 := by linear_combination (1 / 2 : K) * h00 - h01 + (1 / 2 : K) * h02
  have e11 : d.c11 = 0 := by linear_combination h11 - h10 - h01 + h00
  have e10 : d.c10 = 0 := by linear_combination h10 - h00 - v * e11 - (2 * u + 1) * e20
  have e01 : d.c01 = 0 := by linear_combination h01 - h00 - u * e11 - (2 * v + 1) * e02
  have e00 : d.c00 = 0 := by
    linear_combination h00 - u * e10 - v * e01 - u * v * e11 - u * u * e20 - v * v * e02
  exact ⟨e00, e10, e01, e11, e20, e02⟩

theorem sum_sq_zero {α : Type} (l : List α) (f : α → K) (h : (l.map fun p => f p * f p).sum = 0) :
    ∀ p ∈ l, f p = 0 := by
  induction l with
  | nil => intro p hp; cases hp
  | cons a l ih =>
    simp only [List.map_cons, List.sum_cons] at h
    have h1 : 0 ≤ f a * f a := mul_self_nonneg _
    have h2 : 0 ≤ (l.map fun p => f p * f p).sum :=
      wsum_nonneg l (fun p => f p * f p) (fun p _ => mul_self_nonneg _)
    have ha : f a * f a = 0 := by linarith
    have hl : (l.map fun p => f p * f p).sum = 0 := by linarith
    intro p hp
    rcases List.mem_cons.mp hp with rfl | hp
    · exact mul_self_eq_zero.mp ha
    · exact ih hl p hp

theorem mem_boxPoints_of (data : List (List K)) (mask : Option (List (List Bool))) (y1 y2 x1 x2 j i : ℕ)
    (hj1 : y1 ≤ j) (hj2 : j < y2) (hi1 : x1 ≤ i) (hi2 : i < x2) (hm : maskAt mask j i = true) :
    (i - x1 + 1, j - y1 + 1, at2 data j i) ∈ boxPoints data mask y1 y2 x1 x2 := by
  unfold boxPoints
  simp only [List.mem_flatMap, List.mem_filterMap, List.mem_range'_1]
  exact ⟨j, ⟨hj1, by omega⟩, i, ⟨hi1, by omega⟩, by rw [if_pos hm]⟩

end TW.Hist
