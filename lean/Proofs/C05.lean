import Proofs.C02
import Proofs.C03
import Proofs.GroupAlignLemmas
import Proofs.GroupWeightLemmas

/-!
# C05 — alignment result is independent of the reference plane; groups move rigidly

All members of a group receive the same `(matrix, shift, ref_tpwcs)` (`apply_affine_to_wcs`).
In the flat-sky model every member's new sky mapping is `G ∘ old` with ONE sky-level affine
`G = P⁻¹ ∘ (M, s) ∘ P` (P the plane of the fit), whatever the member's own tangent point,
orientation, scale, distortion or correction history; and `G` does not depend on which plane
`P' = Q ∘ P` the fit was carried out in, provided the fit itself is equivariant (C08:
`(M', s') = Q (M, s) Q⁻¹`).  Property theorems only.
-/
open TW
set_option linter.unusedSectionVars false

namespace TW.C05
variable {K : Type} [Field K] [LinearOrder K] [IsStrictOrderedRing K]

/-- FITS members (flat sky): every member of the group is moved by the same sky-level map -/
theorem fits_group_rigid (P : Aff K) (hP : P.m.det ≠ 0) (M : M2 K) (s : V2 K) (hM : M.det ≠ 0)
    (members : List (FCorr K × K × K)) (hm : ∀ m ∈ members, m.1.WF ∧ m.2.1 ≠ 0 ∧ m.2.2 ≠ 0)
    (m : FCorr K × K × K) (hmem : m ∈ members) (δ : V2 K → V2 K) (p : V2 K) :
    (m.1.setCorrectionRef P M s m.2.1 m.2.2).detToWorld δ p
      = (skyCorr P M s).app (m.1.detToWorld δ p) := by
  obtain ⟨hf, hx, hy⟩ := hm m hmem
  have key := (m.1.setCorrectionRef_toSky hf P hP M s hM m.2.1 m.2.2 hx hy).1
  simp only [FCorr.detToWorld]
  rw [FCorr.pix2world_eq, key, Aff.app_comp, ← FCorr.pix2world_eq]

/-- hence the relative geometry of any two members is preserved: both are carried by the same
invertible affine map of the sky plane -/
theorem fits_relative_geometry (P : Aff K) (hP : P.m.det ≠ 0) (M : M2 K) (s : V2 K) (hM : M.det ≠ 0)
    (f1 f2 : FCorr K) (h1 : f1.WF) (h2 : f2.WF) (hx1 hy1 hx2 hy2 : K) (a1 : hx1 ≠ 0) (b1 : hy1 ≠ 0)
    (a2 : hx2 ≠ 0) (b2 : hy2 ≠ 0) (δ1 δ2 : V2 K → V2 K) (p q : V2 K)
    (hsame : f1.detToWorld δ1 p = f2.detToWorld δ2 q) :
    (f1.setCorrectionRef P M s hx1 hy1).detToWorld δ1 p
      = (f2.setCorrectionRef P M s hx2 hy2).detToWorld δ2 q := by
  have e1 := fits_group_rigid P hP M s hM [(f1, hx1, hy1)] (by simp [h1, a1, b1]) (f1, hx1, hy1)
    (by simp) δ1 p
  have e2 := fits_group_rigid P hP M s hM [(f2, hx2, hy2)] (by simp [h2, a2, b2]) (f2, hx2, hy2)
    (by simp) δ2 q
  simp only at e1 e2
  rw [e1, e2, hsame]

/-- gWCS members: in the reference plane every member is moved by the same `(M, s)`
(each member has its own pipeline pieces `env`, its own state and its own plane-to-plane map `q`) -/
theorem gwcs_group_rigid (refW2T refT2W : V2 K → V2 K) (hr1 : ∀ w, refT2W (refW2T w) = w)
    (M : M2 K) (s : V2 K) (hM : M.det ≠ 0)
    (env : GEnv K) (h : env.Bij) (g : GCorr K) (hg : g.WF)
    (q : Aff K) (hq : q.m.det ≠ 0) (hflat : ∀ x, g.worldToTanp env (refT2W x) = q.app x)
    (s0 : K) (hs0 : s0 ≠ 0) (p : V2 K) :
    refW2T ((g.setCorrection env.c ⟨M, s⟩
        (some (tp2tp (fun x => g.worldToTanp env (refT2W x)) s0))).detToWorld env p)
      = (⟨M, s⟩ : Aff K).app (refW2T (g.detToWorld env p)) :=
  C02.gwcs_setCorrection_applies_ref env h g hg refW2T refT2W hr1 q hq hflat s0 hs0 M s hM p

/-- the sky-level correction does not depend on the plane in which `(M, s)` is expressed, when the
correction is conjugated along with the plane: `(Q∘P)⁻¹ ∘ (Q f Q⁻¹) ∘ (Q∘P) = P⁻¹ ∘ f ∘ P` -/
theorem ref_plane_independent (P Q : Aff K) (hP : P.m.det ≠ 0) (hQ : Q.m.det ≠ 0) (f : Aff K) :
    let f' := Q.comp (f.comp Q.inv)
    skyCorr (Q.comp P) f'.m f'.t = skyCorr P f.m f.t := by
  intro f'
  apply Aff.ext_app
  intro w
  have hQP : (Q.comp P).m.det ≠ 0 := by rw [Aff.det_comp]; exact mul_ne_zero hQ hP
  simp only [skyCorr, Aff.app_comp]
  -- apply Q∘P to both sides (it is injective)
  have inj : ∀ a b : V2 K, (Q.comp P).app a = (Q.comp P).app b → a = b := by
    intro a b hab
    have := congrArg (Q.comp P).inv.app hab
    rwa [Aff.inv_app _ hQP, Aff.inv_app _ hQP] at this
  apply inj
  rw [Aff.app_inv _ hQP]
  have hf' : (⟨f'.m, f'.t⟩ : Aff K) = f' := rfl
  have hf : (⟨f.m, f.t⟩ : Aff K) = f := rfl
  rw [hf', hf]
  simp only [f', Aff.app_comp, Aff.inv_app Q hQ, Aff.app_inv P hP]

/-- consequently two alignments carried out in planes `P` and `Q∘P` with equivariant fits move
every FITS member to the same sky positions -/
theorem fits_same_result_in_any_plane (P Q : Aff K) (hP : P.m.det ≠ 0) (hQ : Q.m.det ≠ 0) (f : Aff K)
    (hf : f.m.det ≠ 0) (c : FCorr K) (hc : c.WF) (hx hy : K) (hhx : hx ≠ 0) (hhy : hy ≠ 0)
    (δ : V2 K → V2 K) (p : V2 K) :
    let f' := Q.comp (f.comp Q.inv)
    (c.setCorrectionRef (Q.comp P) f'.m f'.t hx hy).detToWorld δ p
      = (c.setCorrectionRef P f.m f.t hx hy).detToWorld δ p := by
  intro f'
  have hQP : (Q.comp P).m.det ≠ 0 := by rw [Aff.det_comp]; exact mul_ne_zero hQ hP
  have hf'det : f'.m.det ≠ 0 := by
    simp only [f', Aff.det_comp, Aff.inv]
    rw [M2.det_inv _ hQ]
    have : Q.m.det * (f.m.det * (1 / Q.m.det)) = f.m.det := by field_simp
    rw [this]; exact hf
  have k1 := (c.setCorrectionRef_toSky hc (Q.comp P) hQP f'.m f'.t hf'det hx hy hhx hhy).1
  have k2 := (c.setCorrectionRef_toSky hc P hP f.m f.t hf hx hy hhx hhy).1
  simp only [FCorr.detToWorld]
  rw [FCorr.pix2world_eq, FCorr.pix2world_eq, k1, k2, ref_plane_independent P Q hP hQ f]

/-! ## `align_to_ref` at group level, with indices

The composition `TW.GA.groupAlignToRef` (`Model/GroupAlign.lean`) of the separately modelled pieces, in the order of
the code: the members of the group (each with its own corrector state and its own catalog, some empty), the group
catalog stacked from them (`TW.GC`), `calc_tanp_xy` in the reference plane, the matcher's index arrays through
`match2ref`, the selection of the pairs (`fit2refSel`), `iter_linear_fit` and the re-centring (`fitPairs`),
`apply_affine_to_wcs` = `set_correction` with ONE `(matrix, shift, ref_tpwcs)` on EVERY member, and
`recalc_catalog_radec` with the corrected members.  `fitsOps P δ`: all members FITS (flat sky, reference plane an
affine chart `P`, distortion `δ p` of member `p`); `gwcsOps env refW2T refT2W s0`: all members gWCS.

Common hypotheses: the group catalog `run st0 hist` was built from the members' catalogs (`hc`, with ANY initial
sky columns `w0`) and then went through ANY history `hist` of bookkeeping operations, and its `RA`, `DEC` columns
are current (`GAL.Current`: true at construction `GAL.current_fresh`, after `recalc_catalog_radec`
`GAL.current_recalc`, and after a successful alignment — last part of `GAL.Applied`).  "The alignment succeeded"
is `….fit = some (r, f)`: `r` is what `iter_linear_fit` returned, `f` the `(matrix, shift)` written to every
member's `fit_info`.  The conclusions are `GAL.Applied` / `GAL.MovedBy` (spelled out in
`Proofs/GroupAlignLemmas.lean`).  Helper lemmas: `Proofs/GroupAlignLemmas.lean`; correspondence with the real
`WCSGroupCatalog.align_to_ref`: `harness/props/c05_groupalign.py`. -/
section groupAlign
open TW.GC TW.GCL TW.GA TW.GAL

/-- **reported = applied at group level (FITS, flat sky)**, no exactness hypothesis (noisy data, any fit geometry,
any `match`): the `(matrix, shift)` written to `fit_info` is the re-centred result of `iter_linear_fit` on the
selected pairs, and it is what EVERY member's corrected WCS does in the plane of the fit — members without
sources and members that contributed no pair included; every row of the recomputed catalog carries the corrected
position of ITS member's source.  Hypotheses: well-formed member WCS, non-zero differentiation steps, invertible
chart `P`, invertible fitted matrix. -/
theorem group_align_reported_is_applied (P : Aff K) (hP : P.m.det ≠ 0) (δ : Nat → V2 K → V2 K) (cfg : FitCfg K)
    (ms : List (GMember (FState K) K))
    (hgood : ∀ (p : Nat) (gm : GMember (FState K) K), ms[p]? = some gm →
      gm.corr.f.WF ∧ gm.corr.hx ≠ 0 ∧ gm.corr.hy ≠ 0)
    (w0 : Nat → K × K → K × K) (st0 : GState K) (hc : createGroup w0 (ms.map (·.cat)) = .ok st0)
    (hist : List (GC.GOp K)) (hcur : Current (fitsOps P δ) ms (run st0 hist))
    (ref : RefCat K) (m : Option (List Int × List Int)) (minobj : Option Nat) (fitmin : Nat)
    (r : IterRes K) (f : Aff K)
    (hfit : (groupAlignToRef (fitsOps P δ) cfg ms (run st0 hist) ref m minobj fitmin).fit = some (r, f))
    (hdet : f.m.det ≠ 0) :
    (∃ pa, (groupAlignToRef (fitsOps P δ) cfg ms (run st0 hist) ref m minobj fitmin).res = .ok (true, some pa) ∧
      iterLinearFitWith cfg.single cfg.normalised cfg.metric cfg.fitMinobj (List.zipWith mkObs pa.xy pa.uv)
        pa.wxy pa.wuv none cfg.nclip cfg.sigma cfg.accum = .ok r) ∧
    f = reportedOf r (TW.recentre r.lin r.center) ∧
    Applied (fitsOps P δ) ms (run st0 hist)
      (groupAlignToRef (fitsOps P δ) cfg ms (run st0 hist) ref m minobj fitmin) f := by
  obtain ⟨_, _, _, pa, _, _, _, hfp, hf, _, hR, _⟩ := fit_inv _ cfg ms (run st0 hist) ref m minobj fitmin r f hfit
  exact ⟨⟨pa, hR, (fitPairs_ok cfg pa r _ hfp).1⟩, hf,
    group_core w0 _ fitsGood (fits_applies P hP δ) cfg ms hgood st0 hc hist hcur ref m minobj fitmin r f hfit hdet⟩

/-- **reported = applied at group level (gWCS)**: each member has its own pipeline pieces `env p` (bijective), its
own well-formed state, its own plane-to-plane map `q` from the reference plane (flat-sky hypothesis: it is an
invertible affine map), its own non-zero sampling scale -/
theorem group_align_reported_is_applied_gwcs (env : Nat → GEnv K) (refW2T refT2W : V2 K → V2 K)
    (hr1 : ∀ w, refT2W (refW2T w) = w) (s0 : Nat → K) (cfg : FitCfg K) (ms : List (GMember (GCorr K) K))
    (hgood : ∀ (p : Nat) (gm : GMember (GCorr K) K), ms[p]? = some gm →
      (env p).Bij ∧ gm.corr.WF ∧ s0 p ≠ 0 ∧
        ∃ q : Aff K, q.m.det ≠ 0 ∧ ∀ x, gm.corr.worldToTanp (env p) (refT2W x) = q.app x)
    (w0 : Nat → K × K → K × K) (st0 : GState K) (hc : createGroup w0 (ms.map (·.cat)) = .ok st0)
    (hist : List (GC.GOp K)) (hcur : Current (gwcsOps env refW2T refT2W s0) ms (run st0 hist))
    (ref : RefCat K) (m : Option (List Int × List Int)) (minobj : Option Nat) (fitmin : Nat)
    (r : IterRes K) (f : Aff K)
    (hfit : (groupAlignToRef (gwcsOps env refW2T refT2W s0) cfg ms (run st0 hist) ref m minobj fitmin).fit
      = some (r, f))
    (hdet : f.m.det ≠ 0) :
    (∃ pa, (groupAlignToRef (gwcsOps env refW2T refT2W s0) cfg ms (run st0 hist) ref m minobj fitmin).res
        = .ok (true, some pa) ∧
      iterLinearFitWith cfg.single cfg.normalised cfg.metric cfg.fitMinobj (List.zipWith mkObs pa.xy pa.uv)
        pa.wxy pa.wuv none cfg.nclip cfg.sigma cfg.accum = .ok r) ∧
    f = reportedOf r (TW.recentre r.lin r.center) ∧
    Applied (gwcsOps env refW2T refT2W s0) ms (run st0 hist)
      (groupAlignToRef (gwcsOps env refW2T refT2W s0) cfg ms (run st0 hist) ref m minobj fitmin) f := by
  obtain ⟨_, _, _, pa, _, _, _, hfp, hf, _, hR, _⟩ := fit_inv _ cfg ms (run st0 hist) ref m minobj fitmin r f hfit
  exact ⟨⟨pa, hR, (fitPairs_ok cfg pa r _ hfp).1⟩, hf,
    group_core w0 _ (gwcsGood env refT2W s0) (gwcs_applies env refW2T refT2W hr1 s0) cfg ms hgood st0 hc hist hcur
      ref m minobj fitmin r f hfit hdet⟩

/-- **exactness at group level (FITS, flat sky; `iter_linear_fit` as the code runs it, over `ℝ`, all four fit
geometries).**  If for every matched pair `k` the reference position, in the plane of the fit, is `T` of the
position of group row `minput[k]` (`hT`; indices as numpy reads them: `inp`, `rf` are the normalised arrays), `T`
invertible and in the family of the fit geometry (`FamilyOK`; for `rshift` also: the matched image positions handed
to the fitter are pairwise different), and the alignment succeeded — whatever `nclip`, `sigma`, `clip_accum`, the
weights and `minobj` —, then `MovedBy`: the reported fit is `T`; EVERY member (matched or not, with or without
sources) is moved by the one map `T` in the plane; the recomputed `RA`, `DEC` of row `i` is the corrected
position of ITS member's source; every matched row lands exactly on its reference position. -/
theorem group_align_exact (P : Aff ℝ) (hP : P.m.det ≠ 0) (δ : Nat → V2 ℝ → V2 ℝ)
    (eps epsD : ℝ) (heps : 0 < eps) (g : FitGeom) (nclip : Option Int) (sigma : Option (ℝ × String))
    (accum : Bool) (ms : List (GMember (FState ℝ) ℝ))
    (hgood : ∀ (p : Nat) (gm : GMember (FState ℝ) ℝ), ms[p]? = some gm →
      gm.corr.f.WF ∧ gm.corr.hx ≠ 0 ∧ gm.corr.hy ≠ 0)
    (w0 : Nat → ℝ × ℝ → ℝ × ℝ) (st0 : GState ℝ) (hc : createGroup w0 (ms.map (·.cat)) = .ok st0)
    (hist : List (GC.GOp ℝ)) (hcur : Current (fitsOps P δ) ms (run st0 hist))
    (hne : (run st0 hist).catlen ≠ 0) (ref : RefCat ℝ) (mref minput : List Int)
    (minobj : Option Nat) (fitmin : Nat) (r : IterRes ℝ) (f : Aff ℝ)
    (hfit : (groupAlignToRef (fitsOps P δ) (FitCfg.ofGeom eps epsD g nclip sigma accum) ms (run st0 hist) ref
      (some (mref, minput)) minobj fitmin).fit = some (r, f))
    (inp rf : List Nat) (hin : normAll (run st0 hist).catlen minput = some inp)
    (hrf : normAll ref.radec.length mref = some rf)
    (T : Lin ℝ) (hdetT : T.m00 * T.m11 - T.m01 * T.m10 ≠ 0)
    (hT : ∀ (k i j : Nat) (row : GRow ℝ) (rd : ℝ × ℝ), inp[k]? = some i → rf[k]? = some j →
      (run st0 hist).rows[i]? = some row → ref.radec[j]? = some rd →
      P.app (toV rd) = C01.Lin.app T (P.app (toV row.radec)))
    (hfam : FamilyOK g T (∀ pa : PairArgs ℝ,
      (groupAlignToRef (fitsOps P δ) (FitCfg.ofGeom eps epsD g nclip sigma accum) ms (run st0 hist) ref
        (some (mref, minput)) minobj fitmin).res = .ok (true, some pa) →
      ((List.zipWith mkObs pa.xy pa.uv).map fun o => (o.u, o.v)).Nodup)) :
    MovedBy (fitsOps P δ) ms (run st0 hist)
      (groupAlignToRef (fitsOps P δ) (FitCfg.ofGeom eps epsD g nclip sigma accum) ms (run st0 hist) ref
        (some (mref, minput)) minobj fitmin) ref inp rf f T :=
  group_exact_code w0 _ fitsGood (fits_applies P hP δ) eps epsD heps g nclip sigma accum ms hgood st0 hc hist hcur
    hne ref mref minput minobj fitmin r f hfit inp rf hin hrf T hdetT hT hfam

/-- **exactness at group level (gWCS)**: the same with every member a gWCS corrector with its own pipeline, state
and plane-to-plane map (hypotheses as `group_align_reported_is_applied_gwcs`) -/
theorem group_align_exact_gwcs (env : Nat → GEnv ℝ) (refW2T refT2W : V2 ℝ → V2 ℝ)
    (hr1 : ∀ w, refT2W (refW2T w) = w) (s0 : Nat → ℝ)
    (eps epsD : ℝ) (heps : 0 < eps) (g : FitGeom) (nclip : Option Int) (sigma : Option (ℝ × String))
    (accum : Bool) (ms : List (GMember (GCorr ℝ) ℝ))
    (hgood : ∀ (p : Nat) (gm : GMember (GCorr ℝ) ℝ), ms[p]? = some gm →
      (env p).Bij ∧ gm.corr.WF ∧ s0 p ≠ 0 ∧
        ∃ q : Aff ℝ, q.m.det ≠ 0 ∧ ∀ x, gm.corr.worldToTanp (env p) (refT2W x) = q.app x)
    (w0 : Nat → ℝ × ℝ → ℝ × ℝ) (st0 : GState ℝ) (hc : createGroup w0 (ms.map (·.cat)) = .ok st0)
    (hist : List (GC.GOp ℝ)) (hcur : Current (gwcsOps env refW2T refT2W s0) ms (run st0 hist))
    (hne : (run st0 hist).catlen ≠ 0) (ref : RefCat ℝ) (mref minput : List Int)
    (minobj : Option Nat) (fitmin : Nat) (r : IterRes ℝ) (f : Aff ℝ)
    (hfit : (groupAlignToRef (gwcsOps env refW2T refT2W s0) (FitCfg.ofGeom eps epsD g nclip sigma accum) ms
      (run st0 hist) ref (some (mref, minput)) minobj fitmin).fit = some (r, f))
    (inp rf : List Nat) (hin : normAll (run st0 hist).catlen minput = some inp)
    (hrf : normAll ref.radec.length mref = some rf)
    (T : Lin ℝ) (hdetT : T.m00 * T.m11 - T.m01 * T.m10 ≠ 0)
    (hT : ∀ (k i j : Nat) (row : GRow ℝ) (rd : ℝ × ℝ), inp[k]? = some i → rf[k]? = some j →
      (run st0 hist).rows[i]? = some row → ref.radec[j]? = some rd →
      refW2T (toV rd) = C01.Lin.app T (refW2T (toV row.radec)))
    (hfam : FamilyOK g T (∀ pa : PairArgs ℝ,
      (groupAlignToRef (gwcsOps env refW2T refT2W s0) (FitCfg.ofGeom eps epsD g nclip sigma accum) ms
        (run st0 hist) ref (some (mref, minput)) minobj fitmin).res = .ok (true, some pa) →
      ((List.zipWith mkObs pa.xy pa.uv).map fun o => (o.u, o.v)).Nodup)) :
    MovedBy (gwcsOps env refW2T refT2W s0) ms (run st0 hist)
      (groupAlignToRef (gwcsOps env refW2T refT2W s0) (FitCfg.ofGeom eps epsD g nclip sigma accum) ms
        (run st0 hist) ref (some (mref, minput)) minobj fitmin) ref inp rf f T :=
  group_exact_code w0 _ (gwcsGood env refT2W s0) (gwcs_applies env refW2T refT2W hr1 s0) eps epsD heps g nclip sigma
    accum ms hgood st0 hc hist hcur hne ref mref minput minobj fitmin r f hfit inp rf hin hrf T hdetT hT hfam

/-- **exactness with `match=None`** (FITS; this is how `align_wcs` is called with pre-matched catalogs): the group
catalog and the reference catalog have the same length and are paired row by row; if every reference row is `T` of
its group row in the plane of the fit, the conclusions of `group_align_exact` hold with `inp = rf = [0, …, n-1]` -/
theorem group_align_exact_match_none (P : Aff ℝ) (hP : P.m.det ≠ 0) (δ : Nat → V2 ℝ → V2 ℝ)
    (eps epsD : ℝ) (heps : 0 < eps) (g : FitGeom) (nclip : Option Int) (sigma : Option (ℝ × String))
    (accum : Bool) (ms : List (GMember (FState ℝ) ℝ))
    (hgood : ∀ (p : Nat) (gm : GMember (FState ℝ) ℝ), ms[p]? = some gm →
      gm.corr.f.WF ∧ gm.corr.hx ≠ 0 ∧ gm.corr.hy ≠ 0)
    (w0 : Nat → ℝ × ℝ → ℝ × ℝ) (st0 : GState ℝ) (hc : createGroup w0 (ms.map (·.cat)) = .ok st0)
    (hist : List (GC.GOp ℝ)) (hcur : Current (fitsOps P δ) ms (run st0 hist))
    (hne : (run st0 hist).catlen ≠ 0) (ref : RefCat ℝ)
    (hl : (run st0 hist).catlen = ref.ids.length) (hl2 : ref.radec.length = ref.ids.length)
    (minobj : Option Nat) (fitmin : Nat) (r : IterRes ℝ) (f : Aff ℝ)
    (hfit : (groupAlignToRef (fitsOps P δ) (FitCfg.ofGeom eps epsD g nclip sigma accum) ms (run st0 hist) ref
      none minobj fitmin).fit = some (r, f))
    (T : Lin ℝ) (hdetT : T.m00 * T.m11 - T.m01 * T.m10 ≠ 0)
    (hT : ∀ (i : Nat) (row : GRow ℝ) (rd : ℝ × ℝ), (run st0 hist).rows[i]? = some row → ref.radec[i]? = some rd →
      P.app (toV rd) = C01.Lin.app T (P.app (toV row.radec)))
    (hfam : FamilyOK g T (∀ pa : PairArgs ℝ,
      (groupAlignToRef (fitsOps P δ) (FitCfg.ofGeom eps epsD g nclip sigma accum) ms (run st0 hist) ref
        none minobj fitmin).res = .ok (true, some pa) →
      ((List.zipWith mkObs pa.xy pa.uv).map fun o => (o.u, o.v)).Nodup)) :
    MovedBy (fitsOps P δ) ms (run st0 hist)
      (groupAlignToRef (fitsOps P δ) (FitCfg.ofGeom eps epsD g nclip sigma accum) ms (run st0 hist) ref
        none minobj fitmin) ref (List.range (run st0 hist).catlen) (List.range (run st0 hist).catlen) f T :=
  group_exact_code_none w0 _ fitsGood (fits_applies P hP δ) eps epsD heps g nclip sigma accum ms hgood st0 hc hist
    hcur hne ref hl hl2 minobj fitmin r f hfit T hdetT hT hfam

/-- … and gWCS members -/
theorem group_align_exact_match_none_gwcs (env : Nat → GEnv ℝ) (refW2T refT2W : V2 ℝ → V2 ℝ)
    (hr1 : ∀ w, refT2W (refW2T w) = w) (s0 : Nat → ℝ)
    (eps epsD : ℝ) (heps : 0 < eps) (g : FitGeom) (nclip : Option Int) (sigma : Option (ℝ × String))
    (accum : Bool) (ms : List (GMember (GCorr ℝ) ℝ))
    (hgood : ∀ (p : Nat) (gm : GMember (GCorr ℝ) ℝ), ms[p]? = some gm →
      (env p).Bij ∧ gm.corr.WF ∧ s0 p ≠ 0 ∧
        ∃ q : Aff ℝ, q.m.det ≠ 0 ∧ ∀ x, gm.corr.worldToTanp (env p) (refT2W x) = q.app x)
    (w0 : Nat → ℝ × ℝ → ℝ × ℝ) (st0 : GState ℝ) (hc : createGroup w0 (ms.map (·.cat)) = .ok st0)
    (hist : List (GC.GOp ℝ)) (hcur : Current (gwcsOps env refW2T refT2W s0) ms (run st0 hist))
    (hne : (run st0 hist).catlen ≠ 0) (ref : RefCat ℝ)
    (hl : (run st0 hist).catlen = ref.ids.length) (hl2 : ref.radec.length = ref.ids.length)
    (minobj : Option Nat) (fitmin : Nat) (r : IterRes ℝ) (f : Aff ℝ)
    (hfit : (groupAlignToRef (gwcsOps env refW2T refT2W s0) (FitCfg.ofGeom eps epsD g nclip sigma accum) ms
      (run st0 hist) ref none minobj fitmin).fit = some (r, f))
    (T : Lin ℝ) (hdetT : T.m00 * T.m11 - T.m01 * T.m10 ≠ 0)
    (hT : ∀ (i : Nat) (row : GRow ℝ) (rd : ℝ × ℝ), (run st0 hist).rows[i]? = some row → ref.radec[i]? = some rd →
      refW2T (toV rd) = C01.Lin.app T (refW2T (toV row.radec)))
    (hfam : FamilyOK g T (∀ pa : PairArgs ℝ,
      (groupAlignToRef (gwcsOps env refW2T refT2W s0) (FitCfg.ofGeom eps epsD g nclip sigma accum) ms
        (run st0 hist) ref none minobj fitmin).res = .ok (true, some pa) →
      ((List.zipWith mkObs pa.xy pa.uv).map fun o => (o.u, o.v)).Nodup)) :
    MovedBy (gwcsOps env refW2T refT2W s0) ms (run st0 hist)
      (groupAlignToRef (gwcsOps env refW2T refT2W s0) (FitCfg.ofGeom eps epsD g nclip sigma accum) ms
        (run st0 hist) ref none minobj fitmin) ref (List.range (run st0 hist).catlen)
      (List.range (run st0 hist).catlen) f T :=
  group_exact_code_none w0 _ (gwcsGood env refT2W s0) (gwcs_applies env refW2T refT2W hr1 s0) eps epsD heps g nclip
    sigma accum ms hgood st0 hc hist hcur hne ref hl hl2 minobj fitmin r f hfit T hdetT hT hfam

/-- **exactness at group level, `general` fit over ANY ordered field** (exact rationals included), any metric,
statistic, weight normalisation and `minobj` of the fitter: FITS members -/
theorem group_align_exact_general (P : Aff K) (hP : P.m.det ≠ 0) (δ : Nat → V2 K → V2 K)
    (eps epsD : K) (heps : 0 < eps) (nrm : Bool) (mt : Metric K) (fm : Nat) (nclip : Option Int)
    (sigma : Option (K × String)) (accum : Bool) (ms : List (GMember (FState K) K))
    (hgood : ∀ (p : Nat) (gm : GMember (FState K) K), ms[p]? = some gm →
      gm.corr.f.WF ∧ gm.corr.hx ≠ 0 ∧ gm.corr.hy ≠ 0)
    (w0 : Nat → K × K → K × K) (st0 : GState K) (hc : createGroup w0 (ms.map (·.cat)) = .ok st0)
    (hist : List (GC.GOp K)) (hcur : Current (fitsOps P δ) ms (run st0 hist))
    (hne : (run st0 hist).catlen ≠ 0) (ref : RefCat K) (mref minput : List Int)
    (minobj : Option Nat) (fitmin : Nat) (r : IterRes K) (f : Aff K)
    (hfit : (groupAlignToRef (fitsOps P δ) ⟨fitGeneral eps epsD, nrm, mt, fm, nclip, sigma, accum⟩ ms
      (run st0 hist) ref (some (mref, minput)) minobj fitmin).fit = some (r, f))
    (inp rf : List Nat) (hin : normAll (run st0 hist).catlen minput = some inp)
    (hrf : normAll ref.radec.length mref = some rf)
    (T : Lin K) (hdetT : T.m00 * T.m11 - T.m01 * T.m10 ≠ 0)
    (hT : ∀ (k i j : Nat) (row : GRow K) (rd : K × K), inp[k]? = some i → rf[k]? = some j →
      (run st0 hist).rows[i]? = some row → ref.radec[j]? = some rd →
      P.app (toV rd) = C01.Lin.app T (P.app (toV row.radec))) :
    MovedBy (fitsOps P δ) ms (run st0 hist)
      (groupAlignToRef (fitsOps P δ) ⟨fitGeneral eps epsD, nrm, mt, fm, nclip, sigma, accum⟩ ms (run st0 hist)
        ref (some (mref, minput)) minobj fitmin) ref inp rf f T :=
  group_exact_general w0 _ fitsGood (fits_applies P hP δ) eps epsD heps nrm mt fm nclip sigma accum ms hgood st0 hc
    hist hcur hne ref mref minput minobj fitmin r f hfit inp rf hin hrf T hdetT hT

/-- … and gWCS members -/
theorem group_align_exact_general_gwcs (env : Nat → GEnv K) (refW2T refT2W : V2 K → V2 K)
    (hr1 : ∀ w, refT2W (refW2T w) = w) (s0 : Nat → K)
    (eps epsD : K) (heps : 0 < eps) (nrm : Bool) (mt : Metric K) (fm : Nat) (nclip : Option Int)
    (sigma : Option (K × String)) (accum : Bool) (ms : List (GMember (GCorr K) K))
    (hgood : ∀ (p : Nat) (gm : GMember (GCorr K) K), ms[p]? = some gm →
      (env p).Bij ∧ gm.corr.WF ∧ s0 p ≠ 0 ∧
        ∃ q : Aff K, q.m.det ≠ 0 ∧ ∀ x, gm.corr.worldToTanp (env p) (refT2W x) = q.app x)
    (w0 : Nat → K × K → K × K) (st0 : GState K) (hc : createGroup w0 (ms.map (·.cat)) = .ok st0)
    (hist : List (GC.GOp K)) (hcur : Current (gwcsOps env refW2T refT2W s0) ms (run st0 hist))
    (hne : (run st0 hist).catlen ≠ 0) (ref : RefCat K) (mref minput : List Int)
    (minobj : Option Nat) (fitmin : Nat) (r : IterRes K) (f : Aff K)
    (hfit : (groupAlignToRef (gwcsOps env refW2T refT2W s0) ⟨fitGeneral eps epsD, nrm, mt, fm, nclip, sigma, accum⟩
      ms (run st0 hist) ref (some (mref, minput)) minobj fitmin).fit = some (r, f))
    (inp rf : List Nat) (hin : normAll (run st0 hist).catlen minput = some inp)
    (hrf : normAll ref.radec.length mref = some rf)
    (T : Lin K) (hdetT : T.m00 * T.m11 - T.m01 * T.m10 ≠ 0)
    (hT : ∀ (k i j : Nat) (row : GRow K) (rd : K × K), inp[k]? = some i → rf[k]? = some j →
      (run st0 hist).rows[i]? = some row → ref.radec[j]? = some rd →
      refW2T (toV rd) = C01.Lin.app T (refW2T (toV row.radec))) :
    MovedBy (gwcsOps env refW2T refT2W s0) ms (run st0 hist)
      (groupAlignToRef (gwcsOps env refW2T refT2W s0) ⟨fitGeneral eps epsD, nrm, mt, fm, nclip, sigma, accum⟩ ms
        (run st0 hist) ref (some (mref, minput)) minobj fitmin) ref inp rf f T :=
  group_exact_general w0 _ (gwcsGood env refT2W s0) (gwcs_applies env refW2T refT2W hr1 s0) eps epsD heps nrm mt fm
    nclip sigma accum ms hgood st0 hc hist hcur hne ref mref minput minobj fitmin r f hfit inp rf hin hrf T hdetT hT

/-- **the weights of the group fit.**  If pair `k` of the matcher's answer names the `j`-th source of the `i`-th
non-empty member `gm` (group row `groupOffset i + j`) and that member's catalog has the weight column `wi`, the
weight `wuv[k]` handed to `iter_linear_fit` is `wi[j]`.  Hence a source of ANY member whose weight is not positive
does not influence the group fit: replacing the coordinates of pair `k` by anything gives the same answer of
`iter_linear_fit` (the same exception or the same matrix, shift, centre, statistics, `fitmask`), and `fitmask[k]` is
`False`.  Any corrector class, any fit geometry, any history. -/
theorem group_align_weights {C : Type} (ops : CorrOps C K) (cfg : FitCfg K) (ms : List (GMember C K))
    (hwf : ∀ gm ∈ ms, ∀ w, gm.cat.weight = some w → w.length = gm.cat.rows.length)
    (w0 : Nat → K × K → K × K) (st0 : GState K) (hc : createGroup w0 (ms.map (·.cat)) = .ok st0)
    (hist : List (GC.GOp K)) (hne : (run st0 hist).catlen ≠ 0) (ref : RefCat K) (mref minput : List Int)
    (minobj : Option Nat) (fitmin : Nat) (pa : PairArgs K)
    (hR : (groupAlignToRef ops cfg ms (run st0 hist) ref (some (mref, minput)) minobj fitmin).res
      = .ok (true, some pa))
    (inp : List Nat) (hin : normAll (run st0 hist).catlen minput = some inp)
    (k i j : Nat) (gm : GMember C K) (wi : List K)
    (him : (nonEmptyCats (ms.map (·.cat)))[i]? = some gm.cat) (hj : j < gm.cat.rows.length)
    (hw : gm.cat.weight = some wi)
    (hk : inp[k]? = some (groupOffset (nonEmptyCats (ms.map (·.cat))) i + j)) :
    (∃ wu, pa.wuv = some wu ∧ wu[k]? = wi[j]?) ∧
    (∀ x, wi[j]? = some x → ¬ 0 < x →
      (∀ obs2 : List (Obs K), obs2.length = (List.zipWith mkObs pa.xy pa.uv).length →
        (∀ k', k' ≠ k → obs2[k']? = (List.zipWith mkObs pa.xy pa.uv)[k']?) →
        iterLinearFitWith cfg.single cfg.normalised cfg.metric cfg.fitMinobj obs2 pa.wxy pa.wuv none cfg.nclip
            cfg.sigma cfg.accum
          = iterLinearFitWith cfg.single cfg.normalised cfg.metric cfg.fitMinobj (List.zipWith mkObs pa.xy pa.uv)
            pa.wxy pa.wuv none cfg.nclip cfg.sigma cfg.accum) ∧
      (∀ r f, (groupAlignToRef ops cfg ms (run st0 hist) ref (some (mref, minput)) minobj fitmin).fit = some (r, f) →
        ¬ Clip.On r.fitmask k)) := by
  obtain ⟨wu, hwu, hwk⟩ := weight_of_member w0 ops cfg ms hwf st0 hc hist hne ref mref minput minobj fitmin pa hR
    inp hin k i j gm wi him hj hw hk
  refine ⟨⟨wu, hwu, hwk⟩, fun x hx hnp => ?_⟩
  have hoff : ∀ n, ¬ Clip.On (wmaskOf n pa.wxy pa.wuv) k := by
    intro n hon
    obtain ⟨_, _, h3⟩ := (C09.wmask_spec n pa.wxy pa.wuv k).mp hon
    obtain ⟨y, hy, hpos⟩ := h3 wu hwu
    rw [hwk, hx] at hy
    injection hy with hy
    subst hy
    exact hnp (by simpa [zeroK_eq] using hpos)
  constructor
  · intro obs2 hlen hag
    have := (C09.zero_weight_irrelevant cfg.single cfg.normalised cfg.metric cfg.fitMinobj
      (List.zipWith mkObs pa.xy pa.uv) obs2 pa.wxy pa.wuv none cfg.nclip cfg.sigma cfg.accum hlen.symm
      (fun i hi => by
        by_cases hik : i = k
        · subst hik; exact absurd hi (hoff _)
        · exact (hag i hik).symm)).1
    exact this.symm
  · intro r f hfit hon
    obtain ⟨_, _, _, pa', _, _, _, hfp, _, _, hR', _⟩ :=
      fit_inv ops cfg ms (run st0 hist) ref _ minobj fitmin r f hfit
    rw [hR] at hR'
    simp only [Except.ok.injEq, Prod.mk.injEq, Option.some.injEq, true_and] at hR'
    subst hR'
    have hiter := (fitPairs_ok cfg pa r _ hfp).1
    exact (C09.zero_weight_irrelevant cfg.single cfg.normalised cfg.metric cfg.fitMinobj
      (List.zipWith mkObs pa.xy pa.uv) (List.zipWith mkObs pa.xy pa.uv) pa.wxy pa.wuv none cfg.nclip cfg.sigma
      cfg.accum rfl (fun _ _ => rfl)).2 r hiter k (hoff _) hon

/-- **the group-level model is `GC.alignToRef`** with its external parameters made concrete (the fitter is
`iter_linear_fit` on the selected pairs; the WCS after the correction are `det_to_world` of the corrected
members): state and return value agree, so every bookkeeping theorem of C11 about `alignToRef` (`matched_ref_id`,
`get_unmatched_cat`, what `expand_catalog` appends, …) holds for the composition. -/
theorem group_align_is_alignToRef {C : Type} (ops : CorrOps C K) (cfg : FitCfg K) (ms : List (GMember C K))
    (st : GState K) (ref : RefCat K) (m : Option (List Int × List Int)) (minobj : Option Nat) (fitmin : Nat) :
    alignToRef st (alignArgsOf ops cfg (groupAlignToRef ops cfg ms st ref m minobj fitmin).members ref m minobj fitmin)
      = ⟨(groupAlignToRef ops cfg ms st ref m minobj fitmin).st,
         (groupAlignToRef ops cfg ms st ref m minobj fitmin).res⟩ :=
  groupAlignToRef_eq_alignToRef ops cfg ms st ref m minobj fitmin

/-- **the reference plane does not matter at group level (FITS, flat sky).**  The same group aligned once in the
plane `P` and once in the plane `Q ∘ P` (any invertible `Q`: another tangent point, orientation, scale), when the
two fits are conjugate — `f₂ = Q f₁ Q⁻¹`, which is the equivariance of the fit (C08) — : every member, at every
position, ends with the same WCS as a map pixel → sky, and the two recomputed group catalogs carry the same
`RA`, `DEC` row by row. -/
theorem group_align_plane_independent (P Q : Aff K) (hP : P.m.det ≠ 0) (hQ : Q.m.det ≠ 0)
    (δ : Nat → V2 K → V2 K) (cfg1 cfg2 : FitCfg K) (ms : List (GMember (FState K) K))
    (hgood : ∀ (p : Nat) (gm : GMember (FState K) K), ms[p]? = some gm →
      gm.corr.f.WF ∧ gm.corr.hx ≠ 0 ∧ gm.corr.hy ≠ 0)
    (w0 : Nat → K × K → K × K) (st0 : GState K) (hc : createGroup w0 (ms.map (·.cat)) = .ok st0)
    (hist : List (GC.GOp K)) (hcur : Current (fitsOps P δ) ms (run st0 hist))
    (ref : RefCat K) (m : Option (List Int × List Int)) (minobj : Option Nat) (fitmin : Nat)
    (r1 r2 : IterRes K) (f1 f2 : Aff K)
    (hfit1 : (groupAlignToRef (fitsOps P δ) cfg1 ms (run st0 hist) ref m minobj fitmin).fit = some (r1, f1))
    (hfit2 : (groupAlignToRef (fitsOps (Q.comp P) δ) cfg2 ms (run st0 hist) ref m minobj fitmin).fit
      = some (r2, f2))
    (hdet : f1.m.det ≠ 0) (hconj : f2 = Q.comp (f1.comp Q.inv)) :
    (∀ (p : Nat) (gm : GMember (FState K) K), ms[p]? = some gm →
      ∃ g1 g2, (groupAlignToRef (fitsOps P δ) cfg1 ms (run st0 hist) ref m minobj fitmin).members[p]? = some g1 ∧
        (groupAlignToRef (fitsOps (Q.comp P) δ) cfg2 ms (run st0 hist) ref m minobj fitmin).members[p]? = some g2 ∧
        g1.cat = gm.cat ∧ g2.cat = gm.cat ∧
        ∀ x, g2.corr.f.detToWorld (δ p) x = g1.corr.f.detToWorld (δ p) x) ∧
    (∀ (i : Nat) (row1 row2 : GRow K),
      (groupAlignToRef (fitsOps P δ) cfg1 ms (run st0 hist) ref m minobj fitmin).st.rows[i]? = some row1 →
      (groupAlignToRef (fitsOps (Q.comp P) δ) cfg2 ms (run st0 hist) ref m minobj fitmin).st.rows[i]? = some row2 →
      row2.radec = row1.radec ∧ row2.core = row1.core) := by
  have hQP : (Q.comp P).m.det ≠ 0 := by rw [Aff.det_comp]; exact mul_ne_zero hQ hP
  have hdet2 : f2.m.det ≠ 0 := by
    rw [hconj]
    simp only [Aff.det_comp, Aff.inv]
    rw [M2.det_inv _ hQ]
    have : Q.m.det * (f1.m.det * (1 / Q.m.det)) = f1.m.det := by field_simp
    rw [this]; exact hdet
  have hcur2 : Current (fitsOps (Q.comp P) δ) ms (run st0 hist) := hcur
  have c1 := group_core w0 _ fitsGood (fits_applies P hP δ) cfg1 ms hgood st0 hc hist hcur ref m minobj fitmin
    r1 f1 hfit1 hdet
  have c2 := group_core w0 _ fitsGood (fits_applies (Q.comp P) hQP δ) cfg2 ms hgood st0 hc hist hcur2 ref m minobj
    fitmin r2 f2 hfit2 hdet2
  unfold Applied at c1 c2
  obtain ⟨⟨_, hm1⟩, _, hrows1, _⟩ := c1
  obtain ⟨⟨_, hm2⟩, _, hrows2, _⟩ := c2
  have hsame : ∀ (p : Nat) (gm : GMember (FState K) K), ms[p]? = some gm → ∀ x,
      ((fitsOps (Q.comp P) δ).setCorr p gm.corr f2.m f2.t).f.detToWorld (δ p) x
        = ((fitsOps P δ).setCorr p gm.corr f1.m f1.t).f.detToWorld (δ p) x := by
    intro p gm hp x
    obtain ⟨hf, hx, hy⟩ := hgood p gm hp
    subst hconj
    exact fits_same_result_in_any_plane P Q hP hQ f1 hdet gm.corr.f hf gm.corr.hx gm.corr.hy hx hy (δ p) x
  refine ⟨fun p gm hp => ⟨_, _, hm1 p gm hp, hm2 p gm hp, rfl, rfl, hsame p gm hp⟩, ?_⟩
  intro i row1 row2 h1 h2
  obtain ⟨old1, p1, gm1, j1, ho1, hc1, hp1, hg1, _, _, _, hn1, _⟩ := hrows1 i row1 h1
  obtain ⟨old2, p2, gm2, j2, ho2, hc2, hp2, hg2, _, _, _, hn2, _⟩ := hrows2 i row2 h2
  rw [ho1] at ho2
  injection ho2 with ho2
  subst ho2
  have hcore : row2.core = row1.core := by rw [← hc1, ← hc2]
  have hidx : row2.imcatIdx = row1.imcatIdx := by
    have := congrArg (fun c => c.1) hcore
    simpa [GRow.core] using this
  have hxy : row2.xy = row1.xy := by
    have := congrArg (fun c => c.2.2) hcore
    simpa [GRow.core] using this
  rw [hidx, hp1] at hp2
  injection hp2 with hp2
  subst hp2
  rw [hg1] at hg2
  injection hg2 with hg2
  subst hg2
  refine ⟨?_, hcore⟩
  rw [hn1, hn2, hxy]
  exact congrArg ofV (hsame p1 gm1 hg1 (toV row1.xy))

/-- **… carried out in both planes with exact data (FITS, `general` fit, any ordered field).**  Here the conjugacy
of the two fits is not a hypothesis: if the pairs are noise-free for `T` in the plane `P` they are noise-free for
`Q T Q⁻¹` in the plane `Q ∘ P`, both alignments recover their map, and every member ends with the same WCS, every
catalog row with the same `RA`, `DEC`. -/
theorem group_align_plane_independent_exact (P Q : Aff K) (hP : P.m.det ≠ 0) (hQ : Q.m.det ≠ 0)
    (δ : Nat → V2 K → V2 K) (eps epsD : K) (heps : 0 < eps) (nrm : Bool) (mt : Metric K) (fm : Nat)
    (nclip : Option Int) (sigma : Option (K × String)) (accum : Bool) (ms : List (GMember (FState K) K))
    (hgood : ∀ (p : Nat) (gm : GMember (FState K) K), ms[p]? = some gm →
      gm.corr.f.WF ∧ gm.corr.hx ≠ 0 ∧ gm.corr.hy ≠ 0)
    (w0 : Nat → K × K → K × K) (st0 : GState K) (hc : createGroup w0 (ms.map (·.cat)) = .ok st0)
    (hist : List (GC.GOp K)) (hcur : Current (fitsOps P δ) ms (run st0 hist))
    (hne : (run st0 hist).catlen ≠ 0) (ref : RefCat K) (mref minput : List Int)
    (minobj : Option Nat) (fitmin : Nat) (r1 r2 : IterRes K) (f1 f2 : Aff K)
    (hfit1 : (groupAlignToRef (fitsOps P δ) ⟨fitGeneral eps epsD, nrm, mt, fm, nclip, sigma, accum⟩ ms
      (run st0 hist) ref (some (mref, minput)) minobj fitmin).fit = some (r1, f1))
    (hfit2 : (groupAlignToRef (fitsOps (Q.comp P) δ) ⟨fitGeneral eps epsD, nrm, mt, fm, nclip, sigma, accum⟩ ms
      (run st0 hist) ref (some (mref, minput)) minobj fitmin).fit = some (r2, f2))
    (inp rf : List Nat) (hin : normAll (run st0 hist).catlen minput = some inp)
    (hrf : normAll ref.radec.length mref = some rf)
    (T : Lin K) (hdetT : T.m00 * T.m11 - T.m01 * T.m10 ≠ 0)
    (hT : ∀ (k i j : Nat) (row : GRow K) (rd : K × K), inp[k]? = some i → rf[k]? = some j →
      (run st0 hist).rows[i]? = some row → ref.radec[j]? = some rd →
      P.app (toV rd) = C01.Lin.app T (P.app (toV row.radec))) :
    (∀ (p : Nat) (gm : GMember (FState K) K), ms[p]? = some gm →
      ∃ g1 g2, (groupAlignToRef (fitsOps P δ) ⟨fitGeneral eps epsD, nrm, mt, fm, nclip, sigma, accum⟩ ms
          (run st0 hist) ref (some (mref, minput)) minobj fitmin).members[p]? = some g1 ∧
        (groupAlignToRef (fitsOps (Q.comp P) δ) ⟨fitGeneral eps epsD, nrm, mt, fm, nclip, sigma, accum⟩ ms
          (run st0 hist) ref (some (mref, minput)) minobj fitmin).members[p]? = some g2 ∧
        g1.cat = gm.cat ∧ g2.cat = gm.cat ∧
        ∀ x, g2.corr.f.detToWorld (δ p) x = g1.corr.f.detToWorld (δ p) x) ∧
    (∀ (i : Nat) (row1 row2 : GRow K),
      (groupAlignToRef (fitsOps P δ) ⟨fitGeneral eps epsD, nrm, mt, fm, nclip, sigma, accum⟩ ms
        (run st0 hist) ref (some (mref, minput)) minobj fitmin).st.rows[i]? = some row1 →
      (groupAlignToRef (fitsOps (Q.comp P) δ) ⟨fitGeneral eps epsD, nrm, mt, fm, nclip, sigma, accum⟩ ms
        (run st0 hist) ref (some (mref, minput)) minobj fitmin).st.rows[i]? = some row2 →
      row2.radec = row1.radec ∧ row2.core = row1.core) := by
  have hQP : (Q.comp P).m.det ≠ 0 := by rw [Aff.det_comp]; exact mul_ne_zero hQ hP
  -- the conjugated map
  let F : Aff K := ⟨⟨T.m00, T.m01, T.m10, T.m11⟩, ⟨T.sx, T.sy⟩⟩
  let A : Aff K := Q.comp (F.comp Q.inv)
  let T' : Lin K := ⟨A.m.a, A.m.b, A.m.c, A.m.d, A.t.x, A.t.y⟩
  have hA : ∀ v, C01.Lin.app T' v = A.app v := fun v => rfl
  have hFdet : F.m.det ≠ 0 := hdetT
  have hdetT' : T'.m00 * T'.m11 - T'.m01 * T'.m10 ≠ 0 := by
    show A.m.det ≠ 0
    simp only [A, Aff.det_comp, Aff.inv]
    rw [M2.det_inv _ hQ]
    have : Q.m.det * (F.m.det * (1 / Q.m.det)) = F.m.det := by field_simp
    rw [this]; exact hFdet
  have hT' : ∀ (k i j : Nat) (row : GRow K) (rd : K × K), inp[k]? = some i → rf[k]? = some j →
      (run st0 hist).rows[i]? = some row → ref.radec[j]? = some rd →
      (Q.comp P).app (toV rd) = C01.Lin.app T' ((Q.comp P).app (toV row.radec)) := by
    intro k i j row rd hi hj hrow hrd
    rw [hA]
    simp only [A, Aff.app_comp, Aff.inv_app Q hQ]
    rw [hT k i j row rd hi hj hrow hrd]
    rfl
  have hcur2 : Current (fitsOps (Q.comp P) δ) ms (run st0 hist) := hcur
  have m1 := group_align_exact_general P hP δ eps epsD heps nrm mt fm nclip sigma accum ms hgood w0 st0 hc hist hcur
    hne ref mref minput minobj fitmin r1 f1 hfit1 inp rf hin hrf T hdetT hT
  have m2 := group_align_exact_general (Q.comp P) hQP δ eps epsD heps nrm mt fm nclip sigma accum ms hgood w0 st0 hc
    hist hcur2 hne ref mref minput minobj fitmin r2 f2 hfit2 inp rf hin hrf T' hdetT' hT'
  have e1 : f1 = F := m1.1
  have e2 : f2 = A := m2.1
  exact group_align_plane_independent P Q hP hQ δ _ _ ms hgood w0 st0 hc hist hcur ref _ minobj fitmin r1 r2 f1 f2
    hfit1 hfit2 (by rw [e1]; exact hFdet) (by rw [e1, e2])

/-- **on the sky** (FITS, flat sky): under the conclusion of the exactness theorems the recomputed `RA`, `DEC` of
every matched row IS the reference position of its pair (not only its image in the plane), and the new sky
position of every row is `P⁻¹ ∘ T ∘ P` of its old one — one sky-level map for all members -/
theorem group_align_lands_on_reference (P : Aff K) (hP : P.m.det ≠ 0) (δ : Nat → V2 K → V2 K)
    (ms : List (GMember (FState K) K)) (st : GState K) (R : GAResult (FState K) K) (ref : RefCat K)
    (inp rf : List Nat) (f : Aff K) (T : Lin K)
    (h : MovedBy (fitsOps P δ) ms st R ref inp rf f T) :
    (∀ (k i j : Nat) (rd : K × K), inp[k]? = some i → rf[k]? = some j → ref.radec[j]? = some rd →
      ∃ row', R.st.rows[i]? = some row' ∧ row'.radec = rd) ∧
    (∀ (i : Nat) (row' : GRow K), R.st.rows[i]? = some row' →
      ∃ old, st.rows[i]? = some old ∧
        toV row'.radec = P.inv.app (C01.Lin.app T (P.app (toV old.radec)))) := by
  unfold MovedBy at h
  obtain ⟨_, _, hrows, hland⟩ := h
  have inj : ∀ a b : V2 K, P.app a = P.app b → a = b := by
    intro a b hab
    have := congrArg P.inv.app hab
    rwa [Aff.inv_app _ hP, Aff.inv_app _ hP] at this
  constructor
  · intro k i j rd hi hj hrd
    obtain ⟨row', hrow', hw⟩ := hland k i j rd hi hj hrd
    exact ⟨row', hrow', congrArg ofV (inj _ _ hw)⟩
  · intro i row' hrow'
    obtain ⟨old, _, _, _, hold, _, _, _, _, _, _, hw⟩ := hrows i row' hrow'
    refine ⟨old, hold, ?_⟩
    have hw' : P.app (toV row'.radec) = C01.Lin.app T (P.app (toV old.radec)) := hw
    rw [← hw', Aff.inv_app _ hP]

/-- **on the sky** (gWCS): the same with the reference corrector's `tanp_to_world ∘ T ∘ world_to_tanp` -/
theorem group_align_lands_on_reference_gwcs (env : Nat → GEnv K) (refW2T refT2W : V2 K → V2 K)
    (hr1 : ∀ w, refT2W (refW2T w) = w) (s0 : Nat → K)
    (ms : List (GMember (GCorr K) K)) (st : GState K) (R : GAResult (GCorr K) K) (ref : RefCat K)
    (inp rf : List Nat) (f : Aff K) (T : Lin K)
    (h : MovedBy (gwcsOps env refW2T refT2W s0) ms st R ref inp rf f T) :
    (∀ (k i j : Nat) (rd : K × K), inp[k]? = some i → rf[k]? = some j → ref.radec[j]? = some rd →
      ∃ row', R.st.rows[i]? = some row' ∧ row'.radec = rd) ∧
    (∀ (i : Nat) (row' : GRow K), R.st.rows[i]? = some row' →
      ∃ old, st.rows[i]? = some old ∧
        toV row'.radec = refT2W (C01.Lin.app T (refW2T (toV old.radec)))) := by
  unfold MovedBy at h
  obtain ⟨_, _, hrows, hland⟩ := h
  have inj : ∀ a b : V2 K, refW2T a = refW2T b → a = b := by
    intro a b hab
    have := congrArg refT2W hab
    rwa [hr1, hr1] at this
  constructor
  · intro k i j rd hi hj hrd
    obtain ⟨row', hrow', hw⟩ := hland k i j rd hi hj hrd
    exact ⟨row', hrow', congrArg ofV (inj _ _ hw)⟩
  · intro i row' hrow'
    obtain ⟨old, _, _, _, hold, _, _, _, _, _, _, hw⟩ := hrows i row' hrow'
    refine ⟨old, hold, ?_⟩
    have hw' : refW2T (toV row'.radec) = C01.Lin.app T (refW2T (toV old.radec)) := hw
    rw [← hw', hr1]

/-- **the procedure can be iterated** (FITS; prior histories 0, 1, 2, … alignments): after a successful alignment the
corrected members and the recomputed catalog satisfy again the hypotheses of all the theorems above — well-formed
WCS with the same differentiation steps, the same catalogs (so `hc` holds verbatim), a current catalog reached by
a history of bookkeeping operations. -/
theorem group_align_can_be_iterated (P : Aff K) (hP : P.m.det ≠ 0) (δ : Nat → V2 K → V2 K) (cfg : FitCfg K)
    (ms : List (GMember (FState K) K))
    (hgood : ∀ (p : Nat) (gm : GMember (FState K) K), ms[p]? = some gm →
      gm.corr.f.WF ∧ gm.corr.hx ≠ 0 ∧ gm.corr.hy ≠ 0)
    (w0 : Nat → K × K → K × K) (st0 : GState K) (hc : createGroup w0 (ms.map (·.cat)) = .ok st0)
    (hist : List (GC.GOp K)) (hcur : Current (fitsOps P δ) ms (run st0 hist))
    (ref : RefCat K) (m : Option (List Int × List Int)) (minobj : Option Nat) (fitmin : Nat)
    (r : IterRes K) (f : Aff K)
    (hfit : (groupAlignToRef (fitsOps P δ) cfg ms (run st0 hist) ref m minobj fitmin).fit = some (r, f))
    (hdet : f.m.det ≠ 0) :
    (∀ (p : Nat) (gm : GMember (FState K) K),
      (groupAlignToRef (fitsOps P δ) cfg ms (run st0 hist) ref m minobj fitmin).members[p]? = some gm →
      gm.corr.f.WF ∧ gm.corr.hx ≠ 0 ∧ gm.corr.hy ≠ 0) ∧
    createGroup w0 ((groupAlignToRef (fitsOps P δ) cfg ms (run st0 hist) ref m minobj fitmin).members.map (·.cat))
      = .ok st0 ∧
    (∃ hist', (groupAlignToRef (fitsOps P δ) cfg ms (run st0 hist) ref m minobj fitmin).st = run st0 hist') ∧
    Current (fitsOps P δ) (groupAlignToRef (fitsOps P δ) cfg ms (run st0 hist) ref m minobj fitmin).members
      (groupAlignToRef (fitsOps P δ) cfg ms (run st0 hist) ref m minobj fitmin).st := by
  obtain ⟨_, _, _, _, _, _, _, _, _, hmem, _, hst⟩ := fit_inv _ cfg ms (run st0 hist) ref m minobj fitmin r f hfit
  have hcore := group_core w0 _ fitsGood (fits_applies P hP δ) cfg ms hgood st0 hc hist hcur ref m minobj fitmin
    r f hfit hdet
  unfold Applied at hcore
  obtain ⟨⟨hlen, hm⟩, _, _, hcur'⟩ := hcore
  refine ⟨?_, ?_, ?_, hcur'⟩
  · intro p gm' hp
    have hpl : p < ms.length := by
      rw [← hlen]
      by_contra hcon
      rw [List.getElem?_eq_none_iff.mpr (by omega)] at hp; cases hp
    have hold : ms[p]? = some ms[p] := List.getElem?_eq_getElem hpl
    have := hm p _ hold
    rw [hp] at this
    injection this with this
    subst this
    obtain ⟨hf, hx, hy⟩ := hgood p _ hold
    exact ⟨FCorr.setCorrectionRef_WF _ hf P hP f.m f.t hdet _ _ hx hy, hx, hy⟩
  · rw [hmem, apply_cats]; exact hc
  · refine ⟨hist ++ [GC.GOp.calcTp (tOf (fitsOps P δ)), GC.GOp.match2ref ref.ids m,
      GC.GOp.recalc (wOf (fitsOps P δ) (applyAffineToWcs (fitsOps P δ) ms f.m f.t))], ?_⟩
    rw [hst]
    simp [run, List.foldl_append, applyOp]

/-! ### non-vacuity: a concrete rational group (`GAL.gaMs`: three FITS members, the middle one WITHOUT sources and
already corrected once, the last one in PC/CDELT form with a non-linear distortion; chart `GAL.gaP`, true map
`GAL.gaT`; `general` fit with `nclip = 3`, `nsigma = 3`) -/

-- the hypotheses on members, chart and map hold
example : ∀ gm ∈ gaMs, gm.corr.f.L.det ≠ 0 ∧ gm.corr.hx ≠ 0 ∧ gm.corr.hy ≠ 0 := by decide +kernel
example : gaP.m.det ≠ 0 ∧ gaT.m00 * gaT.m11 - gaT.m01 * gaT.m10 ≠ 0 := by decide +kernel

-- the hypothesis `hT` holds: the matcher's arrays normalise to rows `[4, 0, 5, 2]` / reference rows
-- `[2, 0, 3, 1]`, and every pair is (`gaT` of the row's plane position, the row's plane position)
example :
    (match createGroupOf gaOps gaMs with
     | .ok st0 =>
       normAll st0.catlen [4, 0, -1, 2] == some [4, 0, 5, 2] &&
       normAll gaRef.radec.length [2, 0, 3, 1] == some [2, 0, 3, 1] &&
       (List.zip [4, 0, 5, 2] [2, 0, 3, 1]).all (fun ij =>
         match st0.rows[ij.1]?, gaRef.radec[ij.2]? with
         | some row, some rd => gaP.app (toV rd) == C01.Lin.app gaT (gaP.app (toV row.radec))
         | _, _ => false)
     | .error _ => false) = true := by decide +kernel

-- … the alignment succeeds and the conclusions can be read off: the reported fit is `gaT` (the centre of the fit
-- is not the origin: the re-centring matters); all three members — the empty one at position 1 too — are moved by
-- `gaT` in the plane, at catalog pixels and elsewhere; the matched rows 0, 2, 4, 5 carry the reference positions
-- 0, 1, 2, 3; `matched_ref_id` names the reference ids
example :
    (match groupAlign gaOps gaCfg gaMs gaRef gaMatch none 3 with
     | .ok R =>
       (R.res.toOption.map (·.1) == some true) &&
       (R.fit.map (·.2) == some ⟨⟨2, -1, -1, 3⟩, ⟨1, 1⟩⟩) &&
       (R.fit.map (·.1.center) == some (175/32, -45/32)) &&
       (List.range 3).all (fun p => gaPix.all fun x =>
          match gaMs[p]?, R.members[p]? with
          | some gm, some gm' =>
            gaP.app (gm'.corr.f.detToWorld (gaDelta p) x)
              == C01.Lin.app gaT (gaP.app (gm.corr.f.detToWorld (gaDelta p) x))
          | _, _ => false) &&
       (R.st.rows.map (·.radec)
          == [(9/2, -4), (15/2, -6), (4, -2), (43/4, -9), (261/16, -55/4), (45/4, -11)]) &&
       ([0, 2, 4, 5].map (fun i => (R.st.rows[i]?).map (·.radec)) == [0, 1, 2, 3].map (fun j => gaRef.radec[j]?)) &&
       (R.st.matchedRefId.map MCol.view == some [some 11, none, some 12, none, some 13, some 14])
     | .error _ => false) = true := by decide +kernel

-- `group_align_weights`: the second source of member 2 (pair 0) has weight 0; wherever it sits — on its true
-- pixel or far away — the fit is `gaT`, the pair carries weight 0 into the fit and is not in `fitmask`
example :
    ([((1 : ℚ), (1 : ℚ)), (50, -7)].all fun x =>
      match groupAlign gaOps gaCfg (gaMsZ x) gaRef gaMatch none 3 with
      | .ok R =>
        (R.fit.map (·.2) == some ⟨⟨2, -1, -1, 3⟩, ⟨1, 1⟩⟩) &&
        (R.fit.map (·.1.fitmask) == some [false, true, true, true]) &&
        (match R.res with
         | .ok (true, some pa) => pa.wuv == some [0, 1, 2, 1]
         | _ => false)
      | .error _ => false) = true := by decide +kernel

/-! ### non-vacuity, gWCS (`GAL.gaGMs`: affine pipelines, a different detector transform per member; member 0 never
corrected, member 1 without sources, member 2 corrected once before; reference plane `GAL.gaPr`) -/

-- the hypotheses of the gWCS theorems hold for every member: bijective pipeline pieces, well-formed state,
-- non-zero sampling scale, affine invertible plane-to-plane map
example : ∀ (p : Nat) (gm : GMember (GCorr ℚ) ℚ), gaGMs[p]? = some gm →
    (gaEnv p).Bij ∧ gm.corr.WF ∧ (fun _ : Nat => (1 : ℚ)) p ≠ 0 ∧
      ∃ q : Aff ℚ, q.m.det ≠ 0 ∧ ∀ x, gm.corr.worldToTanp (gaEnv p) (gaPr.inv.app x) = q.app x := by
  intro p gm hp
  have hdet : (gaA p).m.det ≠ 0 := by
    unfold gaA
    split
    · decide +kernel
    · split <;> decide +kernel
  have hb : (gaEnv p).Bij :=
    ⟨fun x => Aff.inv_app _ hdet x, fun x => Aff.app_inv _ hdet x, fun _ => rfl, fun _ => rfl, fun _ => rfl,
      fun _ => rfl, one_ne_zero⟩
  have hwf : gm.corr.WF := by
    match p, hp with
    | 0, hp =>
      simp only [gaGMs, List.getElem?_cons_zero, Option.some.injEq] at hp
      subst hp; exact GCorr.fresh_WF _
    | 1, hp =>
      simp only [gaGMs, List.getElem?_cons_succ, List.getElem?_cons_zero, Option.some.injEq] at hp
      subst hp; exact GCorr.fresh_WF _
    | 2, hp =>
      simp only [gaGMs, List.getElem?_cons_succ, List.getElem?_cons_zero, Option.some.injEq] at hp
      subst hp
      unfold GCorr.WF
      decide +kernel
    | n + 3, hp => simp [gaGMs] at hp
  refine ⟨hb, hwf, one_ne_zero, gaPr.inv, ?_, fun x => ?_⟩
  · decide +kernel
  · exact worldToTanp_trivial (gaEnv p) rfl rfl rfl rfl gm.corr hwf _

example : ∀ w, gaPr.inv.app (gaPr.app w) = w := fun w => Aff.inv_app gaPr (by decide +kernel) w

-- the alignment succeeds, the reported fit is `gaT`, all three members (the empty one too) are moved by `gaT`
-- in the reference plane, the matched rows 0, 2, 3, 4 carry the reference positions 1, 2, 3, 0
example :
    (match groupAlign gaGOps gaCfg gaGMs gaGRef gaGMatch none 3 with
     | .ok R =>
       (R.res.toOption.map (·.1) == some true) &&
       (R.fit.map (·.2) == some ⟨⟨2, -1, -1, 3⟩, ⟨1, 1⟩⟩) &&
       (List.range 3).all (fun p => gaPix.all fun x =>
          match gaGMs[p]?, R.members[p]? with
          | some gm, some gm' =>
            gaPr.app (gm'.corr.detToWorld (gaEnv p) x)
              == C01.Lin.app gaT (gaPr.app (gm.corr.detToWorld (gaEnv p) x))
          | _, _ => false) &&
       (R.st.rows.map (·.radec) == [(-7, 4), (-9/2, 7/2), (-19/2, 13/2), (8, 9), (3, 14)]) &&
       ([0, 2, 3, 4].map (fun i => (R.st.rows[i]?).map (·.radec)) == [1, 2, 3, 0].map (fun j => gaGRef.radec[j]?)) &&
       (R.members.map (·.corr.frames) == List.replicate 3 ["detector", "v2v3", "v2v3corr", "world"])
     | .error _ => false) = true := by decide +kernel

end groupAlign

end TW.C05

/-! ### group-level weight theorems (zero-weight sources of any member; exactness from the weighted pairs only) -/

/-! ## Property theorems (C09 / C01 at group level)

They are stated about `TW.GA.groupAlignToRef` and therefore cannot live in `Proofs/C09.lean` or `Proofs/C01.lean`:
`Proofs/C09.lean` is imported by `Proofs/GroupCatLemmas.lean` → `Proofs/C11.lean` → `Proofs/GroupAlignLemmas.lean`
(import cycle).  They continue the section `groupAlign` of `Proofs/C05.lean` (where `group_align_weights` and
`group_align_exact_general` live, for the same reason) and are in its namespace. -/
namespace TW.C05
open TW TW.GC TW.GCL TW.GA TW.GAL TW.GWL
section groupWeights
variable {K : Type} [Field K] [LinearOrder K] [IsStrictOrderedRing K]

/-- **zero-weight sources are irrelevant at group level (two runs; any corrector class, any fit geometry, metric,
`nclip`, `sigma`, `clip_accum`, `minobj`).**  Two groups with the same corrector states member by member (`hcorr`),
whose group catalogs `st1` and `{st1 with rows := rows2}` have the same number of rows and the same weight column,
`matched_ref_id` bookkeeping and member lengths, aligned to the same reference catalog with the same matcher answer
`(mref, minput)` and the same options.  The rows — pixel coordinates `x, y` AND sky coordinates `RA, DEC`, hence
the tangent-plane coordinates — may differ ARBITRARILY, except that (`hag`) for every matched pair `k` whose group
row `i = minput[k]` and reference row `j = mref[k]` both carry a positive weight (or no weight column exists) the
sky position of row `i` is the same in both catalogs.  In other words: the two groups differ only in sources that
are unmatched, have a non-positive weight, or are matched to a reference row with a non-positive weight.
Then (`GWL.SameResult`): both runs raise the same exception or return the same boolean; they write the same fit
(the whole `iter_linear_fit` result and the re-centred `(matrix, shift)`); every member ends in the same corrector
state, hence has the same corrected WCS at every pixel; every row that was equal before is equal after; `fitmask`
is `False` on every pair with a non-positive weight.  NOT claimed (it is false): the recomputed `RA, DEC` of the
moved rows themselves agree. -/
theorem group_zero_weight_source_irrelevant {C : Type} (ops : CorrOps C K) (cfg : FitCfg K)
    (ms1 ms2 : List (GMember C K)) (hcorr : ms1.map (·.corr) = ms2.map (·.corr))
    (st1 : GState K) (rows2 : List (GRow K)) (hl : rows2.length = st1.rows.length) (hne : st1.catlen ≠ 0)
    (ref : RefCat K) (mref minput : List Int) (minobj : Option Nat) (fitmin : Nat)
    (hag : ∀ inp rf, normAll st1.catlen minput = some inp → normAll ref.radec.length mref = some rf →
      ∀ k i j : Nat, inp[k]? = some i → rf[k]? = some j → PosW st1.weight i → PosW ref.weight j →
        (st1.rows[i]?).map (·.radec) = (rows2[i]?).map (·.radec)) :
    SameResult ops ms1 ms2 st1.rows rows2
      (groupAlignToRef ops cfg ms1 st1 ref (some (mref, minput)) minobj fitmin)
      (groupAlignToRef ops cfg ms2 { st1 with rows := rows2 } ref (some (mref, minput)) minobj fitmin) :=
  zw_two_runs ops cfg ms1 ms2 hcorr st1 rows2 hl hne ref mref minput minobj fitmin hag

/-- … all members FITS (flat sky): the same WCS as maps pixel → sky, member by member -/
theorem group_zero_weight_source_irrelevant_fits (P : Aff K) (δ : Nat → V2 K → V2 K) (cfg : FitCfg K)
    (ms1 ms2 : List (GMember (FState K) K)) (hcorr : ms1.map (·.corr) = ms2.map (·.corr))
    (st1 : GState K) (rows2 : List (GRow K)) (hl : rows2.length = st1.rows.length) (hne : st1.catlen ≠ 0)
    (ref : RefCat K) (mref minput : List Int) (minobj : Option Nat) (fitmin : Nat)
    (hag : ∀ inp rf, normAll st1.catlen minput = some inp → normAll ref.radec.length mref = some rf →
      ∀ k i j : Nat, inp[k]? = some i → rf[k]? = some j → PosW st1.weight i → PosW ref.weight j →
        (st1.rows[i]?).map (·.radec) = (rows2[i]?).map (·.radec)) :
    SameResult (fitsOps P δ) ms1 ms2 st1.rows rows2
      (groupAlignToRef (fitsOps P δ) cfg ms1 st1 ref (some (mref, minput)) minobj fitmin)
      (groupAlignToRef (fitsOps P δ) cfg ms2 { st1 with rows := rows2 } ref (some (mref, minput)) minobj fitmin) ∧
    ∀ (p : Nat) (g1 g2 : GMember (FState K) K),
      (groupAlignToRef (fitsOps P δ) cfg ms1 st1 ref (some (mref, minput)) minobj fitmin).members[p]? = some g1 →
      (groupAlignToRef (fitsOps P δ) cfg ms2 { st1 with rows := rows2 } ref (some (mref, minput)) minobj
        fitmin).members[p]? = some g2 →
      g1.corr = g2.corr ∧ ∀ x, g1.corr.f.detToWorld (δ p) x = g2.corr.f.detToWorld (δ p) x := by
  have h := zw_two_runs (fitsOps P δ) cfg ms1 ms2 hcorr st1 rows2 hl hne ref mref minput minobj fitmin hag
  refine ⟨h, fun p g1 g2 h1 h2 => ?_⟩
  have := congrArg (·[p]?) h.corr
  simp only [List.getElem?_map, h1, h2, Option.map_some, Option.some.injEq] at this
  exact ⟨this, fun x => by rw [this]⟩

/-- … all members gWCS -/
theorem group_zero_weight_source_irrelevant_gwcs (env : Nat → GEnv K) (refW2T refT2W : V2 K → V2 K) (s0 : Nat → K)
    (cfg : FitCfg K) (ms1 ms2 : List (GMember (GCorr K) K)) (hcorr : ms1.map (·.corr) = ms2.map (·.corr))
    (st1 : GState K) (rows2 : List (GRow K)) (hl : rows2.length = st1.rows.length) (hne : st1.catlen ≠ 0)
    (ref : RefCat K) (mref minput : List Int) (minobj : Option Nat) (fitmin : Nat)
    (hag : ∀ inp rf, normAll st1.catlen minput = some inp → normAll ref.radec.length mref = some rf →
      ∀ k i j : Nat, inp[k]? = some i → rf[k]? = some j → PosW st1.weight i → PosW ref.weight j →
        (st1.rows[i]?).map (·.radec) = (rows2[i]?).map (·.radec)) :
    SameResult (gwcsOps env refW2T refT2W s0) ms1 ms2 st1.rows rows2
      (groupAlignToRef (gwcsOps env refW2T refT2W s0) cfg ms1 st1 ref (some (mref, minput)) minobj fitmin)
      (groupAlignToRef (gwcsOps env refW2T refT2W s0) cfg ms2 { st1 with rows := rows2 } ref (some (mref, minput))
        minobj fitmin) :=
  zw_two_runs _ cfg ms1 ms2 hcorr st1 rows2 hl hne ref mref minput minobj fitmin hag

/-- **exactness at group level from the POSITIVELY WEIGHTED pairs (`general` fit, any ordered field, FITS
members).**  As `group_align_exact_general`, but `hT` — the reference position of pair `k` is `T` of the plane
position of group row `minput[k]` — is required only of the pairs whose group row and reference row both carry a
positive weight (or whose catalog has no weight column); all other matched pairs are arbitrary (outliers).
Conclusion (`GWL.MovedByOn`): the reported fit is `T`; EVERY member is moved by `T`; every recomputed row is the
corrected position of its member's source; the rows of the positively weighted pairs land on their reference
positions. -/
theorem group_align_exact_weighted (P : Aff K) (hP : P.m.det ≠ 0) (δ : Nat → V2 K → V2 K)
    (eps epsD : K) (heps : 0 < eps) (nrm : Bool) (mt : Metric K) (fm : Nat) (nclip : Option Int)
    (sigma : Option (K × String)) (accum : Bool) (ms : List (GMember (FState K) K))
    (hgood : ∀ (p : Nat) (gm : GMember (FState K) K), ms[p]? = some gm →
      gm.corr.f.WF ∧ gm.corr.hx ≠ 0 ∧ gm.corr.hy ≠ 0)
    (w0 : Nat → K × K → K × K) (st0 : GState K) (hc : createGroup w0 (ms.map (·.cat)) = .ok st0)
    (hist : List (GC.GOp K)) (hcur : Current (fitsOps P δ) ms (run st0 hist))
    (hne : (run st0 hist).catlen ≠ 0) (ref : RefCat K) (mref minput : List Int)
    (minobj : Option Nat) (fitmin : Nat) (r : IterRes K) (f : Aff K)
    (hfit : (groupAlignToRef (fitsOps P δ) ⟨fitGeneral eps epsD, nrm, mt, fm, nclip, sigma, accum⟩ ms
      (run st0 hist) ref (some (mref, minput)) minobj fitmin).fit = some (r, f))
    (inp rf : List Nat) (hin : normAll (run st0 hist).catlen minput = some inp)
    (hrf : normAll ref.radec.length mref = some rf)
    (T : Lin K) (hdetT : T.m00 * T.m11 - T.m01 * T.m10 ≠ 0)
    (hT : ∀ (k i j : Nat) (row : GRow K) (rd : K × K), inp[k]? = some i → rf[k]? = some j →
      PosW (run st0 hist).weight i → PosW ref.weight j →
      (run st0 hist).rows[i]? = some row → ref.radec[j]? = some rd →
      P.app (toV rd) = C01.Lin.app T (P.app (toV row.radec))) :
    MovedByOn (fitsOps P δ) ms (run st0 hist)
      (groupAlignToRef (fitsOps P δ) ⟨fitGeneral eps epsD, nrm, mt, fm, nclip, sigma, accum⟩ ms (run st0 hist)
        ref (some (mref, minput)) minobj fitmin) ref inp rf f T :=
  group_exact_general_on w0 _ fitsGood (fits_applies P hP δ) eps epsD heps nrm mt fm nclip sigma accum ms hgood st0 hc
    hist hcur hne ref mref minput minobj fitmin r f hfit inp rf hin hrf T hdetT hT

/-- … and gWCS members -/
theorem group_align_exact_weighted_gwcs (env : Nat → GEnv K) (refW2T refT2W : V2 K → V2 K)
    (hr1 : ∀ w, refT2W (refW2T w) = w) (s0 : Nat → K)
    (eps epsD : K) (heps : 0 < eps) (nrm : Bool) (mt : Metric K) (fm : Nat) (nclip : Option Int)
    (sigma : Option (K × String)) (accum : Bool) (ms : List (GMember (GCorr K) K))
    (hgood : ∀ (p : Nat) (gm : GMember (GCorr K) K), ms[p]? = some gm →
      (env p).Bij ∧ gm.corr.WF ∧ s0 p ≠ 0 ∧
        ∃ q : Aff K, q.m.det ≠ 0 ∧ ∀ x, gm.corr.worldToTanp (env p) (refT2W x) = q.app x)
    (w0 : Nat → K × K → K × K) (st0 : GState K) (hc : createGroup w0 (ms.map (·.cat)) = .ok st0)
    (hist : List (GC.GOp K)) (hcur : Current (gwcsOps env refW2T refT2W s0) ms (run st0 hist))
    (hne : (run st0 hist).catlen ≠ 0) (ref : RefCat K) (mref minput : List Int)
    (minobj : Option Nat) (fitmin : Nat) (r : IterRes K) (f : Aff K)
    (hfit : (groupAlignToRef (gwcsOps env refW2T refT2W s0) ⟨fitGeneral eps epsD, nrm, mt, fm, nclip, sigma, accum⟩
      ms (run st0 hist) ref (some (mref, minput)) minobj fitmin).fit = some (r, f))
    (inp rf : List Nat) (hin : normAll (run st0 hist).catlen minput = some inp)
    (hrf : normAll ref.radec.length mref = some rf)
    (T : Lin K) (hdetT : T.m00 * T.m11 - T.m01 * T.m10 ≠ 0)
    (hT : ∀ (k i j : Nat) (row : GRow K) (rd : K × K), inp[k]? = some i → rf[k]? = some j →
      PosW (run st0 hist).weight i → PosW ref.weight j →
      (run st0 hist).rows[i]? = some row → ref.radec[j]? = some rd →
      refW2T (toV rd) = C01.Lin.app T (refW2T (toV row.radec))) :
    MovedByOn (gwcsOps env refW2T refT2W s0) ms (run st0 hist)
      (groupAlignToRef (gwcsOps env refW2T refT2W s0) ⟨fitGeneral eps epsD, nrm, mt, fm, nclip, sigma, accum⟩ ms
        (run st0 hist) ref (some (mref, minput)) minobj fitmin) ref inp rf f T :=
  group_exact_general_on w0 _ (gwcsGood env refT2W s0) (gwcs_applies env refW2T refT2W hr1 s0) eps epsD heps nrm mt fm
    nclip sigma accum ms hgood st0 hc hist hcur hne ref mref minput minobj fitmin r f hfit inp rf hin hrf T hdetT hT

/-! ### non-vacuity (exact rationals): the group `GAL.gaMsZ x` — three FITS members, the middle one without sources;
the second source of member 2 (group row 4, pair 0 of the match) has weight 0 and sits at the pixel `x` -/

-- hypotheses of `group_zero_weight_source_irrelevant` for `x = (1, 1)` (the true pixel) and `x = (50, -7)`: the two
-- group catalogs have the same member lengths, weight column and number of rows; they differ in row 4 only (pixel
-- AND sky position); row 4 has weight 0; pair 0 is the pair of row 4
example :
    (match createGroupOf gaOps (gaMsZ (1, 1)), createGroupOf gaOps (gaMsZ (50, -7)) with
     | .ok st1, .ok st2 =>
       st1.memberLens == st2.memberLens && st1.weight == st2.weight && st1.weight == some [1, 2, 1, 3, 0, 2] &&
       st1.rows.length == 6 && st2.rows.length == 6 &&
       [0, 1, 2, 3, 5].all (fun i => (st1.rows[i]?).map (fun r => (r.imcatIdx, r.id, r.xy, r.radec))
          == (st2.rows[i]?).map (fun r => (r.imcatIdx, r.id, r.xy, r.radec))) &&
       (st1.rows[4]?).map (·.xy) != (st2.rows[4]?).map (·.xy) &&
       (st1.rows[4]?).map (·.radec) != (st2.rows[4]?).map (·.radec) &&
       normAll st1.catlen [4, 0, -1, 2] == some [4, 0, 5, 2]
     | _, _ => false) = true := by decide +kernel

-- … and its conclusions read off the two runs: the same fit `gaT`, the same `fitmask` (pair 0 unused), the same
-- corrected WCS of all three members (catalog pixels and others), the same recomputed sky positions of all rows
-- except row 4 — whose recomputed positions differ, as they must
example :
    (match groupAlign gaOps gaCfg (gaMsZ (1, 1)) gaRef gaMatch none 3,
           groupAlign gaOps gaCfg (gaMsZ (50, -7)) gaRef gaMatch none 3 with
     | .ok R1, .ok R2 =>
       (R1.res.toOption.map (·.1) == some true) && (R2.res.toOption.map (·.1) == some true) &&
       (R1.fit.map (·.2) == R2.fit.map (·.2)) && (R1.fit.map (·.2) == some ⟨⟨2, -1, -1, 3⟩, ⟨1, 1⟩⟩) &&
       (R1.fit.map (·.1.fitmask) == R2.fit.map (·.1.fitmask)) &&
       (R1.fit.map (·.1.fitmask) == some [false, true, true, true]) &&
       (R1.fit.map (·.1.center) == R2.fit.map (·.1.center)) &&
       (R1.fit.map (·.1.resids) == R2.fit.map (·.1.resids)) &&
       (List.range 3).all (fun p => gaPix.all fun x =>
          match R1.members[p]?, R2.members[p]? with
          | some g1, some g2 => g1.corr.f.detToWorld (gaDelta p) x == g2.corr.f.detToWorld (gaDelta p) x
          | _, _ => false) &&
       [0, 1, 2, 3, 5].all (fun i => (R1.st.rows[i]?).map (·.radec) == (R2.st.rows[i]?).map (·.radec)) &&
       (R1.st.rows[4]?).map (·.radec) != (R2.st.rows[4]?).map (·.radec)
     | _, _ => false) = true := by decide +kernel

-- `group_align_exact_weighted`: with the zero-weight source at `(50, -7)` pair 0 is a gross outlier — the hypothesis
-- `hT` of `group_align_exact_general` FAILS for it — while the positively weighted pairs 1, 2, 3 (rows 0, 5, 2;
-- reference rows 0, 3, 1) are noise-free for `gaT`; the alignment succeeds, the reported fit is `gaT`, all three
-- members are moved by `gaT` in the plane, rows 0, 5, 2 land on their reference positions and row 4 does not
example :
    (match createGroupOf gaOps (gaMsZ (50, -7)), groupAlign gaOps gaCfg (gaMsZ (50, -7)) gaRef gaMatch none 3 with
     | .ok st0, .ok R =>
       st0.weight == some [1, 2, 1, 3, 0, 2] && gaRef.weight == none &&
       (List.zip [0, 5, 2] [0, 3, 1]).all (fun ij =>
         match st0.rows[ij.1]?, gaRef.radec[ij.2]? with
         | some row, some rd => gaP.app (toV rd) == C01.Lin.app gaT (gaP.app (toV row.radec))
         | _, _ => false) &&
       (match st0.rows[4]?, gaRef.radec[2]? with
         | some row, some rd => gaP.app (toV rd) != C01.Lin.app gaT (gaP.app (toV row.radec))
         | _, _ => false) &&
       (R.res.toOption.map (·.1) == some true) &&
       (R.fit.map (·.2) == some ⟨⟨2, -1, -1, 3⟩, ⟨1, 1⟩⟩) &&
       (List.range 3).all (fun p => gaPix.all fun x =>
          match (gaMsZ (50, -7))[p]?, R.members[p]? with
          | some gm, some gm' =>
            gaP.app (gm'.corr.f.detToWorld (gaDelta p) x)
              == C01.Lin.app gaT (gaP.app (gm.corr.f.detToWorld (gaDelta p) x))
          | _, _ => false) &&
       ([0, 5, 2].map (fun i => (R.st.rows[i]?).map (·.radec)) == [0, 3, 1].map (fun j => gaRef.radec[j]?)) &&
       ((R.st.rows[4]?).map (·.radec) != gaRef.radec[2]?)
     | _, _ => false) = true := by decide +kernel

/-- **editing a source without positive weight changes nothing (symbolic discharge of `hag`).**  Replace ANY single
row `i0` of the group catalog — pixel position, sky position, identifiers — by an arbitrary row `r'`, where the
weight column exists and does not give `i0` a positive weight (`¬ PosW`: weight `≤ 0`, or `i0` outside the column).
The hypothesis `hag` of `group_zero_weight_source_irrelevant` then holds by construction, for every matcher answer
and every reference catalog, so the two runs have the same result (`GWL.SameResult`). -/
theorem group_zero_weight_row_edit {C : Type} (ops : CorrOps C K) (cfg : FitCfg K)
    (ms : List (GMember C K)) (st1 : GState K) (i0 : Nat) (r' : GRow K) (hz : ¬ PosW st1.weight i0)
    (hne : st1.catlen ≠ 0) (ref : RefCat K) (mref minput : List Int) (minobj : Option Nat) (fitmin : Nat) :
    SameResult ops ms ms st1.rows (st1.rows.set i0 r')
      (groupAlignToRef ops cfg ms st1 ref (some (mref, minput)) minobj fitmin)
      (groupAlignToRef ops cfg ms { st1 with rows := st1.rows.set i0 r' } ref (some (mref, minput)) minobj fitmin) := by
  refine group_zero_weight_source_irrelevant ops cfg ms ms rfl st1 _ (List.length_set ..) hne ref mref minput minobj
    fitmin ?_
  intro inp rf _ _ k i j _ _ hpi _
  by_cases h : i0 = i
  · subst h; exact absurd hpi hz
  · rw [List.getElem?_set_ne h]

/-- … and for any FINITE SET of such rows edited one after the other (`edits : List (Nat × GRow K)`, every edited
index without positive weight): induction over the edit list is not needed for the two-run statement — the
agreement hypothesis is checked row by row. -/
theorem group_zero_weight_rows_edit {C : Type} (ops : CorrOps C K) (cfg : FitCfg K)
    (ms : List (GMember C K)) (st1 : GState K) (edits : List (Nat × GRow K))
    (hz : ∀ e ∈ edits, ¬ PosW st1.weight e.1)
    (hne : st1.catlen ≠ 0) (ref : RefCat K) (mref minput : List Int) (minobj : Option Nat) (fitmin : Nat) :
    SameResult ops ms ms st1.rows (edits.foldl (fun rs e => rs.set e.1 e.2) st1.rows)
      (groupAlignToRef ops cfg ms st1 ref (some (mref, minput)) minobj fitmin)
      (groupAlignToRef ops cfg ms { st1 with rows := edits.foldl (fun rs e => rs.set e.1 e.2) st1.rows } ref
        (some (mref, minput)) minobj fitmin) := by
  have hlen : ∀ (es : List (Nat × GRow K)) (rs : List (GRow K)),
      (es.foldl (fun rs e => rs.set e.1 e.2) rs).length = rs.length := by
    intro es; induction es with
    | nil => intro rs; rfl
    | cons e es ih => intro rs; simp only [List.foldl_cons]; rw [ih, List.length_set]
  have hget : ∀ (es : List (Nat × GRow K)) (rs : List (GRow K)) (i : Nat), (∀ e ∈ es, e.1 ≠ i) →
      (es.foldl (fun rs e => rs.set e.1 e.2) rs)[i]? = rs[i]? := by
    intro es; induction es with
    | nil => intro rs i _; rfl
    | cons e es ih =>
      intro rs i h; simp only [List.foldl_cons]
      rw [ih _ _ (fun e' he' => h e' (List.mem_cons_of_mem _ he')),
        List.getElem?_set_ne (h e List.mem_cons_self)]
  refine group_zero_weight_source_irrelevant ops cfg ms ms rfl st1 _ (hlen _ _) hne ref mref minput minobj fitmin ?_
  intro inp rf _ _ k i j _ _ hpi _
  rw [hget edits st1.rows i (fun e he h => hz e he (h ▸ hpi))]

-- non-vacuity: in the concrete group `gaMsZ (1, 1)` row 4 has weight 0 — `¬ PosW` holds — and `catlen ≠ 0`
example : (match createGroupOf gaOps (gaMsZ (1, 1)) with
     | .ok st1 => st1.weight == some [1, 2, 1, 3, 0, 2] && st1.catlen != 0
     | _ => false) = true := by decide +kernel
example : ¬ PosW (some [1, 2, 1, 3, 0, 2] : Option (List Rat)) 4 := by
  intro h; obtain ⟨x, hx, hpos⟩ := h _ rfl
  simp at hx; subst hx; exact lt_irrefl _ hpos

end groupWeights
end TW.C05

