import Proofs.C02
import Proofs.C03

/-!
# C05 — alignment result is independent of the reference plane; groups move rigidly

All members of a group receive the same `(matrix, shift, ref_tpwcs)` (`apply_affine_to_wcs`).
In the flat-sky model every member's new sky mapping is `G ∘ old` with ONE sky-level affine
`G = P⁻¹ ∘ (M, s) ∘ P` (P the plane of the fit), whatever the member's own tangent point,
orientation, scale, distortion or correction history; and `G` does not depend on which plane
`P' = Q ∘ P` the fit was carried out in, provided the fit itself is equivariant (C08:
`(M', s') = Q (M, s) Q⁻¹`).  Property theorems only.
-/
open TW
set_option linter.unusedSectionVars false

namespace TW.C05
variable {K : Type} [Field K] [LinearOrder K] [IsStrictOrderedRing K]

/-- FITS members (flat sky): every member of the group is moved by the same sky-level map -/
theorem fits_group_rigid (P : Aff K) (hP : P.m.det ≠ 0) (M : M2 K) (s : V2 K) (hM : M.det ≠ 0)
    (members : List (FCorr K × K × K)) (hm : ∀ m ∈ members, m.1.WF ∧ m.2.1 ≠ 0 ∧ m.2.2 ≠ 0)
    (m : FCorr K × K × K) (hmem : m ∈ members) (δ : V2 K → V2 K) (p : V2 K) :
    (m.1.setCorrectionRef P M s m.2.1 m.2.2).detToWorld δ p
      = (skyCorr P M s).app (m.1.detToWorld δ p) := by
  obtain ⟨hf, hx, hy⟩ := hm m hmem
  have key := (m.1.setCorrectionRef_toSky hf P hP M s hM m.2.1 m.2.2 hx hy).1
  simp only [FCorr.detToWorld]
  rw [FCorr.pix2world_eq, key, Aff.app_comp, ← FCorr.pix2world_eq]

/-- hence the relative geometry of any two members is preserved: both are carried by the same
invertible affine map of the sky plane -/
theorem fits_relative_geometry (P : Aff K) (hP : P.m.det ≠ 0) (M : M2 K) (s : V2 K) (hM : M.det ≠ 0)
    (f1 f2 : FCorr K) (h1 : f1.WF) (h2 : f2.WF) (hx1 hy1 hx2 hy2 : K) (a1 : hx1 ≠ 0) (b1 : hy1 ≠ 0)
    (a2 : hx2 ≠ 0) (b2 : hy2 ≠ 0) (δ1 δ2 : V2 K → V2 K) (p q : V2 K)
    (hsame : f1.detToWorld δ1 p = f2.detToWorld δ2 q) :
    (f1.setCorrectionRef P M s hx1 hy1).detToWorld δ1 p
      = (f2.setCorrectionRef P M s hx2 hy2).detToWorld δ2 q := by
  have e1 := fits_group_rigid P hP M s hM [(f1, hx1, hy1)] (by simp [h1, a1, b1]) (f1, hx1, hy1)
    (by simp) δ1 p
  have e2 := fits_group_rigid P hP M s hM [(f2, hx2, hy2)] (by simp [h2, a2, b2]) (f2, hx2, hy2)
    (by simp) δ2 q
  simp only at e1 e2
  rw [e1, e2, hsame]

/-- gWCS members: in the reference plane every member is moved by the same `(M, s)`
(each member has its own pipeline pieces `env`, its own state and its own plane-to-plane map `q`) -/
theorem gwcs_group_rigid (refW2T refT2W : V2 K → V2 K) (hr1 : ∀ w, refT2W (refW2T w) = w)
    (M : M2 K) (s : V2 K) (hM : M.det ≠ 0)
    (env : GEnv K) (h : env.Bij) (g : GCorr K) (hg : g.WF)
    (q : Aff K) (hq : q.m.det ≠ 0) (hflat : ∀ x, g.worldToTanp env (refT2W x) = q.app x)
    (s0 : K) (hs0 : s0 ≠ 0) (p : V2 K) :
    refW2T ((g.setCorrection env.c ⟨M, s⟩
        (some (tp2tp (fun x => g.worldToTanp env (refT2W x)) s0))).detToWorld env p)
      = (⟨M, s⟩ : Aff K).app (refW2T (g.detToWorld env p)) :=
  C02.gwcs_setCorrection_applies_ref env h g hg refW2T refT2W hr1 q hq hflat s0 hs0 M s hM p

/-- the sky-level correction does not depend on the plane in which `(M, s)` is expressed, when the
correction is conjugated along with the plane: `(Q∘P)⁻¹ ∘ (Q f Q⁻¹) ∘ (Q∘P) = P⁻¹ ∘ f ∘ P` -/
theorem ref_plane_independent (P Q : Aff K) (hP : P.m.det ≠ 0) (hQ : Q.m.det ≠ 0) (f : Aff K) :
    let f' := Q.comp (f.comp Q.inv)
    skyCorr (Q.comp P) f'.m f'.t = skyCorr P f.m f.t := by
  intro f'
  apply Aff.ext_app
  intro w
  have hQP : (Q.comp P).m.det ≠ 0 := by rw [Aff.det_comp]; exact mul_ne_zero hQ hP
  simp only [skyCorr, Aff.app_comp]
  -- apply Q∘P to both sides (it is injective)
  have inj : ∀ a b : V2 K, (Q.comp P).app a = (Q.comp P).app b → a = b := by
    intro a b hab
    have := congrArg (Q.comp P).inv.app hab
    rwa [Aff.inv_app _ hQP, Aff.inv_app _ hQP] at this
  apply inj
  rw [Aff.app_inv _ hQP]
  have hf' : (⟨f'.m, f'.t⟩ : Aff K) = f' := rfl
  have hf : (⟨f.m, f.t⟩ : Aff K) = f := rfl
  rw [hf', hf]
  simp only [f', Aff.app_comp, Aff.inv_app Q hQ, Aff.app_inv P hP]

/-- consequently two alignments carried out in planes `P` and `Q∘P` with equivariant fits move
every FITS member to the same sky positions -/
theorem fits_same_result_in_any_plane (P Q : Aff K) (hP : P.m.det ≠ 0) (hQ : Q.m.det ≠ 0) (f : Aff K)
    (hf : f.m.det ≠ 0) (c : FCorr K) (hc : c.WF) (hx hy : K) (hhx : hx ≠ 0) (hhy : hy ≠ 0)
    (δ : V2 K → V2 K) (p : V2 K) :
    let f' := Q.comp (f.comp Q.inv)
    (c.setCorrectionRef (Q.comp P) f'.m f'.t hx hy).detToWorld δ p
      = (c.setCorrectionRef P f.m f.t hx hy).detToWorld δ p := by
  intro f'
  have hQP : (Q.comp P).m.det ≠ 0 := by rw [Aff.det_comp]; exact mul_ne_zero hQ hP
  have hf'det : f'.m.det ≠ 0 := by
    simp only [f', Aff.det_comp, Aff.inv]
    rw [M2.det_inv _ hQ]
    have : Q.m.det * (f.m.det * (1 / Q.m.det)) = f.m.det := by field_simp
    rw [this]; exact hf
  have k1 := (c.setCorrectionRef_toSky hc (Q.comp P) hQP f'.m f'.t hf'det hx hy hhx hhy).1
  have k2 := (c.setCorrectionRef_toSky hc P hP f.m f.t hf hx hy hhx hhy).1
  simp only [FCorr.detToWorld]
  rw [FCorr.pix2world_eq, FCorr.pix2world_eq, k1, k2, ref_plane_independent P Q hP hQ f]

end TW.C05
