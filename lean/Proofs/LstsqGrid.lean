import Proofs.LstsqPeak

/-!
Helper lemmas (property C12): the design matrix of `_find_peak` has full column rank as soon as the
good pixels contain a 3×3 sub-grid — the six monomials `1, x, y, xy, x², y²` are linearly independent
on it.
-/
open TW TW.Hist
set_option linter.unusedSectionVars false
set_option linter.unusedVariables false

namespace TW.Lstsq
variable {K : Type} [Field K] [LinearOrder K] [IsStrictOrderedRing K]

theorem rowDot_designRow (p : ℕ × ℕ × K) (c : QCoef K) :
    rowDot (designRow p) c = evalQ c (p.1 : K) (p.2.1 : K) := by
  unfold rowDot designRow evalQ
  simp only [List.getD_cons_zero, List.getD_cons_succ, oneK_eq]
  push_cast
  ring

/-- a polynomial of degree ≤ 2 in one variable with three distinct roots is zero -/
theorem quad1_zero (a b c x1 x2 x3 : K) (h12 : x1 ≠ x2) (h13 : x1 ≠ x3) (h23 : x2 ≠ x3)
    (e1 : a + b * x1 + c * (x1 * x1) = 0) (e2 : a + b * x2 + c * (x2 * x2) = 0)
    (e3 : a + b * x3 + c * (x3 * x3) = 0) : a = 0 ∧ b = 0 ∧ c = 0 := by
  have d12 : (x1 - x2) * (b + c * (x1 + x2)) = 0 := by linear_combination e1 - e2
  have d13 : (x1 - x3) * (b + c * (x1 + x3)) = 0 := by linear_combination e1 - e3
  have f12 : b + c * (x1 + x2) = 0 := by
    rcases mul_eq_zero.mp d12 with h | h
    · exact absurd (sub_eq_zero.mp h) h12
    · exact h
  have f13 : b + c * (x1 + x3) = 0 := by
    rcases mul_eq_zero.mp d13 with h | h
    · exact absurd (sub_eq_zero.mp h) h13
    · exact h
  have hc : c = 0 := by
    have : c * (x2 - x3) = 0 := by linear_combination f12 - f13
    rcases mul_eq_zero.mp this with h | h
    · exact h
    · exact absurd (sub_eq_zero.mp h) h23
  have hb : b = 0 := by rw [hc] at f12; linear_combination f12
  have ha : a = 0 := by rw [hb, hc] at e1; linear_combination e1
  exact ⟨ha, hb, hc⟩

/-- a quadratic polynomial in two variables that vanishes on the product of three distinct abscissae
and three distinct ordinates is zero -/
theorem quad_zero_of_subgrid (d : QCoef K) (xs ys : Fin 3 → K) (hx : Function.Injective xs)
    (hy : Function.Injective ys) (h : ∀ a b, evalQ d (xs a) (ys b) = 0) :
    d.c00 = 0 ∧ d.c10 = 0 ∧ d.c01 = 0 ∧ d.c11 = 0 ∧ d.c20 = 0 ∧ d.c02 = 0 := by
  have hx01 : xs 0 ≠ xs 1 := fun e => by have := hx e; simp at this
  have hx02 : xs 0 ≠ xs 2 := fun e => by have := hx e; simp at this
  have hx12 : xs 1 ≠ xs 2 := fun e => by have := hx e; simp at this
  have hy01 : ys 0 ≠ ys 1 := fun e => by have := hy e; simp at this
  have hy02 : ys 0 ≠ ys 2 := fun e => by have := hy e; simp at this
  have hy12 : ys 1 ≠ ys 2 := fun e => by have := hy e; simp at this
  -- for each ordinate, the polynomial in x has three roots
  have hrow : ∀ b, d.c00 + d.c01 * ys b + d.c02 * (ys b * ys b) = 0 ∧ d.c10 + d.c11 * ys b = 0
      ∧ d.c20 = 0 := by
    intro b
    apply quad1_zero _ _ _ (xs 0) (xs 1) (xs 2) hx01 hx02 hx12
    · have := h 0 b; unfold evalQ at this; linear_combination this
    · have := h 1 b; unfold evalQ at this; linear_combination this
    · have := h 2 b; unfold evalQ at this; linear_combination this
  obtain ⟨h00, h01, h02⟩ := quad1_zero d.c00 d.c01 d.c02 (ys 0) (ys 1) (ys 2) hy01 hy02 hy12
    (hrow 0).1 (hrow 1).1 (hrow 2).1
  obtain ⟨h10, h11, _⟩ := quad1_zero d.c10 d.c11 0 (ys 0) (ys 1) (ys 2) hy01 hy02 hy12
    (by linear_combination (hrow 0).2.1) (by linear_combination (hrow 1).2.1)
    (by linear_combination (hrow 2).2.1)
  exact ⟨h00, h10, h01, h11, (hrow 0).2.2, h02⟩

theorem gram_quad {n : ℕ} (L : List ((Fin n → K) × K)) (v : Fin n → K) :
    ∑ i, v i * (L.map fun q => q.1 i * dotF q.1 v).sum = (L.map fun q => dotF q.1 v * dotF q.1 v).sum := by
  induction L with
  | nil => simp
  | cons q qs ih =>
    simp only [List.map_cons, List.sum_cons]
    rw [← ih]
    simp only [mul_add, Finset.sum_add_distrib]
    congr 1
    unfold dotF
    rw [Finset.sum_mul]
    apply Finset.sum_congr rfl
    intro i _; ring

theorem gramList_map {α : Type} (n : ℕ) (l : List α) (f : α → List K) (g : α → K) :
    gramList n (l.map f) (l.map g) = l.map fun p => ((fun i : Fin n => (f p).getD i.val 0), g p) := by
  unfold gramList
  rw [List.zipWith_map_left, List.zipWith_map_right, List.zipWith_self]

/-- a kernel vector of the normal matrix of the design rows of `pts` is a quadratic polynomial that
vanishes on every point of `pts` -/
theorem kernel_vanishes (pts : List (ℕ × ℕ × K)) (v : Fin 6 → K)
    (hv : ∀ i, ∑ j, (gramRows 6 (pts.map designRow)).get i j * v j = 0) :
    ∀ p ∈ pts, evalQ (coefFn v) (p.1 : K) (p.2.1 : K) = 0 := by
  have hlen : (pts.map fun p => p.2.2).length = (pts.map designRow).length := by simp
  have hG := isGram_rows 6 (pts.map designRow) (pts.map fun p => p.2.2) hlen
  set L := gramList 6 (pts.map designRow) (pts.map fun p => p.2.2) with hL
  have hsq : (L.map fun q => dotF q.1 v * dotF q.1 v).sum = 0 := by
    rw [← gram_quad]
    apply Finset.sum_eq_zero
    intro i _
    have : (L.map fun q => q.1 i * dotF q.1 v).sum
        = ∑ j, (gramRows 6 (pts.map designRow)).get i j * v j := by
      rw [← gram_apply]
      apply Finset.sum_congr rfl
      intro j _
      rw [← hG.1 i j]
    rw [this, hv i, mul_zero]
  have hz := sum_sq_zero L (fun q => dotF q.1 v) hsq
  intro p hp
  have hmem : ((fun i : Fin 6 => (designRow p).getD i.val 0), p.2.2) ∈ L := by
    rw [hL, gramList_map]
    exact List.mem_map.mpr ⟨p, hp, rfl⟩
  have := hz _ hmem
  simp only at this
  rw [← vecOf_coefFn v, dotF_vecOf, rowDot_designRow] at this
  exact this

/-- **full column rank on a sub-grid**: if the points contain the product of three distinct
abscissae and three distinct ordinates, the normal matrix of their design rows is regular -/
theorem design_regular_of_subgrid (pts : List (ℕ × ℕ × K)) (xs ys : Fin 3 → ℕ)
    (hx : Function.Injective xs) (hy : Function.Injective ys)
    (hmem : ∀ a b, ∃ v, (xs a, ys b, v) ∈ pts) :
    (toM (gramRows 6 (pts.map designRow))).det ≠ 0 := by
  apply regular_of_inj
  intro v hv
  have hvan := kernel_vanishes pts v hv
  have hz := quad_zero_of_subgrid (coefFn v) (fun a => (xs a : K)) (fun b => (ys b : K))
    (fun a a' e => hx (by simp only at e; exact_mod_cast e))
    (fun b b' e => hy (by simp only at e; exact_mod_cast e))
    (by
      intro a b
      obtain ⟨w, hw⟩ := hmem a b
      exact hvan _ hw)
  obtain ⟨z0, z1, z2, z3, z4, z5⟩ := hz
  funext i
  simp only [coefFn] at z0 z1 z2 z3 z4 z5
  fin_cases i <;> simp [*]

/-- such a list has at least nine points -/
theorem subgrid_length (pts : List (ℕ × ℕ × K)) (xs ys : Fin 3 → ℕ)
    (hx : Function.Injective xs) (hy : Function.Injective ys)
    (hmem : ∀ a b, ∃ v, (xs a, ys b, v) ∈ pts) : 9 ≤ pts.length := by
  classical
  set img : Finset (ℕ × ℕ) := Finset.univ.image fun ab : Fin 3 × Fin 3 => (xs ab.1, ys ab.2) with himg
  have hcard : img.card = 9 := by
    rw [himg, Finset.card_image_of_injective]
    · simp
    · intro ab ab' e
      simp only [Prod.mk.injEq] at e
      exact Prod.ext (hx e.1) (hy e.2)
  have hsub : img ⊆ (pts.map fun p => (p.1, p.2.1)).toFinset := by
    intro q hq
    rw [himg, Finset.mem_image] at hq
    obtain ⟨ab, _, rfl⟩ := hq
    obtain ⟨w, hw⟩ := hmem ab.1 ab.2
    rw [List.mem_toFinset]
    exact List.mem_map.mpr ⟨_, hw, rfl⟩
  have h1 := Finset.card_le_card hsub
  have h2 := List.toFinset_card_le (pts.map fun p => (p.1, p.2.1))
  rw [List.length_map] at h2
  omega

/-- `lstsqNormal` returns on such points, whatever the data -/
theorem lstsqNormal_of_subgrid (pts : List (ℕ × ℕ × K)) (xs ys : Fin 3 → ℕ)
    (hx : Function.Injective xs) (hy : Function.Injective ys)
    (hmem : ∀ a b, ∃ v, (xs a, ys b, v) ∈ pts) (d : List K) (hd : d.length = pts.length) :
    ∃ c, lstsqNormal 0 (pts.map designRow) d = some c := by
  have hreg := design_regular_of_subgrid pts xs ys hx hy hmem
  have hrank := (rank_six_iff (pts.map designRow) d (by simpa using hd)).mpr hreg
  exact ⟨_, lstsqNormal_of_rank _ _ hrank⟩

/-! ### fit boxes -/

/-- three distinct unmasked columns and rows of the fit box give a sub-grid of its good pixels -/
theorem boxPoints_subgrid (data : List (List K)) (mask : Option (List (List Bool)))
    (y1 y2 x1 x2 : ℕ) (is js : Fin 3 → ℕ) (hi : Function.Injective is) (hj : Function.Injective js)
    (hib : ∀ a, x1 ≤ is a ∧ is a < x2) (hjb : ∀ b, y1 ≤ js b ∧ js b < y2)
    (hm : ∀ a b, maskAt mask (js b) (is a) = true) :
    Function.Injective (fun a => is a - x1 + 1) ∧ Function.Injective (fun b => js b - y1 + 1) ∧
    ∀ a b, ∃ v, (is a - x1 + 1, js b - y1 + 1, v) ∈ boxPoints data mask y1 y2 x1 x2 := by
  refine ⟨?_, ?_, ?_⟩
  · intro a a' e
    apply hi
    have := hib a; have := hib a'
    simp only at e
    omega
  · intro b b' e
    apply hj
    have := hjb b; have := hjb b'
    simp only at e
    omega
  · intro a b
    exact ⟨_, mem_boxPoints_of data mask y1 y2 x1 x2 (js b) (is a) (hjb b).1 (hjb b).2 (hib a).1
      (hib a).2 (hm a b)⟩

/-- the first three columns / rows of a box of at least three columns / rows -/
def first3 (o : ℕ) : Fin 3 → ℕ := fun a => o + a.val

theorem first3_inj (o : ℕ) : Function.Injective (first3 o) := by
  intro a b e
  unfold first3 at e
  exact Fin.ext (by omega)

theorem expandBox_wide (n box lo hi : ℕ) (h3 : lo + 3 ≤ hi) (hhi : hi ≤ n) :
    (expandBox n box lo hi).1 + 3 ≤ (expandBox n box lo hi).2 := by
  unfold expandBox
  split
  · simp only
    split_ifs <;> omega
  · exact h3

/-- a fit box that passed the EDGE test has at least three columns and three rows -/
theorem peakBox_fit_width (data : List (List K)) (box : ℕ) (mask : Option (List (List Bool)))
    (hbox : 1 ≤ box) (y1 y2 x1 x2 : ℕ) (h : peakBox data box mask = .fit y1 y2 x1 x2) :
    x1 + 3 ≤ x2 ∧ y1 + 3 ≤ y2 := by
  unfold peakBox at h
  simp only at h
  split at h
  · cases h
  · next c cs hcs =>
    have hm := argmaxBy_mem (fun p : ℕ × ℕ => at2 data p.1 p.2) c cs
    rw [← hcs] at hm
    obtain ⟨hj, hi⟩ := mem_cands _ _ _ _ hm
    generalize argmaxBy (fun p : ℕ × ℕ => at2 data p.1 p.2) c cs = m at hj hi hm h
    obtain ⟨jmax, imax⟩ := m
    simp only at hj hi h
    split at h
    · cases h
    · split at h
      · cases h
      · next hne =>
        injection h with e1 e2 e3 e4
        have wx := expandBox_wide (data.headD []).length box (imax - box / 2)
          (min (data.headD []).length (imax - box / 2 + box)) (by omega) (by omega)
        have wy := expandBox_wide data.length box (jmax - box / 2)
          (min data.length (jmax - box / 2 + box)) (by omega) (by omega)
        rw [e1, e2] at wy
        rw [e3, e4] at wx
        exact ⟨wx, wy⟩

end TW.Lstsq
