import Proofs.C15Lemmas
import Model.Align
import Mathlib.Data.List.Nodup
import Mathlib.Data.List.Pairwise
/-!
Helper lemmas for C13 / C14 (`Proofs/C13.lean`, `Proofs/C14.lean`): the work list of the alignment
loop, counting of trace events, the partition of the images into groups.
-/
open TW TW.C15L
set_option linter.unusedSectionVars false
set_option linter.unusedSimpArgs false
set_option linter.unusedVariables false
set_option linter.unusedTactic false
namespace TW.AlignL
variable {K : Type} [LinearOrder K] [Add K] [NatCast K] [BEq K]

/-- groups (lists of image positions) named by a list of group numbers -/
def groupsOf (kept : List (List Nat)) (l : List Nat) : List (List Nat) := l.map (kept.getD · [])

theorem groupsOf_range (kept : List (List Nat)) : groupsOf kept (List.range kept.length) = kept := by
  unfold groupsOf
  apply List.ext_getElem (by simp)
  intro i h1 h2
  simp only [List.length_map, List.length_range] at h1
  simp only [List.getElem_map, List.getElem_range]
  exact getD_lt _ _ _ h1

/-- what `_max_overlap_image` does to the work list -/
theorem nextImage_spec (eo : Bool) (refArea : List RefRow → Nat → K × Nat) (work : List Nat)
    (cat : List RefRow) :
    (work = [] ∧ nextImage eo refArea work cat = (none, [])) ∨
    (∃ idx a, ∃ h : idx < work.length,
      nextImage eo refArea work cat = (some (work[idx], a), work.eraseIdx idx)) := by
  by_cases hw : work = []
  · left; subst hw; exact ⟨rfl, by simp [nextImage, maxOverlapImage]⟩
  · right
    have hne : work.map (refArea cat) ≠ [] := by simpa using hw
    cases eo with
    | false =>
      obtain ⟨r, h1, h2, _⟩ := maxOverlapImage_argmax (work.map (refArea cat)) hne
      rw [List.length_map] at h2
      refine ⟨r.idx, r.area, h2, ?_⟩
      unfold nextImage; rw [h1]
      simp [List.getElem?_eq_getElem h2]
    | true =>
      have h1 := maxOverlapImage_user (work.map (refArea cat)) hne
      have h2 : 0 < work.length := List.length_pos_iff.mpr hw
      refine ⟨0, ((work.map (refArea cat)).getD 0 (zeroK, 0)).1, h2, ?_⟩
      unfold nextImage; rw [h1]
      simp [List.getElem?_eq_getElem h2]

theorem groupsOf_perm_erase (kept : List (List Nat)) (work : List Nat) (idx : Nat) (h : idx < work.length) :
    (kept.getD work[idx] [] :: groupsOf kept (work.eraseIdx idx)).Perm (groupsOf kept work) := by
  have := perm_cons_eraseIdx work idx work[idx] (List.getElem?_eq_getElem h)
  exact this.map (kept.getD · [])

variable (imgs : List Img) (kept : List (List Nat)) (cfg : AlignCfg) (eo : Bool)
  (refArea : List RefRow → Nat → K × Nat)

/-- one step of the loop, unfolded -/
theorem alignLoop_step (fuel gi : Nat) (a : K) (work : List Nat) (cat : List RefRow) :
    (∃ e, alignGroup imgs cfg (kept.getD gi []) cat = .error e ∧
      (alignLoop imgs kept cfg eo refArea (fuel + 1) (some (gi, a)) work cat).err = some e ∧
      (alignLoop imgs kept cfg eo refArea (fuel + 1) (some (gi, a)) work cat).results = []) ∨
    (∃ (ok : Option FailReason) (un : List (Nat × Nat)) (cat' : List RefRow), alignGroup imgs cfg (kept.getD gi []) cat = .ok (ok, un) ∧
      (cat' = cat ∨ (cfg.expand = true ∧ cat' = cat ++ newRows cat un)) ∧
      let out' := alignLoop imgs kept cfg eo refArea fuel (nextImage eo refArea work cat').1
                    (nextImage eo refArea work cat').2 cat'
      let out := alignLoop imgs kept cfg eo refArea (fuel + 1) (some (gi, a)) work cat
      out.err = out'.err ∧ out.results = (kept.getD gi [], ok) :: out'.results ∧ out.refcat = out'.refcat) := by
  cases hg : alignGroup imgs cfg (kept.getD gi []) cat with
  | error e =>
    left
    refine ⟨e, rfl, ?_, ?_⟩ <;> simp only [alignLoop, hg]
  | ok p =>
    right
    obtain ⟨ok, un⟩ := p
    by_cases hgrow : (cfg.expand && (ok.isNone || a == zeroK)) = true
    · refine ⟨ok, un, cat ++ newRows cat un, rfl, Or.inr ⟨?_, rfl⟩, ?_⟩
      · simp only [Bool.and_eq_true] at hgrow; exact hgrow.1
      · simp only [alignLoop, hg, hgrow, if_true]
        trivial
    · refine ⟨ok, un, cat, rfl, Or.inl rfl, ?_⟩
      have hgrow' : (cfg.expand && (ok.isNone || a == zeroK)) = false := (Bool.not_eq_true _).mp hgrow
      simp only [alignLoop, hg, hgrow', Bool.false_eq_true, if_false]
      trivial

/-- the loop hands every group of the work list to `align_to_ref` exactly once -/
theorem alignLoop_perm (fuel : Nat) :
    (∀ gi (a : K) work cat, work.length + 1 ≤ fuel →
      (alignLoop imgs kept cfg eo refArea fuel (some (gi, a)) work cat).err = none →
      ((alignLoop imgs kept cfg eo refArea fuel (some (gi, a)) work cat).results.map (·.1)).Perm
        (kept.getD gi [] :: groupsOf kept work)) ∧
    (∀ work cat, work.length ≤ fuel →
      (alignLoop imgs kept cfg eo refArea fuel (nextImage eo refArea work cat).1
          (nextImage eo refArea work cat).2 cat).err = none →
      ((alignLoop imgs kept cfg eo refArea fuel (nextImage eo refArea work cat).1
          (nextImage eo refArea work cat).2 cat).results.map (·.1)).Perm (groupsOf kept work)) := by
  induction fuel with
  | zero =>
    refine ⟨fun gi a work cat h => by omega, ?_⟩
    intro work cat h _
    have : work = [] := List.length_eq_zero_iff.mp (by omega)
    subst this
    simp [nextImage, maxOverlapImage, alignLoop, groupsOf]
  | succ f ih =>
    have first : ∀ gi (a : K) work cat, work.length + 1 ≤ f + 1 →
        (alignLoop imgs kept cfg eo refArea (f + 1) (some (gi, a)) work cat).err = none →
        ((alignLoop imgs kept cfg eo refArea (f + 1) (some (gi, a)) work cat).results.map (·.1)).Perm
          (kept.getD gi [] :: groupsOf kept work) := by
      intro gi a work cat hlen herr
      rcases alignLoop_step imgs kept cfg eo refArea f gi a work cat with
        ⟨e, _, he, _⟩ | ⟨ok, un, cat', _, _, h1, h2, _⟩
      · rw [he] at herr; exact absurd herr (by simp)
      · rw [h2, List.map_cons]
        exact (ih.2 work cat' (by omega) (by rw [← h1]; exact herr)).cons _
    refine ⟨first, ?_⟩
    intro work cat hlen herr
    rcases nextImage_spec eo refArea work cat with ⟨hw, hn⟩ | ⟨idx, a, hidx, hn⟩
    · subst hw; rw [hn]; simp [alignLoop, groupsOf]
    · rw [hn] at herr ⊢
      have hl : (work.eraseIdx idx).length + 1 ≤ f + 1 := by
        rw [List.length_eraseIdx, if_pos hidx]; omega
      exact (first _ a _ cat hl herr).trans (groupsOf_perm_erase kept work idx hidx)

/-- the errors `fitStep` can end with -/
theorem fitStep_err (gr : List Nat) (nm : Nat) (e : AlignErr) (h : fitStep imgs cfg gr nm = .error e) :
    ∃ f, e = .fitError f ∧ cfg.catchFit = false ∧ fitFailOf imgs gr = some f := by
  unfold fitStep at h
  split at h
  · cases h
  · split at h
    · cases h
    · next f hf =>
      split at h
      · cases h
      · next hc =>
        injection h with h
        exact ⟨f, h.symm, by simpa using hc, hf⟩

/-- the errors `align_to_ref` can end with -/
theorem alignGroup_err (gr : List Nat) (cat : List RefRow) (e : AlignErr)
    (h : alignGroup imgs cfg gr cat = .error e) :
    (e = .fitgeomKeyError ∧ cfg.fitgeomKnown = false) ∨ (e = .lengthMismatch ∧ cfg.mode = .none1to1) ∨
    (∃ f, e = .fitError f ∧ cfg.catchFit = false) := by
  unfold alignGroup at h
  split at h
  · next hk => injection h with h; exact Or.inl ⟨h.symm, by simpa using hk⟩
  · simp only at h
    split at h
    · split at h
      · next e' he' =>
        injection h with h
        obtain ⟨f, hf, hc, _⟩ := fitStep_err imgs cfg gr _ e' he'
        exact Or.inr (Or.inr ⟨f, by rw [← h, hf], hc⟩)
      · cases h
    · next hm =>
      split at h
      · injection h with h; exact Or.inr (Or.inl ⟨h.symm, hm⟩)
      · split at h
        · next e' he' =>
          injection h with h
          obtain ⟨f, hf, hc, _⟩ := fitStep_err imgs cfg gr _ e' he'
          exact Or.inr (Or.inr ⟨f, by rw [← h, hf], hc⟩)
        · cases h

/-- the loop can only fail with an error of `align_to_ref`: the length mismatch of `match=None`,
the `KeyError` of an unknown `fitgeom`, or (before 4565404) an exception of the fit -/
theorem alignLoop_err (fuel : Nat) (cur : Option (Nat × K)) (work : List Nat) (cat : List RefRow) :
    (alignLoop imgs kept cfg eo refArea fuel cur work cat).err = none ∨
    ((alignLoop imgs kept cfg eo refArea fuel cur work cat).err = some .lengthMismatch ∧ cfg.mode = .none1to1) ∨
    ((alignLoop imgs kept cfg eo refArea fuel cur work cat).err = some .fitgeomKeyError ∧
      cfg.fitgeomKnown = false) ∨
    (∃ f, (alignLoop imgs kept cfg eo refArea fuel cur work cat).err = some (.fitError f) ∧
      cfg.catchFit = false) := by
  induction fuel generalizing cur work cat with
  | zero => left; simp [alignLoop]
  | succ f ih =>
    cases cur with
    | none => left; simp [alignLoop]
    | some p =>
      obtain ⟨gi, a⟩ := p
      rcases alignLoop_step imgs kept cfg eo refArea f gi a work cat with
        ⟨e, hg, he, _⟩ | ⟨ok, un, cat', _, _, h1, _, _⟩
      · right
        rw [he]
        rcases alignGroup_err imgs cfg _ cat e hg with ⟨h1, h2⟩ | ⟨h1, h2⟩ | ⟨f, h1, h2⟩
        · exact Or.inr (Or.inl ⟨by rw [h1], h2⟩)
        · exact Or.inl ⟨by rw [h1], h2⟩
        · exact Or.inr (Or.inr ⟨f, by rw [h1], h2⟩)
      · rw [h1]; exact ih _ _ _

section counting

/-- the event is a status write for image `k` -/
def isStatusOf (k : Nat) : Event → Bool
  | .status i _ => i == k
  | .correct _ => false

/-- number of status writes for image `k` -/
def statusCount (k : Nat) (evs : List Event) : Nat := (evs.filter (isStatusOf k)).length

/-- number of `set_correction` calls on image `k` -/
def correctCount (k : Nat) (evs : List Event) : Nat := evs.count (Event.correct k)

theorem statusCount_append (k : Nat) (a b : List Event) :
    statusCount k (a ++ b) = statusCount k a + statusCount k b := by
  simp [statusCount, List.filter_append]

theorem correctCount_append (k : Nat) (a b : List Event) :
    correctCount k (a ++ b) = correctCount k a + correctCount k b := by
  simp [correctCount, List.count_append]

theorem statusCount_map_status (k : Nat) (gr : List Nat) (s : Status) :
    statusCount k (gr.map fun i => Event.status i s) = gr.count k := by
  induction gr with
  | nil => rfl
  | cons x xs ih =>
    simp only [List.map_cons, List.count_cons]
    have : statusCount k (Event.status x s :: xs.map fun i => Event.status i s)
        = statusCount k (xs.map fun i => Event.status i s) + (if x == k then 1 else 0) := by
      simp only [statusCount, List.filter_cons, isStatusOf]
      by_cases hx : x = k <;> simp [hx]
    rw [this, ih]

theorem statusCount_map_correct (k : Nat) (gr : List Nat) : statusCount k (gr.map Event.correct) = 0 := by
  induction gr with
  | nil => rfl
  | cons x xs ih =>
    simp only [List.map_cons]
    have : statusCount k (Event.correct x :: xs.map Event.correct) = statusCount k (xs.map Event.correct) := by
      simp [statusCount, List.filter_cons, isStatusOf]
    rw [this, ih]

theorem correctCount_map_status (k : Nat) (gr : List Nat) (s : Status) :
    correctCount k (gr.map fun i => Event.status i s) = 0 := by
  unfold correctCount
  rw [List.count_eq_zero]
  intro h
  obtain ⟨i, _, hi⟩ := List.mem_map.mp h
  cases hi

theorem correctCount_map_correct (k : Nat) (gr : List Nat) :
    correctCount k (gr.map Event.correct) = gr.count k := by
  unfold correctCount
  induction gr with
  | nil => rfl
  | cons x xs ih =>
    simp only [List.map_cons, List.count_cons, ih]
    congr 1
    by_cases h : x = k
    · subst h; simp
    · have : ¬ (Event.correct x = Event.correct k) := fun hc => h (by injection hc)
      simp [h, this]

theorem statusCount_block (k : Nat) (res : List Nat × Option FailReason) :
    statusCount k (blockEvents res) = res.1.count k := by
  unfold blockEvents
  split
  · rw [statusCount_append, statusCount_map_correct, statusCount_map_status]; omega
  · rw [statusCount_map_status]

theorem correctCount_block (k : Nat) (res : List Nat × Option FailReason) :
    correctCount k (blockEvents res) = if res.2.isNone then res.1.count k else 0 := by
  unfold blockEvents
  split
  · next h => rw [correctCount_append, correctCount_map_correct, correctCount_map_status, h]; simp
  · next r h => rw [correctCount_map_status, h]; simp

theorem statusCount_blocks (k : Nat) (results : List (List Nat × Option FailReason)) :
    statusCount k (results.flatMap blockEvents) = (results.map (·.1)).flatten.count k := by
  induction results with
  | nil => rfl
  | cons r rs ih =>
    simp only [List.flatMap_cons, List.map_cons, List.flatten_cons, List.count_append]
    rw [statusCount_append, statusCount_block, ih]

theorem correctCount_blocks (k : Nat) (results : List (List Nat × Option FailReason)) :
    correctCount k (results.flatMap blockEvents) =
      ((results.filter (·.2.isNone)).map (·.1)).flatten.count k := by
  induction results with
  | nil => rfl
  | cons r rs ih =>
    simp only [List.flatMap_cons]
    rw [correctCount_append, correctCount_block, ih, List.filter_cons]
    split
    · simp [List.count_append]
    · simp

/-- which status events a sequence of blocks contains -/
theorem mem_blocks_status (k : Nat) (s : Status) (results : List (List Nat × Option FailReason)) :
    Event.status k s ∈ results.flatMap blockEvents ↔
      ∃ r ∈ results, k ∈ r.1 ∧ s = outcomeStatus r.2 := by
  simp only [List.mem_flatMap]
  constructor
  · rintro ⟨r, hr, h⟩
    refine ⟨r, hr, ?_⟩
    unfold blockEvents at h
    split at h
    · next hok =>
      rw [List.mem_append] at h
      rcases h with h | h
      · obtain ⟨i, _, hi⟩ := List.mem_map.mp h; cases hi
      · obtain ⟨i, hi, he⟩ := List.mem_map.mp h
        injection he with h1 h2
        subst h1; subst h2
        exact ⟨hi, by rw [hok]; rfl⟩
    · next rr hok =>
      obtain ⟨i, hi, he⟩ := List.mem_map.mp h
      injection he with h1 h2
      subst h1; subst h2
      exact ⟨hi, by rw [hok]; rfl⟩
  · rintro ⟨r, hr, hk, hs⟩
    refine ⟨r, hr, ?_⟩
    unfold blockEvents
    split
    · next hok =>
      rw [List.mem_append]; right
      rw [hs, hok]
      exact List.mem_map.mpr ⟨k, hk, rfl⟩
    · next rr hok =>
      rw [hs, hok]
      exact List.mem_map.mpr ⟨k, hk, rfl⟩

theorem mem_blocks_correct (k : Nat) (results : List (List Nat × Option FailReason)) :
    Event.correct k ∈ results.flatMap blockEvents ↔ ∃ r ∈ results, k ∈ r.1 ∧ r.2 = none := by
  simp only [List.mem_flatMap]
  constructor
  · rintro ⟨r, hr, h⟩
    refine ⟨r, hr, ?_⟩
    unfold blockEvents at h
    split at h
    · next hok =>
      rw [List.mem_append] at h
      rcases h with h | h
      · obtain ⟨i, hi, he⟩ := List.mem_map.mp h
        injection he with h1; subst h1; exact ⟨hi, hok⟩
      · obtain ⟨i, _, he⟩ := List.mem_map.mp h; cases he
    · obtain ⟨i, _, he⟩ := List.mem_map.mp h; cases he
  · rintro ⟨r, hr, hk, hok⟩
    refine ⟨r, hr, ?_⟩
    unfold blockEvents
    rw [hok]
    simp only [List.mem_append]
    exact Or.inl (List.mem_map.mpr ⟨k, hk, rfl⟩)

/-! ### dropping of empty groups -/

theorem dropEmpty_kept (imgs : List Img) (groups : List (List Nat)) :
    (dropEmpty imgs groups).1 = groups.filter fun gr => !(groupSources imgs gr).isEmpty := by
  induction groups with
  | nil => rfl
  | cons gr t ih =>
    simp only [dropEmpty, List.filter_cons]
    split
    · next h => simp [h, ih]
    · next h => simp [h, ih]

theorem dropEmpty_events (imgs : List Img) (groups : List (List Nat)) :
    (dropEmpty imgs groups).2 =
      (groups.filter fun gr => (groupSources imgs gr).isEmpty).flatMap
        fun gr => gr.map fun k => Event.status k (.failed .emptyCatalog) := by
  induction groups with
  | nil => rfl
  | cons gr t ih =>
    simp only [dropEmpty, List.filter_cons]
    split
    · next h => simp [h, ih]
    · next h => simp [h, ih]

theorem statusCount_dropEmpty (imgs : List Img) (groups : List (List Nat)) (k : Nat) :
    statusCount k (dropEmpty imgs groups).2 + (dropEmpty imgs groups).1.flatten.count k
      = groups.flatten.count k := by
  induction groups with
  | nil => rfl
  | cons gr t ih =>
    simp only [dropEmpty]
    split
    · simp only [List.flatten_cons, List.count_append]
      rw [statusCount_append, statusCount_map_status]; omega
    · simp only [List.flatten_cons, List.count_append]; omega

theorem correctCount_dropEmpty (imgs : List Img) (groups : List (List Nat)) (k : Nat) :
    correctCount k (dropEmpty imgs groups).2 = 0 := by
  induction groups with
  | nil => rfl
  | cons gr t ih =>
    simp only [dropEmpty]
    split
    · rw [correctCount_append, correctCount_map_status, ih]
    · exact ih

theorem mem_dropEmpty_status (imgs : List Img) (groups : List (List Nat)) (k : Nat) (s : Status) :
    Event.status k s ∈ (dropEmpty imgs groups).2 ↔
      s = .failed .emptyCatalog ∧ ∃ gr ∈ groups, (groupSources imgs gr).isEmpty = true ∧ k ∈ gr := by
  rw [dropEmpty_events]
  simp only [List.mem_flatMap, List.mem_filter, List.mem_map]
  constructor
  · rintro ⟨gr, ⟨hgr, he⟩, i, hi, heq⟩
    injection heq with h1 h2
    subst h1; subst h2
    exact ⟨rfl, gr, hgr, he, hi⟩
  · rintro ⟨rfl, gr, hgr, he, hk⟩
    exact ⟨gr, ⟨hgr, he⟩, k, hk, rfl⟩

/-! ### the partition of the images into groups -/

theorem count_flatten_perm {l1 l2 : List (List Nat)} (h : l1.Perm l2) (k : Nat) :
    l1.flatten.count k = l2.flatten.count k := by
  induction h with
  | nil => rfl
  | cons x _ ih => simp [List.count_append, ih]
  | swap x y l => simp [List.count_append]; omega
  | trans _ _ ih1 ih2 => rw [ih1, ih2]

theorem groups_count (gids : List (Option Nat)) (k : Nat) :
    (formGroups gids).flatten.count k = if k < gids.length then 1 else 0 := by
  have hp : (formGroups gids).flatten.Perm (List.range gids.length) := by
    have hinv := goInv_init gids
    show (formGroupsGo gids gids 0 []).flatten.Perm _
    rw [List.perm_ext_iff_of_nodup (go_nodup gids 0 [] hinv) List.nodup_range]
    intro idx
    rw [go_mem gids 0 [] hinv idx, List.mem_range]
    constructor
    · rintro (⟨_, h⟩ | ⟨g, h, _⟩) <;>
      · by_contra hc
        rw [List.getElem?_eq_none (by omega)] at h
        exact absurd h (by simp)
    · intro hlt
      rw [List.getElem?_eq_getElem hlt]
      cases gids[idx] with
      | none => exact Or.inl ⟨Nat.zero_le _, rfl⟩
      | some g => exact Or.inr ⟨g, rfl, by simp⟩
  rw [hp.count_eq, List.Nodup.count List.nodup_range]
  simp only [List.mem_range]

/-- an image belongs to one group only -/
theorem group_unique (gids : List (Option Nat)) {gr gr' : List Nat} {k : Nat}
    (h1 : gr ∈ formGroups gids) (h2 : gr' ∈ formGroups gids) (hk : k ∈ gr) (hk' : k ∈ gr') : gr = gr' := by
  by_contra hne
  have hnd : (formGroups gids).flatten.Nodup := go_nodup gids 0 [] (goInv_init gids)
  rw [List.nodup_flatten] at hnd
  have hdis := hnd.2
  have : Std.Symm (List.Disjoint (α := Nat)) := ⟨fun a b h x hb ha => h ha hb⟩
  exact List.Pairwise.forall hdis h1 h2 hne hk hk'
end counting

section start
variable {K : Type} [LinearOrder K] [Add K] [NatCast K] [BEq K]

/-- the guarded areas between different groups are not negative (they are absolute values) -/
def NonnegRaw (n : Nat) (g : List (List (K × Nat))) : Prop :=
  ∀ p q, p < q → q < n → zeroK ≤ (gentry g p q).1

/-- `_max_overlap_pair` on two or more images: two different images are returned and the work list
keeps exactly the others -/
theorem maxOverlapPair_spec (eo : Bool) (n : Nat) (hn : 2 ≤ n) (g : List (List (K × Nat)))
    (hg : NonnegRaw n g) :
    ∃ ref im a rest w, maxOverlapPair eo n g =
        .ok { ref := some ref, im := some im, area := some a, rest := rest, warn := w } ∧
      (ref :: im :: rest).Perm (List.range n) := by
  by_cases hu : n = 2 ∨ eo = true
  · refine ⟨0, 1, _, _, false, maxOverlapPair_user n hn eo hu g, ?_⟩
    have h1 : (0 :: (List.range n).eraseIdx 0).Perm (List.range n) :=
      perm_cons_eraseIdx _ _ _ (List.getElem?_range (by omega))
    have h2 : (1 :: ((List.range n).eraseIdx 0).eraseIdx 0).Perm ((List.range n).eraseIdx 0) := by
      apply perm_cons_eraseIdx
      rw [List.getElem?_eraseIdx]
      simp only [Nat.lt_irrefl, if_false]
      exact List.getElem?_range (by omega)
    exact (h2.cons 0).trans h1
  · have hn3 : 3 ≤ n := by omega
    have he : eo = false := by
      cases eo with
      | false => rfl
      | true => exact absurd (Or.inr rfl) hu
    subst he
    rw [maxOverlapPair_matrix n hn3 g]
    obtain ⟨ref, im, rest, h, _, _, _, _, _, hp, _⟩ :=
      (overlapMatrix_ok n g hg).pairCore_spec hn (decide (0 < nMalformed n g))
    exact ⟨ref, im, _, rest, _, h, hp⟩

variable (imgs : List Img) (kept : List (List Nat)) (cfg : AlignCfg) (eo : Bool)
  (pairG : List (List (K × Nat))) (refArea : List RefRow → Nat → K × Nat)

theorem alignStart_none (hn : 2 ≤ kept.length) (hg : NonnegRaw kept.length pairG) :
    ∃ ri ii a rest,
      alignStart imgs kept eo none pairG refArea =
        .ok { ev1 := (kept.getD ri []).map fun k => Event.status k .reference,
              cat := rowsOfGroup imgs (kept.getD ri []), cur := some (ii, a), work := rest } ∧
      (ri :: ii :: rest).Perm (List.range kept.length) := by
  obtain ⟨ref, im, a, rest, w, h, hp⟩ := maxOverlapPair_spec eo kept.length hn pairG hg
  refine ⟨ref, im, a, rest, ?_, hp⟩
  unfold alignStart
  simp only [h]

theorem alignStart_some (srcs : List Nat) (ids : Option (List Int)) :
    alignStart imgs kept eo (some (srcs, ids)) pairG refArea =
      .ok { ev1 := [], cat := rowsOfTable srcs ids,
            cur := (nextImage eo refArea (List.range kept.length) (rowsOfTable srcs ids)).1,
            work := (nextImage eo refArea (List.range kept.length) (rowsOfTable srcs ids)).2 } := by
  unfold alignStart
  rfl

/-- decomposition of a run that returned: the events are the `FAILED: empty source catalog`
writes, the `REFERENCE` writes for the groups `refGroups` (one group, or none when a reference
catalog was given) and one block per aligned group; reference and aligned groups together are
exactly the groups with a non-empty catalog -/
theorem alignWcs_decomp (refIn : Option (List Nat × Option (List Int)))
    (hg : NonnegRaw (dropEmpty imgs (formGroups (imgs.map (·.gid)))).1.length pairG)
    (hret : (alignWcs imgs refIn cfg pairG refArea).err = none) :
    ∃ (refGroups : List (List Nat)) (results : List (List Nat × Option FailReason)),
      (alignWcs imgs refIn cfg pairG refArea).events =
        (dropEmpty imgs (formGroups (imgs.map (·.gid)))).2
          ++ refGroups.flatMap (fun gr => gr.map fun k => Event.status k .reference)
          ++ results.flatMap blockEvents ∧
      (alignWcs imgs refIn cfg pairG refArea).order = results.map (·.1) ∧
      (alignWcs imgs refIn cfg pairG refArea).outcomes = results.map (·.2) ∧
      (refGroups ++ results.map (·.1)).Perm (dropEmpty imgs (formGroups (imgs.map (·.gid)))).1 ∧
      refGroups.length = (if refIn.isNone then 1 else 0) := by
  unfold alignWcs at hret ⊢
  split at hret
  · simp [alignFail] at hret
  simp only [] at hret ⊢
  rw [if_neg (by assumption)]
  split at hret
  · simp [alignFail] at hret
  next hne =>
  rw [if_neg hne]
  set kept := (dropEmpty imgs (formGroups (imgs.map (·.gid)))).1 with hkept
  set eo := (cfg.enforce || !cfg.expand) with heo
  cases refIn with
  | none =>
    have hn : 2 ≤ kept.length := by
      by_contra hc
      exact hne (Or.inl ⟨rfl, by omega⟩)
    obtain ⟨ri, ii, a, rest, hst, hp⟩ := alignStart_none imgs kept eo pairG refArea hn hg
    rw [hst] at hret ⊢
    simp only [] at hret ⊢
    have hl := (alignLoop_perm imgs kept cfg eo refArea (kept.length + 1)).1 ii a rest _
      (by have := hp.length_eq; simp at this; omega) hret
    refine ⟨[kept.getD ri []], _, ?_, rfl, rfl, ?_, rfl⟩
    · simp
    · have h1 : (kept.getD ri [] :: kept.getD ii [] :: groupsOf kept rest).Perm (groupsOf kept (List.range kept.length)) :=
        hp.map (kept.getD · [])
      rw [groupsOf_range] at h1
      exact ((hl.cons _).trans h1)
  | some p =>
    obtain ⟨srcs, ids⟩ := p
    rw [alignStart_some] at hret ⊢
    simp only [] at hret ⊢
    have hl := (alignLoop_perm imgs kept cfg eo refArea (kept.length + 1)).2 (List.range kept.length)
      (rowsOfTable srcs ids) (by simp) hret
    rw [groupsOf_range] at hl
    exact ⟨[], _, by simp, rfl, rfl, by simpa using hl, rfl⟩
end start

section c13
variable {K : Type} [LinearOrder K] [Add K] [NatCast K] [BEq K]
variable (imgs : List Img) (refIn : Option (List Nat × Option (List Int))) (cfg : AlignCfg)
  (pairG : List (List (K × Nat))) (refArea : List RefRow → Nat → K × Nat)

/-- the groups that take part: those with a non-empty catalog -/
def keptGroups (imgs : List Img) : List (List Nat) :=
  (formGroups (imgs.map (·.gid))).filter fun gr => !(groupSources imgs gr).isEmpty

theorem keptGroups_eq : (dropEmpty imgs (formGroups (imgs.map (·.gid)))).1 = keptGroups imgs :=
  dropEmpty_kept imgs _

theorem count_refblock (k : Nat) (refGroups : List (List Nat)) :
    statusCount k (refGroups.flatMap fun gr => gr.map fun i => Event.status i .reference)
      = refGroups.flatten.count k := by
  induction refGroups with
  | nil => rfl
  | cons g t ih =>
    simp only [List.flatMap_cons, List.flatten_cons, List.count_append]
    rw [statusCount_append, statusCount_map_status, ih]

theorem correct_refblock (k : Nat) (refGroups : List (List Nat)) :
    correctCount k (refGroups.flatMap fun gr => gr.map fun i => Event.status i .reference) = 0 := by
  induction refGroups with
  | nil => rfl
  | cons g t ih =>
    simp only [List.flatMap_cons]
    rw [correctCount_append, correctCount_map_status, ih]

theorem gids_length : (imgs.map (·.gid)).length = imgs.length := by simp


/-- which group-level fact makes image `k` carry status `s` -/
theorem status_mem_iff (hg : NonnegRaw (dropEmpty imgs (formGroups (imgs.map (·.gid)))).1.length pairG)
    (hret : (alignWcs imgs refIn cfg pairG refArea).err = none) :
    ∃ P : Status → List Nat → Prop, ∀ k s,
      Event.status k s ∈ (alignWcs imgs refIn cfg pairG refArea).events ↔
        ∃ gr ∈ formGroups (imgs.map (·.gid)), k ∈ gr ∧ P s gr := by
  obtain ⟨refGroups, results, hev, _, _, hperm, _⟩ := alignWcs_decomp imgs cfg pairG refArea refIn hg hret
  have hsub : ∀ gr, gr ∈ refGroups ++ results.map (·.1) → gr ∈ formGroups (imgs.map (·.gid)) := by
    intro gr h
    have := hperm.subset h
    rw [dropEmpty_kept, List.mem_filter] at this
    exact this.1
  refine ⟨fun s gr => (s = .failed .emptyCatalog ∧ (groupSources imgs gr).isEmpty = true) ∨
      (s = .reference ∧ gr ∈ refGroups) ∨
      (∃ r ∈ results, r.1 = gr ∧ s = outcomeStatus r.2), ?_⟩
  intro k s
  rw [hev, List.mem_append, List.mem_append, mem_dropEmpty_status, mem_blocks_status]
  constructor
  · rintro ((⟨h, gr, hgr, he, hk⟩ | h) | ⟨r, hr, hk, hs⟩)
    · exact ⟨gr, hgr, hk, Or.inl ⟨h, he⟩⟩
    · simp only [List.mem_flatMap, List.mem_map] at h
      obtain ⟨gr, hgr, i, hi, he⟩ := h
      injection he with h1 h2
      subst h1; subst h2
      exact ⟨gr, hsub gr (List.mem_append_left _ hgr), hi, Or.inr (Or.inl ⟨rfl, hgr⟩)⟩
    · exact ⟨r.1, hsub r.1 (List.mem_append_right _ (List.mem_map.mpr ⟨r, hr, rfl⟩)), hk,
        Or.inr (Or.inr ⟨r, hr, rfl, hs⟩)⟩
  · rintro ⟨gr, hgr, hk, (⟨h, he⟩ | ⟨h, hin⟩ | ⟨r, hr, hrg, hs⟩)⟩
    · exact Or.inl (Or.inl ⟨h, gr, hgr, he, hk⟩)
    · refine Or.inl (Or.inr ?_)
      simp only [List.mem_flatMap, List.mem_map]
      exact ⟨gr, hin, k, hk, by rw [h]⟩
    · exact Or.inr ⟨r, hr, by rw [hrg]; exact hk, hs⟩


theorem count_filter_le (k : Nat) (results : List (List Nat × Option FailReason)) :
    ((results.filter (·.2.isNone)).map (·.1)).flatten.count k ≤ (results.map (·.1)).flatten.count k := by
  induction results with
  | nil => simp
  | cons r rs ih =>
    rw [List.filter_cons]
    split
    · simp only [List.map_cons, List.flatten_cons, List.count_append]; omega
    · simp only [List.map_cons, List.flatten_cons, List.count_append]; omega

end c13

section c14

/-- unmatched sources of a group against a catalog (`get_unmatched_cat` after `match2ref`) -/
def unmatchedOf (imgs : List Img) (cfg : AlignCfg) (gr : List Nat) (cat : List RefRow) : List (Nat × Nat) :=
  match cfg.mode with
  | .ideal => (groupSources imgs gr).filter fun p => !(cat.map (·.src)).contains p.1
  | .none1to1 => []

/-- the expansions `exps`, applied one after the other to the catalog `cat`, each append the
unmatched sources of their group with fresh ids, and each was allowed (`SUCCESS` or no overlap) -/
def ExpOK (imgs : List Img) (cfg : AlignCfg) : List RefRow → List Expansion → Prop
  | _, [] => True
  | cat, e :: t =>
    e.rows = newRows cat (unmatchedOf imgs cfg e.group cat) ∧ (e.ok = true ∨ e.areaZero = true) ∧
      ExpOK imgs cfg (cat ++ e.rows) t

theorem alignGroup_un (imgs : List Img) (cfg : AlignCfg) (gr : List Nat) (cat : List RefRow)
    (ok : Option FailReason) (un : List (Nat × Nat)) (h : alignGroup imgs cfg gr cat = .ok (ok, un)) :
    un = unmatchedOf imgs cfg gr cat := by
  unfold alignGroup at h
  unfold unmatchedOf
  split at h
  · cases h
  simp only at h
  split at h
  · next hm =>
    split at h
    · cases h
    · injection h with h; injection h with _ h2; rw [hm]; exact h2.symm
  · next hm =>
    split at h
    · cases h
    · split at h
      · cases h
      · injection h with h; injection h with _ h2; rw [hm]; exact h2.symm

variable {K : Type} [LinearOrder K] [Add K] [NatCast K] [BEq K]
variable (imgs : List Img) (kept : List (List Nat)) (cfg : AlignCfg) (eo : Bool)
  (refArea : List RefRow → Nat → K × Nat)

/-- growth of the reference catalog in the loop -/
theorem alignLoop_refcat (fuel : Nat) (cur : Option (Nat × K)) (work : List Nat) (cat : List RefRow) :
    let out := alignLoop imgs kept cfg eo refArea fuel cur work cat
    out.refcat = cat ++ out.expansions.flatMap (·.rows) ∧ ExpOK imgs cfg cat out.expansions ∧
    (cfg.expand = false → out.expansions = []) ∧
    (∀ e ∈ out.expansions, ∃ o, (e.group, o) ∈ out.results ∧ e.ok = o.isNone) := by
  induction fuel generalizing cur work cat with
  | zero => simp [alignLoop, ExpOK]
  | succ f ih =>
    cases cur with
    | none => simp [alignLoop, ExpOK]
    | some p =>
      obtain ⟨gi, a⟩ := p
      cases hg : alignGroup imgs cfg (kept.getD gi []) cat with
      | error e => simp only [alignLoop, hg]; simp [ExpOK]
      | ok q =>
        obtain ⟨ok, un⟩ := q
        have hun := alignGroup_un imgs cfg _ cat ok un hg
        by_cases hgrow : (cfg.expand && (ok.isNone || a == zeroK)) = true
        · simp only [alignLoop, hg, hgrow, if_true]
          obtain ⟨h1, h2, h3, h4⟩ := ih (nextImage eo refArea work (cat ++ newRows cat un)).1
            (nextImage eo refArea work (cat ++ newRows cat un)).2 (cat ++ newRows cat un)
          refine ⟨?_, ?_, ?_, ?_⟩
          · rw [h1]; simp [List.append_assoc]
          · simp only [List.singleton_append, ExpOK]
            refine ⟨by rw [hun], ?_, h2⟩
            simp only [Bool.and_eq_true, Bool.or_eq_true] at hgrow
            exact hgrow.2
          · intro hex
            rw [hex] at hgrow; simp at hgrow
          · intro e he
            simp only [List.singleton_append, List.mem_cons] at he
            rcases he with rfl | he
            · exact ⟨ok, List.mem_cons_self, rfl⟩
            · obtain ⟨o, ho, ho2⟩ := h4 e he
              exact ⟨o, List.mem_cons_of_mem _ ho, ho2⟩
        · have hgrow' : (cfg.expand && (ok.isNone || a == zeroK)) = false := (Bool.not_eq_true _).mp hgrow
          simp only [alignLoop, hg, hgrow', Bool.false_eq_true, if_false, List.nil_append]
          obtain ⟨h1, h2, h3, h4⟩ := ih (nextImage eo refArea work cat).1 (nextImage eo refArea work cat).2 cat
          refine ⟨h1, h2, h3, fun e he => ?_⟩
          obtain ⟨o, ho, ho2⟩ := h4 e he
          exact ⟨o, List.mem_cons_of_mem _ ho, ho2⟩

/-! ### ids -/

theorem maxId_cons_le (r : RefRow) (t : List RefRow) (m : Int) :
    (∀ x ∈ t, x.id ≤ t.foldl (fun m x => if m < x.id then x.id else m) m) ∧
    m ≤ t.foldl (fun m x => if m < x.id then x.id else m) m ∧
    (t.foldl (fun m x => if m < x.id then x.id else m) m = m ∨
      ∃ x ∈ t, x.id = t.foldl (fun m x => if m < x.id then x.id else m) m) := by
  induction t generalizing m with
  | nil => simp
  | cons y t ih =>
    simp only [List.foldl_cons]
    obtain ⟨h1, h2, h3⟩ := ih (if m < y.id then y.id else m)
    refine ⟨?_, ?_, ?_⟩
    · intro x hx
      rcases List.mem_cons.mp hx with rfl | hx
      · refine Int.le_trans ?_ h2
        split <;> omega
      · exact h1 x hx
    · refine Int.le_trans ?_ h2
      split <;> omega
    · rcases h3 with h3 | ⟨x, hx, hx2⟩
      · rw [h3]
        split
        · exact Or.inr ⟨y, List.mem_cons_self, rfl⟩
        · exact Or.inl rfl
      · exact Or.inr ⟨x, List.mem_cons_of_mem _ hx, hx2⟩

/-- `maxId` is an upper bound of the ids, attained on a non-empty catalog -/
theorem maxId_spec (cat : List RefRow) :
    (∀ x ∈ cat, x.id ≤ maxId cat) ∧ (cat = [] ∧ maxId cat = 0 ∨ ∃ x ∈ cat, x.id = maxId cat) := by
  cases cat with
  | nil => simp [maxId]
  | cons r t =>
    obtain ⟨h1, h2, h3⟩ := maxId_cons_le r t r.id
    refine ⟨?_, Or.inr ?_⟩
    · intro x hx
      rcases List.mem_cons.mp hx with rfl | hx
      · exact h2
      · exact h1 x hx
    · rcases h3 with h3 | ⟨x, hx, hx2⟩
      · exact ⟨r, List.mem_cons_self, h3.symm⟩
      · exact ⟨x, List.mem_cons_of_mem _ hx, hx2⟩

theorem maxId_unique (cat : List RefRow) (v : Int) (hub : ∀ x ∈ cat, x.id ≤ v)
    (hatt : ∃ x ∈ cat, x.id = v) : maxId cat = v := by
  obtain ⟨h1, h2⟩ := maxId_spec cat
  obtain ⟨x, hx, hxv⟩ := hatt
  rcases h2 with ⟨hnil, _⟩ | ⟨y, hy, hyv⟩
  · subst hnil; simp at hx
  · have := h1 x hx
    have := hub y hy
    omega

theorem newRows_ids (cat : List RefRow) (un : List (Nat × Nat)) :
    (newRows cat un).map (·.id) = (List.range un.length).map fun (j : Nat) => maxId cat + 1 + (j : Int) := by
  unfold newRows
  apply List.ext_getElem (by simp)
  intro i h1 h2
  simp

theorem newRows_length (cat : List RefRow) (un : List (Nat × Nat)) : (newRows cat un).length = un.length := by
  simp [newRows]

/-- after an expansion the largest id has grown by the number of appended rows (on a non-empty
catalog) -/
theorem maxId_expand (cat : List RefRow) (hne : cat ≠ []) (un : List (Nat × Nat)) :
    maxId (cat ++ newRows cat un) = maxId cat + un.length := by
  obtain ⟨h1, h2⟩ := maxId_spec cat
  have hids := newRows_ids cat un
  have hmem : ∀ x ∈ newRows cat un, ∃ j, j < un.length ∧ x.id = maxId cat + 1 + (j : Int) := by
    intro x hx
    have : x.id ∈ (newRows cat un).map (·.id) := List.mem_map.mpr ⟨x, hx, rfl⟩
    rw [hids] at this
    obtain ⟨j, hj, hje⟩ := List.mem_map.mp this
    exact ⟨j, List.mem_range.mp hj, hje.symm⟩
  apply maxId_unique
  · intro x hx
    rcases List.mem_append.mp hx with hx | hx
    · have := h1 x hx; omega
    · obtain ⟨j, hj, hje⟩ := hmem x hx; omega
  · by_cases hun : un.length = 0
    · rcases h2 with ⟨hnil, _⟩ | ⟨y, hy, hyv⟩
      · exact absurd hnil hne
      · exact ⟨y, List.mem_append_left _ hy, by rw [hyv, hun]; simp⟩
    · have hlen : un.length - 1 < (newRows cat un).length := by rw [newRows_length]; omega
      refine ⟨(newRows cat un)[un.length - 1], List.mem_append_right _ (List.getElem_mem _), ?_⟩
      have : ((newRows cat un).map (·.id))[un.length - 1]'(by simpa using hlen) =
          maxId cat + 1 + ((un.length - 1 : Nat) : Int) := by
        simp [hids]
      rw [List.getElem_map] at this
      rw [this]; omega

/-- fresh consecutive ids across all expansions -/
theorem expOK_ids (imgs : List Img) (cfg : AlignCfg) (cat : List RefRow) (hne : cat ≠ []) (exps : List Expansion)
    (h : ExpOK imgs cfg cat exps) :
    (exps.flatMap (·.rows)).map (·.id) =
      (List.range (exps.flatMap (·.rows)).length).map fun (j : Nat) => maxId cat + 1 + (j : Int) := by
  induction exps generalizing cat with
  | nil => simp
  | cons e t ih =>
    obtain ⟨h1, _, h3⟩ := h
    have hne' : cat ++ e.rows ≠ [] := by simp [hne]
    have := ih (cat ++ e.rows) hne' h3
    simp only [List.flatMap_cons, List.map_append, List.length_append]
    rw [this, h1, newRows_ids, maxId_expand cat hne, newRows_length]
    apply List.ext_getElem (by simp)
    intro i hi1 hi2
    simp only [List.getElem_append, List.getElem_map, List.getElem_range, List.length_map, List.length_range]
    split
    · rfl
    · push_cast; omega
end c14

section c14b

theorem newRows_src (cat : List RefRow) (un : List (Nat × Nat)) :
    (newRows cat un).map (·.src) = un.map (·.1) := by
  unfold newRows
  apply List.ext_getElem (by simp)
  intro i h1 h2
  simp

/-- every appended row is an unmatched source of the group, with the image it was seen in -/
theorem newRows_mem (cat : List RefRow) (un : List (Nat × Nat)) (row : RefRow) (h : row ∈ newRows cat un) :
    ∃ p ∈ un, row.src = p.1 ∧ row.origin = some p.2 := by
  unfold newRows at h
  obtain ⟨⟨p, j⟩, hp, rfl⟩ := List.mem_map.mp h
  exact ⟨p, (List.mem_zipIdx hp).2.2 ▸ List.getElem_mem _ , rfl, rfl⟩

theorem mem_groupSources (imgs : List Img) (gr : List Nat) (p : Nat × Nat) :
    p ∈ groupSources imgs gr ↔ p.2 ∈ gr ∧ p.1 ∈ (imgs.getD p.2 default).sources := by
  unfold groupSources
  simp only [List.mem_flatMap, List.mem_map]
  constructor
  · rintro ⟨k, hk, s, hs, rfl⟩; exact ⟨hk, hs⟩
  · rintro ⟨h1, h2⟩; exact ⟨p.2, h1, p.1, h2, rfl⟩

theorem mem_unmatchedOf (imgs : List Img) (cfg : AlignCfg) (gr : List Nat) (cat : List RefRow) (p : Nat × Nat)
    (h : p ∈ unmatchedOf imgs cfg gr cat) :
    p ∈ groupSources imgs gr ∧ p.1 ∉ cat.map (·.src) := by
  unfold unmatchedOf at h
  split at h
  · rw [List.mem_filter] at h
    refine ⟨h.1, ?_⟩
    have := h.2
    simpa using this
  · simp at h

/-- the catalog never contains a physical source twice, provided the initial catalog does not and
no group catalog lists a source twice -/
theorem expOK_nodup (imgs : List Img) (cfg : AlignCfg) (cat : List RefRow) (exps : List Expansion)
    (h : ExpOK imgs cfg cat exps) (hcat : (cat.map (·.src)).Nodup)
    (hgr : ∀ e ∈ exps, ((groupSources imgs e.group).map (·.1)).Nodup) :
    ((cat ++ exps.flatMap (·.rows)).map (·.src)).Nodup := by
  induction exps generalizing cat with
  | nil => simpa using hcat
  | cons e t ih =>
    obtain ⟨h1, _, h3⟩ := h
    have hstep : ((cat ++ e.rows).map (·.src)).Nodup := by
      rw [List.map_append, List.nodup_append]
      refine ⟨hcat, ?_, ?_⟩
      · rw [h1, newRows_src]
        have hsub : (unmatchedOf imgs cfg e.group cat).Sublist (groupSources imgs e.group) := by
          unfold unmatchedOf
          split
          · exact List.filter_sublist
          · exact List.nil_sublist _
        exact (hgr e List.mem_cons_self).sublist (hsub.map _)
      · intro a ha b hb hab
        subst hab
        rw [h1, newRows_src] at hb
        obtain ⟨p, hp, rfl⟩ := List.mem_map.mp hb
        exact (mem_unmatchedOf imgs cfg e.group cat p hp).2 ha
    have := ih (cat ++ e.rows) h3 hstep (fun e' he' => hgr e' (List.mem_cons_of_mem _ he'))
    simpa [List.append_assoc] using this

theorem rowsOfGroup_length (imgs : List Img) (gr : List Nat) :
    (rowsOfGroup imgs gr).length = (groupSources imgs gr).length := by
  unfold rowsOfGroup groupSources
  induction gr with
  | nil => rfl
  | cons k t ih => simp [List.flatMap_cons, ih]

theorem rowsOfTable_none (srcs : List Nat) :
    (rowsOfTable srcs none).map (·.src) = srcs ∧
    (rowsOfTable srcs none).map (·.id) = (List.range srcs.length).map fun (j : Nat) => (j : Int) + 1 := by
  unfold rowsOfTable
  constructor
  · apply List.ext_getElem (by simp)
    intro i h1 h2; simp
  · apply List.ext_getElem (by simp)
    intro i h1 h2; simp

theorem rowsOfTable_some (srcs : List Nat) (ids : List Int) (h : ids.length = srcs.length) :
    (rowsOfTable srcs (some ids)).map (·.src) = srcs ∧ (rowsOfTable srcs (some ids)).map (·.id) = ids := by
  unfold rowsOfTable
  constructor
  · apply List.ext_getElem (by simp [h])
    intro i h1 h2; simp
  · apply List.ext_getElem (by simp [h])
    intro i h1 h2; simp

variable {K : Type} [LinearOrder K] [Add K] [NatCast K] [BEq K]
variable (imgs : List Img) (refIn : Option (List Nat × Option (List Int))) (cfg : AlignCfg)
  (pairG : List (List (K × Nat))) (refArea : List RefRow → Nat → K × Nat)

/-- either an exception left `align_wcs` before the loop, or the outputs are those of the loop
started from `alignStart` -/
theorem alignWcs_cases :
    (∃ e ev, alignWcs imgs refIn cfg pairG refArea = alignFail e ev) ∨
    (∃ st, refEmpty refIn = false ∧
      alignStart imgs (dropEmpty imgs (formGroups (imgs.map (·.gid)))).1 (cfg.enforce || !cfg.expand) refIn
        pairG refArea = .ok st ∧
      let out := alignLoop imgs (dropEmpty imgs (formGroups (imgs.map (·.gid)))).1 cfg
        (cfg.enforce || !cfg.expand) refArea
        ((dropEmpty imgs (formGroups (imgs.map (·.gid)))).1.length + 1) st.cur st.work st.cat
      (alignWcs imgs refIn cfg pairG refArea).initial = st.cat ∧
      (alignWcs imgs refIn cfg pairG refArea).refcat = out.refcat ∧
      (alignWcs imgs refIn cfg pairG refArea).expansions = out.expansions ∧
      (alignWcs imgs refIn cfg pairG refArea).order = out.results.map (·.1) ∧
      (alignWcs imgs refIn cfg pairG refArea).err = out.err ∧
      (alignWcs imgs refIn cfg pairG refArea).outcomes = out.results.map (·.2) ∧
      (alignWcs imgs refIn cfg pairG refArea).nms = out.nms ∧
      (alignWcs imgs refIn cfg pairG refArea).events =
        (dropEmpty imgs (formGroups (imgs.map (·.gid)))).2 ++ st.ev1 ++ out.results.flatMap blockEvents) := by
  unfold alignWcs
  by_cases he : refEmpty refIn = true
  · left; rw [if_pos he]; exact ⟨_, _, rfl⟩
  rw [if_neg he]
  simp only []
  split
  · left; exact ⟨_, _, rfl⟩
  · split
    · left; exact ⟨_, _, rfl⟩
    · next st hst =>
      right
      exact ⟨st, by simpa using he, hst, rfl, rfl, rfl, rfl, rfl, rfl, rfl, rfl⟩
end c14b
end TW.AlignL
