import Proofs.InvFwd
import Mathlib.LinearAlgebra.Matrix.NonsingularInverse
import Mathlib.LinearAlgebra.Matrix.Block

open TW Matrix
set_option linter.unusedSectionVars false

namespace TW
variable {K : Type} [Field K] [LinearOrder K] [IsStrictOrderedRing K] {n : ℕ}

/-- generic fold lemma: an indexed invariant carried along a list of consecutive indices -/
theorem foldlM_consecutive {σ : Type} (f : σ → Fin n → Except LinAlgErr σ) (P : ℕ → σ → Prop)
    (hstep : ∀ s s' (k : Fin n), f s k = .ok s' → P k.val s → P (k.val + 1) s') :
    ∀ (l : List (Fin n)) (t : ℕ) (s s' : σ), l.map Fin.val = List.range' t l.length →
      l.foldlM f s = .ok s' → P t s → P (t + l.length) s' := by
  intro l
  induction l with
  | nil => intro t s s' _ h hP; simp [List.foldlM] at h; cases h; simpa using hP
  | cons a l ih =>
    intro t s s' hl h hP
    simp only [List.map_cons, List.length_cons, List.range'_succ, List.cons.injEq] at hl
    obtain ⟨hat, hl'⟩ := hl
    rw [List.foldlM_cons] at h
    cases hfa : f s a with
    | error e => rw [hfa] at h; cases h
    | ok s1 =>
      rw [hfa] at h
      have h1 : P (a.val + 1) s1 := hstep s s1 a hfa (hat ▸ hP)
      have := ih (t + 1) s1 s' hl' h (hat ▸ h1)
      simpa [Nat.add_assoc, Nat.add_comm 1] using this

theorem finRange_map_val : (List.finRange n).map Fin.val = List.range' 0 (List.finRange n).length := by
  simp [List.range_eq_range']

/-- the state after the whole forward phase -/
theorem fwd_phase (eps : K) (heps : 0 < eps) (a : Mat n K) (st : InvSt n K)
    (h : (List.finRange n).foldlM (fwdStep eps) ⟨a, idMat, idMat⟩ = .ok st) :
    FwdInv (toM a) n st := by
  have h0 : FwdInv (toM a) 0 (⟨a, idMat, idMat⟩ : InvSt n K) := by
    refine ⟨?_, ?_, ?_, ?_⟩
    · simp [toM_idMat]
    · simp [toM_idMat]
    · intro i hi; exact absurd hi (Nat.not_lt_zero _)
    · intro i j hj; exact absurd hj (Nat.not_lt_zero _)
  have := foldlM_consecutive (fwdStep eps) (FwdInv (toM a))
    (fun s s' k hk hP => fwdStep_inv (toM a) eps heps s s' k hk hP)
    (List.finRange n) 0 _ st finRange_map_val h h0
  simpa using this

/-! ### back substitution -/

/-- invariant of the back substitution after the rows `k1 ≥ t` have been used -/
def BackInv (U V : Mat n K) (t : ℕ) (cur : Mat n K) : Prop :=
  ∀ i j : Fin n, cur.get i j =
    V.get i j - ∑ l : Fin n, if t ≤ l.val ∧ i.val < l.val then U.get i l * cur.get l j else 0

theorem backStep_get (U cur : Mat n K) (k1 i j : Fin n) :
    (backStep U cur k1).get i j =
      if i.val < k1.val then cur.get i j - U.get i k1 * cur.get k1 j else cur.get i j := by
  simp only [backStep, Mat.get_ofFn]

theorem backStep_inv (U V cur : Mat n K) (k1 : Fin n) (h : BackInv U V (k1.val + 1) cur) :
    BackInv U V k1.val (backStep U cur k1) := by
  intro i j
  have key : ∀ l : Fin n, k1.val ≤ l.val → (backStep U cur k1).get l j = cur.get l j := by
    intro l hl
    rw [backStep_get, if_neg (by omega)]
  have hpt : ∀ l : Fin n,
      (if k1.val ≤ l.val ∧ i.val < l.val then U.get i l * (backStep U cur k1).get l j else 0)
        = (if k1.val + 1 ≤ l.val ∧ i.val < l.val then U.get i l * cur.get l j else 0)
          + (if l = k1 then (if i.val < k1.val then U.get i k1 * cur.get k1 j else 0) else 0) := by
    intro l
    by_cases hl : l = k1
    · subst hl
      rw [if_neg (by omega : ¬ (l.val + 1 ≤ l.val ∧ i.val < l.val)), if_pos rfl, zero_add]
      by_cases hil : i.val < l.val
      · rw [if_pos ⟨le_refl _, hil⟩, if_pos hil, key l (le_refl _)]
      · rw [if_neg (by omega), if_neg hil]
    · have hne : l.val ≠ k1.val := fun e => hl (Fin.ext e)
      rw [if_neg hl, add_zero]
      by_cases hc : k1.val ≤ l.val ∧ i.val < l.val
      · rw [if_pos hc, if_pos (by omega), key l hc.1]
      · rw [if_neg hc, if_neg (by omega)]
  rw [Finset.sum_congr rfl (fun l _ => hpt l), Finset.sum_add_distrib, Finset.sum_ite_eq' Finset.univ k1,
    if_pos (Finset.mem_univ _), backStep_get]
  have hcur := h i j
  by_cases hik : i.val < k1.val
  · rw [if_pos hik, if_pos hik, hcur]; ring
  · rw [if_neg hik, if_neg hik, hcur]; ring

theorem foldr_consecutive_desc {σ : Type} (f : Fin n → σ → σ) (P : ℕ → σ → Prop)
    (hstep : ∀ (k : Fin n) s, P (k.val + 1) s → P k.val (f k s)) :
    ∀ (l : List (Fin n)) (t : ℕ) (s : σ), l.map Fin.val = List.range' t l.length →
      P (t + l.length) s → P t (l.foldr f s) := by
  intro l
  induction l with
  | nil => intro t s _ h; simpa using h
  | cons a l ih =>
    intro t s hl hP
    simp only [List.map_cons, List.length_cons, List.range'_succ, List.cons.injEq] at hl
    obtain ⟨hat, hl'⟩ := hl
    simp only [List.foldr_cons]
    have h1 : P (t + 1) (l.foldr f s) := by
      apply ih (t + 1) s hl'
      simpa [Nat.add_assoc, Nat.add_comm 1] using hP
    have := hstep a (l.foldr f s) (hat ▸ h1)
    exact hat ▸ this

theorem back_phase (U V : Mat n K) :
    BackInv U V 0 ((List.finRange n).reverse.foldl (backStep U) V) := by
  rw [List.foldl_reverse]
  apply foldr_consecutive_desc (fun k acc => backStep U acc k) (BackInv U V)
    (fun k s h => backStep_inv U V s k h) (List.finRange n) 0 V finRange_map_val
  intro i j
  have hz : (∑ l : Fin n, if 0 + (List.finRange n).length ≤ l.val ∧ i.val < l.val
      then U.get i l * V.get l j else 0) = 0 := by
    apply Finset.sum_eq_zero
    intro l _
    rw [if_neg]
    intro hc
    have := l.isLt
    simp only [List.length_finRange] at hc
    omega
  rw [hz, sub_zero]

/-- back substitution solves `U X = V` when `U` is unit upper triangular -/
theorem back_solves (U V X : Mat n K) (hdiag : ∀ i : Fin n, U.get i i = 1)
    (hbelow : ∀ i j : Fin n, j.val < i.val → U.get i j = 0) (hX : BackInv U V 0 X) :
    toM U * toM X = toM V := by
  ext i j
  rw [Matrix.mul_apply]
  simp only [toM_apply]
  have h := hX i j
  have hpt : ∀ l : Fin n, U.get i l * X.get l j =
      (if 0 ≤ l.val ∧ i.val < l.val then U.get i l * X.get l j else 0)
        + (if l = i then X.get i j else 0) := by
    intro l
    by_cases hl : l = i
    · subst hl
      rw [if_neg (by omega), if_pos rfl, hdiag, one_mul, zero_add]
    · have hne : l.val ≠ i.val := fun e => hl (Fin.ext e)
      rw [if_neg hl, add_zero]
      by_cases hlt : i.val < l.val
      · rw [if_pos ⟨Nat.zero_le _, hlt⟩]
      · rw [if_neg (by omega), hbelow i l (by omega), zero_mul]
  rw [Finset.sum_congr rfl (fun l _ => hpt l), Finset.sum_add_distrib, Finset.sum_ite_eq' Finset.univ i,
    if_pos (Finset.mem_univ _)]
  rw [h]
  ring

/-- unit upper triangular matrices have determinant one -/
theorem det_unitUpper (U : Mat n K) (hdiag : ∀ i : Fin n, U.get i i = 1)
    (hbelow : ∀ i j : Fin n, j.val < i.val → U.get i j = 0) : (toM U).det = 1 := by
  have hbt : (toM U).BlockTriangular id := by
    intro i j hij
    exact hbelow i j hij
  rw [Matrix.det_of_upperTriangular hbt]
  simp [hdiag]

theorem toM_matMul (a b : Mat n K) : toM (matMul a b) = toM a * toM b := by
  ext i j
  simp only [matMul, toM_apply, Mat.get_ofFn, Matrix.mul_apply, sumFin]
  have : ∀ (l : List (Fin n)) (f : Fin n → K) (z : K),
      l.foldl (fun acc i => acc + f i) z = z + (l.map f).sum := by
    intro l f
    induction l with
    | nil => intro z; simp
    | cons x xs ih => intro z; simp [ih, add_assoc]
  rw [this]
  simp [zeroK_eq, Fin.sum_univ_def]

theorem toM_transposeM (a : Mat n K) : toM (transposeM a) = (toM a)ᵀ := by
  ext i j; simp [transposeM]

/-- **Correctness of the model of `inv`**: whatever it returns is the two-sided inverse. -/
theorem invSq_correct (eps : K) (heps : 0 < eps) (a x : Mat n K) (h : invSq eps a = .ok x) :
    toM x * toM a = 1 ∧ toM a * toM x = 1 := by
  unfold invSq at h
  simp only [bind, Except.bind, pure, Except.pure] at h
  split at h
  · cases h
  next st hst =>
  injection h with h
  have hinv := fwd_phase eps heps a st hst
  set U := st.m
  set V := st.iv
  set Q := toM st.qt
  set X := (List.finRange n).reverse.foldl (backStep U) V with hXdef
  have hdiag : ∀ i : Fin n, U.get i i = 1 := fun i => hinv.diag i i.isLt
  have hbelow : ∀ i j : Fin n, j.val < i.val → U.get i j = 0 := fun i j hji => hinv.below i j j.isLt hji
  have hUX : toM U * toM X = toM V := back_solves U V X hdiag hbelow (back_phase U V)
  have hdet : (toM U).det = 1 := det_unitUpper U hdiag hbelow
  have hUunit : IsUnit (toM U).det := by rw [hdet]; exact isUnit_one
  set B := Qᵀ * toM a * Q with hB
  have hUeq : toM U = toM V * B := hinv.eq
  -- X * B = 1
  have hXB : toM X * B = 1 := by
    have h1 : toM U * (toM X * B) = toM U * 1 := by
      rw [← Matrix.mul_assoc, hUX, mul_one, ← hUeq]
    have hUinv := Matrix.nonsing_inv_mul (toM U) hUunit
    calc toM X * B = ((toM U)⁻¹ * toM U) * (toM X * B) := by rw [hUinv, one_mul]
      _ = (toM U)⁻¹ * (toM U * (toM X * B)) := by rw [Matrix.mul_assoc]
      _ = (toM U)⁻¹ * (toM U * 1) := by rw [h1]
      _ = 1 := by rw [mul_one, hUinv]
  have horth : Q * Qᵀ = 1 := hinv.orth
  have horth' : Qᵀ * Q = 1 := mul_eq_one_comm.mp horth
  have hx : toM x = Q * (toM X * Qᵀ) := by
    rw [← h, toM_matMul, toM_matMul, toM_transposeM]
  have left : toM x * toM a = 1 := by
    have : toM a = Q * B * Qᵀ := by
      rw [hB]
      calc toM a = (Q * Qᵀ) * toM a * (Q * Qᵀ) := by rw [horth, one_mul, mul_one]
        _ = Q * (Qᵀ * toM a * Q) * Qᵀ := by simp only [Matrix.mul_assoc]
    rw [hx, this]
    calc Q * (toM X * Qᵀ) * (Q * B * Qᵀ) = Q * (toM X * ((Qᵀ * Q) * B)) * Qᵀ := by
          simp only [Matrix.mul_assoc]
      _ = Q * (toM X * B) * Qᵀ := by rw [horth', one_mul]
      _ = 1 := by rw [hXB, mul_one, horth]
  exact ⟨left, mul_eq_one_comm.mp left⟩

end TW
