import Proofs.HullMain

/-!
Helper lemmas for C16: the sort/dedupe step `sorted(set(zip(x, y)))`.
-/
open TW
set_option linter.unusedSectionVars false

namespace TW
variable {K : Type} [Field K] [LinearOrder K] [IsStrictOrderedRing K]

theorem lexLtB_iff (p q : Pt K) : lexLtB p q = true ↔ lexlt p q := by
  unfold lexLtB lexlt
  by_cases h1 : p.1 < q.1
  · rw [if_pos h1]; exact ⟨fun _ => Or.inl h1, fun _ => rfl⟩
  · rw [if_neg h1]
    by_cases h2 : q.1 < p.1
    · rw [if_pos h2]
      constructor
      · intro h; cases h
      · rintro (h | ⟨h, _⟩)
        · exact absurd h h1
        · rw [h] at h2; exact absurd h2 (lt_irrefl _)
    · have he : p.1 = q.1 := le_antisymm (not_lt.mp h2) (not_lt.mp h1)
      rw [if_neg h2, decide_eq_true_eq]
      constructor
      · intro h; exact Or.inr ⟨he, h⟩
      · rintro (h | ⟨_, h⟩)
        · exact absurd h h1
        · exact h

theorem not_lexlt_both_eq {p q : Pt K} (h1 : ¬ lexlt p q) (h2 : ¬ lexlt q p) : p = q := by
  rcases lexlt_trichotomy p q with h | h | h
  · exact absurd h h1
  · exact h
  · exact absurd h h2

theorem mem_insertPt (p x : Pt K) : ∀ l : List (Pt K), x ∈ insertPt p l ↔ x = p ∨ x ∈ l := by
  intro l
  induction l with
  | nil => simp [insertPt]
  | cons q rest ih =>
    unfold insertPt
    by_cases h1 : lexLtB p q = true
    · rw [if_pos h1]; simp only [List.mem_cons]
    · by_cases h2 : lexLtB q p = true
      · rw [if_neg h1, if_pos h2]
        simp only [List.mem_cons, ih]
        tauto
      · have he : p = q := not_lexlt_both_eq (fun h => h1 ((lexLtB_iff _ _).mpr h))
          (fun h => h2 ((lexLtB_iff _ _).mpr h))
        rw [if_neg h1, if_neg h2]
        simp only [List.mem_cons, he]
        tauto

theorem sorted_insertPt (p : Pt K) : ∀ l : List (Pt K), l.Pairwise lexlt → (insertPt p l).Pairwise lexlt := by
  intro l
  induction l with
  | nil => intro _; simp [insertPt]
  | cons q rest ih =>
    intro hs
    have hq := (List.pairwise_cons.mp hs).1
    have hr := (List.pairwise_cons.mp hs).2
    unfold insertPt
    by_cases h1 : lexLtB p q = true
    · rw [if_pos h1]
      have hpq := (lexLtB_iff _ _).mp h1
      refine List.pairwise_cons.mpr ⟨?_, hs⟩
      intro x hx
      rcases List.mem_cons.mp hx with e | e
      · rw [e]; exact hpq
      · exact lexlt_trans hpq (hq x e)
    · by_cases h2 : lexLtB q p = true
      · rw [if_neg h1, if_pos h2]
        refine List.pairwise_cons.mpr ⟨?_, ih hr⟩
        intro x hx
        rcases (mem_insertPt p x rest).mp hx with e | e
        · rw [e]; exact (lexLtB_iff _ _).mp h2
        · exact hq x e
      · rw [if_neg h1, if_neg h2]
        exact hs

theorem foldl_insert_spec : ∀ (pts acc : List (Pt K)), acc.Pairwise lexlt →
    (pts.foldl (fun acc p => insertPt p acc) acc).Pairwise lexlt ∧
    ∀ x, x ∈ pts.foldl (fun acc p => insertPt p acc) acc ↔ x ∈ acc ∨ x ∈ pts := by
  intro pts
  induction pts with
  | nil => intro acc h; simp [h]
  | cons p pts ih =>
    intro acc h
    simp only [List.foldl_cons]
    obtain ⟨h1, h2⟩ := ih (insertPt p acc) (sorted_insertPt p acc h)
    refine ⟨h1, fun x => ?_⟩
    rw [h2, mem_insertPt, List.mem_cons]
    tauto

theorem sortDedupe_sorted (pts : List (Pt K)) : (sortDedupe pts).Pairwise lexlt :=
  (foldl_insert_spec pts [] List.Pairwise.nil).1

theorem mem_sortDedupe (pts : List (Pt K)) (x : Pt K) : x ∈ sortDedupe pts ↔ x ∈ pts := by
  have := (foldl_insert_spec pts [] List.Pairwise.nil).2 x
  simpa [sortDedupe] using this

end TW
