import Model.Store

/-!
Helper lemmas for the store model (`Model/Store.lean`); the property theorems are in
`Proofs/C19.lean`.
-/
namespace TW

theorem lookup_filter_ne (s : Store) (c c' : Cell) (h : c' ≠ c) :
    (s.filter (fun p => p.1 != c)).lookup c' = s.lookup c' := by
  induction s with
  | nil => rfl
  | cons p s ih =>
    obtain ⟨a, v⟩ := p
    by_cases ha : a = c
    · subst ha
      have : (c' == a) = false := by simpa using h
      simp [List.lookup_cons, this, ih]
    · simp only [List.filter_cons]
      have hf : ((a, v).1 != c) = true := by simpa using ha
      rw [if_pos hf]
      simp only [List.lookup_cons]
      rw [ih]

theorem get_set (s : Store) (c c' : Cell) (v : Nat) :
    (s.set c v).get c' = if c' = c then v else s.get c' := by
  unfold Store.set Store.get
  by_cases h : c' = c
  · subst h; simp
  · have : (c' == c) = false := by simpa using h
    simp only [List.lookup_cons, this, if_neg h]
    rw [lookup_filter_ne s c c' h]

theorem get_set_same (s : Store) (c : Cell) (v : Nat) : (s.set c v).get c = v := by
  rw [get_set, if_pos rfl]

theorem get_set_ne (s : Store) (c c' : Cell) (v : Nat) (h : c' ≠ c) :
    (s.set c v).get c' = s.get c' := by
  rw [get_set, if_neg h]

/-- writing a list of cells: written cells get the new values, all others keep theirs -/
theorem get_writeAll (f : Cell → Nat) (l : List Cell) (s : Store) (c : Cell) :
    (writeAll f l s).get c = if c ∈ l then f c else s.get c := by
  unfold writeAll
  induction l generalizing s with
  | nil => simp
  | cons a l ih =>
    rw [List.foldl_cons, ih]
    by_cases hl : c ∈ l
    · simp [hl]
    · by_cases ha : c = a
      · subst ha; simp [hl, get_set_same]
      · simp [hl, ha, get_set_ne _ _ _ _ ha]

/-- one call: a cell of the write set gets `newVal`, every other cell keeps its value -/
theorem get_step (sem : Sem) (s : Store) (op : Op) (c : Cell) :
    (step sem s op).get c = if c ∈ writeSet op then newVal sem s op c else s.get c := by
  unfold step
  rw [get_writeAll]

theorem get_step_of_not_mem (sem : Sem) (s : Store) (op : Op) (c : Cell) (h : c ∉ writeSet op) :
    (step sem s op).get c = s.get c := by
  rw [get_step, if_neg h]

theorem run_cons (sem : Sem) (s : Store) (op : Op) (ops : List Op) :
    run sem s (op :: ops) = run sem (step sem s op) ops := rfl

theorem run_append (sem : Sem) (s : Store) (a b : List Op) :
    run sem s (a ++ b) = run sem (run sem s a) b := by
  unfold run; rw [List.foldl_append]

theorem mayWrite_cons (op : Op) (ops : List Op) :
    mayWrite (op :: ops) = writeSet op ++ mayWrite ops := by
  unfold mayWrite; simp

/-- a pure call (empty write set) returns the store it was given -/
theorem step_pure (sem : Sem) (s : Store) (op : Op) (h : writeSet op = []) : step sem s op = s := by
  unfold step writeAll; rw [h]; rfl

/-- every written cell belongs to one of the correctors the operation acts on -/
theorem owner_of_mem_writeSet (op : Op) (c : Cell) (h : c ∈ writeSet op) :
    ∃ k ∈ targets op, c.owner = some k := by
  cases op with
  | fitWcs i =>
    refine ⟨i, by simp [targets], ?_⟩
    simp [writeSet, corrCells] at h
    rcases h with h | h | h <;> subst h <;> rfl
  | alignWcs is =>
    simp only [writeSet, List.mem_flatMap] at h
    obtain ⟨i, hi, hc⟩ := h
    refine ⟨i, by simpa [targets] using hi, ?_⟩
    simp [corrCells] at hc
    rcases hc with h | h | h <;> subst h <;> rfl
  | setCorrection i =>
    refine ⟨i, by simp [targets], ?_⟩
    simp [writeSet] at h
    rcases h with h | h <;> subst h <;> rfl
  | copyCorrector i j =>
    refine ⟨j, by simp [targets], ?_⟩
    simp [writeSet, allCells] at h
    rcases h with h | h | h | h | h <;> subst h <;> rfl
  | _ => simp [writeSet] at h

/-- a caller-owned cell is in a write set only when the operation is the copy that creates it -/
theorem callerOwned_of_mem_writeSet (op : Op) (c : Cell) (h : c ∈ writeSet op)
    (hc : c.callerOwned = true) : ∃ i j, op = .copyCorrector i j ∧ c.owner = some j := by
  cases op with
  | fitWcs i =>
    simp [writeSet, corrCells] at h
    rcases h with h | h | h <;> subst h <;> simp [Cell.callerOwned] at hc
  | alignWcs is =>
    simp only [writeSet, List.mem_flatMap] at h
    obtain ⟨i, _, h⟩ := h
    simp [corrCells] at h
    rcases h with h | h | h <;> subst h <;> simp [Cell.callerOwned] at hc
  | setCorrection i =>
    simp [writeSet] at h
    rcases h with h | h <;> subst h <;> simp [Cell.callerOwned] at hc
  | copyCorrector i j =>
    refine ⟨i, j, rfl, ?_⟩
    simp [writeSet, allCells] at h
    rcases h with h | h | h | h | h <;> subst h <;> rfl
  | _ => simp [writeSet] at h

theorem mem_copyDests_cons (i j : Nat) (ops : List Op) :
    j ∈ copyDests (.copyCorrector i j :: ops) := by
  simp [copyDests]

theorem copyDests_subset_cons (op : Op) (ops : List Op) (k : Nat) (h : k ∈ copyDests ops) :
    k ∈ copyDests (op :: ops) := by
  cases op <;> simp [copyDests, h]

/-- the cells of a copy correspond to cells of the source corrector -/
theorem copySrc_mem (i j : Nat) (c : Cell) (h : c ∈ allCells j) : copySrc i c ∈ allCells i := by
  simp [allCells] at h
  rcases h with h | h | h | h | h <;> subst h <;> simp [copySrc, allCells]

theorem owner_of_mem_allCells (i : Nat) (c : Cell) (h : c ∈ allCells i) : c.owner = some i := by
  simp [allCells] at h
  rcases h with h | h | h | h | h <;> subst h <;> rfl

/-- sums over a read set agree when the stores agree on it -/
theorem sum_get_congr (l : List Cell) (s s' : Store) (h : agreeOn l s s') :
    (l.map s.get).sum = (l.map s'.get).sum := by
  induction l with
  | nil => rfl
  | cons a l ih =>
    simp only [List.map_cons, List.sum_cons]
    rw [h a (by simp), ih (fun c hc => h c (by simp [hc]))]

theorem demoSem_respects : demoSem.Respects where
  upd_reads := by
    intro op s s' h c
    simp only [demoSem]
    rw [sum_get_congr _ _ _ h]
  out_reads := by
    intro op s s' h
    simp only [demoSem]
    rw [sum_get_congr _ _ _ h]

end TW
