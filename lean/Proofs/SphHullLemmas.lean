import Proofs.TanProjLemmas
import Proofs.C16Merge
import Proofs.C16Box
import Proofs.InvTotal
import Mathlib.LinearAlgebra.Matrix.Determinant.Basic
import Mathlib.LinearAlgebra.Matrix.NonsingularInverse
import Mathlib.Tactic.LinearCombination
import Model.SphHull

/-!
Helper lemmas for C16: the spherical part of `RefCatalog._calc_cat_convex_hull` (`Model/SphHull.lean`).

* `planarRot`, `eulerRot`: orthogonal, determinant 1, `euler_rot · (reference direction) = (1, 0, 0)`;
* `triple (lift a) (lift b) (lift p) = cross a b p`, invariance of the triple product under rotations,
  hence planar side tests = great-circle side tests for sources in the open hemisphere `xr > 0`;
* `inv(euler_rot)` (the model of `tweakwcs.linalg.inv`) is the transpose;
* with trigonometry (`ℝ`): the rotation built from `(ra_ref, dec_ref) = c2s(mean)` sends the mean vector to
  `(‖mean‖, 0, 0)`, and `xr = v · mean / ‖mean‖`.
-/
open TW TW.Sph
set_option linter.unusedSectionVars false

namespace TW
namespace Sph

section field
variable {K : Type} [Field K] [LinearOrder K] [IsStrictOrderedRing K]

/-! ### determinant of a 3×3 matrix, triple products -/

/-- determinant = triple product of the rows -/
def det (m : M3 K) : K := triple ⟨m.a00, m.a01, m.a02⟩ ⟨m.a10, m.a11, m.a12⟩ ⟨m.a20, m.a21, m.a22⟩

theorem det_mul (a b : M3 K) : det (a.mul b) = det a * det b := by
  simp only [det, triple, M3.mul]; ring

theorem det_transpose (a : M3 K) : det a.transpose = det a := by
  simp only [det, triple, M3.transpose]; ring

theorem det_one : det (M3.one : M3 K) = 1 := by
  simp [det, triple, M3.one]

/-- the triple product of three transformed vectors -/
theorem triple_mulVec (m : M3 K) (a b c : V3 K) :
    triple (m.mulVec a) (m.mulVec b) (m.mulVec c) = det m * triple a b c := by
  simp only [det, triple, M3.mulVec]; ring

theorem triple_smul_right (k : K) (a b c : V3 K) : triple a b (V3.smul k c) = k * triple a b c := by
  simp only [triple, V3.smul]; ring

theorem triple_cyc (a b c : V3 K) : triple a b c = triple b c a := by
  simp only [triple]; ring

theorem triple_swap (a b c : V3 K) : triple b a c = -triple a b c := by
  simp only [triple]; ring

/-- **the key identity**: the triple product of the lifted points is the planar orientation test -/
theorem triple_lift (a b p : Pt K) : triple (lift a) (lift b) (lift p) = cross a b p := by
  simp only [triple, lift, cross, oneK_eq]; ring

theorem lift_gnom (w : V3 K) (hw : w.x ≠ 0) : lift (gnom w) = V3.smul (1 / w.x) w := by
  simp only [lift, gnom, V3.smul, oneK_eq, V3.eq_iff]
  refine ⟨?_, ?_, ?_⟩ <;> field_simp

theorem smul_lift_gnom (w : V3 K) (hw : w.x ≠ 0) : V3.smul w.x (lift (gnom w)) = w := by
  simp only [lift, gnom, V3.smul, oneK_eq, V3.eq_iff]
  refine ⟨?_, ?_, ?_⟩ <;> field_simp

theorem gnom_lift (p : Pt K) : gnom (lift p) = p := by
  simp [gnom, lift]

theorem dot_comm (a b : V3 K) : dot a b = dot b a := by
  simp only [dot]; ring

/-! ### `planar_rot_3d`, `euler_rot` -/

theorem planarRot_orth (c s : K) (h : c * c + s * s = 1) (i : Fin 3) : (planarRot c s i).Orth := by
  have h' : s * s + c * c = 1 := by rw [add_comm]; exact h
  fin_cases i <;>
    (constructor <;> simp [planarRot, M3.mul, M3.transpose, M3.one, h, h', mul_comm])

theorem planarRot_det (c s : K) (h : c * c + s * s = 1) (i : Fin 3) : det (planarRot c s i) = 1 := by
  fin_cases i <;> simp [planarRot, det, triple] <;> linear_combination h

/-- every valid axis gives a matrix, every other one the error -/
theorem planarRot3d_spec (c s : K) (axis : ℕ) :
    (∀ h : axis < 3, planarRot3d c s axis = .ok (planarRot c s ⟨axis, h⟩)) ∧
    (3 ≤ axis → planarRot3d c s axis = .error .badAxis) := by
  constructor
  · intro h; simp [planarRot3d, h]
  · intro h; simp [planarRot3d, Nat.not_lt.mpr h]

/-- the composition order of the code: `P1(dec_ref) · P2(ra_ref)` -/
theorem eulerRot_eq (cr sr cd sd : K) :
    eulerRot cr sr cd sd = (planarRot cd sd 1).mul (planarRot cr sr 2) := rfl

theorem eulerRotF14_eq (cr sr cd sd : K) :
    eulerRotF14 cr sr cd sd = (planarRot cr sr 2).mul (planarRot cd sd 1) := rfl

/-- the nine entries -/
theorem eulerRot_entries (cr sr cd sd : K) :
    eulerRot cr sr cd sd = ⟨cd * cr, cd * sr, sd, -sr, cr, 0, -(sd * cr), -(sd * sr), cd⟩ := by
  rw [eulerRot_eq]
  simp [planarRot, M3.mul]

theorem eulerRot_orth (cr sr cd sd : K) (hr : cr * cr + sr * sr = 1) (hd : cd * cd + sd * sd = 1) :
    (eulerRot cr sr cd sd).Orth := by
  rw [eulerRot_eq]
  exact (planarRot_orth cd sd hd 1).mul (planarRot_orth cr sr hr 2)

theorem eulerRot_det (cr sr cd sd : K) (hr : cr * cr + sr * sr = 1) (hd : cd * cd + sd * sd = 1) :
    det (eulerRot cr sr cd sd) = 1 := by
  rw [eulerRot_eq, det_mul, planarRot_det cd sd hd, planarRot_det cr sr hr, mul_one]

/-- the reference direction goes to the tangent point `(1, 0, 0)` -/
theorem eulerRot_refdir (cr sr cd sd : K) (hr : cr * cr + sr * sr = 1) (hd : cd * cd + sd * sd = 1) :
    (eulerRot cr sr cd sd).mulVec ⟨cd * cr, cd * sr, sd⟩ = ⟨1, 0, 0⟩ := by
  rw [eulerRot_entries]
  simp only [M3.mulVec, V3.eq_iff]
  refine ⟨?_, ?_, ?_⟩
  · linear_combination (cd * cd) * hr + hd
  · ring
  · linear_combination (-(sd * cd)) * hr

/-- the first coordinate of a rotated vector is its scalar product with the reference direction -/
theorem eulerRot_x (cr sr cd sd : K) (v : V3 K) :
    ((eulerRot cr sr cd sd).mulVec v).x = dot v ⟨cd * cr, cd * sr, sd⟩ := by
  rw [eulerRot_entries]
  simp only [M3.mulVec, dot]; ring

/-! ### planar side test = great-circle side test -/

/-- for an orthogonal `r` of determinant 1: the triple product of two back-projected vertices and a
direction `v` is `xr` times the planar cross product of the vertices and the projection of `v` -/
theorem triple_back (r : M3 K) (hr : r.Orth) (hdet : det r = 1) (a b : Pt K) (v : V3 K)
    (hx : (r.mulVec v).x ≠ 0) :
    triple (r.transpose.mulVec (lift a)) (r.transpose.mulVec (lift b)) v =
      (r.mulVec v).x * cross a b (gnom (r.mulVec v)) := by
  have hv : v = r.transpose.mulVec (r.mulVec v) := (hr.transpose_mulVec v).symm
  conv_lhs => rw [hv]
  rw [triple_mulVec, det_transpose, hdet, one_mul, ← smul_lift_gnom (r.mulVec v) hx, triple_smul_right,
    triple_lift, smul_lift_gnom (r.mulVec v) hx]

/-- three back-projected vertices -/
theorem triple_back3 (r : M3 K) (hdet : det r = 1) (a b c : Pt K) :
    triple (r.transpose.mulVec (lift a)) (r.transpose.mulVec (lift b)) (r.transpose.mulVec (lift c)) =
      cross a b c := by
  rw [triple_mulVec, det_transpose, hdet, one_mul, triple_lift]

/-- a back-projected vertex lies in the open hemisphere of the tangent point: its rotated first coordinate is 1
and its gnomonic position is the planar vertex -/
theorem back_vertex_front (r : M3 K) (hr : r.Orth) (p : Pt K) :
    (r.mulVec (r.transpose.mulVec (lift p))).x = 1 ∧ gnom (r.mulVec (r.transpose.mulVec (lift p))) = p := by
  rw [hr.mulVec_transpose]
  exact ⟨by simp [lift], gnom_lift p⟩

def V3.neg (v : V3 K) : V3 K := ⟨-v.x, -v.y, -v.z⟩

/-- the great-circle side test does not distinguish an edge from its antipodal image -/
theorem triple_neg_neg (a b v : V3 K) : triple (V3.neg a) (V3.neg b) v = triple a b v := by
  simp only [triple, V3.neg]; ring

/-- the direction `v` is on the non-negative side of every edge (consecutive pair) of the vertex list -/
def SphAllLeft (v : V3 K) : List (V3 K) → Prop
  | a :: b :: rest => 0 ≤ triple a b v ∧ SphAllLeft v (b :: rest)
  | _ => True

/-- the direction `v` is strictly on the negative side of every edge (clockwise lists: the boxes) -/
def SphInsideCW (v : V3 K) : List (V3 K) → Prop
  | a :: b :: rest => triple a b v < 0 ∧ SphInsideCW v (b :: rest)
  | _ => True

/-- every consecutive triple of directions has a positive triple product (counter-clockwise seen from
outside the sphere) -/
def SphTurnsLeft : List (V3 K) → Prop
  | a :: b :: c :: rest => 0 < triple a b c ∧ SphTurnsLeft (b :: c :: rest)
  | _ => True

/-- every consecutive triple of directions has a negative triple product (clockwise seen from outside) -/
def SphTurnsRight : List (V3 K) → Prop
  | a :: b :: c :: rest => triple a b c < 0 ∧ SphTurnsRight (b :: c :: rest)
  | _ => True

theorem sphAllLeftB_iff (v : V3 K) : ∀ l : List (V3 K), sphAllLeftB v l = true ↔ SphAllLeft v l
  | [] => by simp [sphAllLeftB, SphAllLeft]
  | [_] => by simp [sphAllLeftB, SphAllLeft]
  | a :: b :: rest => by
    simp only [sphAllLeftB, SphAllLeft, Bool.and_eq_true, Bool.not_eq_true', decide_eq_false_iff_not, not_lt,
      zeroK_eq]
    rw [sphAllLeftB_iff v (b :: rest)]

theorem sphInsideCWB_iff (v : V3 K) : ∀ l : List (V3 K), sphInsideCWB v l = true ↔ SphInsideCW v l
  | [] => by simp [sphInsideCWB, SphInsideCW]
  | [_] => by simp [sphInsideCWB, SphInsideCW]
  | a :: b :: rest => by
    simp only [sphInsideCWB, SphInsideCW, Bool.and_eq_true, decide_eq_true_eq, zeroK_eq]
    rw [sphInsideCWB_iff v (b :: rest)]

theorem inHemisphereB_iff (r : M3 K) (vs : List (V3 K)) :
    inHemisphereB r vs = true ↔ ∀ v ∈ vs, 0 < (r.mulVec v).x := by
  simp [inHemisphereB, List.all_eq_true]

/-- a source in the open hemisphere `xr > 0` is on the left of all planar edges iff it is on the
non-negative side of all great circles through the back-projected vertices -/
theorem sphAllLeft_back_iff (r : M3 K) (hr : r.Orth) (hdet : det r = 1) (v : V3 K)
    (hx : 0 < (r.mulVec v).x) : ∀ poly : List (Pt K),
    SphAllLeft v (backProject r.transpose poly) ↔ AllLeft (gnom (r.mulVec v)) poly
  | [] => by simp [backProject, SphAllLeft, AllLeft]
  | [_] => by simp [backProject, SphAllLeft, AllLeft]
  | a :: b :: rest => by
    have ih := sphAllLeft_back_iff r hr hdet v hx (b :: rest)
    simp only [backProject, List.map_cons, SphAllLeft, AllLeft] at ih ⊢
    rw [ih, triple_back r hr hdet a b v hx.ne']
    constructor
    · rintro ⟨h1, h2⟩
      exact ⟨nonneg_of_mul_nonneg_right h1 hx, h2⟩
    · rintro ⟨h1, h2⟩
      exact ⟨mul_nonneg hx.le h1, h2⟩

/-- the same for the strict, clockwise test of the boxes -/
theorem sphInsideCW_back_iff (r : M3 K) (hr : r.Orth) (hdet : det r = 1) (v : V3 K)
    (hx : 0 < (r.mulVec v).x) : ∀ poly : List (Pt K),
    SphInsideCW v (backProject r.transpose poly) ↔ InsideCW (gnom (r.mulVec v)) poly
  | [] => by simp [backProject, SphInsideCW, InsideCW]
  | [_] => by simp [backProject, SphInsideCW, InsideCW]
  | a :: b :: rest => by
    have ih := sphInsideCW_back_iff r hr hdet v hx (b :: rest)
    simp only [backProject, List.map_cons, SphInsideCW, InsideCW] at ih ⊢
    rw [ih, triple_back r hr hdet a b v hx.ne']
    constructor
    · rintro ⟨h1, h2⟩
      exact ⟨by by_contra hc; exact absurd h1 (not_lt.mpr (mul_nonneg hx.le (not_lt.mp hc))), h2⟩
    · rintro ⟨h1, h2⟩
      exact ⟨mul_neg_of_pos_of_neg hx h1, h2⟩

/-- a source in the OPPOSITE open hemisphere (`xr < 0`) fails the great-circle test of every edge that its
(antipodal) projection is strictly to the left of -/
theorem triple_back_neg (r : M3 K) (hr : r.Orth) (hdet : det r = 1) (a b : Pt K) (v : V3 K)
    (hx : (r.mulVec v).x < 0) (hc : 0 < cross a b (gnom (r.mulVec v))) :
    triple (r.transpose.mulVec (lift a)) (r.transpose.mulVec (lift b)) v < 0 := by
  rw [triple_back r hr hdet a b v hx.ne]
  exact mul_neg_of_neg_of_pos hx hc

/-- orientation is carried over: strict left turns in the plane are positive triple products -/
theorem sphTurnsLeft_back (r : M3 K) (hdet : det r = 1) : ∀ poly : List (Pt K),
    SphTurnsLeft (backProject r.transpose poly) ↔ TurnsLeft poly
  | [] => by simp [backProject, SphTurnsLeft, TurnsLeft]
  | [_] => by simp [backProject, SphTurnsLeft, TurnsLeft]
  | [_, _] => by simp [backProject, SphTurnsLeft, TurnsLeft]
  | a :: b :: c :: rest => by
    have ih := sphTurnsLeft_back r hdet (b :: c :: rest)
    simp only [backProject, List.map_cons, SphTurnsLeft, TurnsLeft] at ih ⊢
    rw [ih, triple_back3 r hdet]

def TurnsRight : List (Pt K) → Prop
  | a :: b :: c :: rest => cross a b c < 0 ∧ TurnsRight (b :: c :: rest)
  | _ => True

theorem sphTurnsRight_back (r : M3 K) (hdet : det r = 1) : ∀ poly : List (Pt K),
    SphTurnsRight (backProject r.transpose poly) ↔ TurnsRight poly
  | [] => by simp [backProject, SphTurnsRight, TurnsRight]
  | [_] => by simp [backProject, SphTurnsRight, TurnsRight]
  | [_, _] => by simp [backProject, SphTurnsRight, TurnsRight]
  | a :: b :: c :: rest => by
    have ih := sphTurnsRight_back r hdet (b :: c :: rest)
    simp only [backProject, List.map_cons, SphTurnsRight, TurnsRight] at ih ⊢
    rw [ih, triple_back3 r hdet]

theorem backProject_length (ri : M3 K) (poly : List (Pt K)) : (backProject ri poly).length = poly.length := by
  simp [backProject]

theorem backProject_head (ri : M3 K) (poly : List (Pt K)) :
    (backProject ri poly).head? = poly.head?.map fun p => ri.mulVec (lift p) := by
  simp [backProject]

theorem backProject_getLast (ri : M3 K) (poly : List (Pt K)) :
    (backProject ri poly).getLast? = poly.getLast?.map fun p => ri.mulVec (lift p) := by
  simp [backProject]

/-- `ra[-1] = ra[0]` changes nothing on a closed list -/
theorem forceClosed_of_closed {α : Type} (l : List α) (h : l.head? = l.getLast?) : forceClosed l = l := by
  cases l with
  | nil => rfl
  | cons a t =>
    simp only [forceClosed]
    have hl : (a :: t).getLast? = some a := by rw [← h]; rfl
    have hne : a :: t ≠ [] := by simp
    have := List.dropLast_append_getLast hne
    rw [List.getLast?_eq_some_getLast hne] at hl
    injection hl with hl
    rw [hl] at this
    exact this

theorem forceClosed_closed {α : Type} (l : List α) (hne : l ≠ []) :
    (forceClosed l).head? = l.head? ∧ (forceClosed l).getLast? = l.head? ∧
      (forceClosed l).length = l.length := by
  cases l with
  | nil => exact absurd rfl hne
  | cons a t =>
    simp only [forceClosed]
    refine ⟨?_, ?_, ?_⟩
    · cases t with
      | nil => simp
      | cons b t' => simp [List.dropLast]
    · simp
    · simp

/-! ### the planar branches -/

theorem refFootprint_long [HasSqrt K] (tol : K) (h : List (Pt K)) (hl : 4 ≤ h.length) :
    refFootprint tol h = h := by
  match h, hl with
  | _ :: _ :: _ :: _ :: _, _ => rfl

/-- for a non-negative separation and a raw hull whose consecutive vertices are farther apart than the
separation, `convex_hull(…, min_separation)` is the raw hull -/
theorem convexHull_separated (sep : K) (hsep : 0 ≤ sep) (pts : List (Pt K))
    (hfar : Separated sep (hullRaw pts)) : convexHull (some sep) pts = .ok (hullRaw pts) := by
  unfold convexHull
  simp only [zeroNat_cast]
  rw [if_neg (not_lt.mpr hsep)]
  cases hh : hullRaw pts with
  | nil => rfl
  | cons v0 rest =>
    cases rest with
    | nil => rfl
    | cons v1 rest' =>
      rw [hh] at hfar
      show Except.ok (mergeSep sep (v0 :: v1 :: rest')) = _
      rw [mergeSep_id sep v0 (v1 :: rest') hfar]

/-- a point closer than `tol` (in both coordinates) to the centre of the square is strictly inside it -/
theorem smallBox1_inside_near (tol : K) (p q : Pt K) (h1 : |q.1 - p.1| < tol) (h2 : |q.2 - p.2| < tol) :
    InsideCW q (smallBox1 tol p) := by
  rw [abs_lt] at h1 h2
  simp only [smallBox1, InsideCW, cross]
  refine ⟨?_, ?_, ?_, ?_, trivial⟩ <;> nlinarith [h1.1, h1.2, h2.1, h2.2]

/-- two (or collinear) points whose extremes are within the separation: the loop leaves `[m, m]` -/
theorem convexHull_close_pair (sep : K) (hsep : 0 ≤ sep) (pts : List (Pt K)) (m M : Pt K)
    (hraw : hullRaw pts = [m, M, m]) (hc : closeTo sep M m = true) :
    convexHull (some sep) pts = .ok [m, m] := by
  unfold convexHull
  simp only [zeroNat_cast]
  rw [if_neg (not_lt.mpr hsep), hraw]
  show Except.ok (mergeSep sep [m, M, m]) = _
  simp [mergeSep, greedyKeep, greedyStep, hc, dropClose]

/-- a point of a collinear set between the lexicographic minimum `m` and maximum `M` is a convex
combination of the two -/
theorem collinear_between (m M q : Pt K) (hmM : lexlt m M) (hc : cross m M q = 0)
    (h1 : q = m ∨ lexlt m q) (h2 : q = M ∨ lexlt q M) :
    ∃ t : K, 0 ≤ t ∧ t ≤ 1 ∧ q = ((1 - t) * m.1 + t * M.1, (1 - t) * m.2 + t * M.2) := by
  obtain ⟨mx, my⟩ := m
  obtain ⟨Mx, My⟩ := M
  obtain ⟨qx, qy⟩ := q
  simp only [cross, lexlt, Prod.mk.injEq] at *
  rcases hmM with hlt | ⟨heq, hlt⟩
  · -- distinct abscissae
    have hd : 0 < Mx - mx := sub_pos.mpr hlt
    refine ⟨(qx - mx) / (Mx - mx), ?_, ?_, ?_, ?_⟩
    · apply div_nonneg _ hd.le
      rcases h1 with ⟨e, _⟩ | h | ⟨e, _⟩
      · rw [e]; simp
      · linarith
      · rw [e]; simp
    · rw [div_le_one hd]
      rcases h2 with ⟨e, _⟩ | h | ⟨e, _⟩
      · rw [e]
      · linarith
      · rw [e]
    · field_simp; ring
    · have : (qy - my) * (Mx - mx) = (My - my) * (qx - mx) := by linear_combination hc
      field_simp
      linear_combination this
  · -- a vertical set: all abscissae equal
    subst heq
    have hd : 0 < My - my := sub_pos.mpr hlt
    have hqx : qx = mx := by
      rcases h1 with ⟨e, _⟩ | h | ⟨e, _⟩
      · exact e
      · rcases h2 with ⟨e, _⟩ | h' | ⟨e, _⟩
        · exact e
        · exact absurd (lt_trans h h') (lt_irrefl _)
        · exact e
      · exact e.symm
    subst hqx
    refine ⟨(qy - my) / (My - my), ?_, ?_, ?_, ?_⟩
    · apply div_nonneg _ hd.le
      rcases h1 with ⟨_, e⟩ | h | ⟨_, h⟩
      · rw [e]; simp
      · exact absurd h (lt_irrefl _)
      · linarith
    · rw [div_le_one hd]
      rcases h2 with ⟨_, e⟩ | h | ⟨_, h⟩
      · rw [e]
      · exact absurd h (lt_irrefl _)
      · linarith
    · ring
    · field_simp; ring

/-! ### `inv(euler_rot)` -/

theorem toM_toMat3_mul (a b : M3 K) : toM (toMat3 a) * toM (toMat3 b) = toM (toMat3 (a.mul b)) := by
  ext i j
  fin_cases i <;> fin_cases j <;>
    simp [Matrix.mul_apply, Fin.sum_univ_three, toM, toMat3, Mat.get, M3.mul]

theorem toM_toMat3_one : toM (toMat3 (M3.one : M3 K)) = 1 := by
  ext i j
  fin_cases i <;> fin_cases j <;> simp [toM, toMat3, Mat.get, M3.one]

theorem ofMat3_toMat3 (a : M3 K) : ofMat3 (toMat3 a) = a := by
  simp [ofMat3, toMat3, Mat.get]

theorem ofMat3_eq_of_toM (x : Mat 3 K) (a : M3 K) (h : toM x = toM (toMat3 a)) : ofMat3 x = a := by
  have e : ∀ i j, x.get i j = (toMat3 a).get i j := fun i j => congrFun (congrFun h i) j
  simp only [ofMat3, e]
  exact ofMat3_toMat3 a

theorem det_toM (a : M3 K) : (toM (toMat3 a)).det = det a := by
  rw [Matrix.det_fin_three]
  simp [toM, toMat3, Mat.get, det, triple]
  ring

/-- whatever `inv` returns on an orthogonal matrix is its transpose -/
theorem invEulerRot_eq_transpose (eps : K) (heps : 0 < eps) (r x : M3 K) (hr : r.Orth)
    (h : invEulerRot eps r = .ok x) : x = r.transpose := by
  unfold invEulerRot at h
  cases hi : invSq eps (toMat3 r) with
  | error e => rw [hi] at h; cases h
  | ok y =>
    rw [hi] at h
    injection h with h
    have hy := (invSq_correct eps heps (toMat3 r) y hi).2
    have ht : toM (toMat3 r.transpose) * toM (toMat3 r) = 1 := by
      rw [toM_toMat3_mul, hr.2, toM_toMat3_one]
    have : toM y = toM (toMat3 r.transpose) := by
      calc toM y = 1 * toM y := by rw [one_mul]
        _ = (toM (toMat3 r.transpose) * toM (toMat3 r)) * toM y := by rw [ht]
        _ = toM (toMat3 r.transpose) * (toM (toMat3 r) * toM y) := by rw [Matrix.mul_assoc]
        _ = toM (toMat3 r.transpose) := by rw [hy, mul_one]
    rw [← h]
    exact ofMat3_eq_of_toM y _ this

/-- … and it does return whenever the singularity threshold is small enough -/
theorem invEulerRot_total (r : M3 K) (hdet : det r = 1) :
    ∃ eps0 : K, 0 < eps0 ∧ ∀ eps : K, eps ≤ eps0 → ∃ x, invEulerRot eps r = .ok x := by
  have hd : (toM (toMat3 r)).det ≠ 0 := by rw [det_toM, hdet]; exact one_ne_zero
  refine ⟨invEps0 (toMat3 r), invEps0_pos _ hd, fun eps hle => ?_⟩
  obtain ⟨y, hy⟩ := invSq_total (toMat3 r) eps hle
  exact ⟨ofMat3 y, by unfold invEulerRot; rw [hy]⟩

/-! ### the mean vector -/

theorem foldl_add_eq_sum (f : V3 K → K) (l : List (V3 K)) (z : K) :
    l.foldl (fun acc v => acc + f v) z = z + (l.map f).sum := by
  induction l generalizing z with
  | nil => simp
  | cons a t ih => simp only [List.foldl_cons, List.map_cons, List.sum_cons]; rw [ih]; ring

theorem meanVec_eq (vs : List (V3 K)) :
    meanVec vs = ⟨(vs.map (·.x)).sum / (vs.length : K), (vs.map (·.y)).sum / (vs.length : K),
      (vs.map (·.z)).sum / (vs.length : K)⟩ := by
  simp only [meanVec, foldl_add_eq_sum, zeroK_eq, zero_add]

/-- the scalar products of the sources with their mean vector add up to `n ‖mean‖²` -/
theorem sum_dot_mean (vs : List (V3 K)) (hne : vs ≠ []) :
    (vs.map fun v => dot v (meanVec vs)).sum = (vs.length : K) * dot (meanVec vs) (meanVec vs) := by
  have hn : (vs.length : K) ≠ 0 := by
    have : 0 < vs.length := List.length_pos_iff.mpr hne
    exact_mod_cast this.ne'
  have lin : ∀ (l : List (V3 K)) (m : V3 K),
      (l.map fun v => dot v m).sum = (l.map (·.x)).sum * m.x + (l.map (·.y)).sum * m.y + (l.map (·.z)).sum * m.z := by
    intro l m
    induction l with
    | nil => simp
    | cons a t ih => simp only [List.map_cons, List.sum_cons]; rw [ih]; simp only [dot]; ring
  rw [lin, meanVec_eq]
  simp only [dot]
  field_simp

/-- hence some source has a positive scalar product with the mean vector, unless the mean vanishes -/
theorem exists_dot_mean_pos (vs : List (V3 K)) (hne : vs ≠ []) (hm : meanVec vs ≠ ⟨0, 0, 0⟩) :
    ∃ v ∈ vs, 0 < dot v (meanVec vs) := by
  by_contra hcon
  push Not at hcon
  have hle' : ∀ (l : List (V3 K)) (m : V3 K), (∀ v ∈ l, dot v m ≤ 0) → (l.map fun v => dot v m).sum ≤ 0 := by
    intro l m
    induction l with
    | nil => intro _; simp
    | cons a t ih =>
      intro h
      simp only [List.map_cons, List.sum_cons]
      have h1 := h a (by simp)
      have h2 := ih (fun v hv => h v (List.mem_cons_of_mem _ hv))
      linarith
  have hle := hle' vs (meanVec vs) hcon
  rw [sum_dot_mean vs hne] at hle
  have hn : (0 : K) < (vs.length : K) := by
    have : 0 < vs.length := List.length_pos_iff.mpr hne
    exact_mod_cast this
  have hpos : 0 < dot (meanVec vs) (meanVec vs) := by
    generalize meanVec vs = m at hm ⊢
    have : m.x ≠ 0 ∨ m.y ≠ 0 ∨ m.z ≠ 0 := by
      by_contra hc
      push Not at hc
      apply hm
      rw [V3.eq_iff]; exact hc
    simp only [dot]
    rcases this with h | h | h
    · have := mul_self_pos.mpr h; nlinarith [mul_self_nonneg m.y, mul_self_nonneg m.z]
    · have := mul_self_pos.mpr h; nlinarith [mul_self_nonneg m.x, mul_self_nonneg m.z]
    · have := mul_self_pos.mpr h; nlinarith [mul_self_nonneg m.x, mul_self_nonneg m.y]
  exact absurd (mul_pos hn hpos) (not_lt.mpr hle)

end field

/-! ### with trigonometry: the rotation built from `(ra_ref, dec_ref) = c2s(mean)` -/
section real

theorem eulerRotOfDir_orth (d : V2 ℝ) : (eulerRotOfDir d).Orth :=
  eulerRot_orth _ _ _ _ (cosdeg_sq_add_sindeg_sq _) (cosdeg_sq_add_sindeg_sq _)

theorem eulerRotOfDir_det (d : V2 ℝ) : det (eulerRotOfDir d) = 1 :=
  eulerRot_det _ _ _ _ (cosdeg_sq_add_sindeg_sq _) (cosdeg_sq_add_sindeg_sq _)

/-- the unit vector of `(ra, dec)` goes to the tangent point -/
theorem eulerRotOfDir_s2c (ra dec : ℝ) : (eulerRotOfDir ⟨ra, dec⟩).mulVec (s2c ra dec) = ⟨1, 0, 0⟩ :=
  eulerRot_refdir _ _ _ _ (cosdeg_sq_add_sindeg_sq _) (cosdeg_sq_add_sindeg_sq _)

theorem V3.smul_smul (a b : ℝ) (v : V3 ℝ) : V3.smul a (V3.smul b v) = V3.smul (a * b) v := by
  simp only [V3.smul, V3.eq_iff]
  refine ⟨?_, ?_, ?_⟩ <;> ring

/-- the mean vector goes to the positive `x` axis: `euler_rot · mean = (‖mean‖, 0, 0)` -/
theorem eulerRotOfDir_mean (m : V3 ℝ) (hm : m ≠ ⟨0, 0, 0⟩) :
    (eulerRotOfDir (c2s m)).mulVec m = ⟨m.norm, 0, 0⟩ := by
  have hn := V3.norm_pos hm
  have h1 := eulerRotOfDir_s2c (c2s m).x (c2s m).y
  rw [s2c_c2s m hm, M3.mulVec_smul] at h1
  have e : (⟨(c2s m).x, (c2s m).y⟩ : V2 ℝ) = c2s m := rfl
  rw [e] at h1
  generalize (eulerRotOfDir (c2s m)).mulVec m = w at h1 ⊢
  simp only [V3.smul, V3.eq_iff] at h1 ⊢
  obtain ⟨hx, hy, hz⟩ := h1
  have hne := hn.ne'
  refine ⟨?_, ?_, ?_⟩
  · field_simp at hx; linarith
  · field_simp at hy; linarith
  · field_simp at hz; linarith

/-- `xr = v · mean / ‖mean‖`: the first rotated coordinate of a source is the cosine of its distance from
the mean direction (times `‖v‖`) -/
theorem xr_eq_dot_mean (m v : V3 ℝ) (hm : m ≠ ⟨0, 0, 0⟩) :
    ((eulerRotOfDir (c2s m)).mulVec v).x = dot v m / m.norm := by
  have hn := V3.norm_pos hm
  have hs := s2c_c2s m hm
  have hx := eulerRot_x (HasTrig.cosdeg (c2s m).x) (HasTrig.sindeg (c2s m).x) (HasTrig.cosdeg (c2s m).y)
    (HasTrig.sindeg (c2s m).y) v
  have e : eulerRotOfDir (c2s m) = eulerRot (HasTrig.cosdeg (c2s m).x) (HasTrig.sindeg (c2s m).x)
      (HasTrig.cosdeg (c2s m).y) (HasTrig.sindeg (c2s m).y) := rfl
  rw [e, hx]
  have : (⟨HasTrig.cosdeg (c2s m).y * HasTrig.cosdeg (c2s m).x, HasTrig.cosdeg (c2s m).y * HasTrig.sindeg (c2s m).x,
      HasTrig.sindeg (c2s m).y⟩ : V3 ℝ) = V3.smul (1 / m.norm) m := by
    rw [← hs]; rfl
  rw [this]
  simp only [dot, V3.smul]
  field_simp

/-- a source is in the open hemisphere of the tangent point iff it is within 90° of the mean direction -/
theorem hemisphere_iff (m v : V3 ℝ) (hm : m ≠ ⟨0, 0, 0⟩) :
    0 < ((eulerRotOfDir (c2s m)).mulVec v).x ↔ 0 < dot v m := by
  rw [xr_eq_dot_mean m v hm]
  have hn := V3.norm_pos hm
  constructor
  · intro h
    have := mul_pos h hn
    rwa [div_mul_cancel₀ _ hn.ne'] at this
  · intro h; exact div_pos h hn

end real

end Sph
end TW
