import Proofs.C16Sort

/-!
Helper lemmas for C16: the predicates "strict left turns" / "on the left of every edge" in
list order (the existing `Convex` / `EdgesLeft` speak about the reversed stack), how they behave
under append, reversal and the reflection `neg`.
-/
open TW
set_option linter.unusedSectionVars false

namespace TW
variable {K : Type} [Field K] [LinearOrder K] [IsStrictOrderedRing K]

/-- every consecutive triple, in list order, is a strict left turn -/
def TurnsLeft : List (Pt K) → Prop
  | a :: b :: c :: rest => 0 < cross a b c ∧ TurnsLeft (b :: c :: rest)
  | _ => True

/-- `q` is on or to the left of every edge (consecutive pair, in list order) -/
def AllLeft (q : Pt K) : List (Pt K) → Prop
  | a :: b :: rest => 0 ≤ cross a b q ∧ AllLeft q (b :: rest)
  | _ => True

theorem TurnsLeft_snoc (c : Pt K) : ∀ (X : List (Pt K)) (a b : Pt K),
    TurnsLeft (X ++ [a, b, c]) ↔ TurnsLeft (X ++ [a, b]) ∧ 0 < cross a b c := by
  intro X
  induction X with
  | nil => intro a b; simp [TurnsLeft]
  | cons x X ih =>
    intro a b
    cases X with
    | nil => simp only [List.cons_append, List.nil_append, TurnsLeft]; tauto
    | cons y X' =>
      cases X' with
      | nil =>
        have := ih a b
        simp only [List.cons_append, List.nil_append, TurnsLeft] at this ⊢
        tauto
      | cons z X'' =>
        have := ih a b
        simp only [List.cons_append, TurnsLeft] at this ⊢
        tauto

theorem AllLeft_snoc (q b : Pt K) : ∀ (X : List (Pt K)) (a : Pt K),
    AllLeft q (X ++ [a, b]) ↔ AllLeft q (X ++ [a]) ∧ 0 ≤ cross a b q := by
  intro X
  induction X with
  | nil => intro a; simp [AllLeft]
  | cons x X ih =>
    intro a
    cases X with
    | nil => simp only [List.cons_append, List.nil_append, AllLeft]; tauto
    | cons y X' =>
      have := ih a
      simp only [List.cons_append, AllLeft] at this ⊢
      tauto

theorem TurnsLeft_suffix : ∀ (pre l : List (Pt K)), TurnsLeft (pre ++ l) → TurnsLeft l := by
  intro pre
  induction pre with
  | nil => intro l h; exact h
  | cons x pre ih =>
    intro l h
    apply ih
    cases hp : pre ++ l with
    | nil => trivial
    | cons y t =>
      cases t with
      | nil => trivial
      | cons z t' =>
        rw [List.cons_append, hp] at h
        exact h.2

theorem AllLeft_suffix (q : Pt K) : ∀ (pre l : List (Pt K)), AllLeft q (pre ++ l) → AllLeft q l := by
  intro pre
  induction pre with
  | nil => intro l h; exact h
  | cons x pre ih =>
    intro l h
    apply ih
    cases hp : pre ++ l with
    | nil => trivial
    | cons y t =>
      rw [List.cons_append, hp] at h
      exact h.2

/-- glue two edge lists sharing the vertex `x` -/
theorem AllLeft_glue (q x : Pt K) : ∀ (A B : List (Pt K)),
    AllLeft q (A ++ [x]) → AllLeft q (x :: B) → AllLeft q (A ++ x :: B) := by
  intro A
  induction A with
  | nil => intro B _ h; exact h
  | cons y A ih =>
    intro B h1 h2
    cases A with
    | nil =>
      simp only [List.cons_append, List.nil_append, AllLeft] at h1 ⊢
      exact ⟨h1.1, h2⟩
    | cons z A' =>
      simp only [List.cons_append, AllLeft] at h1 ⊢
      exact ⟨h1.1, ih B h1.2 h2⟩

/-- glue two turning lists at the shared vertex `x` with predecessor `a` and successor `b` -/
theorem TurnsLeft_glue (a x b : Pt K) : ∀ (A B : List (Pt K)),
    TurnsLeft (A ++ [a, x]) → TurnsLeft (x :: b :: B) → 0 < cross a x b →
    TurnsLeft (A ++ a :: x :: b :: B) := by
  intro A
  induction A with
  | nil => intro B _ h2 hc; exact ⟨hc, h2⟩
  | cons y A ih =>
    intro B h1 h2 hc
    cases A with
    | nil =>
      simp only [List.cons_append, List.nil_append, TurnsLeft] at h1 ⊢
      exact ⟨h1.1, hc, h2⟩
    | cons z A' =>
      cases A' with
      | nil =>
        have := ih B (by simp only [List.cons_append, List.nil_append, TurnsLeft] at h1 ⊢; exact h1.2) h2 hc
        simp only [List.cons_append, List.nil_append, TurnsLeft] at h1 this ⊢
        exact ⟨h1.1, this⟩
      | cons w A'' =>
        have := ih B (by simp only [List.cons_append, TurnsLeft] at h1 ⊢; exact h1.2) h2 hc
        simp only [List.cons_append, TurnsLeft] at h1 this ⊢
        exact ⟨h1.1, this⟩

/-! ### reversal: the stack predicates of `HullChain` -/

theorem turnsLeft_reverse : ∀ st : List (Pt K), Convex st → TurnsLeft st.reverse := by
  intro st
  induction st with
  | nil => intro _; trivial
  | cons c tl ih =>
    intro h
    match tl, ih, h with
    | [], _, _ => trivial
    | [b], _, _ => trivial
    | b :: a :: rest, ih, h =>
      have h1 : TurnsLeft (b :: a :: rest).reverse := ih h.2
      have e1 : (b :: a :: rest).reverse = rest.reverse ++ [a, b] := by simp
      have e2 : (c :: b :: a :: rest).reverse = rest.reverse ++ [a, b, c] := by simp
      rw [e2, TurnsLeft_snoc]
      rw [e1] at h1
      exact ⟨h1, h.1⟩

theorem allLeft_reverse (q : Pt K) : ∀ st : List (Pt K), EdgesLeft q st → AllLeft q st.reverse := by
  intro st
  induction st with
  | nil => intro _; trivial
  | cons b tl ih =>
    intro h
    match tl, ih, h with
    | [], _, _ => trivial
    | a :: rest, ih, h =>
      have h1 : AllLeft q (a :: rest).reverse := ih h.2
      have e1 : (a :: rest).reverse = rest.reverse ++ [a] := by simp
      have e2 : (b :: a :: rest).reverse = rest.reverse ++ [a, b] := by simp
      rw [e2, AllLeft_snoc]
      rw [e1] at h1
      exact ⟨h1, h.1⟩

/-! ### the reflection through the origin -/

theorem neg_neg_pt (p : Pt K) : neg (neg p) = p := by
  simp [neg]

theorem neg_inj_pt {p q : Pt K} (h : neg p = neg q) : p = q := by
  have := congrArg neg h
  rwa [neg_neg_pt, neg_neg_pt] at this

theorem TurnsLeft_neg : ∀ l : List (Pt K), TurnsLeft (l.map neg) ↔ TurnsLeft l := by
  intro l
  induction l with
  | nil => exact Iff.rfl
  | cons a tl ih =>
    match tl, ih with
    | [], _ => exact Iff.rfl
    | [b], _ => exact Iff.rfl
    | b :: c :: rest, ih =>
      simp only [List.map_cons] at ih ⊢
      show (0 < cross (neg a) (neg b) (neg c) ∧ TurnsLeft (neg b :: neg c :: rest.map neg)) ↔
           (0 < cross a b c ∧ TurnsLeft (b :: c :: rest))
      rw [cross_neg, ih]

theorem AllLeft_neg (q : Pt K) : ∀ l : List (Pt K), AllLeft (neg q) (l.map neg) ↔ AllLeft q l := by
  intro l
  induction l with
  | nil => exact Iff.rfl
  | cons a tl ih =>
    match tl, ih with
    | [], _ => exact Iff.rfl
    | b :: rest, ih =>
      simp only [List.map_cons] at ih ⊢
      show (0 ≤ cross (neg a) (neg b) (neg q) ∧ AllLeft (neg q) (neg b :: rest.map neg)) ↔
           (0 ≤ cross a b q ∧ AllLeft q (b :: rest))
      rw [cross_neg, ih]

theorem chain_neg (l : List (Pt K)) : chain (l.map neg) = (chain l).map neg := by
  unfold chain
  have := foldl_push_neg l ([] : List (Pt K))
  simp only [List.map_nil] at this
  rw [this, List.map_reverse]

end TW
