import Proofs.HullGeom

open TW
set_option linter.unusedSectionVars false

namespace TW
variable {K : Type} [Field K] [LinearOrder K] [IsStrictOrderedRing K]

/-- every consecutive triple of the (reversed) stack is a strict left turn -/
def Convex : List (Pt K) → Prop
  | c :: b :: a :: rest => 0 < cross a b c ∧ Convex (b :: a :: rest)
  | _ => True

/-- `q` is on or to the left of every edge of the (reversed) stack -/
def EdgesLeft (q : Pt K) : List (Pt K) → Prop
  | b :: a :: rest => 0 ≤ cross a b q ∧ EdgesLeft q (a :: rest)
  | _ => True

@[simp] theorem zeroNat_cast : ((0 : Nat) : K) = 0 := Nat.cast_zero

theorem popWhile_cons_cons (p b a : Pt K) (rest : List (Pt K)) :
    popWhile p (b :: a :: rest) =
      if (0 : K) < cross a b p then b :: a :: rest else popWhile p (a :: rest) := by
  rw [popWhile]; simp

theorem popWhile_single (p a : Pt K) : popWhile p [a] = [a] := by
  rw [popWhile]; intro b a' rest h; cases h

theorem popWhile_nil (p : Pt K) : popWhile p ([] : List (Pt K)) = [] := by
  rw [popWhile]; intro b a' rest h; cases h

/-- what `popWhile` returns: a suffix whose top edge sees `p` strictly on its left, together
with the vertex popped last (the former successor of the new top), if anything was popped -/
theorem popWhile_spec (p : Pt K) : ∀ st : List (Pt K),
    (∃ pre, st = pre ++ popWhile p st) ∧
    (st ≠ [] → popWhile p st ≠ []) ∧
    (∀ b a rest, popWhile p st = b :: a :: rest → 0 < cross a b p) ∧
    (popWhile p st = st ∨
      ∃ pre c t rest, st = pre ++ c :: t :: rest ∧ popWhile p st = t :: rest ∧ ¬ 0 < cross t c p) := by
  intro st
  induction st with
  | nil => simp [popWhile_nil]
  | cons b tl ih =>
    cases tl with
    | nil => simp [popWhile_single]
    | cons a rest =>
      rw [popWhile_cons_cons]
      by_cases hc : (0 : K) < cross a b p
      · rw [if_pos hc]
        refine ⟨⟨[], rfl⟩, fun _ => by simp, ?_, Or.inl rfl⟩
        intro b' a' rest' h
        injection h with h1 h2
        injection h2 with h2 h3
        subst h1; subst h2
        exact hc
      · rw [if_neg hc]
        obtain ⟨⟨pre, hpre⟩, hne, htop, hpop⟩ := ih
        refine ⟨⟨b :: pre, by rw [List.cons_append, ← hpre]⟩, fun _ => hne (by simp), htop, Or.inr ?_⟩
        rcases hpop with heq | ⟨pre', c, t, rest', hst, hr, hcr⟩
        · exact ⟨[], b, a, rest, rfl, heq, hc⟩
        · exact ⟨b :: pre', c, t, rest', by rw [List.cons_append, ← hst], hr, hcr⟩

theorem Convex_suffix : ∀ (pre st : List (Pt K)), Convex (pre ++ st) → Convex st := by
  intro pre
  induction pre with
  | nil => intro st h; exact h
  | cons x pre ih =>
    intro st h
    apply ih
    cases hps : pre ++ st with
    | nil => trivial
    | cons y l =>
      cases l with
      | nil => trivial
      | cons z l' =>
        rw [List.cons_append, hps] at h
        exact h.2

theorem EdgesLeft_suffix (q : Pt K) : ∀ (pre st : List (Pt K)), EdgesLeft q (pre ++ st) → EdgesLeft q st := by
  intro pre
  induction pre with
  | nil => intro st h; exact h
  | cons x pre ih =>
    intro st h
    apply ih
    cases hps : pre ++ st with
    | nil => trivial
    | cons y l =>
      rw [List.cons_append, hps] at h
      exact h.2

theorem EdgesLeft_mid (q : Pt K) : ∀ (pre : List (Pt K)) (c t : Pt K) (rest : List (Pt K)),
    EdgesLeft q (pre ++ c :: t :: rest) → 0 ≤ cross t c q := by
  intro pre c t rest h
  have := EdgesLeft_suffix q pre (c :: t :: rest) h
  exact this.1

end TW
