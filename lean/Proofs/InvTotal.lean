import Proofs.InvCorrect
import Mathlib.LinearAlgebra.Matrix.Determinant.Basic
import Mathlib.LinearAlgebra.Matrix.Permutation

/-!
Totality of the model of `linalg.inv` on regular input (helper lemmas for C17 `inv_total`).

* `fwdStep eps st k` depends on `eps` only through the test `absK pv < eps`: `fwdStep0` is the
  same computation without the test (`fwdStep_eq`), so the states and pivots of a successful
  forward phase do not depend on `eps` (`foldlM_fwdStep_ok`).
* `argmaxAbs` returns a position whose entry dominates the trailing block (`argmaxAbs_max`).
* Along the eps-free run on an invertible `A` the accumulated row-operation matrix `iv` stays
  invertible (`det_iv_step`), hence the trailing block is never identically zero and every
  pivot is non-zero (`pivot_ne_zero_of_det`, `pivs_pos`).
* `eps0` = the minimum of the pivot magnitudes (`minList`).
-/
open TW Matrix
set_option linter.unusedSectionVars false

namespace TW
variable {K : Type} [Field K] [LinearOrder K] [IsStrictOrderedRing K] {n : ℕ}

/-! ### the eps-free step -/

/-- the pivot selected at iteration `k` -/
def pivotOf (st : InvSt n K) (k : Fin n) : K :=
  st.m.get (argmaxAbs st.m k).1 (argmaxAbs st.m k).2

/-- `fwdStep` without the singularity test -/
def fwdStep0 (st : InvSt n K) (k : Fin n) : InvSt n K :=
  let p := argmaxAbs st.m k
  let pv := st.m.get p.1 p.2
  let m1 := colSwap k p.2 (rowSwap k p.1 st.m)
  let iv1 := colSwap k p.2 (rowSwap k p.1 st.iv)
  let qt1 := colSwap k p.2 st.qt
  let m2 := scaleRowFrom k pv m1
  let iv2 := scaleRow k pv iv1
  ⟨elimBelow k m2, elimBelowInv k m2 iv2, qt1⟩

theorem fwdStep_eq (eps : K) (st : InvSt n K) (k : Fin n) :
    fwdStep eps st k =
      if absK (pivotOf st k) < eps then .error .singular else .ok (fwdStep0 st k) := rfl

/-- `eps` enters a step only through the test on the pivot -/
theorem fwdStep_ok_iff (eps : K) (st st' : InvSt n K) (k : Fin n) :
    fwdStep eps st k = .ok st' ↔ st' = fwdStep0 st k ∧ ¬ absK (pivotOf st k) < eps := by
  rw [fwdStep_eq]
  split
  · next h => constructor
              · intro e; cases e
              · intro e; exact absurd h e.2
  · next h => constructor
              · intro e; injection e with e; exact ⟨e.symm, h⟩
              · intro e; rw [e.1]

/-- magnitudes of the pivots of the eps-free run over the index list `l` from state `st` -/
def pivs : List (Fin n) → InvSt n K → List K
  | [], _ => []
  | k :: l, st => absK (pivotOf st k) :: pivs l (fwdStep0 st k)

/-- if no pivot magnitude is below `eps`, the forward phase succeeds, and its result is the
eps-free run -/
theorem foldlM_fwdStep_ok (eps : K) :
    ∀ (l : List (Fin n)) (st : InvSt n K), (∀ p ∈ pivs l st, ¬ p < eps) →
      l.foldlM (fwdStep eps) st = .ok (l.foldl fwdStep0 st) := by
  intro l
  induction l with
  | nil => intro st _; rfl
  | cons k l ih =>
    intro st h
    have h1 : ¬ absK (pivotOf st k) < eps := h _ (by simp [pivs])
    rw [List.foldlM_cons, fwdStep_eq, if_neg h1]
    exact ih _ (fun p hp => h p (by simp [pivs, hp]))

/-! ### `argmaxAbs` dominates the trailing block -/

theorem mem_blockIdx_of_le {k : ℕ} (i j : Fin n) (hi : k ≤ i.val) (hj : k ≤ j.val) :
    (i, j) ∈ blockIdx n k := by
  simp only [blockIdx, List.mem_flatMap, List.mem_filterMap]
  exact ⟨i, List.mem_finRange i, j, List.mem_finRange j, by simp [hi, hj]⟩

theorem foldl_argmax_ge (m : Mat n K) :
    ∀ (l : List (Fin n × Fin n)) (b : Fin n × Fin n),
      let r := l.foldl
        (fun best p => if absK (m.get best.1 best.2) < absK (m.get p.1 p.2) then p else best) b
      absK (m.get b.1 b.2) ≤ absK (m.get r.1 r.2) ∧
        ∀ p ∈ l, absK (m.get p.1 p.2) ≤ absK (m.get r.1 r.2) := by
  intro l
  induction l with
  | nil => intro b; simp
  | cons a l ih =>
    intro b
    simp only [List.foldl_cons]
    obtain ⟨h1, h2⟩ := ih (if absK (m.get b.1 b.2) < absK (m.get a.1 a.2) then a else b)
    have hb : absK (m.get b.1 b.2) ≤
        absK (m.get (if absK (m.get b.1 b.2) < absK (m.get a.1 a.2) then a else b).1
          (if absK (m.get b.1 b.2) < absK (m.get a.1 a.2) then a else b).2) := by
      split
      · next h => exact le_of_lt h
      · exact le_refl _
    have ha : absK (m.get a.1 a.2) ≤
        absK (m.get (if absK (m.get b.1 b.2) < absK (m.get a.1 a.2) then a else b).1
          (if absK (m.get b.1 b.2) < absK (m.get a.1 a.2) then a else b).2) := by
      split
      · exact le_refl _
      · next h => exact not_lt.1 h
    refine ⟨le_trans hb h1, ?_⟩
    intro p hp
    rcases List.mem_cons.1 hp with e | e
    · rw [e]; exact le_trans ha h1
    · exact h2 p e

/-- the entry selected by `argmaxAbs` is at least as large in magnitude as every entry of the
trailing block `m[k:, k:]` -/
theorem argmaxAbs_max (m : Mat n K) (k i j : Fin n) (hi : k.val ≤ i.val) (hj : k.val ≤ j.val) :
    absK (m.get i j) ≤ absK (m.get (argmaxAbs m k).1 (argmaxAbs m k).2) :=
  (foldl_argmax_ge m (blockIdx n k.val) (k, k)).2 (i, j) (mem_blockIdx_of_le i j hi hj)

/-! ### determinants of the row/column operations on `iv` -/

theorem sign_cast_ne_zero (σ : Equiv.Perm (Fin n)) : (((Equiv.Perm.sign σ : ℤˣ) : ℤ) : K) ≠ 0 := by
  rcases Int.units_eq_one_or (Equiv.Perm.sign σ) with h | h <;> simp [h]

theorem det_rowSwap_ne (a b : Fin n) (m : Mat n K) (h : (toM m).det ≠ 0) :
    (toM (rowSwap a b m)).det ≠ 0 := by
  rw [toM_rowSwap, Matrix.det_permute]
  exact mul_ne_zero (sign_cast_ne_zero _) h

theorem det_colSwap_ne (a b : Fin n) (m : Mat n K) (h : (toM m).det ≠ 0) :
    (toM (colSwap a b m)).det ≠ 0 := by
  rw [toM_colSwap, Matrix.det_permute']
  exact mul_ne_zero (sign_cast_ne_zero _) h

theorem toM_scaleRow (k : Fin n) (pv : K) (m : Mat n K) :
    toM (scaleRow k pv m)
      = Matrix.diagonal (fun i => if i = k then pv⁻¹ else 1) * toM m := by
  ext i j
  simp only [scaleRow, toM_apply, Mat.get_ofFn, Matrix.diagonal_mul]
  split
  · rw [div_eq_inv_mul]
  · rw [one_mul]

theorem det_scaleRow_ne (k : Fin n) (pv : K) (hpv : pv ≠ 0) (m : Mat n K)
    (h : (toM m).det ≠ 0) : (toM (scaleRow k pv m)).det ≠ 0 := by
  rw [toM_scaleRow, Matrix.det_mul, Matrix.det_diagonal]
  refine mul_ne_zero ?_ h
  rw [Finset.prod_ne_zero_iff]
  intro i _
  split
  · exact inv_ne_zero hpv
  · exact one_ne_zero

/-- the strictly lower part of the elementary matrix of `elimBelowInv` -/
def elimN (k : Fin n) (m : Mat n K) : Matrix (Fin n) (Fin n) K :=
  fun i l => if l = k ∧ k.val < i.val then - m.get i k else 0

theorem toM_elimBelowInv (k : Fin n) (m iv : Mat n K) :
    toM (elimBelowInv k m iv) = (1 + elimN k m) * toM iv := by
  ext i j
  rw [Matrix.add_mul, Matrix.one_mul, Matrix.add_apply, Matrix.mul_apply]
  simp only [elimBelowInv, toM_apply, Mat.get_ofFn, elimN]
  have : ∀ l : Fin n, (if l = k ∧ k.val < i.val then - m.get i k else 0) * iv.get l j
      = if l = k then (if k.val < i.val then - m.get i k * iv.get k j else 0) else 0 := by
    intro l
    by_cases hl : l = k
    · subst hl; by_cases hk : l.val < i.val <;> simp [hk]
    · simp [hl]
  rw [Finset.sum_congr rfl (fun l _ => this l), Finset.sum_ite_eq' Finset.univ k,
    if_pos (Finset.mem_univ _)]
  split <;> ring

theorem det_elim (k : Fin n) (m : Mat n K) : (1 + elimN k m : Matrix (Fin n) (Fin n) K).det = 1 := by
  have hbt : (1 + elimN k m : Matrix (Fin n) (Fin n) K).BlockTriangular OrderDual.toDual := by
    intro i j hij
    have hlt : i < j := hij
    have hne : i ≠ j := ne_of_lt hlt
    have hv : i.val < j.val := hlt
    rw [Matrix.add_apply, Matrix.one_apply_ne hne, zero_add]
    simp only [elimN]
    rw [if_neg]
    rintro ⟨e, h⟩
    rw [e] at hv; omega
  rw [Matrix.det_of_isLowerTriangular _ hbt]
  apply Finset.prod_eq_one
  intro i _
  rw [Matrix.add_apply, Matrix.one_apply_eq]
  simp only [elimN]
  rw [if_neg, add_zero]
  rintro ⟨e, h⟩
  rw [e] at h; omega

theorem det_elimBelowInv_ne (k : Fin n) (m iv : Mat n K) (h : (toM iv).det ≠ 0) :
    (toM (elimBelowInv k m iv)).det ≠ 0 := by
  rw [toM_elimBelowInv, Matrix.det_mul, det_elim, one_mul]; exact h

/-- the accumulated row operations stay invertible along the eps-free run -/
theorem det_iv_step (st : InvSt n K) (k : Fin n) (hpv : pivotOf st k ≠ 0)
    (h : (toM st.iv).det ≠ 0) : (toM (fwdStep0 st k).iv).det ≠ 0 := by
  unfold fwdStep0
  simp only
  apply det_elimBelowInv_ne
  apply det_scaleRow_ne _ _ hpv
  apply det_colSwap_ne
  apply det_rowSwap_ne
  exact h

/-! ### the pivots of an invertible matrix are non-zero -/

/-- the eps-free step keeps the forward invariant when the pivot is non-zero -/
theorem fwdStep0_inv (A : Matrix (Fin n) (Fin n) K) (st : InvSt n K) (k : Fin n)
    (hpv : pivotOf st k ≠ 0) (hi : FwdInv A k.val st) : FwdInv A (k.val + 1) (fwdStep0 st k) := by
  have hstep : fwdStep (absK (pivotOf st k)) st k = .ok (fwdStep0 st k) := by
    rw [fwdStep_eq, if_neg (lt_irrefl _)]
  exact fwdStep_inv A _ (by rw [absK_eq]; exact abs_pos.2 hpv) st _ k hstep hi

/-- if `A` and the accumulated row operations are invertible, the trailing block of `m` is not
identically zero, so the pivot is non-zero -/
theorem pivot_ne_zero_of_det (A : Matrix (Fin n) (Fin n) K) (hA : A.det ≠ 0) (st : InvSt n K)
    (k : Fin n) (hi : FwdInv A k.val st) (hiv : (toM st.iv).det ≠ 0) : pivotOf st k ≠ 0 := by
  intro h0
  have hblock : ∀ i j : Fin n, k.val ≤ i.val → k.val ≤ j.val → st.m.get i j = 0 := by
    intro i j hik hjk
    have := argmaxAbs_max st.m k i j hik hjk
    unfold pivotOf at h0
    rw [absK_eq, absK_eq, h0, abs_zero] at this
    exact abs_nonpos_iff.1 this
  have hrow : ∀ j : Fin n, toM st.m k j = 0 := by
    intro j
    by_cases hj : j.val < k.val
    · exact hi.below k j hj hj
    · exact hblock k j (le_refl _) (by omega)
  have hdet0 : (toM st.m).det = 0 := Matrix.det_eq_zero_of_row_eq_zero k hrow
  have hQ : (toM st.qt).det ≠ 0 := by
    have := congrArg Matrix.det hi.orth
    rw [Matrix.det_mul, Matrix.det_transpose, Matrix.det_one] at this
    intro e
    rw [e, mul_zero] at this
    exact zero_ne_one this
  rw [hi.eq, Matrix.det_mul, Matrix.det_mul, Matrix.det_mul, Matrix.det_transpose] at hdet0
  exact (mul_ne_zero hiv (mul_ne_zero (mul_ne_zero hQ hA) hQ)) hdet0

/-- every pivot of the eps-free run on an invertible matrix is non-zero -/
theorem pivs_pos (A : Matrix (Fin n) (Fin n) K) (hA : A.det ≠ 0) :
    ∀ (l : List (Fin n)) (t : ℕ) (st : InvSt n K), l.map Fin.val = List.range' t l.length →
      FwdInv A t st → (toM st.iv).det ≠ 0 → ∀ p ∈ pivs l st, 0 < p := by
  intro l
  induction l with
  | nil => intro t st _ _ _ p hp; simp [pivs] at hp
  | cons a l ih =>
    intro t st hl hi hiv p hp
    simp only [List.map_cons, List.length_cons, List.range'_succ, List.cons.injEq] at hl
    obtain ⟨hat, hl'⟩ := hl
    have hi' : FwdInv A a.val st := hat ▸ hi
    have hpv := pivot_ne_zero_of_det A hA st a hi' hiv
    simp only [pivs, List.mem_cons] at hp
    rcases hp with e | hp
    · rw [e, absK_eq]; exact abs_pos.2 hpv
    · exact ih (t + 1) (fwdStep0 st a) hl' (hat ▸ fwdStep0_inv A st a hpv hi')
        (det_iv_step st a hpv hiv) p hp

theorem fwdInv_init (a : Mat n K) : FwdInv (toM a) 0 (⟨a, idMat, idMat⟩ : InvSt n K) := by
  refine ⟨?_, ?_, ?_, ?_⟩
  · simp [toM_idMat]
  · simp [toM_idMat]
  · intro i hi; exact absurd hi (Nat.not_lt_zero _)
  · intro i j hj; exact absurd hj (Nat.not_lt_zero _)

/-! ### the threshold -/

/-- minimum of a list, capped by `1` -/
def minList : List K → K
  | [] => 1
  | x :: l => min x (minList l)

theorem minList_pos : ∀ (l : List K), (∀ p ∈ l, 0 < p) → 0 < minList l
  | [], _ => one_pos
  | x :: l, h => lt_min (h x (by simp)) (minList_pos l (fun p hp => h p (by simp [hp])))

theorem minList_le : ∀ (l : List K) (p : K), p ∈ l → minList l ≤ p
  | [], _, hp => by cases hp
  | x :: l, p, hp => by
    rcases List.mem_cons.1 hp with e | e
    · rw [e]; exact min_le_left _ _
    · exact le_trans (min_le_right _ _) (minList_le l p e)

/-- the singularity threshold below which `inv` is total on `a`: the smallest pivot magnitude of
the eps-free elimination (for `n = 0`: `1`) -/
def invEps0 (a : Mat n K) : K := minList (pivs (List.finRange n) (⟨a, idMat, idMat⟩ : InvSt n K))

theorem invEps0_pos (a : Mat n K) (hdet : (toM a).det ≠ 0) : 0 < invEps0 a := by
  apply minList_pos
  apply pivs_pos (toM a) hdet (List.finRange n) 0 _ finRange_map_val (fwdInv_init a)
  rw [toM_idMat, Matrix.det_one]; exact one_ne_zero

/-- **totality**: below the threshold `invEps0 a` the elimination never raises -/
theorem invSq_total (a : Mat n K) (eps : K) (hle : eps ≤ invEps0 a) :
    ∃ x, invSq eps a = .ok x := by
  have hfold := foldlM_fwdStep_ok eps (List.finRange n) (⟨a, idMat, idMat⟩ : InvSt n K)
    (fun p hp => not_lt.2 (le_trans hle (minList_le _ p hp)))
  unfold invSq
  simp only [bind, Except.bind, pure, Except.pure]
  rw [hfold]
  exact ⟨_, rfl⟩

end TW
