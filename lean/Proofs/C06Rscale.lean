import Proofs.RscaleOpt
import Proofs.C06Lemmas

/-!
Glue between the model of `fit_rscale` (`rsums`: weighted means, centred moments, in the
unweighted and in the weighted branch) and the moment form used by `rscale_core`.
-/
open TW
set_option linter.unusedSectionVars false

namespace TW

/-- the sums computed by `rsums`, as sums over zipped rows -/
theorem rsums_eq (wmean wmom : List ℝ) (obs : List (Obs ℝ)) :
    rsums wmean wmom obs =
      (let xm := ((List.zip wmean obs).map fun p => p.1 * p.2.x).sum
       let ym := ((List.zip wmean obs).map fun p => p.1 * p.2.y).sum
       let um := ((List.zip wmean obs).map fun p => p.1 * p.2.u).sum
       let vm := ((List.zip wmean obs).map fun p => p.1 * p.2.v).sum
       let M := cmom (List.zip wmom obs) xm ym um vm
       (⟨xm, ym, um, vm, M.sxu, M.sxv, M.syu, M.syv, M.suu + M.svv⟩ : RSums ℝ)) := by
  simp only [rsums, mulL, dotL_map, dotL_mul_map, cmom]

theorem cmom_centre (Z : List (ℝ × Obs ℝ)) (xm ym um vm : ℝ) :
    (cmom Z xm ym um vm).Cx = (Z.map fun p => p.1 * p.2.x).sum - xm * (Z.map fun p => p.1).sum ∧
    (cmom Z xm ym um vm).Cy = (Z.map fun p => p.1 * p.2.y).sum - ym * (Z.map fun p => p.1).sum ∧
    (cmom Z xm ym um vm).Cu = (Z.map fun p => p.1 * p.2.u).sum - um * (Z.map fun p => p.1).sum ∧
    (cmom Z xm ym um vm).Cv = (Z.map fun p => p.1 * p.2.v).sum - vm * (Z.map fun p => p.1).sum := by
  simp only [cmom]
  induction Z with
  | nil => simp
  | cons p l ih =>
    simp only [List.map_cons, List.sum_cons]
    obtain ⟨h1, h2, h3, h4⟩ := ih
    refine ⟨?_, ?_, ?_, ?_⟩
    · rw [h1]; ring
    · rw [h2]; ring
    · rw [h3]; ring
    · rw [h4]; ring

theorem cmom_W_nonneg (Z : List (ℝ × Obs ℝ)) (hw : ∀ p ∈ Z, 0 ≤ p.1) (xm ym um vm : ℝ) :
    0 ≤ (cmom Z xm ym um vm).W := by
  simp only [cmom]
  apply List.sum_nonneg
  intro x hx
  obtain ⟨p, hp, rfl⟩ := List.mem_map.mp hx
  exact hw p hp

theorem zip_map_div_weights {α : Type} (ws : List ℝ) (l : List α) (c : ℝ) (f : α → ℝ) :
    ((List.zip (ws.map (· / c)) l).map fun p => p.1 * f p.2).sum
      = ((List.zip ws l).map fun p => p.1 * f p.2).sum / c := by
  apply zip_map_div_sum
  intro w a; ring

theorem zip_map_div_W {α : Type} (ws : List ℝ) (l : List α) (c : ℝ) :
    ((List.zip (ws.map (· / c)) l).map fun p => p.1).sum
      = ((List.zip ws l).map fun p => p.1).sum / c := by
  apply zip_map_div_sum
  intro w a; rfl

/-- **What `fitRscale` does before `rsolve`**: the raw weights `ws` (1 each / the one list / the
harmonic combination) are non-negative with positive sum; the moments are taken with weights
`ws/c` for a `c > 0` (`c = 1` unweighted, `c = Σ ws` weighted) about the `ws`-weighted means, so the
first centred moments vanish. -/
theorem fitRscale_unfold (obs : List (Obs ℝ)) (wxy wuv : Option (List ℝ)) (scale : Option ℝ) (L : Lin ℝ)
    (h : fitRscale obs wxy wuv scale = .ok L)
    (hlen : (generalW obs wxy wuv).length = obs.length) :
    ∃ (c xm ym um vm : ℝ), 0 < c ∧ (∀ w ∈ generalW obs wxy wuv, 0 ≤ w) ∧
      0 < sumL (generalW obs wxy wuv) ∧
      (∀ sc, scale = some sc → 0 < sc) ∧
      (let M := cmom (List.zip ((generalW obs wxy wuv).map (· / c)) obs) xm ym um vm
       M.Cx = 0 ∧ M.Cy = 0 ∧ M.Cu = 0 ∧ M.Cv = 0 ∧ 0 ≤ M.W ∧
       rsolve scale ⟨xm, ym, um, vm, M.sxu, M.sxv, M.syu, M.syv, M.suu + M.svv⟩ = .ok L) := by
  unfold fitRscale at h
  split at h
  · cases h
  next hn =>
  obtain ⟨hscale, hbad, h⟩ : (∀ sc, scale = some sc → 0 < sc) ∧
      rscaleBad wxy wuv = false ∧
      rsolve scale (rsums (normW obs.length (combineW wxy wuv)) (rscaleWmom obs wxy wuv) obs) = .ok L := by
    cases scale with
    | none =>
      by_cases hb : rscaleBad wxy wuv = true
      · simp [hb] at h
      · simp only [hb] at h
        exact ⟨fun sc hsc => (by cases hsc), by simpa using hb, by simpa using h⟩
    | some sc =>
      by_cases hs : 0 < sc
      · by_cases hb : rscaleBad wxy wuv = true
        · simp [hb, hs] at h
        · simp only [hb] at h
          exact ⟨fun sc' hsc => (by cases hsc; exact hs), by simpa using hb, by simpa [hs] using h⟩
      · simp [hs] at h
  rw [rsums_eq, normW_eq] at h
  simp only at h
  set ws := generalW obs wxy wuv with hws
  have hWZ : ((List.zip ws obs).map fun p => p.1).sum = sumL ws := (sumL_weights ws obs hlen).symm
  have hn2 : 2 ≤ obs.length := by omega
  cases hc : combineW wxy wuv with
  | none =>
    have hg : ws = List.replicate obs.length 1 := generalW_none obs wxy wuv hc
    have hnn : ∀ w ∈ ws, 0 ≤ w := by
      rw [hg]; intro w hw; rw [List.mem_replicate] at hw; rw [hw.2]; exact zero_le_one
    have hW : sumL ws = obs.length := by rw [hg, sumL_replicate]; ring
    have hWpos : 0 < sumL ws := by
      rw [hW]; have : (0 : ℝ) < obs.length := by exact_mod_cast (by omega : 0 < obs.length)
      exact this
    have hmom : rscaleWmom obs wxy wuv = ws.map (· / 1) := by
      unfold rscaleWmom; rw [hc, hg]; simp
    rw [hmom] at h
    refine ⟨1, ((List.zip (ws.map (· / sumL ws)) obs).map fun p => p.1 * p.2.x).sum,
      ((List.zip (ws.map (· / sumL ws)) obs).map fun p => p.1 * p.2.y).sum,
      ((List.zip (ws.map (· / sumL ws)) obs).map fun p => p.1 * p.2.u).sum,
      ((List.zip (ws.map (· / sumL ws)) obs).map fun p => p.1 * p.2.v).sum, one_pos, hnn, hWpos, hscale, ?_⟩
    refine ⟨?_, ?_, ?_, ?_, ?_, h⟩
    all_goals try (
      first
      | (rw [(cmom_centre _ _ _ _ _).1]) | (rw [(cmom_centre _ _ _ _ _).2.1])
      | (rw [(cmom_centre _ _ _ _ _).2.2.1]) | (rw [(cmom_centre _ _ _ _ _).2.2.2])
      simp only [zip_map_div_weights, zip_map_div_W, hWZ]
      have := ne_of_gt hWpos
      field_simp
      ring)
    apply cmom_W_nonneg
    intro p hp
    obtain ⟨w, hw, he⟩ := List.mem_map.mp (List.of_mem_zip hp).1
    rw [← he]
    exact div_nonneg (hnn w hw) zero_le_one
  | some w0 =>
    have hg : ws = w0 := generalW_some obs wxy wuv w0 hc
    have hbad' := hbad
    unfold rscaleBad at hbad'
    rw [hc] at hbad'
    simp only [Bool.or_eq_false_iff, decide_eq_false_iff_not, not_lt] at hbad'
    have hnn : ∀ w ∈ ws, 0 ≤ w := by rw [hg]; exact anyNeg_false hbad'.1
    have hWpos : 0 < sumL ws := by
      rw [hg]; exact sumL_pos_of_countPos hbad'.1 (by omega)
    have hmom : rscaleWmom obs wxy wuv = ws.map (· / sumL ws) := by
      unfold rscaleWmom; rw [hc, hg]
    rw [hmom] at h
    refine ⟨sumL ws, ((List.zip (ws.map (· / sumL ws)) obs).map fun p => p.1 * p.2.x).sum,
      ((List.zip (ws.map (· / sumL ws)) obs).map fun p => p.1 * p.2.y).sum,
      ((List.zip (ws.map (· / sumL ws)) obs).map fun p => p.1 * p.2.u).sum,
      ((List.zip (ws.map (· / sumL ws)) obs).map fun p => p.1 * p.2.v).sum, hWpos, hnn, hWpos, hscale, ?_⟩
    refine ⟨?_, ?_, ?_, ?_, ?_, h⟩
    all_goals try (
      first
      | (rw [(cmom_centre _ _ _ _ _).1]) | (rw [(cmom_centre _ _ _ _ _).2.1])
      | (rw [(cmom_centre _ _ _ _ _).2.2.1]) | (rw [(cmom_centre _ _ _ _ _).2.2.2])
      simp only [zip_map_div_weights, zip_map_div_W, hWZ]
      have := ne_of_gt hWpos
      field_simp
      ring)
    apply cmom_W_nonneg
    intro p hp
    obtain ⟨w, hw, he⟩ := List.mem_map.mp (List.of_mem_zip hp).1
    rw [← he]
    exact div_nonneg (hnn w hw) (le_of_lt hWpos)

/-- the objective with weights `ws/c` in moment form -/
theorem SS_div_moments (ws : List ℝ) (obs : List (Obs ℝ)) (c xm ym um vm : ℝ) (L : Lin ℝ) :
    let M := cmom (List.zip (ws.map (· / c)) obs) xm ym um vm
    SS ws obs L / c =
      M.sxx - 2 * (L.m00 * M.sxu + L.m01 * M.sxv + L.m10 * M.syu + L.m11 * M.syv)
      + (L.m00^2 + L.m10^2) * M.suu + (L.m01^2 + L.m11^2) * M.svv
      + 2 * (L.m00 * L.m01 + L.m10 * L.m11) * M.suv
      + 2 * ((xm - (L.m00 * um + L.m01 * vm) - L.sx) * (M.Cx - L.m00 * M.Cu - L.m01 * M.Cv)
           + (ym - (L.m10 * um + L.m11 * vm) - L.sy) * (M.Cy - L.m10 * M.Cu - L.m11 * M.Cv))
      + M.W * ((xm - (L.m00 * um + L.m01 * vm) - L.sx)^2 + (ym - (L.m10 * um + L.m11 * vm) - L.sy)^2) := by
  intro M
  rw [← SS_map_div]
  exact SS_moments (List.zip (ws.map (· / c)) obs) xm ym um vm L

end TW
