import Mathlib.Data.Matrix.Mul
import Mathlib.Algebra.Order.Field.Basic
import Mathlib.Algebra.BigOperators.Ring.Finset
import Mathlib.Algebra.BigOperators.Field
import Mathlib.Logic.Equiv.Basic
import Mathlib.Tactic.Ring
import Mathlib.Tactic.Linarith
import Mathlib.Tactic.FieldSimp
import Model.LinAlg

open TW Matrix
set_option linter.unusedSectionVars false

namespace TW
variable {K : Type} [Field K] [LinearOrder K] [IsStrictOrderedRing K] {n : ℕ}

/-- the Mathlib matrix denoted by a model matrix -/
def toM (m : Mat n K) : Matrix (Fin n) (Fin n) K := fun i j => m.get i j

@[simp] theorem toM_apply (m : Mat n K) (i j : Fin n) : toM m i j = m.get i j := rfl

@[simp] theorem zeroK_eq : (zeroK : K) = 0 := by simp [zeroK]
@[simp] theorem oneK_eq : (oneK : K) = 1 := by simp [oneK]

theorem absK_eq (x : K) : absK x = |x| := by
  unfold absK
  split
  · next h => simp at h; rw [abs_of_neg h]
  · next h => simp at h; rw [abs_of_nonneg h]

theorem swapIdx_eq (a b : Fin n) : swapIdx a b = Equiv.swap a b := by
  funext j; simp [swapIdx, Equiv.swap_apply_def]

theorem toM_rowSwap (a b : Fin n) (m : Mat n K) :
    toM (rowSwap a b m) = (toM m).submatrix (Equiv.swap a b) id := by
  ext i j; simp [rowSwap, swapIdx_eq]

theorem toM_colSwap (a b : Fin n) (m : Mat n K) :
    toM (colSwap a b m) = (toM m).submatrix id (Equiv.swap a b) := by
  ext i j; simp [colSwap, swapIdx_eq]

theorem toM_idMat : toM (idMat : Mat n K) = 1 := by
  ext i j; simp [idMat, Matrix.one_apply]

/-- row permutation applied to both sides keeps `m = iv * B` -/
theorem eq_rowPerm (σ : Equiv.Perm (Fin n)) (m iv B : Matrix (Fin n) (Fin n) K) (h : m = iv * B) :
    m.submatrix σ id = iv.submatrix σ id * B := by
  subst h; ext i j; simp [Matrix.mul_apply]

/-- column swap applied to `m`, `iv`, `qt` keeps `m = iv * (qtᵀ A qt)` -/
theorem eq_colPerm (σ : Equiv.Perm (Fin n)) (m iv qt A : Matrix (Fin n) (Fin n) K)
    (h : m = iv * (qtᵀ * A * qt)) :
    m.submatrix id σ = iv.submatrix id σ * ((qt.submatrix id σ)ᵀ * A * qt.submatrix id σ) := by
  subst h
  ext i j
  simp only [Matrix.submatrix_apply, Matrix.mul_apply, Matrix.transpose_apply, id]
  rw [← Equiv.sum_comp σ]

theorem orth_colPerm (σ : Equiv.Perm (Fin n)) (qt : Matrix (Fin n) (Fin n) K)
    (h : qt * qtᵀ = 1) : qt.submatrix id σ * (qt.submatrix id σ)ᵀ = 1 := by
  rw [← h]
  ext i j
  simp only [Matrix.submatrix_apply, Matrix.mul_apply, Matrix.transpose_apply, id]
  exact Equiv.sum_comp σ (fun l => qt i l * qt j l)

end TW
