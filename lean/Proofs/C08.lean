import Proofs.C08Sim
import Proofs.C08Guard

/-!
# C08 — fits are equivariant under relabelling and changes of coordinates

Property theorems only.  Helpers: `Proofs/C08Lemmas.lean` (sums over rows, row form of the three
fitters, permutations, re-weighting, uniform weights), `Proofs/C08General.lean` (uniqueness of the
solution of the normal equations of `fit_general` and their transport), `Proofs/C08Move.lean`
(changes of coordinates: weights, `fit_shifts`, moments of `fit_rscale`, centring),
`Proofs/C08Rscale.lean` (`rsolve` under translations and under scaling of the moments; the angle),
`Proofs/C08Sim.lean` (`rsolve` under similarities through its closed forms), `Proofs/C08Guard.lean`
(the collinearity guard of `fit_general` under changes of coordinates).  Inputs are in *row form*
(`Model/Equiv.lean`): a list of rows (matched pair, weight in the `xy` catalogue, weight in the
`uv` catalogue) and two flags `bx`, `bu` saying which weight arrays are passed, so that all four
weight modes of the code (none / `wxy` / `wuv` / both) are covered by every statement.
`K` is any linearly ordered field; the `rscale`/`rshift` statements that involve the angle are
over `ℝ`.
-/
open TW
set_option linter.unusedSectionVars false

namespace TW.C08
variable {K : Type} [Field K] [LinearOrder K] [IsStrictOrderedRing K]

/-! ## relabelling -/

/-- permuting the rows (pairs together with their weights) does not change `fit_shifts`:
same parameters, same error -/
theorem perm_invariant_shift {rows rows' : List (Row K)} (h : rows.Perm rows') (bx bu : Bool) :
    fitShiftsR bx bu rows' = fitShiftsR bx bu rows := by
  rw [fitShiftsR_eq, fitShiftsR_eq, perm_gnorm h, perm_weightsBad h, perm_shiftVal h, h.length_eq]

/-- … nor `fit_general` -/
theorem perm_invariant_general (eps epsD : K) {rows rows' : List (Row K)} (h : rows.Perm rows')
    (bx bu : Bool) : fitGeneralR eps epsD bx bu rows' = fitGeneralR eps epsD bx bu rows := by
  rw [fitGeneralR_eq, fitGeneralR_eq, perm_weightsBad h, perm_gsumsRow h, perm_generalGuardR h,
    h.length_eq]

/-- … nor `fit_rscale` / `fit_rshift` (any `HasTrig` semantics) -/
theorem perm_invariant_rscale [HasTrig K] {rows rows' : List (Row K)} (h : rows.Perm rows')
    (bx bu : Bool) (scale : Option K) :
    fitRscaleR bx bu scale rows' = fitRscaleR bx bu scale rows := by
  rw [fitRscaleR_eq, fitRscaleR_eq, perm_weightsBad h, rsumsR_eq, rsumsR_eq, perm_gnorm h,
    perm_gmom h, perm_rsumsRow h, h.length_eq]

/-! ## weights -/

/-- multiplying all weights by one positive constant does not change `fit_shifts` -/
theorem weight_scale_invariant_shift (bx bu : Bool) (rows : List (Row K)) (c : K) (hc : 0 < c) :
    fitShiftsR bx bu (rows.map (Row.scaleW c)) = fitShiftsR bx bu rows := by
  obtain ⟨c', hc', hg⟩ := wsel_scaleW' bx bu c hc
  rw [fitShiftsR_eq, fitShiftsR_eq, List.length_map,
    reweight_weightsBad (Row.scaleW c) bx bu rows c' hc' (fun r _ => hg r),
    reweight_shiftVal (Row.scaleW c) (fun _ => rfl) bx bu rows c' hc' (fun r _ => hg r)]

/-- … nor `fit_rscale` / `fit_rshift` -/
theorem weight_scale_invariant_rscale [HasTrig K] (bx bu : Bool) (scale : Option K)
    (rows : List (Row K)) (c : K) (hc : 0 < c) :
    fitRscaleR bx bu scale (rows.map (Row.scaleW c)) = fitRscaleR bx bu scale rows := by
  obtain ⟨c', hc', hg⟩ := wsel_scaleW' bx bu c hc
  rw [fitRscaleR_eq, fitRscaleR_eq, List.length_map, rsumsR_eq, rsumsR_eq,
    reweight_weightsBad (Row.scaleW c) bx bu rows c' hc' (fun r _ => hg r),
    reweight_rsumsRow (Row.scaleW c) (fun _ => rfl) bx bu rows c' hc' (fun r _ => hg r)]

/-- … nor `fit_general`: the normal equations are homogeneous in the weights, so whenever both
fits return, they return the same map.  (Only the singularity threshold `eps` of `inv`, 2e-308 in
the code, is not scale-free: that is why the statement is about returned values.) -/
theorem weight_scale_invariant_general (eps epsD : K) (heps : 0 < eps) (bx bu : Bool)
    (rows : List (Row K)) (c : K) (hc : 0 < c) (L L' : Lin K)
    (h : fitGeneralR eps epsD bx bu rows = .ok L)
    (h' : fitGeneralR eps epsD bx bu (rows.map (Row.scaleW c)) = .ok L') : L' = L := by
  obtain ⟨c', _, hg⟩ := wsel_scaleW' bx bu c hc
  obtain ⟨_, _, hs⟩ := fitGeneralR_ok eps epsD bx bu rows L h
  obtain ⟨_, _, hs'⟩ := fitGeneralR_ok eps epsD bx bu _ L' h'
  have hN := gsolve_normalEq eps heps _ rows L hs
  have hN' := normalEq_reweight (Row.scaleW c) (fun _ => rfl) c' _ (wsel bx bu) rows
    (fun r _ => hg r) L hN
  exact (gsolve_normalEq_unique eps heps _ _ L' hs' L hN').symm

/-- the error cases of `fit_general` that do not depend on `eps` are unchanged as well -/
theorem weight_scale_invariant_general_errors (eps epsD : K) (bx bu : Bool) (rows : List (Row K))
    (c : K) (hc : 0 < c) (e : FitErr) (he : e ≠ .singular) :
    fitGeneralR eps epsD bx bu (rows.map (Row.scaleW c)) = .error e ↔ fitGeneralR eps epsD bx bu rows = .error e := by
  obtain ⟨c', hc', hg⟩ := wsel_scaleW' bx bu c hc
  rw [fitGeneralR_error_iff _ _ _ _ _ e he, fitGeneralR_error_iff _ _ _ _ _ e he, List.length_map,
    reweight_weightsBad (Row.scaleW c) bx bu rows c' hc' (fun r _ => hg r)]

/-- constant weight arrays (`wxy ≡ cx`, `wuv ≡ cu`, either or both) give the same `fit_shifts`
as no weights -/
theorem uniform_eq_none_shift (bx bu : Bool) (rows : List (Row K)) (cx cu : K) (hcx : 0 < cx)
    (hcu : 0 < cu) (hx : bx = true → ∀ r ∈ rows, r.wx = cx) (hu : bu = true → ∀ r ∈ rows, r.wu = cu) :
    fitShiftsR bx bu rows = fitShiftsR false false rows := by
  obtain ⟨c, hc, hg⟩ := wsel_uniform bx bu rows cx cu hcx hcu hx hu
  rw [fitShiftsR_eq, fitShiftsR_eq]
  split
  · rfl
  next hn =>
    have hn' : ¬ rows.length < 1 := by omega
    rw [uniform_weightsBad bx bu rows c hc hg 1 hn', uniform_shiftVal bx bu rows c hc hg]
    simp [weightsBad]

/-- … and the same `fit_general` (whenever both return) -/
theorem uniform_eq_none_general (eps epsD : K) (heps : 0 < eps) (bx bu : Bool) (rows : List (Row K))
    (cx cu : K) (hcx : 0 < cx) (hcu : 0 < cu) (hx : bx = true → ∀ r ∈ rows, r.wx = cx)
    (hu : bu = true → ∀ r ∈ rows, r.wu = cu) (L L' : Lin K)
    (h : fitGeneralR eps epsD false false rows = .ok L) (h' : fitGeneralR eps epsD bx bu rows = .ok L') :
    L' = L := by
  obtain ⟨c, hc, hg⟩ := wsel_uniform bx bu rows cx cu hcx hcu hx hu
  obtain ⟨_, _, hs⟩ := fitGeneralR_ok eps epsD false false rows L h
  obtain ⟨_, _, hs'⟩ := fitGeneralR_ok eps epsD bx bu rows L' h'
  have hN := gsolve_normalEq eps heps _ rows L hs
  have hN' := normalEq_reweight id (fun _ => rfl) c _ (wsel bx bu) rows
    (fun r hr => by rw [id, hg r hr]; simp [wsel]) L hN
  rw [List.map_id] at hN'
  exact (gsolve_normalEq_unique eps heps _ _ L' hs' L hN').symm

/-- with uniform weights `fit_general` is rejected for bad weights or too few points exactly when
the unweighted fit is -/
theorem uniform_eq_none_general_errors (eps epsD : K) (bx bu : Bool) (rows : List (Row K))
    (cx cu : K) (hcx : 0 < cx) (hcu : 0 < cu) (hx : bx = true → ∀ r ∈ rows, r.wx = cx)
    (hu : bu = true → ∀ r ∈ rows, r.wu = cu) (e : FitErr) (he : e ≠ .singular) :
    fitGeneralR eps epsD bx bu rows = .error e ↔ fitGeneralR eps epsD false false rows = .error e := by
  obtain ⟨c, hc, hg⟩ := wsel_uniform bx bu rows cx cu hcx hcu hx hu
  rw [fitGeneralR_error_iff _ _ _ _ _ e he, fitGeneralR_error_iff _ _ _ _ _ e he]
  split
  · rfl
  next hn =>
    rw [uniform_weightsBad bx bu rows c hc hg 3 hn]
    simp [weightsBad]

/-- … and the same `fit_rscale` / `fit_rshift` (over `ℝ`: the unweighted branch of the code uses
un-normalised second moments, which are `n` times the weighted ones; the angle only depends on
their direction and the fitted scale on their ratio) -/
theorem uniform_eq_none_rscale (bx bu : Bool) (scale : Option ℝ) (rows : List (Row ℝ)) (cx cu : ℝ)
    (hcx : 0 < cx) (hcu : 0 < cu) (hx : bx = true → ∀ r ∈ rows, r.wx = cx)
    (hu : bu = true → ∀ r ∈ rows, r.wu = cu) :
    fitRscaleR bx bu scale rows = fitRscaleR false false scale rows := by
  obtain ⟨c, hc, hg⟩ := wsel_uniform bx bu rows cx cu hcx hcu hx hu
  rw [fitRscaleR_eq, fitRscaleR_eq]
  split
  · rfl
  next hn =>
  split
  · rfl
  rw [uniform_weightsBad bx bu rows c hc hg 2 hn]
  have hff : weightsBad 2 false false rows = false := by simp [weightsBad]
  rw [hff]
  simp only [Bool.false_eq_true, if_false]
  cases hb : (bx || bu)
  · have hbx : bx = false := by cases bx <;> simp_all
    have hbu : bu = false := by cases bu <;> simp_all
    rw [hbx, hbu]
  · have hn0 : (rows.length : ℝ) ≠ 0 := by
      have : rows.length ≠ 0 := by omega
      exact_mod_cast this
    have hk : (0 : ℝ) < 1 / (rows.length : ℝ) := by
      have : (0 : ℝ) < (rows.length : ℝ) := by
        have : 0 < rows.length := by omega
        exact_mod_cast this
      positivity
    rw [rsumsR_eq, rsumsR_eq,
      rsumsRow_congr_scale rows (gnorm false false rows) (gnorm bx bu rows) (gmom false false rows)
        (gmom bx bu rows) (1 / (rows.length : ℝ))
        (fun r hr => by rw [uniform_gnorm bx bu rows c hc hg r hr]; simp [gnorm])
        (fun r hr => by rw [uniform_gmom bx bu rows c hc hg hb r hr]; simp [gmom])]
    exact rsolve_scale_moments scale _ hk _

/-! ## changes of coordinates: `fit_shifts` -/

/-- one affine map with linear part `Q` on `xy` and one with the same linear part on `uv`
(different translations allowed) conjugate the result of `fit_shifts`: the matrix stays the
identity, the shift becomes `Q·s + a − b`; errors are unchanged.  `Q` is any regular matrix —
in particular every similarity (rotation, uniform scaling, axis flip). -/
theorem similarity_conj_shift (bx bu : Bool) (A B : Aff K) (hAB : A.m = B.m) (hdet : B.m.det ≠ 0)
    (rows : List (Row K)) :
    fitShiftsR bx bu (rows.map (Row.move A B)) = (fitShiftsR bx bu rows).map (Lin.conj A B) := by
  rw [fitShiftsR_eq, fitShiftsR_eq, List.length_map, weightsBad_move]
  split
  · rfl
  next hn =>
  split
  · rfl
  next hb =>
    have hsum := gnorm_sum_one bx bu rows 1 (le_refl 1) (by omega) (by simpa using hb)
    rw [shiftVal_move bx bu A B hAB rows hsum]
    show _ = Except.ok (Lin.conj A B (shiftVal (gnorm bx bu rows) rows))
    rw [shiftVal, conj_shift A B hAB hdet]

/-- translating `xy` by `a` and `uv` by `b` changes the shift of `fit_shifts` by `a − F·b = a − b` -/
theorem translation_conj_shift (bx bu : Bool) (a b : V2 K) (rows : List (Row K)) :
    fitShiftsR bx bu (rows.map (Row.move (Aff.trans a) (Aff.trans b)))
      = (fitShiftsR bx bu rows).map (Lin.transl a b) := by
  have hdet : (Aff.trans b).m.det ≠ 0 := by simp [Aff.trans, M2.one, M2.det]
  rw [similarity_conj_shift bx bu (Aff.trans a) (Aff.trans b) rfl hdet, conj_trans]

/-! ## changes of coordinates: `fit_general` -/

/-- **`fit_general` is equivariant under arbitrary affine changes of coordinates on either side**:
with any affine map `A` applied to `xy` and any regular affine map `B` applied to `uv`, whenever
the fits of the original and of the transformed data both return, the second is `A ∘ L ∘ B⁻¹`
(matrix `A F B⁻¹`, shift `A s + a − A F B⁻¹ b`).  Proof through uniqueness of the solution of the
normal equations: the residuals of the conjugated map on the transformed data are `A_lin` times the
original ones, so they stay orthogonal to `(u', v', 1)`.
Special cases: one similarity on both sets (`A = B`), a similarity on one set alone
(`A` or `B` the identity), translations, independent scalings of the axes. -/
theorem similarity_conj_general (eps epsD : K) (heps : 0 < eps) (bx bu : Bool) (A B : Aff K)
    (hB : B.m.det ≠ 0) (rows : List (Row K)) (L L' : Lin K)
    (h : fitGeneralR eps epsD bx bu rows = .ok L)
    (h' : fitGeneralR eps epsD bx bu (rows.map (Row.move A B)) = .ok L') : L' = Lin.conj A B L := by
  obtain ⟨_, _, hs⟩ := fitGeneralR_ok eps epsD bx bu rows L h
  obtain ⟨_, _, hs'⟩ := fitGeneralR_ok eps epsD bx bu _ L' h'
  have hN := gsolve_normalEq eps heps _ rows L hs
  have hN' := normalEq_move A B hB _ (wsel bx bu) (wsel_move bx bu A B) rows L hN
  exact (gsolve_normalEq_unique eps heps _ _ L' hs' _ hN').symm

/-- the rejections of `fit_general` that do not depend on `eps` (too few points, bad weights) do
not depend on the coordinates -/
theorem similarity_conj_general_errors (eps epsD : K) (bx bu : Bool) (A B : Aff K) (rows : List (Row K))
    (e : FitErr) (he : e ≠ .singular) :
    fitGeneralR eps epsD bx bu (rows.map (Row.move A B)) = .error e ↔ fitGeneralR eps epsD bx bu rows = .error e := by
  rw [fitGeneralR_error_iff _ _ _ _ _ e he, fitGeneralR_error_iff _ _ _ _ _ e he, List.length_map,
    weightsBad_move]

/-- translations: the matrix is unchanged, the shift changes by `a − F·b` -/
theorem translation_conj_general (eps epsD : K) (heps : 0 < eps) (bx bu : Bool) (a b : V2 K)
    (rows : List (Row K)) (L L' : Lin K) (h : fitGeneralR eps epsD bx bu rows = .ok L)
    (h' : fitGeneralR eps epsD bx bu (rows.map (Row.move (Aff.trans a) (Aff.trans b))) = .ok L') :
    L' = Lin.transl a b L := by
  have hdet : (Aff.trans b).m.det ≠ 0 := by simp [Aff.trans, M2.one, M2.det]
  rw [similarity_conj_general eps epsD heps bx bu _ _ hdet rows L L' h h', conj_trans]

/-! ## changes of coordinates: `fit_rscale` / `fit_rshift` -/

/-- translating `xy` by `a` and `uv` by `b` leaves the matrix of `fit_rscale` / `fit_rshift`
unchanged and changes the shift by `a − F·b`; errors are unchanged (any semantics of the
trigonometric functions) -/
theorem translation_conj_rscale [HasTrig K] (bx bu : Bool) (scale : Option K) (a b : V2 K)
    (rows : List (Row K)) :
    fitRscaleR bx bu scale (rows.map (Row.move (Aff.trans a) (Aff.trans b)))
      = (fitRscaleR bx bu scale rows).map (Lin.transl a b) := by
  rw [fitRscaleR_eq, fitRscaleR_eq, List.length_map, weightsBad_move]
  split
  · rfl
  next hn =>
  split
  · rfl
  split
  · rfl
  next hb =>
    have hsum := gnorm_sum_one bx bu rows 2 (by omega) hn (by simpa using hb)
    rw [rsumsR_eq, rsumsR_eq, rsumsRow_move _ _ isSim_one rows _ _ _ _ (move_gnorm bx bu _ _ rows)
      (move_gmom bx bu _ _ rows) hsum, RSums.move_trans, rsolve_translate]

/-- **`fit_rscale` under similarities** (over `ℝ`).  `A` (applied to `xy`) and `B` (applied to
`uv`) are similarities — rotation, uniform scaling, optional axis flip, translation — possibly
different ones: both sets by the same map (`A = B`), or one set alone (the other the identity).
The result is conjugated, `L' = A ∘ L ∘ B⁻¹`, and errors are unchanged.  When exactly one of the
two maps contains a flip the reflection branch of the code (chosen by the sign of the determinant
of the cross-moment matrix) must be determined by the data: `crossDet ≠ 0`, i.e. the points are
not collinear — for collinear points a rotation and a reflection fit equally well and the code
always returns the rotation. -/
theorem similarity_conj_rscale (bx bu : Bool) (A B : Aff ℝ) (hA : A.m.IsSim) (hB : B.m.IsSim)
    (hA0 : A.m.det ≠ 0) (hB0 : B.m.det ≠ 0) (rows : List (Row ℝ))
    (hbr : 0 < A.m.det * B.m.det ∨ (rsumsR bx bu rows).crossDet ≠ 0) :
    fitRscaleR bx bu none (rows.map (Row.move A B)) = (fitRscaleR bx bu none rows).map (Lin.conj A B) := by
  rw [fitRscaleR_eq, fitRscaleR_eq, List.length_map, weightsBad_move]
  split
  · rfl
  next hn =>
  split
  · rfl
  split
  · rfl
  next hb =>
    have hsum := gnorm_sum_one bx bu rows 2 (by omega) hn (by simpa using hb)
    rw [rsumsR_eq] at hbr ⊢
    rw [rsumsR_eq, rsumsRow_move A B hB rows _ _ _ _ (move_gnorm bx bu A B rows)
      (move_gmom bx bu A B rows) hsum]
    exact rsolve_free_move A B hA hB hA0 hB0 _ hbr

/-- **`fit_rshift` (and `fit_rscale` with a fixed scale) under similarities of equal scale
factor**: one similarity on both sets, or an isometry on one set alone.  Besides the reflection
branch (as above) the angle must be determined by the data, `(den, num) ≠ 0`, unless `A` and `B`
have the same linear part: with vanishing cross moments the code returns angle 0 in every frame. -/
theorem similarity_conj_rshift_general (bx bu : Bool) (sc : ℝ) (A B : Aff ℝ) (hA : A.m.IsSim)
    (hB : B.m.IsSim) (hA0 : A.m.det ≠ 0) (hB0 : B.m.det ≠ 0)
    (hscale : A.m.a * A.m.a + A.m.b * A.m.b = B.m.a * B.m.a + B.m.b * B.m.b) (rows : List (Row ℝ))
    (hbr : 0 < A.m.det * B.m.det ∨ (rsumsR bx bu rows).crossDet ≠ 0)
    (hdeg : A.m = B.m ∨
      (rsumsR bx bu rows).sxu + bsign (rsumsR bx bu rows) * (rsumsR bx bu rows).syv ≠ 0 ∨
      (rsumsR bx bu rows).sxv - bsign (rsumsR bx bu rows) * (rsumsR bx bu rows).syu ≠ 0) :
    fitRscaleR bx bu (some sc) (rows.map (Row.move A B))
      = (fitRscaleR bx bu (some sc) rows).map (Lin.conj A B) := by
  rw [fitRscaleR_eq, fitRscaleR_eq, List.length_map, weightsBad_move]
  split
  · rfl
  next hn =>
  split
  · rfl
  split
  · rfl
  next hb =>
    have hsum := gnorm_sum_one bx bu rows 2 (by omega) hn (by simpa using hb)
    rw [rsumsR_eq] at hbr hdeg ⊢
    rw [rsumsR_eq, rsumsRow_move A B hB rows _ _ _ _ (move_gnorm bx bu A B rows)
      (move_gmom bx bu A B rows) hsum]
    exact rsolve_fixed_move sc A B hA hB hA0 hB0 hscale _ hbr hdeg

/-- one similarity `Q` (same linear part, translations may differ) applied to both sets
conjugates `fit_rshift` / fixed-scale `fit_rscale` — for all data, no side condition -/
theorem similarity_conj_rshift (bx bu : Bool) (sc : ℝ) (A B : Aff ℝ) (hAB : A.m = B.m)
    (hB : B.m.IsSim) (hB0 : B.m.det ≠ 0) (rows : List (Row ℝ)) :
    fitRscaleR bx bu (some sc) (rows.map (Row.move A B))
      = (fitRscaleR bx bu (some sc) rows).map (Lin.conj A B) := by
  have hpos : 0 < A.m.det * B.m.det := by rw [hAB]; exact mul_self_pos.mpr hB0
  exact similarity_conj_rshift_general bx bu sc A B (hAB ▸ hB) hB (hAB ▸ hB0) hB0 (by rw [hAB]) rows
    (Or.inl hpos) (Or.inl hAB)

/-! ## the rotation centre of `iter_linear_fit` -/

/-- `iter_linear_fit` subtracts `center` from both sets, fits, and reports `(F, s)` for the model
`xy = F·(uv − c) + s + c`.  The effective map `(F, s_eff = s + c − F·c)` does not depend on `c`:
it is the fit of the uncentred data. -/
theorem centre_independent_shift (bx bu : Bool) (c : V2 K) (rows : List (Row K)) :
    (fitShiftsR bx bu (rows.map (Row.centre c))).map (Lin.eff c) = fitShiftsR bx bu rows := by
  rw [centre_eq_move, translation_conj_shift, except_map_map]
  exact except_map_id' _ _ (eff_transl c)

theorem centre_independent_rscale [HasTrig K] (bx bu : Bool) (scale : Option K) (c : V2 K)
    (rows : List (Row K)) :
    (fitRscaleR bx bu scale (rows.map (Row.centre c))).map (Lin.eff c) = fitRscaleR bx bu scale rows := by
  rw [centre_eq_move, translation_conj_rscale, except_map_map]
  exact except_map_id' _ _ (eff_transl c)

/-- for `fit_general`: whenever the fit of the centred and of the uncentred data both return -/
theorem centre_independent_general (eps epsD : K) (heps : 0 < eps) (bx bu : Bool) (c : V2 K)
    (rows : List (Row K)) (L L' : Lin K) (h : fitGeneralR eps epsD bx bu rows = .ok L)
    (h' : fitGeneralR eps epsD bx bu (rows.map (Row.centre c)) = .ok L') : Lin.eff c L' = L := by
  rw [centre_eq_move] at h'
  rw [translation_conj_general eps epsD heps bx bu _ _ rows L L' h h', eff_transl]

/-- two different centres report the same effective map (all three fitters; here for the
general fit, where it needs both fits to return) -/
theorem centre_independent (eps epsD : K) (heps : 0 < eps) (bx bu : Bool) (c c' : V2 K)
    (rows : List (Row K)) (L L' L0 : Lin K) (h0 : fitGeneralR eps epsD bx bu rows = .ok L0)
    (h : fitGeneralR eps epsD bx bu (rows.map (Row.centre c)) = .ok L)
    (h' : fitGeneralR eps epsD bx bu (rows.map (Row.centre c')) = .ok L') : Lin.eff c L = Lin.eff c' L' := by
  rw [centre_independent_general eps epsD heps bx bu c rows L0 L h0 h,
    centre_independent_general eps epsD heps bx bu c' rows L0 L' h0 h']

/-! ## the collinearity guard of `fit_general`

`fit_general` refuses (`SingularMatrixError`) point sets whose second central moments satisfy
`cuu*cvv − cuv² ≤ epsD·((cuu + cvv)/2)²` (`TW.collinearGuard`, `epsD = 2^-52` in the code).  The
answer of this test is the same in every frame and labelling C08 relates, so that the relations
above never compare a refused fit with a returned one because of the guard.  (The remaining
`singular` exit, a pivot of `inv` below `eps = 2e-308`, is not scale-free: see
`weight_scale_invariant_general`.) -/

/-- relabelling does not change the answer of the guard -/
theorem guard_perm_invariant (epsD : K) {rows rows' : List (Row K)} (h : rows.Perm rows')
    (bx bu : Bool) : generalGuardR epsD bx bu rows' = generalGuardR epsD bx bu rows :=
  perm_generalGuardR h epsD bx bu

/-- multiplying all weights by one positive constant multiplies the three central moments by it:
same answer -/
theorem guard_weight_scale_invariant (epsD : K) (bx bu : Bool) (rows : List (Row K)) (c : K)
    (hc : 0 < c) :
    generalGuardR epsD bx bu (rows.map (Row.scaleW c)) = generalGuardR epsD bx bu rows := by
  obtain ⟨c', hc', hg⟩ := wsel_scaleW' bx bu c hc
  exact reweight_generalGuardR (Row.scaleW c) (fun _ => rfl) bx bu rows c' hc' (fun r _ => hg r) epsD

/-- constant weight arrays give the same answer as no weights -/
theorem guard_uniform_eq_none (epsD : K) (bx bu : Bool) (rows : List (Row K)) (cx cu : K)
    (hcx : 0 < cx) (hcu : 0 < cu) (hx : bx = true → ∀ r ∈ rows, r.wx = cx)
    (hu : bu = true → ∀ r ∈ rows, r.wu = cu) :
    generalGuardR epsD bx bu rows = generalGuardR epsD false false rows := by
  obtain ⟨c, hc, hg⟩ := wsel_uniform bx bu rows cx cu hcx hcu hx hu
  exact uniform_generalGuardR bx bu rows c hc hg epsD

/-- **a similarity `B = λR (+ translation)` of the `uv` points — with any affine map `A` of `xy`,
in particular the matching one — does not change the answer of the guard**: the matrix of central
moments becomes `B_lin C B_linᵀ`, so `cuu*cvv − cuv²` and `((cuu + cvv)/2)²` are both multiplied
by `λ⁴`.  Stated for inputs that reach the guard (at least three rows, valid weights). -/
theorem guard_similarity_invariant (epsD : K) (bx bu : Bool) (A B : Aff K) (hB : B.m.IsSim)
    (hB0 : B.m.det ≠ 0) (rows : List (Row K)) (hn : 3 ≤ rows.length)
    (hw : generalBad (rowsWxy bx rows) (rowsWuv bu rows) = false) :
    generalGuardR epsD bx bu (rows.map (Row.move A B)) = generalGuardR epsD bx bu rows := by
  rw [generalBad_rows] at hw
  exact generalGuardR_move epsD bx bu A B hB hB0 rows
    (ne_of_gt (wsel_sum_pos bx bu rows (by omega) hw))

/-- the centring of `iter_linear_fit` (both sets minus `center`) does not change it either -/
theorem guard_centre_invariant (epsD : K) (bx bu : Bool) (c : V2 K) (rows : List (Row K))
    (hn : 3 ≤ rows.length) (hw : generalBad (rowsWxy bx rows) (rowsWuv bu rows) = false) :
    generalGuardR epsD bx bu (rows.map (Row.centre c)) = generalGuardR epsD bx bu rows := by
  rw [centre_eq_move]
  exact guard_similarity_invariant epsD bx bu _ _ isSim_one
    (by simp [Aff.trans, M2.one, M2.det]) rows hn hw

/-- consequently `fit_general` is refused *by the guard* in one frame exactly when it is in the
other: with the checks that precede it (`similarity_conj_general_errors`) every exit of
`fit_general` except the pivot threshold of `inv` is frame-independent -/
theorem similarity_guard_exit (eps epsD : K) (bx bu : Bool) (A B : Aff K) (hB : B.m.IsSim)
    (hB0 : B.m.det ≠ 0) (rows : List (Row K))
    (hg : generalGuardR epsD bx bu rows = true) :
    (∃ e, fitGeneralR eps epsD bx bu rows = .error e) ∧
    (∃ e, fitGeneralR eps epsD bx bu (rows.map (Row.move A B)) = .error e) := by
  rw [fitGeneralR_eq, fitGeneralR_eq, List.length_map, weightsBad_move]
  split
  · exact ⟨⟨_, rfl⟩, ⟨_, rfl⟩⟩
  next hn =>
  split
  · exact ⟨⟨_, rfl⟩, ⟨_, rfl⟩⟩
  next hb =>
    rw [generalGuardR_move epsD bx bu A B hB hB0 rows
      (ne_of_gt (wsel_sum_pos bx bu rows hn (by simpa using hb))), hg]
    exact ⟨⟨_, rfl⟩, ⟨_, rfl⟩⟩

/-! ## the retained set of the clipping loop -/

/-- the residuals of the conjugated map on the transformed data are the original residuals
transformed by the linear part of `A`; for a similarity their squared norm is multiplied by the
squared scale factor `a² + b²` (by `1` for rotations, flips and translations) -/
theorem resid_normSq_conj (A B : Aff K) (hA : A.m.IsSim) (hB : B.m.det ≠ 0) (L : Lin K) (o : Obs K) :
    ((Lin.conj A B L).resid (o.move A B)).normSq
      = (A.m.a * A.m.a + A.m.b * A.m.b) * (L.resid o).normSq := by
  obtain ⟨hx, hy⟩ := resid_conj_move A B hB L o
  simp only [V2.normSq, hx, hy]
  exact isSim_normSq A.m hA _ _

/-- … so over `ℝ` the residual norms are multiplied by `λ = √(a² + b²)` -/
theorem resid_norm_conj (A B : Aff ℝ) (hA : A.m.IsSim) (hB : B.m.det ≠ 0) (L : Lin ℝ) (o : Obs ℝ) :
    Real.sqrt ((Lin.conj A B L).resid (o.move A B)).normSq
      = Real.sqrt (A.m.a * A.m.a + A.m.b * A.m.b) * Real.sqrt (L.resid o).normSq := by
  rw [resid_normSq_conj A B hA hB,
    Real.sqrt_mul (add_nonneg (mul_self_nonneg _) (mul_self_nonneg _))]

/-- the clipping test `‖r_i‖ < nsigma · stat` (`iter_linear_fit` L342) gives the same answers when
all residual norms and the statistic are multiplied by one positive factor `λ` (uniform scaling of
both coordinate sets; `λ = 1` for rotations, translations and flips): the retained set is
unchanged -/
theorem retained_invariant (nsigma stat lam : K) (hl : 0 < lam) (norms : List K) :
    clipKeep nsigma (lam * stat) (norms.map (lam * ·)) = clipKeep nsigma stat norms := by
  unfold clipKeep
  rw [List.map_map]
  apply List.map_congr_left
  intro r _
  have : lam * r < nsigma * (lam * stat) ↔ r < nsigma * stat := by
    rw [show nsigma * (lam * stat) = lam * (nsigma * stat) by ring]
    exact mul_lt_mul_iff_right₀ hl
  simp [this]

/-- the same statement on the fits: the retained flags computed from the conjugated map on the
transformed rows, with a statistic multiplied by `λ`, are the flags of the original rows -/
theorem retained_invariant_fit (A B : Aff ℝ) (hA : A.m.IsSim) (hA0 : A.m.det ≠ 0) (hB : B.m.det ≠ 0)
    (L : Lin ℝ) (rows : List (Row ℝ)) (nsigma stat : ℝ) :
    clipKeep nsigma (Real.sqrt (A.m.a * A.m.a + A.m.b * A.m.b) * stat)
        ((rows.map (Row.move A B)).map fun r => Real.sqrt ((Lin.conj A B L).resid r.o).normSq)
      = clipKeep nsigma stat (rows.map fun r => Real.sqrt (L.resid r.o).normSq) := by
  have hpos : 0 < Real.sqrt (A.m.a * A.m.a + A.m.b * A.m.b) := by
    apply Real.sqrt_pos.mpr
    rcases hA with ⟨h1, h2⟩ | ⟨h1, h2⟩
    · have : A.m.det = A.m.a * A.m.a + A.m.b * A.m.b := by simp only [M2.det, h1, h2]; ring
      have h0 : A.m.a * A.m.a + A.m.b * A.m.b ≠ 0 := this ▸ hA0
      exact lt_of_le_of_ne (add_nonneg (mul_self_nonneg _) (mul_self_nonneg _)) (Ne.symm h0)
    · have : A.m.det = -(A.m.a * A.m.a + A.m.b * A.m.b) := by simp only [M2.det, h1, h2]; ring
      have h0 : A.m.a * A.m.a + A.m.b * A.m.b ≠ 0 := by
        intro h; apply hA0; rw [this, h, neg_zero]
      exact lt_of_le_of_ne (add_nonneg (mul_self_nonneg _) (mul_self_nonneg _)) (Ne.symm h0)
  rw [← retained_invariant nsigma stat _ hpos, List.map_map, List.map_map]
  congr 1
  apply List.map_congr_left
  intro r _
  simp only [Function.comp_def, Row.move_o]
  exact resid_norm_conj A B hA hB L r.o

/-- the statistics used as `stat` scale with the residual norms: `mae = Σ w‖r‖` … -/
theorem mae_scales (lam : K) (wn : List (K × K)) :
    (wn.map fun p => p.1 * (lam * p.2)).sum = lam * (wn.map fun p => p.1 * p.2).sum := by
  rw [← sum_map_mul_left']
  exact sum_map_congr wn _ _ (fun p _ => by ring)

/-- … and `rmse = √(Σ w‖r‖²)` -/
theorem rmse_scales (lam : ℝ) (hl : 0 ≤ lam) (wn : List (ℝ × ℝ)) :
    Real.sqrt (wn.map fun p => p.1 * ((lam * p.2) * (lam * p.2))).sum
      = lam * Real.sqrt (wn.map fun p => p.1 * (p.2 * p.2)).sum := by
  have : (wn.map fun p => p.1 * ((lam * p.2) * (lam * p.2))).sum
      = (lam * lam) * (wn.map fun p => p.1 * (p.2 * p.2)).sum := by
    rw [← sum_map_mul_left']
    exact sum_map_congr wn _ _ (fun p _ => by ring)
  rw [this, Real.sqrt_mul (mul_self_nonneg lam), Real.sqrt_mul_self hl]

/-- relabelling: the retained flag travels with its row.  (With `perm_invariant_*` the fit, hence
the residual norm of every row and the statistic, are those of the original order, so `keep` is
the same function in both orders.) -/
theorem perm_fitmask {rows rows' : List (Row K)} (h : rows.Perm rows') (keep : Row K → Bool) :
    (rows'.map fun r => (r, keep r)).Perm (rows.map fun r => (r, keep r)) :=
  (h.map _).symm

/-! ## non-vacuity: concrete inputs meeting the hypotheses -/

/-- four matched pairs with distinct weights in both catalogues -/
def rows0 : List (Row ℚ) :=
  [⟨⟨1, 2, 0, 0⟩, 1, 2⟩, ⟨⟨3, 1, 1, 0⟩, 2, 1⟩, ⟨⟨2, 5, 0, 1⟩, 1, 1⟩, ⟨⟨5, 5, 2, 1⟩, 3, 1⟩]

/-- rotation by 90° with scale 2 and a translation; its mirror image -/
def Q0 : Aff ℚ := ⟨⟨0, -2, 2, 0⟩, ⟨1, -1⟩⟩
def Q1 : Aff ℚ := ⟨⟨0, 2, 2, 0⟩, ⟨-3, 2⟩⟩

-- the similarities are similarities, and regular
example : Q0.m.IsSim ∧ Q0.m.det ≠ 0 := ⟨Or.inl ⟨by decide +kernel, by decide +kernel⟩, by decide +kernel⟩
example : Q1.m.IsSim ∧ Q1.m.det ≠ 0 := ⟨Or.inr ⟨by decide +kernel, by decide +kernel⟩, by decide +kernel⟩
-- relabelling: a non-trivial permutation
example : rows0.Perm rows0.reverse := (List.reverse_perm rows0).symm
-- `fit_general` returns on the original and on the transformed data (both hypotheses of
-- `similarity_conj_general`, `weight_scale_invariant_general`, `centre_independent_general`), in
-- the doubly weighted mode
example : (fitGeneralR (1 / 1000000) (1 / 4503599627370496) true true rows0).isOk = true := by decide +kernel
example : (fitGeneralR (1 / 1000000) (1 / 4503599627370496) true true (rows0.map (Row.move Q0 Q1))).isOk = true := by decide +kernel
example : (fitGeneralR (1 / 1000000) (1 / 4503599627370496) true true (rows0.map (Row.scaleW 3))).isOk = true := by decide +kernel
example : (fitGeneralR (1 / 1000000) (1 / 4503599627370496) true true (rows0.map (Row.centre ⟨7, -2⟩))).isOk = true := by
  decide +kernel
-- the guard (code threshold 2^-52) does not fire on these rows in any of the frames above, and
-- fires on collinear rows in both frames
example : generalGuardR (1 / 4503599627370496) true true rows0 = false := by decide +kernel
example : generalGuardR (1 / 4503599627370496) true true (rows0.map (Row.move Q0 Q1)) = false := by
  decide +kernel
example : 3 ≤ rows0.length ∧ generalBad (rowsWxy true rows0) (rowsWuv true rows0) = false := by
  decide +kernel
def rowsLine : List (Row ℚ) :=
  [⟨⟨1, 2, 0, 0⟩, 1, 2⟩, ⟨⟨3, 1, 1, 2⟩, 2, 1⟩, ⟨⟨2, 5, 2, 4⟩, 1, 1⟩, ⟨⟨5, 5, -3, -6⟩, 3, 1⟩]
example : generalGuardR (1 / 4503599627370496) true false rowsLine = true ∧
    generalGuardR (1 / 4503599627370496) true false (rowsLine.map (Row.move Q0 Q1)) = true := by
  decide +kernel
-- the conjugation is visible on the numbers: the matrix entry m00 of the general fit before and
-- after, and of the shift fit
example : (fitGeneralR (1 / 1000000) (1 / 4503599627370496) false false rows0).toOption.map (fun L => 10 * L.m01) = some 7 := by
  decide +kernel
example : (fitGeneralR (1 / 1000000) (1 / 4503599627370496) false false (rows0.map (Row.move Q0 Q0))).toOption.map
    (fun L => 10 * L.m10) = some (-7) := by decide +kernel
example : (fitShiftsR true false rows0).toOption.map (fun L => 7 * L.sx) = some 16 := by decide +kernel
example : (fitShiftsR true false (rows0.map (Row.move Q0 Q0))).toOption.map (fun L => 7 * L.sy) = some 32 := by
  decide +kernel
-- the reflection branch of `fit_rscale` is determined by these data (`hbr` of
-- `similarity_conj_rscale` with exactly one flip) and so is the angle (`hdeg`)
example : (rsumsR true true rows0).crossDet ≠ 0 := by decide +kernel
example : (rsumsR true true rows0).sxu + (rsumsR true true rows0).syv ≠ 0 := by decide +kernel
-- uniform weights: rows with constant `wxy`
example : ∀ r ∈ rows0.map (fun r => (⟨r.o, 5, r.wu⟩ : Row ℚ)), r.wx = 5 := by
  intro r hr; simp only [List.mem_map] at hr; obtain ⟨_, _, rfl⟩ := hr; rfl
-- the clipping comparison: a scaled list of norms keeps the same points
example : clipKeep (3 : ℚ) (2 * 1) ([1, 4, 2].map (2 * ·)) = [true, false, true] ∧
    clipKeep (3 : ℚ) 1 [1, 4, 2] = [true, false, true] := by decide +kernel

end TW.C08
