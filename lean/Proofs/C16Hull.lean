import Proofs.C16Junction

/-!
Helper lemmas for C16: assembling `lower[:-1] + upper` from the two passes.
-/
open TW
set_option linter.unusedSectionVars false

namespace TW
variable {K : Type} [Field K] [LinearOrder K] [IsStrictOrderedRing K]

/-- the closed vertex list extended by its second vertex: its consecutive triples are the
cyclically consecutive triples of the polygon (including the one centred at the closing vertex) -/
def closeUp (h : List (Pt K)) : List (Pt K) := h ++ (h.drop 1).take 1

theorem ends_unique_min (S : List (Pt K)) (a b : Pt K) (ha : a ∈ S) (hb : b ∈ S)
    (h1 : ∀ q ∈ S, q = a ∨ lexlt a q) (h2 : ∀ q ∈ S, q = b ∨ lexlt b q) : a = b := by
  rcases h1 b hb with e | e
  · exact e.symm
  · rcases h2 a ha with e' | e'
    · exact e'
    · exact absurd (lexlt_trans e e') (lexlt_irrefl _)

theorem ends_unique_max (S : List (Pt K)) (a b : Pt K) (ha : a ∈ S) (hb : b ∈ S)
    (h1 : ∀ q ∈ S, q = a ∨ lexlt q a) (h2 : ∀ q ∈ S, q = b ∨ lexlt q b) : a = b := by
  rcases h1 b hb with e | e
  · exact e.symm
  · rcases h2 a ha with e' | e'
    · exact e'
    · exact absurd (lexlt_trans e e') (lexlt_irrefl _)

/-- **shape of the hull of a sorted list with at least two points**: the lower chain runs from the
minimum `p` to the maximum `M`, the upper chain back, and `lower[:-1] + upper` is
`p, Lm…, M, Um…, p` -/
theorem core_structure (p q : Pt K) (rest : List (Pt K)) (hs : (p :: q :: rest).Pairwise lexlt) :
    ∃ (M : Pt K) (Lm Um : List (Pt K)),
      hullCore (p :: q :: rest) = p :: (Lm ++ M :: (Um ++ [p])) ∧
      LowerFacts (p :: q :: rest) (p :: (Lm ++ [M])) ∧
      UpperFacts (p :: q :: rest) (M :: (Um ++ [p])) ∧ lexlt p M := by
  set S := p :: q :: rest with hS
  have hne : S ≠ [] := by simp [hS]
  have LF := lowerFacts S hs
  have UF := upperFacts S hs
  have hp : p ∈ S := by simp [hS]
  have hq : q ∈ S := by simp [hS]
  have hpq : lexlt p q := (List.pairwise_cons.mp hs).1 q (by simp)
  have hmin := sorted_head_min p (q :: rest) hs
  obtain ⟨M, hM⟩ : ∃ M, S.getLast? = some M := by
    cases h : S.getLast? with
    | none => exact absurd (List.getLast?_eq_none_iff.mp h) hne
    | some M => exact ⟨M, rfl⟩
  have hMS : M ∈ S := List.mem_of_getLast? hM
  have hmax := sorted_last_max S M hs hM
  have hpM : lexlt p M := by
    rcases hmin M hMS with e | e
    · exfalso
      rcases hmax q hq with e' | e'
      · rw [e', e] at hpq; exact lexlt_irrefl _ hpq
      · rw [e] at e'; exact lexlt_asymm hpq e'
    · exact e
  have hpneM : p ≠ M := fun e => lexlt_irrefl M (e ▸ hpM)
  -- end points of the lower chain
  obtain ⟨l0, hl0⟩ : ∃ b, (chain S).head? = some b := by
    cases h : chain S with
    | nil => exact absurd h (LF.ne hne)
    | cons b t => exact ⟨b, rfl⟩
  obtain ⟨l1, hl1⟩ : ∃ b, (chain S).getLast? = some b := by
    cases h : (chain S).getLast? with
    | none => exact absurd (List.getLast?_eq_none_iff.mp h) (LF.ne hne)
    | some b => exact ⟨b, rfl⟩
  have el0 : l0 = p := ends_unique_min S l0 p (LF.sub _ (List.mem_of_head? hl0)) hp (LF.first l0 hl0) hmin
  have el1 : l1 = M := ends_unique_max S l1 M (LF.sub _ (List.mem_of_getLast? hl1)) hMS (LF.last l1 hl1) hmax
  subst el0; subst el1
  obtain ⟨Lm, hL⟩ := decompose_ends (chain S) l0 l1 hl0 hl1 hpneM
  -- end points of the upper chain
  obtain ⟨u0, hu0⟩ : ∃ b, (chain S.reverse).head? = some b := by
    cases h : chain S.reverse with
    | nil => exact absurd h (UF.ne hne)
    | cons b t => exact ⟨b, rfl⟩
  obtain ⟨u1, hu1⟩ : ∃ b, (chain S.reverse).getLast? = some b := by
    cases h : (chain S.reverse).getLast? with
    | none => exact absurd (List.getLast?_eq_none_iff.mp h) (UF.ne hne)
    | some b => exact ⟨b, rfl⟩
  have eu0 : u0 = l1 := ends_unique_max S u0 l1 (UF.sub _ (List.mem_of_head? hu0)) hMS (UF.first u0 hu0) hmax
  have eu1 : u1 = l0 := ends_unique_min S u1 l0 (UF.sub _ (List.mem_of_getLast? hu1)) hp (UF.last u1 hu1) hmin
  subst eu0; subst eu1
  obtain ⟨Um, hU⟩ := decompose_ends (chain S.reverse) u0 u1 hu0 hu1 (fun e => hpneM e.symm)
  refine ⟨u0, Lm, Um, ?_, hL ▸ LF, hU ▸ UF, hpM⟩
  unfold hullCore
  rw [hL, hU]
  have : (u1 :: (Lm ++ [u0])).dropLast = u1 :: Lm := by
    rw [show u1 :: (Lm ++ [u0]) = (u1 :: Lm) ++ [u0] by simp, List.dropLast_concat]
  rw [this]; simp

/-- every element of a list flanked by at least one element on each side is the middle of a
consecutive triple -/
theorem mem_middle {α : Type} (x0 z v : α) (l : List α) (hv : v ∈ l) :
    ∃ X a b Y, x0 :: (l ++ [z]) = X ++ a :: v :: b :: Y := by
  obtain ⟨l1, l2, rfl⟩ := List.append_of_mem hv
  rcases List.eq_nil_or_concat (x0 :: l1) with e | ⟨X, a, e⟩
  · cases e
  · rw [show X.concat a = X ++ [a] by simp] at e
    cases l2 with
    | nil => exact ⟨X, a, z, [], by rw [show x0 :: ((l1 ++ [v]) ++ [z]) = (x0 :: l1) ++ [v, z] by simp, e]; simp⟩
    | cons b Y =>
      exact ⟨X, a, b, Y ++ [z], by
        rw [show x0 :: ((l1 ++ v :: b :: Y) ++ [z]) = (x0 :: l1) ++ v :: b :: (Y ++ [z]) by simp, e]; simp⟩

/-- everything the property says about `lower[:-1] + upper`, for a strictly sorted list with at
least two points -/
theorem core_facts (p q : Pt K) (rest : List (Pt K)) (hs : (p :: q :: rest).Pairwise lexlt) :
    let S := p :: q :: rest
    let H := hullCore S
    (∀ v ∈ H, v ∈ S) ∧ H.head? = some p ∧ H.getLast? = some p ∧ 3 ≤ H.length ∧
    (∀ x ∈ S, AllLeft x (closeUp H)) ∧
    (¬ Collinear S → TurnsLeft (closeUp H)) ∧
    (∀ v ∈ H, ∃ X a b Y, closeUp H = X ++ a :: v :: b :: Y) ∧
    (Collinear S → ∃ M, H = [p, M, p] ∧ S.getLast? = some M) := by
  intro S H
  obtain ⟨M, Lm, Um, hH, LF, UF, hpM⟩ := core_structure p q rest hs
  have hHe : H = p :: (Lm ++ M :: (Um ++ [p])) := hH
  -- the second vertex
  obtain ⟨sec, T, hsec⟩ : ∃ sec T, Lm ++ [M] = sec :: T := by
    cases Lm with
    | nil => exact ⟨M, [], rfl⟩
    | cons a t => exact ⟨a, t ++ [M], rfl⟩
  have hclose : closeUp H = p :: (Lm ++ M :: (Um ++ [p])) ++ [sec] := by
    unfold closeUp
    rw [hHe]
    have : Lm ++ M :: (Um ++ [p]) = sec :: (T ++ (Um ++ [p])) := by
      rw [show Lm ++ M :: (Um ++ [p]) = (Lm ++ [M]) ++ (Um ++ [p]) by simp, hsec]; simp
    rw [this]; simp
  -- lexicographic positions of the four neighbours of the two junctions
  have hLasc := LF.asc
  have hUdesc := UF.desc
  have hsecS : sec ∈ S := LF.sub sec (by rw [hsec]; simp)
  have hp_sec : lexlt p sec := (List.pairwise_cons.mp hLasc).1 sec (by rw [hsec]; simp)
  have hsub : ∀ v ∈ H, v ∈ S := by
    intro v hv
    rw [hHe] at hv
    rcases List.mem_cons.mp hv with e | e
    · rw [e]; exact LF.sub p (by simp)
    · rcases List.mem_append.mp e with e | e
      · exact LF.sub v (by simp [e])
      · exact UF.sub v (by
          rcases List.mem_cons.mp e with e | e
          · simp [e]
          · exact List.mem_cons_of_mem _ e)
  -- containment
  have hleft : ∀ x ∈ S, AllLeft x (closeUp H) := by
    intro x hx
    have hL := LF.left x hx
    have hU := UF.left x hx
    have h1 : AllLeft x (p :: (Lm ++ M :: (Um ++ [p]))) := by
      have := AllLeft_glue x M (p :: Lm) (Um ++ [p]) (by simpa using hL) hU
      simpa using this
    rw [hclose]
    have e : p :: (Lm ++ M :: (Um ++ [p])) ++ [sec] = (p :: (Lm ++ M :: Um)) ++ [p, sec] := by simp
    rw [e, AllLeft_snoc]
    refine ⟨by simpa using h1, ?_⟩
    rw [hsec] at hL
    exact hL.1
  -- strict turns
  have hturn : ¬ Collinear S → TurnsLeft (closeUp H) := by
    intro hnc
    -- junction at the maximum
    obtain ⟨A, lk, hA⟩ : ∃ A lk, p :: Lm = A ++ [lk] := by
      rcases List.eq_nil_or_concat (p :: Lm) with e | ⟨A, a, e⟩
      · cases e
      · exact ⟨A, a, by rw [e]; simp⟩
    obtain ⟨u1, B, hB⟩ : ∃ u1 B, Um ++ [p] = u1 :: B := by
      cases Um with
      | nil => exact ⟨p, [], rfl⟩
      | cons a t => exact ⟨a, t ++ [p], rfl⟩
    have eL : p :: (Lm ++ [M]) = A ++ [lk, M] := by
      rw [show p :: (Lm ++ [M]) = (p :: Lm) ++ [M] by simp, hA]; simp
    have eU : M :: (Um ++ [p]) = M :: u1 :: B := by rw [hB]
    have hlk : lexlt lk M := by
      have : lk ∈ p :: Lm := by rw [hA]; simp
      have hp' := hLasc
      rw [show p :: (Lm ++ [M]) = (p :: Lm) ++ [M] by simp] at hp'
      exact (List.pairwise_append.mp hp').2.2 lk this M (by simp)
    have hu1 : lexlt u1 M := (List.pairwise_cons.mp hUdesc).1 u1 (by rw [hB]; simp)
    have hu1S : u1 ∈ S := UF.sub u1 (by rw [hB]; simp)
    have c1 : ∀ x ∈ S, 0 ≤ cross lk M x := by
      intro x hx
      have := LF.left x hx
      rw [eL] at this
      exact (AllLeft_suffix x A [lk, M] this).1
    have c2 : ∀ x ∈ S, 0 ≤ cross M u1 x := by
      intro x hx
      have := UF.left x hx
      rw [eU] at this
      exact this.1
    have jM := junction_max S lk M u1 hlk hu1 hu1S c1 c2 hnc
    have t1 : TurnsLeft (A ++ lk :: M :: u1 :: B) :=
      TurnsLeft_glue lk M u1 A B (eL ▸ LF.turns) (eU ▸ UF.turns) jM
    have eH : p :: (Lm ++ M :: (Um ++ [p])) = A ++ lk :: M :: u1 :: B := by
      rw [show p :: (Lm ++ M :: (Um ++ [p])) = (p :: Lm) ++ M :: (Um ++ [p]) by simp, hA, hB]; simp
    -- junction at the closing vertex
    obtain ⟨C, uj, hC⟩ : ∃ C uj, M :: Um = C ++ [uj] := by
      rcases List.eq_nil_or_concat (M :: Um) with e | ⟨C, a, e⟩
      · cases e
      · exact ⟨C, a, by rw [e]; simp⟩
    have eU2 : M :: (Um ++ [p]) = C ++ [uj, p] := by
      rw [show M :: (Um ++ [p]) = (M :: Um) ++ [p] by simp, hC]; simp
    have huj : lexlt p uj := by
      have : uj ∈ M :: Um := by rw [hC]; simp
      have hp' := hUdesc
      rw [show M :: (Um ++ [p]) = (M :: Um) ++ [p] by simp] at hp'
      exact (List.pairwise_append.mp hp').2.2 uj this p (by simp)
    have c3 : ∀ x ∈ S, 0 ≤ cross uj p x := by
      intro x hx
      have := UF.left x hx
      rw [eU2] at this
      exact (AllLeft_suffix x C [uj, p] this).1
    have c4 : ∀ x ∈ S, 0 ≤ cross p sec x := by
      intro x hx
      have := LF.left x hx
      rw [hsec] at this
      exact this.1
    have jm := junction_min S uj p sec huj hp_sec hsecS c3 c4 hnc
    rw [hclose]
    have e : p :: (Lm ++ M :: (Um ++ [p])) ++ [sec] = ((p :: Lm) ++ C) ++ [uj, p, sec] := by
      rw [show p :: (Lm ++ M :: (Um ++ [p])) ++ [sec] = (p :: Lm) ++ ((M :: Um) ++ [p, sec]) by simp, hC]
      simp
    rw [e, TurnsLeft_snoc]
    refine ⟨?_, jm⟩
    have e' : ((p :: Lm) ++ C) ++ [uj, p] = A ++ lk :: M :: u1 :: B := by
      rw [← eH, show p :: (Lm ++ M :: (Um ++ [p])) = (p :: Lm) ++ ((M :: Um) ++ [p]) by simp, hC]
      simp
    rw [e']; exact t1
  refine ⟨hsub, by rw [hHe]; rfl, ?_, ?_, hleft, hturn, ?_, ?_⟩
  · rw [hHe, show p :: (Lm ++ M :: (Um ++ [p])) = (p :: (Lm ++ M :: Um)) ++ [p] by simp]
    exact List.getLast?_concat ..
  · rw [hHe]; simp; omega
  · intro v hv
    rw [hclose]
    apply mem_middle p sec v
    rw [hHe] at hv
    rcases List.mem_cons.mp hv with e | e
    · rw [e]; simp
    · exact e
  · intro hcol
    -- no strict turn is possible: both chains have exactly two vertices
    have hLm : Lm = [] := by
      cases Lm with
      | nil => rfl
      | cons a t =>
        exfalso
        have ht := LF.turns
        obtain ⟨b, t', hb⟩ : ∃ b t', t ++ [M] = b :: t' := by
          cases t with
          | nil => exact ⟨M, [], rfl⟩
          | cons b t' => exact ⟨b, t' ++ [M], rfl⟩
        rw [show p :: (a :: t ++ [M]) = p :: a :: (t ++ [M]) by simp, hb] at ht
        have h0 := hcol p (by simp [S]) a (LF.sub a (by simp)) b (LF.sub b (by
          rw [show p :: (a :: t ++ [M]) = p :: a :: (t ++ [M]) by simp, hb]; simp))
        exact absurd ht.1 (by rw [h0]; exact lt_irrefl _)
    have hUm : Um = [] := by
      cases Um with
      | nil => rfl
      | cons a t =>
        exfalso
        have ht := UF.turns
        obtain ⟨b, t', hb⟩ : ∃ b t', t ++ [p] = b :: t' := by
          cases t with
          | nil => exact ⟨p, [], rfl⟩
          | cons b t' => exact ⟨b, t' ++ [p], rfl⟩
        rw [show M :: (a :: t ++ [p]) = M :: a :: (t ++ [p]) by simp, hb] at ht
        have hMS : M ∈ S := UF.sub M (by simp)
        have h0 := hcol M hMS a (UF.sub a (by simp)) b (UF.sub b (by
          rw [show M :: (a :: t ++ [p]) = M :: a :: (t ++ [p]) by simp, hb]; simp))
        exact absurd ht.1 (by rw [h0]; exact lt_irrefl _)
    refine ⟨M, by rw [hHe, hLm, hUm]; rfl, ?_⟩
    -- M is the last element of S
    have hne : S ≠ [] := by simp [S]
    cases hg : S.getLast? with
    | none => exact absurd (List.getLast?_eq_none_iff.mp hg) hne
    | some g =>
      have hgS : g ∈ S := List.mem_of_getLast? hg
      have hMS : M ∈ S := UF.sub M (by simp)
      have := ends_unique_max S g M hgS hMS (sorted_last_max S g hs hg)
        (UF.first M (by simp))
      rw [this]

theorem core_of (pts : List (Pt K)) (p q : Pt K) (rest : List (Pt K))
    (hS : sortDedupe pts = p :: q :: rest) : (p :: q :: rest).Pairwise lexlt ∧
    (∀ x, x ∈ p :: q :: rest ↔ x ∈ pts) := by
  rw [← hS]; exact ⟨sortDedupe_sorted pts, mem_sortDedupe pts⟩

theorem collinear_congr (S T : List (Pt K)) (h : ∀ x, x ∈ S ↔ x ∈ T) : Collinear S ↔ Collinear T := by
  unfold Collinear
  constructor
  · intro hc a ha b hb c hc'; exact hc a ((h a).mpr ha) b ((h b).mpr hb) c ((h c).mpr hc')
  · intro hc a ha b hb c hc'; exact hc a ((h a).mp ha) b ((h b).mp hb) c ((h c).mp hc')


end TW
