import Proofs.C12Lemmas
import Mathlib.Data.List.Perm.Basic
import Mathlib.Data.List.Nodup
import Model.Match

/-!
Helper lemmas for property C11 (`Model/Match.lean`): squared-distance triangle inequality,
membership in the specification matcher, permutation invariance of the 2-D histogram.
-/
open TW TW.Hist
set_option linter.unusedSectionVars false
set_option linter.unusedVariables false
set_option linter.unusedSimpArgs false

namespace TW.Match
variable {K : Type} [Field K] [LinearOrder K] [IsStrictOrderedRing K]

theorem dist2_eq (p q : K × K) : dist2 p q = (p.1 - q.1) ^ 2 + (p.2 - q.2) ^ 2 := by
  unfold dist2; ring

theorem dist2_nonneg (p q : K × K) : 0 ≤ dist2 p q := by
  rw [dist2_eq]; positivity

theorem dist2_comm (p q : K × K) : dist2 p q = dist2 q p := by
  rw [dist2_eq, dist2_eq]; ring

/-- translating both points does not change the distance -/
theorem dist2_sub_left (p o s : K × K) :
    dist2 (p.1 - o.1, p.2 - o.2) (p.1 - s.1, p.2 - s.2) = dist2 s o := by
  rw [dist2_eq, dist2_eq]; ring

/-- the triangle inequality, through squares: `‖p−q‖ ≤ a`, `‖q−r‖ ≤ b` give `‖p−r‖ ≤ a + b` -/
theorem dist2_triangle (p q r : K × K) (a b : K) (ha : 0 ≤ a) (hb : 0 ≤ b)
    (h1 : dist2 p q ≤ a ^ 2) (h2 : dist2 q r ≤ b ^ 2) : dist2 p r ≤ (a + b) ^ 2 := by
  rw [dist2_eq] at *
  set u1 := p.1 - q.1
  set u2 := p.2 - q.2
  set v1 := q.1 - r.1
  set v2 := q.2 - r.2
  have e1 : p.1 - r.1 = u1 + v1 := by simp [u1, v1]
  have e2 : p.2 - r.2 = u2 + v2 := by simp [u2, v2]
  rw [e1, e2]
  -- Cauchy–Schwarz: (u·v)² ≤ |u|²|v|² ≤ (ab)²
  have hcs : (u1 * v1 + u2 * v2) ^ 2 ≤ (a * b) ^ 2 := by
    have hl : (u1 * v1 + u2 * v2) ^ 2 ≤ (u1 ^ 2 + u2 ^ 2) * (v1 ^ 2 + v2 ^ 2) := by
      nlinarith [sq_nonneg (u1 * v2 - u2 * v1)]
    have hu : 0 ≤ u1 ^ 2 + u2 ^ 2 := by positivity
    have hv : 0 ≤ v1 ^ 2 + v2 ^ 2 := by positivity
    have : (u1 ^ 2 + u2 ^ 2) * (v1 ^ 2 + v2 ^ 2) ≤ a ^ 2 * b ^ 2 :=
      mul_le_mul h1 h2 hv (by positivity)
    calc (u1 * v1 + u2 * v2) ^ 2 ≤ _ := hl
      _ ≤ a ^ 2 * b ^ 2 := this
      _ = (a * b) ^ 2 := by ring
  have hdot : u1 * v1 + u2 * v2 ≤ a * b := by
    have := abs_le_of_sq_le_sq' hcs (mul_nonneg ha hb)
    exact this.2
  nlinarith

theorem sq_le_sq_of_le (a b : K) (ha : 0 ≤ a) (hab : a ≤ b) : a ^ 2 ≤ b ^ 2 := by
  nlinarith

theorem zip_fst_snd {α β : Type} (m : List (α × β)) : (m.map Prod.fst).zip (m.map Prod.snd) = m := by
  induction m with
  | nil => rfl
  | cons a m ih => simp [ih]

theorem getD_mem {α : Type} (l : List α) (i : ℕ) (d : α) (h : i < l.length) : l.getD i d ∈ l := by
  rw [List.getD_eq_getElem?_getD, List.getElem?_eq_getElem h]
  exact List.getElem_mem h

/-- membership in the specification matcher -/
theorem mem_specMatch (ref im : List (K × K)) (o : K × K) (tol : K) (q : ℕ × ℕ) :
    q ∈ specMatch ref im o tol ↔ q.1 < ref.length ∧ q.2 < im.length ∧
      dist2 ((im.getD q.2 (0, 0)).1 - o.1, (im.getD q.2 (0, 0)).2 - o.2) (ref.getD q.1 (0, 0))
        ≤ tol * tol := by
  unfold specMatch
  simp only [List.mem_flatMap, List.mem_filterMap, List.mem_range, zeroK_eq]
  constructor
  · rintro ⟨i, hi, j, hj, h⟩
    split at h
    · next hc =>
      simp only [Option.some.injEq] at h
      subst h
      rw [leK_iff] at hc
      exact ⟨hi, hj, hc⟩
    · simp at h
  · rintro ⟨h1, h2, h3⟩
    refine ⟨q.1, h1, q.2, h2, ?_⟩
    rw [if_pos (by rw [leK_iff]; exact h3)]

theorem nodup_specMatch (ref im : List (K × K)) (o : K × K) (tol : K) :
    (specMatch ref im o tol).Nodup := by
  unfold specMatch
  rw [List.nodup_flatMap]
  constructor
  · intro i _
    apply List.Nodup.filterMap _ List.nodup_range
    intro a a' b hb hb'
    simp only [Option.mem_def] at hb hb'
    split at hb
    · split at hb'
      · simp only [Option.some.injEq] at hb hb'
        rw [← hb'] at hb
        simp only [Prod.mk.injEq] at hb
        exact hb.2
      · simp at hb'
    · simp at hb
  · apply List.Pairwise.imp _ (List.pairwise_lt_range)
    intro a b hab x hx hx'
    simp only [List.mem_filterMap, List.mem_range] at hx hx'
    obtain ⟨j, _, h⟩ := hx
    obtain ⟨j', _, h'⟩ := hx'
    split at h
    · split at h'
      · simp only [Option.some.injEq] at h h'
        rw [← h'] at h
        simp only [Prod.mk.injEq] at h
        omega
      · simp at h'
    · simp at h

/-! ### permutation invariance of the histogram estimate -/

theorem pairBins_perm (img img' ref ref' : List (K × K)) (r : K) (R : ℕ)
    (hi : img'.Perm img) (hr : ref'.Perm ref) :
    (pairBins img' ref' r R).Perm (pairBins img ref r R) := by
  unfold pairBins
  refine List.Perm.trans (List.Perm.flatMap_right _ hi) ?_
  apply List.Perm.flatMap_left
  intro a _
  exact List.Perm.filterMap _ hr

theorem histOfBins_perm (n : ℕ) (bins bins' : List (ℕ × ℕ)) (h : bins'.Perm bins) :
    histOfBins n bins' = histOfBins n bins := by
  unfold histOfBins
  apply List.map_congr_left
  intro ky _
  apply List.map_congr_left
  intro kx _
  exact List.Perm.countP_eq _ (List.Perm.filter _ h)

section
variable [FloorRing K]

theorem estimateShift_perm (lsq : Lsq K) (img img' ref ref' : List (K × K)) (searchrad pscale : K)
    (hi : img'.Perm img) (hr : ref'.Perm ref) :
    estimateShift lsq img' ref' searchrad pscale = estimateShift lsq img ref searchrad pscale := by
  unfold estimateShift estimateShiftFull xy2dhist
  have := histOfBins_perm (2 * ceilNat (searchrad / pscale) + 1) _ _
    (pairBins_perm (img.map fun a => (a.1 / pscale, a.2 / pscale))
      (img'.map fun a => (a.1 / pscale, a.2 / pscale))
      (ref.map fun b => (b.1 / pscale, b.2 / pscale))
      (ref'.map fun b => (b.1 / pscale, b.2 / pscale)) (searchrad / pscale)
      (ceilNat (searchrad / pscale)) (List.Perm.map _ hi) (List.Perm.map _ hr))
  simp only [this]

end

end TW.Match
