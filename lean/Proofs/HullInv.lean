import Proofs.HullChain

open TW
set_option linter.unusedSectionVars false

namespace TW
variable {K : Type} [Field K] [LinearOrder K] [IsStrictOrderedRing K]

/-! ### three point-level consequences of `wedge_trans` -/

theorem turn_trans (a' a b p : Pt K) (h1 : lexlt a' a) (h2 : lexlt a b) (h3 : lexlt a p)
    (c1 : 0 ≤ cross a' a b) (c2 : 0 ≤ cross a b p) : 0 ≤ cross a' a p := by
  have e1 : cross a' a b = wedge (vsub a a') (vsub b a) := by
    simp only [cross_def, wedge, vsub]; ring
  have e2 : cross a b p = wedge (vsub b a) (vsub p a) := by
    simp only [cross_def, wedge, vsub]
  have e3 : cross a' a p = wedge (vsub a a') (vsub p a) := by
    simp only [cross_def, wedge, vsub]; ring
  rw [e3]
  exact wedge_trans _ _ _ (lexpos_vsub h1) (lexpos_vsub h2) (lexpos_vsub h3) (e1 ▸ c1) (e2 ▸ c2)

theorem edge_new_back (tm t p q : Pt K) (h1 : lexlt tm t) (h2 : lexlt t p) (h3 : lexlt q t)
    (c1 : 0 ≤ cross tm t q) (c2 : 0 ≤ cross tm t p) : 0 ≤ cross t p q := by
  have e1 : cross tm t q = wedge (vsub t q) (vsub t tm) := by
    simp only [cross_def, wedge, vsub]; ring
  have e2 : cross tm t p = wedge (vsub t tm) (vsub p t) := by
    simp only [cross_def, wedge, vsub]; ring
  have e3 : cross t p q = wedge (vsub t q) (vsub p t) := by
    simp only [cross_def, wedge, vsub]; ring
  rw [e3]
  exact wedge_trans _ _ _ (lexpos_vsub h3) (lexpos_vsub h1) (lexpos_vsub h2) (e1 ▸ c1) (e2 ▸ c2)

theorem edge_new_fwd (t c p q : Pt K) (h1 : lexlt t c) (h2 : lexlt t p) (h3 : lexlt t q)
    (c1 : 0 ≤ cross t c q) (c2 : ¬ 0 < cross t c p) : 0 ≤ cross t p q := by
  have e1 : cross t c q = wedge (vsub c t) (vsub q t) := by
    simp only [cross_def, wedge, vsub]
  have e2 : - cross t c p = wedge (vsub p t) (vsub c t) := by
    simp only [cross_def, wedge, vsub]; ring
  have e3 : cross t p q = wedge (vsub p t) (vsub q t) := by
    simp only [cross_def, wedge, vsub]
  rw [e3]
  apply wedge_trans _ _ _ (lexpos_vsub h2) (lexpos_vsub h1) (lexpos_vsub h3)
  · rw [← e2]; linarith [not_lt.mp c2]
  · rw [← e1]; exact c1

/-! ### the new point is on the left of every remaining edge -/

theorem edgesLeft_new (p : Pt K) : ∀ r : List (Pt K), r.Pairwise (fun x y => lexlt y x) → Convex r →
    (∀ s ∈ r, lexlt s p) → (∀ b a rest, r = b :: a :: rest → 0 ≤ cross a b p) → EdgesLeft p r := by
  intro r
  induction r with
  | nil => intros; trivial
  | cons b tl ih =>
    intro hd hc hlt htop
    match tl, ih, hd, hc, hlt, htop with
    | [], _, _, _, _, _ => trivial
    | [a], _, _, _, _, htop => exact ⟨htop b a [] rfl, trivial⟩
    | a :: am :: rest, ih, hd, hc, hlt, htop =>
      refine ⟨htop b a _ rfl, ?_⟩
      apply ih
      · exact (List.pairwise_cons.mp hd).2
      · exact hc.2
      · intro s hs; exact hlt s (List.mem_cons_of_mem _ hs)
      · intro b2 a2 rest2 he
        injection he with e1 e2
        injection e2 with e2 e3
        subst e1; subst e2
        have hab : lexlt a b := (List.pairwise_cons.mp hd).1 a (by simp)
        have ham : lexlt am a := by
          have := (List.pairwise_cons.mp hd).2
          exact (List.pairwise_cons.mp this).1 am (by simp)
        exact turn_trans am a b p ham hab (hlt a (by simp)) (le_of_lt hc.1) (htop b a _ rfl)

/-- invariant of one monotone chain: `done` are the points processed so far (in order),
`st` the stack, most recent first -/
structure ChainInv (done st : List (Pt K)) : Prop where
  desc : st.Pairwise (fun x y => lexlt y x)
  convex : Convex st
  left : ∀ q ∈ done, EdgesLeft q st
  sub : ∀ s ∈ st, s ∈ done
  top : ∀ q ∈ done, ∀ t, st.head? = some t → q = t ∨ lexlt q t
  bot : ∀ q ∈ done, ∀ b, st.getLast? = some b → q = b ∨ lexlt b q
  ne : done ≠ [] → st ≠ []

theorem chainInv_nil : ChainInv ([] : List (Pt K)) [] := by
  refine ⟨List.Pairwise.nil, trivial, ?_, ?_, ?_, ?_, ?_⟩
  · intro q hq; cases hq
  · intro s hs; cases hs
  · intro q hq; cases hq
  · intro q hq; cases hq
  · intro h; exact absurd rfl h

theorem push_inv (done st : List (Pt K)) (p : Pt K) (h : ChainInv done st)
    (hp : ∀ q ∈ done, lexlt q p) : ChainInv (done ++ [p]) (pushPt st p) := by
  obtain ⟨⟨pre, hpre⟩, hne, htop, hpop⟩ := popWhile_spec p st
  set r := popWhile p st with hr
  have hsub_r : ∀ s ∈ r, s ∈ st := by
    intro s hs; rw [hpre]; exact List.mem_append_right _ hs
  have hr_lt : ∀ s ∈ r, lexlt s p := fun s hs => hp s (h.sub s (hsub_r s hs))
  have hdesc_r : r.Pairwise (fun x y => lexlt y x) := by
    have := h.desc; rw [hpre] at this; exact (List.pairwise_append.mp this).2.1
  have hconv_r : Convex r := by
    have := h.convex; rw [hpre] at this; exact Convex_suffix pre r this
  have hleft_r : ∀ q ∈ done, EdgesLeft q r := by
    intro q hq; have := h.left q hq; rw [hpre] at this; exact EdgesLeft_suffix q pre r this
  have hlast : st ≠ [] → r.getLast? = st.getLast? := by
    intro hst
    have hrne := hne hst
    conv_rhs => rw [hpre]
    rw [List.getLast?_append_of_ne_nil _ hrne]
  show ChainInv (done ++ [p]) (p :: r)
  refine ⟨?_, ?_, ?_, ?_, ?_, ?_, ?_⟩
  · -- descending
    exact List.pairwise_cons.mpr ⟨hr_lt, hdesc_r⟩
  · -- convex
    cases hrr : r with
    | nil => trivial
    | cons t rest =>
      cases rest with
      | nil => trivial
      | cons tm rest' =>
        exact ⟨htop t tm rest' hrr, hrr ▸ hconv_r⟩
  · -- every processed point is left of every edge
    intro q hq
    cases hrr : r with
    | nil => trivial
    | cons t rest =>
      have ht_r : t ∈ r := by rw [hrr]; simp
      have htp : lexlt t p := hr_lt t ht_r
      rcases List.mem_append.mp hq with hqd | hqp
      · refine ⟨?_, hrr ▸ hleft_r q hqd⟩
        -- the new edge t → p against an old point q
        rcases lexlt_trichotomy q t with hqt | hqt | hqt
        · -- q before t: use the edge entering t
          cases rest with
          | nil =>
            -- t is the bottom of the stack, i.e. the smallest processed point
            have hst : st ≠ [] := fun e => by rw [e] at hpre; simp at hpre; rw [hpre.2] at hrr; cases hrr
            have : r.getLast? = some t := by rw [hrr]; rfl
            rw [hlast hst] at this
            rcases h.bot q hqd t this with e | e
            · rw [e]; rw [cross_cyc]; exact le_of_eq (cross_self_right _ _).symm
            · exact absurd (lexlt_trans hqt e) (lexlt_irrefl _)
          | cons tm rest' =>
            have htm : lexlt tm t := by
              have := hrr ▸ hdesc_r
              exact (List.pairwise_cons.mp this).1 tm (by simp)
            have c1 : 0 ≤ cross tm t q := (hrr ▸ hleft_r q hqd).1
            have c2 : 0 ≤ cross tm t p := le_of_lt (htop t tm rest' hrr)
            exact edge_new_back tm t p q htm htp hqt c1 c2
        · rw [hqt, cross_cyc]; exact le_of_eq (cross_self_right _ _).symm
        · -- q beyond t: something was popped; use the popped successor of t
          rcases hpop with heq | ⟨pre', c, t', rest', hst, hr', hcr⟩
          · -- nothing popped: t is the top of st, the largest processed point
            have : st.head? = some t := by rw [← heq, hrr]; rfl
            rcases h.top q hqd t this with e | e
            · rw [e] at hqt; exact absurd hqt (lexlt_irrefl _)
            · exact absurd (lexlt_trans hqt e) (lexlt_irrefl _)
          · rw [hrr] at hr'
            injection hr' with e1 e2
            subst e1
            have hc_st : c ∈ st := by rw [hst]; simp
            have htc : lexlt t c := by
              have := h.desc; rw [hst] at this
              have := (List.pairwise_append.mp this).2.1
              exact (List.pairwise_cons.mp this).1 t (by simp)
            have c1 : 0 ≤ cross t c q := by
              have := h.left q hqd; rw [hst] at this
              exact EdgesLeft_mid q pre' c t rest' this
            exact edge_new_fwd t c p q htc htp hqt c1 hcr
      · -- q = p
        have hqp' : q = p := by simpa using hqp
        subst hqp'
        refine ⟨le_of_eq (cross_self_right _ _).symm, ?_⟩
        rw [← hrr]
        apply edgesLeft_new q r hdesc_r hconv_r hr_lt
        intro b a rest he
        exact le_of_lt (htop b a rest he)
  · -- stack vertices are processed points
    intro s hs
    rcases List.mem_cons.mp hs with e | e
    · rw [e]; simp
    · exact List.mem_append_left _ (h.sub s (hsub_r s e))
  · -- the top is the largest processed point
    intro q hq t ht
    simp only [List.head?_cons, Option.some.injEq] at ht
    subst ht
    rcases List.mem_append.mp hq with hqd | hqp
    · exact Or.inr (hp q hqd)
    · left; simpa using hqp
  · -- the bottom is the smallest processed point
    intro q hq b hb
    by_cases hst : st = []
    · have hd : done = [] := by
        by_contra hdn; exact h.ne hdn hst
      have hrnil : r = [] := by rw [hr, hst, popWhile_nil]
      rw [hrnil] at hb
      simp only [List.getLast?_singleton, Option.some.injEq] at hb
      subst hb
      rw [hd] at hq
      left; simpa using hq
    · have hrne := hne hst
      have hb' : r.getLast? = some b := by
        rw [List.getLast?_cons_of_ne_nil hrne] at hb  -- may need adjusting
        exact hb
      rw [hlast hst] at hb'
      rcases List.mem_append.mp hq with hqd | hqp
      · exact h.bot q hqd b hb'
      · have hqp' : q = p := by simpa using hqp
        subst hqp'
        have hb_st : b ∈ st := List.mem_of_getLast? hb'
        exact Or.inr (hp b (h.sub b hb_st))
  · intro _; simp

end TW
